import DimodProofs.BqmVartype

/-! `update(other)`, `add_linear_from`, `add_quadratic_from` issued on the model itself refine loops of single-term
    steps on the label-keyed polynomial.  `other` is read through the view of the receiver's vartype, so the
    numbers added are the view's readings of `other` (`viewLin`, `viewFactor`, `viewOff`).  Core Lean only. -/

namespace Bqm

/-! ### what a view of vartype `tv` reads from a polynomial -/

def LPoly.sumNb (q : LPoly) (l : Label) : Rat := (q.nbrs l).foldl (fun a lc => a + lc.2) 0

def LPoly.viewLin (q : LPoly) (tv : VT) (l : Label) : Rat :=
  if tv = q.vt then q.lin l else
  match tv with
  | .binary => 2 * q.lin l - 2 * q.sumNb l
  | .spin => q.lin l / 2 + q.sumNb l / 4

def LPoly.viewFactor (q : LPoly) (tv : VT) : Rat :=
  if tv = q.vt then 1 else match tv with | .binary => 4 | .spin => 1/4

/-- position of a label in the variable order -/
def LPoly.pos (q : LPoly) (l : Label) : Nat := (indexOfGo l q.vars 0).getD 0

/-- the interactions once each, `(u, v, bias)` with `v` before `u` in variable order, in iteration order -/
def LPoly.lower (q : LPoly) : List (Label × Label × Rat) :=
  q.vars.flatMap fun u => ((q.nbrs u).filter fun lc => decide (q.pos lc.1 < q.pos u)).map fun lc => (u, lc.1, lc.2)

def LPoly.sumLin (q : LPoly) : Rat := q.vars.foldl (fun a l => a + q.lin l) 0
def LPoly.sumQuad (q : LPoly) : Rat := q.lower.foldl (fun a t => a + t.2.2) 0

def LPoly.viewOff (q : LPoly) (tv : VT) : Rat :=
  if tv = q.vt then q.off else
  match tv with
  | .binary => q.off - q.sumLin + q.sumQuad
  | .spin => q.off + q.sumLin / 2 + q.sumQuad / 4

/-- `update(other)` on the polynomial -/
def LPoly.update (p q : LPoly) : LPoly :=
  let p1 := q.vars.foldl (fun acc l => acc.addLinear l (q.viewLin p.vt l)) p
  let p2 := q.lower.foldl (fun acc t => acc.quadOp t.1 t.2.1 (q.viewFactor p.vt * t.2.2) false) p1
  { p2 with off := p2.off + q.viewOff p.vt }

/-! ### the readings of the model are the readings of its polynomial -/

theorem getD_label {o : Bqm} {j : Nat} (hj : j < o.labels.length) : o.labels[j]? = some (o.labels.getD j (.int 0)) := by
  simp [List.getD, List.getElem?_eq_getElem hj]

theorem pos_absL {o : Bqm} (i : Inv o) {j : Nat} (hj : j < o.labels.length) : (absL o).pos (o.labels.getD j (.int 0)) = j := by
  have := indexOf?_of_get i.nodup (getD_label hj)
  unfold LPoly.pos
  show (indexOfGo _ o.labels 0).getD 0 = j
  unfold Bqm.indexOf? at this
  rw [this]; rfl

theorem sumNb_absL {o : Bqm} (i : Inv o) {j : Nat} (hj : j < o.labels.length) :
    (absL o).sumNb (o.labels.getD j (.int 0)) = o.sumNbh j :=
  foldl_nbh i j hj (fun a b => a + b) 0

theorem viewLin_absL {o : Bqm} (i : Inv o) (tv : VT) {j : Nat} (hj : j < o.labels.length) :
    (absL o).viewLin tv (o.labels.getD j (.int 0)) = o.vGetLinear tv j := by
  unfold LPoly.viewLin Bqm.vGetLinear
  rw [sumNb_absL i hj, lin_absL (indexOf?_of_get i.nodup (getD_label hj))]
  rfl

theorem viewFactor_absL (o : Bqm) (tv : VT) : (absL o).viewFactor tv = o.vQuadFactor tv := rfl

theorem flatMap_congr_mem {α β} (l : List α) (f g : α → List β) (h : ∀ x ∈ l, f x = g x) : l.flatMap f = l.flatMap g := by
  induction l with
  | nil => rfl
  | cons a t ih =>
    simp only [List.flatMap_cons, h a (by simp)]
    rw [ih (fun x hx => h x (List.mem_cons_of_mem _ hx))]

theorem filter_congr_mem {α} (l : List α) (f g : α → Bool) (h : ∀ x ∈ l, f x = g x) : l.filter f = l.filter g := by
  induction l with
  | nil => rfl
  | cons a t ih =>
    simp only [List.filter_cons, h a (by simp)]
    rw [ih (fun x hx => h x (List.mem_cons_of_mem _ hx))]

theorem nbh_bound {o : Bqm} (i : Inv o) (u : Nat) : ∀ p ∈ o.nbhAt u, p.1 < o.labels.length := by
  intro p hp
  rw [i.wf.labels_len]
  apply i.wf.adj.bound u p.1
  show (nbhCoef (o.adj.getD u []) p.1).isSome
  rw [nbhCoef_isSome_iff]; exact ⟨p, hp, rfl⟩

/-- the polynomial's lower-triangle list is the stored one, labels for indices -/
theorem lower_absL {o : Bqm} (i : Inv o) :
    (absL o).lower = o.lowerTriples.map fun t => (o.labels.getD t.1 (.int 0), o.labels.getD t.2.1 (.int 0), t.2.2) := by
  have hadj : o.adj.length = o.labels.length := by rw [i.wf.adj.len, i.wf.labels_len]
  unfold LPoly.lower Bqm.lowerTriples
  show o.labels.flatMap _ = _
  conv => lhs; rw [list_eq_map_range o.labels (.int 0)]
  rw [List.flatMap_map, List.map_flatMap, hadj]
  apply flatMap_congr_mem
  intro u hu
  have hu' : u < o.labels.length := List.mem_range.mp hu
  rw [nbrs_absL i (indexOf?_of_get i.nodup (getD_label hu')), List.filter_map, List.map_map, List.map_map]
  congr 1
  apply filter_congr_mem
  intro p hp
  show decide ((absL o).pos (o.labels.getD p.1 (.int 0)) < (absL o).pos (o.labels.getD u (.int 0))) = decide (p.1 < u)
  rw [pos_absL i (nbh_bound i u p hp), pos_absL i hu']

theorem lowerTriples_bound {o : Bqm} (i : Inv o) : ∀ t ∈ o.lowerTriples, t.1 < o.labels.length ∧ t.2.1 < t.1 := by
  have hadj : o.adj.length = o.labels.length := by rw [i.wf.adj.len, i.wf.labels_len]
  intro t ht
  unfold Bqm.lowerTriples at ht
  obtain ⟨u, hu, htu⟩ := List.mem_flatMap.mp ht
  obtain ⟨p, hp, hpt⟩ := List.mem_map.mp htu
  have hu' : u < o.labels.length := by rw [← hadj]; exact List.mem_range.mp hu
  have hlt : p.1 < u := by simpa using (List.mem_filter.mp hp).2
  rw [← hpt]; exact ⟨hu', hlt⟩

theorem sumLin_absL {o : Bqm} (i : Inv o) : (absL o).sumLin = o.sumLin := by
  unfold LPoly.sumLin Bqm.sumLin
  show o.labels.foldl (fun a l => a + o.linL l) 0 = o.lin.foldl (· + ·) 0
  rw [foldl_eq_range o.lin _ _ 0, foldl_eq_range o.labels _ _ (.int 0), ← i.wf.labels_len]
  apply foldl_congr_mem
  intro acc j hj
  have hj' : j < o.labels.length := List.mem_range.mp hj
  unfold linL; rw [indexOf?_of_get i.nodup (getD_label hj')]

theorem sumQuad_absL {o : Bqm} (i : Inv o) : (absL o).sumQuad = o.sumQuad := by
  unfold LPoly.sumQuad Bqm.sumQuad
  rw [lower_absL i, List.foldl_map]

theorem viewOff_absL {o : Bqm} (i : Inv o) (tv : VT) : (absL o).viewOff tv = o.vOffset tv := by
  unfold LPoly.viewOff Bqm.vOffset
  rw [sumLin_absL i, sumQuad_absL i]; rfl

/-! ### folds of refining steps -/

theorem fold_refines {α} (xs : List α) (stepM : Bqm → α → Bqm) (stepS : LPoly → α → LPoly) (Q : Bqm → Prop)
    (good : α → Prop) (hgood : ∀ x ∈ xs, good x)
    (href : ∀ acc, Inv acc → Q acc → ∀ x, good x →
      absL (stepM acc x) = stepS (absL acc) x ∧ Inv (stepM acc x) ∧ Q (stepM acc x)) :
    ∀ acc, Inv acc → Q acc →
      absL (xs.foldl stepM acc) = xs.foldl stepS (absL acc) ∧ Inv (xs.foldl stepM acc) ∧ Q (xs.foldl stepM acc) := by
  induction xs with
  | nil => intro acc ia qa; exact ⟨rfl, ia, qa⟩
  | cons x t ih =>
    intro acc ia qa
    have r := href acc ia qa x (hgood x (by simp))
    simp only [List.foldl]
    rw [← r.1]
    exact ih (fun y hy => hgood y (List.mem_cons_of_mem _ hy)) _ r.2.1 r.2.2

theorem vAddLinear_self {m : Bqm} {tv : VT} (h : m.vt = tv) (v : Label) (b : Rat) : m.vAddLinear tv v b = m.addLinear v b := by
  unfold Bqm.vAddLinear; simp [h]

theorem vAddQuadratic_self {m : Bqm} {tv : VT} (h : m.vt = tv) (u v : Label) (b : Rat) :
    m.vAddQuadratic tv u v b = (m.quadOp u v b false).1 := by
  unfold Bqm.vAddQuadratic; simp [h]

theorem filterMap_eq_map_of {α β} (l : List α) (F : α → Option β) (G : α → β) (h : ∀ x ∈ l, F x = some (G x)) :
    l.filterMap F = l.map G := by
  induction l with
  | nil => rfl
  | cons a t ih =>
    simp only [List.filterMap_cons, h a (by simp), List.map_cons]
    rw [ih (fun x hx => h x (List.mem_cons_of_mem _ hx))]

theorem nodup_getD_ne {ls : List Label} (hn : ls.Nodup) {a b : Nat} (ha : a < ls.length) (hb : b < ls.length) (hab : a ≠ b) :
    ls.getD a (.int 0) ≠ ls.getD b (.int 0) := by
  intro e
  apply hab
  apply nodup_getElem?_inj ls hn a b ha hb
  rw [List.getElem?_eq_getElem ha, List.getElem?_eq_getElem hb]
  have h1 : ls.getD a (.int 0) = ls[a] := by simp [List.getD, List.getElem?_eq_getElem ha]
  have h2 : ls.getD b (.int 0) = ls[b] := by simp [List.getD, List.getElem?_eq_getElem hb]
  rw [h1, h2] at e
  rw [e]

/-- `update(other)` issued on the model itself (`other` any well-formed model, of either vartype, possibly the
    receiver itself): the polynomial after is `LPoly.update` of the two polynomials -/
theorem update_refines {m o : Bqm} (i : Inv m) (io : Inv o) :
    absL (m.vUpdate m.vt o) = (absL m).update (absL o) ∧ Inv (m.vUpdate m.vt o) := by
  unfold Bqm.vUpdate LPoly.update
  rw [absL_vt]
  dsimp only
  -- the linear pass
  have hlins : ((List.range o.labels.length).filterMap fun j => (o.labels[j]?).map fun l => (l, o.vGetLinear m.vt j))
      = o.labels.map fun l => (l, (absL o).viewLin m.vt l) := by
    conv => rhs; rw [list_eq_map_range o.labels (.int 0)]
    rw [List.map_map]
    apply filterMap_eq_map_of
    intro j hj
    have hj' : j < o.labels.length := List.mem_range.mp hj
    rw [getD_label hj']
    simp only [Option.map_some, Function.comp, viewLin_absL io m.vt hj']
  rw [hlins, List.foldl_map]
  have f1 := fold_refines o.labels (fun acc l => acc.vAddLinear m.vt l ((absL o).viewLin m.vt l))
    (fun acc l => acc.addLinear l ((absL o).viewLin m.vt l)) (fun acc => acc.vt = m.vt) (fun _ => True)
    (fun _ _ => trivial)
    (by
      intro acc ia qa l _
      rw [vAddLinear_self qa]
      exact ⟨addLinear_refines ia.wf l _, ia.addLinear l _, by rw [vt_addLinear]; exact qa⟩)
    m i rfl
  -- the quadratic pass
  have hquads : o.lowerTriples.filterMap (o.labelTriple (o.vQuadFactor m.vt))
      = (absL o).lower.map fun t => (t.1, t.2.1, (absL o).viewFactor m.vt * t.2.2) := by
    rw [lower_absL io, List.map_map]
    apply filterMap_eq_map_of
    intro t ht
    have hb := lowerTriples_bound io t ht
    unfold Bqm.labelTriple
    rw [getD_label hb.1, getD_label (show t.2.1 < o.labels.length by omega)]
    rfl
  rw [hquads, List.foldl_map]
  have hgood : ∀ t ∈ (absL o).lower, t.1 ≠ t.2.1 := by
    intro t ht
    rw [lower_absL io] at ht
    obtain ⟨s, hs, hst⟩ := List.mem_map.mp ht
    have hb := lowerTriples_bound io s hs
    rw [← hst]
    exact nodup_getD_ne io.nodup hb.1 (by omega) (by omega)
  have f2 := fold_refines (absL o).lower
    (fun acc t => acc.vAddQuadratic m.vt t.1 t.2.1 ((absL o).viewFactor m.vt * t.2.2))
    (fun acc t => acc.quadOp t.1 t.2.1 ((absL o).viewFactor m.vt * t.2.2) false) (fun acc => acc.vt = m.vt)
    (fun t => t.1 ≠ t.2.1) hgood
    (by
      intro acc ia qa t ht
      rw [vAddQuadratic_self qa]
      exact ⟨quadOp_refines ia.wf _ _ _ _ ht, ia.quadOp _ _ _ _, by rw [vt_quadOp]; exact qa⟩)
    _ f1.2.1 f1.2.2
  rw [f1.1] at f2
  -- the offset
  generalize hm2 : List.foldl (fun acc t => acc.vAddQuadratic m.vt t.1 t.2.1 ((absL o).viewFactor m.vt * t.2.2))
    (List.foldl (fun acc l => acc.vAddLinear m.vt l ((absL o).viewLin m.vt l)) m o.labels) (absL o).lower = m2 at f2 ⊢
  have e : m2.vSetOffset m.vt (m2.vOffset m.vt + o.vOffset m.vt) = { m2 with off := m2.off + o.vOffset m.vt } := by
    unfold Bqm.vSetOffset Bqm.vOffset; simp [f2.2.2]
  have hoff : m2.off = (absL m2).off := rfl
  rw [e, absL_withOff, hoff, f2.1, ← viewOff_absL io]
  exact ⟨rfl, f2.2.1.withOff _⟩

/-! ### bulk adders: a left fold that stops at the first element that raises, keeping what was applied -/

def LPoly.addLinearFrom (p : LPoly) : List (Option Label × Rat) → LPoly × Bool
  | [] => (p, true)
  | (none, _) :: _ => (p, false)
  | (some v, b) :: t => LPoly.addLinearFrom (p.addLinear v b) t

def LPoly.addQuadraticFrom (p : LPoly) : List (Option Label × Option Label × Rat) → LPoly × Bool
  | [] => (p, true)
  | (some u, some v, b) :: t => if u = v then (p, false) else LPoly.addQuadraticFrom (p.quadOp u v b false) t
  | _ :: _ => (p, false)

theorem addLinearFrom_refines {m : Bqm} (i : Inv m) (l : List (Option Label × Rat)) :
    absL (m.vAddLinearFrom m.vt l).1 = ((absL m).addLinearFrom l).1 ∧
    ((m.vAddLinearFrom m.vt l).2 = none ↔ ((absL m).addLinearFrom l).2 = true) ∧
    Inv (m.vAddLinearFrom m.vt l).1 := by
  suffices h : ∀ (tv : VT) (m : Bqm), Inv m → m.vt = tv →
      absL (m.vAddLinearFrom tv l).1 = ((absL m).addLinearFrom l).1 ∧
      ((m.vAddLinearFrom tv l).2 = none ↔ ((absL m).addLinearFrom l).2 = true) ∧ Inv (m.vAddLinearFrom tv l).1 from
    h m.vt m i rfl
  intro tv
  induction l with
  | nil => intro m i _; exact ⟨rfl, by simp [Bqm.vAddLinearFrom, LPoly.addLinearFrom], i⟩
  | cons x t ih =>
    intro m i hvt
    obtain ⟨v, b⟩ := x
    cases v with
    | none => exact ⟨rfl, by simp [Bqm.vAddLinearFrom, LPoly.addLinearFrom], i⟩
    | some v =>
      simp only [Bqm.vAddLinearFrom, LPoly.addLinearFrom]
      rw [vAddLinear_self hvt, ← addLinear_refines i.wf v b]
      exact ih _ (i.addLinear v b) (by rw [vt_addLinear]; exact hvt)

theorem addQuadraticFrom_refines {m : Bqm} (i : Inv m) (l : List (Option Label × Option Label × Rat)) :
    absL (m.vAddQuadraticFrom m.vt l).1 = ((absL m).addQuadraticFrom l).1 ∧
    ((m.vAddQuadraticFrom m.vt l).2 = none ↔ ((absL m).addQuadraticFrom l).2 = true) ∧
    Inv (m.vAddQuadraticFrom m.vt l).1 := by
  suffices h : ∀ (tv : VT) (m : Bqm), Inv m → m.vt = tv →
      absL (m.vAddQuadraticFrom tv l).1 = ((absL m).addQuadraticFrom l).1 ∧
      ((m.vAddQuadraticFrom tv l).2 = none ↔ ((absL m).addQuadraticFrom l).2 = true) ∧
      Inv (m.vAddQuadraticFrom tv l).1 from h m.vt m i rfl
  intro tv
  induction l with
  | nil => intro m i _; exact ⟨rfl, by simp [Bqm.vAddQuadraticFrom, LPoly.addQuadraticFrom], i⟩
  | cons x t ih =>
    intro m i hvt
    obtain ⟨u, v, b⟩ := x
    cases u with
    | none => exact ⟨rfl, by simp [Bqm.vAddQuadraticFrom, LPoly.addQuadraticFrom], i⟩
    | some u =>
      cases v with
      | none => exact ⟨rfl, by simp [Bqm.vAddQuadraticFrom, LPoly.addQuadraticFrom], i⟩
      | some v =>
        simp only [Bqm.vAddQuadraticFrom, LPoly.addQuadraticFrom]
        by_cases huv : u = v
        · simp only [huv, if_true]; exact ⟨trivial, by simp, i⟩
        · simp only [huv, if_false]
          rw [vAddQuadratic_self hvt, ← quadOp_refines i.wf u v b false huv]
          exact ih _ (i.quadOp u v b false) (by rw [vt_quadOp]; exact hvt)

end Bqm
