import DimodProofs.C02Var

/-! # C03 — the CQM in-place path on expressions over *global* variable indices

`CqmC.fixVariable m v a = (m.substituteVariable v 0 a).removeVariable v`; `removeVariable` re-indexes every expression
(`Expression::reindex_variables`). -/

namespace En

variable {R : Type} [CommRing R]

namespace Expr

theorem localOf_substituteVariable (e : Expr R) (g g' : Nat) (mult c : R) :
    (e.substituteVariable g mult c).localOf? g' = e.localOf? g' := by
  unfold substituteVariable
  cases h : e.localOf? g <;> rfl

theorem vars_substituteVariable (e : Expr R) (g : Nat) (mult c : R) : (e.substituteVariable g mult c).vars = e.vars := by
  unfold substituteVariable
  cases h : e.localOf? g <;> rfl

theorem getD_map_dec (l : List Nat) (g j : Nat) (hj : j < l.length) :
    (l.map fun u => if u > g then u - 1 else u).getD j 0 = unskip g (l.getD j 0) := by
  rw [List.getD_eq_getElem?_getD, List.getElem?_map, List.getD_eq_getElem?_getD, List.getElem?_eq_getElem hj]
  rfl

/-- **in-place fixing of one expression of a CQM**: `substitute_variable(g, 0, a)` followed by `reindex_variables(g)`.
    `X'` assigns the remaining global variables (indices shifted down past `g`), `X` is `X'` extended by `g ↦ a`. -/
theorem fixInplace_energy (e : Expr R) (he : e.WF) (g : Nat) (a : R) (X' X : Nat → R)
    (hXg : X g = a) (hXs : ∀ k, X (skip g k) = X' k) :
    ((e.substituteVariable g 0 a).reindexVariables g).energyCpp X' = e.energyCpp X := by
  have hX : ∀ w, w ≠ g → X w = X' (unskip g w) := by
    intro w hw
    rw [← hXs (unskip g w), skip_unskip g w hw]
  unfold reindexVariables energyCpp
  rw [localOf_substituteVariable]
  cases h : e.localOf? g with
  | none =>
    have hg := localOf_none e g h
    simp only [vars_substituteVariable]
    have : (e.substituteVariable g 0 a).qb = e.qb := by
      unfold substituteVariable; rw [h]
    rw [this]
    apply QMB.energy_congr e.qb he.qb
    intro j hj
    have hj' : j < e.vars.length := by rw [he.len]; exact hj
    show X' ((e.vars.map fun u => if u > g then u - 1 else u).getD j 0) = X (e.vars.getD j 0)
    rw [getD_map_dec e.vars g j hj']
    have hne : e.vars.getD j 0 ≠ g := by
      intro heq; apply hg
      rw [← heq, List.getD_eq_getElem?_getD, List.getElem?_eq_getElem hj']
      exact List.getElem_mem hj'
    rw [hX _ hne]
  | some i =>
    have hi := localOf_some e g i h
    have hil : i < e.vars.length := by
      rcases Nat.lt_or_ge i e.vars.length with h' | h'
      · exact h'
      · rw [List.getElem?_eq_none h'] at hi; cases hi
    have hig : e.vars.getD i 0 = g := by rw [List.getD_eq_getElem?_getD, hi]; rfl
    have hqb : (e.substituteVariable g 0 a).qb = e.qb.substituteVariable i 0 a := by
      unfold substituteVariable; rw [h]
    simp only [vars_substituteVariable, hqb]
    have hin : i < e.qb.n := by rw [← he.len]; exact hil
    apply QMB.substitute_remove_energy e.qb he.qb i hin a
    · show X (e.vars.getD i 0) = a
      rw [hig, hXg]
    · intro j hj
      show X (e.vars.getD (skip i j) 0) = X' (((e.vars.eraseIdx i).map fun u => if u > g then u - 1 else u).getD j 0)
      have hlen : j < (e.vars.eraseIdx i).length := by
        rw [List.length_eraseIdx]; simp only [hil, if_true]; rw [he.len]; exact hj
      rw [getD_map_dec _ g j hlen, getD_eraseIdx]
      have hsl : skip i j < e.vars.length := by rw [he.len]; exact skip_lt i j e.qb.n hin hj
      have hne : e.vars.getD (skip i j) 0 ≠ g := by
        rw [← hig]
        exact getD_ne_of_nodup e he i (skip i j) hil hsl (skip_ne i j)
      rw [hX _ hne]

end Expr

namespace CqmC

/-- **`fix_variable` of a CQM in place** (repaired, D4): the objective and every constraint left-hand side take, at every
    assignment `X'` of the remaining variables, the value the original has at `X'` extended by `v ↦ a` — also when `v`
    occurs in only some expressions or carries a squared term; sense, rhs, weight, penalty and the constraints' order
    are unchanged -/
theorem fixVariable_spec (m : CqmC R) (hm : m.WF) (v : Nat) (a : R) (X' X : Nat → R)
    (hXv : X v = a) (hXs : ∀ k, X (skip v k) = X' k) :
    let m' := m.fixVariable v a
    m'.obj.energyCpp X' = m.obj.energyCpp X ∧ m'.cons.length = m.cons.length ∧
    ∀ i (hi : i < m.cons.length) (hi' : i < m'.cons.length),
      m'.cons[i].e.energyCpp X' = m.cons[i].e.energyCpp X ∧
      m'.cons[i].sense = m.cons[i].sense ∧ m'.cons[i].rhs = m.cons[i].rhs ∧
      m'.cons[i].weight = m.cons[i].weight ∧ m'.cons[i].quadPenalty = m.cons[i].quadPenalty := by
  intro m'
  refine ⟨Expr.fixInplace_energy m.obj hm.1 v a X' X hXv hXs,
    by simp [m', fixVariable, removeVariable, substituteVariable, mapExprs], ?_⟩
  intro i hi hi'
  have : m'.cons[i] = { m.cons[i] with e := (m.cons[i].e.substituteVariable v 0 a).reindexVariables v } := by
    simp [m', fixVariable, removeVariable, substituteVariable, mapExprs]
  rw [this]
  exact ⟨Expr.fixInplace_energy _ (hm.2 _ (List.getElem_mem hi)) v a X' X hXv hXs, rfl, rfl, rfl, rfl⟩

/-- variable information of the remaining variables moves with them -/
theorem fixVariable_info (m : CqmC R) (v : Nat) (a : R) : (m.fixVariable v a).info = m.info.eraseIdx v := by
  simp [fixVariable, removeVariable, substituteVariable, mapExprs]

end CqmC

end En

/-! ## iterating the in-place path -/

namespace En

variable {R : Type} [CommRing R]

theorem dec_inj_on (g a b : Nat) (ha : a ≠ g) (hb : b ≠ g)
    (h : (if a > g then a - 1 else a) = (if b > g then b - 1 else b)) : a = b := by
  split at h <;> split at h <;> omega

/-- the expression left by the in-place path is again well-formed (so fixing can be repeated) -/
theorem Expr.WF_fixInplace (e : Expr R) (he : e.WF) (g : Nat) (a : R) :
    ((e.substituteVariable g 0 a).reindexVariables g).WF := by
  have hs := Expr.WF_substituteVariable e he g 0 a
  unfold Expr.reindexVariables
  rw [Expr.localOf_substituteVariable]
  cases h : e.localOf? g with
  | none =>
    have hg := Expr.localOf_none e g h
    simp only [Expr.vars_substituteVariable]
    refine ⟨hs.qb, by simp only [List.length_map]; rw [← Expr.vars_substituteVariable e g 0 a]; exact hs.len, ?_⟩
    apply List.Nodup.map_on _ he.nodup
    intro x hx y hy hxy
    exact dec_inj_on g x y (fun e' => hg (e' ▸ hx)) (fun e' => hg (e' ▸ hy)) hxy
  | some i =>
    have hi := Expr.localOf_some e g i h
    have hil : i < e.vars.length := by
      rcases Nat.lt_or_ge i e.vars.length with h' | h'
      · exact h'
      · rw [List.getElem?_eq_none h'] at hi; cases hi
    have hig : e.vars[i] = g := by rw [List.getElem?_eq_getElem hil] at hi; injection hi
    have hvars := Expr.vars_substituteVariable e g 0 a
    have hin : i < (e.substituteVariable g 0 a).qb.n := by rw [← hs.len, hvars]; exact hil
    simp only [hvars]
    refine ⟨QMB.WF_removeVariable _ hs.qb i hin, ?_, ?_⟩
    · simp only [List.length_map, List.length_eraseIdx, hil, if_true]
      rw [QMB.n_removeVariable _ i hin, ← hs.len, hvars]
    · have hsub : (e.vars.eraseIdx i).Nodup := List.Nodup.sublist (List.eraseIdx_sublist _ _) he.nodup
      apply List.Nodup.map_on _ hsub
      have hne : ∀ x ∈ e.vars.eraseIdx i, x ≠ g := by
        intro x hx hxg
        -- `g` sits only at position `i`
        obtain ⟨j, hj, hji, hjx⟩ := List.mem_eraseIdx_iff_getElem.mp hx
        have : e.vars[j] = e.vars[i] := by rw [hjx, hxg, hig]
        exact hji ((List.Nodup.getElem_inj_iff he.nodup).mp this)
      intro x hx y hy hxy
      exact dec_inj_on g x y (hne x hx) (hne y hy) hxy

theorem CqmC.WF_fixVariable (m : CqmC R) (hm : m.WF) (v : Nat) (a : R) : (m.fixVariable v a).WF := by
  refine ⟨Expr.WF_fixInplace m.obj hm.1 v a, ?_⟩
  intro k hk
  simp only [CqmC.fixVariable, CqmC.removeVariable, CqmC.substituteVariable, CqmC.mapExprs, List.mem_map] at hk
  obtain ⟨k1, ⟨k0, hk0, rfl⟩, rfl⟩ := hk
  exact Expr.WF_fixInplace k0.e (hm.2 k0 hk0) v a

end En
