import DimodProofs.SymBuild

/-! C06: operators on values and whole expression trees. -/

namespace Sym

def Val.Typed (T : Label → VT → Prop) : Val → Prop
  | .num _ => True
  | .mdl m => Sym.Typed T m
  | .view _ m => Sym.Typed T m

theorem Val.Typed.mono {T T' : Label → VT → Prop} {v : Val} (h : v.Typed T) (hT : ∀ l k, T l k → T' l k) : v.Typed T' := by
  cases v with
  | num q => trivial
  | mdl m => exact Sym.Typed.mono h hT
  | view o m => exact Sym.Typed.mono h hT

theorem typed_emptyQM {T} : Typed T emptyQM := ⟨by intro v hv; simp [emptyQM] at hv, by intro h; simp [emptyQM] at h⟩

theorem eval_emptyQM (x : Label → Rat) : emptyQM.eval x = 0 := by simp [emptyQM, Model.eval, linEval, quadEval]

theorem viewToQM_spec {T} (m m' : Model) (x : Label → Rat) (hm : Typed T m) (h : viewToQM m = .ok m') :
    m'.eval x = m.eval x ∧ Typed T m' ∧ m'.isQM = true := by
  obtain ⟨e, t, q⟩ := qmUpdate_spec emptyQM m m' x typed_emptyQM hm rfl h
  exact ⟨by rw [e, eval_emptyQM]; ring, t, q⟩

theorem isQM_cases (m : Model) : m.isQM = true ∨ m.isQM = false := by cases m.isQM <;> simp

theorem mAdd_spec {T} (a b m : Model) (x : Label → Rat) (ha : Typed T a) (hb : Typed T b) (h : mAdd a b = .ok m) :
    m.eval x = a.eval x + b.eval x ∧ Typed T m := by
  unfold mAdd at h
  rcases isQM_cases a with hqa | hqa <;> rcases isQM_cases b with hqb | hqb <;> simp only [hqa, hqb] at h
  · obtain ⟨e, t, _⟩ := qmUpdate_spec a b m x ha hb hqa h; exact ⟨e, t⟩
  · obtain ⟨e, t, _⟩ := qmUpdate_spec a b.toQM m x ha (typed_toQM hb) hqa h; exact ⟨e, t⟩
  · obtain ⟨e, t, _⟩ := qmUpdate_spec a.toQM b m x (typed_toQM ha) hb rfl h; exact ⟨e, t⟩
  · by_cases hd : bqmDiffer a b = true
    · simp only [hd, if_true] at h
      obtain ⟨e, t, _⟩ := qmUpdate_spec a.toQM b.toQM m x (typed_toQM ha) (typed_toQM hb) rfl h; exact ⟨e, t⟩
    · have hd' : bqmDiffer a b = false := by simpa using hd
      simp only [hd', Bool.false_eq_true, if_false, Except.ok.injEq] at h
      subst h
      obtain ⟨e, t, _⟩ := bqmUpdate_spec a b x ha hb hqa hqb hd'; exact ⟨e, t⟩

theorem negUpd_spec {T} (a b m : Model) (x : Label → Rat) (ha : Typed T a) (hb : Typed T b) (hqa : a.isQM = true)
    (h : (match qmUpdate (a.scale (-1)) b with | .ok m => Except.ok (m.scale (-1)) | .error e => .error e) = Except.ok m) :
    m.eval x = a.eval x - b.eval x ∧ Typed T m := by
  split at h
  · rename_i m1 hm1
    simp only [Except.ok.injEq] at h
    subst h
    obtain ⟨e, t, _⟩ := qmUpdate_spec (a.scale (-1)) b m1 x (typed_scale _ ha) hb hqa hm1
    exact ⟨by rw [eval_scale, e, eval_scale]; ring, typed_scale _ t⟩
  · simp at h

theorem mSub_spec {T} (a b m : Model) (x : Label → Rat) (ha : Typed T a) (hb : Typed T b) (h : mSub a b = .ok m) :
    m.eval x = a.eval x - b.eval x ∧ Typed T m := by
  unfold mSub at h
  rcases isQM_cases a with hqa | hqa <;> rcases isQM_cases b with hqb | hqb <;> simp only [hqa, hqb] at h
  · exact negUpd_spec a b m x ha hb hqa h
  · exact negUpd_spec a b.toQM m x ha (typed_toQM hb) hqa h
  · exact negUpd_spec a.toQM b m x (typed_toQM ha) hb rfl h
  · by_cases hd : bqmDiffer a b = true
    · simp only [hd, if_true] at h
      exact negUpd_spec a.toQM b.toQM m x (typed_toQM ha) (typed_toQM hb) rfl h
    · have hd' : bqmDiffer a b = false := by simpa using hd
      simp only [hd', Bool.false_eq_true, if_false, Except.ok.injEq] at h
      subst h
      have hd'' : bqmDiffer (a.scale (-1)) b = false := hd'
      obtain ⟨e, t, _⟩ := bqmUpdate_spec (a.scale (-1)) b x (typed_scale _ ha) hb hqa hqb hd''
      exact ⟨by rw [eval_scale, e, eval_scale]; ring, typed_scale _ t⟩

theorem mMul_spec {T} (a b m : Model) (x : Label → Rat) (ha : Typed T a) (hb : Typed T b)
    (hx : ∀ l k, T l k → InDom k (x l)) (h : mMul a b = .ok m) :
    m.eval x = a.eval x * b.eval x ∧ Typed T m := by
  unfold mMul at h
  rcases isQM_cases a with hqa | hqa <;> rcases isQM_cases b with hqb | hqb <;> simp only [hqa, hqb] at h
  · obtain ⟨e, t, _⟩ := qmMul_spec a b m x ha hb hx h; exact ⟨e, t⟩
  · obtain ⟨e, t, _⟩ := qmMul_spec b.toQM a m x (typed_toQM hb) ha hx h
    exact ⟨by rw [e, eval_toQM]; ring, t⟩
  · obtain ⟨e, t, _⟩ := qmMul_spec a.toQM b m x (typed_toQM ha) hb hx h; exact ⟨e, t⟩
  · split at h
    · simp at h
    · rename_i hlin
      simp only [Decidable.not_not] at hlin
      by_cases hd : bqmDiffer a b = true
      · simp only [hd, if_true] at h
        obtain ⟨e, t, _⟩ := qmMul_spec b.toQM a.toQM m x (typed_toQM hb) (typed_toQM ha) hx h
        exact ⟨by rw [e, eval_toQM, eval_toQM]; ring, t⟩
      · have hd' : bqmDiffer a b = false := by simpa using hd
        simp only [hd', Bool.false_eq_true, if_false] at h
        obtain ⟨e, t, _⟩ := bqmMulSame_spec a b m x ha hb hqa hqb hd' hlin.1 hlin.2 hx h
        exact ⟨e, t⟩

/-! ### values -/

theorem map_ok {α β} (r : Except Err α) (f : α → β) (c : β) (h : r.map f = .ok c) : ∃ a, r = .ok a ∧ f a = c := by
  cases r with
  | error e => simp [Except.map] at h
  | ok a => exact ⟨a, rfl, by simpa [Except.map] using h⟩

theorem valAdd_spec {T} (a b c : Val) (x : Label → Rat) (ha : a.Typed T) (hb : b.Typed T) (h : valAdd a b = .ok c) :
    c.eval x = a.eval x + b.eval x ∧ c.Typed T := by
  cases a <;> cases b <;> simp only [valAdd] at h
  case num.num p q => simp only [Except.ok.injEq] at h; subst h; exact ⟨rfl, trivial⟩
  case num.mdl q m => simp only [Except.ok.injEq] at h; subst h; exact ⟨by simp [Val.eval, eval_addOffset]; ring, typed_addOffset _ hb⟩
  case mdl.num m q => simp only [Except.ok.injEq] at h; subst h; exact ⟨by simp [Val.eval, eval_addOffset], typed_addOffset _ ha⟩
  case mdl.mdl m n =>
    obtain ⟨r, hr, rfl⟩ := map_ok _ _ _ h
    exact mAdd_spec m n r x ha hb hr
  case view.num o m q =>
    obtain ⟨r, hr, rfl⟩ := map_ok _ _ _ h
    obtain ⟨e, t, _⟩ := viewToQM_spec m r x ha hr
    exact ⟨by simp [Val.eval, eval_addOffset, e], typed_addOffset _ t⟩
  case num.view q o m =>
    obtain ⟨r, hr, rfl⟩ := map_ok _ _ _ h
    obtain ⟨e, t, _⟩ := viewToQM_spec m r x hb hr
    exact ⟨by simp [Val.eval, eval_addOffset, e]; ring, typed_addOffset _ t⟩
  case view.mdl o m n =>
    split at h
    · rename_i r hr
      obtain ⟨r2, hr2, rfl⟩ := map_ok _ _ _ h
      obtain ⟨e, t, _⟩ := viewToQM_spec m r x ha hr
      obtain ⟨e2, t2⟩ := mAdd_spec r n r2 x t hb hr2
      exact ⟨by simp only [Val.eval]; rw [e2, e], t2⟩
    · simp at h
  case mdl.view n o m =>
    split at h
    · rename_i r hr
      obtain ⟨r2, hr2, rfl⟩ := map_ok _ _ _ h
      obtain ⟨e, t, _⟩ := viewToQM_spec m r x hb hr
      obtain ⟨e2, t2⟩ := mAdd_spec n r r2 x ha t hr2
      exact ⟨by simp only [Val.eval]; rw [e2, e], t2⟩
    · simp at h
  case view.view o m o' n =>
    split at h
    · rename_i r1 r2 hr1 hr2
      obtain ⟨r3, hr3, rfl⟩ := map_ok _ _ _ h
      obtain ⟨e1, t1, _⟩ := viewToQM_spec m r1 x ha hr1
      obtain ⟨e2, t2, _⟩ := viewToQM_spec n r2 x hb hr2
      obtain ⟨e3, t3⟩ := mAdd_spec r1 r2 r3 x t1 t2 hr3
      exact ⟨by simp only [Val.eval]; rw [e3, e1, e2], t3⟩
    · simp at h
    · simp at h

theorem valSub_spec {T} (a b c : Val) (x : Label → Rat) (ha : a.Typed T) (hb : b.Typed T) (h : valSub a b = .ok c) :
    c.eval x = a.eval x - b.eval x ∧ c.Typed T := by
  cases a <;> cases b <;> simp only [valSub] at h
  case num.num p q => simp only [Except.ok.injEq] at h; subst h; exact ⟨rfl, trivial⟩
  case num.mdl q m =>
    simp only [Except.ok.injEq] at h; subst h
    exact ⟨by simp [Val.eval, eval_addOffset, eval_scale]; ring, typed_addOffset _ (typed_scale _ hb)⟩
  case mdl.num m q =>
    simp only [Except.ok.injEq] at h; subst h
    exact ⟨by simp [Val.eval, eval_addOffset]; ring, typed_addOffset _ ha⟩
  case mdl.mdl m n =>
    obtain ⟨r, hr, rfl⟩ := map_ok _ _ _ h
    exact mSub_spec m n r x ha hb hr
  case view.num o m q =>
    obtain ⟨r, hr, rfl⟩ := map_ok _ _ _ h
    obtain ⟨e, t, _⟩ := viewToQM_spec m r x ha hr
    exact ⟨by simp [Val.eval, eval_addOffset, e]; ring, typed_addOffset _ t⟩
  case num.view q o m =>
    obtain ⟨r, hr, rfl⟩ := map_ok _ _ _ h
    obtain ⟨e, t, _⟩ := viewToQM_spec m r x hb hr
    exact ⟨by simp [Val.eval, eval_addOffset, eval_scale, e]; ring, typed_addOffset _ (typed_scale _ t)⟩
  case view.mdl o m n =>
    split at h
    · rename_i r hr
      obtain ⟨r2, hr2, rfl⟩ := map_ok _ _ _ h
      obtain ⟨e, t, _⟩ := viewToQM_spec m r x ha hr
      obtain ⟨e2, t2⟩ := mSub_spec r n r2 x t hb hr2
      exact ⟨by simp only [Val.eval]; rw [e2, e], t2⟩
    · simp at h
  case mdl.view n o m =>
    split at h
    · rename_i r hr
      obtain ⟨r2, hr2, rfl⟩ := map_ok _ _ _ h
      obtain ⟨e, t, _⟩ := viewToQM_spec m r x hb hr
      obtain ⟨e2, t2⟩ := mSub_spec n r r2 x ha t hr2
      exact ⟨by simp only [Val.eval]; rw [e2, e], t2⟩
    · simp at h
  case view.view o m o' n =>
    split at h
    · rename_i r1 r2 hr1 hr2
      obtain ⟨r3, hr3, rfl⟩ := map_ok _ _ _ h
      obtain ⟨e1, t1, _⟩ := viewToQM_spec m r1 x ha hr1
      obtain ⟨e2, t2, _⟩ := viewToQM_spec n r2 x hb hr2
      obtain ⟨e3, t3⟩ := mSub_spec r1 r2 r3 x t1 t2 hr3
      exact ⟨by simp only [Val.eval]; rw [e3, e1, e2], t3⟩
    · simp at h
    · simp at h

theorem valMul_spec {T} (a b c : Val) (x : Label → Rat) (ha : a.Typed T) (hb : b.Typed T)
    (hx : ∀ l k, T l k → InDom k (x l)) (h : valMul a b = .ok c) :
    c.eval x = a.eval x * b.eval x ∧ c.Typed T := by
  cases a <;> cases b <;> simp only [valMul] at h
  case num.num p q => simp only [Except.ok.injEq] at h; subst h; exact ⟨rfl, trivial⟩
  case num.mdl q m => simp only [Except.ok.injEq] at h; subst h; exact ⟨by simp [Val.eval, eval_scale], typed_scale _ hb⟩
  case mdl.num m q => simp only [Except.ok.injEq] at h; subst h; exact ⟨by simp [Val.eval, eval_scale]; ring, typed_scale _ ha⟩
  case mdl.mdl m n =>
    obtain ⟨r, hr, rfl⟩ := map_ok _ _ _ h
    exact mMul_spec m n r x ha hb hx hr
  all_goals simp at h

theorem valNeg_spec {T} (a c : Val) (x : Label → Rat) (ha : a.Typed T) (h : valNeg a = .ok c) :
    c.eval x = - a.eval x ∧ c.Typed T := by
  cases a <;> simp only [valNeg] at h
  case num p => simp only [Except.ok.injEq] at h; subst h; exact ⟨rfl, trivial⟩
  case mdl m => simp only [Except.ok.injEq] at h; subst h; exact ⟨by simp [Val.eval, eval_scale], typed_scale _ ha⟩
  case view => simp at h

theorem valDiv_spec {T} (a c : Val) (q : Rat) (x : Label → Rat) (ha : a.Typed T) (h : valDiv a q = .ok c) :
    c.eval x = a.eval x * (1 / q) ∧ c.Typed T := by
  unfold valDiv at h
  by_cases hq : q = 0
  · simp only [hq, if_true] at h
    cases a <;> simp at h
  · simp only [hq, if_false] at h
    cases a <;> simp only at h
    case num p => simp only [Except.ok.injEq] at h; subst h; exact ⟨by simp [Val.eval]; ring, trivial⟩
    case mdl m => simp only [Except.ok.injEq] at h; subst h; exact ⟨by simp only [Val.eval, eval_scale]; ring, typed_scale _ ha⟩
    case view => simp at h

theorem valPow_spec {T} (a c : Val) (n : Nat) (x : Label → Rat) (ha : a.Typed T)
    (hx : ∀ l k, T l k → InDom k (x l)) (h : valPow a n = .ok c) :
    c.eval x = a.eval x ^ n ∧ c.Typed T := by
  cases a <;> simp only [valPow] at h
  case num p => simp only [Except.ok.injEq] at h; subst h; exact ⟨rfl, trivial⟩
  case view => simp at h
  case mdl m =>
    split at h
    · simp at h
    · rename_i hn
      simp only [Decidable.not_not] at hn
      split at h
      · simp at h
      · obtain ⟨r, hr, rfl⟩ := map_ok _ _ _ h
        obtain ⟨e, t⟩ := mMul_spec m m r x ha ha hx hr
        exact ⟨by simp only [Val.eval]; rw [e, hn]; ring, t⟩

end Sym

namespace Sym

/-! ### expression trees -/

/-- the tree has a leaf constructor of kind `k` for label `l` -/
def SymExpr.HasLeaf : SymExpr → Label → VT → Prop
  | .var k l _ _ _, l', k' => l = l' ∧ k = k'
  | .const _, _, _ => False
  | .empty _ _, _, _ => False
  | .add a b, l, k => a.HasLeaf l k ∨ b.HasLeaf l k
  | .sub a b, l, k => a.HasLeaf l k ∨ b.HasLeaf l k
  | .mul a b, l, k => a.HasLeaf l k ∨ b.HasLeaf l k
  | .neg a, l, k => a.HasLeaf l k
  | .div a _, l, k => a.HasLeaf l k
  | .pow a _, l, k => a.HasLeaf l k
  | .iadd a b, l, k => a.HasLeaf l k ∨ b.HasLeaf l k
  | .isub a b, l, k => a.HasLeaf l k ∨ b.HasLeaf l k
  | .imul a b, l, k => a.HasLeaf l k ∨ b.HasLeaf l k
  | .idiv a _, l, k => a.HasLeaf l k
  | .qsum0, _, _ => False
  | .qsum1 a, l, k => a.HasLeaf l k
  | .qsum3 a b c, l, k => a.HasLeaf l k ∨ b.HasLeaf l k ∨ c.HasLeaf l k
  | .view _ a, l, k => a.HasLeaf l k
  | .addSelf a, l, k => a.HasLeaf l k
  | .subSelf a, l, k => a.HasLeaf l k
  | .mulSelf a, l, k => a.HasLeaf l k
  | .iaddSelf a, l, k => a.HasLeaf l k
  | .isubSelf a, l, k => a.HasLeaf l k

theorem mkVar_spec (k : VT) (l : Label) (bias : Rat) (lb ub : Option Rat) (m : Model) (x : Label → Rat)
    (h : mkVar k l bias lb ub = .ok m) :
    m.eval x = bias * x l ∧ Typed (fun l' k' => l = l' ∧ k = k') m := by
  unfold mkVar at h
  cases k with
  | spin =>
    simp only [Except.ok.injEq] at h; subst h
    refine ⟨by simp [Model.eval, linEval, quadEval], ⟨?_, fun _ => ⟨Or.inl rfl, ?_⟩⟩⟩ <;>
      · intro v hv; simp only [List.mem_singleton] at hv; subst hv; simp [bqmInfo]
  | binary =>
    simp only [Except.ok.injEq] at h; subst h
    refine ⟨by simp [Model.eval, linEval, quadEval], ⟨?_, fun _ => ⟨Or.inr rfl, ?_⟩⟩⟩ <;>
      · intro v hv; simp only [List.mem_singleton] at hv; subst hv; simp [bqmInfo]
  | integer =>
    simp only at h
    split at h; · simp at h
    split at h; · simp at h
    split at h; · simp at h
    split at h; · simp at h
    simp only [Except.ok.injEq] at h; subst h
    refine ⟨by simp [Model.eval, linEval, quadEval], ⟨?_, fun hf => by simp at hf⟩⟩
    intro v hv; simp only [List.mem_singleton] at hv; subst hv; simp
  | real =>
    simp only at h
    split at h; · simp at h
    split at h; · simp at h
    split at h; · simp at h
    split at h; · simp at h
    simp only [Except.ok.injEq] at h; subst h
    refine ⟨by simp [Model.eval, linEval, quadEval], ⟨?_, fun hf => by simp at hf⟩⟩
    intro v hv; simp only [List.mem_singleton] at hv; subst hv; simp

theorem bind_ok {α β} (r : Except Err α) (f : α → Except Err β) (c : β) (h : (r >>= f) = .ok c) :
    ∃ a, r = .ok a ∧ f a = .ok c := by
  cases r with
  | error e => simp [bind, Except.bind] at h
  | ok a => exact ⟨a, rfl, by simpa [bind, Except.bind] using h⟩

/-- the specification of one tree at a sample that respects the domains of the tree's leaves: the
    built value is typed by the tree's own leaves and has the energy of the tree's arithmetic -/
def Spec (e : SymExpr) (x : Label → Rat) : Prop :=
  ∀ v, build e = .ok v → (∀ l k, e.HasLeaf l k → InDom k (x l)) → v.Typed e.HasLeaf ∧ v.eval x = e.eval x

theorem spec_bin (op : Val → Val → Except Err Val) (f : Rat → Rat → Rat) (a b : SymExpr) (x : Label → Rat)
    (T : Label → VT → Prop) (hTa : ∀ l k, a.HasLeaf l k → T l k) (hTb : ∀ l k, b.HasLeaf l k → T l k)
    (hop : ∀ va vb vc, va.Typed T → vb.Typed T → (∀ l k, T l k → InDom k (x l)) → op va vb = .ok vc →
      vc.eval x = f (va.eval x) (vb.eval x) ∧ vc.Typed T)
    (iha : Spec a x) (ihb : Spec b x) (v : Val)
    (h : (build a >>= fun va => build b >>= fun vb => op va vb) = .ok v) (hx : ∀ l k, T l k → InDom k (x l)) :
    v.Typed T ∧ v.eval x = f (a.eval x) (b.eval x) := by
  obtain ⟨va, hva, h1⟩ := bind_ok _ _ _ h
  obtain ⟨vb, hvb, h2⟩ := bind_ok _ _ _ h1
  obtain ⟨ta, ea⟩ := iha va hva (fun l k hl => hx l k (hTa l k hl))
  obtain ⟨tb, eb⟩ := ihb vb hvb (fun l k hl => hx l k (hTb l k hl))
  obtain ⟨e, t⟩ := hop va vb v (ta.mono hTa) (tb.mono hTb) hx h2
  exact ⟨t, by rw [e, ea, eb]⟩

theorem spec_un (op : Val → Except Err Val) (f : Rat → Rat) (a : SymExpr) (x : Label → Rat)
    (hop : ∀ va vc, va.Typed a.HasLeaf → (∀ l k, a.HasLeaf l k → InDom k (x l)) → op va = .ok vc →
      vc.eval x = f (va.eval x) ∧ vc.Typed a.HasLeaf)
    (iha : Spec a x) (v : Val) (h : (build a >>= fun va => op va) = .ok v) (hx : ∀ l k, a.HasLeaf l k → InDom k (x l)) :
    v.Typed a.HasLeaf ∧ v.eval x = f (a.eval x) := by
  obtain ⟨va, hva, h1⟩ := bind_ok _ _ _ h
  obtain ⟨ta, ea⟩ := iha va hva hx
  obtain ⟨e, t⟩ := hop va v ta hx h1
  exact ⟨t, by rw [e, ea]⟩

theorem qsumVals1 (x : Val) (v : Val) (h : qsumVals [x] = .ok v) : v = x := by
  cases x <;> simp only [qsumVals, List.foldlM, pure, Except.pure, Except.ok.injEq] at h
  case num => exact h.symm
  case mdl => exact h.symm
  case view o m => cases o <;> simp_all [qsumVals, List.foldlM, pure, Except.pure]

/-- C06 `build_eval` (together with the typing invariant it needs) -/
theorem build_spec (e : SymExpr) (x : Label → Rat) : Spec e x := by
  induction e with
  | var k l bias lb ub =>
    intro v h _
    simp only [build] at h
    obtain ⟨m, hm, rfl⟩ := map_ok _ _ _ h
    obtain ⟨e, t⟩ := mkVar_spec k l bias lb ub m x hm
    exact ⟨t, e⟩
  | const q =>
    intro v h _
    simp only [build, Except.ok.injEq] at h; subst h
    exact ⟨trivial, rfl⟩
  | empty k off =>
    intro v h _
    simp only [build] at h
    split at h
    · rename_i hk
      simp only [Except.ok.injEq] at h; subst h
      exact ⟨⟨by intro v hv; simp at hv, fun _ => ⟨hk, by intro v hv; simp at hv⟩⟩, by simp [Val.eval, Model.eval, linEval, quadEval, SymExpr.eval]⟩
    · simp at h
  | add a b iha ihb =>
    intro v h hx
    exact spec_bin valAdd (· + ·) a b x _ (fun _ _ => Or.inl) (fun _ _ => Or.inr)
      (fun va vb vc ta tb _ hh => valAdd_spec va vb vc x ta tb hh) iha ihb v h hx
  | sub a b iha ihb =>
    intro v h hx
    exact spec_bin valSub (· - ·) a b x _ (fun _ _ => Or.inl) (fun _ _ => Or.inr)
      (fun va vb vc ta tb _ hh => valSub_spec va vb vc x ta tb hh) iha ihb v h hx
  | mul a b iha ihb =>
    intro v h hx
    exact spec_bin valMul (· * ·) a b x _ (fun _ _ => Or.inl) (fun _ _ => Or.inr)
      (fun va vb vc ta tb hx' hh => valMul_spec va vb vc x ta tb hx' hh) iha ihb v h hx
  | neg a iha =>
    intro v h hx
    exact spec_un valNeg (fun r => -r) a x (fun va vc ta _ hh => valNeg_spec va vc x ta hh) iha v h hx
  | div a q iha =>
    intro v h hx
    exact spec_un (fun va => valDiv va q) (fun r => r * (1 / q)) a x (fun va vc ta _ hh => valDiv_spec va vc q x ta hh) iha v h hx
  | pow a n iha =>
    intro v h hx
    exact spec_un (fun va => valPow va n) (fun r => r ^ n) a x (fun va vc ta hx' hh => valPow_spec va vc n x ta hx' hh) iha v h hx
  | iadd a b iha ihb =>
    intro v h hx
    exact spec_bin valAdd (· + ·) a b x _ (fun _ _ => Or.inl) (fun _ _ => Or.inr)
      (fun va vb vc ta tb _ hh => valAdd_spec va vb vc x ta tb hh) iha ihb v h hx
  | isub a b iha ihb =>
    intro v h hx
    exact spec_bin valSub (· - ·) a b x _ (fun _ _ => Or.inl) (fun _ _ => Or.inr)
      (fun va vb vc ta tb _ hh => valSub_spec va vb vc x ta tb hh) iha ihb v h hx
  | imul a b iha ihb =>
    intro v h hx
    exact spec_bin valMul (· * ·) a b x _ (fun _ _ => Or.inl) (fun _ _ => Or.inr)
      (fun va vb vc ta tb hx' hh => valMul_spec va vb vc x ta tb hx' hh) iha ihb v h hx
  | idiv a q iha =>
    intro v h hx
    exact spec_un (fun va => valDiv va q) (fun r => r * (1 / q)) a x (fun va vc ta _ hh => valDiv_spec va vc q x ta hh) iha v h hx
  | qsum0 =>
    intro v h _
    simp only [build, qsumVals, Except.ok.injEq] at h; subst h
    exact ⟨typed_emptyQM, by simp [Val.eval, eval_emptyQM, SymExpr.eval]⟩
  | qsum1 a iha =>
    intro v h hx
    simp only [build] at h
    obtain ⟨va, hva, h1⟩ := bind_ok _ _ _ h
    have := qsumVals1 va v h1
    subst this
    exact iha v hva hx
  | qsum3 a b c iha ihb ihc =>
    intro v h hx
    simp only [build] at h
    obtain ⟨va, hva, h1⟩ := bind_ok _ _ _ h
    obtain ⟨vb, hvb, h2⟩ := bind_ok _ _ _ h1
    obtain ⟨vc, hvc, h3⟩ := bind_ok _ _ _ h2
    obtain ⟨ta, ea⟩ := iha va hva (fun l k hl => hx l k (Or.inl hl))
    obtain ⟨tb, eb⟩ := ihb vb hvb (fun l k hl => hx l k (Or.inr (Or.inl hl)))
    obtain ⟨tc, ec⟩ := ihc vc hvc (fun l k hl => hx l k (Or.inr (Or.inr hl)))
    have ta' := ta.mono (T' := (SymExpr.qsum3 a b c).HasLeaf) (fun _ _ => Or.inl)
    have tb' := tb.mono (T' := (SymExpr.qsum3 a b c).HasLeaf) (fun _ _ hl => Or.inr (Or.inl hl))
    have tc' := tc.mono (T' := (SymExpr.qsum3 a b c).HasLeaf) (fun _ _ hl => Or.inr (Or.inr hl))
    have hfold : ∃ t, valAdd va vb = .ok t ∧ valAdd t vc = .ok v := by
      cases va with
      | view o m =>
        cases o
        · simp [qsumVals] at h3
        · simp only [qsumVals, List.foldlM] at h3
          obtain ⟨t, ht, h4⟩ := bind_ok _ _ _ h3
          obtain ⟨t2, ht2, h5⟩ := bind_ok _ _ _ h4
          simp only [pure, Except.pure, Except.ok.injEq] at h5; subst h5
          exact ⟨t, ht, ht2⟩
      | num q =>
        simp only [qsumVals, List.foldlM] at h3
        obtain ⟨t, ht, h4⟩ := bind_ok _ _ _ h3
        obtain ⟨t2, ht2, h5⟩ := bind_ok _ _ _ h4
        simp only [pure, Except.pure, Except.ok.injEq] at h5; subst h5
        exact ⟨t, ht, ht2⟩
      | mdl m =>
        simp only [qsumVals, List.foldlM] at h3
        obtain ⟨t, ht, h4⟩ := bind_ok _ _ _ h3
        obtain ⟨t2, ht2, h5⟩ := bind_ok _ _ _ h4
        simp only [pure, Except.pure, Except.ok.injEq] at h5; subst h5
        exact ⟨t, ht, ht2⟩
    obtain ⟨t, ht, ht2⟩ := hfold
    obtain ⟨e1, t1⟩ := valAdd_spec va vb t x ta' tb' ht
    obtain ⟨e2, t2⟩ := valAdd_spec t vc v x t1 tc' ht2
    exact ⟨t2, by rw [e2, e1, ea, eb, ec]; rfl⟩
  | view o a iha =>
    intro v h hx
    simp only [build] at h
    obtain ⟨va, hva, h1⟩ := bind_ok _ _ _ h
    obtain ⟨ta, ea⟩ := iha va hva hx
    cases va with
    | mdl m =>
      simp only [Except.ok.injEq] at h1; subst h1
      exact ⟨typed_toQM ta, ea⟩
    | num q => simp at h1
    | view o' m => simp at h1
  | addSelf a iha =>
    intro v h hx
    exact spec_un (fun va => valAdd va va) (fun r => r + r) a x (fun va vc ta _ hh => valAdd_spec va va vc x ta ta hh) iha v h hx
  | subSelf a iha =>
    intro v h hx
    exact spec_un (fun va => valSub va va) (fun r => r - r) a x (fun va vc ta _ hh => valSub_spec va va vc x ta ta hh) iha v h hx
  | mulSelf a iha =>
    intro v h hx
    exact spec_un (fun va => valMul va va) (fun r => r * r) a x (fun va vc ta hx' hh => valMul_spec va va vc x ta ta hx' hh) iha v h hx
  | iaddSelf a iha =>
    intro v h hx
    exact spec_un (fun va => valAdd va va) (fun r => r + r) a x (fun va vc ta _ hh => valAdd_spec va va vc x ta ta hh) iha v h hx
  | isubSelf a iha =>
    intro v h hx
    exact spec_un (fun va => valSub va va) (fun r => r - r) a x (fun va vc ta _ hh => valSub_spec va va vc x ta ta hh) iha v h hx

end Sym
