import DimodProofs.Heap

/-! r8f (C19): in-place edits of a CQM at OBSERVATION level — what `cobs` reads after an edit is a function of what it read before
    (`CEdit.onObs`), so whole edit histories fold over observations and copy-producing calls drop out of them. -/

namespace MHeap

abbrev CObs := List Rat × List (List Rat) × List Nat × List Nat

/-- the edit on the observation (objective, constraints in order, variables, constraint labels) -/
def CEdit.onObs : CEdit → CObs → CObs
  | .objective f, (o, cs, v, l) => (f o, cs, v, l)
  | .constraint k f, (o, cs, v, l) => (o, (match cs[k]? with | some c => cs.set k (f c) | none => cs), v, l)
  | .vars g, (o, cs, v, l) => (o, cs, g v, l)
  | .clabels g, (o, cs, v, l) => (o, cs, v, g l)
  | .addConstraint c g, (o, cs, v, l) => (o, cs ++ [c], v, g l)
  | .removeConstraint k, (o, cs, v, l) => (o, cs.eraseIdx k, v, l)

theorem cqmobs_of_shape {h : Heap} {d q v l o : Nat} {cs : List Nat} (hw : CWf h d q v l o cs) :
    cobs h d = (coeffsAt h o, cs.map (coeffsAt h), labelsAt h v, labelsAt h l) := by
  obtain ⟨d1, d2, _⟩ := hw
  simp [cobs, cppOf, varsOf, clabelsOf, objectiveOf, constraintsOf, d1, d2]

theorem cqmobs_coeffsAt_cell {h h' : Heap} {a : Nat} (e : h'.cell a = h.cell a) : coeffsAt h' a = coeffsAt h a := by
  simp [coeffsAt, e]
theorem cqmobs_labelsAt_cell {h h' : Heap} {a : Nat} (e : h'.cell a = h.cell a) : labelsAt h' a = labelsAt h a := by
  simp [labelsAt, e]

theorem cqmobs_labelsAt_of_cell {h : Heap} {a : Nat} {x : List Nat} (e : h.cell a = .labels x) : labelsAt h a = x := by
  simp [labelsAt, e]

theorem cqmobs_map_same {h h' : Heap} (cs : List Nat) (e : ∀ c ∈ cs, h'.cell c = h.cell c) :
    cs.map (coeffsAt h') = cs.map (coeffsAt h) :=
  List.map_congr_left fun c hc => cqmobs_coeffsAt_cell (e c hc)

theorem cqmobs_map_set {h h' : Heap} (cs : List Nat) (hn : cs.Nodup) (k x : Nat) (z : List Rat) (hk : cs[k]? = some x)
    (hx : h'.cell x = .coeffs z) (e : ∀ c ∈ cs, c ≠ x → h'.cell c = h.cell c) :
    cs.map (coeffsAt h') = (cs.map (coeffsAt h)).set k z := by
  induction cs generalizing k with
  | nil => simp at hk
  | cons a t ih =>
    rw [List.nodup_cons] at hn
    cases k with
    | zero =>
      simp only [List.getElem?_cons_zero, Option.some.injEq] at hk
      subst hk
      simp only [List.map_cons, List.set_cons_zero, List.cons.injEq]
      refine ⟨by simp [coeffsAt, hx], cqmobs_map_same t fun c hc => e c (List.mem_cons_of_mem _ hc) (fun h0 => hn.1 (h0 ▸ hc))⟩
    | succ k =>
      simp only [List.getElem?_cons_succ] at hk
      have hxa : a ≠ x := fun h0 => hn.1 (h0 ▸ List.mem_of_getElem? hk)
      simp only [List.map_cons, List.set_cons_succ, List.cons.injEq]
      exact ⟨cqmobs_coeffsAt_cell (e a (by simp) hxa), ih hn.2 k hk fun c hc hcx => e c (List.mem_cons_of_mem _ hc) hcx⟩

theorem cqmobs_map_eraseIdx {α β : Type} (f : α → β) (l : List α) (k : Nat) : (l.eraseIdx k).map f = (l.map f).eraseIdx k := by
  induction l generalizing k with
  | nil => rfl
  | cons a t ih =>
    cases k with
    | zero => rfl
    | succ k => simp only [List.eraseIdx_cons_succ, List.map_cons, ih]

/-- **one in-place edit at observation level**: the CQM reads after the edit what `onObs` makes of what it read before -/
theorem cedit_obs {h : Heap} {d : Nat} (hg : CGood h d) (e : CEdit) : cobs (e.run h d) d = e.onObs (cobs h d) := by
  obtain ⟨q, v, l, o, cs, hw, hn⟩ := hg
  have hobs := cqmobs_of_shape hw
  obtain ⟨d1, d2, d3, d4, d5, d6, d7, d8⟩ := hw
  simp only [List.nodup_cons, List.mem_cons, not_or] at hn
  obtain ⟨⟨n1, n2, n3, n4, n5⟩, ⟨n6, n7, n8, n9⟩, ⟨n10, n11, n12⟩, ⟨n13, n14⟩, n15, n16⟩ := hn
  have eq1 : cppOf h d = q := by simp [cppOf, d1]
  have eq2 : varsOf h d = v := by simp [varsOf, d1]
  have eq3 : clabelsOf h d = l := by simp [clabelsOf, d1]
  have eq4 : objectiveOf h q = o := by simp [objectiveOf, d2]
  have eq5 : constraintsOf h q = cs := by simp [constraintsOf, d2]
  have keep : ∀ (x : Nat) (c : Cell), x ≠ d → x ≠ q → CWf (store h x c) d q v l o cs := fun x c h1 h2 =>
    ⟨by rw [store_cell_other _ _ _ _ (Ne.symm h1)]; exact d1, by rw [store_cell_other _ _ _ _ (Ne.symm h2)]; exact d2, d3, d4, d5, d6, d7, d8⟩
  rw [hobs]
  cases e with
  | objective f =>
    simp only [CEdit.run, eq1, eq4, CEdit.onObs]
    rw [cqmobs_of_shape (keep o _ (Ne.symm n4) (Ne.symm n8))]
    refine Prod.ext ?_ (Prod.ext ?_ (Prod.ext ?_ ?_))
    · simp [coeffsAt, store_cell_same]
    · exact cqmobs_map_same cs fun c hc => store_cell_other _ _ _ _ (fun h0 => n15 (h0 ▸ hc))
    · exact cqmobs_labelsAt_cell (store_cell_other _ _ _ _ n11)
    · exact cqmobs_labelsAt_cell (store_cell_other _ _ _ _ n13)
  | vars g =>
    simp only [CEdit.run, eq2, CEdit.onObs]
    rw [cqmobs_of_shape (keep v _ (Ne.symm n2) (Ne.symm n6))]
    refine Prod.ext ?_ (Prod.ext ?_ (Prod.ext ?_ ?_))
    · exact cqmobs_coeffsAt_cell (store_cell_other _ _ _ _ (Ne.symm n11))
    · exact cqmobs_map_same cs fun c hc => store_cell_other _ _ _ _ (fun h0 => n12 (h0 ▸ hc))
    · simp [labelsAt, store_cell_same]
    · exact cqmobs_labelsAt_cell (store_cell_other _ _ _ _ (Ne.symm n10))
  | clabels g =>
    simp only [CEdit.run, eq3, CEdit.onObs]
    rw [cqmobs_of_shape (keep l _ (Ne.symm n3) (Ne.symm n7))]
    refine Prod.ext ?_ (Prod.ext ?_ (Prod.ext ?_ ?_))
    · exact cqmobs_coeffsAt_cell (store_cell_other _ _ _ _ (Ne.symm n13))
    · exact cqmobs_map_same cs fun c hc => store_cell_other _ _ _ _ (fun h0 => n14 (h0 ▸ hc))
    · exact cqmobs_labelsAt_cell (store_cell_other _ _ _ _ n10)
    · simp [labelsAt, store_cell_same]
  | constraint k f =>
    simp only [CEdit.run, eq1, eq5, CEdit.onObs, List.getElem?_map]
    cases hk : cs[k]? with
    | none => simpa using hobs
    | some c =>
      simp only [Option.map_some]
      have hc : c ∈ cs := List.mem_of_getElem? hk
      rw [cqmobs_of_shape (keep c _ (fun h0 => n5 (h0 ▸ hc)) (fun h0 => n9 (h0 ▸ hc)))]
      refine Prod.ext ?_ (Prod.ext ?_ (Prod.ext ?_ ?_))
      · exact cqmobs_coeffsAt_cell (store_cell_other _ _ _ _ (fun h0 => n15 (h0 ▸ hc)))
      · exact cqmobs_map_set cs n16 k c _ hk (store_cell_same _ _ _) (fun c' _ hne => store_cell_other _ _ _ _ hne)
      · exact cqmobs_labelsAt_cell (store_cell_other _ _ _ _ (fun h0 => n12 (h0 ▸ hc)))
      · exact cqmobs_labelsAt_cell (store_cell_other _ _ _ _ (fun h0 => n14 (h0 ▸ hc)))
  | removeConstraint k =>
    simp only [CEdit.run, setConstraints, eq1, eq4, eq5, CEdit.onObs]
    have hw' : CWf (store h q (.cqm o (cs.eraseIdx k))) d q v l o (cs.eraseIdx k) :=
      ⟨by rw [store_cell_other _ _ _ _ n1]; exact d1, store_cell_same _ _ _, d3, d4, d5, d6, d7,
        fun c hc => d8 c ((List.eraseIdx_sublist cs k).subset hc)⟩
    rw [cqmobs_of_shape hw', ← cqmobs_map_eraseIdx]
    refine Prod.ext ?_ (Prod.ext ?_ (Prod.ext ?_ ?_))
    · exact cqmobs_coeffsAt_cell (store_cell_other _ _ _ _ (Ne.symm n8))
    · exact cqmobs_map_same _ fun c hc => store_cell_other _ _ _ _ (fun h0 => n9 (h0 ▸ (List.eraseIdx_sublist cs k).subset hc))
    · exact cqmobs_labelsAt_cell (store_cell_other _ _ _ _ (Ne.symm n6))
    · exact cqmobs_labelsAt_cell (store_cell_other _ _ _ _ (Ne.symm n7))
  | addConstraint c g =>
    simp only [CEdit.run, setConstraints, CEdit.onObs]
    have hx : ∀ a, a < h.next → (alloc h (.coeffs c)).1.cell a = h.cell a := fun a ha => alloc_cell_old _ _ _ ha
    have e1 : cppOf (alloc h (.coeffs c)).1 d = q := by simp [cppOf, hx d d3, d1]
    have e4 : objectiveOf (alloc h (.coeffs c)).1 q = o := by simp [objectiveOf, hx q d4, d2]
    have e5 : constraintsOf (alloc h (.coeffs c)).1 q = cs := by simp [constraintsOf, hx q d4, d2]
    simp only [e1, e4, e5, alloc_addr]
    have e3 : clabelsOf (store (alloc h (.coeffs c)).1 q (.cqm o (cs ++ [h.next]))) d = l := by
      simp [clabelsOf, store_cell_other _ _ _ _ n1, hx d d3, d1]
    simp only [e3]
    have eL : labelsAt (store (alloc h (.coeffs c)).1 q (.cqm o (cs ++ [h.next]))) l = labelsAt h l :=
      cqmobs_labelsAt_cell (by rw [store_cell_other _ _ _ _ (Ne.symm n7)]; exact hx l d6)
    rw [eL]
    generalize hL : Cell.labels (g (labelsAt h l)) = L
    have hcell : ∀ a, (store (store (alloc h (.coeffs c)).1 q (.cqm o (cs ++ [h.next]))) l L).cell a =
        if a = l then L else if a = q then .cqm o (cs ++ [h.next]) else if a = h.next then .coeffs c else h.cell a := fun a => by
      rw [store_cell, store_cell, alloc_cell]
    have hw' : CWf (store (store (alloc h (.coeffs c)).1 q (.cqm o (cs ++ [h.next]))) l L) d q v l o (cs ++ [h.next]) := by
      refine ⟨?_, ?_, ?_, ?_, ?_, ?_, ?_, ?_⟩
      · rw [hcell, if_neg n3, if_neg n1, if_neg (by omega)]; exact d1
      · rw [hcell, if_neg n7, if_pos rfl]
      all_goals first
        | (show _ < h.next + 1; omega)
        | (intro x hx'; show _ < h.next + 1; rcases List.mem_append.mp hx' with hh | hh
           · have := d8 x hh; omega
           · simp at hh; omega)
    rw [cqmobs_of_shape hw']
    have old : ∀ a, a ≠ l → a ≠ q → a < h.next →
        (store (store (alloc h (.coeffs c)).1 q (.cqm o (cs ++ [h.next]))) l L).cell a = h.cell a := fun a h1 h2 h3 => by
      rw [hcell, if_neg h1, if_neg h2, if_neg (by omega)]
    refine Prod.ext ?_ (Prod.ext ?_ (Prod.ext ?_ ?_))
    · exact cqmobs_coeffsAt_cell (old o (Ne.symm n13) (Ne.symm n8) d7)
    · simp only [List.map_append, List.map_cons, List.map_nil]
      congr 1
      · exact cqmobs_map_same cs fun x hxc => old x (fun h0 => n14 (h0 ▸ hxc)) (fun h0 => n9 (h0 ▸ hxc)) (d8 x hxc)
      · have : (store (store (alloc h (.coeffs c)).1 q (.cqm o (cs ++ [h.next]))) l L).cell h.next = .coeffs c := by
          rw [hcell, if_neg (by omega), if_neg (by omega), if_pos rfl]
        simp [coeffsAt, this]
    · exact cqmobs_labelsAt_cell (old v n10 (Ne.symm n6) d5)
    · exact cqmobs_labelsAt_of_cell (by rw [hcell, if_pos rfl]; exact hL.symm)

/-- a run of in-place edits of one CQM folds over its observation -/
theorem cedits_obs {h : Heap} {d : Nat} (hg : CGood h d) (es : List CEdit) :
    CGood (es.foldl (fun acc e => e.run acc d) h) d ∧
    cobs (es.foldl (fun acc e => e.run acc d) h) d = es.foldl (fun ob e => e.onObs ob) (cobs h d) := by
  induction es generalizing h with
  | nil => exact ⟨hg, rfl⟩
  | cons e t ih =>
    have hg' := (cedit_step hg e).2.1
    obtain ⟨g2, o2⟩ := ih hg'
    exact ⟨g2, by rw [List.foldl_cons, List.foldl_cons, o2, cedit_obs hg e]⟩

/-- one step of the life of a CQM object: a copy-producing call made ON it, or an in-place edit OF it -/
inductive CStep where
  | call (c : CCall)
  | edit (e : CEdit)

def runCSteps (h : Heap) (d : Nat) : List CStep → Heap
  | [] => h
  | .call c :: t => runCSteps (c.run h d).1 d t
  | .edit e :: t => runCSteps (e.run h d) d t

def editsOf : List CStep → List CEdit
  | [] => []
  | .call _ :: t => editsOf t
  | .edit e :: t => e :: editsOf t

/-- along ANY history of copy-producing calls and in-place edits, the receiver reads what its own edits alone make of its first
    observation — given that one call leaves the receiver well-formed and reading the same (`heap_cqm_calls_separate`) -/
theorem csteps_obs (hcall : ∀ (h : Heap) (d : Nat) (c : CCall), CGood h d → CGood (c.run h d).1 d ∧ cobs (c.run h d).1 d = cobs h d)
    {h : Heap} {d : Nat} (hg : CGood h d) (steps : List CStep) :
    CGood (runCSteps h d steps) d ∧
    cobs (runCSteps h d steps) d = (editsOf steps).foldl (fun ob e => e.onObs ob) (cobs h d) := by
  induction steps generalizing h with
  | nil => exact ⟨hg, rfl⟩
  | cons st t ih =>
    cases st with
    | call c =>
      obtain ⟨g1, o1⟩ := hcall h d c hg
      obtain ⟨g2, o2⟩ := ih g1
      exact ⟨g2, by simpa [runCSteps, editsOf, o1] using o2⟩
    | edit e =>
      have g1 := (cedit_step hg e).2.1
      obtain ⟨g2, o2⟩ := ih g1
      exact ⟨g2, by simpa [runCSteps, editsOf, cedit_obs hg e] using o2⟩

end MHeap
