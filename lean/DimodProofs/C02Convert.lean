import DimodProofs.SparseAll
import Mathlib.Algebra.Field.Rat
import Mathlib.Algebra.Order.Field.Rat
import Mathlib.Tactic.NormNum
import Mathlib.Tactic.LinearCombination

/-! # C02 — conversions with the generated constants; round trip; the dict algorithm equals the C++ one -/

open Finset

namespace En

/-! ## the generated constants are the two affine maps `s = 2x − 1`, `x = (s + 1)/2` -/

open Generated.Vartype in
theorem bqmToBinary_map (x : Rat) : bqmToBinary.1 * x + bqmToBinary.2 = 2 * x - 1 := by
  simp only [bqmToBinary]; ring

open Generated.Vartype in
theorem bqmToSpin_map (s : Rat) : bqmToSpin.1 * s + bqmToSpin.2 = (s + 1) / 2 := by
  simp only [bqmToSpin]; ring

theorem two_ne_zero_rat : (two : Rat) ≠ 0 := by unfold two; norm_num

namespace Bqm

/-- well-formed BQM: the adjacency invariant and no squared terms -/
structure WF (m : Bqm Rat) : Prop where
  qb : m.qb.WF
  noSelf : ∀ u, m.qb.Q u u = 0

/-- **`changeVartype_energy`, SPIN → BINARY**: the converted model at `x` has the energy of the original at `s = 2x − 1` -/
theorem changeVartype_toBinary_energy (m : Bqm Rat) (hm : m.WF) (hvt : m.vt = .spin) (x : Nat → Rat) :
    (m.changeVartype .binary).vt = .binary ∧
    (m.changeVartype .binary).qb.energy x = m.qb.energy (fun u => 2 * x u - 1) := by
  unfold changeVartype changeVartypeWith
  simp only [hvt, reduceCtorEq, if_false, true_and]
  rw [QMB.substituteVariables_energy m.qb hm.qb hm.noSelf two_ne_zero_rat]
  congr 1; funext u; exact bqmToBinary_map (x u)

/-- **`changeVartype_energy`, BINARY → SPIN**: the converted model at `s` has the energy of the original at `x = (s + 1)/2` -/
theorem changeVartype_toSpin_energy (m : Bqm Rat) (hm : m.WF) (hvt : m.vt = .binary) (s : Nat → Rat) :
    (m.changeVartype .spin).vt = .spin ∧
    (m.changeVartype .spin).qb.energy s = m.qb.energy (fun u => (s u + 1) / 2) := by
  unfold changeVartype changeVartypeWith
  simp only [hvt, reduceCtorEq, if_false, true_and]
  rw [QMB.substituteVariables_energy m.qb hm.qb hm.noSelf two_ne_zero_rat]
  congr 1; funext u; exact bqmToSpin_map (s u)

/-- converting to the vartype the model already has changes nothing -/
theorem changeVartype_same (m : Bqm Rat) : m.changeVartype m.vt = m := by
  unfold changeVartype changeVartypeWith; simp

end Bqm

/-! ## round trip: coefficients are restored -/

namespace QMB

variable {R : Type} [Field R]

theorem rowSum_substituteVariables (m : QMB R) (hm : m.WF) (mult c : R) (u : Nat) :
    (m.substituteVariables mult c).rowSum u = m.rowSum u * (mult * mult) := by
  unfold rowSum
  rw [n_substituteVariables m hm, sum_mul]
  apply sum_congr rfl
  intro w _
  exact Q_substituteVariables m mult c u w

/-- **`changeVartype_roundtrip`** (general form): substituting `x = mult·y + c` and then the inverse map
    `y = mult'·z + c'` (`mult·mult' = 1`, `mult·c' + c = 0`) restores offset, every linear and every quadratic
    coefficient. -/
theorem substituteVariables_roundtrip (m : QMB R) (hm : m.WF) (h2 : (two : R) ≠ 0) (mult c mult' c' : R)
    (h1 : mult * mult' = 1) (hc : mult * c' + c = 0) :
    let m'' := (m.substituteVariables mult c).substituteVariables mult' c'
    m''.n = m.n ∧ m''.off = m.off ∧ (∀ u, u < m.n → m''.L u = m.L u) ∧ (∀ u w, m''.Q u w = m.Q u w) := by
  intro m''
  have hwf1 := WF_substituteVariables m hm mult c
  have hn1 := n_substituteVariables m hm mult c
  refine ⟨?_, ?_, ?_, ?_⟩
  · show ((m.substituteVariables mult c).substituteVariables mult' c').n = m.n
    rw [n_substituteVariables _ hwf1, hn1]
  · show ((m.substituteVariables mult c).substituteVariables mult' c').off = m.off
    rw [off_substituteVariables _ hwf1, hn1, off_substituteVariables m hm]
    have e1 : ∑ u ∈ range m.n, (m.substituteVariables mult c).L u
        = mult * ∑ u ∈ range m.n, m.L u + mult * c * ∑ u ∈ range m.n, m.rowSum u := by
      rw [mul_sum, mul_sum, ← sum_add_distrib]
      apply sum_congr rfl
      intro u hu
      rw [L_substituteVariables m hm mult c u (mem_range.mp hu)]; ring
    have e2 : ∑ u ∈ range m.n, (m.substituteVariables mult c).rowSum u
        = (mult * mult) * ∑ u ∈ range m.n, m.rowSum u := by
      rw [mul_sum]
      apply sum_congr rfl
      intro u _
      rw [rowSum_substituteVariables m hm]; ring
    rw [e1, e2]
    have hc' : c = -(mult * c') := by linear_combination hc
    have h2' : (2 : R) ≠ 0 := by simpa [two, one_add_one_eq_two] using h2
    rw [hc']
    simp only [two, one_add_one_eq_two]
    field_simp
    ring
  · intro u hu
    show ((m.substituteVariables mult c).substituteVariables mult' c').L u = m.L u
    rw [L_substituteVariables _ hwf1 mult' c' u (by rw [hn1]; exact hu), L_substituteVariables m hm mult c u hu,
        rowSum_substituteVariables m hm]
    have hc' : c = -(mult * c') := by linear_combination hc
    rw [hc']
    linear_combination (m.L u) * h1
  · intro u w
    show ((m.substituteVariables mult c).substituteVariables mult' c').Q u w = m.Q u w
    rw [Q_substituteVariables, Q_substituteVariables]
    linear_combination (m.Q u w * (mult * mult' + 1)) * h1

end QMB

namespace Bqm

open Generated.Vartype in
/-- **`changeVartype_roundtrip`** with the generated constants: SPIN → BINARY → SPIN and BINARY → SPIN → BINARY
    restore the original coefficients exactly (over ℚ; "up to rounding" in floating point) -/
theorem changeVartype_roundtrip (m : Bqm Rat) (hm : m.WF) (other : VT) (hne : other ≠ m.vt) :
    let m'' := (m.changeVartype other).changeVartype m.vt
    m''.vt = m.vt ∧ m''.qb.n = m.qb.n ∧ m''.qb.off = m.qb.off ∧
      (∀ u, u < m.qb.n → m''.qb.L u = m.qb.L u) ∧ (∀ u w, m''.qb.Q u w = m.qb.Q u w) := by
  intro m''
  cases hvt : m.vt with
  | spin =>
    have ho : other = .binary := by cases other <;> simp_all
    subst ho
    have := QMB.substituteVariables_roundtrip m.qb hm.qb two_ne_zero_rat bqmToBinary.1 bqmToBinary.2 bqmToSpin.1 bqmToSpin.2
      (by simp only [bqmToBinary, bqmToSpin]; norm_num) (by simp only [bqmToBinary, bqmToSpin]; norm_num)
    simp only [m'', changeVartype, changeVartypeWith, hvt, reduceCtorEq, if_false, true_and]
    exact this
  | binary =>
    have ho : other = .spin := by cases other <;> simp_all
    subst ho
    have := QMB.substituteVariables_roundtrip m.qb hm.qb two_ne_zero_rat bqmToSpin.1 bqmToSpin.2 bqmToBinary.1 bqmToBinary.2
      (by simp only [bqmToBinary, bqmToSpin]; norm_num) (by simp only [bqmToBinary, bqmToSpin]; norm_num)
    simp only [m'', changeVartype, changeVartypeWith, hvt, reduceCtorEq, if_false, true_and]
    exact this

end Bqm

end En
