import DimodModel.HeapCache
import DimodProofs.Heap

/-! Every route from a Python-level model object to the cy object it writes — directly, through a stored forwarding method,
    through the cached (or freshly made) `.spin` / `.binary` object and its stored forwarding methods — ends at the object's own
    cy object (`CacheInv` is an invariant), and `__copy__` / `__deepcopy__` start the copy with an empty `__dict__`. -/

namespace MHeap

/-- one `__dict__` assignment / object creation -/
def PyHeap.upd (p : PyHeap) (h' : Heap) (i : Nat) (o : PyObj) (n' : Nat) : PyHeap :=
  { h := h', obj := fun j => if j = i then some o else p.obj j, nextId := n' }

theorem inv_upd {p : PyHeap} (hp : CacheInv p) (h' : Heap) (i : Nat) (o : PyObj) (n' : Nat)
    (hn : p.nextId ≤ n') (hi : i < n') (hf : ∀ nt ∈ o.fwd, nt.2 = o.data)
    (ho : ∀ v, o.other = some v → v < n' ∧ (v = i ∨ ∃ ov, p.obj v = some ov ∧ ov.data = o.data))
    (hc : ∀ oi, p.obj i = some oi → oi.data = o.data) : CacheInv (p.upd h' i o n') := by
  refine ⟨?_, ?_⟩
  · intro j hj
    simp only [PyHeap.upd] at hj ⊢
    have : j ≠ i := by omega
    simp only [this, if_false]
    exact hp.1 j (by omega)
  · intro j oj hoj
    simp only [PyHeap.upd] at hoj ⊢
    by_cases hji : j = i
    · simp only [hji, if_true, Option.some.injEq] at hoj
      subst hoj
      refine ⟨hf, ?_⟩
      intro v hv
      obtain ⟨hvn, hcase⟩ := ho v hv
      rcases hcase with rfl | ⟨ov, h1, h2⟩
      · exact ⟨o, by simp, rfl, hvn⟩
      · by_cases hvi : v = i
        · exact ⟨o, by simp [hvi], rfl, hvn⟩
        · exact ⟨ov, by simp [hvi, h1], h2, hvn⟩
    · simp only [hji, if_false] at hoj
      obtain ⟨h1, h2⟩ := hp.2 j oj hoj
      refine ⟨h1, ?_⟩
      intro v hv
      obtain ⟨ov, h3, h4, h5⟩ := h2 v hv
      by_cases hvi : v = i
      · subst hvi
        exact ⟨o, by simp, by rw [← hc ov h3]; exact h4, by omega⟩
      · exact ⟨ov, by simp [hvi, h3], h4, by omega⟩

theorem obj_lt {p : PyHeap} (hp : CacheInv p) {x : Nat} {ox : PyObj} (hx : p.obj x = some ox) : x < p.nextId := by
  by_cases h : x < p.nextId
  · exact h
  · have := hp.1 x (by omega); rw [hx] at this; cases this

/-- `p'` extends `p`: same cells, the invariant holds, every existing object is still around the same cy object -/
def Ext (p p' : PyHeap) : Prop :=
  p'.h = p.h ∧ CacheInv p' ∧ ∀ i o, p.obj i = some o → ∃ o', p'.obj i = some o' ∧ o'.data = o.data

theorem Ext.refl {p : PyHeap} (hp : CacheInv p) : Ext p p := ⟨rfl, hp, fun _ o h => ⟨o, h, rfl⟩⟩

theorem Ext.trans {p q r : PyHeap} (a : Ext p q) (b : Ext q r) : Ext p r :=
  ⟨b.1.trans a.1, b.2.1, fun i o h => by
    obtain ⟨o1, h1, e1⟩ := a.2.2 i o h
    obtain ⟨o2, h2, e2⟩ := b.2.2 i o1 h1
    exact ⟨o2, h2, e2.trans e1⟩⟩

/-- `.spin` / `.binary`: cached or new, the object handed out is around the receiver's own cy object -/
theorem pyOther_spec {p : PyHeap} (hp : CacheInv p) {x : Nat} {ox : PyObj} (hx : p.obj x = some ox) :
    Ext p (pyOther p x).1 ∧ (pyOther p x).1.dataOf (pyOther p x).2 = some ox.data := by
  unfold pyOther
  simp only [hx]
  cases hother : ox.other with
  | some v =>
    obtain ⟨ov, h1, h2, _⟩ := (hp.2 x ox hx).2 v hother
    exact ⟨Ext.refl hp, by simp [PyHeap.dataOf, h1, h2]⟩
  | none =>
    have hxl := obj_lt hp hx
    have hne : p.nextId ≠ x := by omega
    -- the new view object, then the assignment `self._binary = bqm`
    let nv : PyObj := ⟨ox.data, true, some x, []⟩
    have i1 : CacheInv (p.upd p.h p.nextId nv (p.nextId + 1)) :=
      inv_upd hp p.h p.nextId nv (p.nextId + 1) (by omega) (by omega) (by intro nt h; cases h)
        (by intro v hv; simp only [nv, Option.some.injEq] at hv; subst hv; exact ⟨by omega, Or.inr ⟨ox, hx, rfl⟩⟩)
        (by intro oi hoi; rw [hp.1 p.nextId (Nat.le_refl _)] at hoi; cases hoi)
    let q := p.upd p.h p.nextId nv (p.nextId + 1)
    have hqx : q.obj x = some ox := by simp [q, PyHeap.upd, Ne.symm hne, hx]
    have i2 : CacheInv (q.upd q.h x { ox with other := some p.nextId } q.nextId) :=
      inv_upd i1 q.h x _ q.nextId (Nat.le_refl _) (by simp [q, PyHeap.upd]; omega) ((hp.2 x ox hx).1)
        (by intro v hv; simp only [Option.some.injEq] at hv; subst hv
            exact ⟨by simp [q, PyHeap.upd], Or.inr ⟨nv, by simp [q, PyHeap.upd], rfl⟩⟩)
        (by intro oi hoi; rw [hqx] at hoi; cases hoi; rfl)
    change Ext p (q.upd q.h x { ox with other := some p.nextId } q.nextId) ∧
      (q.upd q.h x { ox with other := some p.nextId } q.nextId).dataOf p.nextId = some ox.data
    refine ⟨⟨rfl, i2, ?_⟩, ?_⟩
    · intro i o hio
      by_cases hix : i = x
      · rw [hix, hx] at hio; cases hio
        exact ⟨{ ox with other := some p.nextId }, by simp [PyHeap.upd, hix], rfl⟩
      · have : i ≠ p.nextId := by have := obj_lt hp hio; omega
        exact ⟨o, by simp [PyHeap.upd, q, hix, this, hio], rfl⟩
    · simp [PyHeap.dataOf, PyHeap.upd, q, hne, nv]

theorem resolveFwd_spec {p : PyHeap} (hp : CacheInv p) {x : Nat} {ox : PyObj} (hx : p.obj x = some ox) (n : String) :
    Ext p (resolveFwd p x n).1 ∧ (resolveFwd p x n).2 = ox.data := by
  unfold resolveFwd
  simp only [hx]
  cases hl : fwdLookup ox.fwd n with
  | some t =>
    refine ⟨Ext.refl hp, ?_⟩
    simp only [fwdLookup, Option.map_eq_some_iff] at hl
    obtain ⟨nt, h1, rfl⟩ := hl
    exact (hp.2 x ox hx).1 nt (List.mem_of_find?_eq_some h1)
  | none =>
    have hxl := obj_lt hp hx
    have i1 : CacheInv (p.upd p.h x { ox with fwd := (n, ox.data) :: ox.fwd } p.nextId) :=
      inv_upd hp p.h x _ p.nextId (Nat.le_refl _) hxl
        (by intro nt hnt
            simp only [List.mem_cons] at hnt
            rcases hnt with rfl | hnt
            · rfl
            · exact (hp.2 x ox hx).1 nt hnt)
        (by intro v hv
            obtain ⟨ov, h1, h2, h3⟩ := (hp.2 x ox hx).2 v hv
            exact ⟨h3, Or.inr ⟨ov, h1, h2⟩⟩)
        (by intro oi hoi; rw [hx] at hoi; cases hoi; rfl)
    change Ext p (p.upd p.h x { ox with fwd := (n, ox.data) :: ox.fwd } p.nextId) ∧ ox.data = ox.data
    refine ⟨⟨rfl, i1, ?_⟩, rfl⟩
    intro i o hio
    by_cases hix : i = x
    · rw [hix, hx] at hio; cases hio
      exact ⟨{ ox with fwd := (n, ox.data) :: ox.fwd }, by simp [PyHeap.upd, hix], rfl⟩
    · exact ⟨o, by simp [PyHeap.upd, hix, hio], rfl⟩

/-- **every route ends at the object's own cy object** -/
theorem resolve_spec {p : PyHeap} (hp : CacheInv p) {x : Nat} {ox : PyObj} (hx : p.obj x = some ox) (r : Route) :
    Ext p (resolve p x r).1 ∧ (resolve p x r).2 = ox.data := by
  cases r with
  | direct => exact ⟨Ext.refl hp, by simp [resolve, PyHeap.dataOf, hx]⟩
  | fwd n => exact resolveFwd_spec hp hx n
  | otherDirect =>
    obtain ⟨he, hd⟩ := pyOther_spec hp hx
    exact ⟨he, by simp [resolve, hd]⟩
  | otherFwd n =>
    obtain ⟨he, hd⟩ := pyOther_spec hp hx
    simp only [resolve]
    cases hv : (pyOther p x).1.obj (pyOther p x).2 with
    | none => simp [PyHeap.dataOf, hv] at hd
    | some ov =>
      have hov : ov.data = ox.data := by simpa [PyHeap.dataOf, hv] using hd
      obtain ⟨he2, hd2⟩ := resolveFwd_spec he.2.1 hv n
      exact ⟨he.trans he2, by rw [hd2, hov]⟩

/-- a Python-level history through any routes is the cy-level history on the two objects' own cy objects -/
theorem pyRunEdits_h {p : PyHeap} (hp : CacheInv p) {x y : Nat} {ox oy : PyObj} (hx : p.obj x = some ox) (hy : p.obj y = some oy)
    (es : List (Bool × Route × Edit)) :
    (pyRunEdits p x y es).h = runEdits p.h ox.data oy.data (es.map fun t => (t.1, t.2.2)) := by
  induction es generalizing p ox oy with
  | nil => rfl
  | cons t es ih =>
    obtain ⟨side, r, e⟩ := t
    simp only [pyRunEdits, List.map_cons, runEdits]
    cases side with
    | false =>
      obtain ⟨hext, htgt⟩ := resolve_spec hp hx r
      obtain ⟨ox', hx', ex⟩ := hext.2.2 x ox hx
      obtain ⟨oy', hy', ey⟩ := hext.2.2 y oy hy
      have hinv : CacheInv (pyEdit p x r e) := ⟨hext.2.1.1, hext.2.1.2⟩
      have := ih (p := pyEdit p x r e) hinv (ox := ox') (oy := oy') hx' hy'
      simp only [Bool.false_eq_true, if_false]
      rw [this, ex, ey]
      simp only [pyEdit, htgt, hext.1]
    | true =>
      obtain ⟨hext, htgt⟩ := resolve_spec hp hy r
      obtain ⟨ox', hx', ex⟩ := hext.2.2 x ox hx
      obtain ⟨oy', hy', ey⟩ := hext.2.2 y oy hy
      have hinv : CacheInv (pyEdit p y r e) := ⟨hext.2.1.1, hext.2.1.2⟩
      have := ih (p := pyEdit p y r e) hinv (ox := ox') (oy := oy') hx' hy'
      simp only [if_true]
      rw [this, ex, ey]
      simp only [pyEdit, htgt, hext.1]

/-- `__copy__` / `__deepcopy__`: the invariant is kept, the receiver's `__dict__` is untouched, the copy's holds `data` only -/
theorem pyCopy_spec {p : PyHeap} (hp : CacheInv p) {x : Nat} {ox : PyObj} (hx : p.obj x = some ox) (tr : List Rat → List Rat) (deep : Bool) :
    CacheInv (pyCopy p x tr deep).1 ∧ (pyCopy p x tr deep).1.obj x = some ox ∧ (pyCopy p x tr deep).2 = p.nextId ∧
    (pyCopy p x tr deep).1.h = ((pyCopyCall ox.isView tr deep).run p.h ox.data 0).1 ∧
    (pyCopy p x tr deep).1.obj (pyCopy p x tr deep).2 =
      some ⟨((pyCopyCall ox.isView tr deep).run p.h ox.data 0).2, deep && ox.isView, none, []⟩ := by
  have hxl := obj_lt hp hx
  have hne : x ≠ p.nextId := by omega
  unfold pyCopy
  simp only [hx]
  refine ⟨?_, by simp [PyHeap.newObj, hne, hx], rfl, rfl, by simp [PyHeap.newObj]⟩
  have hp' : CacheInv { p with h := ((pyCopyCall ox.isView tr deep).run p.h ox.data 0).1 } := ⟨hp.1, hp.2⟩
  exact inv_upd hp' _ p.nextId _ (p.nextId + 1) (by simp) (by simp) (by intro nt h; cases h) (by intro v hv; cases hv)
    (by intro oi hoi; have := hp.1 p.nextId (Nat.le_refl _); simp only at hoi; rw [this] at hoi; cases hoi)

theorem pyCopyCall_produces (isView : Bool) (tr : List Rat → List Rat) (deep : Bool) : (pyCopyCall isView tr deep).producesCopy = true := by
  unfold pyCopyCall; split
  · rfl
  · split <;> rfl

theorem pyCopyCall_operand (isView : Bool) (tr : List Rat → List Rat) (deep : Bool) (h : Heap) (d o o' : Nat) :
    (pyCopyCall isView tr deep).run h d o = (pyCopyCall isView tr deep).run h d o' := by
  unfold pyCopyCall; split
  · rfl
  · split <;> rfl

end MHeap

namespace MHeap

/-! ### `set_objective` of an object-dtype model, end to end -/

theorem msep_transport {h h' : Heap} {d m : Nat} (s : MSep h d m) (hs : Same h.next h h') (hn : h.next ≤ h'.next) : MSep h' d m := by
  obtain ⟨hg, hm, x1, x2, x3⟩ := s
  obtain ⟨g', fp', _⟩ := hg.of_cells hn (fun x hx => hs x (cfp_lt hg x hx))
  obtain ⟨b', _, c', v'⟩ := hm.transport hs hn
  exact ⟨g', b', by rw [fp']; exact x1, by rw [fp', c']; exact x2, by rw [fp', v']; exact x3⟩

theorem msep_new_object {h h' : Heap} {d n : Nat} (hg : CGood h d) (hs : Same h.next h h') (hn : h.next ≤ h'.next)
    (hb : Born h.next h' n) : MSep h' d n := by
  obtain ⟨g', fp', _⟩ := hg.of_cells hn (fun x hx => hs x (cfp_lt hg x hx))
  have hlt := cfp_lt hg
  obtain ⟨c, v, k1, k2, k3, k4, k5, k6, k7, k8, k9, k10⟩ := hb
  have ec := cppOf_eq k1
  have ev := varsOf_eq k1
  refine ⟨g', (Born.mono ⟨c, v, k1, k2, k3, k4, k5, k6, k7, k8, k9, k10⟩ (Nat.zero_le _)), ?_, ?_, ?_⟩
  · rw [fp']; intro hx; have := hlt _ hx; omega
  · rw [fp', ec]; intro hx; have := hlt _ hx; omega
  · rw [fp', ev]; intro hx; have := hlt _ hx; omega

/-- `set_objective(object-dtype BQM)`: the temporary `BinaryQuadraticModel(objective, dtype=…)` is made of new cells, the call is then two
    in-place edits of the CQM with the temporary's contents; the caller's model is separate before, during and after -/
theorem setObjective_object_then_histories {h : Heap} {d m : Nat} (s : MSep h d m) (remap : List Rat → List Rat) (m' : Merge)
    (es : List Edit) (ces : List CEdit) :
    MSep (setObjective h d m true remap m') d m ∧ obs (setObjective h d m true remap m') m = obs h m ∧
    cobs (es.foldl (fun acc e => e.run acc m) (setObjective h d m true remap m')) d = cobs (setObjective h d m true remap m') d ∧
    obs (ces.foldl (fun acc e => e.run acc d) (setObjective h d m true remap m')) m = obs h m := by
  have hp := call_spec s.2.1 s.2.1 (.construct m') rfl
  have hrun : setObjective h d m true remap m' =
      setObjective ((Call.construct m').run h m m).1 d ((Call.construct m').run h m m).2 false remap m' := rfl
  have s1 : MSep ((Call.construct m').run h m m).1 d m := msep_transport s hp.2.1 hp.1
  have s2 : MSep ((Call.construct m').run h m m).1 d ((Call.construct m').run h m m).2 := msep_new_object s.1 hp.2.1 hp.1 hp.2.2.1
  rw [hrun, setObjective_as_edits s2]
  obtain ⟨s', o'⟩ := msep_cedits s1 [CEdit.vars (fun lv => m'.w lv (labelsAt ((Call.construct m').run h m m).1 (varsOf ((Call.construct m').run h m m).1 ((Call.construct m').run h m m).2))),
    CEdit.objective (fun _ => remap (coeffsAt ((Call.construct m').run h m m).1 (cppOf ((Call.construct m').run h m m).1 ((Call.construct m').run h m m).2)))]
  obtain ⟨h1, h2⟩ := msep_histories s' es ces
  have ho : obs ((Call.construct m').run h m m).1 m = obs h m := (hp.old s.2.1).2.1
  exact ⟨s', o'.trans ho, h1, h2.trans (o'.trans ho)⟩

end MHeap
