import DimodProofs.CqmSubst

/-! `relabel_variables` / `relabel_constraints` on the list of label-keyed polynomials (property C05):
    the indexed representation does not move at all, only the label lists change; seen through `absCqm`
    this is "rename the labels", every coefficient, type, bound and attribute following its label. -/

namespace CqmP
open Expr Cqm

/-- the renaming `Variables._relabel(mapping)` applies to a label (absent keys are left alone) -/
def renameOf (mp : List (Label × Label)) (x : Label) : Label := (LSpec.lookup (LSpec.dictOf mp) x).getD x

theorem relabel_labels_eq {l l' : List Label} {mp : List (Label × Label)} (h : LSpec.step l (.relabel mp) = (l', true)) :
    l' = l.map (renameOf mp) := by
  have : (if LSpec.relabelOk mp l then (LSpec.subst (LSpec.dictOf mp) l, true) else (l, false)) = (l', true) := h
  split_ifs at this
  · exact ((Prod.mk.inj this).1).symm
  · cases (Prod.mk.inj this).2

theorem findIdx_map_of_nodup {l : List Label} (f : Label → Label) (hnd : (l.map f).Nodup) {x : Label} {i : Nat}
    (hx : l[i]? = some x) : findIdx (f x) (l.map f) 0 = some i := by
  rw [findIdx_eq_some_iff hnd, List.getElem?_map, hx]; rfl

theorem findIdx_map_none {l : List Label} (f : Label → Label) {y : Label} (hy : ∀ x ∈ l, f x ≠ y) :
    findIdx y (l.map f) 0 = none := by
  rw [findIdx_none_iff]
  intro h
  obtain ⟨x, hx, hfx⟩ := List.mem_map.mp h
  exact hy x hx hfx

/-- an expression read through renamed labels: every old label's coefficients sit under its new name, labels
    outside the image have none -/
theorem absExpr_map {labels : List Label} (hnd : labels.Nodup) (f : Label → Label) (hnd' : (labels.map f).Nodup) (e : Expr)
    (hin : ExprIn labels.length e) :
    (absExpr (labels.map f) e).vars = (absExpr labels e).vars.map f
    ∧ (absExpr (labels.map f) e).off = (absExpr labels e).off
    ∧ (∀ x ∈ labels, (absExpr (labels.map f) e).lin (f x) = (absExpr labels e).lin x)
    ∧ (∀ x ∈ labels, ∀ y ∈ labels, (absExpr (labels.map f) e).quad (f x) (f y) = (absExpr labels e).quad x y)
    ∧ (∀ z, (∀ x ∈ labels, f x ≠ z) → (absExpr (labels.map f) e).lin z = 0
        ∧ ∀ w, (absExpr (labels.map f) e).quad z w = 0 ∧ (absExpr (labels.map f) e).quad w z = 0) := by
  have pos : ∀ x ∈ labels, ∃ i, labels[i]? = some x ∧ findIdx x labels 0 = some i ∧ findIdx (f x) (labels.map f) 0 = some i := by
    intro x hx
    obtain ⟨i, hi⟩ := List.getElem?_of_mem hx
    exact ⟨i, hi, (findIdx_eq_some_iff hnd).mpr hi, findIdx_map_of_nodup f hnd' hi⟩
  unfold absExpr
  refine ⟨?_, rfl, ?_, ?_, ?_⟩
  · simp only [List.map_map]
    apply List.map_congr_left
    intro g hg
    have hgl := hin g hg
    simp only [Function.comp, List.getD_eq_getElem?_getD, List.getElem?_map, List.getElem?_eq_getElem hgl]
    rfl
  · intro x hx
    obtain ⟨i, _, h1, h2⟩ := pos x hx
    simp only [h1, h2]
  · intro x hx y hy
    obtain ⟨i, _, h1, h2⟩ := pos x hx
    obtain ⟨j, _, h3, h4⟩ := pos y hy
    simp only [h1, h2, h3, h4]
  · intro z hz
    have hn := findIdx_map_none f hz
    refine ⟨by simp only [hn], ?_⟩
    intro w
    constructor
    · simp only [hn]
    · simp only [hn]
      cases findIdx w (labels.map f) 0 <;> rfl

/-- `relabel_variables(mapping)` when accepted: on the list of polynomials it is the renaming `renameOf mapping`
    of the variable labels — same order, and for every old label `x` its type/bounds and, in the objective and
    every constraint, its linear bias and its quadratic biases are found under the new label; constraint labels,
    senses, rhs, weights, penalties and marks are untouched.  (When rejected the model is unchanged.) -/
theorem absCqm_relabelVariables {m m' : Cqm} (hwf : CqmWF m) (hnd : m.labels.Nodup) (mp : List (Label × Label))
    (h : m.relabelVariables mp = (m', none)) :
    (absCqm m').labels = (absCqm m).labels.map (renameOf mp)
    ∧ (∀ x ∈ m.labels, (absCqm m').info (renameOf mp x) = (absCqm m).info x)
    ∧ (absCqm m').obj.vars = (absCqm m).obj.vars.map (renameOf mp)
    ∧ (absCqm m').obj.off = (absCqm m).obj.off
    ∧ (∀ x ∈ m.labels, (absCqm m').obj.lin (renameOf mp x) = (absCqm m).obj.lin x)
    ∧ (∀ x ∈ m.labels, ∀ y ∈ m.labels, (absCqm m').obj.quad (renameOf mp x) (renameOf mp y) = (absCqm m).obj.quad x y)
    ∧ m'.clabels = m.clabels
    ∧ m'.cons.length = m.cons.length
    ∧ ∀ k, k < m.cons.length →
        (absCons m'.labels (m'.cons.getD k {})).p.vars = (absCons m.labels (m.cons.getD k {})).p.vars.map (renameOf mp)
        ∧ (absCons m'.labels (m'.cons.getD k {})).p.off = (absCons m.labels (m.cons.getD k {})).p.off
        ∧ (∀ x ∈ m.labels, (absCons m'.labels (m'.cons.getD k {})).p.lin (renameOf mp x) = (absCons m.labels (m.cons.getD k {})).p.lin x)
        ∧ (∀ x ∈ m.labels, ∀ y ∈ m.labels, (absCons m'.labels (m'.cons.getD k {})).p.quad (renameOf mp x) (renameOf mp y)
              = (absCons m.labels (m.cons.getD k {})).p.quad x y)
        ∧ (m'.cons.getD k {}).sense = (m.cons.getD k {}).sense ∧ (m'.cons.getD k {}).rhs = (m.cons.getD k {}).rhs
        ∧ (m'.cons.getD k {}).weight = (m.cons.getD k {}).weight ∧ (m'.cons.getD k {}).quadPenalty = (m.cons.getD k {}).quadPenalty
        ∧ (m'.cons.getD k {}).discrete = (m.cons.getD k {}).discrete := by
  unfold Cqm.relabelVariables at h
  cases hs : LSpec.step m.labels (.relabel mp) with
  | mk l ok =>
    rw [hs] at h
    cases ok with
    | false => simp only [] at h; cases (Prod.mk.inj h).2
    | true =>
      simp only [] at h
      have hm' : m' = { m with labels := l } := ((Prod.mk.inj h).1).symm
      have hl : l = m.labels.map (renameOf mp) := relabel_labels_eq hs
      have hnd' : (m.labels.map (renameOf mp)).Nodup := by
        have := lspec_relabel_nodup m.labels mp hnd
        rw [hs] at this; rw [← hl]; exact this
      subst hm'
      subst hl
      have hlen : ∀ e, ExprIn m.vt.length e → ExprIn m.labels.length e := by
        intro e he; rw [hwf.labels_len]; exact he
      have hobj := absExpr_map hnd (renameOf mp) hnd' m.obj (hlen _ hwf.obj_lt)
      refine ⟨rfl, ?_, hobj.1, hobj.2.1, hobj.2.2.1, hobj.2.2.2.1, rfl, rfl, ?_⟩
      · intro x hx
        obtain ⟨i, hi⟩ := List.getElem?_of_mem hx
        show (findIdx (renameOf mp x) (m.labels.map (renameOf mp)) 0).map _ = (findIdx x m.labels 0).map _
        rw [findIdx_map_of_nodup _ hnd' hi, (findIdx_eq_some_iff hnd).mpr hi]
      · intro k hk
        have hc := getD_mem m.cons k {} hk
        have he := absExpr_map hnd (renameOf mp) hnd' (m.cons.getD k {}).e (hlen _ (hwf.cons_lt _ hc))
        exact ⟨he.1, he.2.1, he.2.2.1, he.2.2.2.1, rfl, rfl, rfl, rfl, rfl⟩

/-- `relabel_constraints(mapping)` when accepted: only the constraint labels are renamed, in place; every
    constraint (terms and attributes), the objective and the variables are untouched -/
theorem absCqm_relabelConstraints {m m' : Cqm} (mp : List (Label × Label)) (h : m.relabelConstraints mp = (m', none)) :
    (absCqm m').cons = (absCqm m).cons.map (fun p => (renameOf mp p.1, p.2))
    ∧ (absCqm m').obj = (absCqm m).obj ∧ (absCqm m').labels = (absCqm m).labels ∧ (absCqm m').info = (absCqm m).info := by
  unfold Cqm.relabelConstraints at h
  cases hs : LSpec.step m.clabels (.relabel mp) with
  | mk l ok =>
    rw [hs] at h
    cases ok with
    | false => simp only [] at h; cases (Prod.mk.inj h).2
    | true =>
      simp only [] at h
      have hm' : m' = { m with clabels := l } := ((Prod.mk.inj h).1).symm
      have hl : l = m.clabels.map (renameOf mp) := relabel_labels_eq hs
      subst hm'; subst hl
      refine ⟨?_, rfl, rfl, rfl⟩
      show (m.clabels.map (renameOf mp)).zip (m.cons.map (absCons m.labels)) = (m.clabels.zip (m.cons.map (absCons m.labels))).map _
      generalize m.cons.map (absCons m.labels) = cs
      generalize m.clabels = ls
      induction ls generalizing cs with
      | nil => rfl
      | cons a t ih =>
        cases cs with
        | nil => rfl
        | cons c cs' => simp [ih]

end CqmP
