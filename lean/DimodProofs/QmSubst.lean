import DimodProofs.QmRefine

/-! `abc::substitute_variable(v, mult, c)` as coded (one pass over the neighbourhood of `v`, the self-loop branch
    included): closed form of the result, at index level and on the label-keyed polynomial.  Core Lean only. -/

namespace Qm
open Bqm (modifyAt nbhCoef coefAt AdjWF mulKey adjMulPair NbSorted)

def keys (ps : List (Nat × Rat)) : List Nat := ps.map (·.1)

theorem nbhCoef_none_of_not_key (ps : List (Nat × Rat)) (k : Nat) (h : k ∉ keys ps) : nbhCoef ps k = none := by
  induction ps with
  | nil => rfl
  | cons p t ih =>
    unfold keys at h ih
    simp only [List.map_cons, List.mem_cons, not_or] at h
    simp only [nbhCoef]
    rw [if_neg (fun e => h.1 e.symm)]
    exact ih h.2

theorem mem_keys_iff (ps : List (Nat × Rat)) (k : Nat) : k ∈ keys ps ↔ (nbhCoef ps k).isSome := by
  rw [Bqm.nbhCoef_isSome_iff]
  unfold keys
  constructor
  · intro h; obtain ⟨p, hp, e⟩ := List.mem_map.mp h; exact ⟨p, hp, e⟩
  · intro ⟨p, hp, e⟩; exact List.mem_map.mpr ⟨p, hp, e⟩

/-- the effect of one loop iteration on the adjacency -/
theorem substStep_adj (v : Nat) (mult c : Rat) (acc : Qm) (p : Nat × Rat) (hp : p.1 < acc.adj.length) (hv : v < acc.adj.length)
    (x y : Nat) :
    coefAt (substStep v mult c acc p).adj x y =
      if p.1 = v then (if x = v ∧ y = v then (coefAt acc.adj x y).map (· * (mult * mult)) else coefAt acc.adj x y)
      else (if (x = p.1 ∧ y = v) ∨ (x = v ∧ y = p.1) then (coefAt acc.adj x y).map (· * mult) else coefAt acc.adj x y) := by
  unfold substStep
  by_cases hpv : p.1 = v
  · simp only [hpv, if_true]
    show coefAt (modifyAt acc.adj v (mulKey v (mult * mult))) x y = _
    rw [Bqm.coefAt_modifyAt]
    by_cases hx : v = x
    · subst hx
      simp only [true_and, hv, if_true, Bqm.nbhCoef_mulKey]
      by_cases hy : y = v
      · subst hy; simp [coefAt]
      · simp [hy, coefAt]
    · have hx' : ¬ x = v := fun e => hx e.symm
      simp [hx, hx']
  · simp only [hpv, if_false]
    exact Bqm.coefAt_adjMulPair acc.adj p.1 v mult hp hv hpv x y

theorem substStep_len (v : Nat) (mult c : Rat) (acc : Qm) (p : Nat × Rat) :
    (substStep v mult c acc p).adj.length = acc.adj.length ∧ (substStep v mult c acc p).lin.length = acc.lin.length := by
  unfold substStep
  split <;> simp

theorem substFold_len (v : Nat) (mult c : Rat) (ps : List (Nat × Rat)) (acc : Qm) :
    (ps.foldl (substStep v mult c) acc).adj.length = acc.adj.length ∧
    (ps.foldl (substStep v mult c) acc).lin.length = acc.lin.length := by
  induction ps generalizing acc with
  | nil => exact ⟨rfl, rfl⟩
  | cons p t ih =>
    simp only [List.foldl]
    have s := substStep_len v mult c acc p
    have r := ih (substStep v mult c acc p)
    exact ⟨r.1.trans s.1, r.2.trans s.2⟩

theorem substFold_adj (v : Nat) (mult c : Rat) (ps : List (Nat × Rat)) (hnd : (keys ps).Nodup) :
    ∀ (acc : Qm), (∀ p ∈ ps, p.1 < acc.adj.length) → v < acc.adj.length → ∀ x y,
    coefAt (ps.foldl (substStep v mult c) acc).adj x y =
      if x = v ∧ y = v then (if v ∈ keys ps then (coefAt acc.adj x y).map (· * (mult * mult)) else coefAt acc.adj x y)
      else if (x = v ∧ y ∈ keys ps) ∨ (y = v ∧ x ∈ keys ps) then (coefAt acc.adj x y).map (· * mult)
      else coefAt acc.adj x y := by
  induction ps with
  | nil => intro acc _ _ x y; simp [keys]
  | cons p t ih =>
    intro acc hb hv x y
    have hnd' : (keys t).Nodup := by unfold keys at hnd ⊢; exact (List.nodup_cons.mp hnd).2
    have hpt : p.1 ∉ keys t := by unfold keys at hnd ⊢; exact (List.nodup_cons.mp hnd).1
    have sl := substStep_len v mult c acc p
    simp only [List.foldl]
    rw [ih hnd' (substStep v mult c acc p) (fun q hq => by rw [sl.1]; exact hb q (List.mem_cons_of_mem _ hq)) (by rw [sl.1]; exact hv) x y]
    rw [substStep_adj v mult c acc p (hb p (by simp)) hv x y]
    have hk : ∀ k, k ∈ keys (p :: t) ↔ k = p.1 ∨ k ∈ keys t := by intro k; simp [keys]
    simp only [hk]
    by_cases hpv : p.1 = v
    · have hvt : v ∉ keys t := by rw [← hpv]; exact hpt
      have hvp : v = p.1 := hpv.symm
      by_cases hx : x = v <;> by_cases hy : y = v <;> simp [hpv, hx, hy, hvt]
    · have hvp : ¬ v = p.1 := fun e => hpv e.symm
      by_cases hx : x = v <;> by_cases hy : y = v
      · simp [hpv, hx, hy, hvp]
      · by_cases hyp : y = p.1
        · simp [hpv, hx, hy, hyp, hpt, hvp]
        · simp [hpv, hx, hy, hyp, hvp]
      · by_cases hxp : x = p.1
        · simp [hpv, hx, hy, hxp, hpt, hvp]
        · simp [hpv, hx, hy, hxp, hvp]
      · simp [hpv, hx, hy]

theorem substStep_off (v : Nat) (mult c : Rat) (acc : Qm) (p : Nat × Rat) :
    (substStep v mult c acc p).off = if p.1 = v then acc.off + p.2 * c * c else acc.off := by
  unfold substStep; split <;> rfl

theorem substStep_lin (v : Nat) (mult c : Rat) (acc : Qm) (p : Nat × Rat) (j : Nat) (hp : p.1 < acc.lin.length) :
    (substStep v mult c acc p).lin.getD j 0 =
      if j = p.1 then (if p.1 = v then acc.lin.getD j 0 + 2 * p.2 * mult * c else acc.lin.getD j 0 + p.2 * c)
      else acc.lin.getD j 0 := by
  unfold substStep
  by_cases hpv : p.1 = v
  · simp only [hpv, if_true]
    show (modifyAt acc.lin v _).getD j 0 = _
    rw [Bqm.getD_modifyAt]
    by_cases hj : j = v
    · subst hj; rw [hpv] at hp; simp [hp]
    · have : ¬ v = j := fun e => hj e.symm
      simp [hj, this]
  · simp only [hpv, if_false]
    show (modifyAt acc.lin p.1 _).getD j 0 = _
    rw [Bqm.getD_modifyAt]
    by_cases hj : j = p.1
    · subst hj; simp [hp]
    · have : ¬ p.1 = j := fun e => hj e.symm
      simp [hj, this]

theorem substFold_off (v : Nat) (mult c : Rat) (ps : List (Nat × Rat)) (hnd : (keys ps).Nodup) (acc : Qm) :
    (ps.foldl (substStep v mult c) acc).off = acc.off + (match nbhCoef ps v with | some b => b * c * c | none => 0) := by
  induction ps generalizing acc with
  | nil => simp [nbhCoef, Rat.add_zero]
  | cons p t ih =>
    have hnd' : (keys t).Nodup := by unfold keys at hnd ⊢; exact (List.nodup_cons.mp hnd).2
    have hpt : p.1 ∉ keys t := by unfold keys at hnd ⊢; exact (List.nodup_cons.mp hnd).1
    simp only [List.foldl]
    rw [ih hnd', substStep_off]
    simp only [nbhCoef]
    by_cases hpv : p.1 = v
    · rw [hpv] at hpt
      simp only [hpv, if_true, nbhCoef_none_of_not_key t v hpt]
      grind
    · simp only [hpv, if_false]

theorem substFold_lin (v : Nat) (mult c : Rat) (ps : List (Nat × Rat)) (hnd : (keys ps).Nodup) :
    ∀ (acc : Qm), (∀ p ∈ ps, p.1 < acc.lin.length) → ∀ j,
    (ps.foldl (substStep v mult c) acc).lin.getD j 0 = acc.lin.getD j 0 +
      (match nbhCoef ps j with | some b => if j = v then 2 * b * mult * c else b * c | none => 0) := by
  induction ps with
  | nil => intro acc _ j; simp [nbhCoef, Rat.add_zero]
  | cons p t ih =>
    intro acc hb j
    have hnd' : (keys t).Nodup := by unfold keys at hnd ⊢; exact (List.nodup_cons.mp hnd).2
    have hpt : p.1 ∉ keys t := by unfold keys at hnd ⊢; exact (List.nodup_cons.mp hnd).1
    have sl := substStep_len v mult c acc p
    simp only [List.foldl]
    rw [ih hnd' _ (fun q hq => by rw [sl.2]; exact hb q (List.mem_cons_of_mem _ hq)) j,
      substStep_lin v mult c acc p j (hb p (by simp))]
    simp only [nbhCoef]
    by_cases hj : j = p.1
    · have hj' : p.1 = j := hj.symm
      rw [hj] 
      simp only [if_true, nbhCoef_none_of_not_key t p.1 hpt]
      by_cases hpv : p.1 = v
      · simp only [hpv, if_true]; grind
      · simp only [hpv, if_false]; grind
    · have hj' : ¬ p.1 = j := fun e => hj e.symm
      simp only [hj, hj', if_false]

/-- **closed form of `substitute_variable(v, mult, c)`** on a well-formed model, index level -/
theorem substituteVariable_spec {m : Qm} (h : WF m) (v : Nat) (mult c : Rat) (hv : v < m.lin.length) :
    (∀ x y, coefAt (m.substituteVariable v mult c).adj x y =
      if x = v ∧ y = v then (coefAt m.adj x y).map (· * (mult * mult))
      else if x = v ∨ y = v then (coefAt m.adj x y).map (· * mult) else coefAt m.adj x y) ∧
    (∀ j, (m.substituteVariable v mult c).lin.getD j 0 =
      if j = v then m.lin.getD v 0 * mult + ((coefAt m.adj v v).map fun b => 2 * b * mult * c).getD 0
      else m.lin.getD j 0 + ((coefAt m.adj v j).map fun b => b * c).getD 0) ∧
    (m.substituteVariable v mult c).off =
      m.off + m.lin.getD v 0 * c + ((coefAt m.adj v v).map fun b => b * c * c).getD 0 ∧
    (m.substituteVariable v mult c).adj.length = m.adj.length ∧
    (m.substituteVariable v mult c).lin.length = m.lin.length := by
  have hva : v < m.adj.length := by rw [h.adj.len]; exact hv
  have hsorted := h.adj.sorted v
  have hnd : (keys (m.nbhAt v)).Nodup := by
    unfold keys Qm.nbhAt
    have : List.Pairwise (fun a b => a < b) ((m.adj.getD v []).map (·.1)) := by
      rw [List.pairwise_map]; exact hsorted
    exact this.imp (fun h => Nat.ne_of_lt h)
  have hbound : ∀ p ∈ m.nbhAt v, p.1 < m.lin.length := by
    intro p hp
    apply h.adj.bound v p.1
    show (nbhCoef (m.adj.getD v []) p.1).isSome
    rw [Bqm.nbhCoef_isSome_iff]; exact ⟨p, hp, rfl⟩
  have hkey : ∀ k, k ∈ keys (m.nbhAt v) ↔ (coefAt m.adj v k).isSome := fun k => mem_keys_iff _ k
  unfold Qm.substituteVariable
  generalize hm0 : ({ m with off := m.off + m.linAt v * c, lin := modifyAt m.lin v (· * mult) } : Qm) = m0
  have ha0 : m0.adj = m.adj := by rw [← hm0]
  have hl0 : m0.lin = modifyAt m.lin v (· * mult) := by rw [← hm0]
  have ho0 : m0.off = m.off + m.linAt v * c := by rw [← hm0]
  have hnb0 : m0.nbhAt v = m.nbhAt v := by unfold Qm.nbhAt; rw [ha0]
  dsimp only
  rw [hnb0]
  have len := substFold_len v mult c (m.nbhAt v) m0
  refine ⟨?_, ?_, ?_, by rw [len.1, ha0], by rw [len.2, hl0]; simp⟩
  · intro x y
    rw [substFold_adj v mult c _ hnd m0 (fun p hp => by rw [ha0, h.adj.len]; exact hbound p hp) (by rw [ha0]; exact hva) x y, ha0]
    simp only [hkey]
    by_cases hx : x = v <;> by_cases hy : y = v
    · rw [hx, hy]
      simp only [and_self, if_true]
      cases hc : coefAt m.adj v v <;> simp
    · rw [hx]
      simp only [hy, and_false, if_false, true_and, false_and, or_false, true_or, if_true]
      cases hc : coefAt m.adj v y <;> simp
    · rw [hy]
      simp only [hx, false_and, if_false, true_and, or_true, if_true, false_or]
      rw [h.adj.symm v x]
      cases hc : coefAt m.adj x v <;> simp
    · simp [hx, hy]
  · intro j
    rw [substFold_lin v mult c _ hnd m0 (fun p hp => by rw [hl0]; simp; exact hbound p hp) j, hl0]
    have e : nbhCoef (m.nbhAt v) j = coefAt m.adj v j := rfl
    rw [e]
    by_cases hj : j = v
    · rw [hj, Bqm.getD_modifyAt_self _ _ _ _ hv]
      simp only [if_true]
      cases coefAt m.adj v v <;> simp
    · rw [Bqm.getD_modifyAt_ne _ _ _ _ _ (fun e => hj e.symm)]
      simp only [hj, if_false]
      cases coefAt m.adj v j <;> simp
  · rw [substFold_off v mult c _ hnd m0, ho0]
    have e : nbhCoef (m.nbhAt v) v = coefAt m.adj v v := rfl
    rw [e]
    cases coefAt m.adj v v <;> rfl

end Qm
