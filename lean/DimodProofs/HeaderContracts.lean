import DimodModel.CountDicts
import DimodProofs.JsonContracts

/-! # `HeaderOK` discharged for the expression, CQM and DQM headers: the dictionaries the writers
    build, written as JSON text by the model (`dumpsDict`), are ASCII, parse back (modelled
    `json.loads` + the loader's field extraction) to exactly the header the loader uses, and no
    proper prefix of the text parses. -/

namespace FileFmt

/-! ## expression headers -/

/-- the header of `_cyExpression._into_file` as `_from_file` reads it -/
def exprHeaderOf (dsz isz : Nat) (e : ExprContent) : QHeader JVal :=
  { nvars := e.indices.length, ninter := e.quad.length, dsize := dsz, isize := isz, nsize := isz, vartype := 0, vars := .flag false }

def exprHeaderText (typeName : String) (dsz isz : Nat) (e : ExprContent) : Bytes :=
  asciiBytes (dumpsDict (exprDict (exprHeaderDict typeName dsz isz e)))

theorem expr_dict_parses (typeName : String) (dsz isz : Nat) (e : ExprContent) (hd : dsz = 4 ∨ dsz = 8) (hi : isz = 4 ∨ isz = 8) :
    qheaderOfDict false false false (exprDict (exprHeaderDict typeName dsz isz e)) = some (exprHeaderOf dsz isz e) := by
  obtain ⟨s1, s2⟩ := sizes_ok dsz isz hd hi
  simp [qheaderOfDict, exprDict, exprHeaderDict, exprHeaderOf, HDict.get?, List.find?, s1, s2]

theorem expr_header_ok (typeName : String) (dsz isz : Nat) (e : ExprContent) (hd : dsz = 4 ∨ dsz = 8) (hi : isz = 4 ∨ isz = 8)
    (hlen : (dumpsDict (exprDict (exprHeaderDict typeName dsz isz e))).length + 65 < 2 ^ 32) :
    HeaderOK parseExprHeader (exprHeaderText typeName dsz isz e) (exprHeaderOf dsz isz e) := by
  refine HeaderOK_dict _ _ _ ?_ (expr_dict_parses typeName dsz isz e hd hi) hlen
  intro kv hkv
  simp only [exprDict, List.mem_cons, List.not_mem_nil, or_false] at hkv
  rcases hkv with rfl | rfl | rfl | rfl <;> simp [FOK, JOK, JOKs]

/-! ## the CQM header -/

theorem natOf_natField (n : Nat) : natOf (some (natField n)) = some n := by
  simp [natOf, natField]

theorem cqm_dict_parses (k : CqmCounts) : cqmCountsOfDict (cqmCountsDict k) = some k := by
  simp [cqmCountsOfDict, cqmCountsDict, HDict.get?, List.find?, natOf_natField]

def cqmHeaderText (k : CqmCounts) : Bytes := asciiBytes (dumpsDict (cqmCountsDict k))

theorem cqm_header_ok (k : CqmCounts) (hlen : (dumpsDict (cqmCountsDict k)).length + 65 < 2 ^ 32) :
    HeaderOK parseCqmHeader (cqmHeaderText k) k := by
  refine HeaderOK_dict _ _ _ ?_ (cqm_dict_parses k) hlen
  intro kv hkv
  simp only [cqmCountsDict, List.mem_cons, List.not_mem_nil, or_false] at hkv
  rcases hkv with rfl | rfl | rfl | rfl | rfl | rfl | rfl <;> simp [FOK, JOK, natField]

/-! ## the DQM header -/

theorem dqm_dict_parses (k : DqmCounts) (variables : Bool) :
    dqmHeaderOfDict (dqmCountsDict k variables) = some (variables, dqmCountsDict k variables) := by
  simp [dqmHeaderOfDict, dqmCountsDict, HDict.get?, List.find?, fieldTruthy]

def dqmHeaderText (k : DqmCounts) (variables : Bool) : Bytes := asciiBytes (dumpsDict (dqmCountsDict k variables))

theorem dqm_header_ok (k : DqmCounts) (variables : Bool) (hlen : (dumpsDict (dqmCountsDict k variables)).length + 65 < 2 ^ 32) :
    HeaderOK parseDqmHeader (dqmHeaderText k variables) (variables, dqmCountsDict k variables) := by
  refine HeaderOK_dict _ _ _ ?_ (dqm_dict_parses k variables) hlen
  intro kv hkv
  simp only [dqmCountsDict, List.mem_cons, List.not_mem_nil, or_false] at hkv
  rcases hkv with rfl | rfl | rfl | rfl | rfl <;> simp [FOK, JOK, natField]

theorem keysSorted_count_dicts (k : CqmCounts) (q : DqmCounts) (v : Bool) (h : HeaderDict) :
    keysSorted (cqmCountsDict k) = true ∧ keysSorted (dqmCountsDict q v) = true ∧ keysSorted (exprDict h) = true := by
  refine ⟨?_, ?_, ?_⟩ <;> simp [keysSorted, cqmCountsDict, dqmCountsDict, exprDict] <;> decide

end FileFmt
