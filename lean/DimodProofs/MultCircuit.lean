import DimodProofs.MultArith

/-! # C17: `multiplication_circuit(n, m)`, `n, m ≥ 2`: all gates satisfied ⇒ the product bits encode `a·b` -/

namespace Gen
open Pen

def aLabel (i : Nat) : Label := strLabel s!"a{i}"
def bLabel (j : Nat) : Label := strLabel s!"b{j}"
def pLabel (k : Nat) : Label := strLabel s!"p{k}"

theorem mem_mulCircuit (n m : Nat) (hn : 1 ≤ n) (hm : 1 ≤ m) (gs : List (GateKind × List Label)) (h : mulCircuit n m = some gs)
    (i j : Nat) (hi : i < n) (hj : j < m) : ∀ g ∈ mcGate n m i j, g ∈ gs := by
  unfold mulCircuit at h
  have hn' : ¬ n < 1 := by omega
  have hm' : ¬ m = 0 := by omega
  simp only [hn', if_false, hm', Option.some.injEq] at h
  subst h
  intro g hg
  simp only [List.mem_flatMap, List.mem_range]
  exact ⟨i, hi, j, hj, hg⟩

theorem beq_rat (a b : Rat) : (a == b) = true ↔ a = b := by simp

/-- what the gates of `gate(i, j)` say about the values of their wires -/
theorem cell_sat (n m i j : Nat) (hm : 2 ≤ m) (hj : j < m) (x : Label → Rat)
    (hsat : ∀ g ∈ mcGate n m i j, g.1.rel (g.2.map x) = true) :
    x (mcAND i j) = x (aLabel i) * x (bLabel j)
    ∧ (1 ≤ i →
        x (mcAND i j)
          + (if j < m - 1 then (if i > 1 then x (mcSUM n (i - 1) (j + 1)) else x (mcAND 0 (j + 1)))
             else (if i > 1 then x (mcCARRY n m (i - 1) j) else 0))
          + (if j = 0 then 0 else x (mcCARRY n m i (j - 1)))
        = x (mcSUM n i j) + 2 * x (mcCARRY n m i j)) := by
  have hand : (GateKind.and, [strLabel s!"a{i}", strLabel s!"b{j}", mcAND i j]) ∈ mcGate n m i j := by
    unfold mcGate mcGateOf
    simp only
    split
    · simp
    · split <;> simp
  constructor
  · have := hsat _ hand
    simp only [GateKind.rel, g0, List.map_cons, List.map_nil, List.getD_cons_zero, List.getD_cons_succ, beq_rat] at this
    exact this
  · intro hi
    by_cases hj0 : j = 0
    · -- first column: half adder on [AND, upper]
      have hjm : j < m - 1 := by omega
      have hins : mcInputs n m i j = [mcAND i j, if i > 1 then mcSUM n (i - 1) (j + 1) else mcAND 0 (j + 1)] := by
        unfold mcInputs
        have : i > 0 := by omega
        have hm0 : ¬ (m - 1 = 0) := by omega
        subst hj0
        simp [this, hm0]
      have hmem : (GateKind.halfadder, mcInputs n m i j ++ [mcSUM n i j, mcCARRY n m i j]) ∈ mcGate n m i j := by
        unfold mcGate mcGateOf
        simp [hins]
      have := hsat _ hmem
      rw [hins] at this
      simp only [GateKind.rel, g0, List.map_cons, List.map_nil, List.cons_append, List.nil_append, List.getD_cons_zero, List.getD_cons_succ, beq_rat] at this
      simp only [hjm, if_true]
      by_cases hi1 : i > 1
      · simp only [hi1, if_true] at this ⊢; grind
      · simp only [hi1, if_false] at this ⊢; grind
    · by_cases hjm : j < m - 1
      · -- inner column: full adder on [AND, upper, left carry]
        have hins : mcInputs n m i j = [mcAND i j, if i > 1 then mcSUM n (i - 1) (j + 1) else mcAND 0 (j + 1), mcCARRY n m i (j - 1)] := by
          unfold mcInputs
          have : i > 0 := by omega
          have : j > 0 := by omega
          simp [*]
        have hmem : (GateKind.fulladder, mcInputs n m i j ++ [mcSUM n i j, mcCARRY n m i j]) ∈ mcGate n m i j := by
          unfold mcGate mcGateOf
          simp [hins]
        have := hsat _ hmem
        rw [hins] at this
        simp only [GateKind.rel, g0, List.map_cons, List.map_nil, List.cons_append, List.nil_append, List.getD_cons_zero, List.getD_cons_succ, beq_rat] at this
        simp only [hjm, hj0, if_true, if_false]
        by_cases hi1 : i > 1
        · simp only [hi1, if_true] at this ⊢; grind
        · simp only [hi1, if_false] at this ⊢; grind
      · -- last column
        by_cases hi1 : i > 1
        · have hins : mcInputs n m i j = [mcAND i j, mcCARRY n m (i - 1) j, mcCARRY n m i (j - 1)] := by
            unfold mcInputs
            have : i > 0 := by omega
            have : j > 0 := by omega
            simp [*]
          have hmem : (GateKind.fulladder, mcInputs n m i j ++ [mcSUM n i j, mcCARRY n m i j]) ∈ mcGate n m i j := by
            unfold mcGate mcGateOf
            simp [hins]
          have := hsat _ hmem
          rw [hins] at this
          simp only [GateKind.rel, g0, List.map_cons, List.map_nil, List.cons_append, List.nil_append, List.getD_cons_zero, List.getD_cons_succ, beq_rat] at this
          simp only [hjm, hj0, hi1, if_true, if_false]
          grind
        · have hins : mcInputs n m i j = [mcAND i j, mcCARRY n m i (j - 1)] := by
            unfold mcInputs
            have : i > 0 := by omega
            have : j > 0 := by omega
            simp [*]
          have hmem : (GateKind.halfadder, mcInputs n m i j ++ [mcSUM n i j, mcCARRY n m i j]) ∈ mcGate n m i j := by
            unfold mcGate mcGateOf
            simp [hins]
          have := hsat _ hmem
          rw [hins] at this
          simp only [GateKind.rel, g0, List.map_cons, List.map_nil, List.cons_append, List.nil_append, List.getD_cons_zero, List.getD_cons_succ, beq_rat] at this
          simp only [hjm, hj0, hi1, if_true, if_false]
          grind

/-- value read on the wires: the operands and the product, as numbers -/
def aVal (x : Label → Rat) (n : Nat) : Rat := wsum (fun i => x (aLabel i)) n
def bVal (x : Label → Rat) (m : Nat) : Rat := wsum (fun j => x (bLabel j)) m
def pVal (x : Label → Rat) (k : Nat) : Rat := wsum (fun k => x (pLabel k)) k

/-- **soundness of the wiring, all `n, m ≥ 2`**: at any sample at which every AND / half-adder /
    full-adder relation of `multiplication_circuit(n, m)` holds, the product bits `p0 … p(n+m-1)` encode
    the product of the numbers encoded by `a0 … a(n-1)` and `b0 … b(m-1)` (no hypothesis on the values
    being 0/1, none on the labels being distinct: only the gate equations are used) -/
theorem mulCircuit_sound (n m : Nat) (hn : 2 ≤ n) (hm : 2 ≤ m) (gs : List (GateKind × List Label)) (h : mulCircuit n m = some gs)
    (x : Label → Rat) (hsat : ∀ g ∈ gs, g.1.rel (g.2.map x) = true) :
    pVal x (n + m) = aVal x n * bVal x m := by
  have hcellsat : ∀ i j, i < n → j < m → ∀ g ∈ mcGate n m i j, g.1.rel (g.2.map x) = true :=
    fun i j hi hj g hg => hsat g (mem_mulCircuit n m (by omega) (by omega) gs h i j hi hj g hg)
  obtain ⟨n', rfl⟩ : ∃ n', n = n' + 1 := ⟨n - 1, by omega⟩
  obtain ⟨m', rfl⟩ : ∃ m', m = m' + 1 := ⟨m - 1, by omega⟩
  have key := array_multiplier n' m' (fun i => x (aLabel i)) (fun j => x (bLabel j))
    (fun i j => if i = 0 then x (mcAND 0 j) else x (mcSUM (n' + 1) i j))
    (fun i j => if i = 0 then 0 else x (mcCARRY (n' + 1) (m' + 1) i j))
    (by
      intro j hj
      simp only [if_true]
      exact (cell_sat (n' + 1) (m' + 1) 0 j hm hj x (hcellsat 0 j (by omega) hj)).1)
    (by simp)
    (by
      intro i hi1 hi2 j hj
      obtain ⟨h1, h2⟩ := cell_sat (n' + 1) (m' + 1) i j hm hj x (hcellsat i j hi2 hj)
      have h2 := h2 hi1
      have hi0 : ¬ i = 0 := by omega
      simp only [hi0, if_false, Nat.add_sub_cancel] at h2 ⊢
      rw [← h1]
      by_cases hi1' : i > 1
      · have : ¬ (i - 1 = 0) := by omega
        simp only [hi1', this, if_true, if_false] at h2 ⊢
        by_cases hjm : j < m'
        · simp only [hjm, if_true] at h2 ⊢; exact h2
        · have : j = m' := by omega
          subst this
          simp only [hjm, if_false] at h2 ⊢; exact h2
      · have : i - 1 = 0 := by omega
        simp only [hi1', this, if_true, if_false] at h2 ⊢
        exact h2)
  -- read the outputs through their `p` names
  have hS0 : ∀ i, (if i = 0 then x (mcAND 0 0) else x (mcSUM (n' + 1) i 0)) = x (pLabel i) := by
    intro i
    by_cases hi : i = 0
    · subst hi; simp only [if_true]; rfl
    · simp only [hi, if_false, mcSUM, if_true]; rfl
  have hn0 : ¬ n' = 0 := by omega
  have hSl : ∀ j, x (mcSUM (n' + 1) n' j) = x (pLabel (n' + j)) := by
    intro j
    by_cases hj : j = 0
    · subst hj; simp only [mcSUM, if_true]; rfl
    · simp only [mcSUM, hj, if_false, Nat.add_sub_cancel, if_true]; rfl
  have hC : x (mcCARRY (n' + 1) (m' + 1) n' m') = x (pLabel (n' + (m' + 1))) := by
    have e : n' + m' = n' + 1 + (m' + 1) - 2 := by omega
    have e2 : n' + 1 + (m' + 1) - 1 = n' + (m' + 1) := by omega
    simp only [mcCARRY, e, if_true, e2]; rfl
  simp only [hn0, if_false] at key
  rw [wsum_congr _ (fun i => x (pLabel i)) n' (fun i _ => hS0 i),
    wsum_congr (fun j => x (mcSUM (n' + 1) n' j)) (fun j => x (pLabel (n' + j))) (m' + 1) (fun j _ => hSl j), hC] at key
  unfold pVal aVal bVal
  rw [← key]
  have : n' + 1 + (m' + 1) = n' + (m' + 1 + 1) := by omega
  rw [this, wsum_split (fun k => x (pLabel k)) n' (m' + 1 + 1)]
  simp only [wsum]
  grind

end Gen
