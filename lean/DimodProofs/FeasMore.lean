import DimodProofs.FeasOptions
import DimodModel.FeasMore
import Mathlib.Algebra.Order.AbsoluteValue.Basic

/-! Helper lemmas for the cross-consistency / sense / soft-penalty / discrete / float-tolerance theorems of property C08. -/

namespace Feas

theorem absR_eq_abs (x : Rat) : absR x = |x| := by
  unfold absR
  split
  · rename_i h; exact (abs_of_neg h).symm
  · rename_i h; exact (abs_of_nonneg (not_lt.mp h)).symm

theorem satisfied_iff (atol rtol : Rat) (c : CEval) (r : Nat) :
    satisfied atol rtol c r = true ↔ violation c r ≤ atol + rtol * |c.rhs| := by
  unfold satisfied tol
  rw [absR_eq_abs]
  exact decide_eq_true_iff

theorem feasible_iff (atol rtol : Rat) (cs : List CEval) (r : Nat) :
    feasible atol rtol cs r = true ↔ ∀ c ∈ cs, c.weight = none → violation c r ≤ atol + rtol * |c.rhs| := by
  unfold feasible
  rw [List.all_eq_true]
  constructor
  · intro h c hc hw
    have := h c hc
    rw [hw] at this
    simpa [satisfied_iff] using this
  · intro h c hc
    cases hw : c.weight with
    | some w => simp
    | none => simpa [satisfied_iff] using h c hc hw

/-- nothing hard is listed by `iter_violations(skip_satisfied=True)` iff no hard constraint has a strictly positive violation -/
theorem hardListed_nil_iff (clip : Bool) (cs : List CEval) (hnd : (cs.map (·.label)).Nodup) (r : Nat) :
    hardListed clip cs r = [] ↔ ∀ c ∈ cs, c.weight = none → violation c r ≤ 0 := by
  unfold hardListed
  rw [iterViolations_skip, List.map_eq_nil_iff, List.filter_eq_nil_iff]
  constructor
  · intro h c hc hw
    by_contra hpos
    have hpos' : violation c r > 0 := lt_of_not_ge hpos
    have hm : (c.label, violation c r) ∈ (cs.filter (fun c => decide (violation c r > 0))).map (fun c => (c.label, violation c r)) :=
      List.mem_map.mpr ⟨c, List.mem_filter.mpr ⟨hc, by simpa using hpos'⟩, rfl⟩
    apply h _ hm
    rw [List.any_eq_true]
    exact ⟨c, hc, by simp [hw]⟩
  · intro h p hp hany
    obtain ⟨c, hc, rfl⟩ := List.mem_map.mp hp
    obtain ⟨hc1, hc2⟩ := List.mem_filter.mp hc
    rw [List.any_eq_true] at hany
    obtain ⟨c', hc', h'⟩ := hany
    simp only [Bool.and_eq_true, decide_eq_true_eq, Option.isNone_iff_eq_none] at h'
    have : c' = c := eq_of_nodup_map (·.label) cs hnd c' hc' c hc1 h'.1
    subst this
    have := h c' hc' h'.2
    have hpos : violation c' r > 0 := by simpa using hc2
    exact absurd this (not_le.mpr hpos)

/-- the penalty sum written on the violated soft constraints only -/
theorem sum_penaltyTerm (atol rtol : Rat) (cs : List CEval) (r : Nat) :
    (cs.map (penaltyTerm atol rtol · r)).sum
      = ((cs.filter (fun c => c.weight.isSome && !satisfied atol rtol c r)).map
          (fun c => c.weight.getD 0 * (if c.quad then violation c r * violation c r else violation c r))).sum := by
  induction cs with
  | nil => rfl
  | cons c t ih =>
    rw [List.map_cons, List.sum_cons, ih, List.filter_cons]
    unfold penaltyTerm
    cases hw : c.weight with
    | none => simp
    | some w =>
      cases hs : satisfied atol rtol c r with
      | true => simp
      | false =>
        simp only [Option.isSome_some, Bool.not_false, Bool.and_self, if_true, List.map_cons, List.sum_cons,
          Bool.false_eq_true, if_false]
        rw [hw]
        split <;> simp only [Option.getD_some, if_true, if_false, *]

theorem penaltyTerm_nonneg {atol rtol : Rat} (ha : 0 ≤ atol) (hr : 0 ≤ rtol) (c : CEval) (r : Nat)
    (hw : ∀ w, c.weight = some w → 0 ≤ w) : 0 ≤ penaltyTerm atol rtol c r := by
  unfold penaltyTerm
  cases hwt : c.weight with
  | none => simp
  | some w =>
    simp only []
    split
    · exact le_refl _
    · rename_i hs
      have hv : ¬ violation c r ≤ atol + rtol * |c.rhs| := fun h => hs ((satisfied_iff atol rtol c r).mpr h)
      have htol : 0 ≤ atol + rtol * |c.rhs| := add_nonneg ha (mul_nonneg hr (abs_nonneg _))
      have hpos : 0 < violation c r := lt_of_le_of_lt htol (lt_of_not_ge hv)
      have hw0 := hw w hwt
      split
      · exact mul_nonneg hw0 (mul_nonneg hpos.le hpos.le)
      · exact mul_nonneg hw0 hpos.le

theorem sum_nonneg_of_forall {l : List Rat} (h : ∀ x ∈ l, 0 ≤ x) : 0 ≤ l.sum := by
  induction l with
  | nil => simp
  | cons a t ih =>
    rw [List.sum_cons]
    exact add_nonneg (h a (List.mem_cons_self ..)) (ih fun x hx => h x (List.mem_cons_of_mem _ hx))

theorem sum_penalty_filter_soft (atol rtol : Rat) (cs : List CEval) (r : Nat) :
    (cs.map (penaltyTerm atol rtol · r)).sum = ((cs.filter (·.weight.isSome)).map (penaltyTerm atol rtol · r)).sum := by
  induction cs with
  | nil => rfl
  | cons c t ih =>
    rw [List.map_cons, List.sum_cons, List.filter_cons, ih]
    cases hw : c.weight with
    | none => simp [penaltyTerm_of_hard hw]
    | some w => simp

/-- the sum of a 0/1 list is the number of its ones -/
theorem sum_zero_one (xs : List Rat) (h : ∀ x ∈ xs, x = 0 ∨ x = 1) : xs.sum = (xs.count 1 : Rat) := by
  induction xs with
  | nil => simp
  | cons a t ih =>
    rw [List.sum_cons, ih (fun x hx => h x (List.mem_cons_of_mem _ hx)), List.count_cons]
    rcases h a (List.mem_cons_self ..) with ha | ha
    · subst ha; simp
    · subst ha; simp; ring

theorem nat_near_one {k : Nat} {t : Rat} (ht0 : 0 ≤ t) (ht : t < 1) : |(k : Rat) - 1| ≤ t ↔ k = 1 := by
  constructor
  · intro h
    have h2 := abs_le.mp h
    have hk1 : (k : Rat) < 2 := by linarith [h2.2]
    have hk0 : (0 : Rat) < k := by linarith [h2.1]
    have a : k < 2 := by exact_mod_cast hk1
    have b : 0 < k := by exact_mod_cast hk0
    omega
  · rintro rfl
    simpa using ht0

end Feas
