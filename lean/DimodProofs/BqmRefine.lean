import DimodProofs.BqmOps

/-! Refinement of the array model to a *plain polynomial keyed by labels* (`LPoly`: what a dict-of-dicts
    holds): `absL (step m op) = specStep (absL m) op` for the single-term edits, and by induction for
    histories.  Core Lean only. -/

namespace Bqm

/-- the polynomial as a user sees it: variables in order, linear bias per label (0 if absent),
    quadratic bias per unordered pair (`none` = no interaction), offset, vartype -/
structure LPoly where
  vars : List Label
  lin : Label → Rat
  quad : Label → Label → Option Rat
  off : Rat
  vt : VT

@[ext] theorem LPoly.ext' {p q : LPoly} (h1 : p.vars = q.vars) (h2 : ∀ l, p.lin l = q.lin l)
    (h3 : ∀ a b, p.quad a b = q.quad a b) (h4 : p.off = q.off) (h5 : p.vt = q.vt) : p = q := by
  cases p; cases q
  simp only [LPoly.mk.injEq]
  exact ⟨h1, funext h2, funext fun a => funext (h3 a), h4, h5⟩

def linL (m : Bqm) (l : Label) : Rat := match m.indexOf? l with | some i => m.lin.getD i 0 | none => 0

def quadL (m : Bqm) (a b : Label) : Option Rat :=
  match m.indexOf? a, m.indexOf? b with
  | some i, some j => coefAt m.adj i j
  | _, _ => none

/-- abstraction function -/
def absL (m : Bqm) : LPoly := { vars := m.labels, lin := m.linL, quad := m.quadL, off := m.off, vt := m.vt }

/-! ### the specification: algebra on `LPoly` -/

namespace LPoly

def ensure (p : LPoly) (v : Label) : LPoly := if v ∈ p.vars then p else { p with vars := p.vars ++ [v] }

def addLinear (p : LPoly) (v : Label) (b : Rat) : LPoly :=
  { p.ensure v with lin := fun l => if l = v then p.lin l + b else p.lin l }

def setLinear (p : LPoly) (v : Label) (b : Rat) : LPoly :=
  { p.ensure v with lin := fun l => if l = v then b else p.lin l }

/-- add / set the coefficient of the pair `{u, v}` (`u ≠ v`) -/
def quadOp (p : LPoly) (u v : Label) (b : Rat) (set : Bool) : LPoly :=
  { (p.ensure u).ensure v with
    quad := fun x y => if (x = u ∧ y = v) ∨ (x = v ∧ y = u) then some (if set then b else (p.quad u v).getD 0 + b)
                       else p.quad x y }

def removeInteraction (p : LPoly) (u v : Label) : LPoly :=
  { p with quad := fun x y => if (x = u ∧ y = v) ∨ (x = v ∧ y = u) then none else p.quad x y }

def removeVariable (p : LPoly) (v : Label) : LPoly :=
  { p with vars := p.vars.erase v, lin := fun l => if l = v then 0 else p.lin l,
           quad := fun x y => if x = v ∨ y = v then none else p.quad x y }

def scale (p : LPoly) (s : Rat) : LPoly :=
  { p with lin := fun l => p.lin l * s, quad := fun x y => (p.quad x y).map (· * s), off := p.off * s }

end LPoly

/-! ### label/index facts -/

theorem ensure_lin (p : LPoly) (v : Label) : (p.ensure v).lin = p.lin := by unfold LPoly.ensure; split <;> rfl
theorem ensure_quad (p : LPoly) (v : Label) : (p.ensure v).quad = p.quad := by unfold LPoly.ensure; split <;> rfl
theorem ensure_off (p : LPoly) (v : Label) : (p.ensure v).off = p.off := by unfold LPoly.ensure; split <;> rfl
theorem ensure_vt (p : LPoly) (v : Label) : (p.ensure v).vt = p.vt := by unfold LPoly.ensure; split <;> rfl


theorem indexOf?_none_iff (m : Bqm) (v : Label) : m.indexOf? v = none ↔ v ∉ m.labels := indexOfGo_none v m.labels 0

theorem indexOf?_isSome_of_mem (m : Bqm) (v : Label) (h : v ∈ m.labels) : ∃ i, m.indexOf? v = some i := by
  cases hi : m.indexOf? v with
  | some i => exact ⟨i, rfl⟩
  | none => exact absurd h ((indexOf?_none_iff m v).mp hi)

theorem idx_eq_iff {m : Bqm} {a u : Label} {x ui : Nat} (ha : m.indexOf? a = some x) (hu : m.indexOf? u = some ui) :
    x = ui ↔ a = u := by
  constructor
  · intro e
    have h1 := (indexOf?_some ha).2
    have h2 := (indexOf?_some hu).2
    rw [e, h2] at h1
    exact (Option.some.inj h1).symm
  · intro e; subst e; rw [ha] at hu; exact Option.some.inj hu

theorem indexOf?_pushVar (m : Bqm) (v l : Label) (hv : m.indexOf? v = none) :
    (m.pushVar v).indexOf? l = if l = v then some m.labels.length else m.indexOf? l := by
  unfold Bqm.indexOf? Bqm.pushVar at *
  simp only []
  by_cases hl : l = v
  · subst hl
    simp only [if_true]
    have := indexOfGo_append_none l m.labels 0 hv
    simpa using this
  · simp only [hl, if_false]
    cases hi : indexOfGo l m.labels 0 with
    | some i => exact indexOfGo_append_some l m.labels [v] 0 i hi
    | none =>
      rw [indexOfGo_none] at hi ⊢
      intro hmem
      rcases List.mem_append.mp hmem with h | h
      · exact hi h
      · simp at h; exact hl h

/-- an `IndexP` step only *ensures* the variable: the polynomial is unchanged -/
theorem absL_indexP {m m' : Bqm} {v : Label} {i : Nat} (h : WF m) (s : IndexP m v m' i) : absL m' = (absL m).ensure v := by
  rcases s.cases with ⟨rfl, hi⟩ | ⟨hi, rfl, rfl⟩
  · have hmem : v ∈ m'.labels := by
      cases hn : decide (v ∈ m'.labels) with
      | true => simpa using hn
      | false =>
        have : v ∉ m'.labels := by simpa using hn
        rw [(indexOf?_none_iff m' v).mpr this] at hi; cases hi
    simp [LPoly.ensure, absL, hmem]
  · have hnot : v ∉ m.labels := (indexOf?_none_iff m v).mp hi
    have hens : (absL m).ensure v = { absL m with vars := m.labels ++ [v] } := by
      simp [LPoly.ensure, absL, hnot]
    rw [hens]
    apply LPoly.ext'
    · rfl
    · intro l
      show (m.pushVar v).linL l = m.linL l
      unfold linL
      rw [indexOf?_pushVar m v l hi]
      by_cases hl : l = v
      · subst hl
        simp only [if_true, hi]
        show (m.lin ++ [0]).getD m.labels.length 0 = 0
        rw [h.labels_len]; simp [List.getD]
      · simp only [hl, if_false]
        cases m.indexOf? l with
        | none => rfl
        | some j => exact getD_append_zero m.lin j
    · intro a b
      show (m.pushVar v).quadL a b = m.quadL a b
      unfold quadL
      rw [indexOf?_pushVar m v a hi, indexOf?_pushVar m v b hi]
      have hlen : m.adj.length = m.labels.length := by rw [h.adj.len, h.labels_len]
      by_cases ha : a = v
      · subst ha
        simp only [if_true, hi]
        by_cases hb : b = a
        · subst hb
          simp only [if_true]
          show coefAt (m.adj ++ [[]]) _ _ = none
          rw [coefAt_push]; exact coefAt_of_ge _ _ _ (by omega)
        · simp only [hb, if_false]
          cases m.indexOf? b with
          | none => rfl
          | some j =>
            show coefAt (m.adj ++ [[]]) _ _ = none
            rw [coefAt_push]; exact coefAt_of_ge _ _ _ (by omega)
      · simp only [ha, if_false]
        cases hia : m.indexOf? a with
        | none => rfl
        | some x =>
          by_cases hb : b = v
          · subst hb
            simp only [if_true, hi]
            show coefAt (m.adj ++ [[]]) _ _ = none
            rw [coefAt_push, h.adj.symm]; exact coefAt_of_ge _ _ _ (by omega)
          · simp only [hb, if_false]
            cases m.indexOf? b with
            | none => rfl
            | some y => exact coefAt_push m.adj x y
    · rfl
    · rfl

/-- modifying the linear bias at the index of `v` -/
theorem absL_withLin {m : Bqm} (h : WF m) {v : Label} {i : Nat} (hi : m.indexOf? v = some i) (f : Rat → Rat) :
    absL { m with lin := modifyAt m.lin i f } = { absL m with lin := fun l => if l = v then f ((absL m).lin l) else (absL m).lin l } := by
  have hlt : i < m.lin.length := by rw [← h.labels_len]; exact (indexOf?_some hi).1
  apply LPoly.ext'
  · rfl
  · intro l
    show linL { m with lin := modifyAt m.lin i f } l = if l = v then f (m.linL l) else m.linL l
    unfold linL
    show (match m.indexOf? l with | some j => (modifyAt m.lin i f).getD j 0 | none => 0) = _
    by_cases hl : l = v
    · subst hl
      simp only [hi, if_true]
      exact getD_modifyAt_self _ _ _ _ hlt
    · simp only [hl, if_false]
      cases hj : m.indexOf? l with
      | none => rfl
      | some j =>
        have : i ≠ j := fun e => hl ((idx_eq_iff hj hi).mp e.symm)
        exact getD_modifyAt_ne _ _ _ _ _ this
  · intro a b; rfl
  · rfl
  · rfl

theorem addLinear_refines {m : Bqm} (h : WF m) (v : Label) (b : Rat) :
    absL (m.addLinear v b) = (absL m).addLinear v b := by
  have s := indexP_spec h v
  unfold Bqm.addLinear
  show absL { (m.indexP v).1 with lin := modifyAt (m.indexP v).1.lin (m.indexP v).2 (· + b) } = _
  rw [absL_withLin s.wf s.idx, absL_indexP h s]
  apply LPoly.ext'
  · rfl
  · intro l
    have : ((absL m).ensure v).lin l = (absL m).lin l := by unfold LPoly.ensure; split <;> rfl
    show (if l = v then ((absL m).ensure v).lin l + b else ((absL m).ensure v).lin l) = if l = v then (absL m).lin l + b else (absL m).lin l
    rw [this]
  · intro a c; unfold LPoly.addLinear LPoly.ensure; split <;> rfl
  · unfold LPoly.addLinear LPoly.ensure; split <;> rfl
  · unfold LPoly.addLinear LPoly.ensure; split <;> rfl

theorem setLinear_refines {m : Bqm} (h : WF m) (v : Label) (b : Rat) :
    absL (m.setLinear v b) = (absL m).setLinear v b := by
  have s := indexP_spec h v
  unfold Bqm.setLinear
  show absL { (m.indexP v).1 with lin := modifyAt (m.indexP v).1.lin (m.indexP v).2 (fun _ => b) } = _
  rw [absL_withLin s.wf s.idx, absL_indexP h s]
  apply LPoly.ext'
  · rfl
  · intro l
    show (if l = v then b else ((absL m).ensure v).lin l) = if l = v then b else (absL m).lin l
    rw [ensure_lin]
  · intro a c; unfold LPoly.setLinear LPoly.ensure; split <;> rfl
  · unfold LPoly.setLinear LPoly.ensure; split <;> rfl
  · unfold LPoly.setLinear LPoly.ensure; split <;> rfl

/-- the symmetric pair of entries at the indices of `u ≠ v` -/
theorem absL_withAdjSym {m : Bqm} (h : WF m) {u v : Label} {ui vi : Nat} (hu : m.indexOf? u = some ui)
    (hv : m.indexOf? v = some vi) (hne : u ≠ v) (b : Rat) (set : Bool) :
    absL ((m.asym ui vi b set).asym vi ui b set) =
      { absL m with
        quad := fun x y =>
          if (x = u ∧ y = v) ∨ (x = v ∧ y = u) then some (if set then b else ((absL m).quad u v).getD 0 + b)
          else (absL m).quad x y } := by
  have hui : ui < m.lin.length := by rw [← h.labels_len]; exact (indexOf?_some hu).1
  have hvi : vi < m.lin.length := by rw [← h.labels_len]; exact (indexOf?_some hv).1
  have hne' : ui ≠ vi := fun e => hne ((idx_eq_iff hu hv).mp e)
  apply LPoly.ext'
  · rfl
  · intro l; rfl
  · intro x y
    show quadL ((m.asym ui vi b set).asym vi ui b set) x y = _
    unfold quadL
    show (match m.indexOf? x, m.indexOf? y with
          | some i, some j => coefAt (adjSym m.adj ui vi b set) i j
          | _, _ => none) = _
    have huv : (absL m).quad u v = coefAt m.adj ui vi := by
      show m.quadL u v = _; unfold quadL; rw [hu, hv]
    cases hx : m.indexOf? x with
    | none =>
      have : ¬ ((x = u ∧ y = v) ∨ (x = v ∧ y = u)) := by
        intro hh; rcases hh with ⟨rfl, _⟩ | ⟨rfl, _⟩
        · rw [hu] at hx; cases hx
        · rw [hv] at hx; cases hx
      simp only [this, if_false]
      show none = m.quadL x y
      unfold quadL; rw [hx]
    | some i =>
      cases hy : m.indexOf? y with
      | none =>
        have : ¬ ((x = u ∧ y = v) ∨ (x = v ∧ y = u)) := by
          intro hh; rcases hh with ⟨_, rfl⟩ | ⟨_, rfl⟩
          · rw [hv] at hy; cases hy
          · rw [hu] at hy; cases hy
        simp only [this, if_false]
        show none = m.quadL x y
        unfold quadL; rw [hx, hy]
      | some j =>
        simp only []
        rw [coefAt_adjSym h.adj ui vi b set hui hvi hne' i j, huv]
        have e1 : (i = ui ∧ j = vi ∨ i = vi ∧ j = ui) ↔ (x = u ∧ y = v ∨ x = v ∧ y = u) := by
          rw [idx_eq_iff hx hu, idx_eq_iff hy hv, idx_eq_iff hx hv, idx_eq_iff hy hu]
        by_cases hc : (x = u ∧ y = v ∨ x = v ∧ y = u)
        · rw [if_pos (e1.mpr hc), if_pos hc]
        · rw [if_neg (fun hh => hc (e1.mp hh)), if_neg hc]
          show coefAt m.adj i j = m.quadL x y
          unfold quadL; rw [hx, hy]
  · rfl
  · rfl

theorem quadOp_refines {m : Bqm} (h : WF m) (u v : Label) (b : Rat) (set : Bool) (hne : u ≠ v) :
    absL (m.quadOp u v b set).1 = (absL m).quadOp u v b set := by
  have s1 := indexP_spec h u
  have s2 := indexP_spec s1.wf v
  unfold Bqm.quadOp
  simp only [hne, if_false]
  have hu2 : ((m.indexP u).1.indexP v).1.indexOf? u = some (m.indexP u).2 := s2.ext.indexOf? s1.idx
  rw [absL_withAdjSym s2.wf hu2 s2.idx hne, absL_indexP s1.wf s2, absL_indexP h s1]
  apply LPoly.ext'
  · rfl
  · intro l; rfl
  · intro x y
    show (if (x = u ∧ y = v) ∨ (x = v ∧ y = u) then some (if set then b else ((((absL m).ensure u).ensure v).quad u v).getD 0 + b)
          else (((absL m).ensure u).ensure v).quad x y) = _
    rw [ensure_quad, ensure_quad]; rfl
  · rfl
  · rfl

theorem absL_withOff (m : Bqm) (x : Rat) : absL { m with off := x } = { absL m with off := x } := rfl

/-! ### removing an interaction -/

theorem removeInteraction_refines {m : Bqm} (h : WF m) (u v : Label) (hq : ((absL m).quad u v).isSome) :
    absL (m.removeInteraction u v).1 = (absL m).removeInteraction u v ∧ (m.removeInteraction u v).2 = none := by
  have hq' : (m.quadL u v).isSome := hq
  unfold quadL at hq'
  cases hu : m.indexOf? u with
  | none => rw [hu] at hq'; simp at hq'
  | some ui =>
    cases hv : m.indexOf? v with
    | none => rw [hu, hv] at hq'; simp at hq'
    | some vi =>
      rw [hu, hv] at hq'
      simp only [] at hq'
      obtain ⟨c, hc⟩ := Option.isSome_iff_exists.mp hq'
      have hc' : nbhCoef (m.adj.getD ui []) vi = some c := hc
      have hui : ui < m.adj.length := by rw [h.adj.len, ← h.labels_len]; exact (indexOf?_some hu).1
      have hvi : vi < m.adj.length := by rw [h.adj.len, ← h.labels_len]; exact (indexOf?_some hv).1
      unfold Bqm.removeInteraction
      rw [hu, hv]
      simp only [hc']
      refine ⟨?_, trivial⟩
      apply LPoly.ext'
      · rfl
      · intro l; rfl
      · intro x y
        show quadL { m with adj := adjDrop m.adj ui vi } x y = _
        unfold quadL
        show (match m.indexOf? x, m.indexOf? y with
              | some i, some j => coefAt (adjDrop m.adj ui vi) i j
              | _, _ => none) = _
        cases hx : m.indexOf? x with
        | none =>
          show none = if _ then none else m.quadL x y
          unfold quadL; rw [hx]; simp
        | some i =>
          cases hy : m.indexOf? y with
          | none =>
            show none = if _ then none else m.quadL x y
            unfold quadL; rw [hx, hy]; simp
          | some j =>
            simp only []
            rw [coefAt_adjDrop m.adj ui vi hui hvi i j]
            have e1 : (i = ui ∧ j = vi ∨ i = vi ∧ j = ui) ↔ (x = u ∧ y = v ∨ x = v ∧ y = u) := by
              rw [idx_eq_iff hx hu, idx_eq_iff hy hv, idx_eq_iff hx hv, idx_eq_iff hy hu]
            show _ = if (x = u ∧ y = v) ∨ (x = v ∧ y = u) then none else m.quadL x y
            by_cases hcnd : (x = u ∧ y = v ∨ x = v ∧ y = u)
            · rw [if_pos (e1.mpr hcnd), if_pos hcnd]
            · rw [if_neg (fun hh => hcnd (e1.mp hh)), if_neg hcnd]
              unfold quadL; rw [hx, hy]
      · rfl
      · rfl

/-! ### scaling -/

theorem scale_refines (m : Bqm) (s : Rat) : absL (m.scale s) = (absL m).scale s := by
  apply LPoly.ext'
  · rfl
  · intro l
    show linL (m.scale s) l = m.linL l * s
    unfold linL
    show (match m.indexOf? l with | some i => (m.lin.map (· * s)).getD i 0 | none => 0) = _
    cases m.indexOf? l with
    | none => simp [Rat.zero_mul]
    | some i =>
      simp only [List.getD, List.getElem?_map]
      cases m.lin[i]? <;> simp [Rat.zero_mul]
  · intro a b
    show quadL (m.scale s) a b = (m.quadL a b).map (· * s)
    unfold quadL
    show (match m.indexOf? a, m.indexOf? b with
          | some i, some j => coefAt (adjScale m.adj s) i j
          | _, _ => none) = _
    cases m.indexOf? a with
    | none => rfl
    | some i =>
      cases m.indexOf? b with
      | none => rfl
      | some j => exact coefAt_adjScale m.adj s i j
  · rfl
  · rfl

/-! ### removing a variable (labels are duplicate-free) -/

theorem indexOfGo_shift (l : Label) (ls : List Label) (k : Nat) :
    indexOfGo l ls (k + 1) = (indexOfGo l ls k).map (· + 1) := by
  induction ls generalizing k with
  | nil => rfl
  | cons a t ih =>
    simp only [indexOfGo]
    by_cases ha : a = l
    · simp [ha]
    · simp only [ha, if_false]; exact ih (k + 1)

theorem indexOfGo_ge (l : Label) (ls : List Label) (k i : Nat) (h : indexOfGo l ls k = some i) : k ≤ i :=
  (indexOfGo_some l ls k i h).1

theorem indexOfGo_eraseIdx (l : Label) (ls : List Label) (k vi : Nat) (hn : ls.Nodup) :
    indexOfGo l (eraseIdx ls vi) k =
      if ls[vi]? = some l then none else (indexOfGo l ls k).map (fun i => if i > k + vi then i - 1 else i) := by
  induction ls generalizing k vi with
  | nil => simp [eraseIdx, indexOfGo]
  | cons a t ih =>
    have hat : a ∉ t := (List.nodup_cons.mp hn).1
    have hnt : t.Nodup := (List.nodup_cons.mp hn).2
    cases vi with
    | zero =>
      simp only [eraseIdx, List.getElem?_cons_zero, Option.some.injEq, indexOfGo]
      by_cases ha : a = l
      · subst ha
        simp only [if_true]
        exact (indexOfGo_none a t k).mpr hat
      · simp only [ha, if_false]
        rw [indexOfGo_shift]
        cases hi : indexOfGo l t k with
        | none => rfl
        | some i =>
          have := indexOfGo_ge l t k i hi
          simp only [Option.map_some, Option.some.injEq]
          have h2 : k < i + 1 := by omega
          simp [h2]
    | succ j =>
      simp only [eraseIdx, List.getElem?_cons_succ, indexOfGo]
      by_cases ha : a = l
      · subst ha
        have hne : ¬ t[j]? = some a := by
          intro e; exact hat (List.mem_of_getElem? e)
        simp only [if_true, hne, if_false, Option.map_some, Option.some.injEq]
        have : ¬ k > k + (j + 1) := by omega
        simp [this]
      · simp only [ha, if_false]
        rw [ih (k + 1) j hnt]
        by_cases ht : t[j]? = some l
        · simp [ht]
        · simp only [ht, if_false]
          have : (fun i => if i > k + 1 + j then i - 1 else i) = (fun i => if i > k + (j + 1) then i - 1 else i) := by
            funext i
            have : k + 1 + j = k + (j + 1) := by omega
            rw [this]
          rw [this]

theorem indexOf?_removeAt (m : Bqm) (vi : Nat) (l : Label) (hn : m.labels.Nodup) :
    (m.removeAt vi).indexOf? l = if m.labels[vi]? = some l then none else (m.indexOf? l).map (unskip vi) := by
  unfold Bqm.indexOf? Bqm.removeAt
  simp only []
  rw [indexOfGo_eraseIdx l m.labels 0 vi hn]
  have : (fun i => if i > 0 + vi then i - 1 else i) = unskip vi := by
    funext i; unfold unskip; simp
  rw [this]

theorem eraseIdx_eq_erase (v : Label) (ls : List Label) (k i : Nat) (h : indexOfGo v ls k = some i) :
    eraseIdx ls (i - k) = ls.erase v := by
  induction ls generalizing k with
  | nil => simp [indexOfGo] at h
  | cons a t ih =>
    simp only [indexOfGo] at h
    by_cases ha : a = v
    · simp only [ha, if_true, Option.some.injEq] at h
      subst h; subst ha
      simp [eraseIdx]
    · simp only [ha, if_false] at h
      have hge := indexOfGo_ge v t (k + 1) i h
      have : i - k = (i - (k + 1)) + 1 := by omega
      rw [this]
      simp only [eraseIdx]
      rw [ih (k + 1) h]
      have hne : (a == v) = false := by simpa using ha
      simp [List.erase_cons, hne]

theorem removeAt_refines {m : Bqm} (h : WF m) (hn : m.labels.Nodup) {v : Label} {vi : Nat} (hv : m.indexOf? v = some vi) :
    absL (m.removeAt vi) = (absL m).removeVariable v := by
  have hget := (indexOf?_some hv).2
  apply LPoly.ext'
  · show eraseIdx m.labels vi = m.labels.erase v
    have := eraseIdx_eq_erase v m.labels 0 vi hv
    simpa using this
  · intro l
    show linL (m.removeAt vi) l = if l = v then 0 else m.linL l
    unfold linL
    rw [indexOf?_removeAt m vi l hn, hget]
    by_cases hl : l = v
    · subst hl; simp
    · have : ¬ some v = some l := fun e => hl (Option.some.inj e).symm
      simp only [this, hl, if_false]
      cases hi : m.indexOf? l with
      | none => rfl
      | some i =>
        have hne : i ≠ vi := fun e => hl ((idx_eq_iff hi hv).mp e)
        show (eraseIdx m.lin vi).getD (unskip vi i) 0 = m.lin.getD i 0
        rw [getD_eraseIdx, skip_unskip vi i hne]
  · intro a b
    show quadL (m.removeAt vi) a b = if a = v ∨ b = v then none else m.quadL a b
    unfold quadL
    rw [indexOf?_removeAt m vi a hn, indexOf?_removeAt m vi b hn, hget]
    by_cases ha : a = v
    · subst ha; simp
    · have na : ¬ some v = some a := fun e => ha (Option.some.inj e).symm
      simp only [na, if_false]
      by_cases hb : b = v
      · subst hb
        simp only [if_true, or_true]
        cases (m.indexOf? a).map (unskip vi) <;> rfl
      · have nb : ¬ some v = some b := fun e => hb (Option.some.inj e).symm
        have hor : ¬ (a = v ∨ b = v) := fun hh => hh.elim ha hb
        simp only [nb, if_false, hor]
        cases hia : m.indexOf? a with
        | none => rfl
        | some i =>
          cases hib : m.indexOf? b with
          | none => rfl
          | some j =>
            have hi : i ≠ vi := fun e => ha ((idx_eq_iff hia hv).mp e)
            have hj : j ≠ vi := fun e => hb ((idx_eq_iff hib hv).mp e)
            show coefAt (adjRemove m.adj vi) (unskip vi i) (unskip vi j) = coefAt m.adj i j
            rw [coefAt_adjRemove, skip_unskip vi i hi, skip_unskip vi j hj]
  · rfl
  · rfl

/-! ### duplicate-free labels are preserved by the single-term edits -/

theorem nodup_indexP {m : Bqm} (h : WF m) (hn : m.labels.Nodup) (v : Label) : (m.indexP v).1.labels.Nodup := by
  rcases (indexP_spec h v).cases with ⟨e, _⟩ | ⟨hi, e, _⟩
  · rw [e]; exact hn
  · rw [e]
    show (m.labels ++ [v]).Nodup
    have hnot : v ∉ m.labels := (indexOf?_none_iff m v).mp hi
    rw [List.nodup_append]
    refine ⟨hn, by simp, ?_⟩
    intro a ha b hb
    simp at hb; subst hb
    intro e; subst e; exact hnot ha

theorem nodup_eraseIdx {α} (l : List α) (i : Nat) (h : l.Nodup) : (eraseIdx l i).Nodup := by
  induction l generalizing i with
  | nil => simp [eraseIdx]
  | cons a t ih =>
    have hat := (List.nodup_cons.mp h).1
    have hnt := (List.nodup_cons.mp h).2
    cases i with
    | zero => exact hnt
    | succ j =>
      simp only [eraseIdx]
      exact List.nodup_cons.mpr ⟨fun hm => hat (mem_eraseIdx t j a hm), ih j hnt⟩

end Bqm
