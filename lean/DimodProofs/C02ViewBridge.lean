import DimodProofs.BqmViewQuad
import DimodProofs.BqmVartype
import Mathlib.Algebra.Field.Rat
import Mathlib.Algebra.BigOperators.Group.Finset.Basic
import Mathlib.Algebra.BigOperators.Ring.Finset
import Mathlib.Algebra.BigOperators.Group.Finset.Sigma
import Mathlib.Tactic.Ring
import Mathlib.Tactic.NormNum
import Mathlib.Tactic.Linarith

/-! # C02 ↔ C04 bridge — what a `VartypeView` shows *is* the model converted by `change_vartype`

builder-bqm's `LPoly.viewP q tv` is assembled from the reader code of `vartypeview.py` (`2·h − 2·Σ nbh`, the factor
`4` / `1/4`, the offset `− Σ h + Σ lower triangle` …); `LPoly.changeVartype` is `substitute_variables(mult, c)` as coded
in `binary_quadratic_model.h`.  On a well-formed polynomial they coincide; the only non-trivial point is the
offset: the view sums every interaction once (lower triangle), the C++ code every directed entry with `c²/2`.
Imports only; nothing of the `Bqm` development is changed. -/

namespace C02Bridge

open Bqm

theorem foldl_add_eq_sum {α} (l : List α) (f : α → Rat) (z : Rat) :
    l.foldl (fun acc a => acc + f a) z = z + (l.map f).sum := by
  induction l generalizing z with
  | nil => simp
  | cons a t ih => simp only [List.foldl_cons, List.map_cons, List.sum_cons, ih]; ring

theorem foldl_add_mul {α} (l : List α) (f : α → Rat) (k z : Rat) :
    l.foldl (fun acc a => acc + k * f a) z = z + k * l.foldl (fun acc a => acc + f a) 0 := by
  rw [foldl_add_eq_sum, foldl_add_eq_sum, zero_add, ← List.sum_map_mul_left]

theorem g_symm {q : LPoly} (w : LWF q) (a b : Label) : q.g a b = q.g b a := by
  unfold LPoly.g; rw [w.symm]

theorem g_self {q : LPoly} (w : LWF q) (a : Label) : q.g a a = 0 := by
  unfold LPoly.g; rw [w.noself]; rfl

/-- every interaction appears twice among the directed entries, once in the lower triangle -/
theorem sum_sumNb {q : LPoly} (w : LWF q) :
    q.vars.foldl (fun acc l => acc + q.sumNb l) 0 = 2 * q.sumQuad := by
  rw [sumQuad_eq]
  simp only [sumNb_eq, foldl_add_eq_sum, zero_add]
  have inner : ∀ f : Label → Rat, (q.vars.map f).sum = ∑ a ∈ q.vars.toFinset, f a :=
    fun f => (List.sum_toFinset f w.nodup).symm
  simp only [inner]
  have key : ∀ a ∈ q.vars.toFinset, ∀ b ∈ q.vars.toFinset, q.g a b = q.low a b + q.low b a := by
    intro a ha b hb
    have ha' : a ∈ q.vars := List.mem_toFinset.mp ha
    have hb' : b ∈ q.vars := List.mem_toFinset.mp hb
    unfold LPoly.low
    rcases lt_trichotomy (q.pos a) (q.pos b) with h | h | h
    · rw [if_neg (by omega), if_pos h, g_symm w]; ring
    · have := pos_inj w.nodup ha' hb' h
      subst this
      rw [g_self w]; simp
    · rw [if_pos h, if_neg (by omega)]; ring
  calc ∑ a ∈ q.vars.toFinset, ∑ b ∈ q.vars.toFinset, q.g a b
      = ∑ a ∈ q.vars.toFinset, ∑ b ∈ q.vars.toFinset, (q.low a b + q.low b a) :=
        Finset.sum_congr rfl fun a ha => Finset.sum_congr rfl fun b hb => key a ha b hb
    _ = ∑ a ∈ q.vars.toFinset, ∑ b ∈ q.vars.toFinset, q.low a b
          + ∑ a ∈ q.vars.toFinset, ∑ b ∈ q.vars.toFinset, q.low b a := by
        simp only [Finset.sum_add_distrib]
    _ = 2 * ∑ a ∈ q.vars.toFinset, ∑ b ∈ q.vars.toFinset, q.low a b := by
        rw [Finset.sum_comm (f := fun a b => q.low b a)]; ring

theorem substituteAll_lin (q : LPoly) (mult c : Rat) (l : Label) :
    (q.substituteAll mult c).lin l = q.lin l * mult + mult * c * q.sumNb l := by
  show (q.nbrs l).foldl (fun a lc => a + mult * c * lc.2) (q.lin l * mult) = _
  rw [foldl_add_mul]; rfl

theorem substituteAll_off {q : LPoly} (w : LWF q) (mult c : Rat) :
    (q.substituteAll mult c).off = q.off + c * q.sumLin + c * c * q.sumQuad := by
  show q.vars.foldl (fun acc l => (q.nbrs l).foldl (fun a lc => a + c * c / 2 * lc.2) acc)
        (q.vars.foldl (fun acc l => acc + q.lin l * c) q.off) = _
  have h1 : ∀ (acc : Rat) (l : Label), (q.nbrs l).foldl (fun a lc => a + c * c / 2 * lc.2) acc = acc + c * c / 2 * q.sumNb l := by
    intro acc l; rw [foldl_add_mul]; rfl
  simp only [h1]
  rw [foldl_add_mul q.vars (fun l => q.sumNb l) (c * c / 2), sum_sumNb w]
  have h2 : q.vars.foldl (fun acc l => acc + q.lin l * c) q.off = q.off + c * q.sumLin := by
    have : (fun (acc : Rat) l => acc + q.lin l * c) = fun acc l => acc + c * q.lin l := by
      funext acc l; ring
    rw [this, foldl_add_mul]; rfl
  rw [h2]; ring

/-- **what a view of vartype `tv` shows is the model converted to `tv`** -/
theorem viewP_eq_changeVartype {q : LPoly} (w : LWF q) (tv : VT) : q.viewP tv = q.changeVartype tv := by
  by_cases h : q.vt = tv
  · subst h
    rw [viewP_self]; unfold LPoly.changeVartype; simp
  · have h' : ¬ tv = q.vt := fun e => h e.symm
    unfold LPoly.changeVartype
    rw [if_neg h]
    cases tv with
    | spin =>
      apply LPoly.ext'
      · rfl
      · intro l
        show q.viewLin .spin l = (q.substituteAll (1/2) (1/2)).lin l
        rw [substituteAll_lin]; unfold LPoly.viewLin; rw [if_neg h']; ring
      · intro a b
        show (q.quad a b).map (q.viewFactor .spin * ·) = (q.quad a b).map (· * (1/2 * (1/2)))
        unfold LPoly.viewFactor; rw [if_neg h']
        cases q.quad a b with
        | none => rfl
        | some c => simp only [Option.map_some]; congr 1; ring
      · show q.viewOff .spin = (q.substituteAll (1/2) (1/2)).off
        rw [substituteAll_off w]; unfold LPoly.viewOff; rw [if_neg h']; ring
      · rfl
    | binary =>
      apply LPoly.ext'
      · rfl
      · intro l
        show q.viewLin .binary l = (q.substituteAll 2 (-1)).lin l
        rw [substituteAll_lin]; unfold LPoly.viewLin; rw [if_neg h']; ring
      · intro a b
        show (q.quad a b).map (q.viewFactor .binary * ·) = (q.quad a b).map (· * (2 * 2))
        unfold LPoly.viewFactor; rw [if_neg h']
        cases q.quad a b with
        | none => rfl
        | some c => simp only [Option.map_some]; congr 1; ring
      · show q.viewOff .binary = (q.substituteAll 2 (-1)).off
        rw [substituteAll_off w]; unfold LPoly.viewOff; rw [if_neg h']; ring
      · rfl

/-! ### the conversion is invertible: `change_vartype` there and back -/

/-- the polynomial after `substitute_variables(mult, c)`, re-tagged -/
def sub (q : LPoly) (mult c : Rat) (t : VT) : LPoly := { q.substituteAll mult c with vt := t }

theorem sub_g (q : LPoly) (mult c : Rat) (t : VT) (a b : Label) : (sub q mult c t).g a b = mult * mult * q.g a b := by
  show ((q.quad a b).map (· * (mult * mult))).getD 0 = mult * mult * (q.quad a b).getD 0
  cases q.quad a b with
  | none => simp
  | some x => simp only [Option.map_some, Option.getD_some]; ring

theorem sub_sumNb (q : LPoly) (mult c : Rat) (t : VT) (l : Label) : (sub q mult c t).sumNb l = mult * mult * q.sumNb l := by
  rw [sumNb_eq, sumNb_eq]
  show q.vars.foldl (fun a w => a + (sub q mult c t).g l w) 0 = _
  simp only [sub_g]
  rw [foldl_add_mul]; ring

theorem sub_low (q : LPoly) (mult c : Rat) (t : VT) (a b : Label) : (sub q mult c t).low a b = mult * mult * q.low a b := by
  unfold LPoly.low
  show (if q.pos b < q.pos a then (sub q mult c t).g a b else 0) = _
  rw [sub_g]; split <;> ring

theorem sub_sumQuad (q : LPoly) (mult c : Rat) (t : VT) : (sub q mult c t).sumQuad = mult * mult * q.sumQuad := by
  rw [sumQuad_eq, sumQuad_eq]
  show q.vars.foldl (fun acc a => acc + q.vars.foldl (fun a2 w => a2 + (sub q mult c t).low a w) 0) 0 = _
  simp only [sub_low]
  have : ∀ a, q.vars.foldl (fun a2 w => a2 + mult * mult * q.low a w) 0 = mult * mult * q.vars.foldl (fun a2 w => a2 + q.low a w) 0 := by
    intro a; rw [foldl_add_mul]; ring
  simp only [this]
  rw [foldl_add_mul]; ring

theorem sub_sumLin {q : LPoly} (w : LWF q) (mult c : Rat) (t : VT) :
    (sub q mult c t).sumLin = mult * q.sumLin + mult * c * (2 * q.sumQuad) := by
  show q.vars.foldl (fun a l => a + (q.substituteAll mult c).lin l) 0 = _
  simp only [substituteAll_lin]
  rw [← sum_sumNb w]
  unfold LPoly.sumLin
  simp only [foldl_add_eq_sum, zero_add]
  rw [← List.sum_map_mul_left, ← List.sum_map_mul_left, ← List.sum_map_add]
  congr 1
  apply List.map_congr_left
  intro l _; ring

theorem sumNb_absent {q : LPoly} (w : LWF q) (l : Label) (hl : l ∉ q.vars) : q.sumNb l = 0 := by
  rw [sumNb_eq]
  have : ∀ x, q.g l x = 0 := by
    intro x
    unfold LPoly.g
    cases h : q.quad l x with
    | none => rfl
    | some c => exact absurd (w.closed l x (by rw [h]; rfl)).1 hl
  simp only [this]
  exact foldl_zero _ _

theorem sub_LWF {q : LPoly} (w : LWF q) (mult c : Rat) (t : VT) : LWF (sub q mult c t) := by
  refine ⟨w.nodup, ?_, ?_, ?_, ?_⟩
  · intro l hl
    show (q.substituteAll mult c).lin l = 0
    rw [substituteAll_lin, w.lin0 l hl, sumNb_absent w l hl]; ring
  · intro a b h
    have : (q.quad a b).isSome := by
      have h' : ((q.quad a b).map (· * (mult * mult))).isSome := h
      simpa using h'
    exact w.closed a b this
  · intro a b
    show (q.quad a b).map _ = (q.quad b a).map _
    rw [w.symm]
  · intro a
    show (q.quad a a).map _ = none
    rw [w.noself]; rfl

theorem changeVartype_LWF {q : LPoly} (w : LWF q) (t : VT) : LWF (q.changeVartype t) := by
  unfold LPoly.changeVartype
  split
  · exact w
  · cases t with
    | spin => exact sub_LWF w _ _ _
    | binary => exact sub_LWF w _ _ _

theorem sub_sub {q : LPoly} (w : LWF q) (m1 c1 m2 c2 : Rat) (t : VT) (hm : m1 * m2 = 1) (hc : c2 + m2 * c1 = 0) :
    sub (sub q m1 c1 t) m2 c2 q.vt = q := by
  have wp := sub_LWF w m1 c1 t
  have e1 : m1 * m1 * (m2 * m2) = 1 := by
    have : m1 * m1 * (m2 * m2) = (m1 * m2) * (m1 * m2) := by ring
    rw [this, hm]; ring
  apply LPoly.ext'
  · rfl
  · intro l
    show ((sub q m1 c1 t).substituteAll m2 c2).lin l = q.lin l
    rw [substituteAll_lin, sub_sumNb]
    show (q.substituteAll m1 c1).lin l * m2 + _ = _
    rw [substituteAll_lin]
    have : c2 = -(m2 * c1) := by linarith
    rw [this]
    have h2 : q.lin l * m1 * m2 = q.lin l := by rw [mul_assoc, hm, mul_one]
    have h3 : m1 * c1 * q.sumNb l * m2 = c1 * q.sumNb l := by
      have : m1 * c1 * q.sumNb l * m2 = (m1 * m2) * (c1 * q.sumNb l) := by ring
      rw [this, hm, one_mul]
    have h4 : m2 * -(m2 * c1) * (m1 * m1 * q.sumNb l) = -((m1 * m2) * (m1 * m2) * (c1 * q.sumNb l)) := by ring
    rw [add_mul, h2, h3, h4, hm]; ring
  · intro a b
    show ((q.quad a b).map (· * (m1 * m1))).map (· * (m2 * m2)) = q.quad a b
    cases q.quad a b with
    | none => rfl
    | some x =>
      simp only [Option.map_some]
      rw [mul_assoc, e1, mul_one]
  · show ((sub q m1 c1 t).substituteAll m2 c2).off = q.off
    rw [substituteAll_off wp, sub_sumLin w, sub_sumQuad]
    show (q.substituteAll m1 c1).off + _ + _ = _
    rw [substituteAll_off w]
    have : c2 = -(m2 * c1) := by linarith
    rw [this]
    have k1 : -(m2 * c1) * (m1 * q.sumLin + m1 * c1 * (2 * q.sumQuad)) = -((m1 * m2) * (c1 * q.sumLin + c1 * c1 * (2 * q.sumQuad))) := by ring
    have k2 : -(m2 * c1) * -(m2 * c1) * (m1 * m1 * q.sumQuad) = (m1 * m2) * (m1 * m2) * (c1 * c1 * q.sumQuad) := by ring
    rw [k1, k2, hm]; ring
  · rfl

/-- **`change_vartype` there and back is the identity** on a well-formed polynomial (exact, over ℚ) -/
theorem changeVartype_roundtrip {q : LPoly} (w : LWF q) (t : VT) : (q.changeVartype t).changeVartype q.vt = q := by
  by_cases h : q.vt = t
  · have : q.changeVartype t = q := by unfold LPoly.changeVartype; rw [if_pos h]
    rw [this]; unfold LPoly.changeVartype; simp
  · have hq : ∀ (mult c : Rat), (sub q mult c t).vt = t := fun _ _ => rfl
    cases t with
    | spin =>
      have hv : q.vt = .binary := by cases hq' : q.vt with | spin => exact absurd hq' h | binary => rfl
      have e : q.changeVartype .spin = sub q (1/2) (1/2) .spin := by unfold LPoly.changeVartype; rw [if_neg h]; rfl
      rw [e, hv]
      have e2 : (sub q (1/2) (1/2) .spin).changeVartype .binary = sub (sub q (1/2) (1/2) .spin) 2 (-1) .binary := by
        unfold LPoly.changeVartype; rw [if_neg (by rw [hq]; decide)]; rfl
      rw [e2]
      have := sub_sub w (1/2) (1/2) 2 (-1) .spin (by norm_num) (by norm_num)
      rw [hv] at this; exact this
    | binary =>
      have hv : q.vt = .spin := by cases hq' : q.vt with | binary => exact absurd hq' h | spin => rfl
      have e : q.changeVartype .binary = sub q 2 (-1) .binary := by unfold LPoly.changeVartype; rw [if_neg h]; rfl
      rw [e, hv]
      have e2 : (sub q 2 (-1) .binary).changeVartype .spin = sub (sub q 2 (-1) .binary) (1/2) (1/2) .spin := by
        unfold LPoly.changeVartype; rw [if_neg (by rw [hq]; decide)]; rfl
      rw [e2]
      have := sub_sub w 2 (-1) (1/2) (1/2) .binary (by norm_num) (by norm_num)
      rw [hv] at this; exact this

/-! ### a write through a view leaves the data's vartype alone -/

theorem indexP_vt (m : Bqm) (v : Label) : (m.indexP v).1.vt = m.vt := by
  unfold Bqm.indexP; split <;> rfl

theorem addLinear_vt (m : Bqm) (v : Label) (b : Rat) : (m.addLinear v b).vt = m.vt := by
  show (m.indexP v).1.vt = m.vt; exact indexP_vt m v

theorem setLinear_vt (m : Bqm) (v : Label) (b : Rat) : (m.setLinear v b).vt = m.vt := by
  show (m.indexP v).1.vt = m.vt; exact indexP_vt m v

theorem quadOp_vt (m : Bqm) (u v : Label) (b : Rat) (set : Bool) : (m.quadOp u v b set).1.vt = m.vt := by
  unfold Bqm.quadOp
  split
  · rfl
  · show ((m.indexP u).1.indexP v).1.vt = m.vt
    rw [indexP_vt, indexP_vt]

theorem vSetOffset_vt (m : Bqm) (tv : VT) (b : Rat) : (m.vSetOffset tv b).vt = m.vt := by
  unfold Bqm.vSetOffset; split <;> rfl

theorem vAddLinear_vt (m : Bqm) (tv : VT) (v : Label) (b : Rat) : (m.vAddLinear tv v b).vt = m.vt := by
  unfold Bqm.vAddLinear
  split
  · exact addLinear_vt _ _ _
  · cases tv with
    | binary => exact addLinear_vt m v (b / 2)
    | spin => exact addLinear_vt m v (2 * b)

theorem vAddQuadratic_vt (m : Bqm) (tv : VT) (u v : Label) (b : Rat) : (m.vAddQuadratic tv u v b).vt = m.vt := by
  unfold Bqm.vAddQuadratic
  split
  · exact quadOp_vt _ _ _ _ _
  · cases tv with
    | binary =>
      show (((m.quadOp u v (b / 4) false).1.addLinear u (b / 4)).addLinear v (b / 4)).vt = m.vt
      rw [addLinear_vt, addLinear_vt, quadOp_vt]
    | spin =>
      show (((m.quadOp u v (4 * b) false).1.addLinear u (-2 * b)).addLinear v (-2 * b)).vt = m.vt
      rw [addLinear_vt, addLinear_vt, quadOp_vt]

theorem vAddVariable_vt (m : Bqm) (tv : VT) (v : Option Label) (b : Rat) : (m.vAddVariable tv v b).vt = m.vt := by
  unfold Bqm.vAddVariable
  simp only []
  rw [vAddLinear_vt, addLinear_vt]

theorem vSetLinear_vt (m : Bqm) (tv : VT) (v : Label) (b : Rat) : (m.vSetLinear tv v b).vt = m.vt := by
  unfold Bqm.vSetLinear
  split
  · exact setLinear_vt _ _ _
  · simp only []
    split
    · exact vAddLinear_vt _ _ _ _
    · rw [vAddLinear_vt, vAddLinear_vt]

theorem vSetQuadratic_vt (m : Bqm) (tv : VT) (u v : Label) (b : Rat) : (m.vSetQuadratic tv u v b).1.vt = m.vt := by
  unfold Bqm.vSetQuadratic
  split
  · rfl
  · simp only []
    split
    · show (Bqm.vAddQuadratic _ tv u v _).vt = m.vt
      rw [vAddQuadratic_vt, vAddQuadratic_vt, vAddVariable_vt, vAddVariable_vt]
    · show (Bqm.vAddQuadratic _ tv u v 0).vt = m.vt
      rw [vAddQuadratic_vt, vAddVariable_vt, vAddVariable_vt]

/-! ### the corollaries -/

/-- **what a `VartypeView` shows is the model converted by the C++ `change_vartype`** -/
theorem view_shows_converted {m : Bqm} (i : Inv m) (tv : VT) : (absL m).viewP tv = absL (m.changeVartype tv) := by
  rw [viewP_eq_changeVartype (LWF.absL i), (changeVartype_refines i tv).1]

/-- **a write through a view = convert, edit, convert back**: if the view shows the edit `E` of what it showed
    (builder-bqm's `view_sees_*`), the data afterwards is `E` applied to the converted model, converted back -/
theorem write_is_convert_edit_back {m m' : Bqm} (i : Inv m) (i' : Inv m') (hvt : m'.vt = m.vt) (tv : VT) (E : LPoly → LPoly)
    (h : (absL m').viewP tv = E ((absL m).viewP tv)) :
    absL m' = (E (absL (m.changeVartype tv))).changeVartype m.vt := by
  have r := changeVartype_roundtrip (LWF.absL i') tv
  rw [absL_vt, hvt, ← viewP_eq_changeVartype (LWF.absL i'), h, view_shows_converted i] at r
  exact r.symm

end C02Bridge
