import DimodProofs.EqualityViews

/-! Property C18 — `ConstrainedQuadraticModel.is_equal` and `.is_almost_equal` are one comparison scheme (`cqmCmp`) over
    a per-expression test `mEq` and a right-hand-side test `rEq`; the scheme is `True` exactly when
    * the objectives pass `mEq`,
    * **every variable of either model — whether or not any expression uses it — is a variable of the other with the same
      type** (`∀ v, lookup a.vars v = lookup b.vars v`),
    * the constraint labels coincide and under each label sense, rhs (`rEq`) and lhs (`mEq`) agree.
    Instantiated for `is_equal` (`CanonEq`, `=`) — `cqmIsEqual_iff_canon` of `Equality.lean` restated — and for
    `is_almost_equal` (`AlmostCanon p`, `roundsToZero p (· - ·)`); symmetry of both, and of `==` / `!=` for every class pair. -/

namespace Eqm
open QModel

/-- the body both CQM comparisons share (after the `isinstance` guard) -/
def cqmCmp (mEq : QModel → QModel → M Bool) (rEq : Rat → Rat → Bool) (self o : CqmVal) : M Bool := do
  if !(← mEq self.obj o.obj) then pure false else
  if !(varsEq self o) then pure false else
  if !(keysEq self.cons o.cons) then pure false else
  allConsM self.cons fun c =>
    match findCons o.cons c.label with
    | some d => do
      if c.sense ≠ d.sense then pure false else
      if !(← mEq c.lhs d.lhs) then pure false else pure (rEq c.rhs d.rhs)
    | none => throw .value

theorem cqmIsEqual_eq_cmp (a b : CqmVal) :
    cqmIsEqualWith true true true a (.cqm b)
      = cqmCmp (fun x y => modelIsEqualWith true x (.model y)) (fun x y => decide (x = y)) a b := by
  unfold cqmIsEqualWith cqmCmp
  simp only [Bool.true_and]
  rfl

theorem cqmAlmost_eq_cmp (p : Int) (a b : CqmVal) :
    cqmAlmostWith true true true true p a (.cqm b)
      = cqmCmp (fun x y => modelAlmostWith true true p x (.model y)) (fun x y => roundsToZero p (x - y)) a b := by
  unfold cqmAlmostWith cqmCmp
  simp only [Bool.true_and]
  rfl

/-- what the scheme decides, on canonical forms -/
structure CqmCanonGen (R : QModel → QModel → Prop) (rEq : Rat → Rat → Bool) (a b : CqmVal) : Prop where
  obj : R a.obj b.obj
  vars : ∀ v, lookup a.vars v = lookup b.vars v
  cons : ∀ l, match findCons a.cons l, findCons b.cons l with
    | some c, some d => c.sense = d.sense ∧ rEq c.rhs d.rhs = true ∧ R c.lhs d.lhs
    | none, none => True
    | _, _ => False

theorem cqmCmp_iff (mEq : QModel → QModel → M Bool) (rEq : Rat → Rat → Bool) (R : QModel → QModel → Prop)
    (htot : ∀ x y, WF y → ∃ r, mEq x y = .ok r)
    (hiffm : ∀ x y, WF x → WF y → (mEq x y = .ok true ↔ R x y))
    (a b : CqmVal) (ha : CqmWFv a) (hb : CqmWFv b) :
    cqmCmp mEq rEq a b = .ok true ↔ CqmCanonGen R rEq a b := by
  unfold cqmCmp
  have perCons : ∀ c ∈ a.cons, ∀ d, findCons b.cons c.label = some d →
      ((do if c.sense ≠ d.sense then pure false else
            if !(← mEq c.lhs d.lhs) then pure false else pure (rEq c.rhs d.rhs) : M Bool) = .ok true
        ↔ c.sense = d.sense ∧ rEq c.rhs d.rhs = true ∧ R c.lhs d.lhs) := by
    intro c hc d hd
    have hdm := (findCons_some hd).1
    by_cases hs : c.sense = d.sense
    swap
    · rw [if_pos hs]
      constructor
      · intro h; cases h
      · intro h; exact absurd h.1 hs
    · rw [if_neg (not_not.mpr hs)]
      obtain ⟨r, hr⟩ := htot c.lhs d.lhs (hb.cons d hdm)
      have hiff := hiffm c.lhs d.lhs (ha.cons c hc) (hb.cons d hdm)
      rw [hr, bind_ok]
      cases r with
      | false =>
        constructor
        · intro h; cases h
        · intro h; have := hiff.mpr h.2.2; rw [hr] at this; cases this
      | true =>
        have hce := hiff.mp hr
        constructor
        · intro h
          have h' : (Except.ok (rEq c.rhs d.rhs) : M Bool) = Except.ok true := h
          refine ⟨hs, ?_, hce⟩
          injection h'
        · intro h
          show (Except.ok (rEq c.rhs d.rhs) : M Bool) = Except.ok true
          rw [h.2.1]
  obtain ⟨r0, hr0⟩ := htot a.obj b.obj hb.obj
  have hobj := hiffm a.obj b.obj ha.obj hb.obj
  rw [hr0, bind_ok]
  cases r0 with
  | false =>
    constructor
    · intro h; cases h
    · intro h; have := hobj.mpr h.obj; rw [hr0] at this; cases this
  | true =>
    have hoc := hobj.mp hr0
    simp only [Bool.not_true, Bool.false_eq_true, if_false]
    by_cases hv : varsEq a b = true
    swap
    · have hv' : varsEq a b = false := by simpa using hv
      simp only [hv', Bool.not_false, if_true]
      constructor
      · intro h; cases h
      · intro h; exact absurd ((varsEq_iff ha.vars hb.vars).mpr h.vars) hv
    · have hvars := (varsEq_iff ha.vars hb.vars).mp hv
      simp only [hv, Bool.not_true, Bool.false_eq_true, if_false]
      by_cases hk : keysEq a.cons b.cons = true
      swap
      · have hk' : keysEq a.cons b.cons = false := by simpa using hk
        simp only [hk', Bool.not_false, if_true]
        constructor
        · intro h; cases h
        · intro h
          exfalso; apply hk
          unfold keysEq
          rw [Bool.and_eq_true, List.all_eq_true, List.all_eq_true]
          constructor
          · intro c hc
            have := h.cons c.label
            rw [findCons_of_mem ha.labels hc] at this
            cases hf : findCons b.cons c.label with
            | none => rw [hf] at this; exact this.elim
            | some d =>
              rw [List.any_eq_true]
              exact ⟨d, (findCons_some hf).1, by simpa using (findCons_some hf).2⟩
          · intro d hd
            have := h.cons d.label
            rw [findCons_of_mem hb.labels hd] at this
            cases hf : findCons a.cons d.label with
            | none => rw [hf] at this; exact this.elim
            | some c =>
              rw [List.any_eq_true]
              exact ⟨c, (findCons_some hf).1, by simpa using (findCons_some hf).2⟩
      · simp only [hk, Bool.not_true, Bool.false_eq_true, if_false]
        rw [allConsM_eq_true]
        constructor
        · intro hall
          refine ⟨hoc, hvars, ?_⟩
          intro l
          cases hfa : findCons a.cons l with
          | some c =>
            obtain ⟨hc, hcl⟩ := findCons_some hfa
            obtain ⟨d, hd⟩ := findCons_of_keysEq hk hc
            rw [hcl] at hd
            rw [hd]
            have := hall c hc
            rw [hcl, hd] at this
            simp only [] at this ⊢
            exact (perCons c hc d (by rw [hcl]; exact hd)).mp this
          | none =>
            cases hfb : findCons b.cons l with
            | none => trivial
            | some d =>
              exfalso
              obtain ⟨hd, hdl⟩ := findCons_some hfb
              unfold keysEq at hk
              rw [Bool.and_eq_true, List.all_eq_true, List.all_eq_true] at hk
              have := hk.2 d hd
              rw [List.any_eq_true] at this
              obtain ⟨c, hc, hcl⟩ := this
              have hcl' : c.label = d.label := by simpa using hcl
              exact (findCons_none_iff.mp hfa) c hc (hcl'.trans hdl)
        · intro h c hc
          have := h.cons c.label
          rw [findCons_of_mem ha.labels hc] at this
          cases hd : findCons b.cons c.label with
          | none => rw [hd] at this; exact this.elim
          | some d =>
            rw [hd] at this
            simp only [] at this ⊢
            exact (perCons c hc d hd).mpr this

/-- `cqm.is_almost_equal(other_cqm, places)` on canonical forms -/
abbrev CqmAlmostCanon (p : Int) (a b : CqmVal) : Prop :=
  CqmCanonGen (AlmostCanon p) (fun x y => roundsToZero p (x - y)) a b

theorem cqmAlmost_iff_canon (p : Int) (a b : CqmVal) (ha : CqmWFv a) (hb : CqmWFv b) :
    cqmAlmostWith true true true true p a (.cqm b) = .ok true ↔ CqmAlmostCanon p a b := by
  rw [cqmAlmost_eq_cmp]
  exact cqmCmp_iff _ _ _ (fun x y _ => modelAlmost_total p x (.model y))
    (fun x y hx hy => modelAlmost_iff_canon p x y hx hy) a b ha hb

/-- `is_almost_equal` of a CQM returns a boolean for every argument -/
theorem cqmAlmost_total (p : Int) (a : CqmVal) (other : Obj) : ∃ r, cqmAlmostWith true true true true p a other = .ok r := by
  cases other with
  | num x => exact ⟨false, rfl⟩
  | foreign => exact ⟨false, rfl⟩
  | model m => exact ⟨false, rfl⟩
  | cqm o =>
    unfold cqmAlmostWith
    simp only [Bool.true_and]
    obtain ⟨b1, hb1⟩ := modelAlmost_total p a.obj (.model o.obj)
    rw [hb1, bind_ok]
    cases b1 with
    | false => exact ⟨false, rfl⟩
    | true =>
      simp only [Bool.not_true, Bool.false_eq_true, if_false]
      split
      · exact ⟨false, rfl⟩
      · split
        · exact ⟨false, rfl⟩
        · rename_i hk
          have hk' : keysEq a.cons o.cons = true := by simpa using hk
          apply allConsM_total
          intro c hc
          obtain ⟨d, hd⟩ := findCons_of_keysEq hk' hc
          rw [hd]
          simp only []
          split
          · exact ⟨false, rfl⟩
          · obtain ⟨b2, hb2⟩ := modelAlmost_total p c.lhs (.model d.lhs)
            rw [hb2, bind_ok]
            cases b2 with
            | false => exact ⟨false, rfl⟩
            | true => exact ⟨_, rfl⟩

/-! ### symmetry -/

theorem absR_neg (x : Rat) : absR (-x) = absR x := by
  unfold absR
  by_cases h1 : x < 0
  · have h2 : ¬ (-x < 0) := by linarith
    rw [if_neg h2, if_pos h1]
  · by_cases h3 : -x < 0
    · rw [if_pos h3, if_neg h1]; ring
    · have : x = 0 := by linarith
      subst this; simp

theorem roundsToZero_symm (p : Int) (x y : Rat) : roundsToZero p (x - y) = roundsToZero p (y - x) := by
  unfold roundsToZero
  have : absR (x - y) = absR (y - x) := by rw [← absR_neg (x - y)]; congr 1; ring
  rw [this]

theorem CanonEq.symm' {x y : QModel} (hx : WF x) (hy : WF y) (h : CanonEq x y) : CanonEq y x := by
  refine ⟨?_, h.off.symm, fun v => (h.lin v).symm, fun u v => (h.quad u v).symm⟩
  intro v hv
  exact (h.types v ((labels_of_lin hx hy h.lin v).mpr hv)).symm

theorem AlmostCanon.symm' {p : Int} {x y : QModel} (h : AlmostCanon p x y) : AlmostCanon p y x := by
  refine ⟨fun v => (h.labels v).symm, ?_, ?_, ?_, fun u v => (h.pairs u v).symm, ?_⟩
  · intro v hv
    exact (h.types v ((h.labels v).mpr hv)).symm
  · rw [roundsToZero_symm]; exact h.off
  · intro v hv
    obtain ⟨a, b, ha, hb, hr⟩ := h.lin v ((h.labels v).mpr hv)
    exact ⟨b, a, hb, ha, by rw [roundsToZero_symm]; exact hr⟩
  · intro u v a b ha hb
    rw [roundsToZero_symm]; exact h.quad u v b a hb ha

theorem CqmCanonGen.symm' {R : QModel → QModel → Prop} {rEq : Rat → Rat → Bool} {a b : CqmVal}
    (hR : ∀ x y, WF x → WF y → R x y → R y x) (hr : ∀ x y, rEq x y = rEq y x)
    (ha : CqmWFv a) (hb : CqmWFv b) (h : CqmCanonGen R rEq a b) : CqmCanonGen R rEq b a := by
  refine ⟨hR _ _ ha.obj hb.obj h.obj, fun v => (h.vars v).symm, ?_⟩
  intro l
  have := h.cons l
  cases hfa : findCons a.cons l with
  | none =>
    cases hfb : findCons b.cons l with
    | none => trivial
    | some d => rw [hfa, hfb] at this; exact this.elim
  | some c =>
    cases hfb : findCons b.cons l with
    | none => rw [hfa, hfb] at this; exact this.elim
    | some d =>
      rw [hfa, hfb] at this
      simp only [] at this ⊢
      exact ⟨this.1.symm, by rw [hr]; exact this.2.1,
        hR _ _ (ha.cons c (findCons_some hfa).1) (hb.cons d (findCons_some hfb).1) this.2.2⟩

/-- two `M Bool` values that are both `.ok` and are `true` under equivalent conditions are equal -/
theorem ok_eq_of_iff {x y : M Bool} (hx : ∃ r, x = .ok r) (hy : ∃ r, y = .ok r) (h : x = .ok true ↔ y = .ok true) : x = y := by
  obtain ⟨r1, h1⟩ := hx
  obtain ⟨r2, h2⟩ := hy
  rw [h1, h2] at h ⊢
  cases r1 <;> cases r2 <;> try rfl
  · have := h.mpr rfl; cases this
  · have := h.mp rfl; cases this

/-! ### the symmetric statements, for every class pair -/

theorem cqmIsEqual_iff_gen (a b : CqmVal) (ha : CqmWFv a) (hb : CqmWFv b) :
    cqmIsEqualWith true true true a (.cqm b) = .ok true ↔ CqmCanonGen CanonEq (fun x y => decide (x = y)) a b := by
  rw [cqmIsEqual_eq_cmp]
  exact cqmCmp_iff _ _ _ (fun x y hy => modelIsEqual_total x (.model y) (by intro o h; cases h; exact hy.types))
    (fun x y hx hy => modelIsEqual_iff_canon x y hx hy) a b ha hb

theorem cqmTypesOK_of_wf {b : CqmVal} (hb : CqmWFv b) : CqmTypesOK b :=
  ⟨hb.obj.types, fun d hd => (hb.cons d hd).types⟩

theorem cqmIsEqual_symm (a b : CqmVal) (ha : CqmWFv a) (hb : CqmWFv b) :
    cqmIsEqualWith true true true a (.cqm b) = cqmIsEqualWith true true true b (.cqm a) := by
  apply ok_eq_of_iff (cqmIsEqual_total a (.cqm b) (by intro o h; cases h; exact cqmTypesOK_of_wf hb))
    (cqmIsEqual_total b (.cqm a) (by intro o h; cases h; exact cqmTypesOK_of_wf ha))
  rw [cqmIsEqual_iff_gen a b ha hb, cqmIsEqual_iff_gen b a hb ha]
  have hr : ∀ x y : Rat, decide (x = y) = decide (y = x) := by
    intro x y; by_cases h : x = y
    · subst h; rfl
    · rw [decide_eq_false h, decide_eq_false (Ne.symm h)]
  exact ⟨CqmCanonGen.symm' (fun x y hx hy h => h.symm' hx hy) hr ha hb,
         CqmCanonGen.symm' (fun x y hx hy h => h.symm' hx hy) hr hb ha⟩

theorem cqmAlmost_symm (p : Int) (a b : CqmVal) (ha : CqmWFv a) (hb : CqmWFv b) :
    cqmAlmostWith true true true true p a (.cqm b) = cqmAlmostWith true true true true p b (.cqm a) := by
  apply ok_eq_of_iff (cqmAlmost_total p a _) (cqmAlmost_total p b _)
  rw [cqmAlmost_iff_canon p a b ha hb, cqmAlmost_iff_canon p b a hb ha]
  exact ⟨CqmCanonGen.symm' (fun x y _ _ h => h.symm') (fun x y => roundsToZero_symm p x y) ha hb,
         CqmCanonGen.symm' (fun x y _ _ h => h.symm') (fun x y => roundsToZero_symm p x y) hb ha⟩

theorem modelIsEqual_symm (a b : QModel) (ha : WF a) (hb : WF b) :
    modelIsEqualWith true a (.model b) = modelIsEqualWith true b (.model a) := by
  apply ok_eq_of_iff (modelIsEqual_total a _ (by intro o h; cases h; exact hb.types))
    (modelIsEqual_total b _ (by intro o h; cases h; exact ha.types))
  rw [modelIsEqual_iff_canon a b ha hb, modelIsEqual_iff_canon b a hb ha]
  exact ⟨fun h => h.symm' ha hb, fun h => h.symm' hb ha⟩

theorem modelAlmost_symm (p : Int) (a b : QModel) (ha : WF a) (hb : WF b) :
    modelAlmostWith true true p a (.model b) = modelAlmostWith true true p b (.model a) := by
  apply ok_eq_of_iff (modelAlmost_total p a _) (modelAlmost_total p b _)
  rw [modelAlmost_iff_canon p a b ha hb, modelAlmost_iff_canon p b a hb ha]
  exact ⟨fun h => h.symm', fun h => h.symm'⟩

/-- a BQM / QM / view is never almost-equal to a CQM -/
theorem modelAlmost_vs_cqm (p : Int) (m : QModel) (c : CqmVal) : modelAlmostWith true true p m (.cqm c) = .ok false := by
  unfold modelAlmostWith
  cases m.kind with
  | bqm vt =>
    simp only [bqmAlmostBody, if_true]
    by_cases hall : (c.vars.all fun p => decide (p.2 = vt)) = true
    · rw [if_pos hall]; rfl
    · rw [if_neg hall]; rfl
  | qm =>
    simp only []
    unfold catching qmAlmostBody
    simp only []
    cases allM m.vars _ with
    | error e => cases e <;> rfl
    | ok b => cases b <;> rfl
  | view =>
    simp only []
    unfold catching qmAlmostBody
    simp only []
    cases allM m.vars _ with
    | error e => cases e <;> rfl
    | ok b => cases b <;> rfl

theorem qm_not_num {a : Obj} (h : isQm a = true) : isNum a = false := by
  cases a <;> simp [isQm, isNum] at h ⊢

theorem bqm_is_model {a : Obj} (h : isBqm a = true) : ∃ x, a = .model x := by
  cases a with
  | model x => exact ⟨x, rfl⟩
  | num _ => simp [isBqm] at h
  | cqm _ => simp [isBqm] at h
  | foreign => simp [isBqm] at h

theorem qm_is_model {a : Obj} (h : isQm a = true) : ∃ x, a = .model x := by
  cases a with
  | model x => exact ⟨x, rfl⟩
  | num _ => simp [isQm] at h
  | cqm _ => simp [isQm] at h
  | foreign => simp [isQm] at h

/-- `a == b` and `b == a` are the same answer for EVERY pair of operands (BQM, QM, view, CQM, number, other object — a number
    on the left included); likewise `!=` -/
theorem opEq_symm (same : Bool) (a b : Obj) (h : ∀ x y, a = .model x → b = .model y → WF x ∧ WF y) :
    opEq same a b = opEq same b a ∧ opNe same a b = opNe same b a := by
  have key : ∀ (g : M Bool → M Bool) (z : M Bool),
      (if isBqm a then g (isEqual a b) else if isBqm b then g (isEqual b a)
        else if isQm a && isNum b then g (isEqual a b) else if isNum a && isQm b then g (isEqual b a) else z)
      = (if isBqm b then g (isEqual b a) else if isBqm a then g (isEqual a b)
        else if isQm b && isNum a then g (isEqual b a) else if isNum b && isQm a then g (isEqual a b) else z) := by
    intro g z
    by_cases ha : isBqm a = true
    · by_cases hb : isBqm b = true
      · obtain ⟨x, rfl⟩ := bqm_is_model ha
        obtain ⟨y, rfl⟩ := bqm_is_model hb
        obtain ⟨hx, hy⟩ := h x y rfl rfl
        rw [if_pos ha, if_pos hb]
        congr 1
        exact modelIsEqual_symm x y hx hy
      · rw [if_pos ha, if_neg hb, if_pos ha]
    · by_cases hb : isBqm b = true
      · rw [if_neg ha, if_pos hb, if_pos hb]
      · rw [if_neg ha, if_neg hb, if_neg hb, if_neg ha]
        rw [Bool.and_comm (isQm b) (isNum a), Bool.and_comm (isNum b) (isQm a)]
        by_cases hP : (isQm a && isNum b) = true
        · have hQ : (isNum a && isQm b) = false := by
            rw [qm_not_num (Bool.and_eq_true_iff.mp hP).1]; rfl
          rw [if_pos hP, if_neg (by rw [hQ]; exact Bool.false_ne_true), if_pos hP]
        · rw [if_neg hP]
          by_cases hQ : (isNum a && isQm b) = true
          · rw [if_pos hQ, if_pos hQ]
          · rw [if_neg hQ, if_neg hQ, if_neg hP]
  exact ⟨key id (pure same), key (fun r => r.map (!·)) (pure (!same))⟩

/-- `==` / `!=` never raise, whatever the operands -/
theorem opEq_total (same : Bool) (a b : Obj) (ha : ∀ o, a = .model o → TypesOK o) (hb : ∀ o, b = .model o → TypesOK o) :
    (∃ r, opEq same a b = .ok r) ∧ (∃ r, opNe same a b = .ok r) := by
  have tot : ∀ (x y : Obj), (∃ m, x = .model m) → (∀ o, y = .model o → TypesOK o) → ∃ r, isEqual x y = .ok r := by
    intro x y ⟨m, hm⟩ hy
    subst hm
    exact modelIsEqual_total m y hy
  have mapok : ∀ z : M Bool, (∃ r, z = .ok r) → ∃ r, z.map (!·) = .ok r := by
    intro z ⟨r, hr⟩; exact ⟨!r, by rw [hr]; rfl⟩
  unfold opEq opNe
  by_cases h1 : isBqm a = true
  · rw [if_pos h1, if_pos h1]
    exact ⟨tot a b (bqm_is_model h1) hb, mapok _ (tot a b (bqm_is_model h1) hb)⟩
  · rw [if_neg h1, if_neg h1]
    by_cases h2 : isBqm b = true
    · rw [if_pos h2, if_pos h2]
      exact ⟨tot b a (bqm_is_model h2) ha, mapok _ (tot b a (bqm_is_model h2) ha)⟩
    · rw [if_neg h2, if_neg h2]
      by_cases h3 : (isQm a && isNum b) = true
      · rw [if_pos h3, if_pos h3]
        have := tot a b (qm_is_model (Bool.and_eq_true_iff.mp h3).1) hb
        exact ⟨this, mapok _ this⟩
      · rw [if_neg h3, if_neg h3]
        by_cases h4 : (isNum a && isQm b) = true
        · rw [if_pos h4, if_pos h4]
          have := tot b a (qm_is_model (Bool.and_eq_true_iff.mp h4).2) ha
          exact ⟨this, mapok _ this⟩
        · rw [if_neg h4, if_neg h4]
          exact ⟨⟨same, rfl⟩, ⟨!same, rfl⟩⟩

end Eqm
