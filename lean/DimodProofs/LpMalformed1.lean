import DimodProofs.LpReader

/-! C12: kernel evaluation of the refusals of `LpCpp.malformedTexts`, part 1 of 3 (parallel modules; used by
`C12.cpp_reader_refuses_malformed`). -/

namespace LpCpp

theorem malformed_part_1 : ∀ t ∈ malformedPart 1, loads t = .error .refused := by decide +kernel

end LpCpp
