import DimodModel.Penalty

/-! # Helper lemmas for C16 (core Lean only: `grind`'s ring solver on `Rat`, `omega`, induction)

* `evalBag_append`, `apply_energy`: the coefficient state after a sequence of mutator calls has the
  energy of the initial state plus the value of the bag;
* `eqTermsCy_eval`, `eqTermsPy_eval`, `eqTermsView_eval`, `dqmEqTerms_eval`: the bag each
  implementation of `add_linear_equality_constraint` produces evaluates to `λ(Σ aᵢxᵢ + C)²`. -/

namespace Pen

/-! ## bags -/

theorem evalBag_append {α : Type} (x : α → Rat) (a b : List (PTerm α)) :
    evalBag x (a ++ b) = evalBag x a + evalBag x b := by
  induction a with
  | nil => simp only [List.nil_append, evalBag]; grind
  | cons t ts ih => simp only [List.cons_append, evalBag, ih]; grind

theorem evalBag_cons {α : Type} (x : α → Rat) (t : PTerm α) (ts : List (PTerm α)) :
    evalBag x (t :: ts) = t.eval x + evalBag x ts := rfl

theorem evalBag_flatMap_cons {α β : Type} (x : α → Rat) (f : β → List (PTerm α)) (a : β) (l : List β) :
    evalBag x ((a :: l).flatMap f) = evalBag x (f a) + evalBag x (l.flatMap f) := by
  simp only [List.flatMap_cons, evalBag_append]

/-! ## the coefficient state -/

section state
variable {α : Type} [DecidableEq α]

theorem linSum_addKey (x : α → Rat) (m : List (α × Rat)) (k : α) (c : Rat) :
    Bq.linSum x (addKey m k c) = Bq.linSum x m + c * x k := by
  induction m with
  | nil => simp only [addKey, Bq.linSum]; grind
  | cons h t ih =>
    obtain ⟨k', c'⟩ := h
    simp only [addKey]
    split
    · rename_i hk; subst hk; simp only [Bq.linSum]; grind
    · simp only [Bq.linSum, ih]; grind

theorem quadSum_addPair (x : α → Rat) (m : List ((α × α) × Rat)) (u v : α) (c : Rat) :
    Bq.quadSum x (addPair m u v c) = Bq.quadSum x m + c * (x u * x v) := by
  induction m with
  | nil => simp only [addPair, Bq.quadSum]; grind
  | cons h t ih =>
    obtain ⟨⟨a, b⟩, c'⟩ := h
    simp only [addPair]
    split
    · rename_i hk
      rcases hk with ⟨h1, h2⟩ | ⟨h1, h2⟩
      · subst h1; subst h2; simp only [Bq.quadSum]; grind
      · subst h1; subst h2; simp only [Bq.quadSum]; grind
    · simp only [Bq.quadSum, ih]; grind

theorem energy_addLinear (b : Bq α) (x : α → Rat) (v : α) (c : Rat) :
    (b.addLinear v c).energy x = b.energy x + c * x v := by
  simp only [Bq.addLinear, Bq.energy, linSum_addKey]; grind

@[simp] theorem vt_addLinear (b : Bq α) (v : α) (c : Rat) : (b.addLinear v c).vt = b.vt := rfl

theorem energy_addQuadratic (b : Bq α) (x : α → Rat) (hx : Dom b.vt x) (u v : α) (c : Rat) :
    (b.addQuadratic u v c).energy x = b.energy x + c * (x u * x v) := by
  unfold Bq.addQuadratic
  split
  · rename_i huv; subst huv
    cases hvt : b.vt with
    | binary =>
      simp only
      have h := hx; rw [hvt] at h
      rw [energy_addLinear, h u]
    | spin =>
      simp only
      have h := hx; rw [hvt] at h
      have e := energy_addLinear b x u 0
      simp only [Bq.energy, Bq.addLinear] at e ⊢
      rw [h u]; grind
  · simp only [Bq.energy, Bq.addLinear, linSum_addKey, quadSum_addPair]; grind

theorem vt_addQuadratic (b : Bq α) (u v : α) (c : Rat) : (b.addQuadratic u v c).vt = b.vt := by
  unfold Bq.addQuadratic
  split
  · cases hvt : b.vt <;> simp [Bq.addLinear, hvt]
  · rfl

theorem vt_applyTerm (b : Bq α) (t : PTerm α) : (b.applyTerm t).vt = b.vt := by
  cases t with
  | const c => rfl
  | lin v c => rfl
  | quad u v c => exact vt_addQuadratic b u v c

theorem energy_applyTerm (b : Bq α) (x : α → Rat) (hx : Dom b.vt x) (t : PTerm α) :
    (b.applyTerm t).energy x = b.energy x + t.eval x := by
  cases t with
  | const c => simp only [Bq.applyTerm, Bq.energy, PTerm.eval]; grind
  | lin v c => simp only [Bq.applyTerm, PTerm.eval]; exact energy_addLinear b x v c
  | quad u v c => simp only [Bq.applyTerm, PTerm.eval]; exact energy_addQuadratic b x hx u v c

theorem vt_apply (b : Bq α) (ts : List (PTerm α)) : (b.apply ts).vt = b.vt := by
  induction ts generalizing b with
  | nil => rfl
  | cons t ts ih => simp only [Bq.apply, ih, vt_applyTerm]

/-- the energy of the state after a sequence of calls = energy before + value of the bag
    (at every sample valid for the model's vartype: C++ `add_quadratic` folds self-loops) -/
theorem apply_energy (b : Bq α) (x : α → Rat) (hx : Dom b.vt x) (ts : List (PTerm α)) :
    (b.apply ts).energy x = b.energy x + evalBag x ts := by
  induction ts generalizing b with
  | nil => simp only [Bq.apply, evalBag]; grind
  | cons t ts ih =>
    simp only [Bq.apply, evalBag]
    rw [ih (b.applyTerm t) (by rw [vt_applyTerm]; exact hx), energy_applyTerm b x hx]
    grind

end state

/-! ## `add_linear_equality_constraint`: the squared sum -/

/-- `Σ aᵢ·x(vᵢ)` over the term list (positions, so repeated labels count each time) -/
def lsum {α : Type} (x : α → Rat) : List (α × Rat) → Rat
  | [] => 0
  | t :: r => t.2 * x t.1 + lsum x r

theorem evalBag_touch (x : Label → Rat) (terms : List (Label × Rat)) :
    evalBag x (terms.map (fun t => PTerm.lin t.1 0)) = 0 := by
  induction terms with
  | nil => rfl
  | cons t r ih => simp only [List.map_cons, evalBag, PTerm.eval, ih]; grind

/-- the quadratic calls of one position against all later positions -/
theorem evalBag_cross (x : Label → Rat) (lam : Rat) (t : Label × Rat) (r : List (Label × Rat)) :
    evalBag x ((r.map (fun b => (t, b))).map (fun p => PTerm.quad p.1.1 p.2.1 (2 * lam * p.1.2 * p.2.2)))
      = 2 * lam * t.2 * x t.1 * lsum x r := by
  induction r with
  | nil => simp only [List.map_nil, evalBag, lsum]; grind
  | cons h r ih => simp only [List.map_cons, evalBag, PTerm.eval, lsum, ih]; grind

theorem evalBag_quadPart (x : Label → Rat) (lam : Rat) (t : Label × Rat) (r : List (Label × Rat)) :
    evalBag x ((pairsLt (t :: r)).map (fun p => PTerm.quad p.1.1 p.2.1 (2 * lam * p.1.2 * p.2.2)))
      = 2 * lam * t.2 * x t.1 * lsum x r
        + evalBag x ((pairsLt r).map (fun p => PTerm.quad p.1.1 p.2.1 (2 * lam * p.1.2 * p.2.2))) := by
  simp only [pairsLt, List.map_append, evalBag_append, evalBag_cross]

/-- Cython, BINARY: linear + quadratic part = `λ(Σ)² + 2λC·Σ` -/
theorem cy_binary_parts (x : Label → Rat) (hx : ∀ v, x v * x v = x v) (lam C : Rat) (terms : List (Label × Rat)) :
    evalBag x (terms.map (fun t => PTerm.lin t.1 (lam * t.2 * (2 * C + t.2))))
      + evalBag x ((pairsLt terms).map (fun p => PTerm.quad p.1.1 p.2.1 (2 * lam * p.1.2 * p.2.2)))
      = lam * (lsum x terms * lsum x terms) + 2 * lam * C * lsum x terms := by
  induction terms with
  | nil => simp only [List.map_nil, pairsLt, evalBag, lsum]; grind
  | cons t r ih =>
    rw [evalBag_quadPart]
    simp only [List.map_cons, evalBag, PTerm.eval, lsum]
    have h := hx t.1
    grind

/-- Cython, SPIN -/
theorem cy_spin_parts (x : Label → Rat) (hx : ∀ v, x v * x v = 1) (lam C : Rat) (terms : List (Label × Rat)) :
    evalBag x (terms.flatMap (fun t => [PTerm.lin t.1 (lam * t.2 * 2 * C), PTerm.const (lam * t.2 * t.2)]))
      + evalBag x ((pairsLt terms).map (fun p => PTerm.quad p.1.1 p.2.1 (2 * lam * p.1.2 * p.2.2)))
      = lam * (lsum x terms * lsum x terms) + 2 * lam * C * lsum x terms := by
  induction terms with
  | nil => simp only [List.flatMap_nil, List.map_nil, pairsLt, evalBag, lsum]; grind
  | cons t r ih =>
    rw [evalBag_quadPart, evalBag_flatMap_cons]
    simp only [evalBag, PTerm.eval, lsum]
    have h := hx t.1
    grind

/-- **Cython implementation**: the calls add exactly `λ(Σ aᵢxᵢ + C)²` (any term list, repeated labels
    included) at every sample valid for the vartype. -/
theorem eqTermsCy_eval (vt : VT) (x : Label → Rat) (hx : Dom vt x) (terms : List (Label × Rat)) (lam C : Rat) :
    evalBag x (eqTermsCy vt terms lam C) = lam * ((lsum x terms + C) * (lsum x terms + C)) := by
  unfold eqTermsCy
  cases vt with
  | binary =>
    simp only [evalBag_append, evalBag_touch, evalBag, PTerm.eval]
    have h := cy_binary_parts x hx lam C terms
    grind
  | spin =>
    simp only [evalBag_append, evalBag_touch, evalBag, PTerm.eval]
    have h := cy_spin_parts x hx lam C terms
    grind

/-! ### the Python fallback (object dtype, views) -/

theorem lsum_eq_linSum {α : Type} (x : α → Rat) (m : List (α × Rat)) : lsum x m = Bq.linSum x m := by
  induction m with
  | nil => rfl
  | cons h t ih => obtain ⟨v, c⟩ := h; simp only [lsum, Bq.linSum, ih]

theorem lsum_addKey (x : Label → Rat) (m : List (Label × Rat)) (k : Label) (c : Rat) :
    lsum x (addKey m k c) = lsum x m + c * x k := by
  rw [lsum_eq_linSum, lsum_eq_linSum, linSum_addKey]

theorem keys_addKey (m : List (Label × Rat)) (k : Label) (c : Rat) :
    ∀ w, w ∈ (addKey m k c).map (·.1) ↔ (w ∈ m.map (·.1) ∨ w = k) := by
  induction m with
  | nil => intro w; simp [addKey]
  | cons h t ih =>
    intro w
    obtain ⟨k', c'⟩ := h
    simp only [addKey]
    split
    · rename_i hk; subst hk; simp; grind
    · simp only [List.map_cons, List.mem_cons, ih]; grind

theorem nodup_addKey (m : List (Label × Rat)) (k : Label) (c : Rat) (h : (m.map (·.1)).Nodup) :
    ((addKey m k c).map (·.1)).Nodup := by
  induction m with
  | nil => simp [addKey]
  | cons hd t ih =>
    obtain ⟨k', c'⟩ := hd
    simp only [addKey]
    simp only [List.map_cons, List.nodup_cons] at h
    split
    · simp only [List.map_cons, List.nodup_cons]; exact h
    · rename_i hne
      simp only [List.map_cons, List.nodup_cons]
      refine ⟨?_, ih h.2⟩
      intro hmem
      rcases (keys_addKey t k c k').1 hmem with h1 | h1
      · exact h.1 h1
      · exact hne h1

theorem foldl_addKey_spec (x : Label → Rat) (terms acc : List (Label × Rat)) (h : (acc.map (·.1)).Nodup) :
    lsum x (terms.foldl (fun m t => addKey m t.1 t.2) acc) = lsum x acc + lsum x terms
    ∧ ((terms.foldl (fun m t => addKey m t.1 t.2) acc).map (·.1)).Nodup := by
  induction terms generalizing acc with
  | nil => simp only [List.foldl_nil, lsum]; exact ⟨by grind, h⟩
  | cons t r ih =>
    simp only [List.foldl_cons]
    have := ih (addKey acc t.1 t.2) (nodup_addKey acc t.1 t.2 h)
    refine ⟨?_, this.2⟩
    rw [this.1, lsum_addKey]; simp only [lsum]; grind

/-- merging repeated labels keeps the linear form and leaves pairwise distinct labels -/
theorem mergeTerms_spec (x : Label → Rat) (terms : List (Label × Rat)) :
    lsum x (mergeTerms terms) = lsum x terms ∧ ((mergeTerms terms).map (·.1)).Nodup := by
  have := foldl_addKey_spec x terms [] (by simp)
  unfold mergeTerms
  refine ⟨?_, this.2⟩
  rw [this.1]; simp only [lsum]; grind

theorem py_cross (vt : VT) (x : Label → Rat) (lam C : Rat) (t : Label × Rat) (r : List (Label × Rat))
    (hne : ∀ b ∈ r, t.1 ≠ b.1) :
    evalBag x ((r.map (fun b => (t, b))).flatMap (pyPairTerms vt lam C)) = 2 * lam * t.2 * x t.1 * lsum x r := by
  induction r with
  | nil => simp only [List.map_nil, List.flatMap_nil, evalBag, lsum]; grind
  | cons h r ih =>
    have h1 : t.1 ≠ h.1 := hne h (by simp)
    have ih' := ih (fun b hb => hne b (by simp [hb]))
    simp only [List.map_cons, evalBag_flatMap_cons, ih', pyPairTerms, h1, if_false, evalBag, PTerm.eval, lsum]
    grind

/-- the fallback loop on a term list with pairwise distinct labels (everything except `offset += λC²`) -/
theorem py_parts (vt : VT) (x : Label → Rat) (hx : Dom vt x) (lam C : Rat) (terms : List (Label × Rat))
    (hnd : (terms.map (·.1)).Nodup) :
    evalBag x ((pairsLe terms).flatMap (pyPairTerms vt lam C))
      = lam * (lsum x terms * lsum x terms) + 2 * lam * C * lsum x terms := by
  induction terms with
  | nil => simp only [pairsLe, List.flatMap_nil, evalBag, lsum]; grind
  | cons t r ih =>
    simp only [List.map_cons, List.nodup_cons] at hnd
    have hne : ∀ b ∈ r, t.1 ≠ b.1 := by
      intro b hb heq
      exact hnd.1 (by rw [heq]; exact List.mem_map_of_mem hb)
    have ih' := ih hnd.2
    simp only [pairsLe, List.cons_append, evalBag_flatMap_cons, List.flatMap_append, evalBag_append,
      py_cross vt x lam C t r hne, ih']
    cases vt with
    | binary =>
      have h := hx t.1
      simp only [pyPairTerms, if_true, evalBag, PTerm.eval, lsum]
      grind
    | spin =>
      have h := hx t.1
      simp only [pyPairTerms, if_true, evalBag, PTerm.eval, lsum]
      grind

/-- **Python fallback as repaired** (object dtype): `λ(Σ aᵢxᵢ + C)²` for every term list -/
theorem eqTermsPy_eval (vt : VT) (x : Label → Rat) (hx : Dom vt x) (terms : List (Label × Rat)) (lam C : Rat) :
    evalBag x (eqTermsPy vt terms lam C) = lam * ((lsum x terms + C) * (lsum x terms + C)) := by
  have hm := mergeTerms_spec x terms
  unfold eqTermsPy eqTermsPyUnmerged
  rw [evalBag_append, py_parts vt x hx lam C _ hm.2, hm.1]
  simp only [evalBag, PTerm.eval]
  grind

/-- the unrepaired loop is still right when no label repeats -/
theorem eqTermsPyUnmerged_eval (vt : VT) (x : Label → Rat) (hx : Dom vt x) (terms : List (Label × Rat)) (lam C : Rat)
    (hnd : (terms.map (·.1)).Nodup) :
    evalBag x (eqTermsPyUnmerged vt terms lam C) = lam * ((lsum x terms + C) * (lsum x terms + C)) := by
  unfold eqTermsPyUnmerged
  rw [evalBag_append, py_parts vt x hx lam C _ hnd]
  simp only [evalBag, PTerm.eval]
  grind

/-! ### through a `.spin` / `.binary` view -/

theorem viewTerm_eval (view : VT) (x : Label → Rat) (t : PTerm Label) :
    evalBag x (viewTerm view t) = t.eval (viewSample view x) := by
  cases t with
  | const c => simp only [viewTerm, evalBag, PTerm.eval]; grind
  | lin v b => cases view <;> simp only [viewTerm, viewSample, evalBag, PTerm.eval] <;> grind
  | quad u v b => cases view <;> simp only [viewTerm, viewSample, evalBag, PTerm.eval] <;> grind

theorem evalBag_flatMap_view (view : VT) (x : Label → Rat) (bag : List (PTerm Label)) :
    evalBag x (bag.flatMap (viewTerm view)) = evalBag (viewSample view x) bag := by
  induction bag with
  | nil => rfl
  | cons t r ih => rw [evalBag_flatMap_cons, ih, viewTerm_eval]; rfl

def otherVT : VT → VT | .spin => .binary | .binary => .spin

/-- a sample valid for the data's vartype is shown by the view as a sample valid for the view's -/
theorem dom_viewSample (view : VT) (x : Label → Rat) (hx : Dom (otherVT view) x) : Dom view (viewSample view x) := by
  cases view with
  | spin => intro v; have := hx v; simp only [viewSample]; grind
  | binary => intro v; have := hx v; simp only [viewSample]; grind

/-- **fallback through a view**: the calls on the underlying data add `λ(Σ aᵢyᵢ + C)²` where `y` is the
    sample as the view shows it -/
theorem eqTermsView_eval (view : VT) (x : Label → Rat) (hx : Dom (otherVT view) x) (terms : List (Label × Rat)) (lam C : Rat) :
    evalBag x (eqTermsView view terms lam C)
      = lam * ((lsum (viewSample view x) terms + C) * (lsum (viewSample view x) terms + C)) := by
  unfold eqTermsView
  rw [evalBag_flatMap_view, eqTermsPy_eval view _ (dom_viewSample view x hx)]

/-! ### DQM -/

/-- one-hot sample over global case indices: 0/1 values, two different cases of one variable never both set -/
def OneHot (ncases : List Nat) (x : Nat → Rat) : Prop :=
  (∀ c, x c * x c = x c) ∧ (∀ c c', c ≠ c' → varOfCase ncases c = varOfCase ncases c' → x c * x c' = 0)

theorem lsum_insertByCase (x : Nat → Rat) (t : Nat × Rat) (l : List (Nat × Rat)) :
    lsum x (insertByCase t l) = t.2 * x t.1 + lsum x l := by
  induction l with
  | nil => rfl
  | cons h r ih =>
    simp only [insertByCase]
    split
    · rfl
    · simp only [lsum, ih]; grind

theorem lsum_sortByCase (x : Nat → Rat) (l : List (Nat × Rat)) : lsum x (sortByCase l) = lsum x l := by
  induction l with
  | nil => rfl
  | cons h r ih => simp only [sortByCase, lsum_insertByCase, ih, lsum]

def SortedK (l : List (Nat × Rat)) : Prop := l.Pairwise (fun a b => a.1 ≤ b.1)

theorem mem_insertByCase (t e : Nat × Rat) (l : List (Nat × Rat)) : e ∈ insertByCase t l ↔ e = t ∨ e ∈ l := by
  induction l with
  | nil => simp [insertByCase]
  | cons h r ih =>
    simp only [insertByCase]
    split
    · simp
    · simp only [List.mem_cons, ih]; grind

theorem sorted_insertByCase (t : Nat × Rat) (l : List (Nat × Rat)) (h : SortedK l) : SortedK (insertByCase t l) := by
  induction l with
  | nil => simp [insertByCase, SortedK]
  | cons hd r ih =>
    unfold SortedK at h ⊢
    simp only [List.pairwise_cons] at h
    simp only [insertByCase]
    split
    · rename_i hlt
      simp only [List.pairwise_cons]
      refine ⟨?_, h⟩
      intro e he
      simp only [List.mem_cons] at he
      rcases he with rfl | he
      · omega
      · have := h.1 e he; omega
    · rename_i hge
      simp only [List.pairwise_cons]
      refine ⟨?_, ih h.2⟩
      intro e he
      rcases (mem_insertByCase t e r).1 he with rfl | he
      · omega
      · exact h.1 e he

theorem sorted_sortByCase (l : List (Nat × Rat)) : SortedK (sortByCase l) := by
  induction l with
  | nil => simp [sortByCase, SortedK]
  | cons h r ih => exact sorted_insertByCase h _ ih

theorem lsum_mergeAdj (x : Nat → Rat) (l : List (Nat × Rat)) : lsum x (mergeAdj l) = lsum x l := by
  fun_induction mergeAdj l with
  | case1 => rfl
  | case2 t => rfl
  | case3 a b r heq ih => rw [ih]; simp only [lsum]; rw [← heq]; grind
  | case4 a b r hne ih => simp only [lsum] at ih ⊢; rw [ih]

theorem keys_mergeAdj_gt (k : Nat) (l : List (Nat × Rat)) (h : ∀ e ∈ l, k < e.1) : ∀ e ∈ mergeAdj l, k < e.1 := by
  fun_induction mergeAdj l with
  | case1 => intro e he; simp at he
  | case2 t => exact h
  | case3 a b r heq ih =>
    apply ih
    intro e he
    simp only [List.mem_cons] at he
    rcases he with rfl | he
    · exact h a (by simp)
    · exact h e (by simp [he])
  | case4 a b r hne ih =>
    intro e he
    simp only [List.mem_cons] at he
    rcases he with rfl | he
    · exact h e (by simp)
    · exact ih (fun e he => h e (by simp [he])) e he

/-- after "sort and sum duplicates" the case indices are strictly increasing -/
theorem strict_mergeAdj (l : List (Nat × Rat)) (h : SortedK l) : (mergeAdj l).Pairwise (fun a b => a.1 < b.1) := by
  fun_induction mergeAdj l with
  | case1 => simp
  | case2 t => simp
  | case3 a b r heq ih =>
    apply ih
    unfold SortedK at h ⊢
    simp only [List.pairwise_cons] at h ⊢
    exact ⟨fun e he => h.1 e (by simp [he]), h.2.2⟩
  | case4 a b r hne ih =>
    unfold SortedK at h
    simp only [List.pairwise_cons] at h
    simp only [List.pairwise_cons]
    refine ⟨?_, ih (by unfold SortedK; simp only [List.pairwise_cons]; exact h.2)⟩
    apply keys_mergeAdj_gt
    intro e he
    simp only [List.mem_cons] at he
    rcases he with rfl | he
    · have := h.1 e (by simp); omega
    · have h1 := h.1 b (by simp); have h2 := h.2.1 e he; omega

/-- the quadratic calls of one merged term against the later ones: pairs inside one variable are
    skipped by the code, and contribute nothing at a one-hot sample -/
theorem dqm_cross (nc : List Nat) (x : Nat → Rat) (hx : OneHot nc x) (lam : Rat) (a : Nat × Rat) (t : List (Nat × Rat))
    (hne : ∀ b ∈ t, a.1 ≠ b.1) :
    evalBag x ((t.filter (fun b => varOfCase nc a.1 ≠ varOfCase nc b.1)).map (fun b => PTerm.quad a.1 b.1 (2 * lam * a.2 * b.2)))
      = 2 * lam * a.2 * x a.1 * lsum x t := by
  induction t with
  | nil => simp only [List.filter_nil, List.map_nil, evalBag, lsum]; grind
  | cons h r ih =>
    have ih' := ih (fun b hb => hne b (by simp [hb]))
    simp only [List.filter_cons]
    split
    · simp only [List.map_cons, evalBag, PTerm.eval, ih', lsum]; grind
    · rename_i hsame
      have hv : varOfCase nc a.1 = varOfCase nc h.1 := by simpa using hsame
      have hz := hx.2 a.1 h.1 (hne h (by simp)) hv
      rw [ih']; simp only [lsum]; grind

theorem dqm_go_eval (nc : List Nat) (x : Nat → Rat) (hx : OneHot nc x) (lam C : Rat) (m : List (Nat × Rat))
    (hs : m.Pairwise (fun a b => a.1 < b.1)) :
    evalBag x (dqmEqTermsOf.go nc lam C m) = lam * (lsum x m * lsum x m) + 2 * lam * C * lsum x m := by
  induction m with
  | nil => simp only [dqmEqTermsOf.go, evalBag, lsum]; grind
  | cons a t ih =>
    simp only [List.pairwise_cons] at hs
    have hne : ∀ b ∈ t, a.1 ≠ b.1 := fun b hb => by have := hs.1 b hb; omega
    simp only [dqmEqTermsOf.go, evalBag, List.cons_append, evalBag_append, PTerm.eval, dqm_cross nc x hx lam a t hne, ih hs.2, lsum]
    have h := hx.1 a.1
    grind

/-- **DQM implementation**: after resolving, sorting and merging the terms, the calls add
    `λ(Σ aₖ·x(caseₖ) + C)²` at every one-hot sample (repeated `(variable, case)` entries included) -/
theorem dqmEqTerms_eval (nc : List Nat) (x : Nat → Rat) (hx : OneHot nc x) (r : List (Nat × Rat)) (lam C : Rat) :
    evalBag x (dqmEqTermsOf nc lam C (mergeAdj (sortByCase r))) = lam * ((lsum x r + C) * (lsum x r + C)) := by
  unfold dqmEqTermsOf
  simp only [evalBag, PTerm.eval]
  rw [dqm_go_eval nc x hx lam C _ (strict_mergeAdj _ (sorted_sortByCase r)), lsum_mergeAdj, lsum_sortByCase]
  grind

end Pen
