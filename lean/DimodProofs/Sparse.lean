import DimodModel.Fix
import DimodProofs.C01Energy

/-! # Sparse adjacency: what `remove_variable`, `fix_variable`, `substitute_variable(s)` do to the coefficients

Structural lemmas about `DimodModel/Convert.lean` / `DimodModel/Fix.lean`, stated with the coefficient
lookups `QMB.L` (linear), `QMB.Q` (stored quadratic, symmetric), `QMB.T` (lower triangle) of
`DimodProofs/C01Energy.lean` and the invariant `QMB.WF`. -/

open Finset

namespace En

variable {R : Type}

/-! ## lists -/

theorem getD_modify {α : Type} (l : List α) (i j : Nat) (f : α → α) (d : α) :
    (l.modify i f).getD j d = if i = j ∧ j < l.length then f (l.getD j d) else l.getD j d := by
  rw [List.getD_eq_getElem?_getD, List.getD_eq_getElem?_getD, List.getElem?_modify]
  by_cases hj : j < l.length
  · rw [List.getElem?_eq_getElem hj]
    by_cases hij : i = j <;> simp [hij, hj]
  · rw [List.getElem?_eq_none (by omega)]
    simp [hj]

theorem getD_eraseIdx {α : Type} (l : List α) (v i : Nat) (d : α) :
    (l.eraseIdx v).getD i d = l.getD (skip v i) d := by
  rw [List.getD_eq_getElem?_getD, List.getD_eq_getElem?_getD, List.getElem?_eraseIdx]
  unfold skip
  by_cases h : i < v <;> simp [h]

theorem skip_ne (v i : Nat) : skip v i ≠ v := by unfold skip; split <;> omega

theorem skip_lt (v i n : Nat) (hv : v < n) (hi : i < n - 1) : skip v i < n := by unfold skip; split <;> omega

theorem skip_inj (v i j : Nat) (h : skip v i = skip v j) : i = j := by
  unfold skip at h; split at h <;> split at h <;> omega

/-- the inverse of `skip v` on indices other than `v` -/
def unskip (v w : Nat) : Nat := if w > v then w - 1 else w

theorem unskip_skip (v i : Nat) : unskip v (skip v i) = i := by unfold unskip skip; split <;> split <;> omega
theorem skip_unskip (v w : Nat) (h : w ≠ v) : skip v (unskip v w) = w := by unfold unskip skip; split <;> split <;> omega

/-! ## one neighbourhood -/

namespace QMB

/-- the entries of `nb` other than `v`, indices above `v` decremented -/
def dropShift (v : Nat) (nb : Nbh R) : Nbh R :=
  (nb.filter (fun p => decide (p.1 ≠ v))).map (fun p => (unskip v p.1, p.2))

theorem removeBack_desc (v : Nat) (r : Nbh R) (hr : r.Pairwise (fun p q => q.1 < p.1)) :
    removeBack v r = dropShift v r := by
  induction r with
  | nil => rfl
  | cons p t ih =>
    obtain ⟨w, b⟩ := p
    have ht := (List.pairwise_cons.mp hr).2
    have hw : ∀ q ∈ t, q.1 < w := (List.pairwise_cons.mp hr).1
    simp only [removeBack]
    -- entries of `t` all lie below `w`
    have hid : w ≤ v → dropShift v t = t.filter (fun p => decide (p.1 ≠ v)) := by
      intro hwv
      unfold dropShift
      conv_rhs => rw [← List.map_id (t.filter _)]
      apply List.map_congr_left
      intro q hq
      have := hw q (List.mem_filter.mp hq).1
      have : ¬ q.1 > v := by omega
      simp [unskip, this]
    have hall : w ≤ v → t.filter (fun p => decide (p.1 ≠ v)) = t := by
      intro hwv
      apply List.filter_eq_self.mpr
      intro q hq
      have := hw q hq
      simp; omega
    by_cases h1 : w > v
    · simp only [h1, if_true]
      rw [ih ht]
      have : w ≠ v := by omega
      simp [dropShift, List.filter_cons, this, unskip, h1]
    · simp only [h1, if_false]
      by_cases h2 : w = v
      · subst h2
        simp only [if_true]
        unfold dropShift
        simp only [List.filter_cons, ne_eq, not_true_eq_false, decide_false, Bool.false_eq_true, if_false]
        have := hid (le_refl _)
        unfold dropShift at this
        rw [this, hall (le_refl _)]
      · simp only [h2, if_false]
        have hwv : w ≤ v := by omega
        unfold dropShift
        simp only [List.filter_cons, ne_eq, h2, not_false_eq_true, decide_true, if_true, List.map_cons]
        have := hid hwv
        unfold dropShift at this
        rw [this, hall hwv]
        simp [unskip, h1]

theorem dropShift_reverse (v : Nat) (nb : Nbh R) : dropShift v nb.reverse = (dropShift v nb).reverse := by
  unfold dropShift
  rw [List.filter_reverse, List.map_reverse]

/-- `remove_variable`'s backwards walk over a sorted neighbourhood = drop `v`, shift the larger indices down -/
theorem removeFromNbh_eq (v : Nat) (nb : Nbh R) (hs : Nbh.Sorted nb) : removeFromNbh v nb = dropShift v nb := by
  unfold removeFromNbh
  have : nb.reverse.Pairwise (fun p q => q.1 < p.1) := List.pairwise_reverse.mpr hs
  rw [removeBack_desc v nb.reverse this, dropShift_reverse, List.reverse_reverse]

theorem mem_dropShift (v : Nat) (nb : Nbh R) (j : Nat) (b : R) :
    (j, b) ∈ dropShift v nb ↔ (skip v j, b) ∈ nb := by
  unfold dropShift
  simp only [List.mem_map, List.mem_filter, decide_eq_true_eq, Prod.mk.injEq]
  constructor
  · rintro ⟨⟨w, b'⟩, ⟨hm, hne⟩, h1, h2⟩
    simp only at h1 h2 hne
    subst h2
    rw [← h1, skip_unskip v w hne]; exact hm
  · intro h
    exact ⟨(skip v j, b), ⟨h, skip_ne v j⟩, unskip_skip v j, rfl⟩

theorem sorted_dropShift (v : Nat) (nb : Nbh R) (hs : Nbh.Sorted nb) : Nbh.Sorted (dropShift v nb) := by
  unfold dropShift Nbh.Sorted
  rw [List.pairwise_map]
  apply List.Pairwise.imp_of_mem _ (List.Pairwise.filter _ hs)
  intro p q hp hq hpq
  have hp' := (List.mem_filter.mp hp).2
  have hq' := (List.mem_filter.mp hq).2
  simp only [decide_eq_true_eq] at hp' hq'
  simp only [unskip]
  split <;> split <;> omega

theorem coef_dropShift [Zero R] (v : Nat) (nb : Nbh R) (j : Nat) : coef (dropShift v nb) j = coef nb (skip v j) := by
  induction nb with
  | nil => rfl
  | cons p t ih =>
    obtain ⟨w, b⟩ := p
    unfold dropShift at ih ⊢
    simp only [List.filter_cons]
    by_cases hwv : w = v
    · subst hwv
      simp only [ne_eq, not_true_eq_false, decide_false, Bool.false_eq_true, if_false]
      rw [ih]
      simp only [coef]
      rw [if_neg (fun h => skip_ne w j h.symm)]
    · simp only [ne_eq, hwv, not_false_eq_true, decide_true, if_true, List.map_cons, coef]
      rw [ih]
      by_cases hj : w = skip v j
      · have : unskip v w = j := by rw [hj, unskip_skip]
        rw [if_pos this, if_pos hj]
      · have : unskip v w ≠ j := by
          intro h; apply hj; rw [← h, skip_unskip v w hwv]
        rw [if_neg this, if_neg hj]

/-! ## `remove_variable` on the model -/

theorem removeFromNbh_nil (v : Nat) : removeFromNbh v ([] : Nbh R) = [] := rfl

theorem nbh_removeVariable (m : QMB R) (v i : Nat) :
    (m.removeVariable v).nbh i = removeFromNbh v (m.nbh (skip v i)) := by
  unfold removeVariable nbh
  cases h : m.adj with
  | none => simp [removeFromNbh_nil]
  | some a =>
    simp only [Option.map_some]
    rw [List.getD_eq_getElem?_getD, List.getElem?_map, List.getD_eq_getElem?_getD, List.getElem?_eraseIdx]
    have : (if i < v then a[i]? else a[i + 1]?) = a[skip v i]? := by unfold skip; split <;> rfl
    rw [this]
    cases a[skip v i]? with
    | none => simp [removeFromNbh_nil]
    | some nb => simp

theorem n_removeVariable (m : QMB R) (v : Nat) (hv : v < m.n) : (m.removeVariable v).n = m.n - 1 := by
  unfold n removeVariable
  simp only [List.length_eraseIdx]
  unfold n at hv
  simp [hv]

theorem off_removeVariable (m : QMB R) (v : Nat) : (m.removeVariable v).off = m.off := rfl

section
variable [CommRing R]

theorem L_removeVariable (m : QMB R) (v i : Nat) : (m.removeVariable v).L i = m.L (skip v i) := by
  unfold L removeVariable
  exact getD_eraseIdx m.lin v i 0

theorem nbh_removeVariable' (m : QMB R) (hm : m.WF) (v i : Nat) :
    (m.removeVariable v).nbh i = dropShift v (m.nbh (skip v i)) := by
  rw [nbh_removeVariable, removeFromNbh_eq v _ (hm.sorted _)]

theorem Q_removeVariable (m : QMB R) (hm : m.WF) (v i j : Nat) :
    (m.removeVariable v).Q i j = m.Q (skip v i) (skip v j) := by
  unfold Q
  rw [nbh_removeVariable' m hm, coef_dropShift]

theorem T_removeVariable (m : QMB R) (hm : m.WF) (v i j : Nat) :
    (m.removeVariable v).T i j = m.T (skip v i) (skip v j) := by
  unfold T
  rw [Q_removeVariable m hm]
  have : j ≤ i ↔ skip v j ≤ skip v i := by unfold skip; split <;> split <;> omega
  by_cases h : j ≤ i
  · rw [if_pos h, if_pos (this.mp h)]
  · rw [if_neg h, if_neg (fun h' => h (this.mpr h'))]

theorem WF_removeVariable (m : QMB R) (hm : m.WF) (v : Nat) (hv : v < m.n) : (m.removeVariable v).WF := by
  refine ⟨?_, ?_, ?_, ?_⟩
  · intro a ha
    unfold removeVariable at ha ⊢
    simp only [Option.map_eq_some_iff] at ha
    obtain ⟨a0, ha0, rfl⟩ := ha
    have := hm.len a0 ha0
    simp only [List.length_map, List.length_eraseIdx, this]
  · intro u
    rw [nbh_removeVariable' m hm]
    exact sorted_dropShift v _ (hm.sorted _)
  · intro u p hp
    rw [nbh_removeVariable' m hm] at hp
    obtain ⟨j, b⟩ := p
    have hmem := (mem_dropShift v _ j b).mp hp
    have hb := hm.bound _ _ hmem
    rw [n_removeVariable m v hv]
    simp only [] at hb ⊢
    unfold skip at hb
    split at hb <;> omega
  · intro u w b h
    rw [nbh_removeVariable' m hm] at h ⊢
    have h1 := (mem_dropShift v _ w b).mp h
    have h2 := hm.symm _ _ _ h1
    exact (mem_dropShift v _ u b).mpr h2

/-! ## symmetry of the stored coefficients -/

theorem Q_symm (m : QMB R) (hm : m.WF) (u w : Nat) : m.Q u w = m.Q w u := by
  unfold Q
  by_cases h : ∃ b, (w, b) ∈ m.nbh u
  · obtain ⟨b, hb⟩ := h
    rw [coef_of_mem _ (hm.sorted u) w b hb, coef_of_mem _ (hm.sorted w) u b (hm.symm u w b hb)]
  · have h1 : coef (m.nbh u) w = 0 := by
      apply coef_eq_zero_of_not_mem
      intro p hp hpw
      exact h ⟨p.2, by rw [← hpw]; exact hp⟩
    have h2 : coef (m.nbh w) u = 0 := by
      apply coef_eq_zero_of_not_mem
      intro p hp hpu
      apply h
      refine ⟨p.2, ?_⟩
      have : (u, p.2) ∈ m.nbh w := by rw [← hpu]; exact hp
      exact hm.symm w u p.2 this
    rw [h1, h2]

theorem Q_eq_zero_of_ge (m : QMB R) (hm : m.WF) (u w : Nat) (hw : m.n ≤ w) : m.Q u w = 0 := by
  unfold Q
  apply coef_eq_zero_of_not_mem
  intro p hp hpw
  have := hm.bound u p hp
  omega

/-- the two lower-triangle entries that involve `v` and another index add up to the stored coefficient -/
theorem T_pair (m : QMB R) (hm : m.WF) (v w : Nat) (h : w ≠ v) : m.T w v + m.T v w = m.Q v w := by
  unfold T
  rcases Nat.lt_or_gt_of_ne h with h1 | h1
  · rw [if_neg (by omega), if_pos (by omega)]; simp
  · rw [if_pos (by omega), if_neg (by omega), Q_symm m hm w v]; simp

theorem T_diag (m : QMB R) (v : Nat) : m.T v v = m.Q v v := by unfold T; simp

/-! ## `fix_variable` -/

theorem length_foldl_modify (nb : Nbh R) (f : R → R → R) (lin : List R) :
    (nb.foldl (fun l p => l.modify p.1 (fun x => f x p.2)) lin).length = lin.length := by
  induction nb generalizing lin with
  | nil => rfl
  | cons p t ih => simp only [List.foldl_cons]; rw [ih]; simp

/-- adding `bias * a` to the linear bias of every neighbour = adding `coef · a` position-wise -/
theorem foldl_modify_add (nb : Nbh R) (hs : Nbh.Sorted nb) (a : R) (lin : List R)
    (hb : ∀ p ∈ nb, p.1 < lin.length) (w : Nat) :
    (nb.foldl (fun l p => l.modify p.1 (· + p.2 * a)) lin).getD w 0 = lin.getD w 0 + coef nb w * a := by
  induction nb generalizing lin with
  | nil => simp [coef]
  | cons p t ih =>
    obtain ⟨k, b⟩ := p
    have ht : Nbh.Sorted t := (List.pairwise_cons.mp hs).2
    have hk : ∀ q ∈ t, k < q.1 := (List.pairwise_cons.mp hs).1
    have hkl : k < lin.length := hb (k, b) (by simp)
    simp only [List.foldl_cons]
    rw [ih ht (lin.modify k (· + b * a)) (by intro q hq; simp; exact hb q (List.mem_cons_of_mem _ hq))]
    rw [getD_modify]
    simp only [coef]
    by_cases hkw : k = w
    · subst hkw
      have hz : coef t k = 0 := coef_eq_zero_of_lt t k hk
      simp [hkl, hz]
    · simp [hkw]

/-- the model just before `fix_variable` removes `v` -/
def fixPre (m : QMB R) (v : Nat) (a : R) : QMB R :=
  let lin1 := (m.nbh v).foldl (fun l p => l.modify p.1 (· + p.2 * a)) m.lin
  { m with lin := lin1, off := m.off + a * lin1.getD v 0 }

theorem fixVariable_eq (m : QMB R) (v : Nat) (a : R) : m.fixVariable v a = (m.fixPre v a).removeVariable v := rfl

theorem nbh_fixPre (m : QMB R) (v : Nat) (a : R) (u : Nat) : (m.fixPre v a).nbh u = m.nbh u := rfl

theorem n_fixPre (m : QMB R) (v : Nat) (a : R) : (m.fixPre v a).n = m.n := by
  unfold fixPre n
  exact length_foldl_modify (m.nbh v) (fun x b => x + b * a) m.lin

theorem WF_fixPre (m : QMB R) (hm : m.WF) (v : Nat) (a : R) : (m.fixPre v a).WF := by
  refine ⟨?_, ?_, ?_, ?_⟩
  · intro adj h
    have := hm.len adj h
    have hn := n_fixPre m v a
    unfold n at hn
    rw [hn]; exact this
  · intro u; exact hm.sorted u
  · intro u p hp; rw [n_fixPre]; exact hm.bound u p hp
  · intro u w b h; exact hm.symm u w b h

theorem L_fixPre (m : QMB R) (hm : m.WF) (v : Nat) (a : R) (w : Nat) :
    (m.fixPre v a).L w = m.L w + m.Q v w * a := by
  unfold L fixPre Q
  exact foldl_modify_add (m.nbh v) (hm.sorted v) a m.lin (hm.bound v) w

theorem off_fixPre (m : QMB R) (hm : m.WF) (v : Nat) (a : R) :
    (m.fixPre v a).off = m.off + a * (m.L v + m.Q v v * a) := by
  have h := L_fixPre m hm v a v
  unfold L at h
  show m.off + a * ((m.fixPre v a).lin.getD v 0) = _
  rw [h]; rfl

/-- **`fix_eval` on the sparse model** (`abc.h::fix_variable`, also the generic Python path of BQM/QM): the fixed
    model at `x'` has the energy of the original at `x'` extended by `v ↦ a` — squared term of `v` included. -/
theorem fixVariable_energy (m : QMB R) (hm : m.WF) (v : Nat) (hv : v < m.n) (a : R) (x' x : Nat → R)
    (hxv : x v = a) (hxs : ∀ i, i < m.n - 1 → x (skip v i) = x' i) :
    (m.fixVariable v a).energy x' = m.energy x := by
  have hpre := WF_fixPre m hm v a
  have hvn : v < (m.fixPre v a).n := by rw [n_fixPre]; exact hv
  have hwf := WF_removeVariable (m.fixPre v a) hpre v hvn
  rw [fixVariable_eq, energy_eq_evalR _ hwf, energy_eq_evalR m hm]
  rw [n_removeVariable _ v hvn, n_fixPre]
  have hn : m.n = (m.n - 1) + 1 := by omega
  rw [hn]
  rw [← fix_evalR (m.n - 1) m.off m.L m.T v (by omega) a x' x hxv (by simpa using hxs)]
  apply evalR_congr
  · rw [off_removeVariable, off_fixPre m hm, T_diag]; ring
  · intro i _
    rw [L_removeVariable, L_fixPre m hm, T_pair m hm v (skip v i) (skip_ne v i)]; ring
  · intro i j _ _
    rw [T_removeVariable _ hpre]
    rfl
  · intro _ _; rfl

/-! ## `substitute_variable(v, mult, c)` (after D4) -/

/-- scale the entry with index `v` -/
def scaleRow (v : Nat) (k : R) (nb : Nbh R) : Nbh R := nb.map fun p => if p.1 = v then (p.1, p.2 * k) else p

/-- what happens to `v`'s own neighbourhood: the self-loop gets `k*k`, everything else `k` -/
def scaleOwn (v : Nat) (k : R) (nb : Nbh R) : Nbh R :=
  nb.map fun p => if p.1 = v then (p.1, p.2 * (k * k)) else (p.1, p.2 * k)

theorem mulAt_of_mem (nb : Nbh R) (hs : Nbh.Sorted nb) (v : Nat) (k : R) (h : ∃ b, (v, b) ∈ nb) :
    Nbh.mulAt nb v k = scaleRow v k nb := by
  induction nb with
  | nil => obtain ⟨b, hb⟩ := h; cases hb
  | cons p t ih =>
    obtain ⟨w, c⟩ := p
    have ht : Nbh.Sorted t := (List.pairwise_cons.mp hs).2
    have hw : ∀ q ∈ t, w < q.1 := (List.pairwise_cons.mp hs).1
    obtain ⟨b, hb⟩ := h
    simp only [Nbh.mulAt, scaleRow, List.map_cons]
    rcases List.mem_cons.mp hb with hb | hb
    · cases hb
      have : ∀ q ∈ t, (if q.1 = v then (q.1, q.2 * k) else q) = q := by
        intro q hq
        have := hw q hq
        rw [if_neg (by omega)]
      simp [List.map_congr_left this]
    · have hlt : w < v := hw (v, b) hb
      have hne : ¬ w = v := by omega
      simp only [hlt, if_true, hne, if_false]
      congr 1
      exact ih ht ⟨b, hb⟩

theorem scaleRow_of_not_mem (nb : Nbh R) (v : Nat) (k : R) (h : ∀ p ∈ nb, p.1 ≠ v) : scaleRow v k nb = nb := by
  unfold scaleRow
  conv_rhs => rw [← List.map_id nb]
  apply List.map_congr_left
  intro p hp
  simp [h p hp]

theorem coef_scaleRow (nb : Nbh R) (v : Nat) (k : R) (w : Nat) :
    coef (scaleRow v k nb) w = coef nb w * (if w = v then k else 1) := by
  induction nb with
  | nil => simp [scaleRow, coef]
  | cons p t ih =>
    obtain ⟨x, b⟩ := p
    unfold scaleRow at ih ⊢
    simp only [List.map_cons]
    by_cases hx : x = v
    · subst hx
      simp only [if_true, coef]
      by_cases hw : x = w
      · subst hw; simp
      · have : ¬ w = x := fun e => hw e.symm
        simp only [hw, if_false, this]; rw [ih]; simp [this]
    · simp only [hx, if_false, coef]
      by_cases hw : x = w
      · subst hw; simp [hx]
      · simp only [hw, if_false]; exact ih

theorem coef_scaleOwn (nb : Nbh R) (v : Nat) (k : R) (w : Nat) :
    coef (scaleOwn v k nb) w = coef nb w * (if w = v then k * k else k) := by
  induction nb with
  | nil => simp [scaleOwn, coef]
  | cons p t ih =>
    obtain ⟨x, b⟩ := p
    unfold scaleOwn at ih ⊢
    simp only [List.map_cons]
    by_cases hx : x = v
    · subst hx
      simp only [if_true, coef]
      by_cases hw : x = w
      · subst hw; simp
      · simp only [hw, if_false]; exact ih
    · simp only [hx, if_false, coef]
      by_cases hw : x = w
      · subst hw; simp [hx]
      · simp only [hw, if_false]; exact ih

theorem keys_scaleRow (v : Nat) (k : R) (nb : Nbh R) : (scaleRow v k nb).map (·.1) = nb.map (·.1) := by
  unfold scaleRow
  rw [List.map_map]
  apply List.map_congr_left
  intro p _
  simp only [Function.comp]
  split <;> rfl

theorem keys_scaleOwn (v : Nat) (k : R) (nb : Nbh R) : (scaleOwn v k nb).map (·.1) = nb.map (·.1) := by
  unfold scaleOwn
  rw [List.map_map]
  apply List.map_congr_left
  intro p _
  simp only [Function.comp]
  split <;> rfl

theorem sorted_of_keys (nb nb' : Nbh R) (h : nb'.map (·.1) = nb.map (·.1)) (hs : Nbh.Sorted nb) : Nbh.Sorted nb' := by
  unfold Nbh.Sorted at *
  have h1 : (nb.map (·.1)).Pairwise (· < ·) := List.pairwise_map.mpr hs
  rw [← h] at h1
  exact List.pairwise_map.mp h1

/-- generic form of "add something to the linear bias of every neighbour" -/
theorem foldl_modify_g (g : Nat → R → R) (hg : ∀ k, g k 0 = 0) (nb : Nbh R) (hs : Nbh.Sorted nb) (lin : List R)
    (hb : ∀ p ∈ nb, p.1 < lin.length) (w : Nat) :
    (nb.foldl (fun l p => l.modify p.1 (· + g p.1 p.2)) lin).getD w 0 = lin.getD w 0 + g w (coef nb w) := by
  induction nb generalizing lin with
  | nil => simp [coef, hg]
  | cons p t ih =>
    obtain ⟨k, b⟩ := p
    have ht : Nbh.Sorted t := (List.pairwise_cons.mp hs).2
    have hk : ∀ q ∈ t, k < q.1 := (List.pairwise_cons.mp hs).1
    have hkl : k < lin.length := hb (k, b) (by simp)
    simp only [List.foldl_cons]
    rw [ih ht (lin.modify k (· + g k b)) (by intro q hq; simp; exact hb q (List.mem_cons_of_mem _ hq))]
    rw [getD_modify]
    simp only [coef]
    by_cases hkw : k = w
    · subst hkw
      have hz : coef t k = 0 := coef_eq_zero_of_lt t k hk
      simp [hkl, hz, hg]
    · simp [hkw]

theorem foldl_off (nb : Nbh R) (hs : Nbh.Sorted nb) (v : Nat) (c o : R) :
    nb.foldl (fun o p => if p.1 = v then o + p.2 * c * c else o) o = o + coef nb v * c * c := by
  induction nb generalizing o with
  | nil => simp [coef]
  | cons p t ih =>
    obtain ⟨k, b⟩ := p
    have ht : Nbh.Sorted t := (List.pairwise_cons.mp hs).2
    have hk : ∀ q ∈ t, k < q.1 := (List.pairwise_cons.mp hs).1
    simp only [List.foldl_cons, coef]
    rw [ih ht]
    by_cases hkv : k = v
    · subst hkv
      rw [coef_eq_zero_of_lt t k hk]; simp
    · simp [hkv]

open Classical in
/-- the loop that rescales the mirrored entries `(p.1, v)` for every neighbour `p` of `v` -/
theorem foldl_rows (nb : Nbh R) (hs : Nbh.Sorted nb) (v : Nat) (mult : R) (a : List (Nbh R)) (u : Nat) :
    (nb.foldl (fun a p => if p.1 = v then a else a.modify p.1 (Nbh.mulAt · v mult)) a).getD u []
      = if u ≠ v ∧ (∃ b, (u, b) ∈ nb) ∧ u < a.length then Nbh.mulAt (a.getD u []) v mult else a.getD u [] := by
  induction nb generalizing a with
  | nil => simp
  | cons p t ih =>
    obtain ⟨k, b⟩ := p
    have ht : Nbh.Sorted t := (List.pairwise_cons.mp hs).2
    have hk : ∀ q ∈ t, k < q.1 := (List.pairwise_cons.mp hs).1
    simp only [List.foldl_cons]
    rw [ih ht]
    by_cases hkv : k = v
    · subst hkv
      simp only [if_true]
      by_cases hu : u = k
      · subst hu; simp
      · have : (∃ b', (u, b') ∈ (k, b) :: t) ↔ ∃ b', (u, b') ∈ t := by
          constructor
          · rintro ⟨b', hb'⟩
            rcases List.mem_cons.mp hb' with h | h
            · cases h; exact absurd rfl hu
            · exact ⟨b', h⟩
          · rintro ⟨b', hb'⟩; exact ⟨b', List.mem_cons_of_mem _ hb'⟩
        simp only [this]
    · simp only [hkv, if_false, List.length_modify]
      by_cases hu : u = k
      · subst hu
        have hnot : ¬ ∃ b', (u, b') ∈ t := by
          rintro ⟨b', hb'⟩
          have := hk _ hb'
          simp at this
        have hex : ∃ b', (u, b') ∈ (u, b) :: t := ⟨b, by simp⟩
        simp only [hnot, false_and, and_false, if_false, hex, true_and, ne_eq, hkv, not_false_eq_true]
        rw [getD_modify]
        by_cases hl : u < a.length
        · simp [hl]
        · simp [hl]
      · have hiff : (∃ b', (u, b') ∈ (k, b) :: t) ↔ ∃ b', (u, b') ∈ t := by
          constructor
          · rintro ⟨b', hb'⟩
            rcases List.mem_cons.mp hb' with h | h
            · cases h; exact absurd rfl hu
            · exact ⟨b', h⟩
          · rintro ⟨b', hb'⟩; exact ⟨b', List.mem_cons_of_mem _ hb'⟩
        have hg : (a.modify k (Nbh.mulAt · v mult)).getD u [] = a.getD u [] := by
          rw [getD_modify]
          have : ¬ (k = u ∧ u < a.length) := fun h => hu h.1.symm
          simp [this]
        simp only [hiff, hg]

theorem length_foldl_rows (nb : Nbh R) (v : Nat) (mult : R) (a : List (Nbh R)) :
    (nb.foldl (fun a p => if p.1 = v then a else a.modify p.1 (Nbh.mulAt · v mult)) a).length = a.length := by
  induction nb generalizing a with
  | nil => rfl
  | cons p t ih =>
    simp only [List.foldl_cons]; rw [ih]; split <;> simp

theorem mem_scaleRow (v : Nat) (k : R) (nb : Nbh R) (w : Nat) (b' : R) :
    (w, b') ∈ scaleRow v k nb ↔ ∃ b, (w, b) ∈ nb ∧ b' = if w = v then b * k else b := by
  unfold scaleRow
  simp only [List.mem_map]
  constructor
  · rintro ⟨⟨x, b⟩, hm, h⟩
    by_cases hx : x = v
    · simp only [hx, if_true, Prod.mk.injEq] at h
      obtain ⟨rfl, rfl⟩ := h
      exact ⟨b, by rw [← hx]; exact hm, by simp⟩
    · simp only [hx, if_false, Prod.mk.injEq] at h
      obtain ⟨rfl, rfl⟩ := h
      exact ⟨b, hm, by simp [hx]⟩
  · rintro ⟨b, hm, rfl⟩
    refine ⟨(w, b), hm, ?_⟩
    by_cases hw : w = v <;> simp [hw]

theorem mem_scaleOwn (v : Nat) (k : R) (nb : Nbh R) (w : Nat) (b' : R) :
    (w, b') ∈ scaleOwn v k nb ↔ ∃ b, (w, b) ∈ nb ∧ b' = if w = v then b * (k * k) else b * k := by
  unfold scaleOwn
  simp only [List.mem_map]
  constructor
  · rintro ⟨⟨x, b⟩, hm, h⟩
    by_cases hx : x = v
    · simp only [hx, if_true, Prod.mk.injEq] at h
      obtain ⟨rfl, rfl⟩ := h
      exact ⟨b, by rw [← hx]; exact hm, by simp⟩
    · simp only [hx, if_false, Prod.mk.injEq] at h
      obtain ⟨rfl, rfl⟩ := h
      exact ⟨b, hm, by simp [hx]⟩
  · rintro ⟨b, hm, rfl⟩
    refine ⟨(w, b), hm, ?_⟩
    by_cases hw : w = v <;> simp [hw]

/-- the neighbourhoods after `substitute_variable(v, mult, c)` -/
theorem nbh_substituteVariable (m : QMB R) (hm : m.WF) (v : Nat) (hv : v < m.n) (mult c : R) (u : Nat) :
    (m.substituteVariable v mult c).nbh u
      = if u = v then scaleOwn v mult (m.nbh v) else scaleRow v mult (m.nbh u) := by
  unfold substituteVariable
  cases h : m.adj with
  | none =>
    simp only [nbh, h]
    split <;> simp [scaleOwn, scaleRow]
  | some a =>
    have hlen : a.length = m.n := hm.len a h
    have hnb : ∀ u, a.getD u [] = m.nbh u := fun u => (nbh_some m a h u).symm
    simp only [nbh]
    rw [getD_modify, length_foldl_rows, foldl_rows _ (by rw [hnb]; exact hm.sorted v)]
    by_cases huv : u = v
    · subst huv
      have hl : u < a.length := by omega
      simp only [true_and, hl, if_true, ne_eq, not_true_eq_false, false_and, if_false]
      rw [hnb]; rfl
    · have h1 : ¬ (v = u ∧ u < a.length) := fun hh => huv hh.1.symm
      simp only [h1, if_false, huv, ne_eq, not_false_eq_true, true_and]
      rw [hnb v, hnb u]
      by_cases hex : ∃ b, (u, b) ∈ m.nbh v
      · obtain ⟨b, hb⟩ := hex
        have hul : u < a.length := by rw [hlen]; exact hm.bound v _ hb
        rw [if_pos ⟨huv, ⟨b, hb⟩, hul⟩]
        exact mulAt_of_mem _ (hm.sorted u) v mult ⟨b, hm.symm v u b hb⟩
      · rw [if_neg (fun hh => hex hh.2.1)]
        symm
        apply scaleRow_of_not_mem
        intro p hp hpv
        apply hex
        exact ⟨p.2, hm.symm u v p.2 (by rw [← hpv]; exact hp)⟩

theorem n_substituteVariable (m : QMB R) (hm : m.WF) (v : Nat) (mult c : R) :
    (m.substituteVariable v mult c).n = m.n := by
  unfold substituteVariable n
  cases h : m.adj with
  | none => simp
  | some a =>
    simp only []
    have : ∀ (nb : Nbh R) (l : List R),
        (nb.foldl (fun l p => if p.1 = v then l.modify v (· + two * p.2 * mult * c) else l.modify p.1 (· + p.2 * c)) l).length = l.length := by
      intro nb
      induction nb with
      | nil => intro l; rfl
      | cons p t ih => intro l; simp only [List.foldl_cons]; rw [ih]; split <;> simp
    rw [this]; simp

/-- offset after the substitution: `off + L v · c + Q v v · c²` -/
theorem off_substituteVariable (m : QMB R) (hm : m.WF) (v : Nat) (mult c : R) :
    (m.substituteVariable v mult c).off = m.off + m.L v * c + m.Q v v * c * c := by
  unfold substituteVariable
  cases h : m.adj with
  | none => simp [Q, nbh, h, coef, L]
  | some a =>
    simp only []
    rw [foldl_off _ (by rw [← nbh_some m a h]; exact hm.sorted v)]
    simp [Q, nbh, h, L]

/-- linear biases after the substitution -/
theorem L_substituteVariable (m : QMB R) (hm : m.WF) (v : Nat) (hv : v < m.n) (mult c : R) (w : Nat) :
    (m.substituteVariable v mult c).L w
      = if w = v then m.L v * mult + two * m.Q v v * mult * c else m.L w + m.Q v w * c := by
  unfold substituteVariable
  cases h : m.adj with
  | none =>
    simp only [L]
    rw [getD_modify]
    have hq : ∀ w, m.Q v w = 0 := by intro w; simp [Q, nbh, h, coef]
    by_cases hw : w = v
    · subst hw
      have : w < m.lin.length := hv
      simp [this, hq]
    · have : ¬ (v = w ∧ w < m.lin.length) := fun hh => hw hh.1.symm
      simp [this, hw, hq]
  | some a =>
    simp only [L]
    let g : Nat → R → R := fun k b => if k = v then two * b * mult * c else b * c
    have hfun : (fun (l : List R) (p : Nat × R) =>
        if p.1 = v then l.modify v (· + two * p.2 * mult * c) else l.modify p.1 (· + p.2 * c))
        = (fun l p => l.modify p.1 (· + g p.1 p.2)) := by
      funext l p
      by_cases hp : p.1 = v
      · simp [g, hp]
      · simp [g, hp]
    rw [hfun]
    have hnbv : a.getD v [] = m.nbh v := (nbh_some m a h v).symm
    rw [hnbv]
    rw [foldl_modify_g g (by intro k; simp [g]) (m.nbh v) (hm.sorted v) _
      (by intro p hp; simp; exact hm.bound v p hp)]
    rw [getD_modify]
    by_cases hw : w = v
    · subst hw
      have : w < m.lin.length := hv
      simp [this, g, Q]
    · have : ¬ (v = w ∧ w < m.lin.length) := fun hh => hw hh.1.symm
      simp [this, hw, g, Q]

theorem Q_substituteVariable (m : QMB R) (hm : m.WF) (v : Nat) (hv : v < m.n) (mult c : R) (u w : Nat) :
    (m.substituteVariable v mult c).Q u w
      = m.Q u w * (if u = v then mult else 1) * (if w = v then mult else 1) := by
  unfold Q
  rw [nbh_substituteVariable m hm v hv]
  by_cases hu : u = v
  · subst hu
    simp only [if_true]
    rw [coef_scaleOwn]
    by_cases hw : w = u <;> simp [hw]; ring
  · simp only [hu, if_false]
    rw [coef_scaleRow]; ring

theorem WF_substituteVariable (m : QMB R) (hm : m.WF) (v : Nat) (hv : v < m.n) (mult c : R) :
    (m.substituteVariable v mult c).WF := by
  have hnbh := nbh_substituteVariable m hm v hv mult c
  refine ⟨?_, ?_, ?_, ?_⟩
  · intro a' ha'
    have hn := n_substituteVariable m hm v mult c
    unfold n at hn
    rw [hn]
    unfold substituteVariable at ha'
    cases h : m.adj with
    | none => simp [h] at ha'
    | some a =>
      simp only [h, Option.some.injEq] at ha'
      rw [← ha', List.length_modify, length_foldl_rows]
      exact hm.len a h
  · intro u
    rw [hnbh]
    split
    · exact sorted_of_keys _ _ (keys_scaleOwn v mult _) (hm.sorted v)
    · exact sorted_of_keys _ _ (keys_scaleRow v mult _) (hm.sorted u)
  · intro u p hp
    rw [hnbh] at hp
    rw [n_substituteVariable m hm]
    obtain ⟨w, b'⟩ := p
    split at hp
    · obtain ⟨b, hb, _⟩ := (mem_scaleOwn v mult _ w b').mp hp
      exact hm.bound v (w, b) hb
    · obtain ⟨b, hb, _⟩ := (mem_scaleRow v mult _ w b').mp hp
      exact hm.bound u (w, b) hb
  · intro u w b' h
    rw [hnbh] at h ⊢
    by_cases hu : u = v
    · subst hu
      simp only [if_true] at h
      obtain ⟨b, hb, hb'⟩ := (mem_scaleOwn u mult _ w b').mp h
      have hs := hm.symm u w b hb
      by_cases hw : w = u
      · subst hw
        simp only [if_true] at hb' ⊢
        exact (mem_scaleOwn w mult _ w b').mpr ⟨b, hb, by simp [hb']⟩
      · simp only [hw, if_false] at hb' ⊢
        exact (mem_scaleRow u mult _ u b').mpr ⟨b, hs, by simp [hb']⟩
    · simp only [hu, if_false] at h
      obtain ⟨b, hb, hb'⟩ := (mem_scaleRow v mult _ w b').mp h
      have hs := hm.symm u w b hb
      by_cases hw : w = v
      · subst hw
        simp only [if_true] at hb' ⊢
        exact (mem_scaleOwn w mult _ u b').mpr ⟨b, hs, by simp [hu, hb']⟩
      · simp only [hw, if_false] at hb' ⊢
        exact (mem_scaleRow v mult _ u b').mpr ⟨b, hs, by simp [hu, hb']⟩

/-- **`substVar_eval`**: `substitute_variable(v, mult, c)` (repaired, D4) is the substitution `x v = mult · y v + c`
    — squared term of `v` included -/
theorem substituteVariable_energy (m : QMB R) (hm : m.WF) (v : Nat) (hv : v < m.n) (mult c : R) (y : Nat → R) :
    (m.substituteVariable v mult c).energy y = m.energy (fun u => if u = v then mult * y v + c else y u) := by
  rw [energy_eq_evalR _ (WF_substituteVariable m hm v hv mult c), energy_eq_evalR m hm,
      n_substituteVariable m hm, ← subst1_evalR m.n m.off m.L m.T v hv mult c y]
  apply evalR_congr
  · rw [off_substituteVariable m hm, T_diag]; ring
  · intro u _
    rw [L_substituteVariable m hm v hv]
    by_cases hu : u = v
    · subst hu; simp only [if_true, T_diag, two]; ring
    · simp only [hu, if_false]
      rw [T_pair m hm v u hu]; ring
  · intro u w _ _
    unfold T
    rw [Q_substituteVariable m hm v hv]
    split <;> simp
  · intro _ _; rfl

/-! ## removing a variable that no longer occurs -/

/-- if every coefficient involving `v` is zero, removing `v` does not change any energy -/
theorem removeVariable_energy (m : QMB R) (hm : m.WF) (v : Nat) (hv : v < m.n)
    (hL : m.L v = 0) (hQ : ∀ w, m.Q v w = 0) (x' x : Nat → R)
    (hxs : ∀ i, i < m.n - 1 → x (skip v i) = x' i) :
    (m.removeVariable v).energy x' = m.energy x := by
  have hwf := WF_removeVariable m hm v hv
  rw [energy_eq_evalR _ hwf, energy_eq_evalR m hm, n_removeVariable m v hv]
  have hn : m.n = (m.n - 1) + 1 := by omega
  rw [hn]
  rw [← fix_evalR (m.n - 1) m.off m.L m.T v (by omega) (x v) x' x rfl (by simpa using hxs)]
  apply evalR_congr
  · rw [off_removeVariable, hL, T_diag, hQ]; ring
  · intro i _
    rw [L_removeVariable, T_pair m hm v (skip v i) (skip_ne v i), hQ]; ring
  · intro i j _ _
    rw [T_removeVariable m hm]
  · intro _ _; rfl

/-- **in-place fixing** (`substitute_variable(v, 0, a)` then `remove_variable(v)`, the CQM path): same energies
    as the original at the assignment extended by `v ↦ a` -/
theorem substitute_remove_energy (m : QMB R) (hm : m.WF) (v : Nat) (hv : v < m.n) (a : R) (x' x : Nat → R)
    (hxv : x v = a) (hxs : ∀ i, i < m.n - 1 → x (skip v i) = x' i) :
    ((m.substituteVariable v 0 a).removeVariable v).energy x' = m.energy x := by
  have hwf := WF_substituteVariable m hm v hv 0 a
  have hn := n_substituteVariable m hm v 0 a
  rw [removeVariable_energy _ hwf v (by rw [hn]; exact hv)
    (by rw [L_substituteVariable m hm v hv]; simp)
    (by intro w; rw [Q_substituteVariable m hm v hv]; simp)
    x' x (by rw [hn]; exact hxs)]
  rw [substituteVariable_energy m hm v hv]
  congr 1
  funext u
  by_cases hu : u = v
  · subst hu; simp [hxv]
  · simp [hu]

/-- the two single-variable fixing routines (`fix_variable` of `abc.h` and substitute-then-remove) agree on every energy -/
theorem fix_paths_agree (m : QMB R) (hm : m.WF) (v : Nat) (hv : v < m.n) (a : R) (x' : Nat → R) :
    ((m.substituteVariable v 0 a).removeVariable v).energy x' = (m.fixVariable v a).energy x' := by
  let x : Nat → R := fun u => if u = v then a else x' (unskip v u)
  have hxv : x v = a := by simp [x]
  have hxs : ∀ i, i < m.n - 1 → x (skip v i) = x' i := by
    intro i _
    simp [x, skip_ne, unskip_skip]
  rw [substitute_remove_energy m hm v hv a x' x hxv hxs, fixVariable_energy m hm v hv a x' x hxv hxs]

end

end QMB

end En
