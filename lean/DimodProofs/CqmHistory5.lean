import DimodProofs.CqmHistory4

/-! Property C05 — the BINARY branch of `flip_variable` as a FUNCTION (round 8).

`flip_variable(v)` of a BINARY variable substitutes `x ↦ 1 − x` everywhere and then clears the mark of every constraint that
`is_discrete()` (evaluated AFTER the substitution) and mentions `v`.  `is_discrete` = marked ∧ `is_onehot`, and `is_onehot` reads
one thing a polynomial does not show: `is_linear()` — "no STORED interaction" (a stored interaction with bias 0 counts).  Everything
else it reads is a function of the label-keyed polynomial: number of variables, sense, offset, every variable BINARY, every linear
bias equal to the right-hand side.  So the step is a function of the list of polynomials AND the per-constraint `is_linear()`
observation of the model before the call (`linFlags`; the substitution keeps the adjacency keys, hence that observation). -/

namespace CqmP
open Expr Cqm

/-- `is_onehot` on the label-keyed constraint, given the `is_linear()` observation of the stored expression -/
def LCons.isOnehotWith (info : Label → Option (VT4 × Rat × Rat)) (c : LCons) (linear : Bool) : Bool :=
  linear && decide (c.p.vars.length ≥ 2) && decide (c.sense = .eq) && decide (c.p.off = 0) &&
  c.p.vars.all (fun l => match info l with | some (vt, _, _) => decide (vt = .binary) | none => false) &&
  c.p.vars.all (fun l => decide (c.p.lin l = c.rhs))

/-- clear the mark of the constraints that are discrete (marked and one-hot, `lin` = their `is_linear()` flags) and mention `v` -/
def LCqm.clearMarksWith (s : LCqm) (lin : List Bool) (v : Label) : LCqm :=
  { s with cons := (s.cons.zip lin).map fun pb =>
      (pb.1.1, if (pb.1.2.discrete && pb.1.2.isOnehotWith s.info pb.2 && decide (v ∈ pb.1.2.p.vars)) = true
               then { pb.1.2 with discrete := false } else pb.1.2) }

/-- **`flip_variable(v)`, `v` BINARY, on the list of polynomials**: `x ↦ 1 − x` in every expression, then the marks -/
def LCqm.flipBinary (s : LCqm) (lin : List Bool) (v : Label) : LCqm :=
  (s.mapPolys (·.substitute v (-1) 1)).clearMarksWith lin v

/-- the `is_linear()` observation of every constraint's left-hand side, constraint order -/
def linFlags (m : Cqm) : List Bool := m.cons.map (·.e.qb.isLinear)

/-! ### `is_linear` depends on the adjacency keys only -/

theorem flipfn_isLinear_eq_keys (q : QB) : q.isLinear = (keysOf q.adj).all (·.isEmpty) := by
  unfold QB.isLinear keysOf
  rw [List.all_map]
  congr 1
  funext nb
  cases nb <;> rfl

theorem flipfn_substitute_isLinear (e : Expr) (g : Nat) (m c : Rat) : (e.substitute g m c).qb.isLinear = e.qb.isLinear := by
  unfold Expr.substitute
  cases e.idx.get? g with
  | none => rfl
  | some i =>
    show (e.qb.substitute i m c).isLinear = e.qb.isLinear
    rw [flipfn_isLinear_eq_keys, flipfn_isLinear_eq_keys]
    unfold QB.substitute
    rw [(substituteWith_shape _ e.qb i m c).2]

theorem linFlags_mapSubstitute (m : Cqm) (g : Nat) (a c : Rat) : linFlags (m.mapExprs (·.substitute g a c)) = linFlags m := by
  unfold linFlags Cqm.mapExprs
  simp only [List.map_map]
  apply List.map_congr_left
  intro x _
  exact flipfn_substitute_isLinear x.e g a c

/-! ### `is_onehot` and `hasVar` on the label-keyed constraint -/

theorem flipfn_getD_label {labels : List Label} {g : Nat} (hg : g < labels.length) : labels[g]? = some (labels.getD g (.int 0)) := by
  rw [List.getD_eq_getElem?_getD, List.getElem?_eq_getElem hg]; rfl

theorem flipfn_all_lin_iff {e : Expr} (hwf : ExprWF e) (rhs : Rat) (labels : List Label) (hnd : labels.Nodup)
    (hlt : ∀ g ∈ e.vars, g < labels.length) :
    (e.qb.lin.all (fun x => decide (x = rhs)) = true)
      ↔ ((absExpr labels e).vars.all (fun l => decide ((absExpr labels e).lin l = rhs)) = true) := by
  simp only [List.all_eq_true, decide_eq_true_eq]
  have hlin : ∀ i (hi : i < e.vars.length), (absExpr labels e).lin (labels.getD e.vars[i] (.int 0)) = e.qb.lin.getD i 0 := by
    intro i hi
    have hgl := hlt e.vars[i] (List.getElem_mem hi)
    show (match findIdx (labels.getD e.vars[i] (.int 0)) labels 0 with | some g => e.linear g | none => 0) = _
    rw [(findIdx_eq_some_iff hnd).mpr (flipfn_getD_label hgl)]
    exact linear_of_idx ((hwf.idx e.vars[i] i).mpr (List.getElem?_eq_getElem hi))
  constructor
  · intro h l hl
    obtain ⟨g, hg, rfl⟩ := List.mem_map.mp hl
    obtain ⟨i, hi, rfl⟩ := List.getElem_of_mem hg
    rw [hlin i hi]
    have hil : i < e.qb.lin.length := by rw [hwf.lin_len]; exact hi
    rw [List.getD_eq_getElem?_getD, List.getElem?_eq_getElem hil]
    exact h _ (List.getElem_mem hil)
  · intro h x hx
    obtain ⟨i, hi, rfl⟩ := List.getElem_of_mem hx
    have hiv : i < e.vars.length := by rw [← hwf.lin_len]; exact hi
    have := h (labels.getD e.vars[i] (.int 0)) (List.mem_map.mpr ⟨_, List.getElem_mem hiv, rfl⟩)
    rw [hlin i hiv, List.getD_eq_getElem?_getD, List.getElem?_eq_getElem hi] at this
    exact this

theorem flipfn_all_binary_iff (e : Expr) (vt : List VT4) (lb ub : List Rat) (labels : List Label) (hnd : labels.Nodup)
    (hlen : labels.length = vt.length) (hlt : ∀ g ∈ e.vars, g < vt.length) :
    (e.vars.all (fun g => decide (vt.getD g .spin = .binary)) = true)
      ↔ ((absExpr labels e).vars.all (fun l =>
            match (findIdx l labels 0).map (fun g => (vt.getD g .binary, lb.getD g 0, ub.getD g 0)) with
            | some (t, _, _) => decide (t = .binary) | none => false) = true) := by
  show _ ↔ ((e.vars.map fun g => labels.getD g (.int 0)).all _ = true)
  rw [List.all_map]
  simp only [List.all_eq_true, Function.comp]
  have key : ∀ g ∈ e.vars,
      (match (findIdx (labels.getD g (.int 0)) labels 0).map (fun g => (vt.getD g .binary, lb.getD g 0, ub.getD g 0)) with
       | some (t, _, _) => decide (t = .binary) | none => false) = decide (vt.getD g .spin = .binary) := by
    intro g hg
    have hgv := hlt g hg
    have hgl : g < labels.length := by rw [hlen]; exact hgv
    rw [(findIdx_eq_some_iff hnd).mpr (flipfn_getD_label hgl)]
    simp only [Option.map_some]
    rw [List.getD_eq_getElem?_getD, List.getD_eq_getElem?_getD, List.getElem?_eq_getElem hgv]
    rfl
  constructor
  · intro h g hg; rw [key g hg]; exact h g hg
  · intro h g hg; rw [← key g hg]; exact h g hg

theorem flipfn_hasVar_iff {e : Expr} (hwf : ExprWF e) {labels : List Label} (hnd : labels.Nodup) (hlt : ∀ g ∈ e.vars, g < labels.length)
    {g : Nat} {v : Label} (hg : labels[g]? = some v) : e.hasVar g = true ↔ v ∈ (absExpr labels e).vars := by
  unfold Expr.hasVar
  show _ ↔ v ∈ e.vars.map fun g => labels.getD g (.int 0)
  rw [List.mem_map, Option.isSome_iff_exists]
  constructor
  · rintro ⟨i, hi⟩
    have := (hwf.idx g i).mp hi
    refine ⟨g, mem_of_getElem? this, ?_⟩
    rw [List.getD_eq_getElem?_getD, hg]; rfl
  · rintro ⟨g', hg', hv⟩
    have hgl := hlt g' hg'
    have h1 : labels[g']? = some v := by rw [flipfn_getD_label hgl, hv]
    have : g' = g := idx_unique_label hnd h1 hg
    subst this
    obtain ⟨i, hi, hgi⟩ := List.getElem_of_mem hg'
    exact ⟨i, (hwf.idx g' i).mpr (by rw [List.getElem?_eq_getElem hi, hgi])⟩

theorem flipfn_isOnehot_abs {c : Cons} (hwf : ExprWF c.e) (vt : List VT4) (lb ub : List Rat) (labels : List Label) (hnd : labels.Nodup)
    (hlen : labels.length = vt.length) (hlt : ∀ g ∈ c.e.vars, g < vt.length) :
    c.isOnehot vt = (absCons labels c).isOnehotWith
      (fun l => (findIdx l labels 0).map fun g => (vt.getD g .binary, lb.getD g 0, ub.getD g 0)) c.e.qb.isLinear := by
  have hlt' : ∀ g ∈ c.e.vars, g < labels.length := fun g hg => by rw [hlen]; exact hlt g hg
  have h1 := flipfn_all_binary_iff c.e vt lb ub labels hnd hlen hlt
  have h2 := flipfn_all_lin_iff hwf c.rhs labels hnd hlt'
  have hlenv : (absExpr labels c.e).vars.length = c.e.vars.length := by
    show (c.e.vars.map _).length = _
    rw [List.length_map]
  unfold Cons.isOnehot LCons.isOnehotWith
  show (_ && decide (c.e.vars.length ≥ 2) && decide (c.sense = .eq) && decide (c.e.qb.off = 0) && _ && _)
     = (_ && decide ((absExpr labels c.e).vars.length ≥ 2) && decide (c.sense = .eq) && decide (c.e.qb.off = 0) && _ && _)
  rw [hlenv]
  rw [Bool.eq_iff_iff]
  simp only [Bool.and_eq_true]
  constructor
  · rintro ⟨⟨a, b⟩, d⟩; exact ⟨⟨a, h1.mp b⟩, h2.mp d⟩
  · rintro ⟨⟨a, b⟩, d⟩; exact ⟨⟨a, h1.mpr b⟩, h2.mpr d⟩

/-! ### the Python part of the flip, on the list of polynomials -/

theorem flipfn_zip3_map {κ α β δ : Type} (ks : List κ) (l : List α) (f : α → β) (g : α → Bool) (h : (κ × β) × Bool → κ × δ)
    (f' : α → δ) (hh : ∀ k, ∀ a ∈ l, h ((k, f a), g a) = (k, f' a)) :
    ((ks.zip (l.map f)).zip (l.map g)).map h = ks.zip (l.map f') := by
  induction ks generalizing l with
  | nil => simp
  | cons k kt ih =>
    cases l with
    | nil => simp
    | cons a t =>
      simp only [List.map_cons, List.zip_cons_cons]
      rw [hh k a List.mem_cons_self, ih t (fun k' a' ha' => hh k' a' (List.mem_cons_of_mem _ ha'))]

theorem abs_unmarkDiscreteWith_eq {M : Cqm} (hwf : CqmWF M) (hl : CqmLabelsOK M) {g : Nat} {v : Label} (hg : M.labels[g]? = some v) :
    absCqm (M.unmarkDiscreteWith g) = (absCqm M).clearMarksWith (linFlags M) v := by
  have hcons : (absCqm (M.unmarkDiscreteWith g)).cons = ((absCqm M).clearMarksWith (linFlags M) v).cons := by
    show M.clabels.zip ((M.cons.map _).map (absCons M.labels))
      = ((M.clabels.zip (M.cons.map (absCons M.labels))).zip (M.cons.map (·.e.qb.isLinear))).map _
    rw [List.map_map]
    symm
    apply flipfn_zip3_map
    intro k c hc
    have hwfc := hwf.cons c hc
    have hltc := hwf.cons_lt c hc
    have hoh := flipfn_isOnehot_abs hwfc M.vt M.lb M.ub M.labels hl.labels_nodup hwf.labels_len hltc
    have hhv := flipfn_hasVar_iff hwfc hl.labels_nodup (fun g hg => by rw [hwf.labels_len]; exact hltc g hg) hg
    have hd : decide (v ∈ (absExpr M.labels c.e).vars) = c.e.hasVar g := by
      rw [Bool.eq_iff_iff, decide_eq_true_iff]; exact hhv.symm
    have hcond : (c.discrete && (absCons M.labels c).isOnehotWith (absCqm M).info c.e.qb.isLinear
        && decide (v ∈ (absExpr M.labels c.e).vars)) = (c.isDiscrete M.vt && c.e.hasVar g) := by
      unfold Cons.isDiscrete
      rw [hoh, hd]
      rfl
    show (k, if (c.discrete && (absCons M.labels c).isOnehotWith (absCqm M).info c.e.qb.isLinear
              && decide (v ∈ (absExpr M.labels c.e).vars)) = true
            then { absCons M.labels c with discrete := false } else absCons M.labels c)
       = (k, absCons M.labels (if (c.isDiscrete M.vt && c.e.hasVar g) = true then { c with discrete := false } else c))
    rw [hcond]
    by_cases hb : (c.isDiscrete M.vt && c.e.hasVar g) = true
    · rw [if_pos hb, if_pos hb]; rfl
    · rw [if_neg hb, if_neg hb]
  have h1 : absCqm (M.unmarkDiscreteWith g) = { absCqm M with cons := (absCqm (M.unmarkDiscreteWith g)).cons } := rfl
  rw [h1, hcons]
  rfl

/-! ### the overlap test (`v in some discrete constraint`) on the list of polynomials -/

/-- `any(v in cqm.constraints[l].lhs.variables for l in cqm.discrete)` — what `remove_variable` refuses on and what
    `add_discrete(..., check_overlaps=True)` tests — on (list of polynomials, `is_linear()` flags) -/
def LCqm.inDiscreteWith (s : LCqm) (lin : List Bool) (v : Label) : Bool :=
  (s.cons.zip lin).any fun pb => pb.1.2.discrete && pb.1.2.isOnehotWith s.info pb.2 && decide (v ∈ pb.1.2.p.vars)

theorem flipfn_zip3_any {κ α β : Type} (l : List α) (f : α → β) (g : α → Bool) (h : (κ × β) × Bool → Bool) (h' : α → Bool) :
    ∀ (ks : List κ), ks.length = l.length → (∀ k, ∀ a ∈ l, h ((k, f a), g a) = h' a) →
      ((ks.zip (l.map f)).zip (l.map g)).any h = l.any h' := by
  induction l with
  | nil => intro ks _ _; cases ks <;> rfl
  | cons a t ih =>
    intro ks hlen hh
    cases ks with
    | nil => cases hlen
    | cons k kt =>
      simp only [List.map_cons, List.zip_cons_cons, List.any_cons]
      rw [hh k a List.mem_cons_self, ih kt (by simpa using hlen) (fun k' a' ha' => hh k' a' (List.mem_cons_of_mem _ ha'))]

theorem inDiscrete_abs {M : Cqm} (hwf : CqmWF M) (hl : CqmLabelsOK M) {g : Nat} {v : Label} (hg : M.labels[g]? = some v) :
    M.inDiscrete g = (absCqm M).inDiscreteWith (linFlags M) v := by
  unfold Cqm.inDiscrete LCqm.inDiscreteWith
  show _ = ((M.clabels.zip (M.cons.map (absCons M.labels))).zip (M.cons.map (·.e.qb.isLinear))).any _
  symm
  apply flipfn_zip3_any _ _ _ _ _ _ hwf.clabels_len
  intro k c hc
  have hwfc := hwf.cons c hc
  have hltc := hwf.cons_lt c hc
  have hoh := flipfn_isOnehot_abs hwfc M.vt M.lb M.ub M.labels hl.labels_nodup hwf.labels_len hltc
  have hhv := flipfn_hasVar_iff hwfc hl.labels_nodup (fun g hg => by rw [hwf.labels_len]; exact hltc g hg) hg
  have hd : decide (v ∈ (absExpr M.labels c.e).vars) = c.e.hasVar g := by
    rw [Bool.eq_iff_iff, decide_eq_true_iff]; exact hhv.symm
  show (c.discrete && (absCons M.labels c).isOnehotWith (absCqm M).info c.e.qb.isLinear
        && decide (v ∈ (absExpr M.labels c.e).vars)) = (c.isDiscrete M.vt && c.e.hasVar g)
  unfold Cons.isDiscrete
  rw [hoh, hd]
  rfl

/-! ### `flip_variable` as ONE function, and the per-step / history statements for every operation -/

/-- **`flip_variable(v)` on (list of polynomials, `is_linear()` flags)**: SPIN `s ↦ −s`; BINARY `x ↦ 1 − x` and the marks;
    anything else (unknown label, INTEGER, REAL) is an error -/
def LCqm.flipF (s : LCqm) (lin : List Bool) (v : Label) : Option LCqm :=
  match s.info v with
  | some (.spin, _, _) => some (s.mapPolys (·.substitute v (-1) 0))
  | some (.binary, _, _) => some (s.flipBinary lin v)
  | _ => none

theorem refines_flipF {m m' : Cqm} (h : RefInv m) (v : Label) (hstep : m.step (.flipVariable v) = (m', none)) :
    (absCqm m).flipF (linFlags m) v = some (absCqm m') := by
  obtain ⟨g, hg, hcase⟩ := refines_flipVariable h.lab h.ks h.sorted v hstep
  have hgl := idx?_get hg
  have hgv : g < m.vt.length := by
    rw [← h.wf.labels_len]; exact (List.getElem?_eq_some_iff.mp hgl).1
  have hinfo : (absCqm m).info v = some (m.vt.getD g .binary, m.lb.getD g 0, m.ub.getD g 0) := by
    show (findIdx v m.labels 0).map _ = _
    rw [(findIdx_eq_some_iff h.lab.labels_nodup).mpr hgl]; rfl
  have hvt : m.vt.getD g .binary = m.vt.getD g .integer := by
    rw [List.getD_eq_getElem?_getD, List.getD_eq_getElem?_getD, List.getElem?_eq_getElem hgv]; rfl
  unfold LCqm.flipF
  rw [hinfo, hvt]
  rcases hcase with ⟨hs, habs⟩ | ⟨hb, hm', habs⟩
  · rw [hs]; simp only []; rw [habs]
  · rw [hb]; simp only []
    have hM : CqmWF (m.mapExprs (·.substitute g (-1) 1)) := mapSubstitute_wf h.wf g (-1) 1
    have hL : CqmLabelsOK (m.mapExprs (·.substitute g (-1) 1)) := ⟨h.lab.labels_nodup, h.lab.clabels_nodup⟩
    rw [hm', abs_unmarkDiscreteWith_eq hM hL (v := v) hgl, habs, linFlags_mapSubstitute]
    rfl

/-- the function is TOTAL: it is an error exactly when the call raises (unknown label, INTEGER or REAL variable), and a call that
    raises leaves the model as it was -/
theorem flipF_none_iff {m : Cqm} (h : RefInv m) (v : Label) :
    ((absCqm m).flipF (linFlags m) v = none ↔ (m.step (.flipVariable v)).2 ≠ none)
    ∧ ((m.step (.flipVariable v)).2 ≠ none → (m.step (.flipVariable v)).1 = m) := by
  have hstep : m.step (.flipVariable v) = m.flipVariableR v := rfl
  constructor
  · constructor
    · intro hn hok
      have := refines_flipF h v (Prod.ext rfl hok)
      rw [hn] at this; cases this
    · intro hne
      rw [hstep] at hne
      unfold Cqm.flipVariableR at hne
      unfold LCqm.flipF
      cases hg : m.idx? v with
      | none =>
        have : (absCqm m).info v = none := by
          show (findIdx v m.labels 0).map _ = none
          have : findIdx v m.labels 0 = none := hg
          rw [this]; rfl
        rw [this]
      | some g =>
        rw [hg] at hne
        simp only [] at hne
        have hgl := idx?_get hg
        have hgv : g < m.vt.length := by
          rw [← h.wf.labels_len]; exact (List.getElem?_eq_some_iff.mp hgl).1
        have hinfo : (absCqm m).info v = some (m.vt.getD g .binary, m.lb.getD g 0, m.ub.getD g 0) := by
          show (findIdx v m.labels 0).map _ = _
          rw [(findIdx_eq_some_iff h.lab.labels_nodup).mpr hgl]; rfl
        have hvt : m.vt.getD g .binary = m.vt.getD g .integer := by
          rw [List.getD_eq_getElem?_getD, List.getD_eq_getElem?_getD, List.getElem?_eq_getElem hgv]; rfl
        rw [hinfo, hvt]
        cases hk : m.vt.getD g .integer with
        | spin => rw [hk] at hne; exact absurd rfl hne
        | binary => rw [hk] at hne; exact absurd rfl hne
        | integer => rfl
        | real => rfl
  · intro hne
    rw [hstep] at hne ⊢
    unfold Cqm.flipVariableR at hne ⊢
    cases hg : m.idx? v with
    | none => rfl
    | some g =>
      rw [hg] at hne
      simp only [] at hne ⊢
      cases hk : m.vt.getD g .integer with
      | spin => rw [hk] at hne; exact absurd rfl hne
      | binary => rw [hk] at hne; exact absurd rfl hne
      | integer => rfl
      | real => rfl

/-- the specification step for EVERY operation as a function of the list of polynomials and the `is_linear()` flags -/
def specStepObs (s : LCqm) (lin : List Bool) : Op → Option LCqm
  | .flipVariable v => s.flipF lin v
  | op => specStepFull s op

theorem specStepObs_refines {m : Cqm} (h : RefInv m) (op : Op) (hop : OpOK2 op) (hok : (m.step op).2 = none) :
    specStepObs (absCqm m) (linFlags m) op = some (absCqm (m.step op).1) := by
  have hm : m.step op = ((m.step op).1, none) := Prod.ext rfl hok
  cases op with
  | flipVariable v => exact refines_flipF h v hm
  | setLowerBound v x => exact specRel_step h _ hop hok
  | setUpperBound v x => exact specRel_step h _ hop hok
  | changeVartype vt v => exact specRel_step h _ hop hok
  | removeConstraint label cascade => exact specRel_step h _ hop hok
  | addVariable vt v lb ub => exact specRel_step h _ hop hok
  | setObjectiveModel mi => exact specRel_step h _ hop hok
  | setObjectiveTerms ts => exact specRel_step h _ hop hok
  | addConstraintModel mi sense rhs label copy weight pen => exact specRel_step h _ hop hok
  | addConstraintTerms ts sense rhs label weight pen => exact specRel_step h _ hop hok
  | addDiscreteModel mi label copy chk => exact specRel_step h _ hop hok
  | addDiscreteComparison mi sense rhs label copy chk => exact specRel_step h _ hop hok
  | addDiscreteVars vs label chk => exact specRel_step h _ hop hok
  | removeVariable v => exact specRel_step h _ hop hok
  | fixVariable v a => exact specRel_step h _ hop hok
  | fixVariables fixed => exact specRel_step h _ hop hok
  | spinToBinary => exact specRel_step h _ hop hok
  | relabelVariables mp => exact specRel_step h _ hop hok
  | relabelConstraints mp => exact specRel_step h _ hop hok
  | viewAddLinear w v b => exact specRel_step h _ hop hok
  | viewSetLinear w v b => exact specRel_step h _ hop hok
  | viewAddQuadratic w u v b => exact specRel_step h _ hop hok
  | viewRemoveInteraction w u v => exact specRel_step h _ hop hok
  | viewRemoveVariable w v => exact specRel_step h _ hop hok
  | viewSetOffset w b => exact specRel_step h _ hop hok
  | viewMarkDiscrete l mark => exact specRel_step h _ hop hok
  | viewSetWeight l weight pen => exact specRel_step h _ hop hok
  | deepcopy => exact specRel_step h _ hop hok

/-- every step of the run is the function `specStepObs` of what the model shows before the step -/
def ObsRun (m : Cqm) : List Op → Prop
  | [] => True
  | op :: t => specStepObs (absCqm m) (linFlags m) op = some (absCqm (m.step op).1) ∧ ObsRun (m.step op).1 t

theorem obsRun_refines (ops : List Op) : ∀ {m : Cqm}, RefInv m → (∀ op ∈ ops, OpOK2 op) → Succeeds m ops → ObsRun m ops := by
  induction ops with
  | nil => intro m _ _ _; trivial
  | cons op t ih =>
    intro m h hops hsucc
    exact ⟨specStepObs_refines h op (hops op List.mem_cons_self) hsucc.1,
      ih (refInv_step h op (hops op List.mem_cons_self).ok) (fun o ho => hops o (List.mem_cons_of_mem _ ho)) hsucc.2⟩

end CqmP
