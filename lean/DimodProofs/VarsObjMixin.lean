import DimodProofs.VarsObj
import Mathlib.Data.List.Perm.Subperm

/-! The `abc.Set` / `abc.Sequence` mixin methods `Variables` inherits, over objects, against the plain list of
    canonical labels; and the range-labelled fast path (`_is_range()`). -/

namespace LSpec

/-- the permissive fold of appends of a duplicate-free continuation just appends it -/
theorem extend_nodup : ∀ (l acc : List Label), (acc ++ l).Nodup →
    (extend acc (l.map some) true).1 = acc ++ l
  | [], acc, _ => by simp [extend]
  | v :: vs, acc, h => by
    have hv : v ∉ acc := by
      intro hm
      have := List.nodup_append.1 h
      exact this.2.2 v hm v List.mem_cons_self rfl
    have h' : ((acc ++ [v]) ++ vs).Nodup := by simpa using h
    have ih := extend_nodup vs (acc ++ [v]) h'
    simp only [List.map_cons, extend, step, hv, if_false, if_true]
    rw [ih]; simp

/-- `_from_iterable` of a duplicate-free list is that list -/
theorem extend_nil_nodup (l : List Label) (h : l.Nodup) : (extend [] (l.map some) true).1 = l := by
  have := extend_nodup l [] (by simpa using h)
  simpa using this

end LSpec

namespace KState
open PyKey

/-- `_from_iterable(objs)` as a list: the first occurrence of every label, in order (what the plain reference
    `r = []; for x in objs: if x not in r: r.append(x)` builds) -/
theorem ofList_abs (vs : List PyKey) :
    (ofList vs).toV.abs = (LSpec.extend [] ((vs.map canon).map some) true).1 := by
  rw [(ofList_factors vs).1]; exact (VState.ofList_spec (vs.map canon)).2

theorem isdisjoint_iff (k : KState) (h : k.toV.Inv) (o : List PyKey) :
    k.isdisjoint o = true ↔ ∀ x ∈ o.map canon, x ∉ k.toV.abs := by
  simp only [isdisjoint, List.all_eq_true, Bool.not_eq_true', List.mem_map, forall_exists_index, and_imp,
    forall_apply_eq_imp_iff₂]
  constructor
  · intro hh x hx hm
    have := hh x hx
    rw [← Bool.not_eq_true, count_iff_mem k h] at this
    exact this hm
  · intro hh x hx
    rw [← Bool.not_eq_true, count_iff_mem k h]
    exact hh x hx

theorem iter_all_memO (k : KState) (h : k.toV.Inv) (o : List PyKey) :
    k.iterObjs.all (memO o) = true ↔ ∀ x ∈ k.toV.abs, x ∈ o.map canon := by
  rw [← iterObjs_canon k h]
  simp only [List.all_eq_true, memO_iff, List.mem_map, forall_exists_index, and_imp, forall_apply_eq_imp_iff₂]

/-- `self <= other` for a Set `other` (distinct elements): every label of `self` is in `other` -/
theorem le_iff (k : KState) (h : k.toV.Inv) (o : List PyKey) (ho : (o.map canon).Nodup) :
    k.le o = true ↔ ∀ x ∈ k.toV.abs, x ∈ o.map canon := by
  unfold le
  split
  · rename_i hgt
    constructor
    · intro hf; simp at hf
    · intro hsub
      exfalso
      have := (List.subperm_of_subset (VState.abs_nodup k.toV h) hsub).length_le
      rw [VState.abs_length, List.length_map] at this
      have hs : k.toV.stop = k.stop := rfl
      omega
  · exact iter_all_memO k h o

theorem lt_iff (k : KState) (h : k.toV.Inv) (o : List PyKey) (ho : (o.map canon).Nodup) :
    k.lt o = true ↔ (∀ x ∈ k.toV.abs, x ∈ o.map canon) ∧ k.toV.abs.length < (o.map canon).length := by
  have hs : k.toV.stop = k.stop := rfl
  simp only [lt, Bool.and_eq_true, decide_eq_true_eq, le_iff k h o ho, VState.abs_length, List.length_map, hs]
  exact And.comm

theorem all_count_iff (k : KState) (h : k.toV.Inv) (o : List PyKey) :
    (o.all fun x => k.count x) = true ↔ ∀ x ∈ o.map canon, x ∈ k.toV.abs := by
  simp only [List.all_eq_true, count_iff_mem k h, List.mem_map, forall_exists_index, and_imp,
    forall_apply_eq_imp_iff₂]

/-- `self >= other` -/
theorem ge_iff (k : KState) (h : k.toV.Inv) (o : List PyKey) (ho : (o.map canon).Nodup) :
    k.ge o = true ↔ ∀ x ∈ o.map canon, x ∈ k.toV.abs := by
  unfold ge
  split
  · rename_i hlt
    constructor
    · intro hf; simp at hf
    · intro hsub
      exfalso
      have := (List.subperm_of_subset ho hsub).length_le
      rw [VState.abs_length, List.length_map] at this
      have hs : k.toV.stop = k.stop := rfl
      omega
  · exact all_count_iff k h o

theorem gt_iff (k : KState) (h : k.toV.Inv) (o : List PyKey) (ho : (o.map canon).Nodup) :
    k.gt o = true ↔ (∀ x ∈ o.map canon, x ∈ k.toV.abs) ∧ (o.map canon).length < k.toV.abs.length := by
  have hs : k.toV.stop = k.stop := rfl
  simp only [gt, Bool.and_eq_true, decide_eq_true_eq, ge_iff k h o ho, VState.abs_length, List.length_map, hs]
  exact And.comm

/-- `self & other`: the labels of OTHER that are in `self`, in the order of other, first occurrences -/
theorem and_abs (k : KState) (h : k.toV.Inv) (o : List PyKey) :
    (k.and o).toV.Inv ∧
    (k.and o).toV.abs = (LSpec.extend [] (((o.map canon).filter fun x => decide (x ∈ k.toV.abs)).map some) true).1 := by
  refine ⟨(ofList_factors _).2, ?_⟩
  unfold KState.and
  rw [ofList_abs]
  congr 3
  apply filter_canon
  intro x
  rw [Bool.eq_iff_iff, count_iff_mem k h]; simp

/-- `self | other` -/
theorem or_abs (k : KState) (h : k.toV.Inv) (o : List PyKey) :
    (k.or o).toV.Inv ∧
    (k.or o).toV.abs = (LSpec.extend [] ((k.toV.abs ++ o.map canon).map some) true).1 := by
  refine ⟨(ofList_factors _).2, ?_⟩
  unfold KState.or
  rw [ofList_abs, List.map_append, iterObjs_canon k h]

theorem mem_ofList_abs (o : List PyKey) (x : Label) : x ∈ (ofList o).toV.abs ↔ x ∈ o.map canon := by
  rw [(ofList_factors o).1]; exact VState.ofList_mem (o.map canon) x

theorem sub_filter (k : KState) (h : k.toV.Inv) (o : List PyKey) :
    (k.iterObjs.filter fun x => !((ofList o).count x)).map canon = k.toV.abs.filter fun x => !decide (x ∈ o.map canon) := by
  rw [← iterObjs_canon k h]
  apply filter_canon
  intro x
  congr 1
  rw [Bool.eq_iff_iff, count_iff_mem _ (ofList_factors o).2, mem_ofList_abs]; simp

/-- `self - other`: exactly the labels of `self` not in `other`, in the order of `self` -/
theorem sub_abs (k : KState) (h : k.toV.Inv) (o : List PyKey) :
    (k.sub o).toV.Inv ∧ (k.sub o).toV.abs = k.toV.abs.filter fun x => !decide (x ∈ o.map canon) := by
  refine ⟨(ofList_factors _).2, ?_⟩
  unfold KState.sub
  rw [ofList_abs, sub_filter k h, LSpec.extend_nil_nodup]
  exact (VState.abs_nodup k.toV h).sublist List.filter_sublist

/-- `self ^ other`: the labels of `self` not in `other`, then the labels of `other` (first occurrences, in order)
    not in `self` -/
theorem xor_abs (k : KState) (h : k.toV.Inv) (o : List PyKey) :
    (k.xor o).toV.Inv ∧
    (k.xor o).toV.abs = (LSpec.extend []
      (((k.toV.abs.filter fun x => !decide (x ∈ o.map canon)) ++
        ((LSpec.extend [] ((o.map canon).map some) true).1.filter fun x => !decide (x ∈ k.toV.abs))).map some) true).1 := by
  refine ⟨(ofList_factors _).2, ?_⟩
  unfold KState.xor
  have hO := (ofList_factors o).2
  have e : ((ofList o).iterObjs.filter fun x => !(k.count x)).map canon
      = (LSpec.extend [] ((o.map canon).map some) true).1.filter fun x => !decide (x ∈ k.toV.abs) := by
    rw [← ofList_abs, ← iterObjs_canon _ hO]
    apply filter_canon
    intro x
    congr 1
    rw [Bool.eq_iff_iff, count_iff_mem k h]; simp
  have hnd : ((LSpec.extend [] ((o.map canon).map some) true).1.filter fun x => !decide (x ∈ k.toV.abs)).Nodup := by
    rw [← ofList_abs]
    exact (VState.abs_nodup _ hO).sublist List.filter_sublist
  rw [ofList_abs, List.map_append, iterObjs_canon _ (sub_abs k h o).1, (sub_abs k h o).2,
    iterObjs_canon _ (ofList_factors _).2, ofList_abs, e, LSpec.extend_nil_nodup _ hnd]

/-- `other - self`: the labels of `other` (first occurrences, in order) not in `self` -/
theorem rsub_abs (k : KState) (h : k.toV.Inv) (o : List PyKey) :
    (k.rsub o).toV.Inv ∧
    (k.rsub o).toV.abs = (LSpec.extend [] ((o.map canon).map some) true).1.filter fun x => !decide (x ∈ k.toV.abs) := by
  refine ⟨(ofList_factors _).2, ?_⟩
  unfold KState.rsub
  have hO := (ofList_factors o).2
  have e : ((ofList o).iterObjs.filter fun x => !(k.count x)).map canon
      = (LSpec.extend [] ((o.map canon).map some) true).1.filter fun x => !decide (x ∈ k.toV.abs) := by
    rw [← ofList_abs, ← iterObjs_canon _ hO]
    apply filter_canon
    intro x
    congr 1
    rw [Bool.eq_iff_iff, count_iff_mem k h]; simp
  rw [ofList_abs, e, LSpec.extend_nil_nodup]
  rw [← ofList_abs]
  exact (VState.abs_nodup _ hO).sublist List.filter_sublist

/-- `other | self` is `self | other` (`__ror__ = __or__`) -/
theorem ror_abs (k : KState) (h : k.toV.Inv) (o : List PyKey) :
    (k.ror o).toV.Inv ∧
    (k.ror o).toV.abs = (LSpec.extend [] ((k.toV.abs ++ o.map canon).map some) true).1 := or_abs k h o

end KState

/-! ### the range-labelled fast path -/

namespace VState

/-- `_is_range()` is true exactly when the labels are `0, 1, …, n-1` in this order -/
theorem isRange_iff_labels (s : VState) (h : s.Inv) :
    s.isRange = true ↔ s.abs = (List.range s.stop).map fun i => Label.int (i : Nat) := by
  constructor
  · intro hr
    have hnone := (s.isRange_iff).1 hr
    unfold VState.abs
    apply List.map_congr_left
    intro i _
    unfold labelAt
    cases hg : s.i2l.get? i with
    | none => rfl
    | some l =>
      have := (h.i2l_ok i l hg).2.2
      rw [hnone] at this
      simp at this
  · intro habs
    rw [s.isRange_iff]
    intro l
    cases hg : s.l2i.get? l with
    | none => rfl
    | some i =>
      exfalso
      have h1 := h.l2i_ok l i hg
      obtain ⟨hlt, hne, _⟩ := h.i2l_ok i l h1
      have h2 := abs_getElem? s i
      rw [habs, List.getElem?_map, List.getElem?_range hlt] at h2
      simp only [hlt, if_true, Option.map_some, Option.some.injEq] at h2
      unfold labelAt at h2
      rw [h1] at h2
      exact hne h2.symm

/-- on the fast path `count`, `at`, `index` (the branches that never touch a dict) agree with the general ones -/
theorem range_fast_path (s : VState) (h : s.Inv) (hr : s.isRange = true) :
    (∀ z : Int, s.count (.int z) = s.countIntRange z) ∧
    (∀ idx : Int, s.at? idx = s.atRange idx) ∧
    (∀ v : Label, s.index? v = s.indexRange v) := by
  have hnone := (s.isRange_iff).1 hr
  have hi2l : ∀ i, s.i2l.get? i = none := by
    intro i
    cases hg : s.i2l.get? i with
    | none => rfl
    | some l =>
      have := (h.i2l_ok i l hg).2.2
      rw [hnone] at this
      simp at this
  have hcount : ∀ z : Int, s.count (.int z) = s.countIntRange z := by
    intro z
    simp only [count, countIntRange, hi2l, hnone, Option.isNone_none, Option.isSome_none, Bool.and_true,
      Bool.or_false]
    by_cases hz : 0 ≤ z
    · have : (z.toNat < s.stop) ↔ (z < (s.stop : Int)) := by omega
      simp [hz, this]
    · simp [hz]
  refine ⟨hcount, ?_, ?_⟩
  · intro idx
    simp only [at?, atRange, labelAt, hi2l, Option.getD_none]
  · intro v
    cases v with
    | int z => simp only [index?, indexRange, hcount, idxOf, hnone]
    | str s' => simp [index?, indexRange, count, hnone]
    | tup l => simp [index?, indexRange, count, hnone]

/-- transitions between the fast path and the materialised dicts: `Variables(range(n))`, `_clear()` and
    `_relabel_as_integers()` always land on the fast path; an append leaves it exactly when the label is not the
    next index; a pop returns to it exactly when the remaining labels are `0 … n-2` -/
theorem range_transitions (s : VState) (h : s.Inv) :
    (∀ n, (ofRange n).isRange = true) ∧ (s.step .clear).1.isRange = true ∧ (s.step .relabelInts).1.isRange = true ∧
    (∀ v, v ∉ s.abs → s.isRange = true → ((s.append v).isRange = true ↔ v = .int s.stop)) ∧
    (∀ s' l, s.pop = some (s', l) → (s'.isRange = true ↔ s.abs.dropLast = (List.range (s.stop - 1)).map fun i => Label.int (i : Nat))) := by
  refine ⟨fun _ => rfl, rfl, rfl, ?_, ?_⟩
  · intro v _ hr
    unfold append
    split
    · rename_i hv
      have : ({ s with stop := s.stop + 1 } : VState).isRange = s.isRange := rfl
      simp [hv, this, hr]
    · rename_i hv; simp [isRange, AMap.set, hv]
  · intro s' l hp
    have h0 : s.stop ≠ 0 := by
      intro h0; simp [pop, h0] at hp
    have hs := step_refines s h .pop trivial
    simp only [step, hp, LSpec.step] at hs
    obtain ⟨hI, he⟩ := hs
    have hne : s.abs ≠ [] := by
      intro e; have := abs_length s; rw [e] at this; simp at this; omega
    simp only [hne, if_false, Prod.mk.injEq, and_true] at he
    rw [isRange_iff_labels s' hI, he]
    have : s'.stop = s.stop - 1 := by
      simp only [pop, h0, if_false, Option.some.injEq, Prod.mk.injEq] at hp
      rw [← hp.1]
    rw [this]

end VState
