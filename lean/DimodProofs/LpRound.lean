import DimodModel.Lp
import Mathlib.Tactic.Ring
import Mathlib.Tactic.Linarith
import Mathlib.Data.Rat.Defs
import Mathlib.Algebra.Order.Field.Rat

/-! C12: the specification-level reader inverts the writer on the writer's token stream. -/

namespace Lp

def touchAll (vs : List PVar) : List Label → List PVar
  | [] => vs
  | l :: ls => touchAll (touch vs l) ls

def nz (l : List (Label × Rat)) : List (Label × Rat) := l.filter (fun p => p.2 ≠ 0)

/-- linear terms read into the objective -/
theorem fold_lin_obj (l : List (Label × Rat)) (st : RState) (h : st.mode = .obj) :
    (l.map fun p => Tok.lin p.2 p.1).foldl rstep st =
      { st with vars := touchAll st.vars (l.map (·.1)), obj := { st.obj with lin := st.obj.lin ++ l } } := by
  induction l generalizing st with
  | nil => simp [touchAll]
  | cons p t ih =>
    simp only [List.map_cons, List.foldl_cons]
    have h1 : rstep st (Tok.lin p.2 p.1) = { st with vars := touch st.vars p.1, obj := st.obj.addLin p.1 p.2 } := by
      simp only [rstep, h]
    rw [h1, ih _ (by simp [h])]
    simp [touchAll, LExpr.addLin, List.append_assoc]

theorem fold_lin_con (l : List (Label × Rat)) (st : RState) (h : st.mode = .con) :
    (l.map fun p => Tok.lin p.2 p.1).foldl rstep st =
      { st with vars := touchAll st.vars (l.map (·.1)), cur := { st.cur with lin := st.cur.lin ++ l } } := by
  induction l generalizing st with
  | nil => simp [touchAll]
  | cons p t ih =>
    simp only [List.map_cons, List.foldl_cons]
    have h1 : rstep st (Tok.lin p.2 p.1) = { st with vars := touch st.vars p.1, cur := st.cur.addLin p.1 p.2 } := by
      simp only [rstep, h]
    rw [h1, ih _ (by simp [h])]
    simp [touchAll, LExpr.addLin, List.append_assoc]

def quadLabels : List (Label × Label × Rat) → List Label
  | [] => []
  | (u, v, _) :: t => u :: v :: quadLabels t

theorem fold_qterm (k : Rat) (q : List (Label × Label × Rat)) (st : RState) (h : st.mode = .objQ ∨ st.mode = .conQ) :
    (q.map fun (u, v, b) => Tok.qterm (k * b) u v).foldl rstep st =
      { st with vars := touchAll st.vars (quadLabels q), qacc := st.qacc ++ q.map fun (u, v, b) => (u, v, k * b) } := by
  induction q generalizing st with
  | nil => simp [touchAll, quadLabels]
  | cons p t ih =>
    obtain ⟨u, v, b⟩ := p
    simp only [List.map_cons, List.foldl_cons]
    have h1 : rstep st (Tok.qterm (k * b) u v) = { st with vars := touch (touch st.vars u) v, qacc := st.qacc ++ [(u, v, k * b)] } := by
      rcases h with h | h <;> simp only [rstep, h]
    rw [h1, ih _ (by simpa using h)]
    simp [touchAll, quadLabels, List.append_assoc]

theorem halve_double (q : List (Label × Label × Rat)) : halve (q.map fun (u, v, b) => (u, v, 2 * b)) = q := by
  induction q with
  | nil => rfl
  | cons p t ih =>
    obtain ⟨u, v, b⟩ := p
    simp only [halve, List.map_cons, List.map_map] at ih ⊢
    rw [ih]
    have : 2 * b / 2 = b := by ring
    simp [this]

theorem one_mul_map (q : List (Label × Label × Rat)) : (q.map fun (u, v, b) => (u, v, 1 * b)) = q := by
  have : (fun x : Label × Label × Rat => match x with | (u, v, b) => (u, v, 1 * b)) = id := by
    funext ⟨u, v, b⟩; simp
  rw [this, List.map_id]

/-- labels an expression mentions, in the order the writer emits them -/
def exprLabels (e : LExpr) : List Label := (nz e.lin).map (·.1) ++ quadLabels e.quad

theorem touchAll_append (vs : List PVar) (a b : List Label) : touchAll vs (a ++ b) = touchAll (touchAll vs a) b := by
  induction a generalizing vs with
  | nil => rfl
  | cons x t ih => simp only [List.cons_append, touchAll, ih]

theorem linToks_eq (l : List (Label × Rat)) : linToks l = (nz l).map fun p => Tok.lin p.2 p.1 := rfl

/-- the objective section is read back as the objective without its zero linear terms -/
theorem read_obj (e : LExpr) (rest : List Tok) :
    (objToks e ++ Tok.blank2 :: rest).foldl rstep {} =
      rest.foldl rstep { mode := .preCons, vars := touchAll [] (exprLabels e), obj := ⟨nz e.lin, e.quad, e.off⟩ } := by
  unfold objToks
  simp only []
  by_cases hq : e.quad = []
  · by_cases ho : e.off = 0
    · by_cases hl : nz e.lin = []
      · -- nothing is written
        have : linToks e.lin = [] := by rw [linToks_eq, hl]; rfl
        simp only [hq, ho, this, List.isEmpty_nil, if_true, List.append_nil, List.nil_append, List.foldl_cons]
        simp [rstep, exprLabels, hl, hq, quadLabels, touchAll]
      · have hne : (linToks e.lin).isEmpty = false := by
          rw [linToks_eq]; cases h : nz e.lin <;> simp_all
        simp only [hq, ho, List.isEmpty_nil, if_true, List.append_nil, hne, Bool.false_eq_true, if_false,
          List.cons_append, List.nil_append, List.foldl_cons, List.foldl_append]
        have s1 : rstep (rstep {} Tok.minimize) Tok.objLabel = { mode := .obj } := by simp [rstep]
        rw [s1, linToks_eq, fold_lin_obj _ _ rfl]
        simp [rstep, exprLabels, hq, quadLabels]
    · have hne : ((linToks e.lin) ++ [Tok.const e.off]).isEmpty = false := by simp
      simp only [hq, ho, List.isEmpty_nil, if_true, if_false, hne, Bool.false_eq_true,
        List.cons_append, List.nil_append, List.append_nil, List.foldl_cons, List.foldl_append, List.append_assoc]
      have s1 : rstep (rstep {} Tok.minimize) Tok.objLabel = { mode := .obj } := by simp [rstep]
      rw [s1, linToks_eq, fold_lin_obj _ _ rfl]
      simp [rstep, exprLabels, hq, quadLabels]
  · have hqe : e.quad.isEmpty = false := by cases h : e.quad <;> simp_all
    have hne : ∀ ot : List Tok, (linToks e.lin ++ ([Tok.qopen] ++ e.quad.map (fun (u, v, b) => Tok.qterm (2 * b) u v) ++ [Tok.qcloseHalf]) ++ ot).isEmpty = false := by
      intro ot; cases h : linToks e.lin <;> simp
    simp only [hqe, Bool.false_eq_true, if_false, hne]
    simp only [List.cons_append, List.nil_append, List.foldl_cons, List.foldl_append, List.append_assoc]
    have s1 : rstep (rstep {} Tok.minimize) Tok.objLabel = { mode := .obj } := by simp [rstep]
    rw [s1, linToks_eq, fold_lin_obj _ _ rfl]
    simp only [List.nil_append]
    have s2 : ∀ st : RState, st.mode = .obj → rstep st Tok.qopen = { st with mode := .objQ, qacc := [] } := by
      intro st h; simp only [rstep, h]
    rw [s2 _ rfl, fold_qterm 2 e.quad _ (Or.inl rfl)]
    have s3 : ∀ st : RState, st.mode = .objQ → rstep st Tok.qcloseHalf = { st with mode := .obj, obj := { st.obj with quad := st.obj.quad ++ halve st.qacc }, qacc := [] } := by
      intro st h; simp only [rstep, h]
    rw [s3 _ rfl]
    simp only [List.nil_append, halve_double]
    by_cases ho : e.off = 0
    · simp only [ho, if_true, List.foldl_nil, List.foldl_cons]
      simp [rstep, exprLabels, touchAll_append]
    · simp only [ho, if_false, List.foldl_cons, List.foldl_nil]
      simp [rstep, exprLabels, touchAll_append]

/-- what a constraint is read back as: zero linear terms dropped, constant moved to the right-hand side -/
def normCon (c : LCon) : LCon := ⟨c.label, ⟨nz c.lhs.lin, c.lhs.quad, 0⟩, c.sense, c.rhs - c.lhs.off, false⟩

def afterCon (st : RState) (c : LCon) : RState :=
  { st with mode := .cons, vars := touchAll st.vars (exprLabels c.lhs), cons := st.cons ++ [normCon c],
            cur := ⟨nz c.lhs.lin, c.lhs.quad, 0⟩, curLabel := c.label, qacc := [] }

theorem read_con (c : LCon) (st : RState) (hm : st.mode = .cons) (hq : st.qacc = []) :
    (conToks c).foldl rstep st = afterCon st c := by
  unfold conToks
  simp only [List.cons_append, List.nil_append, List.foldl_cons, List.foldl_append, List.append_assoc]
  have s1 : rstep st (Tok.clabel c.label) = { st with mode := .con, cur := ⟨[], [], 0⟩, curLabel := c.label } := by
    simp only [rstep, hm]
  rw [s1, linToks_eq, fold_lin_con _ _ rfl]
  by_cases hqe : c.lhs.quad = []
  · simp only [hqe, List.isEmpty_nil, if_true, List.foldl_nil, List.foldl_cons]
    simp [rstep, afterCon, normCon, exprLabels, hqe, quadLabels, touchAll, hq]
  · have hqe' : c.lhs.quad.isEmpty = false := by cases h : c.lhs.quad <;> simp_all
    simp only [hqe', Bool.false_eq_true, if_false, List.cons_append, List.nil_append, List.foldl_cons, List.foldl_append, List.foldl_nil]
    have s2 : ∀ st : RState, st.mode = .con → rstep st Tok.qopen = { st with mode := .conQ, qacc := [] } := by
      intro st h; simp only [rstep, h]
    rw [s2 _ rfl]
    have hmap : (c.lhs.quad.map fun (u, v, b) => Tok.qterm b u v) = c.lhs.quad.map fun (u, v, b) => Tok.qterm (1 * b) u v := by
      apply List.map_congr_left; intro ⟨u, v, b⟩ _; simp
    rw [hmap, fold_qterm 1 c.lhs.quad _ (Or.inr rfl)]
    have s3 : ∀ st : RState, st.mode = .conQ → rstep st Tok.qclose = { st with mode := .con, cur := { st.cur with quad := st.cur.quad ++ st.qacc }, qacc := [] } := by
      intro st h; simp only [rstep, h]
    rw [s3 _ rfl]
    simp only [List.nil_append, one_mul_map]
    simp [rstep, afterCon, normCon, exprLabels, touchAll_append]

def consPass (st : RState) : List LCon → RState
  | [] => st
  | c :: cs => consPass (afterCon st c) cs

theorem read_cons (cs : List LCon) (st : RState) (hm : st.mode = .cons) (hq : st.qacc = []) :
    (cs.flatMap conToks).foldl rstep st = consPass st cs := by
  induction cs generalizing st with
  | nil => rfl
  | cons c t ih =>
    simp only [List.flatMap_cons, List.foldl_append, consPass]
    rw [read_con c st hm hq, ih _ rfl rfl]

theorem consPass_facts (cs : List LCon) (st : RState) (hm : st.mode = .cons) :
    (consPass st cs).mode = .cons ∧ (consPass st cs).obj = st.obj ∧ (consPass st cs).cons = st.cons ++ cs.map normCon ∧
    (consPass st cs).vars = cs.foldl (fun vs c => touchAll vs (exprLabels c.lhs)) st.vars := by
  induction cs generalizing st with
  | nil => simp [consPass, hm]
  | cons c t ih =>
    obtain ⟨h1, h2, h3, h4⟩ := ih (afterCon st c) rfl
    simp only [consPass, List.map_cons, List.foldl_cons]
    refine ⟨h1, h2, ?_, h4⟩
    rw [h3]; simp [afterCon]

/-- bounds, Binary and General sections -/
def boundPass (vs : List PVar) (vars : List LVar) : List PVar :=
  (vars.filter fun v => v.vt = .integer ∨ v.vt = .real).foldl (fun acc v => updVar acc v.name fun p => { p with lb := v.lb, ub := some v.ub }) vs
def binPass (vs : List PVar) (vars : List LVar) : List PVar :=
  (vars.filter (·.vt = .binary)).foldl (fun acc v => updVar acc v.name fun p => { p with binary := true }) vs
def genPass (vs : List PVar) (vars : List LVar) : List PVar :=
  (vars.filter (·.vt = .integer)).foldl (fun acc v => updVar acc v.name fun p => { p with general := true }) vs

theorem read_bounds (l : List LVar) (st : RState) (hm : st.mode = .bnds) :
    (l.map fun v => Tok.bound v.lb v.name v.ub).foldl rstep st =
      { st with vars := l.foldl (fun acc v => updVar acc v.name fun p => { p with lb := v.lb, ub := some v.ub }) st.vars } := by
  induction l generalizing st with
  | nil => rfl
  | cons v t ih =>
    simp only [List.map_cons, List.foldl_cons]
    have s1 : rstep st (Tok.bound v.lb v.name v.ub) = { st with vars := updVar st.vars v.name fun p => { p with lb := v.lb, ub := some v.ub } } := by
      simp only [rstep, hm]
    rw [s1, ih _ (by simp [hm])]

theorem read_names_bin (l : List LVar) (st : RState) (hm : st.mode = .bin) :
    (l.map fun v => Tok.name v.name).foldl rstep st =
      { st with vars := l.foldl (fun acc v => updVar acc v.name fun p => { p with binary := true }) st.vars } := by
  induction l generalizing st with
  | nil => rfl
  | cons v t ih =>
    simp only [List.map_cons, List.foldl_cons]
    have s1 : rstep st (Tok.name v.name) = { st with vars := updVar st.vars v.name fun p => { p with binary := true } } := by
      simp only [rstep, hm]
    rw [s1, ih _ (by simp [hm])]

theorem read_names_gen (l : List LVar) (st : RState) (hm : st.mode = .gen) :
    (l.map fun v => Tok.name v.name).foldl rstep st =
      { st with vars := l.foldl (fun acc v => updVar acc v.name fun p => { p with general := true }) st.vars } := by
  induction l generalizing st with
  | nil => rfl
  | cons v t ih =>
    simp only [List.map_cons, List.foldl_cons]
    have s1 : rstep st (Tok.name v.name) = { st with vars := updVar st.vars v.name fun p => { p with general := true } } := by
      simp only [rstep, hm]
    rw [s1, ih _ (by simp [hm])]

/-- the variables as the reader collects them: first occurrences in objective and constraints, then
    the Bounds, Binary and General sections -/
def finalVars (m : LCqm) : List PVar :=
  genPass (binPass (boundPass (m.cons.foldl (fun vs c => touchAll vs (exprLabels c.lhs)) (touchAll [] (exprLabels m.obj))) m.vars) m.vars) m.vars

/-- what the whole model is read back as -/
def normCqm (m : LCqm) : LCqm := ⟨(finalVars m).map toLVar, ⟨nz m.obj.lin, m.obj.quad, m.obj.off⟩, m.cons.map normCon⟩

theorem read_tail (vars : List LVar) (st : RState) (hm : st.mode = .cons) :
    ([Tok.nl, Tok.bounds] ++ boundToks vars ++ sectionToks vars ++ [Tok.nl, Tok.end_]).foldl rstep st =
      { st with mode := .done, vars := genPass (binPass (boundPass st.vars vars) vars) vars } := by
  unfold boundToks sectionToks
  simp only [List.cons_append, List.nil_append, List.append_assoc]
  have s2 : rstep st Tok.nl = { st with mode := .preBounds } := by simp only [rstep, hm]
  rw [List.foldl_cons, s2, List.foldl_cons]
  have s3 : ∀ st : RState, st.mode = .preBounds → rstep st Tok.bounds = { st with mode := .bnds } := by
    intro st h; simp only [rstep, h]
  rw [s3 _ rfl, List.foldl_append, read_bounds _ _ rfl, List.foldl_cons]
  have s4 : ∀ st : RState, st.mode = .bnds → rstep st Tok.nl = { st with mode := .preBin } := by
    intro st h; simp only [rstep, h]
  rw [s4 _ rfl, List.foldl_cons]
  have s5 : ∀ st : RState, st.mode = .preBin → rstep st (Tok.section false) = { st with mode := .bin } := by
    intro st h; simp only [rstep, h]
  rw [s5 _ rfl, List.foldl_append, read_names_bin _ _ rfl, List.foldl_cons]
  have s6 : ∀ st : RState, st.mode = .bin → rstep st Tok.nl = { st with mode := .preGen } := by
    intro st h; simp only [rstep, h]
  rw [s6 _ rfl, List.foldl_cons]
  have s7 : ∀ st : RState, st.mode = .preGen → rstep st (Tok.section true) = { st with mode := .gen } := by
    intro st h; simp only [rstep, h]
  rw [s7 _ rfl, List.foldl_append, read_names_gen _ _ rfl, List.foldl_cons]
  have s8 : ∀ st : RState, st.mode = .gen → rstep st Tok.nl = { st with mode := .preEnd } := by
    intro st h; simp only [rstep, h]
  rw [s8 _ rfl, List.foldl_cons]
  have s9 : ∀ st : RState, st.mode = .preEnd → rstep st Tok.end_ = { st with mode := .done } := by
    intro st h; simp only [rstep, h]
  rw [s9 _ rfl]
  simp only [List.foldl_nil, genPass, binPass, boundPass]

/-- **reader ∘ writer**: every token stream the writer emits is accepted and read back as `normCqm` -/
theorem read_dump (m : LCqm) (ts : List Tok) (h : dumpToks m = .ok ts) : readToks ts = some (normCqm m) := by
  unfold dumpToks at h
  split at h; · simp at h
  split at h; · simp at h
  split at h; · simp at h
  simp only [Except.ok.injEq] at h
  subst h
  unfold readToks
  have hshape : objToks m.obj ++ [Tok.blank2, Tok.subjectTo] ++ m.cons.flatMap conToks ++ [Tok.nl, Tok.bounds] ++ boundToks m.vars ++
      sectionToks m.vars ++ [Tok.nl, Tok.end_] =
      objToks m.obj ++ Tok.blank2 :: (Tok.subjectTo :: (m.cons.flatMap conToks ++
        ([Tok.nl, Tok.bounds] ++ boundToks m.vars ++ sectionToks m.vars ++ [Tok.nl, Tok.end_]))) := by
    simp only [List.append_assoc, List.cons_append, List.nil_append]
  rw [hshape, read_obj, List.foldl_cons]
  have s1 : ∀ st : RState, st.mode = .preCons → rstep st Tok.subjectTo = { st with mode := .cons } := by
    intro st h; simp only [rstep, h]
  rw [s1 _ rfl, List.foldl_append, read_cons _ _ rfl rfl]
  obtain ⟨c1, c2, c3, c4⟩ := consPass_facts m.cons
    { mode := .cons, vars := touchAll [] (exprLabels m.obj), obj := ⟨nz m.obj.lin, m.obj.quad, m.obj.off⟩ } rfl
  rw [read_tail m.vars _ c1]
  simp only [if_true, normCqm, finalVars, c2, c3, c4, List.nil_append]

end Lp
