import DimodProofs.CqmLiftSubst

/-! The two remaining view mutators on label-keyed polynomials: `view.remove_variable(v)`
    (`Expression::remove_variable`: the variable stays in the model) and `view.remove_interaction(u, v)`. -/

namespace CqmP
open Expr Cqm

/-! ### `Expression::remove_variable` -/

theorem removeVar_vars {e : Expr} (hwf : ExprWF e) (g : Nat) : (e.removeVar g).vars = e.vars.filter (· ≠ g) := by
  unfold Expr.removeVar
  cases h : e.idx.get? g with
  | none => exact (filter_ne_of_not_mem (not_mem_of_idx_none hwf h)).symm
  | some i => exact eraseIdx_eq_filter hwf.nodup ((hwf.idx g i).mp h)

theorem removeVar_idx_get {e : Expr} (hwf : ExprWF e) (g k : Nat) :
    (e.removeVar g).idx.get? k = if k = g then none else (e.idx.get? k).map (localShift e g) := by
  have hinv := (removeVar_wf hwf g).idx
  have hvars := removeVar_vars hwf g
  by_cases hkg : k = g
  · subst hkg
    rw [if_pos rfl]
    cases hres : (e.removeVar k).idx.get? k with
    | none => rfl
    | some j =>
      exfalso
      have := mem_of_getElem? ((hinv _ _).mp hres)
      rw [hvars, List.mem_filter] at this
      simp at this
  · rw [if_neg hkg]
    cases hkj : e.idx.get? k with
    | none =>
      simp only [Option.map_none]
      cases hres : (e.removeVar g).idx.get? k with
      | none => rfl
      | some j =>
        exfalso
        have := mem_of_getElem? ((hinv _ _).mp hres)
        rw [hvars, List.mem_filter] at this
        exact not_mem_of_idx_none hwf hkj this.1
    | some j =>
      simp only [Option.map_some]
      apply (hinv _ _).mpr
      have hj := (hwf.idx k j).mp hkj
      unfold localShift Expr.removeVar
      cases h : e.idx.get? g with
      | none => simp only []; exact hj
      | some i =>
        simp only []
        have hgi := (hwf.idx g i).mp h
        have hji : j ≠ i := by
          intro hji; subst hji; rw [hj] at hgi; exact hkg (Option.some.inj hgi)
        rw [getElem?_eraseIdx_shift _ hji]; exact hj

theorem removeVar_qb (e : Expr) (g : Nat) :
    (e.removeVar g).qb = match e.idx.get? g with
      | some i => e.qb.removeVar i
      | none => e.qb := by
  unfold Expr.removeVar
  cases e.idx.get? g <;> rfl

theorem removeVar_linear {e : Expr} (hwf : ExprWF e) (g k : Nat) :
    (e.removeVar g).linear k = if k = g then 0 else e.linear k := by
  unfold Expr.linear
  rw [removeVar_idx_get hwf g k, removeVar_qb]
  by_cases hkg : k = g
  · rw [if_pos hkg, if_pos hkg]
  · rw [if_neg hkg, if_neg hkg]
    cases hkj : e.idx.get? k with
    | none => rfl
    | some j =>
      simp only [Option.map_some]
      unfold localShift
      cases h : e.idx.get? g with
      | none => rfl
      | some i =>
        simp only [QB.removeVar]
        have hji : j ≠ i := by
          intro hji; subst hji
          have h1 := (hwf.idx k j).mp hkj
          have h2 := (hwf.idx g j).mp h
          rw [h1] at h2; exact hkg (Option.some.inj h2)
        exact getD_eraseIdx_shift _ hji 0

theorem removeVar_quadratic {e : Expr} (hwf : ExprWF e) (g x y : Nat) :
    (e.removeVar g).quadratic x y = if x = g ∨ y = g then 0 else e.quadratic x y := by
  unfold Expr.quadratic
  rw [removeVar_idx_get hwf g x, removeVar_idx_get hwf g y, removeVar_qb]
  by_cases hx : x = g
  · rw [if_pos hx, if_pos (Or.inl hx)]
  · rw [if_neg hx]
    by_cases hy : y = g
    · rw [if_pos hy, if_pos (Or.inr hy)]
      cases (e.idx.get? x).map (localShift e g) <;> rfl
    · rw [if_neg hy, if_neg (fun h => h.elim hx hy)]
      cases hxj : e.idx.get? x with
      | none => rfl
      | some j =>
        cases hyk : e.idx.get? y with
        | none => rfl
        | some k =>
          simp only [Option.map_some]
          unfold localShift
          cases hv : e.idx.get? g with
          | none => rfl
          | some i =>
            simp only [QB.removeVar]
            have ne_of : ∀ {a b : Nat}, a ≠ g → e.idx.get? a = some b → b ≠ i := by
              intro a b ha hab hbi; subst hbi
              have h1 := (hwf.idx a b).mp hab
              have h2 := (hwf.idx g b).mp hv
              rw [h1] at h2; exact ha (Option.some.inj h2)
            have hji := ne_of hx hxj
            have hki := ne_of hy hyk
            have : ((Bqm.eraseIdx e.qb.adj i).map (QB.shiftNbh i)).getD (shift i j) []
                = QB.shiftNbh i (e.qb.adj.getD j []) := by
              simp only [List.getD_eq_getElem?_getD, List.getElem?_map, getElem?_eraseIdx_shift _ hji]
              cases e.qb.adj[j]? <;> rfl
            rw [this]
            exact nbhCoef_shiftNbh i _ hki

/-- `view.remove_variable(lg)` on the polynomial: the variable's terms go, the other terms stay -/
theorem absExpr_removeVar {L : List Label} (hnd : L.Nodup) {e : Expr} (hwf : ExprWF e) (hin : ExprIn L.length e) {g : Nat} {lg : Label}
    (hg : L[g]? = some lg) : absExpr L (e.removeVar g) = (absExpr L e).drop lg := by
  have hgl : g < L.length := lt_of_getElem? hg
  unfold absExpr LPoly.drop
  simp only [LPoly.mk.injEq]
  refine ⟨?_, ?_, ?_, ?_⟩
  · rw [removeVar_vars hwf g, List.filter_map]
    congr 1
    apply List.filter_congr
    intro u hu
    have hul := hin u hu
    have hlg := getD_of_get hg
    by_cases hug : u = g
    · subst hug; simp only [ne_eq, not_true_eq_false, decide_false, Function.comp, hlg]
    · have : L.getD u (.int 0) ≠ lg := by
        intro h; rw [← hlg] at h; exact hug (getD_label_inj hnd hul hgl h)
      simp only [ne_eq, hug, not_false_eq_true, decide_true, Function.comp, this]
  · funext x
    cases hk : findIdx x L 0 with
    | none =>
      have : x ≠ lg := by intro h; subst h; rw [findIdx_of_get hnd hg] at hk; cases hk
      simp [this]
    | some k =>
      simp only []
      rw [removeVar_linear hwf g k]
      have e1 := idx_eq_iff_label hnd hg hk
      by_cases hkg : k = g
      · rw [if_pos hkg, if_pos (e1.mp hkg)]
      · rw [if_neg hkg, if_neg (fun h => hkg (e1.mpr h))]
  · funext x y
    cases hi : findIdx x L 0 with
    | none =>
      have : x ≠ lg := by intro h; subst h; rw [findIdx_of_get hnd hg] at hi; cases hi
      split_ifs <;> rfl
    | some i =>
      cases hj : findIdx y L 0 with
      | none => split_ifs <;> rfl
      | some j =>
        simp only []
        rw [removeVar_quadratic hwf g i j]
        have e1 := idx_eq_iff_label hnd hg hi
        have e2 := idx_eq_iff_label hnd hg hj
        by_cases hc : i = g ∨ j = g
        · rw [if_pos hc, if_pos (show x = lg ∨ y = lg from hc.elim (fun a => Or.inl (e1.mp a)) (fun a => Or.inr (e2.mp a)))]
        · rw [if_neg hc, if_neg (show ¬ (x = lg ∨ y = lg) from
            fun h => hc (h.elim (fun a => Or.inl (e1.mpr a)) (fun a => Or.inr (e2.mpr a))))]
  · rw [removeVar_qb]
    cases e.idx.get? g <;> rfl

/-- `view.remove_variable(v)` on the model -/
theorem refines_viewRemoveVariable {m m' : Cqm} (hwf : CqmWF m) (hl : CqmLabelsOK m) (w : Option Label) (v : Label)
    (h : m.step (.viewRemoveVariable w v) = (m', none)) : absCqm m' = (absCqm m).modView w (·.drop v) := by
  have h' : m.viewRemoveVariable w v = (m', none) := h
  unfold Cqm.viewRemoveVariable at h'
  split_ifs at h'
  · cases (Prod.mk.inj h').2
  · cases hv : m.idx? v with
    | none => rw [hv] at h'; cases (Prod.mk.inj h').2
    | some g =>
      rw [hv] at h'
      simp only [] at h'
      refine absCqm_modExpr hl.clabels_nodup w _ _ ?_ (ofOpt_some h')
      intro e he
      exact absExpr_removeVar hl.labels_nodup (exprs_wf hwf he).1 (exprs_wf hwf he).2 (idx?_get hv)


/-! ### `remove_interaction` -/

def LPoly.removeInteraction (p : LPoly) (lu lv : Label) : LPoly :=
  { p with quad := fun x y => if (x = lu ∧ y = lv) ∨ (x = lv ∧ y = lu) then 0 else p.quad x y }

theorem nbhCoef_nbhDrop (nb : List (Nat × Rat)) (v k : Nat) :
    QB.nbhCoef (QB.nbhDrop nb v) k = if k = v then 0 else QB.nbhCoef nb k := by
  unfold QB.nbhDrop
  induction nb with
  | nil => simp [QB.nbhCoef]
  | cons p t ih =>
    obtain ⟨a, x⟩ := p
    by_cases hav : a = v
    · subst hav
      simp only [List.filter_cons, ne_eq, not_true_eq_false, decide_false, Bool.false_eq_true, if_false]
      rw [ih, QB.nbhCoef]
      by_cases hk : k = a
      · rw [if_pos hk, if_pos hk]
      · rw [if_neg hk, if_neg hk, if_neg (fun h => hk h.symm)]
    · simp only [List.filter_cons, ne_eq, hav, not_false_eq_true, decide_true, if_true]
      rw [QB.nbhCoef, QB.nbhCoef, ih]
      by_cases hak : a = k
      · rw [if_pos hak, if_pos hak, if_neg (fun h => hav (hak.trans h))]
      · rw [if_neg hak, if_neg hak]

theorem nbhHas_iff (nb : List (Nat × Rat)) (v : Nat) : QB.nbhHas nb v = true ↔ v ∈ nb.map Prod.fst := by
  unfold QB.nbhHas
  rw [List.any_eq_true]
  simp only [List.mem_map, decide_eq_true_eq]

theorem removeInteraction_quadratic {e : Expr} (h : ExprKS e) (gu gv x y : Nat) :
    (e.removeInteraction gu gv).quadratic x y
      = if ((x = gu ∧ y = gv) ∨ (x = gv ∧ y = gu)) ∧ e.hasVar gu = true ∧ e.hasVar gv = true then 0 else e.quadratic x y := by
  unfold Expr.removeInteraction Expr.hasVar
  cases hu : e.idx.get? gu with
  | none => simp
  | some i =>
    cases hv : e.idx.get? gv with
    | none => simp
    | some j =>
      simp only [Option.isSome_some, and_self, and_true]
      have hil : i < e.qb.adj.length := by rw [h.1.adj_len]; exact lt_of_getElem? ((h.1.idx gu i).mp hu)
      have hjl : j < e.qb.adj.length := by rw [h.1.adj_len]; exact lt_of_getElem? ((h.1.idx gv j).mp hv)
      have key : ∀ {a b : Nat} {g : Nat}, e.idx.get? g = some b → e.idx.get? a = some b → a = g := by
        intro a b g hg ha
        have a1 := (h.1.idx a b).mp ha
        have a2 := (h.1.idx g b).mp hg
        rw [a1] at a2; exact Option.some.inj a2
      cases hx : e.idx.get? x with
      | none =>
        have : ¬ ((x = gu ∧ y = gv) ∨ (x = gv ∧ y = gu)) := by
          intro h'; rcases h' with ⟨a, _⟩ | ⟨a, _⟩
          · rw [a, hu] at hx; cases hx
          · rw [a, hv] at hx; cases hx
        rw [if_neg this, quadratic_of_none_left y hx]
        exact quadratic_of_none_left (e := { e with qb := _ }) y hx
      | some ix =>
        cases hy : e.idx.get? y with
        | none =>
          have : ¬ ((x = gu ∧ y = gv) ∨ (x = gv ∧ y = gu)) := by
            intro h'; rcases h' with ⟨_, a⟩ | ⟨_, a⟩
            · rw [a, hv] at hy; cases hy
            · rw [a, hu] at hy; cases hy
          rw [if_neg this, quadratic_of_none_right x hy]
          exact quadratic_of_none_right (e := { e with qb := _ }) x hy
        | some iy =>
          rw [quadratic_of_idx hx hy]
          rw [show ({ e with qb := (e.qb.removeInteraction i j).1 } : Expr).quadratic x y
              = QB.nbhCoef ((e.qb.removeInteraction i j).1.adj.getD ix []) iy from
            quadratic_of_idx (e := { e with qb := _ }) hx hy]
          have cx_u : ix = i ↔ x = gu := ⟨fun a => key hu (a ▸ hx), fun a => by subst a; rw [hu] at hx; exact (Option.some.inj hx).symm⟩
          have cx_v : ix = j ↔ x = gv := ⟨fun a => key hv (a ▸ hx), fun a => by subst a; rw [hv] at hx; exact (Option.some.inj hx).symm⟩
          have cy_u : iy = i ↔ y = gu := ⟨fun a => key hu (a ▸ hy), fun a => by subst a; rw [hu] at hy; exact (Option.some.inj hy).symm⟩
          have cy_v : iy = j ↔ y = gv := ⟨fun a => key hv (a ▸ hy), fun a => by subst a; rw [hv] at hy; exact (Option.some.inj hy).symm⟩
          unfold QB.removeInteraction
          by_cases hhas : QB.nbhHas (e.qb.adj.getD i []) j = true
          · rw [if_pos hhas]
            simp only []
            rw [getD_modifyAt_gen, length_modifyAt]
            by_cases hxj : ix = j
            · rw [if_pos ⟨hxj, hjl⟩, nbhCoef_nbhDrop]
              have hkeep : (Bqm.modifyAt e.qb.adj i (fun nb => QB.nbhDrop nb j)).getD j []
                  = if j = i then QB.nbhDrop (e.qb.adj.getD i []) j else e.qb.adj.getD j [] := by
                rw [getD_modifyAt_gen]
                by_cases hji : j = i
                · rw [if_pos ⟨hji, hil⟩, if_pos hji]
                · rw [if_neg (fun a => hji a.1), if_neg hji]
              rw [hkeep]
              by_cases hyi : iy = i
              · rw [if_pos hyi, if_pos (show (x = gu ∧ y = gv) ∨ (x = gv ∧ y = gu) from Or.inr ⟨cx_v.mp hxj, cy_u.mp hyi⟩)]
              · rw [if_neg hyi]
                have hneg : ¬ ((x = gu ∧ y = gv) ∨ (x = gv ∧ y = gu)) := by
                  intro h'; rcases h' with ⟨a, b⟩ | ⟨_, b⟩
                  · -- x = gu and x = gv: then i = j, and y = gv means iy = j = i
                    have : i = j := by rw [← cx_u.mpr a, hxj]
                    exact hyi (by rw [this]; exact cy_v.mpr b)
                  · exact hyi (cy_u.mpr b)
                rw [if_neg hneg]
                by_cases hji : j = i
                · rw [if_pos hji, nbhCoef_nbhDrop, hxj, hji]
                  have : iy ≠ j := by rw [hji]; exact hyi
                  rw [if_neg (by rw [← hji]; exact this)]
                · rw [if_neg hji, hxj]
            · rw [if_neg (fun a => hxj a.1), getD_modifyAt_gen]
              by_cases hxi : ix = i
              · rw [if_pos ⟨hxi, hil⟩, nbhCoef_nbhDrop]
                by_cases hyj : iy = j
                · rw [if_pos hyj, if_pos (show (x = gu ∧ y = gv) ∨ (x = gv ∧ y = gu) from Or.inl ⟨cx_u.mp hxi, cy_v.mp hyj⟩)]
                · rw [if_neg hyj]
                  have hneg : ¬ ((x = gu ∧ y = gv) ∨ (x = gv ∧ y = gu)) := by
                    intro h'; rcases h' with ⟨_, b⟩ | ⟨a, _⟩
                    · exact hyj (cy_v.mpr b)
                    · exact hxj (cx_v.mpr a)
                  rw [if_neg hneg, hxi]
              · rw [if_neg (fun a => hxi a.1)]
                have hneg : ¬ ((x = gu ∧ y = gv) ∨ (x = gv ∧ y = gu)) := by
                  intro h'; rcases h' with ⟨a, _⟩ | ⟨a, _⟩
                  · exact hxi (cx_u.mpr a)
                  · exact hxj (cx_v.mpr a)
                rw [if_neg hneg]
          · rw [if_neg hhas]
            simp only []
            -- no such interaction: both entries are already 0
            have hnj : j ∉ keyAt e.qb.adj i := fun a => hhas ((nbhHas_iff _ _).mpr a)
            have hni : i ∉ keyAt e.qb.adj j := fun a => hnj ((h.2 i j).mpr a)
            by_cases hc : (x = gu ∧ y = gv) ∨ (x = gv ∧ y = gu)
            · rw [if_pos hc]
              rcases hc with ⟨a, b⟩ | ⟨a, b⟩
              · rw [cx_u.mpr a, cy_v.mpr b]; exact nbhCoef_zero_of_not_key hnj
              · rw [cx_v.mpr a, cy_u.mpr b]; exact nbhCoef_zero_of_not_key hni
            · rw [if_neg hc]


theorem removeInteraction_rest (e : Expr) (gu gv : Nat) :
    (e.removeInteraction gu gv).vars = e.vars ∧ (e.removeInteraction gu gv).idx = e.idx
    ∧ (e.removeInteraction gu gv).qb.lin = e.qb.lin ∧ (e.removeInteraction gu gv).qb.off = e.qb.off := by
  unfold Expr.removeInteraction
  cases e.idx.get? gu with
  | none => exact ⟨rfl, rfl, rfl, rfl⟩
  | some i =>
    cases e.idx.get? gv with
    | none => exact ⟨rfl, rfl, rfl, rfl⟩
    | some j =>
      have hq : ∀ (q : QB) (a b : Nat), (q.removeInteraction a b).1.lin = q.lin ∧ (q.removeInteraction a b).1.off = q.off := by
        intro q a b
        unfold QB.removeInteraction
        by_cases hc : QB.nbhHas (q.adj.getD a []) b = true
        · rw [if_pos hc]; exact ⟨rfl, rfl⟩
        · rw [if_neg hc]; exact ⟨rfl, rfl⟩
      exact ⟨rfl, rfl, (hq e.qb i j).1, (hq e.qb i j).2⟩

/-- `view.remove_interaction(lu, lv)` on the polynomial: that pair's bias becomes 0 (it is no interaction any more),
    nothing else changes -/
theorem absExpr_removeInteraction {L : List Label} (hnd : L.Nodup) {e : Expr} (h : ExprKS e) {gu gv : Nat} {lu lv : Label}
    (hgu : L[gu]? = some lu) (hgv : L[gv]? = some lv) :
    absExpr L (e.removeInteraction gu gv) = (absExpr L e).removeInteraction lu lv := by
  obtain ⟨r1, r2, r3, r4⟩ := removeInteraction_rest e gu gv
  unfold LPoly.removeInteraction absExpr
  simp only [LPoly.mk.injEq]
  refine ⟨by rw [r1], ?_, ?_, r4⟩
  · funext x
    cases findIdx x L 0 with
    | none => rfl
    | some k => simp only []; unfold Expr.linear; rw [r2, r3]
  · funext x y
    cases hi : findIdx x L 0 with
    | none =>
      have h1 : x ≠ lu := by intro a; subst a; rw [findIdx_of_get hnd hgu] at hi; cases hi
      have h2 : x ≠ lv := by intro a; subst a; rw [findIdx_of_get hnd hgv] at hi; cases hi
      simp [h1, h2]
    | some i =>
      cases hj : findIdx y L 0 with
      | none =>
        have h1 : y ≠ lu := by intro a; subst a; rw [findIdx_of_get hnd hgu] at hj; cases hj
        have h2 : y ≠ lv := by intro a; subst a; rw [findIdx_of_get hnd hgv] at hj; cases hj
        simp [h1, h2]
      | some j =>
        simp only []
        rw [removeInteraction_quadratic h gu gv i j]
        have e1 := idx_eq_iff_label hnd hgu hi
        have e2 := idx_eq_iff_label hnd hgv hj
        have e3 := idx_eq_iff_label hnd hgv hi
        have e4 := idx_eq_iff_label hnd hgu hj
        have iffc : ((i = gu ∧ j = gv) ∨ (i = gv ∧ j = gu)) ↔ ((x = lu ∧ y = lv) ∨ (x = lv ∧ y = lu)) := by
          constructor
          · intro a; rcases a with ⟨a, b⟩ | ⟨a, b⟩
            · exact Or.inl ⟨e1.mp a, e2.mp b⟩
            · exact Or.inr ⟨e3.mp a, e4.mp b⟩
          · intro a; rcases a with ⟨a, b⟩ | ⟨a, b⟩
            · exact Or.inl ⟨e1.mpr a, e2.mpr b⟩
            · exact Or.inr ⟨e3.mpr a, e4.mpr b⟩
        by_cases hc : (x = lu ∧ y = lv) ∨ (x = lv ∧ y = lu)
        · rw [if_pos hc]
          have hc' := iffc.mpr hc
          by_cases hh : e.hasVar gu = true ∧ e.hasVar gv = true
          · rw [if_pos ⟨hc', hh⟩]
          · rw [if_neg (fun a => hh a.2)]
            -- one of the two variables is not in the expression: the bias is 0 anyway
            have none_of : ∀ g, ¬ e.hasVar g = true → e.idx.get? g = none := by
              intro g hg
              unfold Expr.hasVar at hg
              cases hq : e.idx.get? g with
              | none => rfl
              | some k => rw [hq] at hg; exact absurd rfl hg
            by_cases hhu : e.hasVar gu = true
            · have hv0 := none_of gv (fun a => hh ⟨hhu, a⟩)
              rcases hc' with ⟨a, b⟩ | ⟨a, b⟩
              · rw [b]; exact quadratic_of_none_right i hv0
              · rw [a]; exact quadratic_of_none_left j hv0
            · have hu0 := none_of gu hhu
              rcases hc' with ⟨a, b⟩ | ⟨a, b⟩
              · rw [a]; exact quadratic_of_none_left j hu0
              · rw [b]; exact quadratic_of_none_right i hu0
        · rw [if_neg hc, if_neg (fun a => hc (iffc.mp a.1))]

/-- `view.remove_interaction(u, v)` on the model -/
theorem refines_viewRemoveInteraction {m m' : Cqm} (hl : CqmLabelsOK m) (hk : AllExprs ExprKS m) (w : Option Label) (u v : Label)
    (h : m.step (.viewRemoveInteraction w u v) = (m', none)) : absCqm m' = (absCqm m).modView w (·.removeInteraction u v) := by
  have h' : m.viewRemoveInteraction w u v = (m', none) := h
  unfold Cqm.viewRemoveInteraction at h'
  split_ifs at h'
  · cases (Prod.mk.inj h').2
  · cases hu : m.idx? u with
    | none => rw [hu] at h'; simp only [] at h'; cases (Prod.mk.inj h').2
    | some gu =>
      cases hv : m.idx? v with
      | none => rw [hu, hv] at h'; simp only [] at h'; cases (Prod.mk.inj h').2
      | some gv =>
        rw [hu, hv] at h'
        simp only [] at h'
        refine absCqm_modExpr hl.clabels_nodup w _ _ ?_ (ofOpt_some h')
        intro e he
        exact absExpr_removeInteraction hl.labels_nodup (exprs_ks hk he) (idx?_get hu) (idx?_get hv)

end CqmP
