import DimodProofs.BqmFix

/-! `clear`, `relabel_variables`, `relabel_variables_as_integers` refine the corresponding steps on the
    label-keyed polynomial: relabelling = positional renaming of the variable list.  Core Lean only. -/

namespace Bqm

/-! ### clear -/

def LPoly.clear (p : LPoly) : LPoly := { vars := [], lin := fun _ => 0, quad := fun _ _ => none, off := 0, vt := p.vt }

theorem clear_refines (m : Bqm) : absL m.clear = (absL m).clear ∧ Inv m.clear :=
  ⟨rfl, ⟨⟨rfl, AdjWF.nil _⟩, List.nodup_nil⟩⟩

/-! ### positional renaming -/

/-- the old label of the variable whose new label is `y` (first position of `y` in `news`) -/
def zipLookup : List Label → List Label → Label → Option Label
  | n :: ns, o :: os, y => if n = y then some o else zipLookup ns os y
  | _, _, _ => none

/-- the polynomial with the variable at position `i` renamed to `news[i]` -/
def LPoly.relabelTo (p : LPoly) (news : List Label) : LPoly :=
  { p with vars := news,
           lin := fun y => match zipLookup news p.vars y with | some x => p.lin x | none => 0,
           quad := fun a b => match zipLookup news p.vars a, zipLookup news p.vars b with
             | some x, some z => p.quad x z
             | _, _ => none }

theorem zipLookup_eq (news olds : List Label) (y : Label) (k : Nat) (hlen : news.length = olds.length) :
    zipLookup news olds y = (indexOfGo y news k).bind (fun i => olds[i - k]?) := by
  induction news generalizing olds k with
  | nil => cases olds <;> simp [zipLookup, indexOfGo]
  | cons n ns ih =>
    cases olds with
    | nil => simp at hlen
    | cons o os =>
      simp only [zipLookup, indexOfGo]
      by_cases hn : n = y
      · simp [hn]
      · simp only [hn, if_false]
        rw [ih os (k + 1) (by simpa using hlen)]
        cases hi : indexOfGo y ns (k + 1) with
        | none => rfl
        | some i =>
          have := indexOfGo_ge y ns (k + 1) i hi
          simp only [Option.bind_some]
          have e : i - k = (i - (k + 1)) + 1 := by omega
          rw [e]; simp

theorem relabelTo_refines {m : Bqm} (i : Inv m) (news : List Label) (hlen : news.length = m.labels.length)
    (hnd : news.Nodup) : absL { m with labels := news } = (absL m).relabelTo news ∧ Inv { m with labels := news } := by
  refine ⟨?_, ⟨⟨by show news.length = m.lin.length; rw [hlen, i.wf.labels_len], i.wf.adj⟩, hnd⟩⟩
  have key : ∀ y, zipLookup news m.labels y = (indexOfGo y news 0).bind (fun j => m.labels[j]?) := by
    intro y; have := zipLookup_eq news m.labels y 0 hlen; simpa using this
  have look : ∀ j x, m.labels[j]? = some x → m.indexOf? x = some j := fun j x h => indexOf?_of_get i.nodup h
  have inr : ∀ y j, indexOfGo y news 0 = some j → ∃ x, m.labels[j]? = some x := by
    intro y j hj
    have := indexOfGo_some y news 0 j hj
    have hlt : j < m.labels.length := by omega
    exact ⟨m.labels[j], List.getElem?_eq_getElem hlt⟩
  apply LPoly.ext'
  · rfl
  · intro y
    show (match indexOfGo y news 0 with | some j => m.lin.getD j 0 | none => 0) =
      match zipLookup news m.labels y with | some x => m.linL x | none => 0
    rw [key]
    cases hj : indexOfGo y news 0 with
    | none => rfl
    | some j =>
      obtain ⟨x, hx⟩ := inr y j hj
      simp only [Option.bind_some, hx]
      unfold linL; rw [look j x hx]
  · intro a b
    show (match indexOfGo a news 0, indexOfGo b news 0 with
          | some p, some q => coefAt m.adj p q | _, _ => none) =
      match zipLookup news m.labels a, zipLookup news m.labels b with
      | some x, some z => m.quadL x z | _, _ => none
    rw [key, key]
    cases ha : indexOfGo a news 0 with
    | none => rfl
    | some p =>
      obtain ⟨x, hx⟩ := inr a p ha
      cases hb : indexOfGo b news 0 with
      | none => simp only [Option.bind_some, hx, Option.bind_none]
      | some q =>
        obtain ⟨z, hz⟩ := inr b q hb
        simp only [Option.bind_some, hx, hz]
        unfold quadL; rw [look p x hx, look q z hz]
  · rfl
  · rfl

/-! ### `Variables._relabel` keeps a duplicate-free list duplicate-free -/

theorem lookup_mem {d : List (Label × Label)} {k v : Label} (h : LSpec.lookup d k = some v) : (k, v) ∈ d := by
  induction d with
  | nil => cases h
  | cons p t ih =>
    obtain ⟨a, b⟩ := p
    unfold LSpec.lookup at h
    by_cases hak : a = k
    · simp only [hak, if_true, Option.some.injEq] at h; subst h; subst hak; simp
    · simp only [hak, if_false] at h; exact List.mem_cons_of_mem _ (ih h)

theorem lookup_none {d : List (Label × Label)} {k : Label} (h : LSpec.lookup d k = none) : VState.dictHas d k = false := by
  induction d with
  | nil => rfl
  | cons p t ih =>
    obtain ⟨a, b⟩ := p
    unfold LSpec.lookup at h
    by_cases hak : a = k
    · simp [hak] at h
    · simp only [hak, if_false] at h
      unfold VState.dictHas
      simp only [List.any_cons, hak, decide_false, Bool.false_or]
      exact ih h

theorem snd_inj_of_nodup {d : List (Label × Label)} (hnd : (d.map (·.2)).Nodup) {x y a : Label}
    (hx : (x, a) ∈ d) (hy : (y, a) ∈ d) : x = y := by
  induction d with
  | nil => cases hx
  | cons p t ih =>
    rw [List.map_cons, List.nodup_cons] at hnd
    rcases List.mem_cons.mp hx with h1 | h1 <;> rcases List.mem_cons.mp hy with h2 | h2
    · rw [← h2] at h1; exact (Prod.mk.inj h1).1
    · exfalso; apply hnd.1; rw [← h1]; exact List.mem_map.mpr ⟨(y, a), h2, rfl⟩
    · exfalso; apply hnd.1; rw [← h2]; exact List.mem_map.mpr ⟨(x, a), h1, rfl⟩
    · exact ih hnd.2 h1 h2

theorem nodup_map_on {α β} (f : α → β) (l : List α) (hn : l.Nodup) (hinj : ∀ x ∈ l, ∀ y ∈ l, f x = f y → x = y) :
    (l.map f).Nodup := by
  induction l with
  | nil => simp
  | cons a t ih =>
    have hat := (List.nodup_cons.mp hn).1
    have hnt := (List.nodup_cons.mp hn).2
    rw [List.map_cons, List.nodup_cons]
    refine ⟨?_, ih hnt (fun x hx y hy => hinj x (List.mem_cons_of_mem _ hx) y (List.mem_cons_of_mem _ hy))⟩
    intro hm
    obtain ⟨b, hb, hfb⟩ := List.mem_map.mp hm
    have := hinj b (List.mem_cons_of_mem _ hb) a (by simp) hfb
    subst this; exact hat hb

theorem lspec_relabel_nodup (l : List Label) (mp : List (Label × Label)) (hnd : l.Nodup) :
    (LSpec.step l (.relabel mp)).1.Nodup := by
  show (if LSpec.relabelOk mp l then (LSpec.subst (LSpec.dictOf mp) l, true) else (l, false)).1.Nodup
  by_cases hok : LSpec.relabelOk mp l = true
  · rw [if_pos hok]
    unfold LSpec.relabelOk at hok
    simp only [Bool.and_eq_true, decide_eq_true_eq, List.all_eq_true] at hok
    obtain ⟨hnews, hall⟩ := hok
    unfold LSpec.subst
    apply nodup_map_on _ _ hnd
    intro x hx y hy hxy
    cases hlx : LSpec.lookup (LSpec.dictOf mp) x with
    | some a =>
      cases hly : LSpec.lookup (LSpec.dictOf mp) y with
      | some b =>
        rw [hlx, hly] at hxy
        simp only [Option.getD_some] at hxy
        subst hxy
        exact snd_inj_of_nodup hnews (lookup_mem hlx) (lookup_mem hly)
      | none =>
        rw [hlx, hly] at hxy
        simp only [Option.getD_some, Option.getD_none] at hxy
        exfalso
        have := hall (x, a) (lookup_mem hlx)
        simp [hxy, hy, lookup_none hly] at this
    | none =>
      cases hly : LSpec.lookup (LSpec.dictOf mp) y with
      | some b =>
        rw [hlx, hly] at hxy
        simp only [Option.getD_some, Option.getD_none] at hxy
        exfalso
        have := hall (y, b) (lookup_mem hly)
        simp [← hxy, hx, lookup_none hlx] at this
      | none =>
        rw [hlx, hly] at hxy
        simpa using hxy
  · have : LSpec.relabelOk mp l = false := by simpa using hok
    rw [this]; exact hnd

/-- `relabel_variables(mapping)`: accepted exactly when `Variables._relabel` accepts; then the polynomial is the
    positional renaming to the substituted label list; otherwise nothing changes -/
theorem relabel_refines {m : Bqm} (i : Inv m) (mp : List (Label × Label)) :
    absL (m.relabel mp).1 =
      (if (LSpec.step m.labels (.relabel mp)).2 then (absL m).relabelTo (LSpec.step m.labels (.relabel mp)).1 else absL m) ∧
    ((m.relabel mp).2 = none ↔ (LSpec.step m.labels (.relabel mp)).2 = true) ∧ Inv (m.relabel mp).1 := by
  have hl := lspec_relabel_length m.labels mp
  have hn := lspec_relabel_nodup m.labels mp i.nodup
  unfold Bqm.relabel
  cases hs : LSpec.step m.labels (.relabel mp) with
  | mk l ok =>
    rw [hs] at hl hn
    cases ok with
    | true =>
      have r := relabelTo_refines i l hl hn
      exact ⟨r.1, by simp, r.2⟩
    | false => exact ⟨rfl, by simp, i⟩

theorem relabelInts_refines {m : Bqm} (i : Inv m) :
    absL m.relabelInts = (absL m).relabelTo ((List.range m.labels.length).map fun (k : Nat) => Label.int (k : Int)) ∧
    Inv m.relabelInts := by
  apply relabelTo_refines i _ (by simp)
  apply nodup_map_on _ _ List.nodup_range
  intro x _ y _ h
  injection h with h; omega

end Bqm
