import DimodProofs.AnnealDelta

/-! C07: `greedy_coloring` as modelled (`Enum.greedy`, `Enum.colorClasses`) never gets stuck, gives every variable
    exactly one colour, and never gives two adjacent variables the same colour. -/

namespace Enum

/-- the colour classes as a flat list of (variable, colour) -/
def colouring (cs : List (Nat × List Label)) : List (Label × Nat) := cs.flatMap fun c => c.2.map fun v => (v, c.1)

/-! ### membership in `dedupL` / `nbrs` -/

theorem mem_dedup_fold (x : Label) (l : List Label) : ∀ acc : List Label,
    x ∈ l.foldl (fun acc x => if acc.contains x then acc else acc ++ [x]) acc ↔ x ∈ acc ∨ x ∈ l := by
  induction l with
  | nil => intro acc; simp
  | cons y t ih =>
    intro acc
    simp only [List.foldl_cons]
    rw [ih]
    by_cases hc : acc.contains y = true
    · rw [if_pos hc]
      have hy : y ∈ acc := by simpa using hc
      simp only [List.mem_cons]
      constructor
      · rintro (h | h)
        · exact Or.inl h
        · exact Or.inr (Or.inr h)
      · rintro (h | h | h)
        · exact Or.inl h
        · exact Or.inl (h ▸ hy)
        · exact Or.inr h
    · rw [if_neg hc]
      simp only [List.mem_append, List.mem_cons, List.not_mem_nil, or_false]
      constructor
      · rintro ((h | h) | h)
        · exact Or.inl h
        · exact Or.inr (Or.inl h)
        · exact Or.inr (Or.inr h)
      · rintro (h | h | h)
        · exact Or.inl (Or.inl h)
        · exact Or.inl (Or.inr h)
        · exact Or.inr h

theorem mem_dedupL (x : Label) (l : List Label) : x ∈ dedupL l ↔ x ∈ l := by
  unfold dedupL
  rw [mem_dedup_fold]
  simp

theorem mem_nbrs (J : List (Label × Label × Rat)) (v w : Label) :
    w ∈ nbrs J v ↔ ∃ t ∈ J, (t.1 = v ∧ w = t.2.1) ∨ (t.2.1 = v ∧ w = t.1) := by
  rw [nbrs_eq, mem_dedupL, mem_partners]

/-- adjacency is symmetric -/
theorem nbrs_symm (J : List (Label × Label × Rat)) (v w : Label) : w ∈ nbrs J v ↔ v ∈ nbrs J w := by
  rw [mem_nbrs, mem_nbrs]
  constructor
  · rintro ⟨t, ht, (⟨a, b⟩ | ⟨a, b⟩)⟩
    · exact ⟨t, ht, Or.inr ⟨b.symm, a.symm⟩⟩
    · exact ⟨t, ht, Or.inl ⟨b.symm, a.symm⟩⟩
  · rintro ⟨t, ht, (⟨a, b⟩ | ⟨a, b⟩)⟩
    · exact ⟨t, ht, Or.inr ⟨b.symm, a.symm⟩⟩
    · exact ⟨t, ht, Or.inl ⟨b.symm, a.symm⟩⟩

/-- without self-loops no variable is adjacent to itself -/
theorem not_self_nbr (J : List (Label × Label × Rat)) (hJ : ∀ t ∈ J, t.1 ≠ t.2.1) (v : Label) : v ∉ nbrs J v := by
  rw [mem_nbrs]
  rintro ⟨t, ht, (⟨a, b⟩ | ⟨a, b⟩)⟩
  · exact hJ t ht (a.trans b)
  · exact hJ t ht (a.trans b).symm

/-! ### the two `min`s -/

theorem argMinLen_mem : ∀ (l : List (Label × List Nat)) (a : Label × List Nat), argMinLen l = some a → a ∈ l := by
  intro l
  induction l with
  | nil => intro a h; simp [argMinLen] at h
  | cons x t ih =>
    intro a h
    simp only [argMinLen] at h
    cases ht : argMinLen t with
    | none =>
      rw [ht] at h
      simp only [Option.some.injEq] at h
      subst h
      exact List.mem_cons_self ..
    | some b =>
      rw [ht] at h
      simp only at h
      by_cases hlt : b.2.length < x.2.length
      · rw [if_pos hlt] at h
        simp only [Option.some.injEq] at h
        subst h
        exact List.mem_cons_of_mem _ (ih b ht)
      · rw [if_neg hlt] at h
        simp only [Option.some.injEq] at h
        subst h
        exact List.mem_cons_self ..

theorem argMinLen_some (l : List (Label × List Nat)) (hne : l ≠ []) : ∃ a, argMinLen l = some a := by
  cases l with
  | nil => exact absurd rfl hne
  | cons x t =>
    simp only [argMinLen]
    cases argMinLen t with
    | none => exact ⟨x, rfl⟩
    | some b =>
      by_cases hlt : b.2.length < x.2.length
      · exact ⟨b, by simp [hlt]⟩
      · exact ⟨x, by simp [hlt]⟩

theorem minNat_mem : ∀ (l : List Nat) (a : Nat), minNat l = some a → a ∈ l := by
  intro l
  induction l with
  | nil => intro a h; simp [minNat] at h
  | cons x t ih =>
    intro a h
    simp only [minNat] at h
    cases ht : minNat t with
    | none =>
      rw [ht] at h
      simp only [Option.some.injEq] at h
      subst h
      exact List.mem_cons_self ..
    | some b =>
      rw [ht] at h
      simp only at h
      by_cases hlt : b < x
      · rw [if_pos hlt] at h
        simp only [Option.some.injEq] at h
        subst h
        exact List.mem_cons_of_mem _ (ih b ht)
      · rw [if_neg hlt] at h
        simp only [Option.some.injEq] at h
        subst h
        exact List.mem_cons_self ..

theorem minNat_some (l : List Nat) (hne : l ≠ []) : ∃ a, minNat l = some a := by
  cases l with
  | nil => exact absurd rfl hne
  | cons x t =>
    simp only [minNat]
    cases minNat t with
    | none => exact ⟨x, rfl⟩
    | some b =>
      by_cases hlt : b < x
      · exact ⟨b, by simp [hlt]⟩
      · exact ⟨x, by simp [hlt]⟩

/-! ### list facts -/

theorem filter_ne_length (c : Nat) : ∀ l : List Nat, l.Nodup → l.length ≤ (l.filter (· ≠ c)).length + 1 := by
  intro l
  induction l with
  | nil => intro _; simp
  | cons a t ih =>
    intro hn
    rw [List.nodup_cons] at hn
    by_cases hac : a = c
    · subst hac
      have hself : t.filter (· ≠ a) = t := by
        rw [List.filter_eq_self]
        intro x hx
        have : x ≠ a := fun e => hn.1 (e ▸ hx)
        simpa using this
      rw [List.filter_cons_of_neg (by simp), hself]
      simp
    · have := ih hn.2
      rw [List.filter_cons_of_pos (by simpa using hac)]
      simp only [List.length_cons]
      omega

theorem filter_name_length (n0 : Label) : ∀ poss : List (Label × List Nat), (poss.map (·.1)).Nodup → n0 ∈ poss.map (·.1) →
    (poss.filter (fun p => p.1 ≠ n0)).length + 1 = poss.length := by
  intro poss
  induction poss with
  | nil => intro _ h; simp at h
  | cons p t ih =>
    intro hn hm
    rw [List.map_cons, List.nodup_cons] at hn
    by_cases hp : p.1 = n0
    · have hself : t.filter (fun q => q.1 ≠ n0) = t := by
        rw [List.filter_eq_self]
        intro q hq
        have : q.1 ≠ n0 := fun e => hn.1 (by rw [hp, ← e]; exact List.mem_map_of_mem hq)
        simpa using this
      rw [List.filter_cons_of_neg (by simp [hp]), hself]
      simp
    · have hm' : n0 ∈ t.map (·.1) := by
        rw [List.map_cons, List.mem_cons] at hm
        rcases hm with e | hm
        · exact absurd e.symm hp
        · exact hm
      have := ih hn.2 hm'
      rw [List.filter_cons_of_pos (by simpa using hp)]
      simp only [List.length_cons]
      omega

/-! ### `addColor` -/

theorem colouring_cons (p : Nat × List Label) (t : List (Nat × List Label)) :
    colouring (p :: t) = p.2.map (fun v => (v, p.1)) ++ colouring t := by
  simp [colouring]

theorem colouring_append (a b : List (Nat × List Label)) : colouring (a ++ b) = colouring a ++ colouring b := by
  simp [colouring]

theorem map_absent (c : Nat) (v : Label) : ∀ cs : List (Nat × List Label), c ∉ cs.map (·.1) →
    cs.map (fun p => if p.1 = c then (p.1, p.2 ++ [v]) else p) = cs := by
  intro cs
  induction cs with
  | nil => intro _; rfl
  | cons p t ih =>
    intro h
    rw [List.map_cons, List.mem_cons, not_or] at h
    have hp : ¬ p.1 = c := fun e => h.1 e.symm
    rw [List.map_cons, if_neg hp, ih h.2]

theorem colouring_map_perm (c : Nat) (v : Label) : ∀ cs : List (Nat × List Label), (cs.map (·.1)).Nodup → c ∈ cs.map (·.1) →
    (colouring (cs.map (fun p => if p.1 = c then (p.1, p.2 ++ [v]) else p))).Perm (colouring cs ++ [(v, c)]) := by
  intro cs
  induction cs with
  | nil => intro _ h; simp at h
  | cons p t ih =>
    intro hn hm
    rw [List.map_cons, List.nodup_cons] at hn
    by_cases hp : p.1 = c
    · have habs : c ∉ t.map (·.1) := by rw [← hp]; exact hn.1
      rw [List.map_cons, if_pos hp, map_absent c v t habs, colouring_cons, colouring_cons]
      simp only [List.map_append, List.map_cons, List.map_nil, List.append_assoc]
      apply List.Perm.append_left
      rw [hp]
      exact List.perm_append_comm
    · have hm' : c ∈ t.map (·.1) := by
        rw [List.map_cons, List.mem_cons] at hm
        rcases hm with e | hm
        · exact absurd e.symm hp
        · exact hm
      rw [List.map_cons, if_neg hp, colouring_cons, colouring_cons, List.append_assoc]
      exact List.Perm.append_left _ (ih hn.2 hm')

theorem any_key (cs : List (Nat × List Label)) (c : Nat) : cs.any (fun p => p.1 = c) = true ↔ c ∈ cs.map (·.1) := by
  simp only [List.any_eq_true, decide_eq_true_eq, List.mem_map]

theorem colouring_addColor (cs : List (Nat × List Label)) (c : Nat) (v : Label) (hk : (cs.map (·.1)).Nodup) :
    (colouring (addColor cs c v)).Perm (colouring cs ++ [(v, c)]) := by
  unfold addColor
  by_cases hc : c ∈ cs.map (·.1)
  · rw [if_pos ((any_key cs c).mpr hc)]
    exact colouring_map_perm c v cs hk hc
  · rw [if_neg (fun h => hc ((any_key cs c).mp h)), colouring_append]
    simp [colouring]

theorem addColor_keys (cs : List (Nat × List Label)) (c : Nat) (v : Label) (hk : (cs.map (·.1)).Nodup) :
    ((addColor cs c v).map (·.1)).Nodup := by
  unfold addColor
  by_cases hc : c ∈ cs.map (·.1)
  · rw [if_pos ((any_key cs c).mpr hc)]
    have : (cs.map (fun p => if p.1 = c then (p.1, p.2 ++ [v]) else p)).map (·.1) = cs.map (·.1) := by
      rw [List.map_map]
      apply List.map_congr_left
      intro p _
      by_cases hp : p.1 = c <;> simp [hp]
    rw [this]
    exact hk
  · rw [if_neg (fun h => hc ((any_key cs c).mp h)), List.map_append, List.nodup_append]
    refine ⟨hk, by simp, ?_⟩
    intro a ha b hb
    simp only [List.map_cons, List.map_nil, List.mem_singleton] at hb
    subst hb
    intro e
    exact hc (e ▸ ha)

/-! ### the loop invariant -/

/-- the loop invariant of `greedy_coloring` -/
structure GCInv (keys : List Label) (J : List (Label × Label × Rat)) (st : GC) : Prop where
  /-- the uncoloured names are distinct -/
  pN : (st.poss.map (·.1)).Nodup
  /-- the coloured names are distinct -/
  cN : ((colouring st.colors).map (·.1)).Nodup
  /-- the colours in use are distinct -/
  kN : (st.colors.map (·.1)).Nodup
  /-- every variable is either uncoloured or coloured … -/
  cover : ∀ v, v ∈ keys ↔ (v ∈ st.poss.map (·.1) ∨ v ∈ (colouring st.colors).map (·.1))
  /-- … and not both -/
  disj : ∀ v, v ∈ st.poss.map (·.1) → v ∉ (colouring st.colors).map (·.1)
  /-- an uncoloured variable has at least as many possible colours as there are uncoloured variables -/
  room : ∀ p ∈ st.poss, p.2.Nodup ∧ st.poss.length ≤ p.2.length
  /-- the colour of a coloured variable is no longer possible for its uncoloured neighbours -/
  blocked : ∀ uc ∈ colouring st.colors, ∀ p ∈ st.poss, p.1 ∈ nbrs J uc.1 → uc.2 ∉ p.2
  /-- adjacent coloured variables have different colours -/
  proper : ∀ uc ∈ colouring st.colors, ∀ wc ∈ colouring st.colors, wc.1 ∈ nbrs J uc.1 → uc.2 ≠ wc.2

theorem gcStep_spec (J : List (Label × Label × Rat)) (st : GC) (n0 : Label) (cs0 : List Nat) (c : Nat)
    (h1 : argMinLen st.poss = some (n0, cs0)) (h2 : minNat cs0 = some c) :
    gcStep J st = some ⟨(st.poss.filter (fun p => p.1 ≠ n0)).map
        (fun p => if (nbrs J n0).contains p.1 then (p.1, p.2.filter (· ≠ c)) else p), addColor st.colors c n0⟩ := by
  unfold gcStep
  rw [h1]
  simp only [h2]

/-- **never stuck, and the invariant is kept**: with uncoloured variables left, a step succeeds, keeps the invariant
    and colours exactly one variable -/
theorem gcStep_inv (keys : List Label) (J : List (Label × Label × Rat)) (hJ : ∀ t ∈ J, t.1 ≠ t.2.1) (st : GC)
    (hI : GCInv keys J st) (hne : st.poss ≠ []) :
    ∃ st', gcStep J st = some st' ∧ GCInv keys J st' ∧ st'.poss.length + 1 = st.poss.length := by
  obtain ⟨⟨n0, cs0⟩, hmin⟩ := argMinLen_some st.poss hne
  have hmem : (n0, cs0) ∈ st.poss := argMinLen_mem _ _ hmin
  have hroom0 := hI.room _ hmem
  have hpos : 0 < st.poss.length := List.length_pos_iff.mpr hne
  have hcs0 : cs0 ≠ [] := by
    intro e
    have : st.poss.length ≤ cs0.length := hroom0.2
    rw [e, List.length_nil] at this
    omega
  obtain ⟨c, hc⟩ := minNat_some cs0 hcs0
  have hcmem : c ∈ cs0 := minNat_mem _ _ hc
  have hn0 : n0 ∈ st.poss.map (·.1) := List.mem_map_of_mem (f := (·.1)) hmem
  refine ⟨_, gcStep_spec J st n0 cs0 c hmin hc, ?_, ?_⟩
  · -- the invariant
    have hg1 : ∀ p : Label × List Nat,
        (if (nbrs J n0).contains p.1 then (p.1, p.2.filter (· ≠ c)) else p).1 = p.1 := by
      intro p; split <;> rfl
    have hnames : ((st.poss.filter (fun p => p.1 ≠ n0)).map
        (fun p => if (nbrs J n0).contains p.1 then (p.1, p.2.filter (· ≠ c)) else p)).map (·.1)
          = (st.poss.filter (fun p => p.1 ≠ n0)).map (·.1) := by
      rw [List.map_map]
      apply List.map_congr_left
      intro p _
      exact hg1 p
    have hmemn : ∀ v, v ∈ (st.poss.filter (fun p => p.1 ≠ n0)).map (·.1) ↔ (v ∈ st.poss.map (·.1) ∧ v ≠ n0) := by
      intro v
      simp only [List.mem_map, List.mem_filter, ne_eq, decide_eq_true_eq]
      constructor
      · rintro ⟨p, ⟨hp, hpn⟩, e⟩
        exact ⟨⟨p, hp, e⟩, e ▸ hpn⟩
      · rintro ⟨⟨p, hp, e⟩, hv⟩
        exact ⟨p, ⟨hp, e ▸ hv⟩, e⟩
    have hperm := colouring_addColor st.colors c n0 hI.kN
    have hpermn : ((colouring (addColor st.colors c n0)).map (·.1)).Perm ((colouring st.colors).map (·.1) ++ [n0]) := by
      have := hperm.map (·.1)
      simpa using this
    have hn0c : n0 ∉ (colouring st.colors).map (·.1) := hI.disj n0 hn0
    have hmemc : ∀ x, x ∈ colouring (addColor st.colors c n0) ↔ (x ∈ colouring st.colors ∨ x = (n0, c)) := by
      intro x
      rw [hperm.mem_iff]
      simp
    have hmemcn : ∀ v, v ∈ (colouring (addColor st.colors c n0)).map (·.1) ↔ (v ∈ (colouring st.colors).map (·.1) ∨ v = n0) := by
      intro v
      rw [hpermn.mem_iff]
      simp
    have hlen := filter_name_length n0 st.poss hI.pN hn0
    -- entries of the new `poss`
    have hentry : ∀ p' ∈ (st.poss.filter (fun p => p.1 ≠ n0)).map
        (fun p => if (nbrs J n0).contains p.1 then (p.1, p.2.filter (· ≠ c)) else p),
        ∃ p ∈ st.poss, p.1 ≠ n0 ∧ p'.1 = p.1 ∧
          ((p.1 ∈ nbrs J n0 ∧ p'.2 = p.2.filter (· ≠ c)) ∨ (p.1 ∉ nbrs J n0 ∧ p'.2 = p.2)) := by
      intro p' hp'
      rw [List.mem_map] at hp'
      obtain ⟨p, hp, e⟩ := hp'
      rw [List.mem_filter] at hp
      have hpn : p.1 ≠ n0 := by simpa using hp.2
      refine ⟨p, hp.1, hpn, ?_, ?_⟩
      · rw [← e]; exact hg1 p
      · by_cases hcon : (nbrs J n0).contains p.1 = true
        · rw [if_pos hcon] at e
          left
          refine ⟨by simpa using hcon, ?_⟩
          rw [← e]
        · rw [if_neg hcon] at e
          right
          refine ⟨by simpa using hcon, ?_⟩
          rw [← e]
    refine ⟨?_, ?_, ?_, ?_, ?_, ?_, ?_, ?_⟩
    · -- pN
      dsimp only
      rw [hnames]
      exact hI.pN.sublist (List.Sublist.map _ List.filter_sublist)
    · -- cN
      dsimp only
      rw [hpermn.nodup_iff, List.nodup_append]
      refine ⟨hI.cN, by simp, ?_⟩
      intro a ha b hb
      simp only [List.mem_singleton] at hb
      subst hb
      intro e
      exact hn0c (e ▸ ha)
    · -- kN
      exact addColor_keys st.colors c n0 hI.kN
    · -- cover
      intro v
      dsimp only
      rw [hnames, hmemn, hmemcn, hI.cover v]
      constructor
      · rintro (h | h)
        · by_cases hv : v = n0
          · exact Or.inr (Or.inr hv)
          · exact Or.inl ⟨h, hv⟩
        · exact Or.inr (Or.inl h)
      · rintro (⟨h, _⟩ | h | h)
        · exact Or.inl h
        · exact Or.inr h
        · exact Or.inl (h ▸ hn0)
    · -- disj
      intro v hv
      dsimp only at hv
      dsimp only
      rw [hnames, hmemn] at hv
      rw [hmemcn]
      rintro (h | h)
      · exact hI.disj v hv.1 h
      · exact hv.2 h
    · -- room
      intro p' hp'
      obtain ⟨p, hp, _, _, h2⟩ := hentry p' hp'
      have hr := hI.room p hp
      dsimp only
      rw [List.length_map]
      rcases h2 with ⟨_, h2⟩ | ⟨_, h2⟩
      · rw [h2]
        refine ⟨hr.1.sublist List.filter_sublist, ?_⟩
        have := filter_ne_length c p.2 hr.1
        omega
      · rw [h2]
        exact ⟨hr.1, by omega⟩
    · -- blocked
      intro uc huc p' hp'
      change uc ∈ colouring (addColor st.colors c n0) at huc
      obtain ⟨p, hp, _, h1, h2⟩ := hentry p' hp'
      intro hadj
      rw [h1] at hadj
      rw [hmemc] at huc
      rcases huc with huc | huc
      · have hb := hI.blocked uc huc p hp hadj
        rcases h2 with ⟨_, h2⟩ | ⟨_, h2⟩
        · rw [h2]
          intro hin
          exact hb (List.mem_filter.mp hin).1
        · rw [h2]; exact hb
      · subst huc
        rcases h2 with ⟨_, h2⟩ | ⟨hnot, _⟩
        · rw [h2]
          intro hin
          have := (List.mem_filter.mp hin).2
          simp at this
        · exact absurd hadj hnot
    · -- proper
      intro uc huc wc hwc hadj
      change uc ∈ colouring (addColor st.colors c n0) at huc
      change wc ∈ colouring (addColor st.colors c n0) at hwc
      rw [hmemc] at huc hwc
      rcases huc with huc | huc
      · rcases hwc with hwc | hwc
        · exact hI.proper uc huc wc hwc hadj
        · subst hwc
          have hb := hI.blocked uc huc (n0, cs0) hmem hadj
          intro e
          exact hb (e ▸ hcmem)
      · subst huc
        rcases hwc with hwc | hwc
        · have hadj' : n0 ∈ nbrs J wc.1 := (nbrs_symm J n0 wc.1).mp hadj
          have hb := hI.blocked wc hwc (n0, cs0) hmem hadj'
          intro e
          exact hb (e ▸ hcmem)
        · subst hwc
          exact absurd hadj (not_self_nbr J hJ n0)
  · dsimp only
    rw [List.length_map]
    exact filter_name_length n0 st.poss hI.pN hn0

/-- with enough fuel the loop ends with every variable coloured, the invariant intact -/
theorem greedy_inv (keys : List Label) (J : List (Label × Label × Rat)) (hJ : ∀ t ∈ J, t.1 ≠ t.2.1) :
    ∀ (fuel : Nat) (st : GC), GCInv keys J st → st.poss.length ≤ fuel →
      ∃ st', GCInv keys J st' ∧ st'.poss = [] ∧ greedy J fuel st = st'.colors := by
  intro fuel
  induction fuel with
  | zero =>
    intro st hI hl
    exact ⟨st, hI, List.length_eq_zero_iff.mp (Nat.le_zero.mp hl), rfl⟩
  | succ fuel ih =>
    intro st hI hl
    by_cases hp : st.poss = []
    · refine ⟨st, hI, hp, ?_⟩
      simp [greedy, hp]
    · obtain ⟨st', hs, hI', hlen⟩ := gcStep_inv keys J hJ st hI hp
      obtain ⟨st'', hI'', hp'', hg⟩ := ih st' hI' (by omega)
      refine ⟨st'', hI'', hp'', ?_⟩
      have hemp : st.poss.isEmpty = false := by simpa using hp
      simp only [greedy, hemp, hs]
      simpa using hg

/-- the invariant holds at the start -/
theorem gc_init (h : List (Label × Rat)) (J : List (Label × Label × Rat)) (hh : (h.map (·.1)).Nodup) :
    GCInv (h.map (·.1)) J ⟨h.map (fun (v, _) => (v, List.range h.length)), []⟩ := by
  have hnames : (h.map (fun (v, _) => (v, List.range h.length))).map (·.1) = h.map (·.1) := by
    rw [List.map_map]
    apply List.map_congr_left
    intro p _
    rfl
  refine ⟨?_, ?_, ?_, ?_, ?_, ?_, ?_, ?_⟩
  · dsimp only
    rw [hnames]; exact hh
  · simp [colouring]
  · simp
  · intro v
    dsimp only
    rw [hnames]
    simp [colouring]
  · intro v _
    simp [colouring]
  · intro p hp
    dsimp only at hp
    obtain ⟨q, _, e⟩ := List.mem_map.mp hp
    dsimp only
    rw [← e, List.length_map]
    exact ⟨List.nodup_range, by simp⟩
  · intro uc huc
    simp [colouring] at huc
  · intro uc huc
    simp [colouring] at huc

/-- the final state of `colorClasses` -/
theorem colorClasses_final (h : List (Label × Rat)) (J : List (Label × Label × Rat))
    (hh : (h.map (·.1)).Nodup) (hJ : ∀ t ∈ J, t.1 ≠ t.2.1) :
    ∃ st', GCInv (h.map (·.1)) J st' ∧ st'.poss = [] ∧ colorClasses h J = st'.colors := by
  unfold colorClasses
  apply greedy_inv (h.map (·.1)) J hJ h.length _ (gc_init h J hh)
  dsimp only
  rw [List.length_map]

/-- **greedy_coloring colours every variable exactly once** (dict keys distinct) -/
theorem colorClasses_total (h : List (Label × Rat)) (J : List (Label × Label × Rat))
    (hh : (h.map (·.1)).Nodup) (hJ : ∀ t ∈ J, t.1 ≠ t.2.1) :
    ((colouring (colorClasses h J)).map (·.1)).Perm (h.map (·.1)) := by
  obtain ⟨st', hI, hp, hg⟩ := colorClasses_final h J hh hJ
  rw [hg, List.perm_ext_iff_of_nodup hI.cN hh]
  intro v
  rw [hI.cover v, hp]
  simp

/-- **… and properly**: two variables of one colour class are never adjacent -/
theorem colorClasses_proper (h : List (Label × Rat)) (J : List (Label × Label × Rat))
    (hh : (h.map (·.1)).Nodup) (hJ : ∀ t ∈ J, t.1 ≠ t.2.1) :
    ∀ c ∈ colorClasses h J, ∀ u ∈ c.2, ∀ w ∈ c.2, w ∉ nbrs J u := by
  obtain ⟨st', hI, _, hg⟩ := colorClasses_final h J hh hJ
  rw [hg]
  intro c hc u hu w hw hadj
  have mem : ∀ x ∈ c.2, (x, c.1) ∈ colouring st'.colors := by
    intro x hx
    unfold colouring
    rw [List.mem_flatMap]
    exact ⟨c, hc, List.mem_map.mpr ⟨x, hx, rfl⟩⟩
  exact hI.proper (u, c.1) (mem u hu) (w, c.1) (mem w hw) hadj rfl

end Enum
