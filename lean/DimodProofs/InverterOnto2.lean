import DimodProofs.InverterOnto

/-! # `CQMToBQMInverter` is onto for all variables at once (C16)

Composition of the per-variable statements of `InverterOnto.lean` along the variable list: setting the bits of one
variable leaves the decoded values of the others unchanged because the bit sets are pairwise disjoint. -/

namespace Pen

/-- the BQM variables that carry CQM variable `v` -/
def bitsOf (vars : List (Label × VKind)) (v : Label) : List Label := (affOf vars v).2.map (·.1)

theorem lsum_congr' (z z' : Label → Rat) (l : List (Label × Rat)) (h : ∀ t ∈ l, z' t.1 = z t.1) : lsum z' l = lsum z l := by
  induction l with
  | nil => rfl
  | cons t r ih =>
    simp only [lsum]
    rw [h t (by simp), ih (fun t ht => h t (by simp [ht]))]

theorem decode_congr (vars : List (Label × VKind)) (z z' : Label → Rat) (v : Label)
    (h : ∀ l ∈ bitsOf vars v, z' l = z l) : decode vars z' v = decode vars z v := by
  unfold decode
  rw [affVal_eq, affVal_eq]
  congr 1
  apply lsum_congr'
  intro t ht
  exact h t.1 (List.mem_map.2 ⟨t, ht, rfl⟩)

/-- the values a CQM variable of a kind can take -/
def InDom : VKind → Rat → Prop
  | .binary, t => t = 0 ∨ t = 1
  | .spin, t => t = 1 ∨ t = -1
  | .integer _ ub, t => ∃ n : Nat, n ≤ ub.toNat ∧ t = (((n : Nat) : Int) : Rat)

/-- one variable: any value of its domain, changing only its own bits -/
theorem reach (vars : List (Label × VKind)) (v : Label) (k : VKind) (hk : kindOf vars v = some k)
    (henc : ∀ lb ub, k = .integer lb ub → ∃ e, binaryEncoding v ub.toNat = some e)
    (t : Rat) (ht : InDom k t) (z : Label → Int) (hz : Bin01 z) :
    ∃ z', Bin01 z' ∧ (∀ l, l ∉ bitsOf vars v → z' l = z l) ∧ decode vars (toRat z') v = t := by
  cases k with
  | binary =>
    have hb : bitsOf vars v = [v] := by simp [bitsOf, affOf, hk]
    rcases ht with h0 | h1
    · obtain ⟨z', h1', h2', h3'⟩ := inverter_reaches_binary vars v hk z hz false
      exact ⟨z', h1', fun l hl => h2' l (by rw [hb] at hl; simpa using hl), by rw [h3', h0]; rfl⟩
    · obtain ⟨z', h1', h2', h3'⟩ := inverter_reaches_binary vars v hk z hz true
      exact ⟨z', h1', fun l hl => h2' l (by rw [hb] at hl; simpa using hl), by rw [h3', h1]; rfl⟩
  | spin =>
    have hb : bitsOf vars v = [v] := by simp [bitsOf, affOf, hk]
    rcases ht with h1 | h0
    · obtain ⟨z', h1', h2', h3'⟩ := inverter_reaches_spin vars v hk z hz true
      exact ⟨z', h1', fun l hl => h2' l (by rw [hb] at hl; simpa using hl), by rw [h3', h1]; rfl⟩
    · obtain ⟨z', h1', h2', h3'⟩ := inverter_reaches_spin vars v hk z hz false
      exact ⟨z', h1', fun l hl => h2' l (by rw [hb] at hl; simpa using hl), by rw [h3', h0]; rfl⟩
  | integer lb ub =>
    obtain ⟨e, he⟩ := henc lb ub rfl
    obtain ⟨n, hn, rfl⟩ := ht
    have hb : bitsOf vars v = e.map (·.1) := by simp [bitsOf, affOf, hk, he, List.map_map, Function.comp]
    obtain ⟨z', h1', h2', h3'⟩ := inverter_reaches_integer vars v lb ub hk e he z hz n hn
    exact ⟨z', h1', fun l hl => h2' l (by rw [hb] at hl; exact hl), h3'⟩

/-- **all variables at once**: along any list of variables whose bit sets are pairwise disjoint -/
theorem onto_aux (vars : List (Label × VKind)) (target : Label → Rat) (ws : List (Label × VKind))
    (hws : ∀ p ∈ ws, kindOf vars p.1 = some p.2 ∧ InDom p.2 (target p.1)
        ∧ ∀ lb ub, p.2 = .integer lb ub → ∃ e, binaryEncoding p.1 ub.toNat = some e)
    (hdisj : ws.Pairwise (fun p q => ∀ l ∈ bitsOf vars p.1, l ∉ bitsOf vars q.1))
    (z0 : Label → Int) (hz0 : Bin01 z0) :
    ∃ z, Bin01 z ∧ ∀ p ∈ ws, decode vars (toRat z) p.1 = target p.1 := by
  induction ws with
  | nil => exact ⟨z0, hz0, by intro p hp; simp at hp⟩
  | cons p r ih =>
    rw [List.pairwise_cons] at hdisj
    obtain ⟨z, hz, hr⟩ := ih (fun q hq => hws q (by simp [hq])) hdisj.2
    obtain ⟨hk, hd, he⟩ := hws p (by simp)
    obtain ⟨z', hz', hoff, hval⟩ := reach vars p.1 p.2 hk he (target p.1) hd z hz
    refine ⟨z', hz', ?_⟩
    intro q hq
    rcases List.mem_cons.1 hq with rfl | hq
    · exact hval
    · rw [← hr q hq]
      apply decode_congr
      intro l hl
      have : l ∉ bitsOf vars p.1 := fun hm => hdisj.1 q hq l hm hl
      simp only [toRat, hoff l this]

end Pen

namespace Pen

theorem binaryEncoding_label_head (v : Label) (ub : Nat) (e : List (Label × Nat)) (h : binaryEncoding v ub = some e) :
    ∀ b ∈ e, ∃ rest, b.1 = Label.tup (v :: rest) := by
  unfold binaryEncoding at h
  split at h
  · simp at h
  · simp only [Option.some.injEq] at h
    subst h
    intro b hb
    simp only [List.mem_append, List.mem_map, List.mem_range, List.mem_cons, List.not_mem_nil, or_false] at hb
    rcases hb with ⟨a, _, rfl⟩ | rfl
    · exact ⟨_, rfl⟩
    · exact ⟨_, rfl⟩

theorem kindOf_of_mem_nodup (vars : List (Label × VKind)) (hnd : (vars.map (·.1)).Nodup) (p : Label × VKind) (hp : p ∈ vars) :
    kindOf vars p.1 = some p.2 := by
  induction vars with
  | nil => simp at hp
  | cons q r ih =>
    simp only [List.map_cons, List.nodup_cons] at hnd
    obtain ⟨w, k⟩ := q
    simp only [kindOf]
    rcases List.mem_cons.1 hp with rfl | hp'
    · simp
    · have hne : ¬ w = p.1 := by
        intro e
        apply hnd.1
        rw [e]
        exact List.mem_map.2 ⟨p, hp', rfl⟩
      rw [if_neg hne]
      exact ih hnd.2 hp'

theorem kindOf_mem (vars : List (Label × VKind)) (v : Label) (k : VKind) (h : kindOf vars v = some k) : (v, k) ∈ vars := by
  induction vars with
  | nil => simp [kindOf] at h
  | cons q r ih =>
    obtain ⟨w, k'⟩ := q
    simp only [kindOf] at h
    split at h
    · rename_i e
      simp only [Option.some.injEq] at h
      subst e; subst h
      simp
    · exact List.mem_cons_of_mem _ (ih h)

/-- the bit sets of two different variables are disjoint, given that no encoding bit is a variable label -/
theorem bitsOf_disjoint (vars : List (Label × VKind)) (v w : Label) (hvw : v ≠ w) (kv kw : VKind)
    (hkv : kindOf vars v = some kv) (hkw : kindOf vars w = some kw)
    (hfresh : ∀ u lb ub e, (u, VKind.integer lb ub) ∈ vars → binaryEncoding u ub.toNat = some e → ∀ bit ∈ e, bit.1 ∉ vars.map (·.1)) :
    ∀ l ∈ bitsOf vars v, l ∉ bitsOf vars w := by
  have hvmem : v ∈ vars.map (·.1) := List.mem_map.2 ⟨(v, kv), kindOf_mem vars v kv hkv, rfl⟩
  have hwmem : w ∈ vars.map (·.1) := List.mem_map.2 ⟨(w, kw), kindOf_mem vars w kw hkw, rfl⟩
  -- the bits of a variable: itself (binary / spin) or labels `(v, …)` that are not variable labels (integer)
  have shape : ∀ (u : Label) (ku : VKind), kindOf vars u = some ku → u ∈ vars.map (·.1) →
      ∀ l ∈ bitsOf vars u, (l = u) ∨ (l ∉ vars.map (·.1) ∧ ∃ rest, l = Label.tup (u :: rest)) := by
    intro u ku hku _ l hl
    cases ku with
    | binary => left; simpa [bitsOf, affOf, hku] using hl
    | spin => left; simpa [bitsOf, affOf, hku] using hl
    | integer lb ub =>
      cases he : binaryEncoding u ub.toNat with
      | none => simp [bitsOf, affOf, hku, he] at hl
      | some e =>
        right
        have hl' : l ∈ e.map (·.1) := by simpa [bitsOf, affOf, hku, he, List.map_map, Function.comp] using hl
        obtain ⟨b, hb, rfl⟩ := List.mem_map.1 hl'
        exact ⟨hfresh u lb ub e (kindOf_mem vars u _ hku) he b hb, binaryEncoding_label_head u ub.toNat e he b hb⟩
  intro l hlv hlw
  rcases shape v kv hkv hvmem l hlv with h1 | ⟨h1, r1, e1⟩ <;> rcases shape w kw hkw hwmem l hlw with h2 | ⟨h2, r2, e2⟩
  · exact hvw (h1.symm.trans h2)
  · exact h2 (h1 ▸ hvmem)
  · exact h1 (h2 ▸ hwmem)
  · rw [e1] at e2
    injection e2 with e2
    injection e2 with e2 _
    exact hvw e2

theorem pairwise_bits_disjoint (vars : List (Label × VKind)) (hnd : (vars.map (·.1)).Nodup)
    (hfresh : ∀ u lb ub e, (u, VKind.integer lb ub) ∈ vars → binaryEncoding u ub.toNat = some e → ∀ bit ∈ e, bit.1 ∉ vars.map (·.1))
    (ws : List (Label × VKind)) (hsub : ∀ p ∈ ws, p ∈ vars) (hwnd : (ws.map (·.1)).Nodup) :
    ws.Pairwise (fun p q => ∀ l ∈ bitsOf vars p.1, l ∉ bitsOf vars q.1) := by
  induction ws with
  | nil => exact List.Pairwise.nil
  | cons p r ih =>
    simp only [List.map_cons, List.nodup_cons] at hwnd
    rw [List.pairwise_cons]
    refine ⟨?_, ih (fun q hq => hsub q (by simp [hq])) hwnd.2⟩
    intro q hq
    have hne : p.1 ≠ q.1 := fun e => hwnd.1 (e ▸ List.mem_map.2 ⟨q, hq, rfl⟩)
    exact bitsOf_disjoint vars p.1 q.1 hne p.2 q.2 (kindOf_of_mem_nodup vars hnd p (hsub p (by simp)))
      (kindOf_of_mem_nodup vars hnd q (hsub q (by simp [hq]))) hfresh

/-- the integers of a successfully initialised CQM have an encoding -/
theorem cqmInitBits_encodes (taken : List Label) (vars : List (Label × VKind)) (bits : List (PTerm Label))
    (h : cqmInitBits taken vars = .ok bits) :
    ∀ v lb ub, (v, VKind.integer lb ub) ∈ vars → ∃ e, binaryEncoding v ub.toNat = some e := by
  induction vars generalizing bits taken with
  | nil => intro v lb ub hm; simp at hm
  | cons p r ih =>
    obtain ⟨w, k⟩ := p
    intro v lb ub hm
    have hcase : (v, VKind.integer lb ub) = (w, k) ∨ (v, VKind.integer lb ub) ∈ r := by simpa using hm
    cases k with
    | binary =>
      rcases hcase with h1 | h1
      · simp at h1
      · exact ih taken bits h v lb ub h1
    | spin =>
      rcases hcase with h1 | h1
      · simp at h1
      · exact ih taken bits h v lb ub h1
    | integer lb' ub' =>
      simp only [cqmInitBits] at h
      split at h
      · simp at h
      · split at h
        · simp at h
        · rename_i e' he'
          split at h
          · simp at h
          · split at h
            · simp at h
            · rename_i rest hrest
              rcases hcase with h1 | h1
              · simp only [Prod.mk.injEq, VKind.integer.injEq] at h1
                obtain ⟨rfl, rfl, rfl⟩ := h1
                exact ⟨e', he'⟩
              · exact ih _ rest hrest v lb ub h1

end Pen
