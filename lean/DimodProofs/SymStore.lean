import DimodModel.SymStore
import DimodProofs.SymTree

/-! C06 `operands_unchanged`: the frame property of the operator programs, and their values. -/

namespace Sym

theorem step_frame (h h' : Store) (i : Instr) (n : Nat) (hn : n ≤ h.length)
    (ht : ∀ d, i.target = some d → n ≤ d) (hs : step h i = .ok h') :
    h.length ≤ h'.length ∧ ∀ j, j < n → h'[j]? = h[j]? := by
  cases i with
  | copy s =>
    simp only [step] at hs
    split at hs
    · simp only [Except.ok.injEq] at hs; subst hs
      exact ⟨by simp, fun j hj => by rw [List.getElem?_append_left (by omega)]⟩
    · simp at hs
  | newQM =>
    simp only [step, Except.ok.injEq] at hs; subst hs
    exact ⟨by simp, fun j hj => by rw [List.getElem?_append_left (by omega)]⟩
  | fromBqm s =>
    simp only [step] at hs
    split at hs
    · simp only [Except.ok.injEq] at hs; subst hs
      exact ⟨by simp, fun j hj => by rw [List.getElem?_append_left (by omega)]⟩
    · simp at hs
  | mulNew a b =>
    simp only [step] at hs
    split at hs
    · split at hs
      · simp only [Except.ok.injEq] at hs; subst hs
        exact ⟨by simp, fun j hj => by rw [List.getElem?_append_left (by omega)]⟩
      · simp at hs
    · simp at hs
  | scale d q =>
    have hd := ht d rfl
    simp only [step] at hs
    split at hs
    · simp only [Except.ok.injEq] at hs; subst hs
      exact ⟨by simp [setAt], fun j hj => by simp only [setAt]; rw [List.getElem?_set_ne (by omega)]⟩
    · simp at hs
  | addOffset d q =>
    have hd := ht d rfl
    simp only [step] at hs
    split at hs
    · simp only [Except.ok.injEq] at hs; subst hs
      exact ⟨by simp [setAt], fun j hj => by simp only [setAt]; rw [List.getElem?_set_ne (by omega)]⟩
    · simp at hs
  | update d s =>
    have hd := ht d rfl
    simp only [step] at hs
    split at hs
    · split at hs
      · simp only [Except.ok.injEq] at hs; subst hs
        exact ⟨by simp [setAt], fun j hj => by simp only [setAt]; rw [List.getElem?_set_ne (by omega)]⟩
      · simp at hs
    · simp at hs

/-- **frame**: a program whose in-place instructions all target objects at positions ≥ `n` leaves every
    object below `n` exactly as it was -/
theorem exec_frame (p : List Instr) (h h' : Store) (n : Nat) (hn : n ≤ h.length) (hw : WritesFresh n p = true)
    (he : exec h p = .ok h') : ∀ j, j < n → h'[j]? = h[j]? := by
  induction p generalizing h with
  | nil => simp only [exec, Except.ok.injEq] at he; subst he; intro j _; rfl
  | cons i is ih =>
    simp only [exec] at he
    split at he
    · rename_i h1 hs
      simp only [WritesFresh, List.all_cons, Bool.and_eq_true] at hw
      have ht : ∀ d, i.target = some d → n ≤ d := by
        intro d hd
        have := hw.1
        rw [hd] at this
        simpa using this
      obtain ⟨hl, hf⟩ := step_frame h h1 i n hn ht hs
      intro j hj
      rw [ih h1 (by omega) hw.2 he j hj, hf j hj]
    · simp at he

/-- every non-in-place operator body writes only to what it allocated -/
theorem programs_write_fresh (a b n : Nat) (q : Rat) :
    WritesFresh n (progAddSame a b n) = true ∧ WritesFresh n (progAddPromoteBoth a b n) = true ∧
    WritesFresh n (progAddPromoteLeft a b n) = true ∧ WritesFresh n (progAddPromoteRight a b n) = true ∧
    WritesFresh n (progSubSame a b n) = true ∧ WritesFresh n (progSubPromoteBoth a b n) = true ∧
    WritesFresh n (progSubPromoteLeft a b n) = true ∧ WritesFresh n (progSubPromoteRight a b n) = true ∧
    WritesFresh n (progAddNum a q n) = true ∧ WritesFresh n (progRsubNum a q n) = true ∧
    WritesFresh n (progScale a q n) = true ∧ WritesFresh n (progMulSame a b n) = true ∧
    WritesFresh n (progMulPromoteLeft a b n) = true ∧ WritesFresh n (progMulPromoteRight a b n) = true ∧
    WritesFresh n (progMulPromoteBoth a b n) = true := by
  simp [WritesFresh, Instr.target, progAddSame, progAddPromoteBoth, progAddPromoteLeft, progAddPromoteRight,
    progSubSame, progSubPromoteBoth, progSubPromoteLeft, progSubPromoteRight, progAddNum, progRsubNum, progScale,
    progMulSame, progMulPromoteLeft, progMulPromoteRight, progMulPromoteBoth]

/-- the bodies of all non-in-place operators, for operands at `a`, `b`, a number `q`, first free position `n` -/
def nonInplacePrograms (a b : Nat) (q : Rat) (n : Nat) : List (List Instr) :=
  [progAddSame a b n, progAddPromoteBoth a b n, progAddPromoteLeft a b n, progAddPromoteRight a b n,
   progSubSame a b n, progSubPromoteBoth a b n, progSubPromoteLeft a b n, progSubPromoteRight a b n,
   progAddNum a q n, progRsubNum a q n, progScale a q n,
   progMulSame a b n, progMulPromoteLeft a b n, progMulPromoteRight a b n, progMulPromoteBoth a b n]

theorem nonInplace_writes_fresh (a b : Nat) (q : Rat) (n : Nat) : ∀ p ∈ nonInplacePrograms a b q n, WritesFresh n p = true := by
  intro p hp
  obtain ⟨h1, h2, h3, h4, h5, h6, h7, h8, h9, h10, h11, h12, h13, h14, h15⟩ := programs_write_fresh a b n q
  simp only [nonInplacePrograms, List.mem_cons, List.not_mem_nil, or_false] at hp
  rcases hp with rfl | rfl | rfl | rfl | rfl | rfl | rfl | rfl | rfl | rfl | rfl | rfl | rfl | rfl | rfl <;> assumption

/-- the in-place `+=` is *not* of that kind: it writes to its left operand (by design) -/
theorem iadd_writes_operand (a b : Nat) : WritesFresh (a + 1) (progIaddSame a b) = false := by
  simp [WritesFresh, Instr.target, progIaddSame]

/-! ### the programs compute the functional values -/

theorem exec_addSame (h : Store) (a b : Nat) (x y : Model) (ha : h[a]? = some x) (hb : h[b]? = some y)
    (hcls : x.isQM = y.isQM) (hd : x.isQM = false → bqmDiffer x y = false) :
    (exec h (progAddSame a b h.length)).map (fun h' => h'[h.length]?) = (mAdd x y).map some := by
  have hal : a < h.length := by
    rcases Nat.lt_or_ge a h.length with h1 | h1
    · exact h1
    · rw [List.getElem?_eq_none h1] at ha; simp at ha
  have hbl : b < h.length := by
    rcases Nat.lt_or_ge b h.length with h1 | h1
    · exact h1
    · rw [List.getElem?_eq_none h1] at hb; simp at hb
  simp only [progAddSame, exec, step, ha]
  have h1 : (h ++ [x])[h.length]? = some x := by simp
  have h2 : (h ++ [x])[b]? = some y := by rw [List.getElem?_append_left hbl]; exact hb
  simp only [h1, h2]
  unfold upd mAdd
  rcases isQM_cases x with hq | hq
  · have hqy : y.isQM = true := by rw [← hcls]; exact hq
    simp only [hq, hqy, if_true]
    cases hu : qmUpdate x y with
    | error e => simp [Except.map]
    | ok m => simp [Except.map, setAt]
  · have hqy : y.isQM = false := by rw [← hcls]; exact hq
    simp only [hq, hqy, Bool.false_eq_true, if_false, hd hq]
    simp [Except.map, setAt]

theorem lt_of_get (h : Store) (a : Nat) (x : Model) (ha : h[a]? = some x) : a < h.length := by
  rcases Nat.lt_or_ge a h.length with h1 | h1
  · exact h1
  · rw [List.getElem?_eq_none h1] at ha; simp at ha

/-- `model * number`, `-model`, `model / number` -/
theorem exec_scale (h : Store) (a : Nat) (x : Model) (q : Rat) (ha : h[a]? = some x) :
    (exec h (progScale a q h.length)).map (fun h' => h'[h.length]?) = .ok (some (x.scale q)) := by
  simp only [progScale, exec, step, ha]
  have h1 : (h ++ [x])[h.length]? = some x := by simp
  simp [h1, Except.map, setAt]

/-- `model + number` -/
theorem exec_addNum (h : Store) (a : Nat) (x : Model) (q : Rat) (ha : h[a]? = some x) :
    (exec h (progAddNum a q h.length)).map (fun h' => h'[h.length]?) = .ok (some (x.addOffset q)) := by
  simp only [progAddNum, exec, step, ha]
  have h1 : (h ++ [x])[h.length]? = some x := by simp
  simp [h1, Except.map, setAt]

/-- `number - model` -/
theorem exec_rsubNum (h : Store) (a : Nat) (x : Model) (q : Rat) (ha : h[a]? = some x) :
    (exec h (progRsubNum a q h.length)).map (fun h' => h'[h.length]?) = .ok (some ((x.scale (-1)).addOffset q)) := by
  simp only [progRsubNum, exec, step, ha]
  have h1 : (h ++ [x])[h.length]? = some x := by simp
  simp [h1, Except.map, setAt]

/-- same-class product -/
theorem exec_mulSame (h : Store) (a b : Nat) (x y : Model) (ha : h[a]? = some x) (hb : h[b]? = some y)
    (hcls : x.isQM = y.isQM) (hd : x.isQM = false → bqmDiffer x y = false) :
    (exec h (progMulSame a b h.length)).map (fun h' => h'[h.length]?) = (mMul x y).map some := by
  simp only [progMulSame, exec, step, ha, hb]
  unfold mulObj mMul
  rcases isQM_cases x with hq | hq
  · have hqy : y.isQM = true := by rw [← hcls]; exact hq
    simp only [hq, hqy, if_true]
    cases hu : qmMul x y with
    | error e => simp [Except.map]
    | ok m => simp [Except.map]
  · have hqy : y.isQM = false := by rw [← hcls]; exact hq
    simp only [hq, hqy, Bool.false_eq_true, if_false, hd hq]
    by_cases hl : x.isLinear = true ∧ y.isLinear = true
    · simp only [hl, and_self, not_true_eq_false, if_false]
      cases hu : bqmMulSame x y with
      | error e => simp [Except.map]
      | ok m => simp [Except.map]
    · simp [hl, Except.map]

/-! ### the promoting and subtracting programs -/

theorem get_old (h : Store) (t : Store) (j : Nat) (x : Model) (hj : h[j]? = some x) : (h ++ t)[j]? = some x := by
  rw [List.getElem?_append_left (lt_of_get h j x hj)]; exact hj

theorem get_new0 (h : Store) (x : Model) (t : Store) : (h ++ x :: t)[h.length]? = some x := by simp
theorem get_new1 (h : Store) (x y : Model) (t : Store) : (h ++ x :: y :: t)[h.length + 1]? = some y := by
  rw [List.getElem?_append_right (by omega)]; simp

theorem map_get_set (h : Store) (i : Nat) (r : Except Err Model) (hi : i < h.length) :
    (match r with | .ok m' => (Except.ok (setAt h i m') : Except Err Store) | .error e => .error e).map (fun h' => h'[i]?) = r.map some := by
  cases r with
  | error e => rfl
  | ok m => simp [Except.map, setAt, hi]

/-- `BQM + BQM` of different vartypes: `qm = from_bqm(self); qm += from_bqm(other)` -/
theorem exec_addPromoteBoth (h : Store) (a b : Nat) (x y : Model) (ha : h[a]? = some x) (hb : h[b]? = some y)
    (hx : x.isQM = false) (hy : y.isQM = false) (hd : bqmDiffer x y = true) :
    (exec h (progAddPromoteBoth a b h.length)).map (fun h' => h'[h.length]?) = (mAdd x y).map some := by
  have e1 : (h ++ [x.toQM])[b]? = some y := get_old h _ b y hb
  have e2 : (h ++ [x.toQM] ++ [y.toQM])[h.length]? = some x.toQM := by simp
  have e3 : (h ++ [x.toQM] ++ [y.toQM])[h.length + 1]? = some y.toQM := by
    rw [List.append_assoc]; exact get_new1 h _ _ []
  simp only [progAddPromoteBoth, exec, step, ha, e1, e2, e3]
  have hm : mAdd x y = qmUpdate x.toQM y.toQM := by simp [mAdd, hx, hy, hd]
  rw [hm]
  have hu : upd x.toQM y.toQM = qmUpdate x.toQM y.toQM := by simp [upd, Model.toQM]
  rw [hu]
  cases qmUpdate x.toQM y.toQM with
  | error e => rfl
  | ok m => simp [exec, Except.map, setAt]

/-- `BQM + QM`: `QuadraticModel.from_bqm(self) + other` -/
theorem exec_addPromoteLeft (h : Store) (a b : Nat) (x y : Model) (ha : h[a]? = some x) (hb : h[b]? = some y)
    (hx : x.isQM = false) (hy : y.isQM = true) :
    (exec h (progAddPromoteLeft a b h.length)).map (fun h' => h'[h.length + 1]?) = (mAdd x y).map some := by
  have e1 : (h ++ [x.toQM])[h.length]? = some x.toQM := by simp
  have e2 : (h ++ [x.toQM] ++ [x.toQM])[h.length + 1]? = some x.toQM := by
    rw [List.append_assoc]; exact get_new1 h _ _ []
  have e3 : (h ++ [x.toQM] ++ [x.toQM])[b]? = some y := by rw [List.append_assoc]; exact get_old h _ b y hb
  simp only [progAddPromoteLeft, exec, step, ha, e1, e2, e3]
  have hm : mAdd x y = qmUpdate x.toQM y := by simp [mAdd, hx, hy]
  have hu : upd x.toQM y = qmUpdate x.toQM y := by simp [upd, Model.toQM]
  rw [hm, hu]
  cases qmUpdate x.toQM y with
  | error e => rfl
  | ok m => simp [exec, Except.map, setAt]

/-- `QM + BQM` (`BQM.__radd__`): `qm = other.copy(); qm += from_bqm(self)` -/
theorem exec_addPromoteRight (h : Store) (a b : Nat) (x y : Model) (ha : h[a]? = some x) (hb : h[b]? = some y)
    (hx : x.isQM = true) (hy : y.isQM = false) :
    (exec h (progAddPromoteRight a b h.length)).map (fun h' => h'[h.length]?) = (mAdd x y).map some := by
  have e1 : (h ++ [x])[b]? = some y := get_old h _ b y hb
  have e2 : (h ++ [x] ++ [y.toQM])[h.length]? = some x := by simp
  have e3 : (h ++ [x] ++ [y.toQM])[h.length + 1]? = some y.toQM := by
    rw [List.append_assoc]; exact get_new1 h _ _ []
  simp only [progAddPromoteRight, exec, step, ha, e1, e2, e3]
  have hm : mAdd x y = qmUpdate x y.toQM := by simp [mAdd, hx, hy]
  have hu : upd x y.toQM = qmUpdate x y.toQM := by simp [upd, hx]
  rw [hm, hu]
  cases qmUpdate x y.toQM with
  | error e => rfl
  | ok m => simp [exec, Except.map, setAt]

theorem exec_cons_ok (h h' : Store) (i : Instr) (is : List Instr) (hs : step h i = .ok h') : exec h (i :: is) = exec h' is := by
  simp only [exec, hs]

/-- the tail `scale(-1); update(src); scale(-1)` on a QM object at position `d` -/
theorem exec_negUpd (h : Store) (d s : Nat) (m o : Model) (hd : h[d]? = some m) (hs : h[s]? = some o) (hq : m.isQM = true) (hne : d ≠ s) :
    (exec h [.scale d (-1), .update d s, .scale d (-1)]).map (fun h' => h'[d]?) =
      (match qmUpdate (m.scale (-1)) o with | .ok r => Except.ok (r.scale (-1)) | .error e => .error e).map some := by
  have hdl := lt_of_get h d m hd
  have e1 : (setAt h d (m.scale (-1)))[d]? = some (m.scale (-1)) := by simp [setAt, hdl]
  have e2 : (setAt h d (m.scale (-1)))[s]? = some o := by simp only [setAt]; rw [List.getElem?_set_ne hne]; exact hs
  simp only [exec, step, hd, e1, e2]
  have hu : upd (m.scale (-1)) o = qmUpdate (m.scale (-1)) o := by simp [upd, Model.scale, hq]
  rw [hu]
  cases qmUpdate (m.scale (-1)) o with
  | error e => rfl
  | ok r =>
    have e3 : (setAt (setAt h d (m.scale (-1))) d r)[d]? = some r := by simp [setAt, hdl]
    simp [exec, step, e3, Except.map, setAt, hdl]

/-- `QM - QM`: `new = self.copy(); new.scale(-1); new.update(other); new.scale(-1)` -/
theorem exec_subSameQM (h : Store) (a b : Nat) (x y : Model) (ha : h[a]? = some x) (hb : h[b]? = some y)
    (hx : x.isQM = true) (hy : y.isQM = true) :
    (exec h (progSubSame a b h.length)).map (fun h' => h'[h.length]?) = (mSub x y).map some := by
  have hbl := lt_of_get h b y hb
  unfold progSubSame
  rw [exec_cons_ok h (h ++ [x]) _ _ (by simp [step, ha])]
  rw [exec_negUpd (h ++ [x]) h.length b x y (by simp) (get_old h _ b y hb) hx (by omega)]
  simp [mSub, hx, hy]
  rfl

/-- `BQM - BQM` of the same vartype -/
theorem exec_subSameBQM (h : Store) (a b : Nat) (x y : Model) (ha : h[a]? = some x) (hb : h[b]? = some y)
    (hx : x.isQM = false) (hy : y.isQM = false) (hd : bqmDiffer x y = false) :
    (exec h (progSubSame a b h.length)).map (fun h' => h'[h.length]?) = (mSub x y).map some := by
  have hbl := lt_of_get h b y hb
  have e0 : (h ++ [x])[h.length]? = some x := by simp
  have e1 : (setAt (h ++ [x]) h.length (x.scale (-1)))[h.length]? = some (x.scale (-1)) := by simp [setAt]
  have e2 : (setAt (h ++ [x]) h.length (x.scale (-1)))[b]? = some y := by
    simp only [setAt]; rw [List.getElem?_set_ne (by omega)]; exact get_old h _ b y hb
  simp only [progSubSame, exec, step, ha, e0, e1, e2]
  have hu : upd (x.scale (-1)) y = .ok (bqmUpdate (x.scale (-1)) y) := by simp [upd, Model.scale, hx]
  rw [hu]
  have e3 : (setAt (setAt (h ++ [x]) h.length (x.scale (-1))) h.length (bqmUpdate (x.scale (-1)) y))[h.length]? =
      some (bqmUpdate (x.scale (-1)) y) := by simp [setAt]
  simp only [e3]
  simp [mSub, hx, hy, hd, Except.map, setAt]

/-- `BQM - BQM` of different vartypes -/
theorem exec_subPromoteBoth (h : Store) (a b : Nat) (x y : Model) (ha : h[a]? = some x) (hb : h[b]? = some y)
    (hx : x.isQM = false) (hy : y.isQM = false) (hd : bqmDiffer x y = true) :
    (exec h (progSubPromoteBoth a b h.length)).map (fun h' => h'[h.length]?) = (mSub x y).map some := by
  have e1 : (h ++ [x.toQM])[b]? = some y := get_old h _ b y hb
  unfold progSubPromoteBoth
  rw [exec_cons_ok h (h ++ [x.toQM]) _ _ (by simp [step, ha])]
  rw [exec_cons_ok (h ++ [x.toQM]) (h ++ [x.toQM] ++ [y.toQM]) _ _ (by simp [step, e1])]
  have e2 : (h ++ [x.toQM] ++ [y.toQM])[h.length]? = some x.toQM := by simp
  have e3 : (h ++ [x.toQM] ++ [y.toQM])[h.length + 1]? = some y.toQM := by
    rw [List.append_assoc]; exact get_new1 h _ _ []
  rw [exec_negUpd (h ++ [x.toQM] ++ [y.toQM]) h.length (h.length + 1) x.toQM y.toQM e2 e3 rfl (by omega)]
  simp [mSub, hx, hy, hd]
  rfl

/-- `BQM - QM` -/
theorem exec_subPromoteLeft (h : Store) (a b : Nat) (x y : Model) (ha : h[a]? = some x) (hb : h[b]? = some y)
    (hx : x.isQM = false) (hy : y.isQM = true) :
    (exec h (progSubPromoteLeft a b h.length)).map (fun h' => h'[h.length + 1]?) = (mSub x y).map some := by
  have hbl := lt_of_get h b y hb
  have e1 : (h ++ [x.toQM])[h.length]? = some x.toQM := by simp
  unfold progSubPromoteLeft
  rw [exec_cons_ok h (h ++ [x.toQM]) _ _ (by simp [step, ha])]
  rw [exec_cons_ok (h ++ [x.toQM]) (h ++ [x.toQM] ++ [x.toQM]) _ _ (by simp [step, e1])]
  have e2 : (h ++ [x.toQM] ++ [x.toQM])[h.length + 1]? = some x.toQM := by
    rw [List.append_assoc]; exact get_new1 h _ _ []
  have e3 : (h ++ [x.toQM] ++ [x.toQM])[b]? = some y := by rw [List.append_assoc]; exact get_old h _ b y hb
  rw [exec_negUpd (h ++ [x.toQM] ++ [x.toQM]) (h.length + 1) b x.toQM y e2 e3 rfl (by omega)]
  simp [mSub, hx, hy]
  rfl

/-- `QM - BQM` (`BQM.__rsub__`): `other - from_bqm(self)` -/
theorem exec_subPromoteRight (h : Store) (a b : Nat) (x y : Model) (ha : h[a]? = some x) (hb : h[b]? = some y)
    (hx : x.isQM = true) (hy : y.isQM = false) :
    (exec h (progSubPromoteRight a b h.length)).map (fun h' => h'[h.length + 1]?) = (mSub x y).map some := by
  have hal := lt_of_get h a x ha
  have e1 : (h ++ [y.toQM])[a]? = some x := get_old h _ a x ha
  unfold progSubPromoteRight
  rw [exec_cons_ok h (h ++ [y.toQM]) _ _ (by simp [step, hb])]
  rw [exec_cons_ok (h ++ [y.toQM]) (h ++ [y.toQM] ++ [x]) _ _ (by simp [step, e1])]
  have e2 : (h ++ [y.toQM] ++ [x])[h.length + 1]? = some x := by
    rw [List.append_assoc]; exact get_new1 h _ _ []
  have e3 : (h ++ [y.toQM] ++ [x])[h.length]? = some y.toQM := by simp
  rw [exec_negUpd (h ++ [y.toQM] ++ [x]) (h.length + 1) h.length x y.toQM e2 e3 hx (by omega)]
  simp [mSub, hx, hy]
  rfl

/-- `BQM * QM`: `qm = from_bqm(self); qm *= other` -/
theorem exec_mulPromoteLeft (h : Store) (a b : Nat) (x y : Model) (ha : h[a]? = some x) (hb : h[b]? = some y)
    (hx : x.isQM = false) (hy : y.isQM = true) :
    (exec h (progMulPromoteLeft a b h.length)).map (fun h' => h'[h.length + 1]?) = (mMul x y).map some := by
  have e1 : (h ++ [x.toQM])[h.length]? = some x.toQM := by simp
  have e2 : (h ++ [x.toQM])[b]? = some y := get_old h _ b y hb
  simp only [progMulPromoteLeft, exec, step, ha, e1, e2]
  have hm : mMul x y = qmMul x.toQM y := by simp [mMul, hx, hy]
  have hu : mulObj x.toQM y = qmMul x.toQM y := by simp [mulObj, Model.toQM]
  rw [hm, hu]
  cases qmMul x.toQM y with
  | error e => rfl
  | ok m =>
    simp only [exec, Except.map]
    rw [List.append_assoc]
    simp [get_new1]

/-- `QM * BQM` (`BQM.__rmul__`): `qm = from_bqm(self); qm *= other` -/
theorem exec_mulPromoteRight (h : Store) (a b : Nat) (x y : Model) (ha : h[a]? = some x) (hb : h[b]? = some y)
    (hx : x.isQM = true) (hy : y.isQM = false) :
    (exec h (progMulPromoteRight a b h.length)).map (fun h' => h'[h.length + 1]?) = (mMul x y).map some := by
  have e1 : (h ++ [y.toQM])[h.length]? = some y.toQM := by simp
  have e2 : (h ++ [y.toQM])[a]? = some x := get_old h _ a x ha
  simp only [progMulPromoteRight, exec, step, hb, e1, e2]
  have hm : mMul x y = qmMul y.toQM x := by simp [mMul, hx, hy]
  have hu : mulObj y.toQM x = qmMul y.toQM x := by simp [mulObj, Model.toQM]
  rw [hm, hu]
  cases qmMul y.toQM x with
  | error e => rfl
  | ok m =>
    simp only [exec, Except.map]
    rw [List.append_assoc]
    simp [get_new1]

/-- `BQM * BQM` of different vartypes (both linear): `from_bqm(self) * other` → `BQM.__rmul__` -/
theorem exec_mulPromoteBoth (h : Store) (a b : Nat) (x y : Model) (ha : h[a]? = some x) (hb : h[b]? = some y)
    (hx : x.isQM = false) (hy : y.isQM = false) (hd : bqmDiffer x y = true)
    (hl : x.isLinear = true ∧ y.isLinear = true) :
    (exec h (progMulPromoteBoth a b h.length)).map (fun h' => h'[h.length + 2]?) = (mMul x y).map some := by
  have e1 : (h ++ [y.toQM])[a]? = some x := get_old h _ a x ha
  have e2 : (h ++ [y.toQM] ++ [x.toQM])[h.length]? = some y.toQM := by simp
  have e3 : (h ++ [y.toQM] ++ [x.toQM])[h.length + 1]? = some x.toQM := by
    rw [List.append_assoc]; exact get_new1 h _ _ []
  simp only [progMulPromoteBoth, exec, step, hb, e1, e2, e3]
  have hm : mMul x y = qmMul y.toQM x.toQM := by simp [mMul, hx, hy, hd, hl]
  have hu : mulObj y.toQM x.toQM = qmMul y.toQM x.toQM := by simp [mulObj, Model.toQM]
  rw [hm, hu]
  cases qmMul y.toQM x.toQM with
  | error e => rfl
  | ok m =>
    simp only [exec, Except.map]
    have : (h ++ [y.toQM] ++ [x.toQM] ++ [m])[h.length + 2]? = some m := by
      rw [List.getElem?_append_right (by simp)]; simp
    rw [this]

end Sym
