import DimodModel.SymStore
import DimodProofs.SymTree

/-! C06 `operands_unchanged`: the frame property of the operator programs, and their values. -/

namespace Sym

theorem step_frame (h h' : Store) (i : Instr) (n : Nat) (hn : n ≤ h.length)
    (ht : ∀ d, i.target = some d → n ≤ d) (hs : step h i = .ok h') :
    h.length ≤ h'.length ∧ ∀ j, j < n → h'[j]? = h[j]? := by
  cases i with
  | copy s =>
    simp only [step] at hs
    split at hs
    · simp only [Except.ok.injEq] at hs; subst hs
      exact ⟨by simp, fun j hj => by rw [List.getElem?_append_left (by omega)]⟩
    · simp at hs
  | fromBqm s =>
    simp only [step] at hs
    split at hs
    · simp only [Except.ok.injEq] at hs; subst hs
      exact ⟨by simp, fun j hj => by rw [List.getElem?_append_left (by omega)]⟩
    · simp at hs
  | mulNew a b =>
    simp only [step] at hs
    split at hs
    · split at hs
      · simp only [Except.ok.injEq] at hs; subst hs
        exact ⟨by simp, fun j hj => by rw [List.getElem?_append_left (by omega)]⟩
      · simp at hs
    · simp at hs
  | scale d q =>
    have hd := ht d rfl
    simp only [step] at hs
    split at hs
    · simp only [Except.ok.injEq] at hs; subst hs
      exact ⟨by simp [setAt], fun j hj => by simp only [setAt]; rw [List.getElem?_set_ne (by omega)]⟩
    · simp at hs
  | addOffset d q =>
    have hd := ht d rfl
    simp only [step] at hs
    split at hs
    · simp only [Except.ok.injEq] at hs; subst hs
      exact ⟨by simp [setAt], fun j hj => by simp only [setAt]; rw [List.getElem?_set_ne (by omega)]⟩
    · simp at hs
  | update d s =>
    have hd := ht d rfl
    simp only [step] at hs
    split at hs
    · split at hs
      · simp only [Except.ok.injEq] at hs; subst hs
        exact ⟨by simp [setAt], fun j hj => by simp only [setAt]; rw [List.getElem?_set_ne (by omega)]⟩
      · simp at hs
    · simp at hs

/-- **frame**: a program whose in-place instructions all target objects at positions ≥ `n` leaves every
    object below `n` exactly as it was -/
theorem exec_frame (p : List Instr) (h h' : Store) (n : Nat) (hn : n ≤ h.length) (hw : WritesFresh n p = true)
    (he : exec h p = .ok h') : ∀ j, j < n → h'[j]? = h[j]? := by
  induction p generalizing h with
  | nil => simp only [exec, Except.ok.injEq] at he; subst he; intro j _; rfl
  | cons i is ih =>
    simp only [exec] at he
    split at he
    · rename_i h1 hs
      simp only [WritesFresh, List.all_cons, Bool.and_eq_true] at hw
      have ht : ∀ d, i.target = some d → n ≤ d := by
        intro d hd
        have := hw.1
        rw [hd] at this
        simpa using this
      obtain ⟨hl, hf⟩ := step_frame h h1 i n hn ht hs
      intro j hj
      rw [ih h1 (by omega) hw.2 he j hj, hf j hj]
    · simp at he

/-- every non-in-place operator body writes only to what it allocated -/
theorem programs_write_fresh (a b n : Nat) (q : Rat) :
    WritesFresh n (progAddSame a b n) = true ∧ WritesFresh n (progAddPromoteBoth a b n) = true ∧
    WritesFresh n (progAddPromoteLeft a b n) = true ∧ WritesFresh n (progAddPromoteRight a b n) = true ∧
    WritesFresh n (progSubSame a b n) = true ∧ WritesFresh n (progSubPromoteBoth a b n) = true ∧
    WritesFresh n (progSubPromoteLeft a b n) = true ∧ WritesFresh n (progSubPromoteRight a b n) = true ∧
    WritesFresh n (progAddNum a q n) = true ∧ WritesFresh n (progRsubNum a q n) = true ∧
    WritesFresh n (progScale a q n) = true ∧ WritesFresh n (progMulSame a b n) = true ∧
    WritesFresh n (progMulPromoteLeft a b n) = true ∧ WritesFresh n (progMulPromoteRight a b n) = true ∧
    WritesFresh n (progMulPromoteBoth a b n) = true := by
  simp [WritesFresh, Instr.target, progAddSame, progAddPromoteBoth, progAddPromoteLeft, progAddPromoteRight,
    progSubSame, progSubPromoteBoth, progSubPromoteLeft, progSubPromoteRight, progAddNum, progRsubNum, progScale,
    progMulSame, progMulPromoteLeft, progMulPromoteRight, progMulPromoteBoth]

/-- the bodies of all non-in-place operators, for operands at `a`, `b`, a number `q`, first free position `n` -/
def nonInplacePrograms (a b : Nat) (q : Rat) (n : Nat) : List (List Instr) :=
  [progAddSame a b n, progAddPromoteBoth a b n, progAddPromoteLeft a b n, progAddPromoteRight a b n,
   progSubSame a b n, progSubPromoteBoth a b n, progSubPromoteLeft a b n, progSubPromoteRight a b n,
   progAddNum a q n, progRsubNum a q n, progScale a q n,
   progMulSame a b n, progMulPromoteLeft a b n, progMulPromoteRight a b n, progMulPromoteBoth a b n]

theorem nonInplace_writes_fresh (a b : Nat) (q : Rat) (n : Nat) : ∀ p ∈ nonInplacePrograms a b q n, WritesFresh n p = true := by
  intro p hp
  obtain ⟨h1, h2, h3, h4, h5, h6, h7, h8, h9, h10, h11, h12, h13, h14, h15⟩ := programs_write_fresh a b n q
  simp only [nonInplacePrograms, List.mem_cons, List.not_mem_nil, or_false] at hp
  rcases hp with rfl | rfl | rfl | rfl | rfl | rfl | rfl | rfl | rfl | rfl | rfl | rfl | rfl | rfl | rfl <;> assumption

/-- the in-place `+=` is *not* of that kind: it writes to its left operand (by design) -/
theorem iadd_writes_operand (a b : Nat) : WritesFresh (a + 1) (progIaddSame a b) = false := by
  simp [WritesFresh, Instr.target, progIaddSame]

/-! ### the programs compute the functional values -/

theorem exec_addSame (h : Store) (a b : Nat) (x y : Model) (ha : h[a]? = some x) (hb : h[b]? = some y)
    (hcls : x.isQM = y.isQM) (hd : x.isQM = false → bqmDiffer x y = false) :
    (exec h (progAddSame a b h.length)).map (fun h' => h'[h.length]?) = (mAdd x y).map some := by
  have hal : a < h.length := by
    rcases Nat.lt_or_ge a h.length with h1 | h1
    · exact h1
    · rw [List.getElem?_eq_none h1] at ha; simp at ha
  have hbl : b < h.length := by
    rcases Nat.lt_or_ge b h.length with h1 | h1
    · exact h1
    · rw [List.getElem?_eq_none h1] at hb; simp at hb
  simp only [progAddSame, exec, step, ha]
  have h1 : (h ++ [x])[h.length]? = some x := by simp
  have h2 : (h ++ [x])[b]? = some y := by rw [List.getElem?_append_left hbl]; exact hb
  simp only [h1, h2]
  unfold upd mAdd
  rcases isQM_cases x with hq | hq
  · have hqy : y.isQM = true := by rw [← hcls]; exact hq
    simp only [hq, hqy, if_true]
    cases hu : qmUpdate x y with
    | error e => simp [Except.map]
    | ok m => simp [Except.map, setAt]
  · have hqy : y.isQM = false := by rw [← hcls]; exact hq
    simp only [hq, hqy, Bool.false_eq_true, if_false, hd hq]
    simp [Except.map, setAt]

theorem lt_of_get (h : Store) (a : Nat) (x : Model) (ha : h[a]? = some x) : a < h.length := by
  rcases Nat.lt_or_ge a h.length with h1 | h1
  · exact h1
  · rw [List.getElem?_eq_none h1] at ha; simp at ha

/-- `model * number`, `-model`, `model / number` -/
theorem exec_scale (h : Store) (a : Nat) (x : Model) (q : Rat) (ha : h[a]? = some x) :
    (exec h (progScale a q h.length)).map (fun h' => h'[h.length]?) = .ok (some (x.scale q)) := by
  simp only [progScale, exec, step, ha]
  have h1 : (h ++ [x])[h.length]? = some x := by simp
  simp [h1, Except.map, setAt]

/-- `model + number` -/
theorem exec_addNum (h : Store) (a : Nat) (x : Model) (q : Rat) (ha : h[a]? = some x) :
    (exec h (progAddNum a q h.length)).map (fun h' => h'[h.length]?) = .ok (some (x.addOffset q)) := by
  simp only [progAddNum, exec, step, ha]
  have h1 : (h ++ [x])[h.length]? = some x := by simp
  simp [h1, Except.map, setAt]

/-- `number - model` -/
theorem exec_rsubNum (h : Store) (a : Nat) (x : Model) (q : Rat) (ha : h[a]? = some x) :
    (exec h (progRsubNum a q h.length)).map (fun h' => h'[h.length]?) = .ok (some ((x.scale (-1)).addOffset q)) := by
  simp only [progRsubNum, exec, step, ha]
  have h1 : (h ++ [x])[h.length]? = some x := by simp
  simp [h1, Except.map, setAt]

/-- same-class product -/
theorem exec_mulSame (h : Store) (a b : Nat) (x y : Model) (ha : h[a]? = some x) (hb : h[b]? = some y)
    (hcls : x.isQM = y.isQM) (hd : x.isQM = false → bqmDiffer x y = false) :
    (exec h (progMulSame a b h.length)).map (fun h' => h'[h.length]?) = (mMul x y).map some := by
  simp only [progMulSame, exec, step, ha, hb]
  unfold mulObj mMul
  rcases isQM_cases x with hq | hq
  · have hqy : y.isQM = true := by rw [← hcls]; exact hq
    simp only [hq, hqy, if_true]
    cases hu : qmMul x y with
    | error e => simp [Except.map]
    | ok m => simp [Except.map]
  · have hqy : y.isQM = false := by rw [← hcls]; exact hq
    simp only [hq, hqy, Bool.false_eq_true, if_false, hd hq]
    by_cases hl : x.isLinear = true ∧ y.isLinear = true
    · simp only [hl, and_self, not_true_eq_false, if_false]
      cases hu : bqmMulSame x y with
      | error e => simp [Except.map]
      | ok m => simp [Except.map]
    · simp [hl, Except.map]

end Sym
