import DimodProofs.LpText
import DimodProofs.LpRound

/-! C12, lexical layer (second half, part 2): the word-level lexer gives back the writer's tokens. -/

namespace Lp

def absQ (b : Rat) : Rat := if b < 0 then -b else b

/-- numbers and labels inside a token are read back: the text↔value oracle.  For a coefficient the printed
    magnitude `showAbs b` parses as `|b|`, for a right-hand side / bound `showFloat q` parses as `q`; a label is a
    string that is not one of the grammar's own words. -/
def TokLexOK : Tok → Prop
  | .lin b v => parseDec (showAbs b) = some (absQ b) ∧ ∃ s, v = .str s ∧ classify s = .other
  | .qterm b u v => parseDec (showAbs b) = some (absQ b) ∧ (∃ s, u = .str s ∧ classify s = .other) ∧ (∃ s, v = .str s ∧ classify s = .other)
  | .const b => parseDec (showAbs b) = some (absQ b)
  | .clabel l => ∃ s, l = .str s
  | .cmp _ rhs => parseDec (showFloat rhs) = some rhs
  | .bound lb v ub => parseDec (showFloat lb) = some lb ∧ parseDec (showFloat ub) = some ub ∧ ∃ s, v = .str s
  | .name v => ∃ s, v = .str s ∧ classify s = .other
  | _ => True

def specials : List String := wordTable.map (·.1)

theorem classify_other_or_special (w : String) : classify w = .other ∨ w ∈ specials := by
  unfold classify specials
  cases hf : wordTable.find? (fun p => p.1 = w) with
  | none => left; rfl
  | some p =>
    right
    have hm := List.mem_of_find?_eq_some hf
    have hw : p.1 = w := by simpa using List.find?_some hf
    exact List.mem_map.mpr ⟨p, hm, hw⟩

theorem parseDec_specials : ∀ w ∈ specials, parseDec w = none := by decide

theorem lastIsColon_specials : ∀ w ∈ specials, lastIsColon w = true → classify w = .obj := by decide

/-- a word that parses as a number is none of the grammar's own words -/
theorem classify_of_parse (w : String) (q : Rat) (h : parseDec w = some q) : classify w = .other := by
  rcases classify_other_or_special w with h1 | h1
  · exact h1
  · rw [parseDec_specials w h1] at h; cases h

theorem classify_sign (b : Rat) : classify (signText b) = (if b < 0 then .minus else .plus) := by
  unfold signText; split <;> decide

theorem signed_abs (b : Rat) : (if (decide (b < 0)) = true then -(absQ b) else absQ b) = b := by
  unfold absQ
  by_cases h : b < 0 <;> simp [h]

/-- a word ending in `:` is none of the symbols or keywords of an expression -/
theorem classify_colon (s : String) : classify (s ++ ":") = .obj ∨ classify (s ++ ":") = .other := by
  have hl : lastIsColon (s ++ ":") = true := by simp [lastIsColon, String.toList_append]
  rcases classify_other_or_special (s ++ ":") with h1 | h1
  · exact Or.inr h1
  · exact Or.inl (lastIsColon_specials _ h1 hl)

theorem lastIsColon_append (s : String) : lastIsColon (s ++ ":") = true := by simp [lastIsColon, String.toList_append]

theorem dropColon (s : String) : String.ofList ((s ++ ":").toList.dropLast) = s := by
  simp [String.toList_append]

/-! ### one token at a time (states are written out: everything not shown has its default value) -/

theorem lex_lin (md : LMode) (hmd : md = .objective ∨ md = .constraints) (o : List Tok) (b : Rat) (s : String)
    (hn : parseDec (showAbs b) = some (absQ b)) (hs : classify s = .other) :
    [signText b, showAbs b, s].foldl lstep { mode := md, out := o } = { mode := md, out := o ++ [Tok.lin b (.str s)] } := by
  have hc := classify_of_parse _ _ hn
  have hsg := classify_sign b
  rcases hmd with rfl | rfl <;> by_cases hb : b < 0 <;>
    simp [lstep, exprStep, exprWord, hsg, hb, hc, hs, hn, LState.flush, LState.emit, signed, absQ]

theorem lex_const_pending (o : List Tok) (b : Rat) (hn : parseDec (showAbs b) = some (absQ b)) :
    [signText b, showAbs b].foldl lstep { mode := .objective, out := o } =
      { mode := .objective, out := o, neg := some (decide (b < 0)), num := some (absQ b) } := by
  have hc := classify_of_parse _ _ hn
  have hsg := classify_sign b
  by_cases hb : b < 0 <;> simp [lstep, exprStep, exprWord, hsg, hb, hc, hn, LState.flush]

theorem lex_qopen (md : LMode) (hmd : md = .objective ∨ md = .constraints) (o : List Tok) :
    ["+", "["].foldl lstep { mode := md, out := o } = { mode := md, out := o ++ [Tok.qopen], inQ := true } := by
  have h1 : classify "+" = .plus := by decide
  have h2 : classify "[" = .lbr := by decide
  rcases hmd with rfl | rfl <;> simp [lstep, exprStep, h1, h2, LState.flush, LState.emit]

theorem lex_qterm (md : LMode) (hmd : md = .objective ∨ md = .constraints) (o : List Tok) (b : Rat) (u v : String)
    (hn : parseDec (showAbs b) = some (absQ b)) (hu : classify u = .other) (hv : classify v = .other) :
    [signText b, showAbs b, u, "*", v].foldl lstep { mode := md, out := o, inQ := true } =
      { mode := md, out := o ++ [Tok.qterm b (.str u) (.str v)], inQ := true } := by
  have hc := classify_of_parse _ _ hn
  have hsg := classify_sign b
  have hst : classify "*" = .star := by decide
  rcases hmd with rfl | rfl <;> by_cases hb : b < 0 <;>
    simp [lstep, exprStep, exprWord, hsg, hb, hc, hu, hv, hst, hn, LState.flush, LState.emit, signed, absQ]

theorem lex_qcloseHalf (o : List Tok) :
    ["]/2"].foldl lstep { mode := .objective, out := o, inQ := true } = { mode := .objective, out := o ++ [Tok.qcloseHalf] } := by
  have h1 : classify "]/2" = .rbrHalf := by decide
  simp [lstep, exprStep, h1, LState.emit]

theorem lex_qclose (o : List Tok) :
    ["]"].foldl lstep { mode := .constraints, out := o, inQ := true } = { mode := .constraints, out := o ++ [Tok.qclose] } := by
  have h1 : classify "]" = .rbr := by decide
  simp [lstep, exprStep, h1, LState.emit]

theorem lex_clabel (o : List Tok) (s : String) :
    [s ++ ":"].foldl lstep { mode := .constraints, out := o } = { mode := .constraints, out := o ++ [Tok.clabel (.str s)] } := by
  rcases classify_colon s with h | h <;>
    simp [lstep, exprStep, exprWord, h, lastIsColon_append, dropColon, LState.emit]

theorem lex_cmp (o : List Tok) (sn : Sense) (rhs : Rat) (hn : parseDec (showFloat rhs) = some rhs) :
    [senseText sn, showFloat rhs].foldl lstep { mode := .constraints, out := o } = { mode := .constraints, out := o ++ [Tok.cmp sn rhs] } := by
  have hc := classify_of_parse _ _ hn
  have h1 : classify "<=" = .le := by decide
  have h2 : classify ">=" = .ge := by decide
  have h3 : classify "=" = .eq := by decide
  cases sn <;> simp [lstep, exprStep, exprWord, senseText, h1, h2, h3, hc, hn, LState.emit]

theorem lex_bound (o : List Tok) (lb ub : Rat) (s : String)
    (hl : parseDec (showFloat lb) = some lb) (hu : parseDec (showFloat ub) = some ub) :
    [showFloat lb, "<=", s, "<=", showFloat ub].foldl lstep { mode := .bnds, out := o } =
      { mode := .bnds, out := o ++ [Tok.bound lb (.str s) ub] } := by
  have hc := classify_of_parse _ _ hl
  simp [lstep, boundStep, hc, hl, hu, LState.emit]

theorem lex_name_bin (o : List Tok) (s : String) (hs : classify s = .other) :
    [s].foldl lstep { mode := .bin, out := o } = { mode := .bin, out := o ++ [Tok.name (.str s)] } := by
  simp [lstep, hs, LState.emit]

theorem lex_name_gen (o : List Tok) (s : String) (hs : classify s = .other) :
    [s].foldl lstep { mode := .gen, out := o } = { mode := .gen, out := o ++ [Tok.name (.str s)] } := by
  simp [lstep, hs, LState.emit]

end Lp

namespace Lp

/-! ### lists of tokens -/

/-- reading the words of `t` in the ready state of mode `md` (inside `[ … ]` if `inq`) appends `t` -/
def StepTok (md : LMode) (inq : Bool) (t : Tok) : Prop :=
  ∀ o, (tokWords t).foldl lstep { mode := md, out := o, inQ := inq } = { mode := md, out := o ++ [t], inQ := inq }

theorem foldl_toks (md : LMode) (inq : Bool) (l : List Tok) (h : ∀ t ∈ l, StepTok md inq t) (o : List Tok) :
    (l.flatMap tokWords).foldl lstep { mode := md, out := o, inQ := inq } = { mode := md, out := o ++ l, inQ := inq } := by
  induction l generalizing o with
  | nil => simp
  | cons t r ih =>
    simp only [List.flatMap_cons, List.foldl_append]
    rw [h t List.mem_cons_self o, ih (fun x hx => h x (List.mem_cons_of_mem _ hx))]
    simp

theorem step_lin (md : LMode) (hmd : md = .objective ∨ md = .constraints) (b : Rat) (v : Label) (h : TokLexOK (.lin b v)) :
    StepTok md false (.lin b v) := by
  obtain ⟨hn, s, rfl, hs⟩ := h
  intro o
  exact lex_lin md hmd o b s hn hs

theorem step_qterm (md : LMode) (hmd : md = .objective ∨ md = .constraints) (b : Rat) (u v : Label) (h : TokLexOK (.qterm b u v)) :
    StepTok md true (.qterm b u v) := by
  obtain ⟨hn, ⟨su, rfl, hu⟩, ⟨sv, rfl, hv⟩⟩ := h
  intro o
  exact lex_qterm md hmd o b su sv hn hu hv

theorem lex_linToks (md : LMode) (hmd : md = .objective ∨ md = .constraints) (l : List (Label × Rat))
    (h : ∀ t ∈ linToks l, TokLexOK t) (o : List Tok) :
    ((linToks l).flatMap tokWords).foldl lstep { mode := md, out := o } = { mode := md, out := o ++ linToks l } := by
  have := foldl_toks md false (linToks l) (by
    intro t ht
    have hk := h t ht
    simp only [linToks, List.mem_map] at ht
    obtain ⟨p, _, rfl⟩ := ht
    exact step_lin md hmd _ _ hk) o
  simpa using this

theorem lex_qterms (md : LMode) (hmd : md = .objective ∨ md = .constraints) (l : List Tok)
    (hform : ∀ t ∈ l, ∃ b u v, t = Tok.qterm b u v) (h : ∀ t ∈ l, TokLexOK t) (o : List Tok) :
    (l.flatMap tokWords).foldl lstep { mode := md, out := o, inQ := true } = { mode := md, out := o ++ l, inQ := true } :=
  foldl_toks md true l (by
    intro t ht
    obtain ⟨b, u, v, rfl⟩ := hform t ht
    exact step_qterm md hmd b u v (h _ ht)) o

/-! ### keywords -/

theorem lex_subject_to (md : LMode) (hmd : md = .start ∨ md = .objective) (o : List Tok) :
    ["Subject", "To"].foldl lstep { mode := md, out := o } = { mode := .constraints, out := o ++ [Tok.blank2, Tok.subjectTo] } := by
  have h1 : classify "Subject" = .subject := by decide
  have h2 : classify "To" = .to := by decide
  rcases hmd with rfl | rfl <;> simp [lstep, h1, h2, LState.flush, LState.emit]

theorem lex_subject_to_pending (o : List Tok) (n : Bool) (a : Rat) :
    ["Subject", "To"].foldl lstep { mode := .objective, out := o, neg := some n, num := some a } =
      { mode := .constraints, out := o ++ [Tok.const (if n then -a else a), Tok.blank2, Tok.subjectTo] } := by
  have h1 : classify "Subject" = .subject := by decide
  have h2 : classify "To" = .to := by decide
  simp [lstep, h1, h2, LState.flush, LState.emit]

theorem lex_header (o : List Tok) :
    ["Minimize", "obj:"].foldl lstep { mode := .start, out := o } = { mode := .objective, out := o ++ [Tok.minimize, Tok.objLabel] } := by
  have h1 : classify "Minimize" = .minimize := by decide
  have h2 : classify "obj:" = .obj := by decide
  simp [lstep, h1, h2, LState.emit]

theorem lex_bounds_kw (o : List Tok) :
    ["Bounds"].foldl lstep { mode := .constraints, out := o } = { mode := .bnds, out := o ++ [Tok.nl, Tok.bounds] } := by
  have h1 : classify "Bounds" = .bounds := by decide
  simp [lstep, h1, LState.emit]

theorem lex_binary_kw (o : List Tok) :
    ["Binary"].foldl lstep { mode := .bnds, out := o } = { mode := .bin, out := o ++ [Tok.nl, Tok.section false] } := by
  have h1 : classify "Binary" = .binary := by decide
  simp [lstep, h1, LState.emit]

theorem lex_general_kw (o : List Tok) :
    ["General"].foldl lstep { mode := .bin, out := o } = { mode := .gen, out := o ++ [Tok.nl, Tok.section true] } := by
  have h1 : classify "General" = .general := by decide
  simp [lstep, h1, LState.emit]

theorem lex_end_kw (o : List Tok) :
    ["End"].foldl lstep { mode := .gen, out := o } = { mode := .done, out := o ++ [Tok.nl, Tok.end_] } := by
  have h1 : classify "End" = .end_ := by decide
  simp [lstep, h1, LState.emit]

end Lp

namespace Lp

theorem flatMap_words_append (a b : List Tok) : (a ++ b).flatMap tokWords = a.flatMap tokWords ++ b.flatMap tokWords := by simp

/-- the body of the objective, after the header -/
def objBody (e : LExpr) : List Tok :=
  linToks e.lin ++
  (if e.quad.isEmpty then [] else [Tok.qopen] ++ e.quad.map (fun (u, v, b) => Tok.qterm (2 * b) u v) ++ [Tok.qcloseHalf]) ++
  (if e.off = 0 then [] else [Tok.const e.off])

theorem objToks_eq (e : LExpr) : objToks e = if (objBody e).isEmpty then [] else [Tok.minimize, Tok.objLabel] ++ objBody e := rfl

/-- the objective body read in mode `objective`, followed by `Subject To` -/
theorem lex_objBody (e : LExpr) (h : ∀ t ∈ objBody e, TokLexOK t) (o : List Tok) :
    ((objBody e).flatMap tokWords ++ ["Subject", "To"]).foldl lstep { mode := .objective, out := o } =
      { mode := .constraints, out := o ++ objBody e ++ [Tok.blank2, Tok.subjectTo] } := by
  unfold objBody at h ⊢
  have hlin : ∀ t ∈ linToks e.lin, TokLexOK t := fun t ht => h t (by simp [ht])
  rw [List.foldl_append, flatMap_words_append, flatMap_words_append, List.foldl_append, List.foldl_append,
    lex_linToks .objective (Or.inl rfl) e.lin hlin o]
  -- the quadratic part
  have hq : ∀ o1 : List Tok,
      ((if e.quad.isEmpty then [] else [Tok.qopen] ++ e.quad.map (fun (u, v, b) => Tok.qterm (2 * b) u v) ++ [Tok.qcloseHalf]).flatMap tokWords).foldl lstep
        { mode := .objective, out := o1 } =
      { mode := .objective, out := o1 ++ (if e.quad.isEmpty then [] else [Tok.qopen] ++ e.quad.map (fun (u, v, b) => Tok.qterm (2 * b) u v) ++ [Tok.qcloseHalf]) } := by
    intro o1
    by_cases hqe : e.quad.isEmpty = true
    · simp [hqe]
    · have hqt : ∀ t ∈ e.quad.map (fun (u, v, b) => Tok.qterm (2 * b) u v), TokLexOK t := by
        intro t ht; apply h t; simp [hqe, ht]
      simp only [hqe, Bool.false_eq_true, if_false, flatMap_words_append, List.foldl_append]
      have e1 : [Tok.qopen].flatMap tokWords = ["+", "["] := rfl
      have e2 : [Tok.qcloseHalf].flatMap tokWords = ["]/2"] := rfl
      rw [e1, lex_qopen .objective (Or.inl rfl) o1,
        lex_qterms .objective (Or.inl rfl) _ (by
          intro t ht
          obtain ⟨⟨u, v, b⟩, _, rfl⟩ := List.mem_map.mp ht
          exact ⟨_, _, _, rfl⟩) hqt, e2, lex_qcloseHalf]
      simp [List.append_assoc]
  rw [hq]
  by_cases ho : e.off = 0
  · simp only [ho, if_true, List.flatMap_nil, List.foldl_nil, List.append_nil]
    rw [lex_subject_to .objective (Or.inr rfl)]
    simp [List.append_assoc]
  · have hc : TokLexOK (.const e.off) := h _ (by simp [ho])
    simp only [ho, if_false]
    have e1 : [Tok.const e.off].flatMap tokWords = [signText e.off, showAbs e.off] := rfl
    rw [e1, lex_const_pending _ e.off hc, lex_subject_to_pending, signed_abs]
    simp [List.append_assoc]

/-- the whole objective section from the initial state -/
theorem lex_obj (e : LExpr) (h : ∀ t ∈ objToks e, TokLexOK t) :
    ((objToks e ++ [Tok.blank2, Tok.subjectTo]).flatMap tokWords).foldl lstep {} =
      { mode := .constraints, out := objToks e ++ [Tok.blank2, Tok.subjectTo] } := by
  rw [objToks_eq] at h ⊢
  by_cases hb : (objBody e).isEmpty = true
  · simp only [hb, if_true, List.nil_append]
    have : [Tok.blank2, Tok.subjectTo].flatMap tokWords = ["Subject", "To"] := rfl
    rw [this]
    exact lex_subject_to .start (Or.inl rfl) []
  · simp only [hb, Bool.false_eq_true, if_false] at h ⊢
    have hbody : ∀ t ∈ objBody e, TokLexOK t := fun t ht => h t (by simp [ht])
    have e1 : (([Tok.minimize, Tok.objLabel] ++ objBody e ++ [Tok.blank2, Tok.subjectTo]).flatMap tokWords) =
        ["Minimize", "obj:"] ++ ((objBody e).flatMap tokWords ++ ["Subject", "To"]) := by
      simp only [flatMap_words_append]; rfl
    rw [e1, List.foldl_append]
    have := lex_header []
    simp only [List.nil_append] at this
    rw [show ({} : LState) = { mode := .start, out := [] } from rfl, this, lex_objBody e hbody]

/-- one constraint -/
theorem lex_con (c : LCon) (h : ∀ t ∈ conToks c, TokLexOK t) (o : List Tok) :
    ((conToks c).flatMap tokWords).foldl lstep { mode := .constraints, out := o } = { mode := .constraints, out := o ++ conToks c } := by
  unfold conToks at h ⊢
  obtain ⟨s, hs⟩ : TokLexOK (.clabel c.label) := h _ (by simp)
  have hlin : ∀ t ∈ linToks c.lhs.lin, TokLexOK t := fun t ht => h t (by simp [ht])
  have hcmp : TokLexOK (.cmp c.sense (c.rhs - c.lhs.off)) := h _ (by simp)
  simp only [flatMap_words_append, List.foldl_append]
  have e1 : [Tok.clabel c.label].flatMap tokWords = [s ++ ":"] := by simp [tokWords, hs, labelText]
  have e3 : [Tok.cmp c.sense (c.rhs - c.lhs.off)].flatMap tokWords = [senseText c.sense, showFloat (c.rhs - c.lhs.off)] := rfl
  rw [e1, lex_clabel, lex_linToks .constraints (Or.inr rfl) _ hlin]
  by_cases hqe : c.lhs.quad.isEmpty = true
  · simp only [hqe, if_true, List.flatMap_nil, List.foldl_nil]
    rw [e3, lex_cmp _ _ _ hcmp]
    simp [hs, List.append_assoc]
  · have hqt : ∀ t ∈ c.lhs.quad.map (fun (u, v, b) => Tok.qterm b u v), TokLexOK t := by
      intro t ht; apply h t; simp [hqe, ht]
    simp only [hqe, Bool.false_eq_true, if_false, flatMap_words_append, List.foldl_append]
    have e4 : [Tok.qopen].flatMap tokWords = ["+", "["] := rfl
    have e5 : [Tok.qclose].flatMap tokWords = ["]"] := rfl
    rw [e4, lex_qopen .constraints (Or.inr rfl),
      lex_qterms .constraints (Or.inr rfl) _ (by
        intro t ht
        obtain ⟨⟨u, v, b⟩, _, rfl⟩ := List.mem_map.mp ht
        exact ⟨_, _, _, rfl⟩) hqt, e5, lex_qclose, e3, lex_cmp _ _ _ hcmp]
    simp [hs, List.append_assoc]

theorem lex_cons (cs : List LCon) (h : ∀ t ∈ cs.flatMap conToks, TokLexOK t) (o : List Tok) :
    ((cs.flatMap conToks).flatMap tokWords).foldl lstep { mode := .constraints, out := o } =
      { mode := .constraints, out := o ++ cs.flatMap conToks } := by
  induction cs generalizing o with
  | nil => simp
  | cons c t ih =>
    simp only [List.flatMap_cons, flatMap_words_append, List.foldl_append]
    rw [lex_con c (fun x hx => h x (by simp [hx])), ih (fun x hx => h x (by
      simp only [List.flatMap_cons, List.mem_append]; exact Or.inr hx))]
    simp [List.append_assoc]

theorem lex_boundToks (vs : List LVar) (h : ∀ t ∈ boundToks vs, TokLexOK t) (o : List Tok) :
    ((boundToks vs).flatMap tokWords).foldl lstep { mode := .bnds, out := o } = { mode := .bnds, out := o ++ boundToks vs } := by
  have := foldl_toks .bnds false (boundToks vs) (by
    intro t ht
    have hk := h t ht
    simp only [boundToks, List.mem_map] at ht
    obtain ⟨v, _, rfl⟩ := ht
    obtain ⟨hl, hu, s, hs⟩ := hk
    intro o
    have : tokWords (Tok.bound v.lb v.name v.ub) = [showFloat v.lb, "<=", s, "<=", showFloat v.ub] := by simp [tokWords, hs, labelText]
    rw [this, hs]
    have := lex_bound o v.lb v.ub s hl hu
    simpa using this) o
  simpa using this

theorem lex_names (md : LMode) (hmd : md = .bin ∨ md = .gen) (l : List Tok) (hform : ∀ t ∈ l, ∃ v, t = Tok.name v)
    (h : ∀ t ∈ l, TokLexOK t) (o : List Tok) :
    (l.flatMap tokWords).foldl lstep { mode := md, out := o } = { mode := md, out := o ++ l } := by
  have := foldl_toks md false l (by
    intro t ht
    obtain ⟨v, rfl⟩ := hform t ht
    obtain ⟨s, rfl, hs⟩ := h _ ht
    intro o
    have hw : tokWords (Tok.name (.str s)) = [s] := rfl
    rw [hw]
    rcases hmd with rfl | rfl
    · simpa using lex_name_bin o s hs
    · simpa using lex_name_gen o s hs) o
  simpa using this

/-- **the lexer inverts the writer on words**: the words of the writer's tokens, read by `lstep`, give back
    exactly those tokens — numbers through the text↔value oracle `TokLexOK` -/
theorem lex_words (m : LCqm) (ts : List Tok) (h : dumpToks m = .ok ts) (hok : ∀ t ∈ ts, TokLexOK t) :
    (ts.flatMap tokWords).foldl lstep {} = { mode := .done, out := ts } := by
  unfold dumpToks at h
  split at h; · simp at h
  split at h; · simp at h
  split at h; · simp at h
  simp only [Except.ok.injEq] at h
  subst h
  have hshape : objToks m.obj ++ [Tok.blank2, Tok.subjectTo] ++ m.cons.flatMap conToks ++ [Tok.nl, Tok.bounds] ++ boundToks m.vars ++
      sectionToks m.vars ++ [Tok.nl, Tok.end_] =
      (objToks m.obj ++ [Tok.blank2, Tok.subjectTo]) ++ (m.cons.flatMap conToks ++ ([Tok.nl, Tok.bounds] ++ (boundToks m.vars ++
        ([Tok.nl, Tok.section false] ++ ((m.vars.filter (·.vt = .binary)).map (fun v => Tok.name v.name) ++
          ([Tok.nl, Tok.section true] ++ ((m.vars.filter (·.vt = .integer)).map (fun v => Tok.name v.name) ++ [Tok.nl, Tok.end_]))))))) := by
    simp only [sectionToks, List.append_assoc]
  rw [hshape] at hok ⊢
  have k1 : [Tok.nl, Tok.bounds].flatMap tokWords = ["Bounds"] := rfl
  have k2 : [Tok.nl, Tok.section false].flatMap tokWords = ["Binary"] := rfl
  have k3 : [Tok.nl, Tok.section true].flatMap tokWords = ["General"] := rfl
  have k4 : [Tok.nl, Tok.end_].flatMap tokWords = ["End"] := rfl
  rw [flatMap_words_append, List.foldl_append,
    lex_obj m.obj (fun t ht => hok t (by simp only [List.mem_append] at ht ⊢; exact Or.inl (Or.inl ht))),
    flatMap_words_append, List.foldl_append,
    lex_cons m.cons (fun t ht => hok t (by simp only [List.mem_append]; exact Or.inr (Or.inl ht))),
    flatMap_words_append, List.foldl_append, k1, lex_bounds_kw,
    flatMap_words_append, List.foldl_append,
    lex_boundToks m.vars (fun t ht => hok t (by simp only [List.mem_append]; exact Or.inr (Or.inr (Or.inr (Or.inl ht))))),
    flatMap_words_append, List.foldl_append, k2, lex_binary_kw,
    flatMap_words_append, List.foldl_append,
    lex_names .bin (Or.inl rfl) _ (by intro t ht; obtain ⟨v, _, rfl⟩ := List.mem_map.mp ht; exact ⟨_, rfl⟩)
      (fun t ht => hok t (by simp only [List.mem_append]; exact Or.inr (Or.inr (Or.inr (Or.inr (Or.inr (Or.inl ht))))))),
    flatMap_words_append, List.foldl_append, k3, lex_general_kw,
    flatMap_words_append, List.foldl_append,
    lex_names .gen (Or.inr rfl) _ (by intro t ht; obtain ⟨v, _, rfl⟩ := List.mem_map.mp ht; exact ⟨_, rfl⟩)
      (fun t ht => hok t (by simp only [List.mem_append]; exact Or.inr (Or.inr (Or.inr (Or.inr (Or.inr (Or.inr (Or.inr (Or.inl ht))))))))),
    k4, lex_end_kw]
  simp [List.append_assoc]

end Lp

namespace Lp

/-- what is assumed of the text of one token: embedded numbers and labels are blank-free words
    (`TokWordsOK`), numbers parse back to their value and labels are not words of the grammar (`TokLexOK`) -/
def TokTextOK (t : Tok) : Prop := TokWordsOK t ∧ TokLexOK t

/-- **text-level reader ∘ writer**: the LP text `lp.dumps` produces — line breaks included — is read back by the
    specification reader (`words` → `lex` → `readToks`) as the normal form of the model -/
theorem loads_dumps (m : LCqm) (text : String) (h : dumps m = .ok text)
    (hok : ∀ ts, dumpToks m = .ok ts → ∀ t ∈ ts, TokTextOK t) : loads text = some (normCqm m) := by
  unfold dumps at h
  cases hd : dumpToks m with
  | error r => rw [hd] at h; simp at h
  | ok ts =>
    rw [hd] at h
    simp only [Except.ok.injEq] at h
    subst h
    have hw := words_dump m ts hd (fun t ht => (hok ts hd t ht).1)
    have hl := lex_words m ts hd (fun t ht => (hok ts hd t ht).2)
    unfold loads lex
    simp only [hw, hl, if_true, Option.bind_some]
    exact read_dump m ts hd

/-- every character `_validate_label` admits is neither a blank nor a newline (over the generated alphabet) -/
theorem validChars_not_ws : ∀ c ∈ Generated.LpLabels.validChars, isWs c = false := by decide

/-- a label `_validate_label` accepts is a blank-free, non-empty word -/
theorem word_of_validLabel (s : String) (h : validLabel (.str s) = true) : Word s := by
  simp only [validLabel] at h
  cases hcs : s.toList with
  | nil => rw [hcs] at h; simp at h
  | cons c t =>
    rw [hcs] at h
    simp only [Bool.and_eq_true, List.all_eq_true] at h
    refine ⟨by rw [hcs]; simp, ?_⟩
    intro d hd
    rw [hcs] at hd
    have := h.1.1.2 d hd
    simp only [validChar, List.contains_iff_mem] at this
    exact validChars_not_ws d this

end Lp
