import DimodModel.Cqm
import Generated.OnehotTable

/-! Property C05 (round 8) — the tie of `Cons.isOnehot` / `Cqm.flipVariableR` to the source: the statement lists the translator
    `harness/translators/c05_onehot.py` extracts from `Constraint::is_onehot` (constraint.h) and from the Python
    `ConstrainedQuadraticModel.flip_variable` (constrained.py), interpreted on the model. -/

namespace CqmP.OnehotTab
open Cqm

/-- the test a string of `Generated.OnehotTable.rejects` stands for, on the model's constraint (`none` = unknown text) -/
def rejectOf (vt : List VT4) (c : Cons) (t : String) : Option Bool :=
  if t = "!is_linear()||num_variables()<2" then some (!c.e.qb.isLinear || decide (c.e.vars.length < 2))
  else if t = "sense_!=Sense::EQ" then some (decide (c.sense ≠ .eq))
  else if t = "offset()" then some (decide (c.e.qb.off ≠ 0))
  else if t = "for(constauto&v:variables())vartype(v)!=Vartype::BINARY" then
    some (c.e.vars.any (fun g => decide (vt.getD g .spin ≠ .binary)))
  else if t = "for(size_typei=0;i<num_variables();++i)linear(i)!=rhs_" then some (c.e.qb.lin.any (fun x => decide (x ≠ c.rhs)))
  else none

/-- `is_onehot` as the statement list reads: the first test that fires returns false, otherwise the final `return` -/
def onehotBy (final : String) (vt : List VT4) (c : Cons) : List String → Option Bool
  | [] => if final = "true" then some true else if final = "false" then some false else none
  | t :: rest =>
    match rejectOf vt c t with
    | none => none
    | some true => some false
    | some false => onehotBy final vt c rest

/-- the statement list `Cqm.flipVariableR` follows in its BINARY branch: the C++ substitution first (`super().flip_variable(v)`),
    then, for every label that `is_discrete()` NOW, the mark goes if the constraint mentions `v` -/
def flipPythonModelled : List String :=
  ["super().flip_variable(v)", "for label in list(self.discrete)", "lhs = self.constraints[label].lhs", "if v in lhs.variables",
   "self.discrete.discard(label)"]

theorem onehotBy_generated (vt : List VT4) (c : Cons) :
    onehotBy Generated.OnehotTable.finalReturn vt c Generated.OnehotTable.rejects = some (c.isOnehot vt) := by
  have e4 : c.e.vars.any (fun g => decide (vt.getD g .spin ≠ .binary)) = !c.e.vars.all (fun g => decide (vt.getD g .spin = .binary)) := by
    rw [List.not_all_eq_any_not]; congr 1; funext g; simp
  have e5 : c.e.qb.lin.any (fun x => decide (x ≠ c.rhs)) = !c.e.qb.lin.all (fun x => decide (x = c.rhs)) := by
    rw [List.not_all_eq_any_not]; congr 1; funext g; simp
  have e1 : (!c.e.qb.isLinear || decide (c.e.vars.length < 2)) = !(c.e.qb.isLinear && decide (c.e.vars.length ≥ 2)) := by
    have : decide (c.e.vars.length < 2) = !decide (c.e.vars.length ≥ 2) := by
      by_cases h : c.e.vars.length < 2
      · have h' : ¬ c.e.vars.length ≥ 2 := by omega
        simp [h, h']
      · have h' : c.e.vars.length ≥ 2 := by omega
        simp [h, h']
    rw [this]
    cases c.e.qb.isLinear <;> cases decide (c.e.vars.length ≥ 2) <;> rfl
  have e2 : decide (c.sense ≠ .eq) = !decide (c.sense = .eq) := by simp
  have e3 : decide (c.e.qb.off ≠ 0) = !decide (c.e.qb.off = 0) := by simp
  unfold Cons.isOnehot
  simp only [Generated.OnehotTable.rejects, Generated.OnehotTable.finalReturn, onehotBy, rejectOf]
  simp only [String.reduceEq, if_true, if_false, e1, e2, e3, e4, e5]
  generalize c.e.qb.isLinear = a1
  generalize decide (c.e.vars.length ≥ 2) = a2
  generalize decide (c.sense = .eq) = a3
  generalize decide (c.e.qb.off = 0) = a4
  generalize c.e.vars.all (fun g => decide (vt.getD g .spin = .binary)) = a5
  generalize c.e.qb.lin.all (fun x => decide (x = c.rhs)) = a6
  cases a1 <;> cases a2 <;> cases a3 <;> cases a4 <;> cases a5 <;> cases a6 <;> rfl

theorem flipPython_generated : Generated.OnehotTable.flipPython = flipPythonModelled := by decide

end CqmP.OnehotTab
