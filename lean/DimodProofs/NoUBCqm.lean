import DimodModel.CheckedCqm
import DimodProofs.NoUBExpr
import DimodProofs.CqmReindex
import DimodProofs.BqmLists

/-! No failing vector access at the Constraint / CQM level (checked-indexing model `DimodModel/CheckedCqm.lean`) under
    the representation invariant and the documented preconditions — property C20. -/

namespace CqmP
open Expr Cqm

/-- every expression of the model is well-formed and the three columns of `varinfo_` have one length -/
structure CqmCWF (m : Cqm) : Prop where
  obj : ExprWF m.obj
  cons : ∀ k ∈ m.cons, ExprWF k.e
  lb_len : m.lb.length = m.vt.length
  ub_len : m.ub.length = m.vt.length

theorem cqmCWF_empty : CqmCWF ({} : Cqm) := ⟨exprWF_empty, (by intro k hk; cases hk), rfl, rfl⟩

theorem reindex?_eq {e : Expr} (hwf : ExprWF e) (v : Nat) : e.reindex? v = some (e.reindex v) := by
  unfold Expr.reindex?
  cases h : e.idx.get? v with
  | none => rfl
  | some i =>
    have hi := idx_lt hwf h
    simp only []
    rw [List.getElem?_eq_getElem hi]
    simp only []
    rw [QB.removeVar?_eq _ _ (by rw [hwf.lin_len]; exact hi) (by rw [hwf.adj_len]; exact hi)]
    rfl

theorem mapOpt_eq {α β} (f? : α → Option β) (f : α → β) (l : List α) (h : ∀ a ∈ l, f? a = some (f a)) :
    mapOpt f? l = some (l.map f) := by
  induction l with
  | nil => rfl
  | cons a t ih =>
    simp only [mapOpt, List.map_cons]
    rw [h a (by simp), ih (fun x hx => h x (List.mem_cons_of_mem _ hx))]

theorem mapExprs?_eq {m : Cqm} (w : CqmCWF m) (f? : Expr → Option Expr) (f : Expr → Expr)
    (h : ∀ e, ExprWF e → f? e = some (f e)) : m.mapExprs? f? = some (m.mapExprs f) := by
  unfold Cqm.mapExprs? Cqm.mapExprs
  rw [h m.obj w.obj, mapOpt_eq _ (fun (k : Cons) => { k with e := f k.e }) m.cons
    (fun k hk => by rw [h k.e (w.cons k hk)]; rfl)]

theorem mapExprs_cwf {m : Cqm} (w : CqmCWF m) (f : Expr → Expr) (h : ∀ e, ExprWF e → ExprWF (f e)) :
    CqmCWF (m.mapExprs f) := by
  refine ⟨h _ w.obj, ?_, w.lb_len, w.ub_len⟩
  intro k hk
  obtain ⟨k0, hk0, e⟩ := List.mem_map.mp hk
  rw [← e]
  exact h _ (w.cons k0 hk0)

theorem removeVarAtC_wf {m : Cqm} (w : CqmCWF m) (v : Nat) (hv : v < m.vt.length) : CqmCWF (m.removeVarAt v) := by
  have w1 := mapExprs_cwf w (·.reindex v) (fun e he => reindex_wf he v)
  refine ⟨w1.obj, w1.cons, ?_, ?_⟩
  · show (Bqm.eraseIdx m.lb v).length = (Bqm.eraseIdx m.vt v).length
    rw [length_eraseIdx _ _ (by rw [w.lb_len]; exact hv), length_eraseIdx _ _ hv, w.lb_len]
  · show (Bqm.eraseIdx m.ub v).length = (Bqm.eraseIdx m.vt v).length
    rw [length_eraseIdx _ _ (by rw [w.ub_len]; exact hv), length_eraseIdx _ _ hv, w.ub_len]

theorem removeVarAt?_eq {m : Cqm} (w : CqmCWF m) (v : Nat) (hv : v < m.vt.length) :
    m.removeVarAt? v = some (m.removeVarAt v) := by
  unfold Cqm.removeVarAt?
  rw [mapExprs?_eq w _ (·.reindex v) (fun e he => reindex?_eq he v), List.getElem?_eq_getElem hv]

theorem substituteAll?_eq {m : Cqm} (w : CqmCWF m) (v : Nat) (mu c : Rat) :
    m.substituteAll? v mu c = some (m.substituteAll v mu c) :=
  mapExprs?_eq w _ _ (fun _ he => Expr.substitute?_eq he v mu c)

theorem substituteAll_wf {m : Cqm} (w : CqmCWF m) (v : Nat) (mu c : Rat) : CqmCWF (m.substituteAll v mu c) :=
  mapExprs_cwf w _ (fun _ he => substitute_wf he v mu c)

theorem modCons_cwf {m : Cqm} (w : CqmCWF m) (c : Nat) (f : Cons → Cons) (h : ∀ k ∈ m.cons, ExprWF (f k).e) :
    CqmCWF (m.modCons c f) := by
  refine ⟨w.obj, ?_, w.lb_len, w.ub_len⟩
  intro k hk
  rcases mem_modifyAt hk with h1 | ⟨y, hy, e⟩
  · exact w.cons k h1
  · rw [e]; exact h y hy

theorem getD_cons_wf {m : Cqm} (w : CqmCWF m) (d : Nat) (k : Cons) (hk : k ∈ m.cons) : ExprWF ((m.cons[d]?).getD k).e := by
  cases h : m.cons[d]? with
  | none => exact w.cons k hk
  | some kd => exact w.cons kd (List.mem_of_getElem? h)

/-- **one call**: under the invariant and the documented precondition the checked call does not fail, equals the
    unchecked call, and the invariant is kept -/
theorem cstep?_eq {m : Cqm} (w : CqmCWF m) (op : COp) (hp : COp.Pre m op) :
    m.cstep? op = some (m.cstep op) ∧ CqmCWF (m.cstep op) := by
  cases op with
  | objOp op =>
    refine ⟨?_, ⟨stepE_wf w.obj m.vt op, w.cons, w.lb_len, w.ub_len⟩⟩
    show (m.obj.stepE? m.vt op).map _ = _
    rw [stepE?_eq w.obj m.vt op]; rfl
  | consOp c op =>
    have hc : c < m.cons.length := hp
    refine ⟨?_, modCons_cwf w c _ (fun k hk => stepE_wf (w.cons k hk) m.vt op)⟩
    show (match m.cons[c]? with | some k => _ | none => none) = _
    rw [List.getElem?_eq_getElem hc]
    simp only []
    rw [stepE?_eq (w.cons _ (List.getElem_mem hc)) m.vt op]; rfl
  | addConstraint =>
    refine ⟨rfl, ⟨w.obj, ?_, w.lb_len, w.ub_len⟩⟩
    intro k hk
    rcases List.mem_append.mp hk with h | h
    · exact w.cons k h
    · simp only [List.mem_singleton] at h; rw [h]; exact exprWF_empty
  | removeConstraint c =>
    have hc : c < m.cons.length := hp
    refine ⟨?_, ⟨w.obj, fun k hk => w.cons k (Bqm.mem_eraseIdx _ _ _ hk), w.lb_len, w.ub_len⟩⟩
    show (match m.cons[c]? with | some _ => _ | none => none) = _
    rw [List.getElem?_eq_getElem hc]
  | assignConstraint c d =>
    have hc : c < m.cons.length := hp.1
    have hd : d < m.cons.length := hp.2
    refine ⟨?_, modCons_cwf w c _ (fun k hk => getD_cons_wf w d k hk)⟩
    show (match m.cons[c]?, m.cons[d]? with | some _, some _ => _ | _, _ => none) = _
    rw [List.getElem?_eq_getElem hc, List.getElem?_eq_getElem hd]
  | swapConstraints c d =>
    have hc : c < m.cons.length := hp.1
    have hd : d < m.cons.length := hp.2
    have w1 := modCons_cwf w c (fun k => (m.cons[d]?).getD k) (fun k hk => getD_cons_wf w d k hk)
    refine ⟨?_, modCons_cwf w1 d _ (fun k hk => ?_)⟩
    · show (match m.cons[c]?, m.cons[d]? with | some _, some _ => _ | _, _ => none) = _
      rw [List.getElem?_eq_getElem hc, List.getElem?_eq_getElem hd]
    · cases h : m.cons[c]? with
      | none => exact w1.cons k hk
      | some kc => exact w.cons kc (List.mem_of_getElem? h)
  | substituteVariable v mu c => exact ⟨substituteAll?_eq w v mu c, substituteAll_wf w v mu c⟩
  | removeVariable v => exact ⟨removeVarAt?_eq w v hp, removeVarAtC_wf w v hp⟩
  | fixVariable v a =>
    have w1 := substituteAll_wf w v 0 a
    have hv : v < (m.substituteAll v 0 a).vt.length := hp
    refine ⟨?_, removeVarAtC_wf w1 v hv⟩
    show (m.substituteAll? v 0 a).bind _ = _
    rw [substituteAll?_eq w v 0 a]
    exact removeVarAt?_eq w1 v hv
  | setLowerBound v x =>
    have hv : v < m.vt.length := hp
    refine ⟨?_, ⟨w.obj, w.cons, ?_, w.ub_len⟩⟩
    · show (match m.lb[v]? with | some _ => _ | none => none) = _
      rw [List.getElem?_eq_getElem (by rw [w.lb_len]; exact hv)]
    · show (Bqm.modifyAt m.lb v _).length = m.vt.length
      rw [length_modifyAt]; exact w.lb_len
  | setUpperBound v x =>
    have hv : v < m.vt.length := hp
    refine ⟨?_, ⟨w.obj, w.cons, w.lb_len, ?_⟩⟩
    · show (match m.ub[v]? with | some _ => _ | none => none) = _
      rw [List.getElem?_eq_getElem (by rw [w.ub_len]; exact hv)]
    · show (Bqm.modifyAt m.ub v _).length = m.vt.length
      rw [length_modifyAt]; exact w.ub_len
  | setVartype v t =>
    have hv : v < m.vt.length := hp
    refine ⟨?_, ⟨w.obj, w.cons, ?_, ?_⟩⟩
    · show (match m.vt[v]? with | some _ => _ | none => none) = _
      rw [List.getElem?_eq_getElem hv]
    · show m.lb.length = (Bqm.modifyAt m.vt v _).length
      rw [length_modifyAt]; exact w.lb_len
    · show m.ub.length = (Bqm.modifyAt m.vt v _).length
      rw [length_modifyAt]; exact w.ub_len
  | clear => exact ⟨rfl, ⟨exprWF_empty, (by intro k hk; cases hk), rfl, rfl⟩⟩

/-- **every call sequence** whose calls meet their preconditions: the checked run never fails, equals the unchecked run
    and ends well-formed -/
theorem crun?_eq : ∀ (ops : List COp) {m : Cqm}, CqmCWF m → PreAll m ops →
    Cqm.crun? (some m) ops = some (m.crun ops) ∧ CqmCWF (m.crun ops) := by
  intro ops
  induction ops with
  | nil => intro m w _; exact ⟨rfl, w⟩
  | cons op t ih =>
    intro m w hp
    have s := cstep?_eq w op hp.1
    show Cqm.crun? (m.cstep? op) t = _ ∧ CqmCWF ((op :: t).foldl cstep m)
    rw [s.1]
    exact ih s.2 hp.2

end CqmP
