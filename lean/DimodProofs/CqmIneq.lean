import DimodProofs.CqmToBqm

/-! # `cqm_to_bqm`: a `≤` / `≥` constraint with integer data (core Lean only)

The constraint's BINARY model has per-bit integer coefficients `T`, integer offset `k` and the
constraint has integer right-hand side `r`.  `cqm_to_bqm` hands `(T, constant = k, lb/ub = r)` to
`add_linear_inequality_constraint`; this file identifies the resulting bag with the objects of
`DimodProofs/Ineq.lean`, so that `ineq_bqm_slack` / `ineq_bqm_equality` / `ineq_plan_refusal` apply. -/

namespace Pen

theorem ratToInt_cast (k : Int) : ratToInt? ((k : Int) : Rat) = some k := by
  simp [ratToInt?]

theorem coeffs_cast (T : List (Label × Int)) :
    (castTerms T).map (fun (t : Label × Rat) => (ratToInt? t.2).getD t.2.floor) = T.map (·.2) := by
  induction T with
  | nil => rfl
  | cons t r ih =>
    simp only [castTerms, List.map_cons, List.map_map] at ih ⊢
    rw [ratToInt_cast]
    simp only [Option.getD_some, List.cons.injEq, true_and]
    simpa [Function.comp] using ih

/-- the slack labels `slack_<label>_<j>` the BQM method creates for a range `0..S` -/
def slackLabels (label : String) (S : Nat) : List Label :=
  (List.range (slackLog2 S).length).map (fun j => Label.str s!"slack_{label}_{j}")

theorem slackLabels_length (label : String) (S : Nat) : (slackLabels label S).length = (slackLog2 S).length := by
  simp [slackLabels]

theorem bqmSlack_eq (label : String) (ubc lbc : Int) (S : Nat) :
    bqmSlack label ubc lbc S false = slackTerms (slackLabels label S) S := by
  unfold bqmSlack slackTerms slackLabels
  simp only [Bool.false_and, Bool.false_eq_true, if_false]
  apply List.ext_getElem
  · simp
  · intro i h1 h2
    simp only [List.length_map, List.length_range] at h1
    simp [List.getElem_zip, List.getD_eq_getElem?_getD, List.getElem?_eq_getElem h1]

theorem touch_eval {β : Type} (z : Label → Rat) (l : List β) (f : β → Label) :
    evalBag z (l.map (fun p => PTerm.lin (f p) 0)) = 0 := evalBag_zeroLin z f l

theorem castTerms_append (a b : List (Label × Int)) : castTerms (a ++ b) = castTerms a ++ castTerms b := by
  simp [castTerms]

/-- the bag `cqm_to_bqm` adds for a `≤`/`≥` constraint with integer data, case by case -/
theorem consBag_ineq (vars : List (Label × VKind)) (lam : Rat) (i : Nat) (c : Cons) (hs : c.sense ≠ .eq) (hq : c.lhs.quad = [])
    (T : List (Label × Int)) (k r : Int)
    (hT : (consLinear vars c.lhs).1 = castTerms T) (hk : (consLinear vars c.lhs).2 = ((k : Int) : Rat)) (hr : c.rhs = ((r : Int) : Rat)) :
    let lb : Int := if c.sense = Sense.ge then r else INT64_MIN
    let ub : Int := if c.sense = Sense.ge then INT64_MAX else r
    match ineqPlan (T.map (·.2)) k lb ub with
    | .skip => consBag vars lam i c = .ok []
    | .infeasible => consBag vars lam i c = .error .infeasible
    | .equality ubc => consBag vars lam i c = .ok (eqTermsCy .binary (castTerms T) lam (((-ubc : Int)) : Rat))
    | .slack ubc lbc S =>
      ∃ touch, consBag vars lam i c = .ok (touch ++ eqTermsCy .binary (castTerms (T ++ slackTerms (slackLabels s!"c{i}" S) S)) lam (((-ubc : Int)) : Rat))
        ∧ (∀ z, evalBag z touch = 0)
        ∧ (∀ t ∈ touch, ∃ l ∈ slackLabels s!"c{i}" S, t = PTerm.lin l 0) := by
  intro lb ub
  unfold consBag
  have hq' : (!c.lhs.quad.isEmpty) = false := by rw [hq]; rfl
  rw [hq']
  simp only [Bool.false_eq_true, if_false]
  cases hsense : c.sense with
  | eq => exact absurd hsense hs
  | le =>
    simp only [hT, hk, hr, coeffs_cast, ratToInt_cast, Option.getD_some]
    simp only [lb, ub, hsense]
    simp only [reduceCtorEq, if_false]
    cases hp : ineqPlan (T.map (·.2)) k INT64_MIN r with
    | skip => rfl
    | infeasible => rfl
    | equality ubc => simp [Rat.intCast_neg]
    | slack ubc lbc S =>
      refine ⟨(bqmSlack s!"c{i}" ubc lbc S false).map (fun (p : Label × Int) => PTerm.lin p.1 0), ?_,
        fun z => touch_eval z _ (fun p : Label × Int => p.1), ?_⟩
      rotate_left
      · intro t ht
        simp only [List.mem_map] at ht
        obtain ⟨p, hp', rfl⟩ := ht
        rw [bqmSlack_eq] at hp'
        exact ⟨p.1, (List.of_mem_zip hp').1, rfl⟩
      have e1 : (bqmSlack s!"c{i}" ubc lbc S false).map (fun (p : Label × Int) => (p.1, ((p.2 : Int) : Rat)))
          = castTerms (slackTerms (slackLabels s!"c{i}" S) S) := by rw [bqmSlack_eq]; rfl
      rw [castTerms_append, ← e1, Rat.intCast_neg]
  | ge =>
    simp only [hT, hk, hr, coeffs_cast, ratToInt_cast, Option.getD_some]
    simp only [lb, ub, hsense]
    simp only [if_true]
    cases hp : ineqPlan (T.map (·.2)) k r INT64_MAX with
    | skip => rfl
    | infeasible => rfl
    | equality ubc => simp [Rat.intCast_neg]
    | slack ubc lbc S =>
      refine ⟨(bqmSlack s!"c{i}" ubc lbc S false).map (fun (p : Label × Int) => PTerm.lin p.1 0), ?_,
        fun z => touch_eval z _ (fun p : Label × Int => p.1), ?_⟩
      rotate_left
      · intro t ht
        simp only [List.mem_map] at ht
        obtain ⟨p, hp', rfl⟩ := ht
        rw [bqmSlack_eq] at hp'
        exact ⟨p.1, (List.of_mem_zip hp').1, rfl⟩
      have e1 : (bqmSlack s!"c{i}" ubc lbc S false).map (fun (p : Label × Int) => (p.1, ((p.2 : Int) : Rat)))
          = castTerms (slackTerms (slackLabels s!"c{i}" S) S) := by rw [bqmSlack_eq]; rfl
      rw [castTerms_append, ← e1, Rat.intCast_neg]

end Pen

namespace Pen

/-- the integer `Σ Tⱼ·zⱼ + k` the inequality method works with is the constraint's left-hand side at the decoded sample -/
theorem cqm_constraint_value (vars : List (Label × VKind)) (c : Cons) (hq : c.lhs.quad = [])
    (T : List (Label × Int)) (k : Int)
    (hT : (consLinear vars c.lhs).1 = castTerms T) (hk : (consLinear vars c.lhs).2 = ((k : Int) : Rat))
    (z : Label → Int) (hz : Bin01 z) :
    (((isum z T + k : Int)) : Rat) = qmEnergy (decode vars (toRat z)) c.lhs := by
  have := consLinear_eval vars c.lhs hq (toRat z) (dom_toRat z hz)
  rw [hT, hk, lsum_cast] at this
  rw [← this]; simp [Rat.intCast_add]

/-- **a `≤` / `≥` constraint of the CQM, slack case** (integer data, `λ ≥ 0`, the int64 sentinels outside the
    term bounds, slack labels pairwise distinct and not among the constraint's bits): the bag
    `cqm_to_bqm` adds is ≥ 0 at every 0/1 sample, ≥ λ at every sample (any slack bits) whose decoded CQM
    sample violates the constraint, and 0 for suitable slack bits where it holds -/
theorem cqm_ineq_slack (vars : List (Label × VKind)) (lam : Rat) (hlam : 0 ≤ lam) (i : Nat) (c : Cons)
    (hs : c.sense ≠ .eq) (hq : c.lhs.quad = []) (T : List (Label × Int)) (k r : Int)
    (hT : (consLinear vars c.lhs).1 = castTerms T) (hk : (consLinear vars c.lhs).2 = ((k : Int) : Rat)) (hr : c.rhs = ((r : Int) : Rat))
    (hbound : INT64_MIN ≤ sumNeg (T.map (·.2)) + k ∧ sumPos (T.map (·.2)) + k ≤ INT64_MAX)
    (ubc lbc : Int) (S : Nat)
    (hplan : ineqPlan (T.map (·.2)) k (if c.sense = Sense.ge then r else INT64_MIN) (if c.sense = Sense.ge then INT64_MAX else r) = .slack ubc lbc S)
    (hnd : (slackLabels s!"c{i}" S).Nodup) (hfresh : ∀ t ∈ T, t.1 ∉ slackLabels s!"c{i}" S)
    (z : Label → Int) (hz : Bin01 z) :
    let sat : Prop := if c.sense = Sense.ge then r ≤ isum z T + k else isum z T + k ≤ r
    ∃ bag, consBag vars lam i c = .ok bag
      ∧ 0 ≤ evalBag (toRat z) bag
      ∧ (¬ sat → lam ≤ evalBag (toRat z) bag)
      ∧ (sat → ∃ z', Bin01 z' ∧ (∀ v, v ∉ slackLabels s!"c{i}" S → z' v = z v) ∧ evalBag (toRat z') bag = 0) := by
  intro sat
  have hshape := consBag_ineq vars lam i c hs hq T k r hT hk hr
  simp only at hshape
  rw [hplan] at hshape
  simp only at hshape
  obtain ⟨touch, hbag, htouch, _⟩ := hshape
  have hev : ∀ z' : Label → Int, evalBag (toRat z') (touch ++ eqTermsCy .binary (castTerms (T ++ slackTerms (slackLabels s!"c{i}" S) S)) lam (((-ubc : Int)) : Rat))
      = slackPenalty T (slackLabels s!"c{i}" S) S ubc lam z' := by
    intro z'; rw [evalBag_append, htouch]; unfold slackPenalty; grind
  have hmain := ineq_bqm_slack T k _ _ lam hlam ubc lbc S hplan (slackLabels s!"c{i}" S) (slackLabels_length _ S) hnd hfresh z hz
  have hb := isum_bounds z hz T
  have hfeas : Feasible z T k (if c.sense = Sense.ge then r else INT64_MIN) (if c.sense = Sense.ge then INT64_MAX else r) ↔ sat := by
    unfold Feasible
    simp only [sat]
    by_cases hge : c.sense = Sense.ge
    · simp only [hge, if_true]; constructor
      · intro h; exact h.1
      · intro h; exact ⟨h, by omega⟩
    · simp only [hge, if_false]; constructor
      · intro h; exact h.2
      · intro h; exact ⟨by omega, h⟩
  refine ⟨_, hbag, ?_, ?_, ?_⟩
  · rw [hev]; exact hmain.1
  · intro hns; rw [hev]; exact hmain.2.1 (fun hf => hns (hfeas.1 hf))
  · intro hsat
    obtain ⟨z', h1, h2, h3⟩ := hmain.2.2 (hfeas.2 hsat)
    exact ⟨z', h1, h2, by rw [hev]; exact h3⟩

end Pen
