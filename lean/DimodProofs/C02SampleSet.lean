import DimodProofs.C02View

/-! # C02 — `SampleSet.change_vartype`, `to_ising`, `to_qubo` -/

open Finset

namespace En

/-! ## sample sets -/

section
variable {R : Type} [Field R] [DecidableEq R]

/-- **`sampleset_changeVartype_rows`**: the converted sample set has the requested vartype, every value converted
    (`2x − 1` resp. `(s + 1)/2`; identity when the vartype is already the requested one) and every energy raised by exactly
    `energy_offset` — same number of rows, same row lengths -/
theorem SSet.changeVartype_spec (s : SSet R) (target : VT) (off : R) :
    (s.changeVartype target off).vt = target ∧
    (s.changeVartype target off).energy = s.energy.map (· + off) ∧
    (s.changeVartype target off).rows
      = if target = s.vt then s.rows
        else match target with
          | .spin => s.rows.map (·.map fun x => two * x - 1)
          | .binary => s.rows.map (·.map fun x => (x + 1) / two) := by
  have hen : (if off ≠ 0 then s.energy.map (· + off) else s.energy) = s.energy.map (· + off) := by
    by_cases h : off = 0
    · subst h; simp
    · simp [h]
  unfold SSet.changeVartype
  rw [hen]
  by_cases ht : target = s.vt
  · simp [ht]
  · cases target <;> simp [ht]

/-- a pending (future-backed) sample set: resolving the deferred result gives what the direct call gives on the
    resolved set — vartype, rows and energies **including the energy offset** -/
theorem SSet.changeVartypeDeferred_spec (pending : Unit → SSet R) (target : VT) (off : R) :
    SSet.changeVartypeDeferred pending target off () = (pending ()).changeVartype target off := rfl

/-- there and back with opposite offsets restores rows and energies -/
theorem SSet.changeVartype_roundtrip (s : SSet R) (h2 : (two : R) ≠ 0) (other : VT) (hne : other ≠ s.vt) (off : R) :
    ((s.changeVartype other off).changeVartype s.vt (-off)).rows = s.rows ∧
    ((s.changeVartype other off).changeVartype s.vt (-off)).energy = s.energy := by
  obtain ⟨a1, a2, a3⟩ := SSet.changeVartype_spec s other off
  obtain ⟨b1, b2, b3⟩ := SSet.changeVartype_spec (s.changeVartype other off) s.vt (-off)
  constructor
  · rw [b3, a1, a3]
    have hne' : ¬ s.vt = other := fun e => hne e.symm
    simp only [hne, hne', if_false]
    have hmm : ∀ (rows : List (List R)) (f g : R → R), (∀ x, g (f x) = x) →
        (rows.map (·.map f)).map (·.map g) = rows := by
      intro rows f g hfg
      rw [List.map_map]
      conv_rhs => rw [← List.map_id rows]
      apply List.map_congr_left
      intro row _
      simp only [Function.comp, List.map_map, id]
      conv_rhs => rw [← List.map_id row]
      apply List.map_congr_left
      intro x _
      exact hfg x
    cases hv : s.vt with
    | spin =>
      have : other = .binary := by cases other <;> simp_all
      subst this
      simp only []
      exact hmm s.rows _ _ (by intro x; field_simp; ring)
    | binary =>
      have : other = .spin := by cases other <;> simp_all
      subst this
      simp only []
      exact hmm s.rows _ _ (by intro x; field_simp; ring)
  · rw [b2, a2, List.map_map]
    conv_rhs => rw [← List.map_id s.energy]
    apply List.map_congr_left
    intro e _
    simp

end

/-- the converted rows are consistent with the converted model: a BQM converted to the sample set's new vartype has, at
    the converted row, the energy the original has at the original row (SPIN set → BINARY) -/
theorem sampleset_bqm_consistent_toBinary (m : Bqm Rat) (hm : m.WF) (hvt : m.vt = .spin) (s : Nat → Rat) :
    (m.changeVartype .binary).qb.energy (fun u => (s u + 1) / two) = m.qb.energy s := by
  rw [(Bqm.changeVartype_toBinary_energy m hm hvt _).2]
  congr 1; funext u; unfold two; ring

theorem sampleset_bqm_consistent_toSpin (m : Bqm Rat) (hm : m.WF) (hvt : m.vt = .binary) (x : Nat → Rat) :
    (m.changeVartype .spin).qb.energy (fun u => two * x u - 1) = m.qb.energy x := by
  rw [(Bqm.changeVartype_toSpin_energy m hm hvt _).2]
  congr 1; funext u; unfold two; ring

/-! ## `to_ising` / `to_qubo`: the triple read through the `.spin` / `.binary` view -/

open Generated.Vartype

namespace QMB

/-- the linear biases, interactions and offset that `bqm.<view>.linear / .quadratic / .offset` report, by the view table `t` -/
def viewL (t : ViewTable Rat) (m : QMB Rat) (u : Nat) : Rat := t.getLinLin * m.L u + t.getLinNb * m.rowSum u
def viewQ (t : ViewTable Rat) (m : QMB Rat) (u w : Nat) : Rat := t.getQuad * m.Q u w
def viewOff (t : ViewTable Rat) (m : QMB Rat) : Rat :=
  m.off + t.offLin * (∑ u ∈ range m.n, m.L u) + t.offQuad * ((∑ u ∈ range m.n, m.rowSum u) / 2)

/-- **`to_ising_energy`**: for a BINARY model, `h, J, offset = bqm.to_ising()` (read through the `.spin` view) satisfy
    `offset + Σ h_u s_u + Σ_{w<u} J_uw s_u s_w` = energy of the model at `x = (s + 1)/2`, for every `s` -/
theorem to_ising_energy (m : QMB Rat) (hm : m.WF) (hns : ∀ u, m.Q u u = 0) (s : Nat → Rat) :
    evalR m.n (viewOff viewSpinOverBinary m) (viewL viewSpinOverBinary m)
        (fun u w => if w ≤ u then viewQ viewSpinOverBinary m u w else 0) s
      = m.energy (fun u => (s u + 1) / 2) := by
  have hE := substituteVariables_energy m hm hns two_ne_zero_rat bqmToSpin.1 bqmToSpin.2 s
  have hmap : (fun u => bqmToSpin.1 * s u + bqmToSpin.2) = (fun u => (s u + 1) / 2) := by
    funext u; exact bqmToSpin_map (s u)
  rw [hmap] at hE
  rw [← hE, energy_eq_evalR _ (WF_substituteVariables m hm _ _), n_substituteVariables m hm]
  apply evalR_congr
  · exact (view_offset m hm).2
  · intro u hu; exact view_getLinear_spinOverBinary m hm u hu
  · intro u w _ _
    unfold T viewQ
    rw [(view_getQuadratic m u w).2]
  · intro _ _; rfl

/-- **`to_qubo_energy`**: for a SPIN model, `Q, offset = bqm.to_qubo()` (interactions and — on the diagonal — linear biases read
    through the `.binary` view) satisfy `offset + Σ Q_uu x_u x_u + Σ_{w<u} Q_uw x_u x_w` = energy of the model at `s = 2x − 1`,
    for every binary `x` (`x_u² = x_u`) -/
theorem to_qubo_energy (m : QMB Rat) (hm : m.WF) (hns : ∀ u, m.Q u u = 0) (x : Nat → Rat) (hx : ∀ u, x u * x u = x u) :
    viewOff viewBinaryOverSpin m + ∑ u ∈ range m.n, viewL viewBinaryOverSpin m u * x u * x u
        + ∑ u ∈ range m.n, ∑ w ∈ range m.n, (if w ≤ u then viewQ viewBinaryOverSpin m u w else 0) * x u * x w
      = m.energy (fun u => 2 * x u - 1) := by
  have hE := substituteVariables_energy m hm hns two_ne_zero_rat bqmToBinary.1 bqmToBinary.2 x
  have hmap : (fun u => bqmToBinary.1 * x u + bqmToBinary.2) = (fun u => 2 * x u - 1) := by
    funext u; exact bqmToBinary_map (x u)
  rw [hmap] at hE
  rw [← hE, energy_eq_evalR _ (WF_substituteVariables m hm _ _), n_substituteVariables m hm]
  have hlin : ∑ u ∈ range m.n, viewL viewBinaryOverSpin m u * x u * x u = ∑ u ∈ range m.n, viewL viewBinaryOverSpin m u * x u := by
    apply sum_congr rfl; intro u _; rw [mul_assoc, hx]
  rw [hlin]
  have := evalR_congr m.n (viewOff viewBinaryOverSpin m) _ (viewL viewBinaryOverSpin m) _
    (fun u w => if w ≤ u then viewQ viewBinaryOverSpin m u w else 0) _ x x
    ((view_offset m hm).1) (fun u hu => view_getLinear_binaryOverSpin m hm u hu)
    (fun u w _ _ => by
      show (if w ≤ u then viewQ viewBinaryOverSpin m u w else 0) = (m.substituteVariables bqmToBinary.1 bqmToBinary.2).T u w
      unfold T viewQ
      rw [(view_getQuadratic m u w).1])
    (fun _ _ => rfl)
  unfold evalR at this ⊢
  exact this

end QMB

end En
