import DimodProofs.QmBulk
import DimodProofs.BqmRelabel

/-! `QuadraticModel.relabel_variables` / `relabel_variables_as_integers`: positional renaming of the label-keyed polynomial
    with vartypes and bounds — property C04.  Core Lean only. -/

namespace Qm
open Bqm (zipLookup zipLookup_eq indexOfGo indexOfGo_some)

/-- the polynomial with the variable at position `i` renamed to `news[i]` (vartype, bounds, biases move with it) -/
def QPoly.relabelTo (p : QPoly) (news : List Label) : QPoly :=
  { p with vars := news,
           info := fun y => match zipLookup news p.vars y with | some x => p.info x | none => none,
           lin := fun y => match zipLookup news p.vars y with | some x => p.lin x | none => 0,
           quad := fun a b => match zipLookup news p.vars a, zipLookup news p.vars b with
             | some x, some z => p.quad x z
             | _, _ => none }

theorem relabelTo_refines {m : Qm} (i : Inv m) (news : List Label) (hlen : news.length = m.labels.length)
    (hnd : news.Nodup) : absQ { m with labels := news } = (absQ m).relabelTo news ∧ Inv { m with labels := news } := by
  refine ⟨?_, ⟨⟨by show news.length = m.lin.length; rw [hlen, i.wf.labels_len], i.wf.vt_len, i.wf.lb_len, i.wf.ub_len, i.wf.adj⟩, hnd⟩⟩
  have key : ∀ y, zipLookup news m.labels y = (indexOfGo y news 0).bind (fun j => m.labels[j]?) := by
    intro y; have := zipLookup_eq news m.labels y 0 hlen; simpa using this
  have look : ∀ j x, m.labels[j]? = some x → m.indexOf? x = some j := fun j x h => idx_of_get i.nodup h
  have inr : ∀ y j, indexOfGo y news 0 = some j → ∃ x, m.labels[j]? = some x := by
    intro y j hj
    have := indexOfGo_some y news 0 j hj
    have hlt : j < m.labels.length := by omega
    exact ⟨m.labels[j], List.getElem?_eq_getElem hlt⟩
  apply QPoly.ext'
  · rfl
  · rfl
  · rfl
  · intro y
    show ((indexOfGo y news 0).map fun j => (m.vtAt j, m.lb.getD j 0, m.ub.getD j 0)) =
      match zipLookup news m.labels y with | some x => m.infoL x | none => none
    rw [key]
    cases hj : indexOfGo y news 0 with
    | none => rfl
    | some j =>
      obtain ⟨x, hx⟩ := inr y j hj
      simp only [Option.bind_some, hx, Option.map_some]
      unfold infoL; rw [look j x hx]; rfl
  · intro y
    show (match indexOfGo y news 0 with | some j => m.lin.getD j 0 | none => 0) =
      match zipLookup news m.labels y with | some x => m.linL x | none => 0
    rw [key]
    cases hj : indexOfGo y news 0 with
    | none => rfl
    | some j =>
      obtain ⟨x, hx⟩ := inr y j hj
      simp only [Option.bind_some, hx]
      unfold linL; rw [look j x hx]
  · intro a b
    show (match indexOfGo a news 0, indexOfGo b news 0 with
          | some p, some q => Bqm.coefAt m.adj p q | _, _ => none) =
      match zipLookup news m.labels a, zipLookup news m.labels b with
      | some x, some z => m.quadL x z | _, _ => none
    rw [key, key]
    cases ha : indexOfGo a news 0 with
    | none => rfl
    | some p =>
      obtain ⟨x, hx⟩ := inr a p ha
      cases hb : indexOfGo b news 0 with
      | none => simp only [Option.bind_some, hx, Option.bind_none]
      | some q =>
        obtain ⟨z, hz⟩ := inr b q hb
        simp only [Option.bind_some, hx, hz]
        unfold quadL; rw [look p x hx, look q z hz]
  · rfl

/-- `relabel_variables(mapping)`: accepted exactly when `Variables._relabel` accepts; then positional renaming -/
theorem relabel_refines {m : Qm} (i : Inv m) (mp : List (Label × Label)) :
    absQ (m.relabel mp).1 =
      (if (LSpec.step m.labels (.relabel mp)).2 then (absQ m).relabelTo (LSpec.step m.labels (.relabel mp)).1 else absQ m) ∧
    ((m.relabel mp).2 = none ↔ (LSpec.step m.labels (.relabel mp)).2 = true) ∧ Inv (m.relabel mp).1 := by
  have hl := Bqm.lspec_relabel_length m.labels mp
  have hn := Bqm.lspec_relabel_nodup m.labels mp i.nodup
  unfold Qm.relabel
  cases hs : LSpec.step m.labels (.relabel mp) with
  | mk l ok =>
    rw [hs] at hl hn
    cases ok with
    | true =>
      have r := relabelTo_refines i l hl hn
      exact ⟨r.1, by simp, r.2⟩
    | false => exact ⟨rfl, by simp, i⟩

theorem relabelInts_refines {m : Qm} (i : Inv m) :
    absQ m.relabelInts = (absQ m).relabelTo ((List.range m.labels.length).map fun (k : Nat) => Label.int (k : Int)) ∧
    Inv m.relabelInts := by
  apply relabelTo_refines i _ (by simp)
  apply Bqm.nodup_map_on _ _ List.nodup_range
  intro x _ y _ h
  injection h with h; omega

end Qm
