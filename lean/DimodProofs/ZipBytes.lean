import DimodProofs.ZipEnd
import DimodModel.ZipBytes

/-! # The byte-level ZIP reader reads back what the byte-level ZIP writer wrote  (C09 / C10, round 7)

`readDirBytes crc32 inflate ⟨x.length, e⟩ (x ++ e) = members` for `x ++ e = pre ++ zipBytes pre.length zs`:
the equation that `cqm_file_roundtrip_zip` / `dqm_blob_loader_roundtrip` assumed of `readDir` / `readNpz`
is a theorem for the modelled `zipfile` reader, for `ZIP_STORED` members outright and for `ZIP_DEFLATED`
members under the codec contract `inflate (deflate b) = some b`. -/

namespace FileFmt

theorem localFixed_length (z : ZEntry) : (localFixed z).length = 30 := by simp [localFixed, sigLocal, toLE_length]

theorem cdFixed_length (z : ZEntry) (off : Nat) : (cdFixed z off).length = 46 := by simp [cdFixed, sigCD, toLE_length]

theorem localEntry_length (z : ZEntry) : (localEntry z).length = 30 + z.name.length + z.lextra.length + z.stored.length := by
  simp [localEntry, localFixed_length]; omega

theorem cdEntry_length (z : ZEntry) (off : Nat) : (cdEntry z off).length = 46 + z.name.length + z.cextra.length := by
  simp [cdEntry, cdFixed_length]; omega

/-- what the reader keeps of the directory record of `z` written with offset `off` -/
def infoOf (z : ZEntry) (off : Nat) : CDInfo :=
  { name := z.name, method := z.method, flags := z.flags, crc := z.crc, csize := z.stored.length, usize := z.content.length, offset := off }

def infosOf : Nat → List ZEntry → List CDInfo
  | _, [] => []
  | off, z :: zs => infoOf z off :: infosOf (off + (localEntry z).length) zs

theorem ZEntry.OK.method_lt {crc32 : Bytes → Nat} {inflate : Bytes → Option Bytes} {z : ZEntry} (h : z.OK crc32 inflate) : z.method < 256 ^ 2 := by
  rcases h.2.2.1 with ⟨hm, _⟩ | ⟨hm, _⟩ <;> rw [hm] <;> decide

/-! ### fields of the 46 fixed bytes -/

theorem cdFixed_fields (z : ZEntry) (off : Nat) :
    (cdFixed z off).take 4 = sigCD ∧
    ((cdFixed z off).drop 8).take 2 = toLE 2 z.flags ∧
    ((cdFixed z off).drop 10).take 2 = toLE 2 z.method ∧
    ((cdFixed z off).drop 16).take 4 = toLE 4 z.crc ∧
    ((cdFixed z off).drop 20).take 4 = toLE 4 z.stored.length ∧
    ((cdFixed z off).drop 24).take 4 = toLE 4 z.content.length ∧
    ((cdFixed z off).drop 28).take 2 = toLE 2 z.name.length ∧
    ((cdFixed z off).drop 30).take 2 = toLE 2 z.cextra.length ∧
    ((cdFixed z off).drop 32).take 2 = toLE 2 0 ∧
    ((cdFixed z off).drop 42).take 4 = toLE 4 off := by
  refine ⟨?_, ?_, ?_, ?_, ?_, ?_, ?_, ?_, ?_, ?_⟩ <;> simp [cdFixed, sigCD, toLE]

theorem localFixed_fields (z : ZEntry) :
    (localFixed z).take 4 = sigLocal ∧
    ((localFixed z).drop 26).take 2 = toLE 2 z.name.length ∧
    ((localFixed z).drop 28).take 2 = toLE 2 z.lextra.length := by
  refine ⟨?_, ?_, ?_⟩ <;> simp [localFixed, sigLocal, toLE]

/-! ### the central directory -/

theorem parseCD_step (crc32 : Bytes → Nat) (inflate : Bytes → Option Bytes) (fuel rem : Nat) (z : ZEntry) (off : Nat) (rest : Bytes)
    (hz : z.OK crc32 inflate) (hoff : off < 256 ^ 4 - 1) (hrem : rem ≠ 0) :
    parseCD (fuel + 1) rem (cdEntry z off ++ rest) =
      (parseCD fuel (rem - (cdEntry z off).length) rest).map (infoOf z off :: ·) := by
  have hm := hz.method_lt
  obtain ⟨_, hcrc, _, _, hfl, hn, _, hce, hs, hu⟩ := hz
  obtain ⟨f1, f2, f3, f4, f5, f6, f7, f8, f9, f10⟩ := cdFixed_fields z off
  have htake : (cdEntry z off ++ rest).take 46 = cdFixed z off := by
    rw [cdEntry, List.append_assoc, List.take_left' (cdFixed_length z off)]
  have hdrop : (cdEntry z off ++ rest).drop 46 = z.name ++ (z.cextra ++ rest) := by
    rw [cdEntry, List.append_assoc, List.drop_left' (cdFixed_length z off), List.append_assoc]
  have hdrop2 : (cdEntry z off ++ rest).drop (46 + z.name.length + z.cextra.length + 0) = rest := by
    rw [Nat.add_zero, ← cdEntry_length z off, List.drop_left' rfl]
  rw [parseCD]
  simp only [if_neg hrem, htake, cdFixed_length, f1, f2, f3, f4, f5, f6, f7, f8, f9, f10, ne_eq, not_true_eq_false, or_self, if_false,
    leNat_toLE 4 _ hcrc, leNat_toLE 2 _ hfl, leNat_toLE 2 _ hm, leNat_toLE 2 _ hn, leNat_toLE 2 _ hce,
    leNat_toLE 4 _ (by omega : z.stored.length < 256 ^ 4), leNat_toLE 4 _ (by omega : z.content.length < 256 ^ 4),
    leNat_toLE 4 _ (by omega : off < 256 ^ 4), leNat_toLE 2 0 (by decide), hdrop, hdrop2, List.take_left' rfl]
  rw [if_neg (by omega)]
  simp only [cdEntry_length, Nat.add_zero, infoOf]

theorem zipCD_length_pos (off : Nat) (z : ZEntry) (zs : List ZEntry) : (zipCD off (z :: zs)).length ≠ 0 := by
  rw [zipCD, List.length_append, cdEntry_length]; omega

/-- the loop of `_RealGetContents` over the directory the writer wrote returns one record per member,
    with the offsets of the local headers -/
theorem parseCD_zipCD (crc32 : Bytes → Nat) (inflate : Bytes → Option Bytes) (zs : List ZEntry) : ∀ (off fuel : Nat),
    (∀ z ∈ zs, z.OK crc32 inflate) → off + (zipLocals zs).length < 4294967295 → (zipCD off zs).length < fuel →
    parseCD fuel (zipCD off zs).length (zipCD off zs) = some (infosOf off zs) := by
  induction zs with
  | nil =>
    intro off fuel _ _ hf
    obtain ⟨f, rfl⟩ : ∃ f, fuel = f + 1 := ⟨fuel - 1, by omega⟩
    simp only [zipCD, List.length_nil, parseCD, if_true, infosOf]
  | cons z zs ih =>
    intro off fuel hz hoff hf
    obtain ⟨f, rfl⟩ : ∃ f, fuel = f + 1 := ⟨fuel - 1, by omega⟩
    have hlen : (zipCD off (z :: zs)).length = (cdEntry z off).length + (zipCD (off + (localEntry z).length) zs).length := by
      rw [zipCD, List.length_append]
    have hl2 : (zipLocals (z :: zs)).length = (localEntry z).length + (zipLocals zs).length := by rw [zipLocals, List.length_append]
    have hstep := parseCD_step crc32 inflate f (zipCD off (z :: zs)).length z off (zipCD (off + (localEntry z).length) zs)
      (hz z (by simp)) (by have : (256 : Nat) ^ 4 - 1 = 4294967295 := by decide
                           omega) (zipCD_length_pos off z zs)
    have h46 := cdEntry_length z off
    have hrec := ih (off + (localEntry z).length) f (fun y hy => hz y (by simp [hy])) (by omega) (by omega)
    rw [hlen, Nat.add_sub_cancel_left, hrec] at hstep
    rw [hlen]
    exact hstep

/-! ### the members -/

/-! ### an archive that does not start where its offsets say (`concat > 0`): bytes in front of it, or an
    archive EMBEDDED in the payload of another file that was cut right after it -/

theorem readMember_at_shift (crc32 : Bytes → Nat) (inflate : Bytes → Option Bytes) (pre post : Bytes) (z : ZEntry) (off sd ocd : Nat)
    (hoc : off + sd = pre.length + ocd) (hz : z.OK crc32 inflate) :
    readMember crc32 inflate (pre ++ (localEntry z ++ post)) sd ocd (infoOf z off) = some z.content := by
  obtain ⟨hc, _, hmeth, hfl, _, hn, hle, _, _, _⟩ := hz
  obtain ⟨f1, f2, f3⟩ := localFixed_fields z
  have hpos : off + sd - ocd = pre.length := by omega
  have hd : (pre ++ (localEntry z ++ post)).drop (off + sd - ocd) = localFixed z ++ (z.name ++ (z.lextra ++ (z.stored ++ post))) := by
    rw [hpos, List.drop_left' rfl, localEntry]; simp [List.append_assoc]
  have ht : (localFixed z ++ (z.name ++ (z.lextra ++ (z.stored ++ post)))).take 30 = localFixed z := List.take_left' (localFixed_length z)
  have hd30 : (localFixed z ++ (z.name ++ (z.lextra ++ (z.stored ++ post)))).drop 30 = z.name ++ (z.lextra ++ (z.stored ++ post)) :=
    List.drop_left' (localFixed_length z)
  have hdall : (localFixed z ++ (z.name ++ (z.lextra ++ (z.stored ++ post)))).drop (30 + z.name.length + z.lextra.length) = z.stored ++ post := by
    have e1 : localFixed z ++ (z.name ++ (z.lextra ++ (z.stored ++ post))) = (localFixed z ++ (z.name ++ z.lextra)) ++ (z.stored ++ post) := by
      simp only [List.append_assoc]
    have e2 : (localFixed z ++ (z.name ++ z.lextra)).length = 30 + z.name.length + z.lextra.length := by
      simp only [List.length_append, localFixed_length]; omega
    rw [e1, List.drop_left' e2]
  unfold readMember
  rw [if_neg (by simp only [infoOf]; omega)]
  simp only [infoOf, hd, ht, hd30, localFixed_length, f1, f2, f3, ne_eq, not_true_eq_false, or_self, if_false,
    leNat_toLE 2 _ hn, leNat_toLE 2 _ hle, hdall, List.take_left' rfl, hfl]
  rw [if_neg (by decide)]
  rcases hmeth with ⟨hm, hs⟩ | ⟨hm, hs⟩
  · simp [hm, hs, hc]
  · simp [hm, hs, hc]

theorem readMembers_locals_shift (crc32 : Bytes → Nat) (inflate : Bytes → Option Bytes) (sd ocd : Nat) :
    ∀ (zs : List ZEntry) (pre post : Bytes) (off : Nat), off + sd = pre.length + ocd → (∀ z ∈ zs, z.OK crc32 inflate) →
    readMembers crc32 inflate (pre ++ (zipLocals zs ++ post)) sd ocd (infosOf off zs) = some (zs.map fun z => (z.name, z.content))
  | [], _, _, _, _, _ => rfl
  | z :: zs, pre, post, off, hoc, hz => by
    have h1 : pre ++ (zipLocals (z :: zs) ++ post) = pre ++ (localEntry z ++ (zipLocals zs ++ post)) := by simp [zipLocals]
    have h2 : pre ++ (zipLocals (z :: zs) ++ post) = (pre ++ localEntry z) ++ (zipLocals zs ++ post) := by simp [zipLocals]
    have hrest := readMembers_locals_shift crc32 inflate sd ocd zs (pre ++ localEntry z) post (off + (localEntry z).length)
      (by rw [List.length_append]; omega) (fun y hy => hz y (by simp [hy]))
    rw [← h2] at hrest
    simp only [infosOf, readMembers]
    rw [h1, readMember_at_shift crc32 inflate pre _ z off sd ocd hoc (hz z (by simp)), ← h1, hrest]
    rfl

/-- **an archive written for file offset `base` is read back wherever it sits** — after `pre.length` other bytes, whatever
    `base` is (`zipfile` shifts every offset by the integer `concat = start_dir - offset_cd = pre.length - base`):
    `base = pre.length` is what `ConstrainedQuadraticModel.to_file` writes after the header; `pre = []` with `base` = the
    position of the `BIAS` payload is the `.npz` blob of a DQM file handed to `np.load` on its own; and `base < pre.length`
    is an archive spelled by the PAYLOAD of another file, in a copy of that file cut right after it. -/
theorem readDirBytes_zipBytes_shift (crc32 : Bytes → Nat) (inflate : Bytes → Option Bytes) (pre : Bytes) (base : Nat) (zs : List ZEntry)
    (hz : ∀ z ∈ zs, z.OK crc32 inflate) (hcount : zs.length < 256 ^ 2)
    (hsize : base + (zipLocals zs).length + (zipCD base zs).length < 4294967295) :
    readDirBytes crc32 inflate
      ⟨(pre ++ (zipLocals zs ++ zipCD base zs)).length, eocdRecord zs.length (zipCD base zs).length (base + (zipLocals zs).length)⟩
      ((pre ++ (zipLocals zs ++ zipCD base zs)) ++ eocdRecord zs.length (zipCD base zs).length (base + (zipLocals zs).length)) =
      some (zs.map fun z => (z.name, z.content)) := by
  have h256 : (256 : Nat) ^ 4 = 4294967296 := by decide
  obtain ⟨hs, ho, _⟩ := eocdRecord_fields zs.length (zipCD base zs).length (base + (zipLocals zs).length)
    (pre ++ (zipLocals zs ++ zipCD base zs)).length (by omega) (by omega) hcount
  have hxl : (pre ++ (zipLocals zs ++ zipCD base zs)).length = pre.length + (zipLocals zs).length + (zipCD base zs).length := by
    simp; omega
  unfold readDirBytes EndRec.startDir
  simp only [hs, ho]
  rw [if_neg (by omega)]
  have hsd : (pre ++ (zipLocals zs ++ zipCD base zs)).length - (zipCD base zs).length = pre.length + (zipLocals zs).length := by omega
  simp only [hsd]
  have hfile : (pre ++ (zipLocals zs ++ zipCD base zs)) ++ eocdRecord zs.length (zipCD base zs).length (base + (zipLocals zs).length) =
      (pre ++ zipLocals zs) ++ (zipCD base zs ++ eocdRecord zs.length (zipCD base zs).length (base + (zipLocals zs).length)) := by
    simp [List.append_assoc]
  have hcd : (((pre ++ (zipLocals zs ++ zipCD base zs)) ++ eocdRecord zs.length (zipCD base zs).length (base + (zipLocals zs).length)).drop
      (pre.length + (zipLocals zs).length)).take (zipCD base zs).length = zipCD base zs := by
    rw [hfile, List.drop_left' (by simp), List.take_left' rfl]
  rw [hcd, parseCD_zipCD crc32 inflate zs base _ hz (by omega) (by omega)]
  have hfile2 : (pre ++ (zipLocals zs ++ zipCD base zs)) ++ eocdRecord zs.length (zipCD base zs).length (base + (zipLocals zs).length) =
      pre ++ (zipLocals zs ++ (zipCD base zs ++ eocdRecord zs.length (zipCD base zs).length (base + (zipLocals zs).length))) := by
    simp [List.append_assoc]
  rw [hfile2]
  exact readMembers_locals_shift crc32 inflate _ _ zs pre _ base (by omega) hz

/-- the archive appended to a file of `pre.length` bytes (`base = pre.length`, `concat = 0`): what
    `ConstrainedQuadraticModel.to_file` writes; the hypothesis `hread` of `cqm_file_roundtrip_zip` -/
theorem readDirBytes_zipBytes (crc32 : Bytes → Nat) (inflate : Bytes → Option Bytes) (pre : Bytes) (zs : List ZEntry)
    (hz : ∀ z ∈ zs, z.OK crc32 inflate) (hcount : zs.length < 256 ^ 2)
    (hsize : pre.length + (zipLocals zs).length + (zipCD pre.length zs).length < 4294967295) :
    readDirBytes crc32 inflate
      ⟨(pre ++ (zipLocals zs ++ zipCD pre.length zs)).length,
        eocdRecord zs.length (zipCD pre.length zs).length (pre.length + (zipLocals zs).length)⟩
      ((pre ++ (zipLocals zs ++ zipCD pre.length zs)) ++
        eocdRecord zs.length (zipCD pre.length zs).length (pre.length + (zipLocals zs).length)) =
      some (zs.map fun z => (z.name, z.content)) :=
  readDirBytes_zipBytes_shift crc32 inflate pre pre.length zs hz hcount hsize

/-! ### the tiling check of the repaired CQM loader -/

theorem infosOf_offsets_ge : ∀ (zs : List ZEntry) (off : Nat), ∀ i ∈ infosOf off zs, off ≤ i.offset
  | [], _, i, hi => by simp [infosOf] at hi
  | z :: zs, off, i, hi => by
    simp only [infosOf, List.mem_cons] at hi
    rcases hi with rfl | hi
    · exact Nat.le_refl _
    · have := infosOf_offsets_ge zs _ i hi; omega

theorem sortByOffset_infosOf : ∀ (zs : List ZEntry) (off : Nat), sortByOffset (infosOf off zs) = infosOf off zs
  | [], _ => rfl
  | z :: zs, off => by
    simp only [infosOf, sortByOffset, sortByOffset_infosOf zs]
    cases h : infosOf (off + (localEntry z).length) zs with
    | nil => rfl
    | cons j t =>
      have := infosOf_offsets_ge zs (off + (localEntry z).length) j (by rw [h]; simp)
      simp only [insertByOffset]
      rw [if_pos (by simp only [infoOf]; omega)]

theorem localFixed_lengths (z : ZEntry) : (localFixed z).drop 26 = toLE 2 z.name.length ++ toLE 2 z.lextra.length := by
  simp [localFixed, sigLocal, toLE]

theorem tilesFrom_locals (sd ocd : Nat) (crc32 : Bytes → Nat) (inflate : Bytes → Option Bytes) :
    ∀ (zs : List ZEntry) (pre post : Bytes) (off : Nat), off + sd = pre.length + ocd → (∀ z ∈ zs, z.OK crc32 inflate) →
    tilesFrom (pre ++ (zipLocals zs ++ post)) sd ocd pre.length (infosOf off zs) = some (pre.length + (zipLocals zs).length)
  | [], _, _, _, _, _ => by simp [tilesFrom, infosOf, zipLocals]
  | z :: zs, pre, post, off, hoc, hz => by
    obtain ⟨_, _, _, _, _, hn, hle, _, _, _⟩ := hz z (by simp)
    have hpos : off + sd - ocd = pre.length := by omega
    have h2 : pre ++ (zipLocals (z :: zs) ++ post) = (pre ++ localEntry z) ++ (zipLocals zs ++ post) := by simp [zipLocals]
    have hrest := tilesFrom_locals sd ocd crc32 inflate zs (pre ++ localEntry z) post (off + (localEntry z).length)
      (by rw [List.length_append]; omega) (fun y hy => hz y (by simp [hy]))
    rw [← h2] at hrest
    have hlen : ((pre ++ (zipLocals (z :: zs) ++ post)).drop (pre.length + 26)).take 4 = toLE 2 z.name.length ++ toLE 2 z.lextra.length := by
      have e : pre ++ (zipLocals (z :: zs) ++ post) = pre ++ (localFixed z ++ (z.name ++ (z.lextra ++ (z.stored ++ (zipLocals zs ++ post))))) := by
        simp [zipLocals, localEntry, List.append_assoc]
      rw [e, ← List.drop_drop, List.drop_left' rfl, List.drop_append_of_le_length (by rw [localFixed_length]; omega), localFixed_lengths,
        List.take_left' (by simp [toLE_length])]
    simp only [infosOf, tilesFrom, infoOf]
    rw [if_neg (by omega), hpos, hlen]
    simp only [ne_eq, not_true_eq_false, List.length_append, toLE_length, or_self, if_false,
      List.take_left' (toLE_length 2 _), List.drop_left' (toLE_length 2 _), leNat_toLE 2 _ hn, leNat_toLE 2 _ hle]
    have hl : (pre ++ localEntry z).length = pre.length + 30 + z.name.length + z.lextra.length + z.stored.length := by
      rw [List.length_append, localEntry_length]; omega
    rw [hl] at hrest
    rw [hrest]
    simp only [zipLocals, List.length_append, localEntry_length]
    congr 1; omega

/-- **the tiling check accepts every archive the writer appended** (no valid file is refused): for the file
    `pre ++ zipBytes pre.length zs` and `start = pre.length` the walk ends exactly at the central directory -/
theorem openTiled_zipBytes (crc32 : Bytes → Nat) (inflate : Bytes → Option Bytes) (pre : Bytes) (zs : List ZEntry)
    (hz : ∀ z ∈ zs, z.OK crc32 inflate) (hcount : zs.length < 256 ^ 2)
    (hsize : pre.length + (zipLocals zs).length + (zipCD pre.length zs).length < 4294967295) :
    openTiled crc32 inflate pre.length (pre ++ zipBytes pre.length zs) = some (zs.map fun z => (z.name, z.content)) := by
  have h256 : (256 : Nat) ^ 4 = 4294967296 := by decide
  obtain ⟨a, b, c⟩ := eocdRecord_shape zs.length (zipCD pre.length zs).length (pre.length + (zipLocals zs).length)
  obtain ⟨hs, ho, _⟩ := eocdRecord_fields zs.length (zipCD pre.length zs).length (pre.length + (zipLocals zs).length)
    (pre ++ (zipLocals zs ++ zipCD pre.length zs)).length (by omega) (by omega) hcount
  have hfile : pre ++ zipBytes pre.length zs = (pre ++ (zipLocals zs ++ zipCD pre.length zs)) ++
      eocdRecord zs.length (zipCD pre.length zs).length (pre.length + (zipLocals zs).length) := by
    simp [zipBytes, List.append_assoc]
  unfold openTiled
  rw [hfile, endRecData_full _ _ a b c]
  have hxl : (pre ++ (zipLocals zs ++ zipCD pre.length zs)).length = pre.length + (zipLocals zs).length + (zipCD pre.length zs).length := by
    simp; omega
  have hsd : (EndRec.mk (pre ++ (zipLocals zs ++ zipCD pre.length zs)).length
      (eocdRecord zs.length (zipCD pre.length zs).length (pre.length + (zipLocals zs).length))).startDir =
      some (pre.length + (zipLocals zs).length) := by
    unfold EndRec.startDir
    simp only [hs]
    rw [if_neg (by omega)]
    congr 1; omega
  simp only [hsd]
  simp only [hs, ho]
  have hfile1 : (pre ++ (zipLocals zs ++ zipCD pre.length zs)) ++
      eocdRecord zs.length (zipCD pre.length zs).length (pre.length + (zipLocals zs).length) =
      (pre ++ zipLocals zs) ++ (zipCD pre.length zs ++ eocdRecord zs.length (zipCD pre.length zs).length (pre.length + (zipLocals zs).length)) := by
    simp [List.append_assoc]
  have hcd : (((pre ++ (zipLocals zs ++ zipCD pre.length zs)) ++
      eocdRecord zs.length (zipCD pre.length zs).length (pre.length + (zipLocals zs).length)).drop (pre.length + (zipLocals zs).length)).take
        (zipCD pre.length zs).length = zipCD pre.length zs := by
    rw [hfile1, List.drop_left' (by simp), List.take_left' rfl]
  rw [hcd, parseCD_zipCD crc32 inflate zs pre.length _ hz (by omega) (by omega)]
  simp only [sortByOffset_infosOf]
  have hfile2 : (pre ++ (zipLocals zs ++ zipCD pre.length zs)) ++
      eocdRecord zs.length (zipCD pre.length zs).length (pre.length + (zipLocals zs).length) =
      pre ++ (zipLocals zs ++ (zipCD pre.length zs ++ eocdRecord zs.length (zipCD pre.length zs).length (pre.length + (zipLocals zs).length))) := by
    simp [List.append_assoc]
  rw [hfile2, tilesFrom_locals _ _ crc32 inflate zs pre _ pre.length (by omega) hz, if_pos rfl]
  exact readMembers_locals_shift crc32 inflate _ _ zs pre _ pre.length (by omega) hz

/-- **the tiling check refuses an archive that does not start where the header ended**: a non-empty archive written for
    any offset `base` and sitting after `pre.length ≠ start` bytes — in particular the archive spelled by a payload in a file
    cut right after it (`embedded_archive_opens` shows that `zipfile` alone opens it). -/
theorem openTiled_embedded_none (crc32 : Bytes → Nat) (inflate : Bytes → Option Bytes) (pre : Bytes) (base start : Nat) (z : ZEntry)
    (zs : List ZEntry) (hstart : pre.length ≠ start) (hz : ∀ y ∈ z :: zs, y.OK crc32 inflate) (hcount : (z :: zs).length < 256 ^ 2)
    (hsize : base + (zipLocals (z :: zs)).length + (zipCD base (z :: zs)).length < 4294967295) :
    openTiled crc32 inflate start (pre ++ zipBytes base (z :: zs)) = none := by
  have h256 : (256 : Nat) ^ 4 = 4294967296 := by decide
  generalize hzz : z :: zs = zz at hz hcount hsize
  obtain ⟨a, b, c⟩ := eocdRecord_shape zz.length (zipCD base zz).length (base + (zipLocals zz).length)
  obtain ⟨hs, ho, _⟩ := eocdRecord_fields zz.length (zipCD base zz).length (base + (zipLocals zz).length)
    (pre ++ (zipLocals zz ++ zipCD base zz)).length (by omega) (by omega) hcount
  have hfile : pre ++ zipBytes base zz = (pre ++ (zipLocals zz ++ zipCD base zz)) ++
      eocdRecord zz.length (zipCD base zz).length (base + (zipLocals zz).length) := by
    simp [zipBytes, List.append_assoc]
  unfold openTiled
  rw [hfile, endRecData_full _ _ a b c]
  have hxl : (pre ++ (zipLocals zz ++ zipCD base zz)).length = pre.length + (zipLocals zz).length + (zipCD base zz).length := by
    simp; omega
  have hsd : (EndRec.mk (pre ++ (zipLocals zz ++ zipCD base zz)).length
      (eocdRecord zz.length (zipCD base zz).length (base + (zipLocals zz).length))).startDir = some (pre.length + (zipLocals zz).length) := by
    unfold EndRec.startDir
    simp only [hs]
    rw [if_neg (by omega)]
    congr 1; omega
  simp only [hsd]
  simp only [hs, ho]
  have hfile1 : (pre ++ (zipLocals zz ++ zipCD base zz)) ++ eocdRecord zz.length (zipCD base zz).length (base + (zipLocals zz).length) =
      (pre ++ zipLocals zz) ++ (zipCD base zz ++ eocdRecord zz.length (zipCD base zz).length (base + (zipLocals zz).length)) := by
    simp [List.append_assoc]
  have hcd : (((pre ++ (zipLocals zz ++ zipCD base zz)) ++ eocdRecord zz.length (zipCD base zz).length (base + (zipLocals zz).length)).drop
      (pre.length + (zipLocals zz).length)).take (zipCD base zz).length = zipCD base zz := by
    rw [hfile1, List.drop_left' (by simp), List.take_left' rfl]
  rw [hcd, parseCD_zipCD crc32 inflate zz base _ hz (by omega) (by omega)]
  simp only [sortByOffset_infosOf]
  subst hzz
  have ht : tilesFrom ((pre ++ (zipLocals (z :: zs) ++ zipCD base (z :: zs))) ++
      eocdRecord (z :: zs).length (zipCD base (z :: zs)).length (base + (zipLocals (z :: zs)).length))
      (pre.length + (zipLocals (z :: zs)).length) (base + (zipLocals (z :: zs)).length) start (infosOf base (z :: zs)) = none := by
    simp only [infosOf, tilesFrom, infoOf]
    rw [if_neg (by omega)]
    have : base + (pre.length + (zipLocals (z :: zs)).length) - (base + (zipLocals (z :: zs)).length) = pre.length := by omega
    rw [this, if_pos (Or.inl hstart)]
  rw [ht]
  simp

end FileFmt
