import DimodProofs.Vars

/-! Representation invariant of the `Variables` model: basic facts, `Nodup`, `index?`/`at?`,
    and preservation by `append`, `pop`, `clear`, `relabelAsIntegers`, `relabelOne`; `autoLabel`. -/

namespace VState

theorem abs_length (s : VState) : s.abs.length = s.stop := by simp [abs]

theorem abs_getElem? (s : VState) (i : Nat) :
    s.abs[i]? = if i < s.stop then some (s.labelAt i) else none := by
  unfold abs
  rw [List.getElem?_map]
  split
  · rename_i h; simp [List.getElem?_range h]
  · rename_i h; simp [List.getElem?_eq_none (l := List.range s.stop) (by simpa using h)]

theorem inv_empty : empty.Inv := by
  constructor <;> simp [empty, AMap.get?]

theorem abs_empty : empty.abs = [] := by simp [empty, abs]

/-- entries of the sparse maps are entries of the list -/
theorem Inv.labelAt_of_i2l {s : VState} (_h : s.Inv) {i : Nat} {l : Label} (hg : s.i2l.get? i = some l) :
    s.labelAt i = l := by simp [labelAt, hg]

theorem Inv.mem_of_i2l {s : VState} (h : s.Inv) {i : Nat} {l : Label} (hg : s.i2l.get? i = some l) :
    l ∈ s.abs :=
  (s.mem_abs l).2 ⟨i, (h.i2l_ok _ _ hg).1, by simp [labelAt, hg]⟩

theorem Inv.mem_of_l2i {s : VState} (h : s.Inv) {i : Nat} {l : Label} (hg : s.l2i.get? l = some i) :
    l ∈ s.abs := h.mem_of_i2l (h.l2i_ok _ _ hg)

theorem Inv.i2l_none_of_ge {s : VState} (h : s.Inv) {i : Nat} (hi : s.stop ≤ i) : s.i2l.get? i = none := by
  cases hg : s.i2l.get? i with
  | none => rfl
  | some l => have := (h.i2l_ok _ _ hg).1; omega

theorem Inv.mem_int_of_none {s : VState} (_h : s.Inv) {i : Nat} (hi : i < s.stop) (hg : s.i2l.get? i = none) :
    Label.int i ∈ s.abs :=
  (s.mem_abs _).2 ⟨i, hi, by simp [labelAt, hg]⟩

/-- the position of a member -/
theorem Inv.idxOf_spec {s : VState} (h : s.Inv) {v : Label} (hv : v ∈ s.abs) :
    s.idxOf v < s.stop ∧ s.labelAt (s.idxOf v) = v := by
  obtain ⟨j, hj, hjv⟩ := (s.mem_abs v).1 hv
  have := ((s.labelAt_eq_iff h j hj v).1 hjv).2
  rw [this]; exact ⟨hj, hjv⟩

theorem Inv.labelAt_inj {s : VState} (h : s.Inv) {i j : Nat} (hi : i < s.stop) (hj : j < s.stop)
    (e : s.labelAt i = s.labelAt j) : i = j := by
  have h1 := ((s.labelAt_eq_iff h i hi (s.labelAt j)).1 e).2
  have h2 := ((s.labelAt_eq_iff h j hj (s.labelAt j)).1 rfl).2
  omega

/-- the bijection part: iteration yields no label twice -/
theorem abs_nodup (s : VState) (h : s.Inv) : s.abs.Nodup := by
  unfold abs
  rw [List.Nodup, List.pairwise_map]
  have := List.nodup_range (n := s.stop)
  rw [List.Nodup] at this
  have hmem : ∀ x ∈ List.range s.stop, x < s.stop := fun x hx => List.mem_range.mp hx
  revert hmem
  generalize List.range s.stop = r at this
  induction this with
  | nil => intro _; exact List.Pairwise.nil
  | cons hx _ ih =>
    rename_i a r'
    intro hmem
    refine List.Pairwise.cons ?_ (ih fun x hx => hmem x (List.mem_cons_of_mem _ hx))
    intro b hb e
    exact hx b hb (h.labelAt_inj (hmem _ List.mem_cons_self) (hmem _ (List.mem_cons_of_mem _ hb)) e)

/-- `index()` against the list -/
theorem index?_eq_some_iff (s : VState) (h : s.Inv) (v : Label) (i : Nat) :
    s.index? v = some i ↔ s.abs[i]? = some v := by
  rw [abs_getElem?]
  unfold index?
  constructor
  · intro hi
    split at hi
    · rename_i hc
      have hv := (s.count_iff h v).1 hc
      have := h.idxOf_spec hv
      simp at hi; subst hi
      simp [this.1, this.2]
    · simp at hi
  · intro hi
    split at hi
    · rename_i hlt
      simp at hi
      have := (s.labelAt_eq_iff h i hlt v).1 hi
      have hc := (s.count_iff h v).2 this.1
      simp [hc, this.2]
    · simp at hi

theorem index?_eq_none_iff (s : VState) (h : s.Inv) (v : Label) :
    s.index? v = none ↔ v ∉ s.abs := by
  unfold index?
  rw [← s.count_iff h v]
  split <;> simp_all

/-- `at()` against Python list indexing (negative indices count from the end) -/
theorem at?_eq (s : VState) (idx : Int) :
    s.at? idx =
      if 0 ≤ idx then s.abs[idx.toNat]?
      else if -idx ≤ s.abs.length then s.abs[(s.abs.length + idx).toNat]? else none := by
  unfold at?
  simp only [abs_getElem?, abs_length]
  by_cases h0 : 0 ≤ idx
  · have : ¬ idx < 0 := by omega
    simp only [this, h0, if_true, if_false, true_and]
    by_cases h1 : idx < s.stop
    · have : idx.toNat < s.stop := by omega
      simp [h1, this]
    · have : ¬ idx.toNat < s.stop := by omega
      simp [h1, this]
  · have : idx < 0 := by omega
    simp only [this, h0, if_true, if_false]
    by_cases h1 : -idx ≤ s.stop
    · have h2 : (0:Int) ≤ s.stop + idx ∧ (s.stop:Int) + idx < s.stop := by omega
      have h3 : ((s.stop:Int) + idx).toNat < s.stop := by omega
      simp [h1, h2, h3]
    · have h2 : ¬ ((0:Int) ≤ s.stop + idx ∧ (s.stop:Int) + idx < s.stop) := by omega
      simp [h1, h2]

/-! ### append -/

theorem append_inv (s : VState) (h : s.Inv) (v : Label) (hv : v ∉ s.abs) : (s.append v).Inv := by
  have hstop := h.i2l_none_of_ge (Nat.le_refl s.stop)
  unfold append
  split
  · rename_i heq
    constructor
    · intro i l hg
      have := h.i2l_ok i l hg
      exact ⟨by simp; omega, this.2⟩
    · exact h.l2i_ok
    · intro i hi hg
      simp at hi
      by_cases hlt : i < s.stop
      · exact h.ident_ok i hlt hg
      · have : i = s.stop := by omega
        subst this
        cases hl : s.l2i.get? (Label.int s.stop) with
        | none => rfl
        | some j => exact absurd (heq ▸ h.mem_of_l2i hl) hv
  · rename_i hne
    constructor
    · intro i l hg
      simp only [AMap.get?_set] at hg ⊢
      split at hg
      · rename_i e; subst e; simp at hg; subst hg; simp [hne]
      · rename_i e
        have := h.i2l_ok i l hg
        have hvl : v ≠ l := fun e => hv (e ▸ h.mem_of_i2l hg)
        refine ⟨by omega, this.2.1, ?_⟩
        simp [hvl, this.2.2]
    · intro l i hg
      simp only [AMap.get?_set] at hg ⊢
      split at hg
      · rename_i e; subst e; simp at hg; subst hg; simp
      · have h1 := h.l2i_ok l i hg
        have := (h.i2l_ok i l h1).1
        have : s.stop ≠ i := by omega
        simp [this, h1]
    · intro i hi hg
      simp only [AMap.get?_set] at hg ⊢
      split at hg
      · simp at hg
      · rename_i e
        have hlt : i < s.stop := by simp at hi; omega
        have hvl : v ≠ Label.int i := fun e => hv (e ▸ h.mem_int_of_none hlt hg)
        simp [hvl, h.ident_ok i hlt hg]

/-! ### pop -/

theorem Inv.of_l2i {s : VState} (h : s.Inv) {i : Nat} {l : Label} (hg : s.l2i.get? l = some i) :
    i < s.stop ∧ s.labelAt i = l :=
  ⟨(h.i2l_ok _ _ (h.l2i_ok _ _ hg)).1, h.labelAt_of_i2l (h.l2i_ok _ _ hg)⟩

theorem Inv.of_i2l {s : VState} (h : s.Inv) {i : Nat} {l : Label} (hg : s.i2l.get? i = some l) :
    i < s.stop ∧ s.labelAt i = l :=
  ⟨(h.i2l_ok _ _ hg).1, h.labelAt_of_i2l hg⟩

theorem pop_eq_none_iff (s : VState) : s.pop = none ↔ s.stop = 0 := by
  unfold pop; split <;> simp_all

/-- the state after a successful `pop` -/
def popState (s : VState) : VState :=
  { i2l := s.i2l.erase (s.stop - 1), l2i := s.l2i.erase (s.labelAt (s.stop - 1)), stop := s.stop - 1 }

theorem pop_eq (s : VState) :
    s.pop = if s.stop = 0 then none else some (s.popState, s.labelAt (s.stop - 1)) := rfl

theorem popState_inv (s : VState) (h : s.Inv) (h0 : s.stop ≠ 0) : s.popState.Inv := by
  have hlt : s.stop - 1 < s.stop := by omega
  unfold popState
  generalize hl' : s.labelAt (s.stop - 1) = lbl
  constructor
  · intro i l hg
    simp only [AMap.get?_erase] at hg ⊢
    split at hg
    · simp at hg
    · rename_i hne
      have := h.i2l_ok i l hg
      have hll : lbl ≠ l := by
        intro e; subst e
        exact hne (h.labelAt_inj hlt this.1 (hl'.trans (h.labelAt_of_i2l hg).symm))
      refine ⟨by omega, this.2.1, ?_⟩
      simp [hll, this.2.2]
  · intro l i hg
    simp only [AMap.get?_erase] at hg ⊢
    split at hg
    · simp at hg
    · rename_i hne
      have h1 := h.l2i_ok l i hg
      have : s.stop - 1 ≠ i := by
        intro e; subst e
        exact hne (hl'.symm.trans (h.labelAt_of_i2l h1))
      simp [this, h1]
  · intro i hi hg
    simp only [AMap.get?_erase] at hg ⊢
    simp at hi
    have : s.stop - 1 ≠ i := by omega
    simp only [this, if_false] at hg
    simp [h.ident_ok i (by omega) hg]

theorem popState_abs (s : VState) (h0 : s.stop ≠ 0) :
    s.abs = s.popState.abs ++ [s.labelAt (s.stop - 1)] := by
  have : s.stop = (s.stop - 1) + 1 := by omega
  unfold abs
  conv => lhs; rw [this, List.range_succ]
  simp only [List.map_append, List.map_cons, List.map_nil]
  congr 1
  apply List.map_congr_left
  intro i hi
  have : i < s.stop - 1 := List.mem_range.mp hi
  have : s.stop - 1 ≠ i := by omega
  simp [labelAt, popState, AMap.get?_erase, this]

theorem popState_abs_dropLast (s : VState) (h0 : s.stop ≠ 0) : s.popState.abs = s.abs.dropLast := by
  rw [s.popState_abs h0, List.dropLast_concat]

theorem abs_eq_nil_iff (s : VState) : s.abs = [] ↔ s.stop = 0 := by
  rw [← List.length_eq_zero_iff, abs_length]

/-! ### clear / relabelAsIntegers -/

theorem relabelAsIntegers_inv (s : VState) : s.relabelAsIntegers.1.Inv := by
  constructor <;> simp [relabelAsIntegers, AMap.get?]

theorem relabelAsIntegers_abs (s : VState) :
    s.relabelAsIntegers.1.abs = (List.range s.abs.length).map fun i => Label.int (i : Nat) := by
  simp [relabelAsIntegers, abs, labelAt, AMap.get?]

/-! ### autoLabel -/

/-- pigeonhole: a duplicate-free list inside another list is not longer -/
theorem length_le_of_nodup_subset {α : Type} [DecidableEq α] :
    ∀ (l1 l2 : List α), l1.Nodup → (∀ x ∈ l1, x ∈ l2) → l1.length ≤ l2.length
  | [], _, _, _ => by simp
  | a :: l1, l2, hn, hs => by
    have ha : a ∈ l2 := hs a List.mem_cons_self
    have hn' := List.nodup_cons.mp hn
    have := length_le_of_nodup_subset l1 (l2.erase a) hn'.2 (by
      intro x hx
      have hxa : x ≠ a := fun e => hn'.1 (e ▸ hx)
      exact (List.mem_erase_of_ne hxa).2 (hs x (List.mem_cons_of_mem _ hx)))
    rw [List.length_erase_of_mem ha] at this
    have : 0 < l2.length := List.length_pos_of_mem ha
    simp; omega

/-- generic "least free natural" search, the shape shared by all the `least`/`fresh` loops -/
theorem exists_free_nat (l : List Label) (c n : Nat) (hn : l.length < n) :
    ∃ j, c ≤ j ∧ j < c + n ∧ Label.int (j : Nat) ∉ l := by
  apply Classical.byContradiction
  intro hcon
  have hall : ∀ j, c ≤ j → j < c + n → Label.int (j : Nat) ∈ l := by
    intro j h1 h2
    apply Classical.byContradiction
    intro h3; exact hcon ⟨j, h1, h2, h3⟩
  have hnd : ((List.range n).map fun k => Label.int ((c + k : Nat) : Int)).Nodup := by
    rw [List.Nodup, List.pairwise_map]
    have := List.nodup_range (n := n)
    refine List.Pairwise.imp ?_ this
    intro a b hab e
    simp at e
    exact hab (by omega)
  have := length_le_of_nodup_subset _ l hnd (by
    intro x hx
    simp only [List.mem_map, List.mem_range] at hx
    obtain ⟨k, hk, rfl⟩ := hx
    exact hall (c + k) (by omega) (by omega))
  simp at this
  omega

theorem least_eq (s : VState) (h : s.Inv) (fuel i : Nat) :
    autoLabel.least s fuel i = LSpec.autoLabel.least s.abs fuel i := by
  induction fuel generalizing i with
  | zero => simp [autoLabel.least, LSpec.autoLabel.least]
  | succ f ih =>
    simp only [autoLabel.least, LSpec.autoLabel.least]
    by_cases hc : Label.int (i : Nat) ∈ s.abs
    · have := (s.count_iff h _).2 hc
      simp [hc, this, ih]
    · have : s.count (Label.int i) = false := by
        cases hcc : s.count (Label.int i) with
        | false => rfl
        | true => exact absurd ((s.count_iff h _).1 hcc) hc
      simp [hc, this]

theorem spec_least_free (l : List Label) (fuel i : Nat)
    (hex : ∃ j, i ≤ j ∧ j < i + fuel ∧ Label.int (j : Nat) ∉ l) :
    Label.int (LSpec.autoLabel.least l fuel i : Nat) ∉ l := by
  induction fuel generalizing i with
  | zero => obtain ⟨j, h1, h2, _⟩ := hex; omega
  | succ f ih =>
    simp only [LSpec.autoLabel.least]
    split
    · rename_i hmem
      apply ih
      obtain ⟨j, h1, h2, h3⟩ := hex
      have : j ≠ i := fun e => h3 (e ▸ hmem)
      exact ⟨j, by omega, by omega, h3⟩
    · assumption

theorem spec_autoLabel_fresh (l : List Label) : LSpec.autoLabel l ∉ l := by
  unfold LSpec.autoLabel
  split
  · apply spec_least_free
    obtain ⟨j, h1, h2, h3⟩ := exists_free_nat l 0 (l.length + 1) (by omega)
    exact ⟨j, h1, h2, h3⟩
  · assumption

theorem isRange_iff (s : VState) : s.isRange = true ↔ ∀ l, s.l2i.get? l = none := by
  unfold isRange
  cases hl : s.l2i with
  | nil => simp [AMap.get?]
  | cons p t =>
    simp only [List.isEmpty_cons, Bool.false_eq_true, false_iff]
    intro hall
    have := hall p.1
    simp [AMap.get?] at this

theorem autoLabel_eq (s : VState) (h : s.Inv) : s.autoLabel = LSpec.autoLabel s.abs := by
  have hnot : s.isRange = true → Label.int (s.stop : Nat) ∉ s.abs := by
    intro hr hmem
    have hc := (s.count_iff h _).2 hmem
    have hnone := (s.isRange_iff).1 hr
    simp [count, hnone] at hc
  unfold autoLabel LSpec.autoLabel
  rw [abs_length]
  by_cases hmem : Label.int (s.stop : Nat) ∈ s.abs
  · have hc := (s.count_iff h _).2 hmem
    have hr : s.isRange = false := by
      cases hr : s.isRange with
      | false => rfl
      | true => exact absurd hmem (hnot hr)
    simp [hmem, hc, hr, least_eq s h]
  · have hc : s.count (Label.int s.stop) = false := by
      cases hcc : s.count (Label.int s.stop) with
      | false => rfl
      | true => exact absurd ((s.count_iff h _).1 hcc) hmem
    simp [hmem, hc]

theorem autoLabel_fresh (s : VState) (h : s.Inv) : s.autoLabel ∉ s.abs := by
  rw [autoLabel_eq s h]; exact spec_autoLabel_fresh _

/-! ### relabelOne -/

theorem relabelOne_stop (s : VState) (old new : Label) : (s.relabelOne old new).stop = s.stop := by
  unfold relabelOne; split <;> rfl

theorem relabelOne_inv (s : VState) (h : s.Inv) (old new : Label)
    (hold : old ∈ s.abs) (hnew : new ∉ s.abs) : (s.relabelOne old new).Inv := by
  obtain ⟨hj, hjv⟩ := h.idxOf_spec hold
  unfold relabelOne
  generalize s.idxOf old = j at hj hjv
  split
  · rename_i hnj
    constructor
    · intro i l hg
      simp only [AMap.get?_erase] at hg ⊢
      split at hg
      · simp at hg
      · rename_i hne
        have := h.i2l_ok i l hg
        have hol : old ≠ l := by
          intro e; subst e
          exact hne (h.labelAt_inj hj this.1 (hjv.trans (h.labelAt_of_i2l hg).symm))
        exact ⟨this.1, this.2.1, by simp [hol, this.2.2]⟩
    · intro l i hg
      simp only [AMap.get?_erase] at hg ⊢
      split at hg
      · simp at hg
      · rename_i hne
        have h1 := h.l2i_ok l i hg
        have : j ≠ i := by
          intro e; subst e
          exact hne (hjv.symm.trans (h.labelAt_of_i2l h1))
        simp [this, h1]
    · intro i hi hg
      simp only [AMap.get?_erase] at hg ⊢
      have hi' : i < s.stop := hi
      split
      · rfl
      · by_cases hji : j = i
        · subst hji
          cases hl : s.l2i.get? (Label.int j) with
          | none => rfl
          | some k => exact absurd (hnj ▸ h.mem_of_l2i hl) hnew
        · simp only [hji, if_false] at hg
          exact h.ident_ok i hi' hg
  · rename_i hnj
    constructor
    · intro i l hg
      simp only [AMap.get?_set, AMap.get?_erase] at hg ⊢
      split at hg
      · rename_i e; subst e; simp at hg; subst hg
        exact ⟨hj, hnj, by simp⟩
      · rename_i hne
        have := h.i2l_ok i l hg
        have hnl : new ≠ l := fun e => hnew (e ▸ h.mem_of_i2l hg)
        have hol : old ≠ l := by
          intro e; subst e
          exact hne (h.labelAt_inj hj this.1 (hjv.trans (h.labelAt_of_i2l hg).symm))
        exact ⟨this.1, this.2.1, by simp [hnl, hol, this.2.2]⟩
    · intro l i hg
      simp only [AMap.get?_set, AMap.get?_erase] at hg ⊢
      split at hg
      · rename_i e; subst e; simp at hg; subst hg; simp
      · split at hg
        · simp at hg
        · rename_i hne
          have h1 := h.l2i_ok l i hg
          have : j ≠ i := by
            intro e; subst e
            exact hne (hjv.symm.trans (h.labelAt_of_i2l h1))
          simp [this, h1]
    · intro i hi hg
      simp only [AMap.get?_set, AMap.get?_erase] at hg ⊢
      have hi' : i < s.stop := hi
      split at hg
      · simp at hg
      · have hni : new ≠ Label.int i := fun e => hnew (e ▸ h.mem_int_of_none hi' hg)
        simp [hni, h.ident_ok i hi' hg]

/-- `relabelOne` on a member with a fresh target: invariant and list view together -/
theorem relabelOne_spec (s : VState) (h : s.Inv) (old new : Label)
    (hold : old ∈ s.abs) (hnew : new ∉ s.abs) :
    (s.relabelOne old new).Inv ∧
      (s.relabelOne old new).abs = s.abs.map (fun l => if l = old then new else l) :=
  ⟨relabelOne_inv s h old new hold hnew,
   abs_relabelOne s h old new hold (fun e => hnew (e ▸ hold))⟩


theorem relabelOne_self_inv (s : VState) (h : s.Inv) (old : Label) (hold : old ∈ s.abs) :
    (s.relabelOne old old).Inv := by
  obtain ⟨hj, hjv⟩ := h.idxOf_spec hold
  unfold relabelOne
  generalize s.idxOf old = j at hj hjv
  split
  · rename_i hnj
    -- old = int j sits at j implicitly: both erasures are no-ops
    have hnone : s.i2l.get? j = none := by
      cases hg : s.i2l.get? j with
      | none => rfl
      | some l =>
        have := h.i2l_ok j l hg
        rw [h.labelAt_of_i2l hg] at hjv
        exact absurd (hjv.trans hnj) this.2.1
    have hnone2 := h.ident_ok j hj hnone
    constructor
    · intro i l hg
      simp only [AMap.get?_erase] at hg ⊢
      split at hg
      · simp at hg
      · have := h.i2l_ok i l hg
        have hol : old ≠ l := by
          intro e; subst e; rw [hnj, hnone2] at this; simp at this
        exact ⟨this.1, this.2.1, by simp [hol, this.2.2]⟩
    · intro l i hg
      simp only [AMap.get?_erase] at hg ⊢
      split at hg
      · simp at hg
      · have h1 := h.l2i_ok l i hg
        have : j ≠ i := by intro e; subst e; rw [hnone] at h1; simp at h1
        simp [this, h1]
    · intro i hi hg
      simp only [AMap.get?_erase] at hg ⊢
      have hi' : i < s.stop := hi
      split
      · rfl
      · by_cases hji : j = i
        · subst hji; exact hnone2
        · simp only [hji, if_false] at hg
          exact h.ident_ok i hi' hg
  · rename_i hnj
    have hsome : s.i2l.get? j = some old := by
      cases hg : s.i2l.get? j with
      | none => simp [labelAt, hg] at hjv; exact absurd hjv.symm hnj
      | some l => rw [h.labelAt_of_i2l hg] at hjv; rw [hjv]
    have hsome2 := (h.i2l_ok j old hsome).2.2
    constructor
    · intro i l hg
      simp only [AMap.get?_set, AMap.get?_erase] at hg ⊢
      split at hg
      · rename_i e; subst e; simp at hg; subst hg
        exact ⟨hj, hnj, by simp⟩
      · rename_i hne
        have := h.i2l_ok i l hg
        have hol : old ≠ l := by
          intro e; subst e; rw [hsome2] at this; simp at this; exact hne this.2.2
        exact ⟨this.1, this.2.1, by simp [hol, this.2.2]⟩
    · intro l i hg
      simp only [AMap.get?_set, AMap.get?_erase] at hg ⊢
      split at hg
      · rename_i e; subst e; simp at hg; subst hg; simp
      · rename_i hne
        have h1 := h.l2i_ok l i hg
        have : j ≠ i := by
          intro e; subst e; rw [hsome] at h1; simp at h1; exact hne h1
        simp [this, h1]
    · intro i hi hg
      simp only [AMap.get?_set, AMap.get?_erase] at hg ⊢
      have hi' : i < s.stop := hi
      split at hg
      · simp at hg
      · have hni : old ≠ Label.int i := by
          intro e
          have := h.ident_ok i hi' hg
          rw [← e, hsome2] at this; simp at this
        simp [hni, h.ident_ok i hi' hg]

theorem relabelOne_self_abs (s : VState) (h : s.Inv) (old : Label) (hold : old ∈ s.abs) :
    (s.relabelOne old old).abs = s.abs := by
  obtain ⟨hj, hjv⟩ := h.idxOf_spec hold
  have hstop := s.relabelOne_stop old old
  unfold abs
  rw [hstop]
  apply List.map_congr_left
  intro i hi
  have hi' : i < s.stop := List.mem_range.mp hi
  unfold relabelOne
  generalize s.idxOf old = j at hj hjv
  by_cases hio : i = j
  · subst hio
    split
    · rename_i hnew
      rw [hjv]; simp only [labelAt, AMap.get?_erase, if_true, Option.getD_none]; exact hnew.symm
    · rw [hjv]; simp [labelAt, AMap.get?_set]
  · split
    · simp [labelAt, AMap.get?_erase, Ne.symm hio]
    · simp [labelAt, AMap.get?_set, Ne.symm hio]

/-! ### executable invariant check -/

theorem _root_.AMap.mem_of_get? [DecidableEq α] {m : AMap α β} {k : α} {v : β} (h : m.get? k = some v) :
    ∃ p ∈ m, p.1 = k := by
  induction m with
  | nil => simp [AMap.get?] at h
  | cons p t ih =>
    obtain ⟨a, b⟩ := p
    simp only [AMap.get?] at h
    split at h
    · rename_i e; exact ⟨(a, b), List.mem_cons_self, e⟩
    · obtain ⟨q, hq, e⟩ := ih h
      exact ⟨q, List.mem_cons_of_mem _ hq, e⟩

/-- executable check of the representation invariant (for closed witnesses) -/
def invCheck (s : VState) : Bool :=
  s.i2l.all (fun p => match s.i2l.get? p.1 with
    | some l => decide (p.1 < s.stop) && decide (l ≠ .int p.1) && decide (s.l2i.get? l = some p.1)
    | none => true) &&
  s.l2i.all (fun p => match s.l2i.get? p.1 with
    | some i => decide (s.i2l.get? i = some p.1)
    | none => true) &&
  (List.range s.stop).all (fun i => (s.i2l.get? i).isSome || (s.l2i.get? (.int i)).isNone)

theorem inv_of_invCheck (s : VState) (h : s.invCheck = true) : s.Inv := by
  simp only [invCheck, Bool.and_eq_true, List.all_eq_true] at h
  obtain ⟨⟨h1, h2⟩, h3⟩ := h
  constructor
  · intro i l hg
    obtain ⟨p, hp, e⟩ := AMap.mem_of_get? hg
    have := h1 p hp
    rw [e, hg] at this
    simpa [and_assoc] using this
  · intro l i hg
    obtain ⟨p, hp, e⟩ := AMap.mem_of_get? hg
    have := h2 p hp
    rw [e, hg] at this
    simpa using this
  · intro i hi hg
    have := h3 i (List.mem_range.2 hi)
    rw [hg] at this
    simpa using this

end VState
