import DimodProofs.LpRound

/-! C12: what the round trip does to evaluation, senses, right-hand sides, variable types and bounds. -/

namespace Lp

/-! ### expressions -/

theorem linE_nz (x : Label → Rat) (l : List (Label × Rat)) : linE x (nz l) = linE x l := by
  induction l with
  | nil => rfl
  | cons p t ih =>
    obtain ⟨v, b⟩ := p
    unfold nz at ih ⊢
    rw [List.filter_cons]
    by_cases hb : b = 0
    · have : decide ((v, b).2 ≠ 0) = false := by simp [hb]
      rw [this]; simp only [Bool.false_eq_true, if_false, linE, ih, hb]; ring
    · have : decide ((v, b).2 ≠ 0) = true := by simp [hb]
      rw [this]; simp only [if_true, linE, ih]

theorem normObj_eval (e : LExpr) (x : Label → Rat) : (⟨nz e.lin, e.quad, e.off⟩ : LExpr).eval x = e.eval x := by
  simp only [LExpr.eval, linE_nz]

theorem normCon_activity (c : LCon) (x : Label → Rat) : (normCon c).activity x = c.activity x := by
  simp only [normCon, LCon.activity, LExpr.eval, linE_nz]; ring

theorem normCon_same_when_no_constant (c : LCon) (h : c.lhs.off = 0) (x : Label → Rat) :
    (normCon c).rhs = c.rhs ∧ (normCon c).lhs.eval x = c.lhs.eval x := by
  refine ⟨by simp [normCon, h], ?_⟩
  simp only [normCon, LExpr.eval, linE_nz, h]

/-! ### variables: one entry per name -/

def entry (vs : List PVar) (n : Label) : Option PVar := vs.find? (fun p => p.name = n)

theorem entry_touch (vs : List PVar) (l n : Label) :
    entry (touch vs l) n = if (entry vs n).isSome then entry vs n else if l = n then some { name := n } else none := by
  unfold touch entry
  by_cases ha : vs.any (fun p => p.name = l) = true
  · simp only [ha, if_true]
    cases hf : vs.find? (fun p => p.name = n) with
    | some p => simp
    | none =>
      simp only [Option.isSome_none, Bool.false_eq_true, if_false]
      by_cases hl : l = n
      · subst hl
        simp only [List.any_eq_true, decide_eq_true_eq] at ha
        obtain ⟨p, hp, hpl⟩ := ha
        have := List.find?_eq_none.mp hf p hp
        simp [hpl] at this
      · simp [hl]
  · simp only [ha, Bool.false_eq_true, if_false, List.find?_append]
    cases hf : vs.find? (fun p => p.name = n) with
    | some p => simp
    | none =>
      by_cases hl : l = n
      · subst hl; simp [List.find?]
      · simp [List.find?, hl]

theorem entry_map (vs : List PVar) (l n : Label) (f : PVar → PVar) (hf : ∀ p, (f p).name = p.name) :
    entry (vs.map fun p => if p.name = l then f p else p) n =
      (entry vs n).map fun p => if p.name = l then f p else p := by
  unfold entry
  induction vs with
  | nil => rfl
  | cons a t ih =>
    have hname : (if a.name = l then f a else a).name = a.name := by split <;> simp [hf]
    rw [List.map_cons]
    by_cases ha : a.name = n
    · rw [List.find?_cons_of_pos (by rw [decide_eq_true_eq, hname]; exact ha), List.find?_cons_of_pos (by simp [ha])]
      rfl
    · rw [List.find?_cons_of_neg (by rw [decide_eq_true_eq, hname]; exact ha), List.find?_cons_of_neg (by simp [ha])]
      exact ih

theorem entry_updVar (vs : List PVar) (l n : Label) (f : PVar → PVar) (hf : ∀ p, (f p).name = p.name) :
    entry (updVar vs l f) n = if l = n then some (f ((entry vs n).getD { name := n })) else entry vs n := by
  unfold updVar
  rw [entry_map _ _ _ _ hf, entry_touch]
  by_cases hl : l = n
  · subst hl
    cases he : entry vs l with
    | some p =>
      have : p.name = l := by simpa using List.find?_some he
      simp [this]
    | none => simp
  · cases he : entry vs n with
    | some p =>
      have : p.name = n := by simpa using List.find?_some he
      have hne : ¬ p.name = l := by rw [this]; exact fun h => hl h.symm
      simp [hl, hne]
    | none => simp [hl]

/-- a pass over variables with distinct names: the entry of `n` is updated by the one variable named `n` -/
theorem entry_pass (F : LVar → PVar → PVar) (hF : ∀ v p, (F v p).name = p.name) (l : List LVar)
    (hnd : (l.map (·.name)).Nodup) (vs : List PVar) (n : Label) :
    entry (l.foldl (fun acc v => updVar acc v.name (F v)) vs) n =
      match l.find? (fun v => v.name = n) with
      | some v => some (F v ((entry vs n).getD { name := n }))
      | none => entry vs n := by
  induction l generalizing vs with
  | nil => rfl
  | cons v t ih =>
    simp only [List.map_cons, List.nodup_cons] at hnd
    simp only [List.foldl_cons]
    rw [ih hnd.2]
    by_cases hv : v.name = n
    · subst hv
      have hnone : t.find? (fun w => w.name = v.name) = none := by
        apply List.find?_eq_none.mpr
        intro w hw
        simp only [decide_eq_true_eq]
        intro hwn
        exact hnd.1 (List.mem_map.mpr ⟨w, hw, hwn⟩)
      rw [List.find?_cons_of_pos (by simp), hnone]
      simp only []
      rw [entry_updVar _ _ _ _ (hF v), if_pos rfl]
    · rw [List.find?_cons_of_neg (by simp [hv])]
      rw [entry_updVar _ _ _ _ (hF v), if_neg hv]

theorem find_filter (P : LVar → Bool) (l : List LVar) (hnd : (l.map (·.name)).Nodup) (v : LVar) (hv : v ∈ l) :
    (l.filter P).find? (fun w => w.name = v.name) = if P v then some v else none := by
  induction l with
  | nil => simp at hv
  | cons a t ih =>
    simp only [List.map_cons, List.nodup_cons] at hnd
    rcases List.mem_cons.mp hv with rfl | hv'
    · have hnone : (t.filter P).find? (fun w => w.name = v.name) = none := by
        apply List.find?_eq_none.mpr
        intro w hw
        simp only [decide_eq_true_eq]
        intro hwn
        exact hnd.1 (List.mem_map.mpr ⟨w, (List.mem_filter.mp hw).1, hwn⟩)
      by_cases hp : P v = true
      · simp [List.filter_cons, hp, List.find?]
      · simp [List.filter_cons, hp, hnone]
    · have hne : ¬ a.name = v.name := fun h => hnd.1 (List.mem_map.mpr ⟨v, hv', h.symm⟩)
      by_cases hp : P a = true
      · simp only [List.filter_cons, hp, if_true, List.find?, hne, decide_false]
        exact ih hnd.2 hv'
      · simp only [List.filter_cons, hp, Bool.false_eq_true, if_false]
        exact ih hnd.2 hv'

theorem nodup_filter_names (P : LVar → Bool) (l : List LVar) (hnd : (l.map (·.name)).Nodup) :
    ((l.filter P).map (·.name)).Nodup := by
  induction l with
  | nil => simp
  | cons a t ih =>
    simp only [List.map_cons, List.nodup_cons] at hnd
    by_cases hp : P a = true
    · simp only [List.filter_cons, hp, if_true, List.map_cons, List.nodup_cons]
      refine ⟨fun h => hnd.1 ?_, ih hnd.2⟩
      obtain ⟨w, hw, hwn⟩ := List.mem_map.mp h
      exact List.mem_map.mpr ⟨w, (List.mem_filter.mp hw).1, hwn⟩
    · simp only [List.filter_cons, hp, Bool.false_eq_true, if_false]
      exact ih hnd.2

/-- a well-formed LP-expressible variable: BINARY with bounds (0, 1), or INTEGER / REAL with bounds
    inside the vartype's limits -/
def VarOK (v : LVar) : Prop :=
  (v.vt = .binary ∧ v.lb = 0 ∧ v.ub = 1) ∨
  ((v.vt = .integer ∨ v.vt = .real) ∧ minBound v.vt ≤ v.lb ∧ v.lb ≤ maxBound v.vt ∧ minBound v.vt ≤ v.ub ∧ v.ub ≤ maxBound v.vt)

def AllDefault (vs : List PVar) : Prop := ∀ p ∈ vs, p = { name := p.name }

theorem allDefault_touch (vs : List PVar) (l : Label) (h : AllDefault vs) : AllDefault (touch vs l) := by
  unfold touch
  split
  · exact h
  · intro p hp
    rcases List.mem_append.mp hp with hp | hp
    · exact h p hp
    · simp only [List.mem_singleton] at hp; subst hp; rfl

theorem allDefault_touchAll (vs : List PVar) (ls : List Label) (h : AllDefault vs) : AllDefault (touchAll vs ls) := by
  induction ls generalizing vs with
  | nil => exact h
  | cons l t ih => exact ih _ (allDefault_touch vs l h)

theorem allDefault_cons_fold (cs : List LCon) (vs : List PVar) (h : AllDefault vs) :
    AllDefault (cs.foldl (fun vs c => touchAll vs (exprLabels c.lhs)) vs) := by
  induction cs generalizing vs with
  | nil => exact h
  | cons c t ih => exact ih _ (allDefault_touchAll vs _ h)

theorem entry_default (vs : List PVar) (n : Label) (h : AllDefault vs) : (entry vs n).getD { name := n } = { name := n } := by
  cases he : entry vs n with
  | none => rfl
  | some p =>
    have hm : p ∈ vs := List.mem_of_find?_eq_some he
    have hn : p.name = n := by simpa using List.find?_some he
    simp only [Option.getD_some]
    rw [h p hm, hn]

theorem clamp_id (vt : VT) (x : Rat) (h1 : minBound vt ≤ x) (h2 : x ≤ maxBound vt) : clamp vt x = x := by
  unfold clamp
  rw [if_neg (not_lt.mpr h1), if_neg (not_lt.mpr h2)]

/-- every variable of the written model is read back with its name, vartype and bounds -/
theorem vars_roundtrip (m : LCqm) (hnd : (m.vars.map (·.name)).Nodup) (v : LVar) (hv : v ∈ m.vars) (hok : VarOK v) :
    ∃ v' ∈ (normCqm m).vars, v'.name = v.name ∧ v'.vt = v.vt ∧ v'.lb = v.lb ∧ v'.ub = v.ub := by
  let vs0 := m.cons.foldl (fun vs c => touchAll vs (exprLabels c.lhs)) (touchAll [] (exprLabels m.obj))
  have hd0 : (entry vs0 v.name).getD { name := v.name } = { name := v.name } :=
    entry_default vs0 v.name (allDefault_cons_fold _ _ (allDefault_touchAll _ _ (by intro p hp; simp at hp)))
  have hb := entry_pass (fun v p => { p with lb := v.lb, ub := some v.ub }) (fun _ _ => rfl)
    (m.vars.filter fun v => v.vt = .integer ∨ v.vt = .real) (nodup_filter_names _ _ hnd) vs0 v.name
  rw [find_filter _ _ hnd v hv, hd0] at hb
  have hbin := entry_pass (fun _ p => { p with binary := true }) (fun _ _ => rfl)
    (m.vars.filter (·.vt = .binary)) (nodup_filter_names _ _ hnd) (boundPass vs0 m.vars) v.name
  rw [find_filter _ _ hnd v hv] at hbin
  have hgen := entry_pass (fun _ p => { p with general := true }) (fun _ _ => rfl)
    (m.vars.filter (·.vt = .integer)) (nodup_filter_names _ _ hnd) (binPass (boundPass vs0 m.vars) m.vars) v.name
  rw [find_filter _ _ hnd v hv] at hgen
  have hmem : ∀ p, entry (finalVars m) v.name = some p → toLVar p ∈ (normCqm m).vars := by
    intro p hp
    exact List.mem_map.mpr ⟨p, List.mem_of_find?_eq_some hp, rfl⟩
  have hfin : entry (finalVars m) v.name = entry (genPass (binPass (boundPass vs0 m.vars) m.vars) m.vars) v.name := rfl
  have hb' : entry (boundPass vs0 m.vars) v.name =
      if (decide (v.vt = .integer ∨ v.vt = .real)) = true then some { name := v.name, lb := v.lb, ub := some v.ub } else entry vs0 v.name := by
    unfold boundPass; rw [hb]; by_cases hc : (v.vt = .integer ∨ v.vt = .real) <;> simp [hc]
  have hbin' : entry (binPass (boundPass vs0 m.vars) m.vars) v.name =
      if (decide (v.vt = .binary)) = true then some { ((entry (boundPass vs0 m.vars) v.name).getD { name := v.name }) with binary := true }
      else entry (boundPass vs0 m.vars) v.name := by
    unfold binPass; rw [hbin]; by_cases hc : v.vt = .binary <;> simp [hc]
  have hgen' : entry (genPass (binPass (boundPass vs0 m.vars) m.vars) m.vars) v.name =
      if (decide (v.vt = .integer)) = true then some { ((entry (binPass (boundPass vs0 m.vars) m.vars) v.name).getD { name := v.name }) with general := true }
      else entry (binPass (boundPass vs0 m.vars) m.vars) v.name := by
    unfold genPass; rw [hgen]; by_cases hc : v.vt = .integer <;> simp [hc]
  rcases hok with ⟨hvt, hlb, hub⟩ | ⟨hvt, h1, h2, h3, h4⟩
  · -- BINARY
    simp only [hvt, reduceCtorEq, or_self, decide_false, Bool.false_eq_true, if_false] at hb'
    simp only [hvt, decide_true, if_true, hb', hd0] at hbin'
    simp only [hvt, reduceCtorEq, decide_false, Bool.false_eq_true, if_false, hbin'] at hgen'
    refine ⟨_, hmem _ (hfin.trans hgen'), ?_⟩
    simp [toLVar, hvt, hlb, hub]
  · rcases hvt with hvt | hvt
    · -- INTEGER
      simp only [hvt, true_or, decide_true, if_true] at hb'
      simp only [hvt, reduceCtorEq, decide_false, Bool.false_eq_true, if_false, hb'] at hbin'
      simp only [hvt, decide_true, if_true, hbin', Option.getD_some] at hgen'
      refine ⟨_, hmem _ (hfin.trans hgen'), ?_⟩
      rw [hvt] at h1 h2 h3 h4
      simp [toLVar, hvt, clamp_id .integer _ h1 h2, clamp_id .integer _ h3 h4]
    · -- REAL
      simp only [hvt, or_true, decide_true, if_true] at hb'
      simp only [hvt, reduceCtorEq, decide_false, Bool.false_eq_true, if_false, hb'] at hbin'
      simp only [hvt, reduceCtorEq, decide_false, Bool.false_eq_true, if_false, hbin'] at hgen'
      refine ⟨_, hmem _ (hfin.trans hgen'), ?_⟩
      rw [hvt] at h1 h2 h3 h4
      simp [toLVar, hvt, clamp_id .real _ h1 h2, clamp_id .real _ h3 h4]

/-! ### no variable is invented -/

theorem names_touch (vs : List PVar) (l : Label) (p : PVar) (hp : p ∈ touch vs l) : p ∈ vs ∨ p.name = l := by
  unfold touch at hp
  split at hp
  · exact Or.inl hp
  · rcases List.mem_append.mp hp with h | h
    · exact Or.inl h
    · simp only [List.mem_singleton] at h; subst h; exact Or.inr rfl

theorem names_touchAll (vs : List PVar) (ls : List Label) (p : PVar) (hp : p ∈ touchAll vs ls) : p ∈ vs ∨ p.name ∈ ls := by
  induction ls generalizing vs with
  | nil => exact Or.inl hp
  | cons l t ih =>
    rcases ih _ hp with h | h
    · rcases names_touch vs l p h with h' | h'
      · exact Or.inl h'
      · exact Or.inr (by rw [h']; exact List.mem_cons_self)
    · exact Or.inr (List.mem_cons_of_mem _ h)

theorem names_updVar (vs : List PVar) (l : Label) (f : PVar → PVar) (hf : ∀ p, (f p).name = p.name) (p : PVar)
    (hp : p ∈ updVar vs l f) : (∃ q ∈ vs, q.name = p.name) ∨ p.name = l := by
  unfold updVar at hp
  obtain ⟨q, hq, rfl⟩ := List.mem_map.mp hp
  have hname : (if q.name = l then f q else q).name = q.name := by split <;> simp [hf]
  rcases names_touch vs l q hq with h | h
  · exact Or.inl ⟨q, h, hname.symm⟩
  · exact Or.inr (by rw [hname, h])

theorem names_pass (F : LVar → PVar → PVar) (hF : ∀ v p, (F v p).name = p.name) (l : List LVar) (vs : List PVar) (p : PVar)
    (hp : p ∈ l.foldl (fun acc v => updVar acc v.name (F v)) vs) : (∃ q ∈ vs, q.name = p.name) ∨ ∃ v ∈ l, v.name = p.name := by
  induction l generalizing vs with
  | nil => exact Or.inl ⟨p, hp, rfl⟩
  | cons v t ih =>
    rcases ih _ hp with ⟨q, hq, hqn⟩ | ⟨w, hw, hwn⟩
    · rcases names_updVar vs v.name (F v) (hF v) q hq with ⟨q', hq', hqn'⟩ | h
      · exact Or.inl ⟨q', hq', hqn'.trans hqn⟩
      · exact Or.inr ⟨v, List.mem_cons_self, by rw [← hqn, h]⟩
    · exact Or.inr ⟨w, List.mem_cons_of_mem _ hw, hwn⟩

/-- labels the model's expressions mention -/
def mentioned (m : LCqm) : List Label := exprLabels m.obj ++ m.cons.flatMap fun c => exprLabels c.lhs

theorem names_cons_fold (cs : List LCon) (vs : List PVar) (p : PVar)
    (hp : p ∈ cs.foldl (fun vs c => touchAll vs (exprLabels c.lhs)) vs) :
    p ∈ vs ∨ p.name ∈ cs.flatMap fun c => exprLabels c.lhs := by
  induction cs generalizing vs with
  | nil => exact Or.inl hp
  | cons c t ih =>
    rcases ih _ hp with h | h
    · rcases names_touchAll vs _ p h with h' | h'
      · exact Or.inl h'
      · exact Or.inr (by simp only [List.flatMap_cons, List.mem_append]; exact Or.inl h')
    · exact Or.inr (by simp only [List.flatMap_cons, List.mem_append]; exact Or.inr h)

/-- every variable read back is a variable of the written model, provided the model's expressions
    only mention its own variables -/
theorem vars_no_extra (m : LCqm) (hwf : ∀ l ∈ mentioned m, ∃ v ∈ m.vars, v.name = l) (v' : LVar) (hv' : v' ∈ (normCqm m).vars) :
    ∃ v ∈ m.vars, v.name = v'.name := by
  obtain ⟨p, hp, rfl⟩ := List.mem_map.mp hv'
  have hname : (toLVar p).name = p.name := by
    unfold toLVar
    cases p.binary <;> cases p.general <;> rfl
  rw [hname]
  unfold finalVars genPass binPass boundPass at hp
  have base : ∀ q, q ∈ m.cons.foldl (fun vs c => touchAll vs (exprLabels c.lhs)) (touchAll [] (exprLabels m.obj)) →
      ∃ v ∈ m.vars, v.name = q.name := by
    intro q hq
    rcases names_cons_fold _ _ q hq with h | h
    · rcases names_touchAll _ _ q h with h' | h'
      · simp at h'
      · exact hwf _ (List.mem_append_left _ h')
    · exact hwf _ (List.mem_append_right _ h)
  have filt : ∀ (P : LVar → Bool) (n : Label), (∃ v ∈ m.vars.filter P, v.name = n) → ∃ v ∈ m.vars, v.name = n :=
    fun P n ⟨v, hv, hn⟩ => ⟨v, (List.mem_filter.mp hv).1, hn⟩
  rcases names_pass (fun _ p => { p with general := true }) (fun _ _ => rfl) _ _ p hp with ⟨q, hq, hqn⟩ | h
  · rcases names_pass (fun _ p => { p with binary := true }) (fun _ _ => rfl) _ _ q hq with ⟨q2, hq2, hqn2⟩ | h
    · rcases names_pass (fun v p => { p with lb := v.lb, ub := some v.ub }) (fun _ _ => rfl) _ _ q2 hq2 with ⟨q3, hq3, hqn3⟩ | h
      · obtain ⟨v, hv, hn⟩ := base q3 hq3
        exact ⟨v, hv, by rw [hn, hqn3, hqn2, hqn]⟩
      · obtain ⟨v, hv, hn⟩ := filt _ _ h
        exact ⟨v, hv, by rw [hn, hqn2, hqn]⟩
    · obtain ⟨v, hv, hn⟩ := filt _ _ h
      exact ⟨v, hv, by rw [hn, hqn]⟩
  · exact filt _ _ h

/-! ### refusals -/

theorem dump_refuses_soft (m : LCqm) (c : LCon) (hc : c ∈ m.cons) (hs : c.soft = true) : dumpToks m = .error .soft := by
  unfold dumpToks
  have : m.cons.any (·.soft) = true := List.any_eq_true.mpr ⟨c, hc, hs⟩
  simp [this]

theorem dump_refuses_conlabel (m : LCqm) (hns : ∀ c ∈ m.cons, c.soft = false) (c : LCon) (hc : c ∈ m.cons)
    (hl : validLabel c.label = false) : dumpToks m = .error .label := by
  unfold dumpToks
  have h1 : m.cons.any (·.soft) = false := by
    rw [List.any_eq_false]; intro x hx; simp [hns x hx]
  have h2 : (m.cons.all fun c => validLabel c.label) = false := by
    rw [List.all_eq_false]; exact ⟨c, hc, by simp [hl]⟩
  simp [h1, h2]

theorem chk_some (vs : List LVar) (v : LVar) (hv : v ∈ vs) (hbad : validLabel v.name = false ∨ v.vt = .spin) :
    ∃ r, dumpToks.chk vs = some r := by
  induction vs with
  | nil => simp at hv
  | cons a t ih =>
    unfold dumpToks.chk
    by_cases h1 : validLabel a.name = true
    · by_cases h2 : a.vt = .spin
      · exact ⟨.spin, by simp [h1, h2]⟩
      · rcases List.mem_cons.mp hv with rfl | hv'
        · rcases hbad with h | h
          · rw [h] at h1; simp at h1
          · exact absurd h h2
        · obtain ⟨r, hr⟩ := ih hv'
          exact ⟨r, by simp [h1, h2, hr]⟩
    · exact ⟨.label, by simp [h1]⟩

/-- any variable with an invalid label or of SPIN type makes the writer refuse -/
theorem dump_refuses_var (m : LCqm) (v : LVar) (hv : v ∈ m.vars) (hbad : validLabel v.name = false ∨ v.vt = .spin) :
    ∃ r, dumpToks m = .error r := by
  unfold dumpToks
  split
  · exact ⟨_, rfl⟩
  · split
    · exact ⟨_, rfl⟩
    · obtain ⟨r, hr⟩ := chk_some m.vars v hv hbad
      simp only [hr]
      exact ⟨_, rfl⟩

/-- a refusal produces no text at all -/
theorem dumps_error_of_dumpToks_error (m : LCqm) (r : Refusal) (h : dumpToks m = .error r) : dumps m = .error r := by
  unfold dumps; rw [h]

/-! ### `_WidthLimitedFile` -/

theorem wrapWrites_snd (ll : Nat) (ws : List String) : (wrapWrites ll ws).map (·.2) = ws := by
  induction ws generalizing ll with
  | nil => rfl
  | cons s t ih => simp only [wrapWrites, List.map_cons, ih]

theorem wrapWrites_length (ll : Nat) (ws : List String) : (wrapWrites ll ws).length = ws.length := by
  rw [← List.length_map (f := (·.2)), wrapWrites_snd]

end Lp
