import DimodProofs.QmMore

/-! `QuadraticModel.flip_variable(v)` (loop over the neighbourhood of `v`, as coded) refines a closed-form step on the
    label-keyed polynomial.  Core Lean only. -/

namespace Qm
open Bqm (modifyAt nbhAdd nbhCoef coefAt AdjWF NbSorted AdjT adjSym)

/-- what one iteration of the loop does to the adjacency (`p.1 ≠ vi`) -/
def flipAdj (vi : Nat) (adj : AdjT) (p : Nat × Rat) : AdjT := adjSym adj p.1 vi (-1 * p.2) true

/-- negated entry if listed, else the default -/
def ov (o d : Option Rat) : Option Rat := match o with | some b => some (-1 * b) | none => d

theorem flipAdjFold {n : Nat} {l : Nat → Bool} (vi : Nat) (hvi : vi < n) (ps : List (Nat × Rat)) (hnd : (keys ps).Nodup) :
    ∀ (adj : AdjT), AdjWF n adj l → (∀ p ∈ ps, p.1 < n ∧ p.1 ≠ vi) →
    AdjWF n (ps.foldl (flipAdj vi) adj) l ∧
    ∀ x y, coefAt (ps.foldl (flipAdj vi) adj) x y =
      if x = vi then ov (nbhCoef ps y) (coefAt adj x y)
      else if y = vi then ov (nbhCoef ps x) (coefAt adj x y) else coefAt adj x y := by
  induction ps with
  | nil => intro adj h _; exact ⟨h, fun x y => by simp [nbhCoef, ov]⟩
  | cons p t ih =>
    intro adj h hb
    have hnd' : (keys t).Nodup := by unfold keys at hnd ⊢; exact (List.nodup_cons.mp hnd).2
    have hpt : p.1 ∉ keys t := by unfold keys at hnd ⊢; exact (List.nodup_cons.mp hnd).1
    have hp := hb p (by simp)
    have h' : AdjWF n (flipAdj vi adj p) l := h.adjSym p.1 vi _ true hp.1 hvi hp.2
    have r := ih hnd' (flipAdj vi adj p) h' (fun q hq => hb q (List.mem_cons_of_mem _ hq))
    simp only [List.foldl]
    refine ⟨r.1, ?_⟩
    intro x y
    rw [r.2 x y]
    have step : ∀ a b, coefAt (flipAdj vi adj p) a b =
        if (a = p.1 ∧ b = vi) ∨ (a = vi ∧ b = p.1) then some (-1 * p.2) else coefAt adj a b := by
      intro a b
      have := Bqm.coefAt_adjSym h p.1 vi (-1 * p.2) true hp.1 hvi hp.2 a b
      simpa [flipAdj] using this
    rw [step x y]
    have hnone := nbhCoef_none_of_not_key t p.1 hpt
    have hpv : ¬ p.1 = vi := hp.2
    have hvp : ¬ vi = p.1 := fun e => hp.2 e.symm
    simp only [nbhCoef]
    by_cases hx : x = vi
    · simp only [hx, if_true, hvp, false_and, true_and, false_or]
      by_cases hy : y = p.1
      · rw [hy]; simp [hnone, ov]
      · have hy' : ¬ p.1 = y := fun e => hy e.symm
        simp [hy, hy']
    · simp only [hx, if_false, false_and, or_false]
      by_cases hy : y = vi
      · simp only [hy, if_true, and_true]
        by_cases hxp : x = p.1
        · rw [hxp]; simp [hnone, ov]
        · have hxp' : ¬ p.1 = x := fun e => hxp e.symm
          simp [hxp, hxp']
      · simp [hy]

theorem adj_addQ_ne (m : Qm) (u v : Nat) (b : Rat) (set : Bool) (h : u ≠ v) : (m.addQ u v b set).adj = adjSym m.adj u v b set := by
  unfold Qm.addQ; simp only [h, if_false]; rfl

theorem same_addQ (m : Qm) (u v : Nat) (b : Rat) (set : Bool) :
    (m.addQ u v b set).labels = m.labels ∧ (m.addQ u v b set).vt = m.vt ∧ (m.addQ u v b set).lb = m.lb ∧
    (m.addQ u v b set).ub = m.ub ∧ (m.addQ u v b set).imax = m.imax ∧ (m.addQ u v b set).rmax = m.rmax ∧
    (m.addQ u v b set).off = m.off ∧ (m.addQ u v b set).lin = m.lin := by
  unfold Qm.addQ; split <;> exact ⟨rfl, rfl, rfl, rfl, rfl, rfl, rfl, rfl⟩

/-- the loop of the SPIN branch -/
theorem flipFoldSpin (vi : Nat) (ps : List (Nat × Rat)) (hne : ∀ p ∈ ps, p.1 ≠ vi) (acc : Qm) :
    (ps.foldl (flipStepSpin vi) acc).adj = ps.foldl (flipAdj vi) acc.adj ∧
    (ps.foldl (flipStepSpin vi) acc).lin = acc.lin ∧ (ps.foldl (flipStepSpin vi) acc).off = acc.off ∧
    (ps.foldl (flipStepSpin vi) acc).labels = acc.labels ∧ (ps.foldl (flipStepSpin vi) acc).vt = acc.vt ∧
    (ps.foldl (flipStepSpin vi) acc).lb = acc.lb ∧ (ps.foldl (flipStepSpin vi) acc).ub = acc.ub ∧
    (ps.foldl (flipStepSpin vi) acc).imax = acc.imax ∧ (ps.foldl (flipStepSpin vi) acc).rmax = acc.rmax := by
  induction ps generalizing acc with
  | nil => exact ⟨rfl, rfl, rfl, rfl, rfl, rfl, rfl, rfl, rfl⟩
  | cons p t ih =>
    simp only [List.foldl]
    have r := ih (fun q hq => hne q (List.mem_cons_of_mem _ hq)) (flipStepSpin vi acc p)
    have s := same_addQ acc p.1 vi (-1 * p.2) true
    have a := adj_addQ_ne acc p.1 vi (-1 * p.2) true (hne p (by simp))
    unfold flipStepSpin at r ⊢
    refine ⟨by rw [r.1, a]; rfl, r.2.1.trans s.2.2.2.2.2.2.2, r.2.2.1.trans s.2.2.2.2.2.2.1, r.2.2.2.1.trans s.1,
      r.2.2.2.2.1.trans s.2.1, r.2.2.2.2.2.1.trans s.2.2.1, r.2.2.2.2.2.2.1.trans s.2.2.2.1,
      r.2.2.2.2.2.2.2.1.trans s.2.2.2.2.1, r.2.2.2.2.2.2.2.2.trans s.2.2.2.2.2.1⟩

/-- the loop of the BINARY branch -/
theorem flipFoldBinary (vi : Nat) (ps : List (Nat × Rat)) (hne : ∀ p ∈ ps, p.1 ≠ vi) (hnd : (keys ps).Nodup) :
    ∀ (acc : Qm), (∀ p ∈ ps, p.1 < acc.lin.length) →
    (ps.foldl (flipStepBinary vi) acc).adj = ps.foldl (flipAdj vi) acc.adj ∧
    (∀ j, (ps.foldl (flipStepBinary vi) acc).lin.getD j 0 = acc.lin.getD j 0 + (nbhCoef ps j).getD 0) ∧
    (ps.foldl (flipStepBinary vi) acc).lin.length = acc.lin.length ∧
    (ps.foldl (flipStepBinary vi) acc).off = acc.off ∧
    (ps.foldl (flipStepBinary vi) acc).labels = acc.labels ∧ (ps.foldl (flipStepBinary vi) acc).vt = acc.vt ∧
    (ps.foldl (flipStepBinary vi) acc).lb = acc.lb ∧ (ps.foldl (flipStepBinary vi) acc).ub = acc.ub ∧
    (ps.foldl (flipStepBinary vi) acc).imax = acc.imax ∧ (ps.foldl (flipStepBinary vi) acc).rmax = acc.rmax := by
  induction ps with
  | nil => intro acc _; exact ⟨rfl, fun j => by simp [nbhCoef, Rat.add_zero], rfl, rfl, rfl, rfl, rfl, rfl, rfl, rfl⟩
  | cons p t ih =>
    intro acc hb
    have hnd' : (keys t).Nodup := by unfold keys at hnd ⊢; exact (List.nodup_cons.mp hnd).2
    have hpt : p.1 ∉ keys t := by unfold keys at hnd ⊢; exact (List.nodup_cons.mp hnd).1
    simp only [List.foldl]
    have s := same_addQ acc p.1 vi (-1 * p.2) true
    have a := adj_addQ_ne acc p.1 vi (-1 * p.2) true (hne p (by simp))
    have hlen : (flipStepBinary vi acc p).lin.length = acc.lin.length := by
      unfold flipStepBinary; simp [s.2.2.2.2.2.2.2]
    have r := ih (fun q hq => hne q (List.mem_cons_of_mem _ hq)) hnd' (flipStepBinary vi acc p)
      (fun q hq => by rw [hlen]; exact hb q (List.mem_cons_of_mem _ hq))
    have hadj : (flipStepBinary vi acc p).adj = flipAdj vi acc.adj p := by unfold flipStepBinary; exact a
    have hlin : ∀ j, (flipStepBinary vi acc p).lin.getD j 0 = if j = p.1 then acc.lin.getD j 0 + p.2 else acc.lin.getD j 0 := by
      intro j
      unfold flipStepBinary
      show (modifyAt (acc.addQ p.1 vi (-1 * p.2) true).lin p.1 (· + p.2)).getD j 0 = _
      rw [s.2.2.2.2.2.2.2, Bqm.getD_modifyAt]
      by_cases hj : j = p.1
      · rw [hj]; simp [hb p (by simp)]
      · have : ¬ p.1 = j := fun e => hj e.symm
        simp [hj, this]
    refine ⟨by rw [r.1, hadj], ?_, r.2.2.1.trans hlen, ?_, ?_, ?_, ?_, ?_, ?_, ?_⟩
    · intro j
      rw [r.2.1 j, hlin j]
      simp only [nbhCoef]
      by_cases hj : j = p.1
      · rw [hj]; simp [nbhCoef_none_of_not_key t p.1 hpt, Rat.add_zero]
      · have : ¬ p.1 = j := fun e => hj e.symm
        simp [hj, this]
    · rw [r.2.2.2.1]; unfold flipStepBinary; exact s.2.2.2.2.2.2.1
    · rw [r.2.2.2.2.1]; unfold flipStepBinary; exact s.1
    · rw [r.2.2.2.2.2.1]; unfold flipStepBinary; exact s.2.1
    · rw [r.2.2.2.2.2.2.1]; unfold flipStepBinary; exact s.2.2.1
    · rw [r.2.2.2.2.2.2.2.1]; unfold flipStepBinary; exact s.2.2.2.1
    · rw [r.2.2.2.2.2.2.2.2.1]; unfold flipStepBinary; exact s.2.2.2.2.1
    · rw [r.2.2.2.2.2.2.2.2.2]; unfold flipStepBinary; exact s.2.2.2.2.2.1

/-- `flip_variable(v)` on the polynomial (`v` SPIN or BINARY; other vartypes are rejected) -/
def QPoly.flip (p : QPoly) (v : Label) : QPoly :=
  match p.info v with
  | none => p
  | some i =>
    match i.1 with
    | .spin => { p with quad := fun a b => if a = v ∨ b = v then (p.quad a b).map (-1 * ·) else p.quad a b,
                        lin := fun l => if l = v then -1 * p.lin v else p.lin l }
    | .binary => { p with quad := fun a b => if a = v ∨ b = v then (p.quad a b).map (-1 * ·) else p.quad a b,
                          lin := fun l => if l = v then -1 * p.lin v else p.lin l + (p.quad v l).getD 0,
                          off := p.off + p.lin v }
    | _ => p

theorem ov_eq (o d : Option Rat) (h : o = none → d = none) : ov o d = o.map (-1 * ·) := by
  cases o with
  | none => simp [ov, h rfl]
  | some b => rfl

theorem flip_refines {m : Qm} (i : Inv m) (v : Label) :
    absQ (m.flip v).1 = (absQ m).flip v ∧ Inv (m.flip v).1 := by
  have hwf := i.wf.flip v
  unfold Qm.flip QPoly.flip at *
  show _ = (match m.infoL v with | none => absQ m | some i => _) ∧ _
  unfold infoL
  cases hv : m.indexOf? v with
  | none => exact ⟨rfl, i⟩
  | some vi =>
    rw [hv] at hwf
    simp only [Option.map_some] at hwf ⊢
    have hvl := indexOf?_lt i.wf hv
    cases hs : m.vtAt vi with
    | integer => exact ⟨rfl, i⟩
    | real => exact ⟨rfl, i⟩
    | spin =>
      simp only [hs] at hwf ⊢
      have hns : coefAt m.adj vi vi = none := i.wf.adj.noself vi (loopOK_false_of_bin (by rw [hs]; rfl))
      have facts := nbh_facts i.wf vi hns
      have hnd : (keys (m.nbhAt vi)).Nodup := by
        unfold keys Qm.nbhAt
        have : List.Pairwise (fun a b => a < b) ((m.adj.getD vi []).map (·.1)) := by
          rw [List.pairwise_map]; exact i.wf.adj.sorted vi
        exact this.imp (fun h => Nat.ne_of_lt h)
      have f := flipFoldSpin vi (m.nbhAt vi) (fun p hp => (facts p hp).2) m
      have g := flipAdjFold vi hvl (m.nbhAt vi) hnd m.adj i.wf.adj facts
      generalize hR : (m.nbhAt vi).foldl (flipStepSpin vi) m = R at f hwf ⊢
      have hidx : ∀ l, (R.negLin vi).indexOf? l = m.indexOf? l := by
        intro l; unfold Qm.indexOf? Qm.negLin; rw [f.2.2.2.1]
      refine ⟨?_, ⟨hwf, by show R.labels.Nodup; rw [f.2.2.2.1]; exact i.nodup⟩⟩
      apply QPoly.ext'
      · exact f.2.2.2.2.2.2.2.1
      · exact f.2.2.2.2.2.2.2.2
      · exact f.2.2.2.1
      · intro l
        show infoL (R.negLin vi) l = m.infoL l
        unfold infoL Qm.vtAt
        rw [hidx]
        show (m.indexOf? l).map (fun k => (R.vt.getD k .binary, R.lb.getD k 0, R.ub.getD k 0)) = _
        rw [f.2.2.2.2.1, f.2.2.2.2.2.1, f.2.2.2.2.2.2.1]
      · intro l
        show linL (R.negLin vi) l = if l = v then -1 * m.linL v else m.linL l
        unfold linL
        rw [hidx, hv]
        show (match m.indexOf? l with | some k => (modifyAt R.lin vi (fun _ => -1 * R.linAt vi)).getD k 0 | none => 0) = _
        unfold Qm.linAt
        rw [f.2.1]
        by_cases hl : l = v
        · rw [hl, hv]; simp only [if_true]
          exact Bqm.getD_modifyAt_self _ _ _ _ hvl
        · simp only [hl, if_false]
          cases hk : m.indexOf? l with
          | none => rfl
          | some k =>
            have : vi ≠ k := fun e => hl ((idx_eq_iff hk hv).mp e.symm)
            exact Bqm.getD_modifyAt_ne _ _ _ _ _ this
      · intro a b
        show quadL (R.negLin vi) a b = if a = v ∨ b = v then (m.quadL a b).map (-1 * ·) else m.quadL a b
        unfold quadL
        rw [hidx, hidx]
        cases ha : m.indexOf? a with
        | none => simp
        | some x =>
          cases hb : m.indexOf? b with
          | none => simp
          | some y =>
            show coefAt R.adj x y = _
            rw [f.1, g.2 x y]
            simp only [← idx_eq_iff ha hv, ← idx_eq_iff hb hv]
            by_cases hx : x = vi
            · simp only [hx, if_true, true_or]
              exact ov_eq _ _ (fun h => h)
            · simp only [hx, if_false, false_or]
              by_cases hy : y = vi
              · simp only [hy, if_true]
                rw [i.wf.adj.symm x vi]
                exact ov_eq _ _ (fun h => h)
              · simp only [hy, if_false]
      · exact f.2.2.1
    | binary =>
      simp only [hs] at hwf ⊢
      have hns : coefAt m.adj vi vi = none := i.wf.adj.noself vi (loopOK_false_of_bin (by rw [hs]; rfl))
      have facts := nbh_facts i.wf vi hns
      have hnd : (keys (m.nbhAt vi)).Nodup := by
        unfold keys Qm.nbhAt
        have : List.Pairwise (fun a b => a < b) ((m.adj.getD vi []).map (·.1)) := by
          rw [List.pairwise_map]; exact i.wf.adj.sorted vi
        exact this.imp (fun h => Nat.ne_of_lt h)
      have f := flipFoldBinary vi (m.nbhAt vi) (fun p hp => (facts p hp).2) hnd m (fun p hp => (facts p hp).1)
      have g := flipAdjFold vi hvl (m.nbhAt vi) hnd m.adj i.wf.adj facts
      generalize hR : (m.nbhAt vi).foldl (flipStepBinary vi) m = R at f hwf ⊢
      have hidx : ∀ l, ((R.addOff (R.linAt vi)).negLin vi).indexOf? l = m.indexOf? l := by
        intro l; unfold Qm.indexOf? Qm.negLin Qm.addOff; rw [f.2.2.2.2.1]
      have hRvi : R.linAt vi = m.lin.getD vi 0 := by
        unfold Qm.linAt; rw [f.2.1 vi]
        have : nbhCoef (m.nbhAt vi) vi = none := hns
        rw [this]; simp [Rat.add_zero]
      refine ⟨?_, ⟨hwf, by show R.labels.Nodup; rw [f.2.2.2.2.1]; exact i.nodup⟩⟩
      apply QPoly.ext'
      · exact f.2.2.2.2.2.2.2.2.1
      · exact f.2.2.2.2.2.2.2.2.2
      · exact f.2.2.2.2.1
      · intro l
        show infoL ((R.addOff (R.linAt vi)).negLin vi) l = m.infoL l
        unfold infoL Qm.vtAt
        rw [hidx]
        show (m.indexOf? l).map (fun k => (R.vt.getD k .binary, R.lb.getD k 0, R.ub.getD k 0)) = _
        rw [f.2.2.2.2.2.1, f.2.2.2.2.2.2.1, f.2.2.2.2.2.2.2.1]
      · intro l
        show linL ((R.addOff (R.linAt vi)).negLin vi) l = if l = v then -1 * m.linL v else m.linL l + (m.quadL v l).getD 0
        unfold linL
        rw [hidx, hv]
        show (match m.indexOf? l with | some k => (modifyAt R.lin vi (fun _ => -1 * (R.addOff (R.linAt vi)).linAt vi)).getD k 0 | none => 0) = _
        have e2 : (R.addOff (R.linAt vi)).linAt vi = m.lin.getD vi 0 := hRvi
        rw [e2]
        by_cases hl : l = v
        · rw [hl, hv]; simp only [if_true]
          exact Bqm.getD_modifyAt_self _ _ _ _ (by rw [f.2.2.1]; exact hvl)
        · simp only [hl, if_false]
          cases hk : m.indexOf? l with
          | none =>
            have : m.quadL v l = none := by unfold quadL; rw [hv, hk]
            rw [this]; simp [Rat.add_zero]
          | some k =>
            have hne : vi ≠ k := fun e => hl ((idx_eq_iff hk hv).mp e.symm)
            have : m.quadL v l = coefAt m.adj vi k := by unfold quadL; rw [hv, hk]
            rw [this]
            simp only []
            rw [Bqm.getD_modifyAt_ne _ _ _ _ _ hne, f.2.1 k]
            rfl
      · intro a b
        show quadL ((R.addOff (R.linAt vi)).negLin vi) a b = if a = v ∨ b = v then (m.quadL a b).map (-1 * ·) else m.quadL a b
        unfold quadL
        rw [hidx, hidx]
        cases ha : m.indexOf? a with
        | none => simp
        | some x =>
          cases hb : m.indexOf? b with
          | none => simp
          | some y =>
            show coefAt R.adj x y = _
            rw [f.1, g.2 x y]
            simp only [← idx_eq_iff ha hv, ← idx_eq_iff hb hv]
            by_cases hx : x = vi
            · simp only [hx, if_true, true_or]
              exact ov_eq _ _ (fun h => h)
            · simp only [hx, if_false, false_or]
              by_cases hy : y = vi
              · simp only [hy, if_true]
                rw [i.wf.adj.symm x vi]
                exact ov_eq _ _ (fun h => h)
              · simp only [hy, if_false]
      · show R.off + R.linAt vi = m.off + m.linL v
        rw [hRvi, f.2.2.2.1]
        unfold linL; rw [hv]

end Qm
