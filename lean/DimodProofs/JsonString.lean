import DimodModel.JsonString
import DimodProofs.CqmFileProofs

/-! # `json.loads` undoes `json.dumps` on string labels, with and without the D11 escape of `/` -/

namespace FileFmt

theorem hexVal_hexDigit : ∀ k, k < 16 → hexVal? (hexDigit k) = some k := by decide

theorem hex4_u4 (n : Nat) (h : n < 65536) :
    hex4? (hexDigit (n / 4096 % 16)) (hexDigit (n / 256 % 16)) (hexDigit (n / 16 % 16)) (hexDigit (n % 16)) = some n := by
  unfold hex4?
  rw [hexVal_hexDigit _ (Nat.mod_lt _ (by decide)), hexVal_hexDigit _ (Nat.mod_lt _ (by decide)),
    hexVal_hexDigit _ (Nat.mod_lt _ (by decide)), hexVal_hexDigit _ (Nat.mod_lt _ (by decide))]
  simp only [Option.some.injEq]
  omega

theorem char_range (c : Char) : c.toNat < 55296 ∨ (57343 < c.toNat ∧ c.toNat < 1114112) := by
  have := c.valid
  simp [UInt32.isValidChar, Nat.isValidChar] at this
  exact this

theorem hexDigit_ne_slash : ∀ k, k < 16 → hexDigit k ≠ '/' := by decide

theorem escapeSlash_cons (c : Char) (t : List Char) :
    escapeSlash (c :: t) = (if c = '/' then ['\\', 'u', '0', '0', '2', 'f'] else [c]) ++ escapeSlash t := by
  simp [escapeSlash]

theorem escapeSlash_append (a b : List Char) : escapeSlash (a ++ b) = escapeSlash a ++ escapeSlash b := by
  simp [escapeSlash]

theorem escapeSlash_u4 (n : Nat) : escapeSlash (u4 n) = u4 n := by
  have h1 := hexDigit_ne_slash (n / 4096 % 16) (Nat.mod_lt _ (by decide))
  have h2 := hexDigit_ne_slash (n / 256 % 16) (Nat.mod_lt _ (by decide))
  have h3 := hexDigit_ne_slash (n / 16 % 16) (Nat.mod_lt _ (by decide))
  have h4 := hexDigit_ne_slash (n % 16) (Nat.mod_lt _ (by decide))
  simp [u4, escapeSlash, h1, h2, h3, h4]

/-- scanning one `\uXXXX` escape of a code point outside the surrogate ranges -/
theorem scan_u4 (n : Nat) (h : n < 65536) (hs : ¬ (55296 ≤ n ∧ n ≤ 57343)) (tail : List Char) :
    scanString (u4 n ++ tail) = consTo (Char.ofNat n) (scanString tail) := by
  have h1 : ¬ (55296 ≤ n ∧ n ≤ 56319) := by omega
  have h2 : ¬ (56320 ≤ n ∧ n ≤ 57343) := by omega
  simp only [u4, List.cons_append, List.nil_append, scanString]
  simp only [show ('\\' : Char) ≠ '"' by decide, show ('u' : Char) = 'u' by rfl, if_true, if_false, hex4_u4 n h, h1, h2]

/-- scanning a surrogate pair -/
theorem scan_pair (v : Nat) (hv : v < 1048576) (tail : List Char) :
    scanString (u4 (55296 + v / 1024) ++ u4 (56320 + v % 1024) ++ tail) =
      consTo (Char.ofNat (65536 + v)) (scanString tail) := by
  have a1 : 55296 + v / 1024 < 65536 := by omega
  have a2 : 56320 + v % 1024 < 65536 := by omega
  have r1 : 55296 ≤ 55296 + v / 1024 ∧ 55296 + v / 1024 ≤ 56319 := by omega
  have r2 : 56320 ≤ 56320 + v % 1024 ∧ 56320 + v % 1024 ≤ 57343 := by omega
  have e : 65536 + (55296 + v / 1024 - 55296) * 1024 + (56320 + v % 1024 - 56320) = 65536 + v := by omega
  simp only [u4, List.cons_append, List.nil_append, List.append_assoc, scanString]
  simp only [show ('\\' : Char) ≠ '"' by decide, show ('u' : Char) = 'u' by rfl, if_true, if_false, hex4_u4 _ a1, hex4_u4 _ a2,
    r1, r2, and_self, e]

theorem scan_quote (rest : List Char) : scanString ('"' :: rest) = some ([], rest) := by
  rw [scanString.eq_def]; simp

theorem scan_plain (c : Char) (rest : List Char) (h1 : c ≠ '"') (h2 : c ≠ '\\') (h3 : ¬ c.toNat < 32) :
    scanString (c :: rest) = consTo c (scanString rest) := by
  rw [scanString.eq_def]; simp [h1, h2, h3]

theorem scan_simple (e x : Char) (rest : List Char) (hu : e ≠ 'u') (hx : unescapeSimple e = some x) :
    scanString ('\\' :: e :: rest) = consTo x (scanString rest) := by
  rw [scanString.eq_def]; simp [hu, hx]

/-- **one character**: whatever `json.dumps` (and then the `/` escape) wrote for `c` scans back to `c` -/
theorem scan_char (c : Char) (tail : List Char) :
    scanString (escapeSlash (escapeChar c) ++ tail) = consTo c (scanString tail) := by
  unfold escapeChar
  split
  · next h => subst h; exact scan_simple '"' '"' tail (by decide) (by decide)
  split
  · next h => subst h; exact scan_simple '\\' '\\' tail (by decide) (by decide)
  split
  · next h => subst h; exact scan_simple 'n' '\n' tail (by decide) (by decide)
  split
  · next h => subst h; exact scan_simple 'r' '\r' tail (by decide) (by decide)
  split
  · next h => subst h; exact scan_simple 't' '\t' tail (by decide) (by decide)
  split
  · next h =>
    have : c = Char.ofNat 8 := by rw [← Char.ofNat_toNat c, h]
    subst this; exact scan_simple 'b' (Char.ofNat 8) tail (by decide) (by decide)
  split
  · next h =>
    have : c = Char.ofNat 12 := by rw [← Char.ofNat_toNat c, h]
    subst this; exact scan_simple 'f' (Char.ofNat 12) tail (by decide) (by decide)
  split
  · next hq hb _ _ _ _ _ hp =>
    -- printable ASCII
    by_cases hsl : c = '/'
    · subst hsl
      have := scan_u4 47 (by decide) (by decide) tail
      simpa [escapeSlash, u4, hexDigit] using this
    · have h32 : ¬ c.toNat < 32 := by omega
      have : escapeSlash [c] = [c] := by simp [escapeSlash, hsl]
      rw [this]
      exact scan_plain c tail hq hb h32
  split
  · next _ _ _ _ _ _ _ hp hlt =>
    rw [escapeSlash_u4]
    have hr := char_range c
    rw [scan_u4 c.toNat hlt (by omega) tail, Char.ofNat_toNat]
  · next _ _ _ _ _ _ _ hp hge =>
    have hr := char_range c
    rw [escapeSlash_append, escapeSlash_u4, escapeSlash_u4]
    have := scan_pair (c.toNat - 65536) (by omega) tail
    rw [show 65536 + (c.toNat - 65536) = c.toNat by omega, Char.ofNat_toNat] at this
    exact this

/-- **`json.loads` of a dumped string**, with or without the `/` escape: the string comes back,
    and scanning stops exactly at the closing quote -/
theorem scan_dumps (s : List Char) (rest : List Char) :
    scanString (escapeSlash (s.flatMap escapeChar) ++ '"' :: rest) = some (s, rest) := by
  induction s with
  | nil => simpa [escapeSlash] using scan_quote rest
  | cons c t ih =>
    rw [List.flatMap_cons, escapeSlash_append, List.append_assoc, scan_char, ih]
    rfl

theorem u4_safe (n : Nat) : pathSafe (u4 n) := by
  have h1 := hexDigit_ne_slash (n / 4096 % 16) (Nat.mod_lt _ (by decide))
  have h2 := hexDigit_ne_slash (n / 256 % 16) (Nat.mod_lt _ (by decide))
  have h3 := hexDigit_ne_slash (n / 16 % 16) (Nat.mod_lt _ (by decide))
  have h4 := hexDigit_ne_slash (n % 16) (Nat.mod_lt _ (by decide))
  unfold pathSafe u4
  simp only [List.mem_cons, List.not_mem_nil, or_false, not_or]
  exact ⟨by decide, by decide, h1.symm, h2.symm, h3.symm, h4.symm⟩

/-- `json.dumps` itself never writes `/` for any other character -/
theorem escapeChar_safe (c : Char) (h : c ≠ '/') : pathSafe (escapeChar c) := by
  unfold escapeChar
  split; · unfold pathSafe; decide
  split; · unfold pathSafe; decide
  split; · unfold pathSafe; decide
  split; · unfold pathSafe; decide
  split; · unfold pathSafe; decide
  split; · unfold pathSafe; decide
  split; · unfold pathSafe; decide
  split
  · unfold pathSafe; simp only [List.mem_singleton]; exact fun e => h e.symm
  split
  · exact u4_safe _
  · unfold pathSafe
    intro hm
    rcases List.mem_append.mp hm with hm | hm
    · exact u4_safe _ hm
    · exact u4_safe _ hm

theorem scan_dumps_plain (s : List Char) (rest : List Char) :
    scanString (s.flatMap escapeChar ++ '"' :: rest) = some (s, rest) := by
  induction s with
  | nil => simpa using scan_quote rest
  | cons c t ih =>
    have key : ∀ tail, scanString (escapeChar c ++ tail) = consTo c (scanString tail) := by
      intro tail
      by_cases hsl : c = '/'
      · subst hsl; exact scan_plain '/' tail (by decide) (by decide) (by decide)
      · have : escapeSlash (escapeChar c) = escapeChar c := escapeSlash_id _ (escapeChar_safe c hsl)
        rw [← this]; exact scan_char c tail
    rw [List.flatMap_cons, List.append_assoc, key, ih]
    rfl

/-- **`json.loads(json.dumps(s)) = s`** for every string, and the same after the D11 repair replaced
    every `/` in the text by its six-character escape -/
theorem loadsStr_dumpsStr (s : String) : loadsStr (dumpsStr s) = some s.toList := by
  unfold loadsStr dumpsStr
  simp only [List.cons_append]
  rw [scan_dumps_plain]

theorem loadsStr_escapeSlash_dumpsStr (s : String) : loadsStr (escapeSlash (dumpsStr s)) = some s.toList := by
  have e : escapeSlash (dumpsStr s) = '"' :: (escapeSlash (s.toList.flatMap escapeChar) ++ '"' :: []) := by
    unfold dumpsStr
    rw [show ('"' :: s.toList.flatMap escapeChar ++ ['"']) = ['"'] ++ (s.toList.flatMap escapeChar ++ ['"']) from rfl,
      escapeSlash_append, escapeSlash_append]
    have : escapeSlash ['"'] = ['"'] := by decide
    rw [this]; rfl
  rw [e]
  simp only [loadsStr, scan_dumps]

end FileFmt
