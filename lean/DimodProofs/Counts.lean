import DimodProofs.BqmWF
import DimodModel.Cpp

/-! `num_interactions()` and `degree()` as the header computes them count what they should on a
    well-formed adjacency: degree = number of distinct neighbours, num_interactions = number of unordered
    pairs (self-loops once).  Double counting over the `n × n` grid; core Lean only. -/

namespace Bqm

/-- Σ_{i<n} f i -/
def sumTo : Nat → (Nat → Nat) → Nat
  | 0, _ => 0
  | n + 1, f => sumTo n f + f n

theorem sumTo_congr (n : Nat) (f g : Nat → Nat) (h : ∀ i, i < n → f i = g i) : sumTo n f = sumTo n g := by
  induction n with
  | zero => rfl
  | succ k ih =>
    simp only [sumTo]
    rw [ih (fun i hi => h i (by omega)), h k (by omega)]

theorem sumTo_add (n : Nat) (f g : Nat → Nat) : sumTo n (fun i => f i + g i) = sumTo n f + sumTo n g := by
  induction n with
  | zero => rfl
  | succ k ih => simp only [sumTo, ih]; omega

theorem sumTo_zero (n : Nat) : sumTo n (fun _ => 0) = 0 := by
  induction n with
  | zero => rfl
  | succ k ih => simp [sumTo, ih]

theorem sumTo_comm (n m : Nat) (f : Nat → Nat → Nat) :
    sumTo n (fun u => sumTo m (fun v => f u v)) = sumTo m (fun v => sumTo n (fun u => f u v)) := by
  induction n with
  | zero => simp [sumTo, sumTo_zero]
  | succ k ih =>
    simp only [sumTo]
    rw [ih, ← sumTo_add]

theorem sumTo_eq_one (n w : Nat) (hw : w < n) : sumTo n (fun v => if v = w then 1 else 0) = 1 := by
  induction n with
  | zero => omega
  | succ k ih =>
    simp only [sumTo]
    by_cases hk : k = w
    · subst hk
      have : sumTo k (fun v => if v = k then 1 else 0) = 0 := by
        rw [sumTo_congr k _ (fun _ => 0) (fun i hi => by simp; omega), sumTo_zero]
      simp [this]
    · have hne : ¬ k = w := hk
      rw [ih (by omega)]; simp [hne]

def ind (adj : AdjT) (u v : Nat) : Nat := if (coefAt adj u v).isSome then 1 else 0

def indNb (nb : List (Nat × Rat)) (v : Nat) : Nat := if (nbhCoef nb v).isSome then 1 else 0

/-- a sorted neighbourhood with indices `< n` has as many entries as there are neighbours `< n` -/
theorem length_eq_sum (nb : List (Nat × Rat)) (n : Nat) (hs : NbSorted nb) (hb : ∀ p ∈ nb, p.1 < n) :
    nb.length = sumTo n (indNb nb) := by
  induction nb with
  | nil =>
    have : sumTo n (indNb []) = sumTo n (fun _ => 0) := sumTo_congr n _ _ (fun i _ => by simp [indNb, nbhCoef])
    rw [this, sumTo_zero]; rfl
  | cons p t ih =>
    obtain ⟨w, c⟩ := p
    have ht : NbSorted t := (List.pairwise_cons.mp hs).2
    have hw : ∀ q ∈ t, w < q.1 := (List.pairwise_cons.mp hs).1
    have hwn : w < n := hb (w, c) (by simp)
    have hnone : nbhCoef t w = none := nbhCoef_none_of_lt t w (fun q hq => by have := hw q hq; omega)
    have key : ∀ v, indNb ((w, c) :: t) v = (if v = w then 1 else 0) + indNb t v := by
      intro v
      unfold indNb
      simp only [nbhCoef]
      by_cases hv : w = v
      · subst hv; simp [hnone]
      · have : ¬ v = w := fun e => hv e.symm
        simp [hv, this]
    rw [sumTo_congr n _ _ (fun v _ => key v), sumTo_add, sumTo_eq_one n w hwn,
      ← ih ht (fun q hq => hb q (List.mem_cons_of_mem _ hq))]
    simp only [List.length_cons]; omega

theorem sumTo_succ' (n : Nat) (f : Nat → Nat) : sumTo (n + 1) f = f 0 + sumTo n (fun i => f (i + 1)) := by
  induction n with
  | zero => simp [sumTo]
  | succ k ih =>
    have : sumTo (k + 1 + 1) f = sumTo (k + 1) f + f (k + 1) := rfl
    rw [this, ih]
    simp only [sumTo]; omega

theorem foldl_add_eq_sum {α} (l : List α) (g : α → Nat) (d : α) (a : Nat) :
    l.foldl (fun acc x => acc + g x) a = a + sumTo l.length (fun i => g (l.getD i d)) := by
  induction l generalizing a with
  | nil => simp [sumTo]
  | cons x t ih =>
    simp only [List.foldl, List.length_cons]
    rw [ih, sumTo_succ']
    simp only [List.getD_cons_zero, List.getD_cons_succ]
    omega

theorem foldl_range_ite_eq_sum (n : Nat) (p : Nat → Bool) (a : Nat) :
    (List.range n).foldl (fun acc u => if p u then acc + 1 else acc) a = a + sumTo n (fun u => if p u then 1 else 0) := by
  induction n generalizing a with
  | zero => simp [sumTo]
  | succ k ih =>
    rw [List.range_succ, List.foldl_append, ih]
    simp only [List.foldl, sumTo]
    split <;> omega

/-- number of unordered pairs `{u, v}` (`v ≤ u`, self-loops included) that carry an interaction -/
def pairCount (adj : AdjT) (n : Nat) : Nat := sumTo n (fun u => sumTo n (fun v => if v ≤ u then ind adj u v else 0))

/-- the double-counting identity behind `num_interactions()`: Σ sizes + #self-loops = 2 · #pairs -/
theorem sizes_plus_loops {n adj l} (h : AdjWF n adj l) :
    sumTo n (fun u => (adj.getD u []).length) + sumTo n (fun u => ind adj u u) = 2 * pairCount adj n := by
  -- rows as sums of indicators
  have hrow : ∀ u, u < n → (adj.getD u []).length = sumTo n (fun v => ind adj u v) := by
    intro u _
    apply length_eq_sum _ n (h.sorted u)
    intro p hp
    apply h.bound u p.1
    show (nbhCoef (adj.getD u []) p.1).isSome
    rw [nbhCoef_isSome_iff]; exact ⟨p, hp, rfl⟩
  rw [sumTo_congr n _ _ hrow]
  -- split each row into below / diagonal / above
  let L := sumTo n (fun u => sumTo n (fun v => if v < u then ind adj u v else 0))
  let D := sumTo n (fun u => sumTo n (fun v => if v = u then ind adj u v else 0))
  let U := sumTo n (fun u => sumTo n (fun v => if u < v then ind adj u v else 0))
  have hsplit : sumTo n (fun u => sumTo n (fun v => ind adj u v)) = L + D + U := by
    show _ = sumTo n _ + sumTo n _ + sumTo n _
    rw [← sumTo_add, ← sumTo_add]
    apply sumTo_congr; intro u _
    rw [← sumTo_add, ← sumTo_add]
    apply sumTo_congr; intro v _
    by_cases h1 : v < u
    · have : ¬ v = u := by omega
      have : ¬ u < v := by omega
      simp [*]
    · by_cases h2 : v = u
      · have : ¬ u < v := by omega
        simp [*]
      · have : u < v := by omega
        simp [*]
  have hD : D = sumTo n (fun u => ind adj u u) := by
    show sumTo n _ = _
    apply sumTo_congr; intro u hu
    have : (fun v => if v = u then ind adj u v else 0) = (fun v => (if v = u then 1 else 0) * ind adj u u) := by
      funext v; by_cases hv : v = u
      · subst hv; simp
      · simp [hv]
    rw [this]
    have hmul : ∀ m (c : Nat) (f : Nat → Nat), sumTo m (fun v => f v * c) = sumTo m f * c := by
      intro m c f; induction m with
      | zero => simp [sumTo]
      | succ k ih => simp only [sumTo, ih]; rw [Nat.add_mul]
    rw [hmul, sumTo_eq_one n u hu]; simp
  have hU : U = L := by
    show sumTo n _ = sumTo n _
    rw [sumTo_comm]
    apply sumTo_congr; intro u _
    apply sumTo_congr; intro v _
    have : ind adj v u = ind adj u v := by unfold ind; rw [h.symm]
    rw [this]
  have hP : pairCount adj n = L + D := by
    show sumTo n _ = sumTo n _ + sumTo n _
    rw [← sumTo_add]
    apply sumTo_congr; intro u _
    rw [← sumTo_add]
    apply sumTo_congr; intro v _
    by_cases h1 : v < u
    · have : v ≤ u := by omega
      have : ¬ v = u := by omega
      simp [*]
    · by_cases h2 : v = u
      · subst h2; simp
      · have : ¬ v ≤ u := by omega
        simp [*]
  rw [hsplit, hP, hU, ← hD]; omega

end Bqm

namespace CppM
open Bqm

/-- **counts are consistent**: on a well-formed adjacency `num_interactions()` (as the header computes it:
    (Σ row sizes + number of self-loops) / 2) is the number of unordered pairs carrying an interaction,
    self-loops counted once -/
theorem numInteractions_eq_pairCount (m : CppM) {l} (h : AdjWF m.q.lin.length m.q.adj l) :
    m.numInteractions = pairCount m.q.adj m.q.lin.length := by
  unfold CppM.numInteractions
  simp only []
  have e1 : m.q.adj.foldl (fun a nb => a + nb.length) 0 = sumTo m.q.lin.length (fun u => (m.q.adj.getD u []).length) := by
    rw [foldl_add_eq_sum m.q.adj (fun nb => nb.length) [] 0, h.len]; simp
  have e2 : (List.range m.q.adj.length).foldl (fun a u => if (nbhCoef (m.q.adj.getD u []) u).isSome then a + 1 else a) 0
      = sumTo m.q.lin.length (fun u => ind m.q.adj u u) := by
    rw [foldl_range_ite_eq_sum m.q.adj.length (fun u => (nbhCoef (m.q.adj.getD u []) u).isSome) 0, h.len]
    simp only [Nat.zero_add]
    rfl
  rw [e1, e2, sizes_plus_loops h]
  omega

/-- `degree(v)` is the number of distinct neighbours of `v` -/
theorem degree_eq_neighbours (m : CppM) {l} (h : AdjWF m.q.lin.length m.q.adj l) (v : Nat) :
    m.degree v = sumTo m.q.lin.length (fun w => ind m.q.adj v w) := by
  unfold CppM.degree
  apply length_eq_sum _ _ (h.sorted v)
  intro p hp
  apply h.bound v p.1
  show (nbhCoef (m.q.adj.getD v []) p.1).isSome
  rw [nbhCoef_isSome_iff]; exact ⟨p, hp, rfl⟩

end CppM
