import DimodProofs.SortPerm

/-! Column operations move whole labelled columns: the value found under a label is preserved. -/

namespace SSM

/-- the value a row holds for label `v` -/
def cell (labels : List Label) (sample : List Rat) (v : Label) : Option Rat := sample[labels.idxOf v]?

/-- well-formed sample set: distinct labels, every row has one value per label -/
def SS.WF (s : SS) : Prop := s.labels.Nodup ∧ ∀ r ∈ s.rows, r.sample.length = s.labels.length

theorem gather_idxOf [BEq α] [LawfulBEq α] (labels vars : List α) (h : ∀ v ∈ vars, v ∈ labels) :
    gather labels (vars.map (labels.idxOf ·)) = vars := by
  induction vars with
  | nil => rfl
  | cons v vars ih =>
    have hv : labels.idxOf v < labels.length := List.idxOf_lt_length_iff.mpr (h v (by simp))
    simp only [List.map_cons, gather_cons, List.getElem?_eq_getElem hv, List.getElem_idxOf hv]
    rw [ih (fun w hw => h w (by simp [hw]))]

/-- selecting the same positions from the labels and from a row keeps every selected label's value -/
theorem cell_gather (labels : List Label) (sample : List Rat) (idx : List Nat) (v : Label)
    (hnd : labels.Nodup) (hlen : sample.length = labels.length) (hidx : ∀ i ∈ idx, i < labels.length)
    (hv : v ∈ gather labels idx) :
    cell (gather labels idx) (gather sample idx) v = cell labels sample v := by
  unfold cell
  have hk : (gather labels idx).idxOf v < (gather labels idx).length := List.idxOf_lt_length_iff.mpr hv
  have hk' : (gather labels idx).idxOf v < idx.length := by rwa [length_gather _ _ hidx] at hk
  have h1 := getElem?_gather labels idx hidx ((gather labels idx).idxOf v)
  rw [List.getElem?_eq_getElem hk, List.getElem_idxOf hk, List.getElem?_eq_getElem hk'] at h1
  simp only [Option.bind_some] at h1
  have hi : idx[(gather labels idx).idxOf v] < labels.length := hidx _ (List.getElem_mem hk')
  rw [List.getElem?_eq_getElem hi] at h1
  have hpos : labels.idxOf v = idx[(gather labels idx).idxOf v] := by
    have := hnd.idxOf_getElem _ hi
    rw [← this]; congr 1; exact (Option.some.inj h1)
  rw [getElem?_gather sample idx (by intro i hi; rw [hlen]; exact hidx i hi), List.getElem?_eq_getElem hk']
  simp [hpos]

theorem labelOrder_perm (labels : List Label) (sort : Bool) :
    (labelOrder labels sort).Perm (List.range labels.length) := by
  unfold labelOrder
  split
  · exact argsortBy_perm _ _
  · exact List.Perm.refl _

theorem labelOrder_lt (labels : List Label) (sort : Bool) : ∀ i ∈ labelOrder labels sort, i < labels.length := by
  intro i hi
  simpa using (labelOrder_perm labels sort).mem_iff.mp hi

/-- `from_samples(sort_labels)`: the labels are permuted, every label keeps its column -/
theorem fromSamples_spec (labels : List Label) (rows : List Row) (vt : VT) (fields : List String) (sort : Bool)
    (hnd : labels.Nodup) (hlen : ∀ r ∈ rows, r.sample.length = labels.length) :
    let s := fromSamples labels rows vt fields sort
    s.labels.Perm labels ∧ s.vt = vt ∧ s.fields = fields ∧
    ∃ g : Row → Row, s.rows = rows.map g ∧
      ∀ r ∈ rows, (g r).energy = r.energy ∧ (g r).occ = r.occ ∧ (g r).extra = r.extra ∧
        (g r).sample.length = labels.length ∧
        ∀ v ∈ labels, cell s.labels (g r).sample v = cell labels r.sample v := by
  intro s
  have hp := labelOrder_perm labels sort
  have hlt := labelOrder_lt labels sort
  have hlp : (gather labels (labelOrder labels sort)).Perm labels := gather_perm _ _ hp
  refine ⟨hlp, rfl, rfl, fun r => { r with sample := gather r.sample (labelOrder labels sort) }, rfl, ?_⟩
  intro r hr
  refine ⟨rfl, rfl, rfl, ?_, ?_⟩
  · show (gather r.sample _).length = _
    rw [length_gather _ _ (by intro i hi; rw [hlen r hr]; exact hlt i hi), hp.length_eq, List.length_range]
  · intro v hv
    exact cell_gather labels r.sample _ v hnd (hlen r hr) hlt (hlp.mem_iff.mpr hv)

end SSM

namespace SSM

/-- what "the rows of `s'` are the rows of `s` with the columns `vs` carried over" means -/
def RowsCarry (vs : List Label) (labels : List Label) (rows : List Row) (labels' : List Label) (rows' : List Row) : Prop :=
  ∃ g : Row → Row, rows' = rows.map g ∧
    ∀ r ∈ rows, (g r).energy = r.energy ∧ (g r).occ = r.occ ∧ (g r).extra = r.extra ∧
      (g r).sample.length = labels'.length ∧
      ∀ v ∈ vs, cell labels' (g r).sample v = cell labels r.sample v

theorem keep_spec (s : SS) (hwf : s.WF) (vars : List Label) (sort : Bool) (s' : SS)
    (h : s.keep vars sort = some s') :
    s'.labels.Perm vars ∧ s'.vt = s.vt ∧ s'.fields = s.fields ∧
    RowsCarry vars s.labels s.rows s'.labels s'.rows := by
  unfold SS.keep at h
  split at h
  · rename_i hc
    simp only [Bool.and_eq_true, List.all_eq_true, decide_eq_true_eq] at hc
    obtain ⟨hsub, hnd⟩ := hc
    simp only [Option.some.injEq] at h
    subst h
    have hidx : ∀ i ∈ vars.map (s.labels.idxOf ·), i < s.labels.length := by
      intro i hi
      obtain ⟨v, hv, rfl⟩ := List.mem_map.mp hi
      exact List.idxOf_lt_length_iff.mpr (hsub v hv)
    have hlen1 : ∀ r1 ∈ s.rows.map (fun r => { r with sample := gather r.sample (vars.map (s.labels.idxOf ·)) }),
        r1.sample.length = vars.length := by
      intro r1 hr1
      obtain ⟨r, hr, rfl⟩ := List.mem_map.mp hr1
      show (gather r.sample _).length = _
      rw [length_gather _ _ (by intro i hi; rw [hwf.2 r hr]; exact hidx i hi), List.length_map]
    obtain ⟨hp, hvt, hf, g2, hrows, hg2⟩ := fromSamples_spec vars _ s.vt s.fields sort hnd hlen1
    refine ⟨hp, hvt, hf, fun r => g2 { r with sample := gather r.sample (vars.map (s.labels.idxOf ·)) }, ?_, ?_⟩
    · rw [hrows, List.map_map]; rfl
    · intro r hr
      obtain ⟨h1, h2, h3, h4, h5⟩ := hg2 _ (List.mem_map_of_mem (f := fun r : Row => { r with sample := gather r.sample (vars.map (s.labels.idxOf ·)) }) hr)
      refine ⟨h1, h2, h3, ?_, ?_⟩
      · rw [h4, hp.length_eq]
      · intro v hv
        rw [h5 v hv]
        have hg := gather_idxOf s.labels vars hsub
        have := cell_gather s.labels r.sample (vars.map (s.labels.idxOf ·)) v hwf.1 (hwf.2 r hr) hidx (by rw [hg]; exact hv)
        rw [hg] at this
        exact this
  · cases h

theorem keep_wf (s : SS) (hwf : s.WF) (vars : List Label) (sort : Bool) (s' : SS)
    (h : s.keep vars sort = some s') : s'.WF := by
  have hnd : vars.Nodup := by
    unfold SS.keep at h
    split at h
    · rename_i hc
      simp only [Bool.and_eq_true, List.all_eq_true, decide_eq_true_eq] at hc
      exact hc.2
    · cases h
  obtain ⟨hp, _, _, g, hrows, hg⟩ := keep_spec s hwf vars sort s' h
  refine ⟨hp.nodup_iff.mpr hnd, ?_⟩
  intro r' hr'
  rw [hrows] at hr'
  obtain ⟨r, hr, rfl⟩ := List.mem_map.mp hr'
  exact (hg r hr).2.2.2.1

/-- `drop_variables` keeps exactly the other labels, in their original order -/
theorem drop_spec (s : SS) (hwf : s.WF) (vars : List Label) (s' : SS) (h : s.drop vars = some s') :
    s'.labels = s.labels.filter (· ∉ vars) ∧ s'.vt = s.vt ∧ s'.fields = s.fields ∧
    RowsCarry (s.labels.filter (· ∉ vars)) s.labels s.rows s'.labels s'.rows := by
  unfold SS.drop at h
  obtain ⟨hp, hvt, hf, hc⟩ := keep_spec s hwf _ false s' h
  refine ⟨?_, hvt, hf, hc⟩
  -- without sorting the label order is the given one
  unfold SS.keep at h
  split at h
  · simp only [Option.some.injEq] at h
    subst h
    show gather _ (labelOrder _ false) = _
    unfold labelOrder
    simp only [Bool.false_and, Bool.false_eq_true, if_false]
    exact gather_range _
  · cases h

end SSM

namespace SSM

theorem cell_append_left (labels new : List Label) (sample x : List Rat) (v : Label)
    (hlen : sample.length = labels.length) (hv : v ∈ labels) :
    cell (labels ++ new) (sample ++ x) v = cell labels sample v := by
  unfold cell
  have hk : labels.idxOf v < labels.length := List.idxOf_lt_length_iff.mpr hv
  rw [List.idxOf_append, if_pos hv, List.getElem?_append_left (by omega)]

theorem cell_append_right (labels new : List Label) (sample x : List Rat) (v : Label)
    (hlen : sample.length = labels.length) (hv : v ∉ labels) :
    cell (labels ++ new) (sample ++ x) v = cell new x v := by
  unfold cell
  rw [List.idxOf_append, if_neg hv, List.getElem?_append_right (by omega)]
  congr 1; omega

/-- `append_variables`: the old columns are carried over, the new labels hold the new values -/
theorem appendVars_spec (s : SS) (hwf : s.WF) (newLabels : List Label) (newRows : List (List Rat)) (sort : Bool)
    (hnew : ∀ x ∈ newRows, x.length = newLabels.length) (s' : SS)
    (h : s.appendVars newLabels newRows sort = some s') :
    s'.labels.Perm (s.labels ++ newLabels) ∧ s'.vt = s.vt ∧ s'.fields = s.fields ∧
    ∃ nr : List (List Rat), nr.length = s.rows.length ∧ (∀ x ∈ nr, x ∈ newRows) ∧
      (newRows.length = s.rows.length → nr = newRows) ∧
      ∃ g : Row × List Rat → Row, s'.rows = (s.rows.zip nr).map g ∧
        ∀ p ∈ s.rows.zip nr, (g p).energy = p.1.energy ∧ (g p).occ = p.1.occ ∧ (g p).extra = p.1.extra ∧
          (∀ v ∈ s.labels, cell s'.labels (g p).sample v = cell s.labels p.1.sample v) ∧
          (∀ v ∈ newLabels, cell s'.labels (g p).sample v = cell newLabels p.2 v) := by
  unfold SS.appendVars at h
  simp only [] at h
  split at h
  · cases h
  · rename_i nr hrep
    split at h
    · cases h
    · rename_i hc
      simp only [Bool.or_eq_true, List.any_eq_true, Bool.not_eq_true', decide_eq_false_iff_not, not_or,
        not_exists, not_and, Decidable.not_not, decide_eq_true_eq] at hc
      obtain ⟨hdisj, hnd2⟩ := hc
      simp only [Option.some.injEq] at h
      subst h
      -- facts about the replicated rows
      have hnr : nr.length = s.rows.length ∧ (∀ x ∈ nr, x ∈ newRows) ∧ (newRows.length = s.rows.length → nr = newRows) := by
        split at hrep
        · rename_i e; cases hrep; exact ⟨e, fun x hx => hx, fun _ => rfl⟩
        · split at hrep
          · rename_i e1 e2
            simp only [Bool.and_eq_true, decide_eq_true_eq] at e2
            cases hrep
            refine ⟨by simp, ?_, fun e => absurd e e1⟩
            intro x hx
            have := List.eq_of_mem_replicate hx
            cases hnr : newRows with
            | nil => simp [hnr] at e2
            | cons a t => rw [this, hnr]; simp
          · cases hrep
      have hndall : (s.labels ++ newLabels).Nodup := by
        rw [List.nodup_append]
        exact ⟨hwf.1, hnd2, fun a ha b hb e => hdisj b hb (e ▸ ha)⟩
      have hlen2 : ∀ r2 ∈ (s.rows.zip nr).map (fun p => { p.1 with sample := p.1.sample ++ p.2 }),
          r2.sample.length = (s.labels ++ newLabels).length := by
        intro r2 hr2
        obtain ⟨p, hp, rfl⟩ := List.mem_map.mp hr2
        have h1 := hwf.2 p.1 (List.of_mem_zip hp).1
        have h2 := hnew p.2 (hnr.2.1 _ (List.of_mem_zip hp).2)
        simp [h1, h2]
      obtain ⟨hp, hvt, hf, g2, hrows, hg2⟩ := fromSamples_spec (s.labels ++ newLabels) _ s.vt s.fields sort hndall hlen2
      refine ⟨hp, hvt, hf, nr, hnr.1, hnr.2.1, hnr.2.2, fun p => g2 { p.1 with sample := p.1.sample ++ p.2 }, ?_, ?_⟩
      · rw [hrows, List.map_map]; rfl
      · intro p hp'
        obtain ⟨h1, h2, h3, _, h5⟩ := hg2 _ (List.mem_map_of_mem (f := fun p : Row × List Rat => { p.1 with sample := p.1.sample ++ p.2 }) hp')
        have hl1 := hwf.2 p.1 (List.of_mem_zip hp').1
        refine ⟨h1, h2, h3, ?_, ?_⟩
        · intro v hv
          rw [h5 v (List.mem_append_left _ hv)]
          exact cell_append_left _ _ _ _ v hl1 hv
        · intro v hv
          rw [h5 v (List.mem_append_right _ hv)]
          exact cell_append_right _ _ _ _ v hl1 (fun hvl => hdisj v hv hvl)

theorem shiftEnergy_zero (s : SS) : s.shiftEnergy 0 = s := by
  cases s with | mk labels rows vt fields =>
  simp only [SS.shiftEnergy, SS.mk.injEq, true_and, and_true]
  conv => rhs; rw [← List.map_id rows]
  apply List.map_congr_left
  intro r _
  cases r; simp [Rat.add_zero]

theorem shift_or (s : SS) (off : Rat) : (if off ≠ 0 then s.shiftEnergy off else s) = s.shiftEnergy off := by
  by_cases h : off = 0
  · simp [h, shiftEnergy_zero]
  · simp [h]

/-- `change_vartype`, case by case: the energies are shifted by the offset, the samples converted
    value by value; labels, occurrences and extra fields are never touched -/
theorem changeVartype_same (s : SS) (off : Rat) : s.changeVartype s.vt off = (s.shiftEnergy off, true) := by
  unfold SS.changeVartype; simp only [shift_or]; simp

theorem changeVartype_to_spin (s : SS) (off : Rat) (h : s.vt = .binary) :
    s.changeVartype .spin off = ({ ((s.shiftEnergy off).mapSamples fun x => 2 * x - 1) with vt := .spin }, true) := by
  unfold SS.changeVartype; simp only [shift_or]; simp [h]

theorem changeVartype_to_binary (s : SS) (off : Rat) (h : s.vt = .spin) :
    s.changeVartype .binary off
      = ({ ((s.shiftEnergy off).mapSamples fun x => (((x + 1) / 2).floor : Rat)) with vt := .binary }, true) := by
  unfold SS.changeVartype; simp only [shift_or]; simp [h]

theorem changeVartype_reject (s : SS) (vt : VT) (off : Rat) (h1 : vt ≠ s.vt)
    (h2 : ¬ (vt = .spin ∧ s.vt = .binary)) (h3 : ¬ (vt = .binary ∧ s.vt = .spin)) :
    s.changeVartype vt off = (s.shiftEnergy off, false) := by
  unfold SS.changeVartype; simp only [shift_or]; simp [h1, h2, h3]

theorem changeVartype_frame (s : SS) (vt : VT) (off : Rat) :
    (s.changeVartype vt off).1.labels = s.labels ∧ (s.changeVartype vt off).1.fields = s.fields ∧
    (s.changeVartype vt off).1.rows.map (fun r => (r.occ, r.extra, r.energy)) = s.rows.map (fun r => (r.occ, r.extra, r.energy + off)) ∧
    (s.changeVartype vt off).1.rows.map (·.sample.length) = s.rows.map (·.sample.length) := by
  unfold SS.changeVartype
  simp only [shift_or]
  split
  · simp [SS.shiftEnergy, List.map_map, Function.comp]
  · split
    · simp [SS.shiftEnergy, SS.mapSamples, List.map_map, Function.comp]
    · split
      · simp [SS.shiftEnergy, SS.mapSamples, List.map_map, Function.comp]
      · simp [SS.shiftEnergy, List.map_map, Function.comp]

/-- on spin values the conversion is the affine bijection, and back -/
theorem spin_binary_roundtrip (x : Rat) (h : x = 1 ∨ x = -1) : 2 * ((((x + 1) / 2).floor : Int) : Rat) - 1 = x := by
  rcases h with rfl | rfl
  · have : (((1 : Rat) + 1) / 2).floor = 1 := by decide +kernel
    rw [this]; decide +kernel
  · have : (((-1 : Rat) + 1) / 2).floor = 0 := by decide +kernel
    rw [this]; decide +kernel

/-- `append_data_vectors`: a new field, nothing else changes -/
theorem appendVec_spec (s : SS) (name : String) (vals : List (List Rat)) (s' : SS) (h : s.appendVec name vals = some s') :
    s'.labels = s.labels ∧ s'.vt = s.vt ∧ s'.fields = s.fields ++ [name] ∧ vals.length = s.rows.length ∧
    s'.rows = (s.rows.zip vals).map (fun p => { p.1 with extra := p.1.extra ++ [p.2] }) := by
  unfold SS.appendVec at h
  split at h
  · cases h
  · rename_i hc
    simp only [Bool.or_eq_true, not_or, decide_eq_true_eq, ne_eq, Decidable.not_not, bne_iff_ne] at hc
    simp only [Option.some.injEq] at h
    subst h
    refine ⟨rfl, rfl, rfl, ?_, rfl⟩
    have := hc.1.1.1.1
    simpa using this

end SSM

namespace SSM

/-- positions survive an injective renaming -/
theorem idxOf_map_of_nodup [BEq α] [LawfulBEq α] [BEq β] [LawfulBEq β] (f : α → β) (l : List α)
    (hnd : (l.map f).Nodup) (v : α) (hv : v ∈ l) : (l.map f).idxOf (f v) = l.idxOf v := by
  have hk : l.idxOf v < l.length := List.idxOf_lt_length_iff.mpr hv
  have hk' : l.idxOf v < (l.map f).length := by simpa using hk
  have h := hnd.idxOf_getElem (l.idxOf v) hk'
  rw [← h]
  congr 1
  simp [List.getElem_idxOf hk]

/-- `relabel_variables`: the value found under the new label of `v` is the value that was under `v` -/
theorem relabel_cells (s s' : SS) (m : List (Label × Label)) (h : s.relabel m = some s') (hnd' : s'.labels.Nodup)
    (r : Row) (v : Label) (hv : v ∈ s.labels) :
    cell s'.labels r.sample ((LSpec.lookup (LSpec.dictOf m) v).getD v) = cell s.labels r.sample v := by
  unfold SS.relabel at h
  split at h
  · simp only [Option.some.injEq] at h
    subst h
    simp only [cell, LSpec.subst] at hnd' ⊢
    rw [idxOf_map_of_nodup (fun l => (LSpec.lookup (LSpec.dictOf m) l).getD l) s.labels hnd' v hv]
  · cases h

/-- operations that only select rows keep the sample set well-formed -/
theorem wf_of_rows_subset (s s' : SS) (hwf : s.WF) (hl : s'.labels = s.labels) (hr : ∀ r ∈ s'.rows, r ∈ s.rows) : s'.WF :=
  ⟨hl ▸ hwf.1, fun r h => hl ▸ hwf.2 r (hr r h)⟩

end SSM
