import DimodProofs.CppWF
import DimodProofs.QmMore

/-! More of the header API keeps the index-level invariant `CppM.WF`: `remove_variables` (bulk),
    `substitute_variable` (self-loop branch included), `QuadraticModel::resize` (shrinking, with the variable
    info), dense and COO construction.  Core Lean only. -/

namespace Bqm

/-- scaling the self-loop entry of row `v` -/
theorem AdjWF.mulSelf {n adj l} (h : AdjWF n adj l) (v : Nat) (s : Rat) (hv : v < n) :
    AdjWF n (modifyAt adj v (mulKey v s)) l := by
  have hv' : v < adj.length := by rw [h.len]; exact hv
  have co : ∀ x y, coefAt (modifyAt adj v (mulKey v s)) x y =
      if x = v ∧ y = v then (coefAt adj x y).map (· * s) else coefAt adj x y := by
    intro x y
    rw [coefAt_modifyAt]
    by_cases hx : v = x
    · subst hx
      simp only [true_and, hv', if_true, nbhCoef_mulKey]
      by_cases hy : y = v
      · subst hy; simp [coefAt]
      · simp [hy, coefAt]
    · have hx' : ¬ x = v := fun e => hx e.symm
      simp [hx, hx']
  refine ⟨by simp [h.len], ?_, ?_, ?_, ?_⟩
  · apply sorted_modifyAt _ _ _ h.sorted
    intro nb hs; exact sorted_mulKey v s nb hs
  · intro x y hs
    rw [co] at hs
    split at hs
    · cases hc : coefAt adj x y with
      | none => rw [hc] at hs; cases hs
      | some c => exact h.bound x y (by rw [hc]; rfl)
    · exact h.bound x y hs
  · intro x y
    rw [co, co]
    by_cases hc : x = v ∧ y = v
    · have hc' : y = v ∧ x = v := ⟨hc.2, hc.1⟩
      simp only [hc, hc', if_true, and_self]
    · have hc' : ¬ (y = v ∧ x = v) := fun hh => hc ⟨hh.2, hh.1⟩
      simp only [hc, hc', if_false]; exact h.symm x y
  · intro x hx
    rw [co]
    split
    · rw [h.noself x hx]; rfl
    · exact h.noself x hx

end Bqm

namespace Qm
open Bqm (modifyAt nbhCoef coefAt AdjWF mulKey adjMulPair)

/-- `substitute_variable(v, mult, c)` keeps the adjacency well-formed (for whatever self-loop discipline `l`) and
    the number of variables -/
theorem substituteVariable_adjWF {q : Qm} {l : Nat → Bool} (h : AdjWF q.lin.length q.adj l) (v : Nat) (mult c : Rat)
    (hv : v < q.lin.length) :
    AdjWF q.lin.length (q.substituteVariable v mult c).adj l ∧ (q.substituteVariable v mult c).lin.length = q.lin.length ∧
    (q.substituteVariable v mult c).vt = q.vt ∧ (q.substituteVariable v mult c).lb = q.lb ∧
    (q.substituteVariable v mult c).ub = q.ub := by
  have same := substituteVariable_same q v mult c
  refine ⟨?_, ?_, same.2.1, same.2.2.1, same.2.2.2.1⟩
  · unfold Qm.substituteVariable
    dsimp only
    have hb : ∀ p ∈ q.nbhAt v, p.1 < q.lin.length := by
      intro p hp
      apply h.bound v p.1
      show (nbhCoef (q.adj.getD v []) p.1).isSome
      rw [Bqm.nbhCoef_isSome_iff]; exact ⟨p, hp, rfl⟩
    have : ∀ (ps : List (Nat × Rat)) (acc : Qm), (∀ p ∈ ps, p.1 < q.lin.length) → AdjWF q.lin.length acc.adj l →
        AdjWF q.lin.length (ps.foldl (substStep v mult c) acc).adj l := by
      intro ps
      induction ps with
      | nil => intro acc _ ha; exact ha
      | cons p t ih =>
        intro acc hps ha
        simp only [List.foldl]
        apply ih _ (fun x hx => hps x (List.mem_cons_of_mem _ hx))
        unfold substStep
        by_cases hpv : p.1 = v
        · simp only [hpv, if_true]
          exact ha.mulSelf v (mult * mult) hv
        · simp only [hpv, if_false]
          exact ha.adjMulPair p.1 v mult (hps p (by simp)) hv hpv
    exact this _ _ hb h
  · unfold Qm.substituteVariable
    dsimp only
    rw [(substFold_len v mult c _ _).2]
    simp

end Qm

namespace CppM
open Bqm

/-! ### substitute_variable -/

theorem WF.substituteVariable {m : CppM} (h : WF m) (v : Nat) (mult c : Rat) (hv : v < m.q.lin.length) :
    WF (m.substituteVariable v mult c) := by
  have s := Qm.substituteVariable_adjWF h.adj v mult c hv
  exact h.same rfl s.2.2.1 s.2.2.2.1 s.2.2.2.2 s.2.1 s.1

/-! ### remove_variables (bulk) -/

theorem mem_insertDesc (x y : Nat) (l : List Nat) : y ∈ insertDesc x l ↔ y = x ∨ y ∈ l := by
  induction l with
  | nil => simp [insertDesc]
  | cons a t ih =>
    unfold insertDesc
    split
    · simp
    · simp only [List.mem_cons, ih]
      constructor
      · rintro (h | h | h)
        · exact Or.inr (Or.inl h)
        · exact Or.inl h
        · exact Or.inr (Or.inr h)
      · rintro (h | h | h)
        · exact Or.inr (Or.inl h)
        · exact Or.inl h
        · exact Or.inr (Or.inr h)

theorem desc_insertDesc (x : Nat) (l : List Nat) (h : l.Pairwise (· > ·)) (hx : x ∉ l) : (insertDesc x l).Pairwise (· > ·) := by
  induction l with
  | nil => simp [insertDesc]
  | cons a t ih =>
    have hat := List.pairwise_cons.mp h
    have hxa : x ≠ a := fun e => hx (by simp [e])
    have hxt : x ∉ t := fun e => hx (List.mem_cons_of_mem _ e)
    unfold insertDesc
    split
    · rename_i hge
      have hgt : x > a := by omega
      refine List.pairwise_cons.mpr ⟨?_, h⟩
      intro y hy
      rcases List.mem_cons.mp hy with e | e
      · rw [e]; exact hgt
      · have := hat.1 y e; omega
    · rename_i hlt
      refine List.pairwise_cons.mpr ⟨?_, ih hat.2 hxt⟩
      intro y hy
      rcases (mem_insertDesc x y t).mp hy with e | e
      · rw [e]; omega
      · exact hat.1 y e

theorem sortDesc_spec (vs : List Nat) (hn : vs.Nodup) :
    (vs.foldl (fun acc x => insertDesc x acc) []).Pairwise (· > ·) ∧
    ∀ y, y ∈ vs.foldl (fun acc x => insertDesc x acc) [] ↔ y ∈ vs := by
  have : ∀ (vs acc : List Nat), vs.Nodup → acc.Pairwise (· > ·) → (∀ x ∈ vs, x ∉ acc) →
      (vs.foldl (fun acc x => insertDesc x acc) acc).Pairwise (· > ·) ∧
      ∀ y, y ∈ vs.foldl (fun acc x => insertDesc x acc) acc ↔ y ∈ vs ∨ y ∈ acc := by
    intro vs
    induction vs with
    | nil => intro acc _ ha _; exact ⟨ha, fun y => by simp⟩
    | cons a t ih =>
      intro acc hn ha hdis
      have hat := List.nodup_cons.mp hn
      simp only [List.foldl]
      have r := ih (insertDesc a acc) hat.2 (desc_insertDesc a acc ha (hdis a (by simp))) (by
        intro x hx hmem
        rcases (mem_insertDesc a x acc).mp hmem with e | e
        · rw [e] at hx; exact hat.1 hx
        · exact hdis x (List.mem_cons_of_mem _ hx) e)
      refine ⟨r.1, ?_⟩
      intro y
      rw [r.2 y, mem_insertDesc]
      simp only [List.mem_cons]
      constructor
      · rintro (h | h | h)
        · exact Or.inl (Or.inr h)
        · exact Or.inl (Or.inl h)
        · exact Or.inr h
      · rintro ((h | h) | h)
        · exact Or.inr (Or.inl h)
        · exact Or.inl h
        · exact Or.inr (Or.inr h)
  have r := this vs [] hn List.Pairwise.nil (fun _ _ h => by cases h)
  exact ⟨r.1, fun y => by rw [r.2 y]; simp⟩

theorem n_removeAt (m : CppM) (vi : Nat) (h : vi < m.q.lin.length) : (m.removeAt vi).q.lin.length = m.q.lin.length - 1 := by
  unfold CppM.removeAt
  cases m.bvt <;> exact length_eraseIdx _ _ h

theorem WF.removeDesc {m : CppM} (h : WF m) (vs : List Nat) (hd : vs.Pairwise (· > ·)) (hb : ∀ v ∈ vs, v < m.q.lin.length) :
    WF (vs.foldl (fun acc v => acc.removeAt v) m) := by
  induction vs generalizing m with
  | nil => exact h
  | cons v t ih =>
    have hvt := List.pairwise_cons.mp hd
    have hv := hb v (by simp)
    simp only [List.foldl]
    apply ih (h.removeAt v hv) hvt.2
    intro w hw
    rw [n_removeAt m v hv]
    have := hvt.1 w hw
    omega

/-- `remove_variables(vs)` for distinct indices `< num_variables()` -/
theorem WF.removeMany {m : CppM} (h : WF m) (vs : List Nat) (hn : vs.Nodup) (hb : ∀ v ∈ vs, v < m.q.lin.length) :
    WF (m.removeMany vs) := by
  have s := sortDesc_spec vs hn
  unfold CppM.removeMany
  exact h.removeDesc _ s.1 (fun v hv => hb v ((s.2 v).mp hv))

/-! ### QuadraticModel::resize (shrinking) -/

theorem WF.resize_qm {m : CppM} (h : WF m) (k : Nat) (hb : m.bvt = none) (hk : k ≤ m.q.lin.length) :
    WF (m.resize k).1 := by
  unfold CppM.resize
  rw [hb]
  simp only []
  have hn : ¬ k > m.n := by unfold CppM.n; omega
  simp only [hn, if_false]
  have hi := h.info hb
  have hlin : (m.q.lin.take k ++ List.replicate (k - m.q.lin.length) (0 : Rat)).length = k := by simp; omega
  refine ⟨?_, fun _ => ⟨?_, ?_, ?_⟩, (by intro t e; rw [show ((m.baseResize k).infoResize k .binary 0 1).bvt = m.bvt from rfl, hb] at e; cases e)⟩
  · show AdjWF (m.q.lin.take k ++ List.replicate (k - m.q.lin.length) 0).length (adjResize m.q.adj k) _
    rw [hlin]
    refine (h.adj.adjResize k).congr_loop ?_
    intro u hu
    by_cases huk : u < k
    · left
      unfold CppM.loopOK CppM.vtOf Qm.vtAt at hu ⊢
      simp only [show ((m.baseResize k).infoResize k .binary 0 1).bvt = m.bvt from rfl, hb] at hu ⊢
      have e : (m.q.vt.take k ++ List.replicate (k - m.q.vt.length) QVT.binary).getD u QVT.binary = m.q.vt.getD u QVT.binary := by
        have : u < (m.q.vt.take k).length := by simp; omega
        simp [List.getD, List.getElem?_append_left this, List.getElem?_take, huk]
      show (!Qm.isBin (m.q.vt.getD u QVT.binary)) = false
      rw [← e]; exact hu
    · right
      rw [coefAt_adjResize]; simp [huk]
  · show (m.q.vt.take k ++ List.replicate (k - m.q.vt.length) QVT.binary).length = (m.q.lin.take k ++ List.replicate (k - m.q.lin.length) 0).length
    rw [hlin]; simp; omega
  · show (m.q.lb.take k ++ List.replicate (k - m.q.lb.length) (0 : Rat)).length = (m.q.lin.take k ++ List.replicate (k - m.q.lin.length) 0).length
    rw [hlin]; simp; omega
  · show (m.q.ub.take k ++ List.replicate (k - m.q.ub.length) (1 : Rat)).length = (m.q.lin.take k ++ List.replicate (k - m.q.lin.length) 0).length
    rw [hlin]; simp; omega

/-! ### dense / COO construction: folds of `add_quadratic` with indices in range -/

theorem n_quad (m : CppM) (u v : Nat) (b : Rat) (set : Bool) : (m.quad u v b set).1.q.lin.length = m.q.lin.length := by
  unfold CppM.quad
  by_cases huv : u = v
  · simp only [huv, if_true]
    cases m.vtOf v <;> cases set <;> simp [CppM.withLin, CppM.withOff, CppM.withAdj]
  · simp only [huv, if_false]; rfl

theorem WF.foldQuad {α} {m : CppM} (h : WF m) (xs : List α) (f : CppM → α → CppM)
    (hf : ∀ acc x, x ∈ xs → (WF acc ∧ acc.q.lin.length = m.q.lin.length) → (WF (f acc x) ∧ (f acc x).q.lin.length = m.q.lin.length)) :
    WF (xs.foldl f m) ∧ (xs.foldl f m).q.lin.length = m.q.lin.length := by
  have : ∀ (xs' : List α) (acc : CppM), (∀ x ∈ xs', x ∈ xs) → (WF acc ∧ acc.q.lin.length = m.q.lin.length) →
      (WF (xs'.foldl f acc) ∧ (xs'.foldl f acc).q.lin.length = m.q.lin.length) := by
    intro xs'
    induction xs' with
    | nil => intro acc _ ha; exact ha
    | cons x t ih =>
      intro acc hsub ha
      simp only [List.foldl]
      exact ih _ (fun y hy => hsub y (List.mem_cons_of_mem _ hy)) (hf acc x (hsub x (by simp)) ha)
  exact this xs m (fun _ h => h) ⟨h, rfl⟩

/-- `add_quadratic_from_dense(dense, k)` with `k ≤ num_variables()` -/
theorem WF.addDense {m : CppM} (h : WF m) (k : Nat) (d : List Rat) (hk : k ≤ m.q.lin.length) : WF (m.addDense k d) := by
  unfold CppM.addDense
  refine (h.foldQuad (List.range k) _ ?_).1
  intro acc u hu ha
  have hul : u < acc.q.lin.length := by rw [ha.2]; have := List.mem_range.mp hu; omega
  have w1 : WF (acc.quad u u (d.getD (u * (k + 1)) 0) false).1 := ha.1.quad u u _ false hul hul
  have n1 : (acc.quad u u (d.getD (u * (k + 1)) 0) false).1.q.lin.length = m.q.lin.length := by rw [n_quad]; exact ha.2
  have r := w1.foldQuad ((List.range k).filter (u < ·)) (fun acc v =>
      if d.getD (u * k + v) 0 + d.getD (v * k + u) 0 ≠ 0 then (acc.quad u v (d.getD (u * k + v) 0 + d.getD (v * k + u) 0) false).1 else acc) (by
    intro a v hv hav
    have hvk : v < k := List.mem_range.mp (List.mem_filter.mp hv).1
    split
    · refine ⟨hav.1.quad u v _ false (by rw [hav.2, n1]; have := List.mem_range.mp hu; omega) (by rw [hav.2, n1]; omega), ?_⟩
      rw [n_quad]; exact hav.2
    · exact hav)
  exact ⟨r.1, r.2.trans n1⟩

/-- iterator `add_quadratic(rows, cols, biases)`: a BQM grows first, for a QM the indices have to be in range -/
theorem WF.addCoo {m : CppM} (h : WF m) (rows cols : List Nat) (vals : List Rat) (hlen : cols.length = rows.length)
    (hq : m.bvt = none → ∀ x ∈ rows ++ cols, x < m.q.lin.length) : WF (m.addCoo rows cols vals) := by
  have hmax : ∀ (l : List Nat) (a : Nat), (∀ x ∈ l, x ≤ l.foldl max a) ∧ a ≤ l.foldl max a := by
    intro l
    induction l with
    | nil => intro a; exact ⟨fun _ h => (by cases h), Nat.le_refl _⟩
    | cons y t ih =>
      intro a
      simp only [List.foldl]
      have r := ih (max a y)
      refine ⟨?_, by have := Nat.le_max_left a y; omega⟩
      intro x hx
      rcases List.mem_cons.mp hx with e | e
      · rw [e]; have := Nat.le_max_right a y; omega
      · exact r.1 x e
  have hn : m.n = m.q.lin.length := rfl
  unfold CppM.addCoo
  -- the model the loop starts from
  have base : WF (m.cooBase rows cols) ∧ (rows.length > 0 → ∀ x ∈ rows ++ cols, x < (m.cooBase rows cols).q.lin.length) := by
    unfold CppM.cooBase
    dsimp only
    cases hb : m.bvt with
    | none => exact ⟨h, fun _ => hq hb⟩
    | some t =>
      simp only []
      by_cases hc : rows.length > 0 ∧ (rows ++ cols).foldl max 0 ≥ m.n
      · rw [if_pos hc]
        refine ⟨h.baseResize_bqm _ t hb, ?_⟩
        intro _ x hx
        show x < (m.q.lin.take _ ++ List.replicate _ 0).length
        have := (hmax (rows ++ cols) 0).1 x hx
        simp only [List.length_append, List.length_take, List.length_replicate]; omega
      · rw [if_neg hc]
        refine ⟨h, ?_⟩
        intro hpos x hx
        have := (hmax (rows ++ cols) 0).1 x hx
        have hlt : ¬ (rows ++ cols).foldl max 0 ≥ m.n := fun e => hc ⟨hpos, e⟩
        omega
  generalize m.cooBase rows cols = m0 at base
  obtain ⟨w0, hb0⟩ := base
  refine (w0.foldQuad (List.range rows.length) _ ?_).1
  intro acc i hi ha
  have hil : i < rows.length := List.mem_range.mp hi
  have hpos : rows.length > 0 := by omega
  have hr : rows.getD i 0 ∈ rows ++ cols := by
    apply List.mem_append_left
    simp only [List.getD, List.getElem?_eq_getElem hil, Option.getD_some]; exact List.getElem_mem hil
  have hc : cols.getD i 0 ∈ rows ++ cols := by
    apply List.mem_append_right
    have hic : i < cols.length := by omega
    simp only [List.getD, List.getElem?_eq_getElem hic, Option.getD_some]; exact List.getElem_mem hic
  refine ⟨ha.1.quad _ _ _ false (by rw [ha.2]; exact hb0 hpos _ hr) (by rw [ha.2]; exact hb0 hpos _ hc), ?_⟩
  rw [n_quad]; exact ha.2

end CppM
