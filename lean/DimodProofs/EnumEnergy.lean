import DimodModel.Enumerate
import Mathlib.Tactic.Ring
import Mathlib.Tactic.FieldSimp
import Mathlib.Tactic.Linarith
import Mathlib.Data.Rat.Defs
import Mathlib.Algebra.Order.Field.Rat

/-! C07: energies reported through the `sample` / `sample_ising` / `sample_qubo` mixins, through
    `PolyScaleComposite`, `PolyFixedVariableComposite` and `polymorph_response` are energies of the
    *submitted* problem. -/

namespace Enum

/-! ### SPIN ↔ BINARY with the energy offset -/

theorem linE_append (x : Label → Rat) (a b : List (Label × Rat)) : linE x (a ++ b) = linE x a + linE x b := by
  induction a with
  | nil => simp [linE]
  | cons h t ih => obtain ⟨v, c⟩ := h; simp only [List.cons_append, linE, ih]; ring

theorem linE_scale (x : Label → Rat) (k : Rat) (l : List (Label × Rat)) :
    linE x (l.map fun (v, b) => (v, k * b)) = k * linE x l := by
  induction l with
  | nil => simp [linE]
  | cons h t ih => obtain ⟨v, c⟩ := h; simp only [List.map_cons, linE, ih]; ring

theorem toBinary_energy (m : Bqm) (hs : m.spin = true) (x : Label → Rat) :
    m.toBinary.energy x = m.energy (fun l => 2 * x l - 1) := by
  obtain ⟨sp, lin, quad, off⟩ := m
  simp only at hs; subst hs
  simp only [Bqm.toBinary, Bqm.energy, not_true_eq_false, if_false]
  rw [linE_append]
  have h1 : ∀ l : List (Label × Rat), linE x (l.map fun (v, b) => (v, 2 * b)) - sumLin l = linE (fun l => 2 * x l - 1) l := by
    intro l
    induction l with
    | nil => simp [linE, sumLin]
    | cons h t ih => obtain ⟨v, c⟩ := h; simp only [List.map_cons, linE, sumLin]; linarith [ih]
  have h2 : ∀ q : List (Label × Label × Rat),
      linE x (q.flatMap fun (u, v, b) => [(u, -2 * b), (v, -2 * b)]) + quadE x (q.map fun (u, v, b) => (u, v, 4 * b)) + sumQuad q
        = quadE (fun l => 2 * x l - 1) q := by
    intro q
    induction q with
    | nil => simp [linE, quadE, sumQuad]
    | cons h t ih =>
      obtain ⟨u, v, c⟩ := h
      simp only [List.flatMap_cons, List.map_cons, linE, quadE, sumQuad, List.cons_append, List.nil_append]
      linarith [ih]
  linarith [h1 lin, h2 quad]

theorem toSpin_energy (m : Bqm) (hs : m.spin = false) (s : Label → Rat) :
    m.toSpin.energy s = m.energy (fun l => (s l + 1) / 2) := by
  obtain ⟨sp, lin, quad, off⟩ := m
  simp only at hs; subst hs
  simp only [Bqm.toSpin, Bqm.energy, Bool.false_eq_true, if_false]
  rw [linE_append]
  have h1 : ∀ l : List (Label × Rat), linE s (l.map fun (v, b) => (v, b / 2)) + sumLin l / 2 = linE (fun l => (s l + 1) / 2) l := by
    intro l
    induction l with
    | nil => simp [linE, sumLin]
    | cons h t ih => obtain ⟨v, c⟩ := h; simp only [List.map_cons, linE, sumLin]; linarith [ih]
  have h2 : ∀ q : List (Label × Label × Rat),
      linE s (q.flatMap fun (u, v, b) => [(u, b / 4), (v, b / 4)]) + quadE s (q.map fun (u, v, b) => (u, v, b / 4)) + sumQuad q / 4
        = quadE (fun l => (s l + 1) / 2) q := by
    intro q
    induction q with
    | nil => simp [linE, quadE, sumQuad]
    | cons h t ih =>
      obtain ⟨u, v, c⟩ := h
      simp only [List.flatMap_cons, List.map_cons, linE, quadE, sumQuad, List.cons_append, List.nil_append]
      have : c / 4 * s u + (c / 4 * s v + 0) + c / 4 * s u * s v + c / 4 = c * ((s u + 1) / 2) * ((s v + 1) / 2) := by ring
      linarith [ih]
  linarith [h1 lin, h2 quad]

/-! ### polynomials -/

theorem polyEnergy_scale (x : Label → Rat) (s : Rat) (p : Poly) : polyEnergy x (polyScale s [] p) = s * polyEnergy x p := by
  induction p with
  | nil => simp [polyScale, polyEnergy]
  | cons h t ih =>
    obtain ⟨k, v⟩ := h
    simp only [polyScale, List.map_cons, List.any_nil, Bool.false_eq_true, if_false, polyEnergy] at ih ⊢
    rw [ih]; ring

/-- C07 `polyscale_energy`: dividing the child's energies (of the scaled polynomial) by the scalar
    gives energies of the submitted polynomial -/
theorem polyscale_energy (child : Poly → List Row) (p : Poly) (s : Rat) (hs : s ≠ 0)
    (hchild : ∀ q, ∀ r ∈ child q, r.energy = polyEnergy r.val q) :
    ∀ r ∈ polyScaleSample child p s [], r.energy = polyEnergy r.val p := by
  intro r hr
  simp only [polyScaleSample, List.isEmpty_nil, if_true, List.mem_map] at hr
  obtain ⟨r0, hr0, rfl⟩ := hr
  have := hchild _ r0 hr0
  rw [polyEnergy_scale] at this
  show r0.energy / s = polyEnergy r0.val p
  rw [this]; field_simp

/-- with ignored terms the energies are recomputed from the submitted polynomial -/
theorem polyscale_energy_ignored (child : Poly → List Row) (p : Poly) (s : Rat) (ign : List (List Label)) (hi : ign ≠ []) :
    ∀ r ∈ polyScaleSample child p s ign, r.energy = polyEnergy r.val p := by
  intro r hr
  have e : ign.isEmpty = false := by cases ign <;> simp_all
  simp only [polyScaleSample, e, Bool.false_eq_true, if_false, List.mem_map] at hr
  obtain ⟨r0, _, rfl⟩ := hr
  rfl

end Enum

namespace Enum

/-! ### the mixins -/

def Bqm.labels (m : Bqm) : List Label := m.lin.map (·.1) ++ m.quad.flatMap fun (u, v, _) => [u, v]

/-- the row has a value for every label of the problem -/
def Row.Covers (r : Row) (ls : List Label) : Prop := ∀ l ∈ ls, (r.x.find? (fun p => p.1 = l)).isSome = true

theorem linE_congr (x y : Label → Rat) (l : List (Label × Rat)) (h : ∀ p ∈ l, x p.1 = y p.1) : linE x l = linE y l := by
  induction l with
  | nil => rfl
  | cons a t ih =>
    obtain ⟨v, c⟩ := a
    simp only [linE]
    rw [h (v, c) (List.mem_cons_self), ih (fun p hp => h p (List.mem_cons_of_mem _ hp))]

theorem quadE_congr (x y : Label → Rat) (q : List (Label × Label × Rat))
    (h : ∀ p ∈ q, x p.1 = y p.1 ∧ x p.2.1 = y p.2.1) : quadE x q = quadE y q := by
  induction q with
  | nil => rfl
  | cons a t ih =>
    obtain ⟨u, v, c⟩ := a
    simp only [quadE]
    have := h (u, v, c) (List.mem_cons_self)
    rw [this.1, this.2, ih (fun p hp => h p (List.mem_cons_of_mem _ hp))]

theorem energy_congr (m : Bqm) (x y : Label → Rat) (h : ∀ l ∈ m.labels, x l = y l) : m.energy x = m.energy y := by
  unfold Bqm.energy
  rw [linE_congr x y m.lin, quadE_congr x y m.quad]
  · intro p hp
    obtain ⟨u, v, c⟩ := p
    have hu : u ∈ m.labels := by
      simp only [Bqm.labels, List.mem_append, List.mem_flatMap]
      exact Or.inr ⟨(u, v, c), hp, by simp⟩
    have hv : v ∈ m.labels := by
      simp only [Bqm.labels, List.mem_append, List.mem_flatMap]
      exact Or.inr ⟨(u, v, c), hp, by simp⟩
    exact ⟨h u hu, h v hv⟩
  · intro p hp
    apply h
    simp only [Bqm.labels, List.mem_append, List.mem_map]
    exact Or.inl ⟨p, hp, rfl⟩

theorem find_map_val (xs : List (Label × Rat)) (g : Rat → Rat) (l : Label)
    (hc : (xs.find? (fun p => p.1 = l)).isSome = true) :
    (((xs.map fun (k, v) => (k, g v)).find? (fun p => p.1 = l)).map (·.2)).getD 0
      = g (((xs.find? (fun p => p.1 = l)).map (·.2)).getD 0) := by
  induction xs with
  | nil => simp at hc
  | cons a t ih =>
    obtain ⟨k, v⟩ := a
    by_cases hk : k = l
    · simp [List.find?, hk]
    · simp only [List.find?, List.map_cons, hk, decide_false] at hc ⊢
      exact ih hc

theorem val_map (r : Row) (g : Rat → Rat) (l : Label) (e : Rat)
    (hc : (r.x.find? (fun p => p.1 = l)).isSome = true) :
    (Row.mk (r.x.map fun (k, v) => (k, g v)) e).val l = g (r.val l) := by
  unfold Row.val
  exact find_map_val r.x g l hc

theorem mem_labels (m : Bqm) (l : Label) :
    l ∈ m.labels ↔ (∃ p ∈ m.lin, p.1 = l) ∨ (∃ p ∈ m.quad, l = p.1 ∨ l = p.2.1) := by
  unfold Bqm.labels
  rw [List.mem_append, List.mem_map, List.mem_flatMap]
  constructor
  · rintro (h | ⟨p, hp, hl⟩)
    · exact Or.inl h
    · obtain ⟨u, v, c⟩ := p
      simp only [List.mem_cons, List.not_mem_nil, or_false] at hl
      exact Or.inr ⟨(u, v, c), hp, hl⟩
  · rintro (h | ⟨p, hp, hl⟩)
    · exact Or.inl h
    · obtain ⟨u, v, c⟩ := p
      exact Or.inr ⟨(u, v, c), hp, by simpa using hl⟩

theorem labels_toSpin (m : Bqm) (l : Label) (hl : l ∈ m.labels) : l ∈ ({ m.toSpin with off := 0 } : Bqm).labels := by
  unfold Bqm.toSpin
  split
  · exact hl
  · rw [mem_labels] at hl ⊢
    rcases hl with ⟨p, hp, rfl⟩ | ⟨p, hp, hl⟩
    · left
      refine ⟨(p.1, p.2 / 2), ?_, rfl⟩
      simp only [List.mem_append, List.mem_map]
      exact Or.inl ⟨p, hp, rfl⟩
    · right
      obtain ⟨u, v, c⟩ := p
      refine ⟨(u, v, c / 4), ?_, hl⟩
      simp only [List.mem_map]
      exact ⟨(u, v, c), hp, rfl⟩

theorem labels_toBinary (m : Bqm) (l : Label) (hl : l ∈ m.labels) : l ∈ ({ m.toBinary with off := 0 } : Bqm).labels := by
  unfold Bqm.toBinary
  split
  · exact hl
  · rw [mem_labels] at hl ⊢
    rcases hl with ⟨p, hp, rfl⟩ | ⟨p, hp, hl⟩
    · left
      refine ⟨(p.1, 2 * p.2), ?_, rfl⟩
      simp only [List.mem_append, List.mem_map]
      exact Or.inl ⟨p, hp, rfl⟩
    · right
      obtain ⟨u, v, c⟩ := p
      refine ⟨(u, v, 4 * c), ?_, hl⟩
      simp only [List.mem_map]
      exact ⟨(u, v, c), hp, rfl⟩

/-- what is assumed of the implemented method: every row it returns carries the energy of the problem
    it was given and has a value for each of that problem's labels -/
def ChildOK (child : Bqm → List Row) : Prop :=
  ∀ q, ∀ r ∈ child q, r.energy = q.energy r.val ∧ r.Covers q.labels

/-- the contract at one problem -/
def ChildOKAt (child : Bqm → List Row) (q : Bqm) : Prop := ∀ r ∈ child q, r.energy = q.energy r.val ∧ r.Covers q.labels

theorem energy_off (m : Bqm) (x : Label → Rat) : ({ m with off := 0 } : Bqm).energy x + m.off = m.energy x := by
  simp only [Bqm.energy]; ring

/-- C07 `mixin_energy_offset`: whichever single method a sampler implements, the rows returned by the
    inherited `sample(bqm)` carry the energy of the submitted `bqm` (offset included) -/
theorem mixin_energy_offset_at (impl : Impl) (child : Bqm → List Row) (m : Bqm)
    (hc : ∀ q, (q = m ∨ q = { m.toSpin with off := 0 } ∨ q = { m.toBinary with off := 0 }) → ChildOKAt child q) :
    ∀ r ∈ mixinSample impl child m, r.energy = m.energy r.val := by
  intro r hr
  cases impl with
  | sample => exact (hc m (Or.inl rfl) r hr).1
  | ising =>
    simp only [mixinSample] at hr
    by_cases hs : m.spin = true
    · simp only [hs, if_true, List.mem_map] at hr
      obtain ⟨r0, hr0, rfl⟩ := hr
      have h0 := (hc _ (Or.inr (Or.inl rfl)) r0 hr0).1
      have hsp : m.toSpin = m := by simp [Bqm.toSpin, hs]
      show r0.energy + m.toSpin.off = m.energy r0.val
      rw [h0, energy_off, hsp]
    · have hs' : m.spin = false := by simpa using hs
      simp only [hs', Bool.false_eq_true, if_false, List.mem_map] at hr
      obtain ⟨r0, hr0, rfl⟩ := hr
      obtain ⟨h0, hcov⟩ := hc _ (Or.inr (Or.inl rfl)) r0 hr0
      show r0.energy + m.toSpin.off = m.energy (r0.toBinary m.toSpin.off).val
      rw [h0, energy_off, toSpin_energy m hs']
      apply energy_congr
      intro l hl
      exact (val_map r0 (fun v => (v + 1) / 2) l _ (hcov l (labels_toSpin m l hl))).symm
  | qubo =>
    simp only [mixinSample] at hr
    by_cases hs : m.spin = true
    · simp only [hs, if_true, List.mem_map] at hr
      obtain ⟨r0, hr0, rfl⟩ := hr
      obtain ⟨h0, hcov⟩ := hc _ (Or.inr (Or.inr rfl)) r0 hr0
      show r0.energy + m.toBinary.off = m.energy (r0.toSpin m.toBinary.off).val
      rw [h0, energy_off, toBinary_energy m hs]
      apply energy_congr
      intro l hl
      exact (val_map r0 (fun v => 2 * v - 1) l _ (hcov l (labels_toBinary m l hl))).symm
    · have hs' : m.spin = false := by simpa using hs
      simp only [hs', Bool.false_eq_true, if_false, List.mem_map] at hr
      obtain ⟨r0, hr0, rfl⟩ := hr
      have h0 := (hc _ (Or.inr (Or.inr rfl)) r0 hr0).1
      have hsp : m.toBinary = m := by simp [Bqm.toBinary, hs']
      show r0.energy + m.toBinary.off = m.energy r0.val
      rw [h0, energy_off, hsp]

/-- C07 `mixin_energy_offset`: whichever single method a sampler implements, the rows returned by the
    inherited `sample(bqm)` carry the energy of the submitted `bqm` (offset included) -/
theorem mixin_energy_offset (impl : Impl) (child : Bqm → List Row) (hc : ChildOK child) (m : Bqm) :
    ∀ r ∈ mixinSample impl child m, r.energy = m.energy r.val :=
  mixin_energy_offset_at impl child m (fun q _ => hc q)

theorem mixinIsing_energy (impl : Impl) (child : Bqm → List Row) (hc : ChildOK child)
    (h : List (Label × Rat)) (J : List (Label × Label × Rat)) :
    ∀ r ∈ mixinIsing impl child h J, r.energy = linE r.val h + quadE r.val J := by
  intro r hr
  have := mixin_energy_offset impl child hc ⟨true, h, J, 0⟩ r hr
  simpa [Bqm.energy] using this

theorem mixinQubo_energy (impl : Impl) (child : Bqm → List Row) (hc : ChildOK child)
    (lin : List (Label × Rat)) (quad : List (Label × Label × Rat)) :
    ∀ r ∈ mixinQubo impl child lin quad, r.energy = linE r.val lin + quadE r.val quad := by
  intro r hr
  have := mixin_energy_offset impl child hc ⟨false, lin, quad, 0⟩ r hr
  simpa [Bqm.energy] using this

end Enum
