import DimodProofs.CqmLiftOps

/-! The adjacency structure of every expression stays symmetric (`v` is a neighbour of `u` iff `u` is one of `v`)
    under every operation — what lets `substitute_variable` scale the mirror entries (property C05). -/

namespace CqmP
open Expr Cqm

def keyAt (adj : List (List (Nat × Rat))) (i : Nat) : List Nat := (adj.getD i []).map Prod.fst

def KeySym (adj : List (List (Nat × Rat))) : Prop := ∀ i j, j ∈ keyAt adj i ↔ i ∈ keyAt adj j

/-- well formed, with a symmetric adjacency structure -/
def ExprKS (e : Expr) : Prop := ExprWF e ∧ KeySym e.qb.adj

theorem keyAt_eq_getD_keysOf (adj : List (List (Nat × Rat))) (i : Nat) : keyAt adj i = (keysOf adj).getD i [] := by
  unfold keyAt keysOf
  simp only [List.getD_eq_getElem?_getD, List.getElem?_map]
  cases adj[i]? <;> rfl

theorem keySym_of_keys {a b : List (List (Nat × Rat))} (h : keysOf a = keysOf b) (hb : KeySym b) : KeySym a := by
  intro i j
  rw [keyAt_eq_getD_keysOf, keyAt_eq_getD_keysOf, h, ← keyAt_eq_getD_keysOf, ← keyAt_eq_getD_keysOf]
  exact hb i j

theorem keyAt_modifyAt (adj : List (List (Nat × Rat))) (u i : Nat) (f : List (Nat × Rat) → List (Nat × Rat)) :
    keyAt (Bqm.modifyAt adj u f) i = if i = u ∧ u < adj.length then (f (adj.getD u [])).map Prod.fst else keyAt adj i := by
  unfold keyAt
  rw [getD_modifyAt_gen]
  split_ifs <;> rfl

theorem keyAt_of_ge {adj : List (List (Nat × Rat))} {i : Nat} (h : adj.length ≤ i) : keyAt adj i = [] := by
  unfold keyAt
  rw [List.getD_eq_getElem?_getD, List.getElem?_eq_none h]; rfl

theorem mem_keys_nbhAdd (nb : List (Nat × Rat)) (v : Nat) (b : Rat) (s : Bool) (k : Nat) :
    k ∈ (Bqm.nbhAdd nb v b s).map Prod.fst ↔ k = v ∨ k ∈ nb.map Prod.fst := by
  induction nb with
  | nil => simp [Bqm.nbhAdd]
  | cons q t ih =>
    obtain ⟨w, c⟩ := q
    rw [nbhAdd_cons]
    by_cases h1 : w < v
    · rw [if_pos h1, List.map_cons, List.mem_cons, ih, List.map_cons, List.mem_cons]
      constructor
      · intro h; rcases h with h | h | h
        · exact Or.inr (Or.inl h)
        · exact Or.inl h
        · exact Or.inr (Or.inr h)
      · intro h; rcases h with h | h | h
        · exact Or.inr (Or.inl h)
        · exact Or.inl h
        · exact Or.inr (Or.inr h)
    · rw [if_neg h1]
      by_cases h2 : w = v
      · rw [if_pos h2, List.map_cons, List.mem_cons, List.map_cons, List.mem_cons]
        constructor
        · intro h; rcases h with h | h
          · exact Or.inr (Or.inl h)
          · exact Or.inr (Or.inr h)
        · intro h; rcases h with h | h | h
          · exact Or.inl (h.trans h2.symm)
          · exact Or.inl h
          · exact Or.inr h
      · rw [if_neg h2, List.map_cons, List.mem_cons]

/-- adding the pair {u, v} (both rows, or the diagonal entry) keeps the structure symmetric -/
theorem keySym_asym_pair {adj : List (List (Nat × Rat))} (h : KeySym adj) {u v : Nat} (hu : u < adj.length) (hv : v < adj.length)
    (b : Rat) (s : Bool) :
    KeySym (Bqm.modifyAt (Bqm.modifyAt adj u (fun nb => Bqm.nbhAdd nb v b s)) v (fun nb => Bqm.nbhAdd nb u b s)) := by
  have hlen : (Bqm.modifyAt adj u (fun nb => Bqm.nbhAdd nb v b s)).length = adj.length := length_modifyAt _ _ _
  have key : ∀ i j, j ∈ keyAt (Bqm.modifyAt (Bqm.modifyAt adj u (fun nb => Bqm.nbhAdd nb v b s)) v (fun nb => Bqm.nbhAdd nb u b s)) i
      ↔ (i = u ∧ j = v) ∨ (i = v ∧ j = u) ∨ j ∈ keyAt adj i := by
    intro i j
    rw [keyAt_modifyAt, hlen]
    by_cases hiv : i = v
    · subst hiv
      rw [if_pos ⟨rfl, hv⟩, mem_keys_nbhAdd]
      have : ((Bqm.modifyAt adj u (fun nb => Bqm.nbhAdd nb i b s)).getD i []).map Prod.fst
          = keyAt (Bqm.modifyAt adj u (fun nb => Bqm.nbhAdd nb i b s)) i := rfl
      rw [this, keyAt_modifyAt]
      by_cases hiu : i = u
      · subst hiu
        rw [if_pos ⟨rfl, hu⟩, mem_keys_nbhAdd]
        show j = i ∨ j = i ∨ j ∈ keyAt adj i ↔ _
        constructor
        · intro h'; rcases h' with h' | h' | h'
          · exact Or.inl ⟨rfl, h'⟩
          · exact Or.inl ⟨rfl, h'⟩
          · exact Or.inr (Or.inr h')
        · intro h'; rcases h' with ⟨_, h'⟩ | ⟨_, h'⟩ | h'
          · exact Or.inl h'
          · exact Or.inl h'
          · exact Or.inr (Or.inr h')
      · rw [if_neg (fun h' => hiu h'.1)]
        constructor
        · intro h'; rcases h' with h' | h'
          · exact Or.inr (Or.inl ⟨rfl, h'⟩)
          · exact Or.inr (Or.inr h')
        · intro h'; rcases h' with ⟨h1, _⟩ | ⟨_, h'⟩ | h'
          · exact absurd h1 hiu
          · exact Or.inl h'
          · exact Or.inr h'
    · rw [if_neg (fun h' => hiv h'.1), keyAt_modifyAt]
      by_cases hiu : i = u
      · subst hiu
        rw [if_pos ⟨rfl, hu⟩, mem_keys_nbhAdd]
        show j = v ∨ j ∈ keyAt adj i ↔ _
        constructor
        · intro h'; rcases h' with h' | h'
          · exact Or.inl ⟨rfl, h'⟩
          · exact Or.inr (Or.inr h')
        · intro h'; rcases h' with ⟨_, h'⟩ | ⟨h1, _⟩ | h'
          · exact Or.inl h'
          · exact absurd h1 hiv
          · exact Or.inr h'
      · rw [if_neg (fun h' => hiu h'.1)]
        constructor
        · intro h'; exact Or.inr (Or.inr h')
        · intro h'; rcases h' with ⟨h1, _⟩ | ⟨h1, _⟩ | h'
          · exact absurd h1 hiu
          · exact absurd h1 hiv
          · exact h'
  intro i j
  rw [key i j, key j i, h i j]
  constructor
  · intro h'; rcases h' with ⟨a, c⟩ | ⟨a, c⟩ | h'
    · exact Or.inr (Or.inl ⟨c, a⟩)
    · exact Or.inl ⟨c, a⟩
    · exact Or.inr (Or.inr h')
  · intro h'; rcases h' with ⟨a, c⟩ | ⟨a, c⟩ | h'
    · exact Or.inr (Or.inl ⟨c, a⟩)
    · exact Or.inl ⟨c, a⟩
    · exact Or.inr (Or.inr h')

theorem keySym_asym_diag {adj : List (List (Nat × Rat))} (h : KeySym adj) {u : Nat} (hu : u < adj.length) (b : Rat) (s : Bool) :
    KeySym (Bqm.modifyAt adj u (fun nb => Bqm.nbhAdd nb u b s)) := by
  have key : ∀ i j, j ∈ keyAt (Bqm.modifyAt adj u (fun nb => Bqm.nbhAdd nb u b s)) i ↔ (i = u ∧ j = u) ∨ j ∈ keyAt adj i := by
    intro i j
    rw [keyAt_modifyAt]
    by_cases hiu : i = u
    · subst hiu
      rw [if_pos ⟨rfl, hu⟩, mem_keys_nbhAdd]
      show j = i ∨ j ∈ keyAt adj i ↔ _
      constructor
      · intro h'; rcases h' with h' | h'
        · exact Or.inl ⟨rfl, h'⟩
        · exact Or.inr h'
      · intro h'; rcases h' with ⟨_, h'⟩ | h'
        · exact Or.inl h'
        · exact Or.inr h'
    · rw [if_neg (fun h' => hiu h'.1)]
      constructor
      · intro h'; exact Or.inr h'
      · intro h'; rcases h' with ⟨h1, _⟩ | h'
        · exact absurd h1 hiu
        · exact h'
  intro i j
  rw [key i j, key j i, h i j]
  constructor
  · intro h'; rcases h' with ⟨a, c⟩ | h'
    · exact Or.inl ⟨c, a⟩
    · exact Or.inr h'
  · intro h'; rcases h' with ⟨a, c⟩ | h'
    · exact Or.inl ⟨c, a⟩
    · exact Or.inr h'

theorem addQuadraticQB_keySym {q : QB} (h : KeySym q.adj) (vt : VT4) {u v : Nat} (hu : u < q.adj.length) (hv : v < q.adj.length) (b : Rat) :
    KeySym (q.addQuadratic vt u v b).adj := by
  unfold QB.addQuadratic
  split
  · rename_i huv
    cases vt with
    | binary => exact h
    | spin => exact h
    | integer => exact keySym_asym_diag h hu b false
    | real => exact keySym_asym_diag h hu b false
  · exact keySym_asym_pair h hu hv b false


/-! ### removal of a variable -/

def unshift (i a : Nat) : Nat := if a < i then a else a + 1

theorem shift_unshift (i a : Nat) : shift i (unshift i a) = a := by
  unfold shift unshift; split_ifs <;> omega

theorem unshift_ne (i a : Nat) : unshift i a ≠ i := by
  unfold unshift; split_ifs <;> omega

theorem unshift_shift {i b : Nat} (hb : b ≠ i) : unshift i (shift i b) = b := by
  unfold shift unshift; split_ifs <;> omega

theorem keys_shiftNbh (i : Nat) (nb : List (Nat × Rat)) (k : Nat) :
    k ∈ (QB.shiftNbh i nb).map Prod.fst ↔ unshift i k ∈ nb.map Prod.fst := by
  constructor
  · intro h
    obtain ⟨q, hq, rfl⟩ := List.mem_map.mp h
    obtain ⟨p, hp, hpi, hqp⟩ := mem_shiftNbh hq
    rw [hqp, unshift_shift hpi]
    exact List.mem_map.mpr ⟨p, hp, rfl⟩
  · intro h
    obtain ⟨p, hp, hpk⟩ := List.mem_map.mp h
    have hpi : p.1 ≠ i := by rw [hpk]; exact unshift_ne i k
    unfold QB.shiftNbh
    refine List.mem_map.mpr ⟨(if p.1 > i then (p.1 - 1, p.2) else p), List.mem_map.mpr ⟨p, List.mem_filter.mpr ⟨hp, by simpa using hpi⟩, rfl⟩, ?_⟩
    have : (if p.1 > i then (p.1 - 1, p.2) else p).1 = shift i p.1 := by unfold shift; split <;> rfl
    rw [this, hpk, shift_unshift]

theorem keyAt_removeVar (q : QB) (i a k : Nat) :
    k ∈ keyAt (q.removeVar i).adj a ↔ unshift i k ∈ keyAt q.adj (unshift i a) := by
  unfold keyAt
  have : (q.removeVar i).adj.getD a [] = QB.shiftNbh i (q.adj.getD (unshift i a) []) := by
    show ((Bqm.eraseIdx q.adj i).map (QB.shiftNbh i)).getD a [] = _
    simp only [List.getD_eq_getElem?_getD, List.getElem?_map, getElem?_eraseIdx]
    unfold unshift
    by_cases hai : a < i
    · rw [if_pos hai, if_pos hai]; cases q.adj[a]? <;> rfl
    · rw [if_neg hai, if_neg hai]; cases q.adj[a + 1]? <;> rfl
  rw [this, keys_shiftNbh]

theorem removeVarQB_keySym {q : QB} (h : KeySym q.adj) (i : Nat) : KeySym (q.removeVar i).adj := by
  intro a b
  rw [keyAt_removeVar, keyAt_removeVar]
  exact h _ _

/-! ### `remove_interaction` -/

theorem keys_nbhDrop (nb : List (Nat × Rat)) (v k : Nat) : k ∈ (QB.nbhDrop nb v).map Prod.fst ↔ k ∈ nb.map Prod.fst ∧ k ≠ v := by
  unfold QB.nbhDrop
  simp only [List.mem_map, List.mem_filter]
  constructor
  · intro ⟨p, ⟨hp, hpv⟩, hpk⟩
    exact ⟨⟨p, hp, hpk⟩, by rw [← hpk]; simpa using hpv⟩
  · intro ⟨⟨p, hp, hpk⟩, hkv⟩
    exact ⟨p, ⟨hp, by rw [hpk]; simpa using hkv⟩, hpk⟩

theorem removeInteractionQB_keySym {q : QB} (h : KeySym q.adj) {i j : Nat} (hi : i < q.adj.length) (hj : j < q.adj.length) :
    KeySym (q.removeInteraction i j).1.adj := by
  unfold QB.removeInteraction
  split
  swap
  · exact h
  · have hlen : (Bqm.modifyAt q.adj i (fun nb => QB.nbhDrop nb j)).length = q.adj.length := length_modifyAt _ _ _
    have key : ∀ a b, b ∈ keyAt (Bqm.modifyAt (Bqm.modifyAt q.adj i (fun nb => QB.nbhDrop nb j)) j (fun nb => QB.nbhDrop nb i)) a
        ↔ b ∈ keyAt q.adj a ∧ ¬ (a = i ∧ b = j) ∧ ¬ (a = j ∧ b = i) := by
      intro a b
      rw [keyAt_modifyAt, hlen]
      by_cases haj : a = j
      · subst haj
        rw [if_pos ⟨rfl, hj⟩, keys_nbhDrop]
        have : ((Bqm.modifyAt q.adj i (fun nb => QB.nbhDrop nb a)).getD a []).map Prod.fst
            = keyAt (Bqm.modifyAt q.adj i (fun nb => QB.nbhDrop nb a)) a := rfl
        rw [this, keyAt_modifyAt]
        by_cases hai : a = i
        · subst hai
          rw [if_pos ⟨rfl, hi⟩, keys_nbhDrop]
          show (b ∈ keyAt q.adj a ∧ b ≠ a) ∧ b ≠ a ↔ _
          constructor
          · intro ⟨⟨h1, h2⟩, _⟩; exact ⟨h1, fun h' => h2 h'.2, fun h' => h2 h'.2⟩
          · intro ⟨h1, h2, _⟩; exact ⟨⟨h1, fun h' => h2 ⟨rfl, h'⟩⟩, fun h' => h2 ⟨rfl, h'⟩⟩
        · rw [if_neg (fun h' => hai h'.1)]
          constructor
          · intro ⟨h1, h2⟩; exact ⟨h1, fun h' => hai h'.1, fun h' => h2 h'.2⟩
          · intro ⟨h1, _, h3⟩; exact ⟨h1, fun h' => h3 ⟨rfl, h'⟩⟩
      · rw [if_neg (fun h' => haj h'.1), keyAt_modifyAt]
        by_cases hai : a = i
        · subst hai
          rw [if_pos ⟨rfl, hi⟩, keys_nbhDrop]
          show b ∈ keyAt q.adj a ∧ b ≠ j ↔ _
          constructor
          · intro ⟨h1, h2⟩; exact ⟨h1, fun h' => h2 h'.2, fun h' => haj h'.1⟩
          · intro ⟨h1, h2, _⟩; exact ⟨h1, fun h' => h2 ⟨rfl, h'⟩⟩
        · rw [if_neg (fun h' => hai h'.1)]
          constructor
          · intro h1; exact ⟨h1, fun h' => hai h'.1, fun h' => haj h'.1⟩
          · intro ⟨h1, _, _⟩; exact h1
    intro a b
    simp only []
    rw [key a b, key b a, h a b]
    constructor
    · intro ⟨h1, h2, h3⟩; exact ⟨h1, fun h' => h3 ⟨h'.2, h'.1⟩, fun h' => h2 ⟨h'.2, h'.1⟩⟩
    · intro ⟨h1, h2, h3⟩; exact ⟨h1, fun h' => h3 ⟨h'.2, h'.1⟩, fun h' => h2 ⟨h'.2, h'.1⟩⟩

/-! ### expressions -/

theorem exprKS_empty : ExprKS ({} : Expr) := ⟨exprWF_empty, by intro i j; simp [keyAt]⟩

theorem enforce_ks {e : Expr} (h : ExprKS e) (g : Nat) : ExprKS (e.enforce g).1 := by
  refine ⟨enforce_wf h.1 g, ?_⟩
  cases hg : e.idx.get? g with
  | some i => rw [enforce_of_some hg]; exact h.2
  | none =>
    rw [enforce_of_none hg]
    show KeySym (e.qb.adj ++ [[]])
    have hk : ∀ i, keyAt (e.qb.adj ++ [[]]) i = keyAt e.qb.adj i := by
      intro i
      unfold keyAt
      rcases Nat.lt_trichotomy i e.qb.adj.length with hlt | heq | hgt
      · rw [List.getD_eq_getElem?_getD, List.getD_eq_getElem?_getD, List.getElem?_append_left hlt]
      · subst heq
        rw [List.getD_eq_getElem?_getD, List.getD_eq_getElem?_getD, List.getElem?_append_right (Nat.le_refl _),
          List.getElem?_eq_none (Nat.le_refl _)]
        simp
      · rw [List.getD_eq_getElem?_getD, List.getD_eq_getElem?_getD, List.getElem?_eq_none (by simp; omega),
          List.getElem?_eq_none (by omega)]
    intro i j
    rw [hk, hk]; exact h.2 i j

theorem ks_of_keys {e e' : Expr} (h : ExprKS e) (hwf : ExprWF e') (hk : keysOf e'.qb.adj = keysOf e.qb.adj) : ExprKS e' :=
  ⟨hwf, keySym_of_keys hk h.2⟩

theorem addLinear_ks {e : Expr} (h : ExprKS e) (g : Nat) (b : Rat) : ExprKS (e.addLinear g b) :=
  ks_of_keys (enforce_ks h g) (addLinear_wf h.1 g b) rfl

theorem setLinear_ks {e : Expr} (h : ExprKS e) (g : Nat) (b : Rat) : ExprKS (e.setLinear g b) :=
  ks_of_keys (enforce_ks h g) (setLinear_wf h.1 g b) rfl

theorem substitute_ks {e : Expr} (h : ExprKS e) (g : Nat) (m c : Rat) : ExprKS (e.substitute g m c) := by
  refine ⟨substitute_wf h.1 g m c, ?_⟩
  unfold Expr.substitute
  cases e.idx.get? g with
  | none => exact h.2
  | some i => exact keySym_of_keys (substituteWith_shape _ e.qb i m c).2 h.2

theorem addQuadratic_ks {e : Expr} (h : ExprKS e) (vt : List VT4) (gu gv : Nat) (b : Rat) : ExprKS (e.addQuadratic vt gu gv b) := by
  refine ⟨addQuadratic_wf h.1 vt gu gv b, ?_⟩
  have h1 := enforce_ks h gv
  have h2 := enforce_ks h1 gu
  have hu : ((e.enforce gv).1.enforce gu).2 < ((e.enforce gv).1.enforce gu).1.qb.adj.length := by
    rw [h2.1.adj_len]; exact enforce_lt h1.1 gu
  have hv : (e.enforce gv).2 < ((e.enforce gv).1.enforce gu).1.qb.adj.length := by
    rw [h2.1.adj_len]
    exact lt_of_getElem? ((h2.1.idx gv _).mp (enforce_idx_old gu gv (enforce_idx gv)))
  exact addQuadraticQB_keySym h2.2 _ hu hv b

theorem reindex_ks {e : Expr} (h : ExprKS e) (v : Nat) : ExprKS (e.reindex v) := by
  refine ⟨reindex_wf h.1 v, ?_⟩
  rw [reindex_qb]
  cases e.idx.get? v with
  | none => exact h.2
  | some i => exact removeVarQB_keySym h.2 i

theorem removeVar_ks {e : Expr} (h : ExprKS e) (g : Nat) : ExprKS (e.removeVar g) := by
  refine ⟨removeVar_wf h.1 g, ?_⟩
  unfold Expr.removeVar
  cases e.idx.get? g with
  | none => exact h.2
  | some i => exact removeVarQB_keySym h.2 i

theorem removeInteraction_ks {e : Expr} (h : ExprKS e) (gu gv : Nat) : ExprKS (e.removeInteraction gu gv) := by
  refine ⟨removeInteraction_wf h.1 gu gv, ?_⟩
  unfold Expr.removeInteraction
  cases hu : e.idx.get? gu with
  | none => exact h.2
  | some i =>
    cases hv : e.idx.get? gv with
    | none => exact h.2
    | some j =>
      have hi : i < e.qb.adj.length := by rw [h.1.adj_len]; exact lt_of_getElem? ((h.1.idx gu i).mp hu)
      have hj : j < e.qb.adj.length := by rw [h.1.adj_len]; exact lt_of_getElem? ((h.1.idx gv j).mp hv)
      exact removeInteractionQB_keySym h.2 hi hj

theorem toQB_keySym {mi : ModelIn} (hmi : ModelInOK mi) : KeySym mi.toQB.adj := by
  unfold Cqm.ModelIn.toQB
  have : ∀ (l : List (Nat × Nat × Rat)), (∀ t ∈ l, t.1 < mi.vars.length ∧ t.2.1 < mi.vars.length) →
      ∀ q : QB, q.adj.length = mi.vars.length → KeySym q.adj →
        KeySym (l.foldl (fun q t => if t.1 = t.2.1 then q.asym t.1 t.1 t.2.2 false
          else (q.asym t.1 t.2.1 t.2.2 false).asym t.2.1 t.1 t.2.2 false) q).adj := by
    intro l
    induction l with
    | nil => intro _ q _ hq; exact hq
    | cons t ts ih =>
      intro hl q hlen hq
      rw [List.foldl_cons]
      have ht := hl t List.mem_cons_self
      apply ih (fun q hq => hl q (List.mem_cons_of_mem _ hq))
      · split_ifs
        · show (Bqm.modifyAt _ _ _).length = _; rw [length_modifyAt]; exact hlen
        · show (Bqm.modifyAt (Bqm.modifyAt _ _ _) _ _).length = _; rw [length_modifyAt, length_modifyAt]; exact hlen
      · split_ifs
        · exact keySym_asym_diag hq (by rw [hlen]; exact ht.1) _ _
        · exact keySym_asym_pair hq (by rw [hlen]; exact ht.1) (by rw [hlen]; exact ht.2) _ _
  apply this mi.quad hmi.quad_lt
  · simp [hmi.lin_len]
  · intro i j
    have : ∀ k, keyAt (mi.lin.map fun _ => ([] : List (Nat × Rat))) k = [] := by
      intro k
      unfold keyAt
      simp only [List.getD_eq_getElem?_getD, List.getElem?_map]
      cases mi.lin[k]? <;> rfl
    rw [this, this]
    simp

theorem exprKS_closed : ExprClosed ExprKS :=
  ⟨exprKS_empty, fun _ g b h => addLinear_ks h g b, fun _ g b h => setLinear_ks h g b,
   fun _ _ h => ks_of_keys h (addOffset_wf h.1 _) rfl, fun _ _ h => ks_of_keys h (exprWF_of_keys h.1 rfl rfl rfl rfl) rfl,
   fun _ vt gu gv b h => addQuadratic_ks h vt gu gv b, fun _ g a c h => substitute_ks h g a c, fun _ v h => reindex_ks h v,
   fun _ g h => removeVar_ks h g, fun _ gu gv h => removeInteraction_ks h gu gv,
   fun gs mi hmi hnd hlen => ⟨relabel_wf (by rw [hlen]; exact toQB_ok hmi) hnd, toQB_keySym hmi⟩⟩

/-- after any history the adjacency structure of every expression is symmetric -/
theorem run_keySym (ops : List Op) (hops : ∀ op ∈ ops, OpOK op) : AllExprs ExprKS (({} : Cqm).run ops) :=
  run_all exprKS_closed ops cqmWF_empty ⟨exprKS_empty, by intro c hc; cases hc⟩ hops

end CqmP
