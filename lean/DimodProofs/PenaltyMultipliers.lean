import DimodModel.PenaltyMultipliers

namespace Pen

/-- when both multipliers are read first, a list of fewer than two multipliers changes nothing -/
theorem unbalancedL_short_atomic (label : String) (terms : List (Label × Int)) (lams : List Rat) (c lb ub : Int) (cross : Bool)
    (h : lams.length < 2) :
    bqmUnbalancedL true label terms lams c lb ub cross = .skipped ∨
    bqmUnbalancedL true label terms lams c lb ub cross = .infeasible ∨
    bqmUnbalancedL true label terms lams c lb ub cross = .indexError [] := by
  unfold bqmUnbalancedL
  split
  · exact Or.inl rfl
  · exact Or.inr (Or.inl rfl)
  · match lams, h with
    | [], _ => simp
    | [l0], _ => simp
    | _ :: _ :: _, h => simp at h; omega

/-- with two (or more) multipliers the list form is the `.pair` form of `bqmIneqFull` -/
theorem unbalancedL_pair (cf : Bool) (label : String) (terms : List (Label × Int)) (l0 l1 : Rat) (rest : List Rat) (c lb ub : Int) (cross : Bool)
    (bag : List (PTerm Label)) (sl : List (Label × Int)) (h : bqmIneqFull label terms (.pair l0 l1) c lb ub cross .unbalanced = .ok bag sl) :
    bqmUnbalancedL cf label terms (l0 :: l1 :: rest) c lb ub cross = .ok bag := by
  unfold bqmUnbalancedL
  split
  · rename_i hp; simp [bqmIneqFull, hp] at h
  · rename_i hp; simp [bqmIneqFull, hp] at h
  · simp only [h]

end Pen
