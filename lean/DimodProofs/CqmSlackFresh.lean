import DimodProofs.CqmFeasible
import DimodProofs.IneqCoded

/-! # `cqm_to_bqm`: the slack labels as generated are separated (C16)

The code names the slack variables of a `≤` / `≥` constraint `slack_<label>_<j>` with `<label> = new_variable_label()`, a
fresh uuid per constraint.  The model draws the label of the constraint at position `i` from an injective oracle
`i ↦ "c<i>"` (different constraints get different labels: that is all the proofs use of a uuid).  Here the
separation hypothesis `Sep` of `cqm_to_bqm_sound_feasible` is *proved* from that label generation; what remains of
it is the freshness contract of uuids against the caller's own labels: no variable (bit) label of the CQM has the
shape `slack_c<i>_<j>`. -/

namespace Pen

/-- `l₁ ++ c :: r₁ = l₂ ++ c :: r₂` with `c` in neither prefix forces `l₁ = l₂` -/
theorem prefix_eq_of_sep {α : Type} (c : α) : ∀ (l₁ l₂ r₁ r₂ : List α), c ∉ l₁ → c ∉ l₂ → l₁ ++ c :: r₁ = l₂ ++ c :: r₂ → l₁ = l₂
  | [], [], _, _, _, _, _ => rfl
  | [], b :: l₂, _, _, _, h2, h => by
    simp only [List.nil_append, List.cons_append, List.cons.injEq] at h
    exact absurd (h.1 ▸ List.mem_cons_self) h2
  | a :: l₁, [], _, _, h1, _, h => by
    simp only [List.nil_append, List.cons_append, List.cons.injEq] at h
    exact absurd (h.1 ▸ List.mem_cons_self) h1
  | a :: l₁, b :: l₂, r₁, r₂, h1, h2, h => by
    simp only [List.cons_append, List.cons.injEq] at h
    have := prefix_eq_of_sep c l₁ l₂ r₁ r₂ (fun hm => h1 (List.mem_cons_of_mem _ hm)) (fun hm => h2 (List.mem_cons_of_mem _ hm)) h.2
    rw [h.1, this]

/-- `slack_c<i>_<a> = slack_c<i'>_<b>` forces `i = i'` (and then `a = b`) -/
theorem slack_name_inj (i i' a b : Nat) (h : (s!"slack_{s!"c{i}"}_{a}" : String) = s!"slack_{s!"c{i'}"}_{b}") : i = i' ∧ a = b := by
  have h1 := congrArg String.toList h
  simp only [String.toList_append, toString, Nat.toList_repr] at h1
  -- "slack_" ++ ("c" ++ digits i) ++ "_" ++ digits a
  have hi : Nat.toDigits 10 i = Nat.toDigits 10 i' := by
    have h2 : ("slack_".toList ++ "c".toList) ++ (Nat.toDigits 10 i ++ '_' :: Nat.toDigits 10 a)
        = ("slack_".toList ++ "c".toList) ++ (Nat.toDigits 10 i' ++ '_' :: Nat.toDigits 10 b) := by
      simpa [List.append_assoc] using h1
    have h3 := List.append_cancel_left h2
    exact prefix_eq_of_sep '_' _ _ _ _ Nat.underscore_not_in_toDigits Nat.underscore_not_in_toDigits h3
  have e1 := @Nat.ofDigitChars_ten_toDigits i
  have e2 := @Nat.ofDigitChars_ten_toDigits i'
  rw [hi] at e1
  have hii : i = i' := by omega
  subst hii
  refine ⟨rfl, ?_⟩
  have h' : (toString "slack_" ++ toString (s!"c{i}" : String) ++ toString "_") ++ toString a
      = (toString "slack_" ++ toString (s!"c{i}" : String) ++ toString "_") ++ toString b := h
  exact toString_nat_inj _ a b h'

theorem slackLabels_disjoint (i i' : Nat) (hne : i ≠ i') (S S' : Nat) : ∀ l ∈ slackLabels s!"c{i}" S, l ∉ slackLabels s!"c{i'}" S' := by
  intro l hl hl'
  unfold slackLabels at hl hl'
  simp only [List.mem_map, List.mem_range] at hl hl'
  obtain ⟨a, _, rfl⟩ := hl
  obtain ⟨b, _, hb⟩ := hl'
  injection hb with hb
  exact hne (slack_name_inj i' i b a hb).1.symm

/-- a label of the shape `slack_c<i>_<j>` — what `cqm_to_bqm` may create -/
def IsSlackName (l : Label) : Prop := ∃ (i S : Nat), l ∈ slackLabels s!"c{i}" S

theorem consSlack_sub (vars : List (Label × VKind)) (i : Nat) (c : Cons) : ∀ l ∈ consSlack vars i c, ∃ S, l ∈ slackLabels s!"c{i}" S := by
  intro l hl
  unfold consSlack at hl
  split at hl
  · simp at hl
  · split at hl
    · exact ⟨_, hl⟩
    · simp at hl

theorem consSlack_nodup (vars : List (Label × VKind)) (i : Nat) (c : Cons) : (consSlack vars i c).Nodup := by
  unfold consSlack
  split
  · exact List.nodup_nil
  · split
    · exact slackLabels_nodup _ _
    · exact List.nodup_nil

theorem slackAll_index (vars : List (Label × VKind)) (i : Nat) (cons : List Cons) :
    ∀ l ∈ slackAll vars i cons, ∃ i' S, i ≤ i' ∧ l ∈ slackLabels s!"c{i'}" S := by
  induction cons generalizing i with
  | nil => intro l hl; simp [slackAll] at hl
  | cons c r ih =>
    intro l hl
    simp only [slackAll, List.mem_append] at hl
    rcases hl with hl | hl
    · obtain ⟨S, hS⟩ := consSlack_sub vars i c l hl
      exact ⟨i, S, Nat.le_refl _, hS⟩
    · obtain ⟨i', S, hle, hS⟩ := ih (i + 1) l hl
      exact ⟨i', S, by omega, hS⟩

/-- **the separation hypothesis holds for the labels as generated**, given only that no protected label has the shape
    of a generated slack name -/
theorem sep_of_generated (vars : List (Label × VKind)) (P : List Label) (hP : ∀ l ∈ P, ¬ IsSlackName l) (i : Nat) (cons : List Cons) :
    Sep vars P i cons := by
  induction cons generalizing i with
  | nil => trivial
  | cons c r ih =>
    refine ⟨consSlack_nodup vars i c, ?_, ih (i + 1)⟩
    intro l hl
    obtain ⟨S, hS⟩ := consSlack_sub vars i c l hl
    refine ⟨fun hp => hP l hp ⟨i, S, hS⟩, ?_⟩
    intro hm
    obtain ⟨i', S', hle, hS'⟩ := slackAll_index vars (i + 1) r l hm
    exact slackLabels_disjoint i i' (by omega) S S' l hS hS'

/-- the labels of the CQM's own bits: everything in the objective's bag and in the constraints' integer terms -/
def ownLabels (q : CQM) : List Label :=
  bagLabels (qmToBag q.vars q.obj) ++ q.cons.flatMap (fun c => (intTerms q.vars c).map (·.1))

theorem cqmToBqm_feasible_generated (q : CQM) (lam : Rat) (hlam : 0 ≤ lam) (b : Bq Label) (h : cqmToBqm q (some lam) = .ok (b, lam))
    (hint : ∀ c ∈ q.cons, IntCons' q.vars c)
    (hfresh : ∀ l ∈ ownLabels q, ¬ IsSlackName l)
    (z : Label → Int) (hz : Bin01 z) (hsat : ∀ c ∈ q.cons, c.holdsAt (decode q.vars (toRat z))) :
    ∃ z', Bin01 z' ∧ (∀ v, v ∉ slackAll q.vars 0 q.cons → z' v = z v)
      ∧ b.energy (toRat z') = qmEnergy (decode q.vars (toRat z)) q.obj := by
  apply cqmToBqm_feasible q lam hlam b h hint (ownLabels q) ?_ ?_ (sep_of_generated q.vars (ownLabels q) hfresh 0 q.cons) z hz hsat
  · intro c hc t ht
    unfold ownLabels
    apply List.mem_append_right
    exact List.mem_flatMap.2 ⟨c, hc, List.mem_map.2 ⟨t, ht, rfl⟩⟩
  · intro l hl
    exact List.mem_append_left _ hl

end Pen
