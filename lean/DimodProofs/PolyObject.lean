import DimodProofs.BKInv
import DimodModel.PolyObject
import Mathlib.Data.List.Perm.Basic
import Mathlib.Data.List.Nodup

/-! # C15: the `BinaryPolynomial` object under mutation (helper lemmas) -/

namespace Red
open Pen

theorem dedup_of_nodup (t : List Label) (h : t.Nodup) : dedup t = t := by
  induction t with
  | nil => rfl
  | cons v r ih =>
    simp only [List.nodup_cons] at h
    simp only [dedup]
    have hc : r.contains v = false := by
      simp only [List.contains_eq_mem, decide_eq_false_iff_not]; exact h.1
    rw [hc]; simp [ih h.2]

theorem filter_eq_length_one (t : List Label) (h : t.Nodup) (v : Label) (hv : v ∈ t) :
    (t.filter (· = v)).length = 1 := by
  induction t with
  | nil => simp at hv
  | cons a r ih =>
    simp only [List.nodup_cons] at h
    by_cases hav : a = v
    · subst hav
      have hnil : r.filter (· = a) = [] := by
        rw [List.filter_eq_nil_iff]
        intro b hb
        simp only [decide_eq_true_eq]
        intro hba; subst hba; exact h.1 hb
      simp [List.filter_cons, hnil]
    · have hv' : v ∈ r := by
        simp only [List.mem_cons] at hv
        rcases hv with h' | h'
        · exact absurd h'.symm hav
        · exact h'
      simp [List.filter_cons, hav, ih h.2 hv']

theorem normTerm_of_nodup (vt : VT) (t : List Label) (h : t.Nodup) : normTerm vt t = t := by
  cases vt with
  | binary => exact dedup_of_nodup t h
  | spin =>
    simp only [normTerm, dedup_of_nodup t h]
    rw [List.filter_eq_self]
    intro v hv
    simp [filter_eq_length_one t h v hv]

theorem addTerm_fresh (acc : List (LTerm × Rat)) (t : LTerm) (b : Rat) (h : ∀ e ∈ acc, sameSet e.1 t = false) :
    addTerm acc t b = acc ++ [(t, b)] := by
  induction acc with
  | nil => rfl
  | cons e r ih =>
    simp only [addTerm, h e (by simp), Bool.false_eq_true, if_false, List.cons_append, List.cons.injEq, true_and]
    exact ih (fun e' he' => h e' (by simp [he']))

/-- **a well-formed term list is a fixed point of `BinaryPolynomial.__init__`**: the reductions applied to the
    `items()` of a polynomial object reduce exactly those terms -/
theorem normPoly_of_ok (vt : VT) (s : List (LTerm × Rat)) (h : TermsOK s) : normPoly vt s = s := by
  unfold normPoly
  have key : ∀ (r acc : List (LTerm × Rat)), TermsOK (acc ++ r) →
      r.foldl (fun acc tb => addTerm acc (normTerm vt tb.1) tb.2) acc = acc ++ r := by
    intro r
    induction r with
    | nil => intro acc _; simp
    | cons e r ih =>
      intro acc hok
      simp only [List.foldl_cons]
      have hnd : e.1.Nodup := hok.1 e (by simp)
      rw [normTerm_of_nodup vt e.1 hnd]
      have hfresh : ∀ a ∈ acc, sameSet a.1 e.1 = false := by
        intro a ha
        have hp := hok.2
        rw [List.pairwise_append] at hp
        exact hp.2.2 a ha e (by simp)
      rw [addTerm_fresh acc e.1 e.2 hfresh]
      have hre : acc ++ [(e.1, e.2)] ++ r = acc ++ e :: r := by simp
      rw [ih (acc ++ [(e.1, e.2)]) (by rw [hre]; exact hok)]
      exact hre
  simpa using key s [] (by simpa using h)

/-! ## the mutations keep the dict well-formed -/

theorem objSet_keys (k : LTerm) (b : Rat) (l : PolyState) (tb : LTerm × Rat) (h : tb ∈ objSet l k b) :
    (∃ e' ∈ l, tb.1 = e'.1) ∨ tb.1 = k := by
  induction l with
  | nil => simp only [objSet, List.mem_singleton] at h; right; rw [h]
  | cons a l' ihl =>
    simp only [objSet] at h
    split at h
    · simp only [List.mem_cons] at h
      rcases h with h | h
      · left; exact ⟨a, by simp, by rw [h]⟩
      · left; exact ⟨tb, by simp [h], rfl⟩
    · simp only [List.mem_cons] at h
      rcases h with h | h
      · left; exact ⟨a, by simp, by rw [h]⟩
      · rcases ihl h with ⟨e', he', h'⟩ | h'
        · left; exact ⟨e', by simp [he'], h'⟩
        · right; exact h'

theorem objSet_ok (l : PolyState) (hl : TermsOK l) (k : LTerm) (hk : k.Nodup) (b : Rat) : TermsOK (objSet l k b) := by
  refine ⟨?_, ?_⟩
  · intro tb h
    rcases objSet_keys k b l tb h with ⟨e', he', h'⟩ | h'
    · rw [h']; exact hl.1 e' he'
    · rw [h']; exact hk
  · have hp := hl.2
    clear hl
    induction l with
    | nil => simp [objSet]
    | cons e r ih =>
      simp only [List.pairwise_cons] at hp
      simp only [objSet]
      split
      · simp only [List.pairwise_cons]; exact hp
      · rename_i hne
        simp only [List.pairwise_cons]
        refine ⟨?_, ih hp.2⟩
        intro tb htb
        rcases objSet_keys k b r tb htb with ⟨e', he', h'⟩ | h'
        · rw [h']; exact hp.1 e' he'
        · rw [h']; simpa using hne

theorem objDel_ok (l : PolyState) (hl : TermsOK l) (k : LTerm) : TermsOK (objDel l k) :=
  ⟨fun tb h => hl.1 tb (List.mem_of_mem_filter h), hl.2.filter _⟩

theorem scaleEntry_fst (c : Rat) (ig : List LTerm) (e : LTerm × Rat) :
    (if isIgnored ig e.1 then e else (e.1, e.2 * c)).1 = e.1 := by
  split <;> rfl

theorem scaleTerms_ok (c : Rat) (ig : List LTerm) (s : PolyState) (h : TermsOK s) : TermsOK (scaleTerms c ig s) := by
  refine ⟨?_, ?_⟩
  · intro tb htb
    simp only [scaleTerms, List.mem_map] at htb
    obtain ⟨e, he, rfl⟩ := htb
    rw [scaleEntry_fst]; exact h.1 e he
  · simp only [scaleTerms, List.pairwise_map]
    refine h.2.imp ?_
    intro a b hab
    rw [scaleEntry_fst, scaleEntry_fst]; exact hab

theorem asKey_nodup (t : List Label) : (asKey t).Nodup := dedup_nodup t

theorem relabelStep_ok (m : List (Label × Label)) (s : PolyState) (hs : TermsOK s) : TermsOK (relabelStep m s) := by
  unfold relabelStep
  have key : ∀ (l acc : PolyState), TermsOK acc →
      TermsOK (l.foldl (fun acc e => let nt := relabelTerm m e.1
                                     if sameSet nt e.1 then acc else objDel (objSet acc nt e.2) e.1) acc) := by
    intro l
    induction l with
    | nil => intro acc h; exact h
    | cons e r ih =>
      intro acc h
      simp only [List.foldl_cons]
      apply ih
      split
      · exact h
      · exact objDel_ok _ (objSet_ok acc h _ (dedup_nodup _) _) _
  exact key s s hs

theorem applyOp_ok (s s' : PolyState) (op : PolyOp) (hs : TermsOK s) (h : applyOp s op = .ok s') : TermsOK s' := by
  cases op with
  | setItem t b =>
    simp only [applyOp, Except.ok.injEq] at h; subst h
    exact objSet_ok s hs _ (asKey_nodup t) b
  | addItem t b =>
    simp only [applyOp] at h
    split at h
    · simp only [Except.ok.injEq] at h; subst h; exact objSet_ok s hs _ (asKey_nodup t) _
    · simp at h
  | delItem t =>
    simp only [applyOp] at h
    split at h
    · simp only [Except.ok.injEq] at h; subst h; exact objDel_ok s hs _
    · simp at h
  | popItem =>
    simp only [applyOp] at h
    split at h
    · simp at h
    · simp only [Except.ok.injEq] at h; subst h; exact objDel_ok _ hs _
  | scale c ig =>
    simp only [applyOp, Except.ok.injEq] at h; subst h
    exact scaleTerms_ok c _ s hs
  | normalize rg ig =>
    simp only [applyOp] at h
    split at h
    · simp at h
    · split at h
      · simp only [Except.ok.injEq] at h; subst h; exact hs
      · simp only [Except.ok.injEq] at h; subst h; exact scaleTerms_ok _ _ s hs
  | relabel m =>
    simp only [applyOp] at h
    split at h
    · simp only [Except.ok.injEq] at h; subst h; exact relabelStep_ok _ s hs
    · simp at h
  | relabelVia m =>
    simp only [applyOp, relabelConflict] at h
    split at h
    · simp at h
    · split at h
      · simp at h
      · split at h
        · simp only [Except.ok.injEq] at h; subst h; exact relabelStep_ok _ _ (relabelStep_ok _ s hs)
        · simp at h

theorem runOps_ok (ops : List PolyOp) (s s' : PolyState) (hs : TermsOK s) (h : runOps s ops = .ok s') : TermsOK s' := by
  induction ops generalizing s with
  | nil => simp only [runOps, Except.ok.injEq] at h; subst h; exact hs
  | cons op r ih =>
    simp only [runOps] at h
    split at h
    · rename_i s1 h1
      exact ih s1 (applyOp_ok s s1 op hs h1) h
    · simp at h

/-! ## what the mutations do to the energy -/

theorem scaleTerms_energy_split (x : Label → Rat) (c : Rat) (ig : List LTerm) (s : PolyState) :
    polyEnergy x (scaleTerms c ig s)
      = c * polyEnergy x (s.filter (fun e => !isIgnored ig e.1)) + polyEnergy x (s.filter (fun e => isIgnored ig e.1)) := by
  induction s with
  | nil => simp only [scaleTerms, List.map_nil, List.filter_nil, polyEnergy]; grind
  | cons e r ih =>
    simp only [scaleTerms, List.map_cons] at ih ⊢
    by_cases hi : isIgnored ig e.1 = true
    · simp only [hi, if_true, List.filter_cons, Bool.not_true, Bool.false_eq_true, if_false, polyEnergy, ih]
      grind
    · simp only [Bool.not_eq_true] at hi
      simp only [hi, Bool.false_eq_true, if_false, List.filter_cons, Bool.not_false, if_true, polyEnergy, ih]
      grind

theorem scaleTerms_energy (x : Label → Rat) (c : Rat) (s : PolyState) :
    polyEnergy x (scaleTerms c [] s) = c * polyEnergy x s := by
  rw [scaleTerms_energy_split]
  simp only [isIgnored, List.any_nil, Bool.not_false, List.filter_true, Bool.false_eq_true, List.filter_false, polyEnergy]
  grind

theorem termVal_perm (x : Label → Rat) (a b : LTerm) (h : a.Perm b) : termVal x a = termVal x b := by
  induction h with
  | nil => rfl
  | cons v _ ih => simp only [termVal, ih]
  | swap u v l => simp only [termVal]; grind
  | trans _ _ ih1 ih2 => rw [ih1, ih2]

theorem termVal_sameSet (x : Label → Rat) (a b : LTerm) (ha : a.Nodup) (hb : b.Nodup) (h : sameSet a b = true) :
    termVal x a = termVal x b := by
  apply termVal_perm
  rw [List.perm_ext_iff_of_nodup ha hb]
  intro l
  exact (sameSet_iff a b).1 h l

theorem objDel_none (s : PolyState) (k : LTerm) (h : ∀ e ∈ s, sameSet e.1 k = false) : objDel s k = s := by
  unfold objDel
  rw [List.filter_eq_self]
  intro e he
  simp [h e he]

/-- `del poly[k]` removes `bias · ∏k` from the energy -/
theorem objDel_energy (x : Label → Rat) (s : PolyState) (hs : TermsOK s) (k : LTerm) (hk : k.Nodup) :
    polyEnergy x (objDel s k) = polyEnergy x s - (objGet s k).getD 0 * termVal x k := by
  induction s with
  | nil => simp only [objDel, List.filter_nil, objGet, Option.getD_none, polyEnergy]; grind
  | cons e r ih =>
    have hr : TermsOK r := ⟨fun tb h => hs.1 tb (by simp [h]), (List.pairwise_cons.1 hs.2).2⟩
    by_cases hm : sameSet e.1 k = true
    · have hnone : ∀ e' ∈ r, sameSet e'.1 k = false := by
        intro e' he'
        have h1 := (List.pairwise_cons.1 hs.2).1 e' he'
        cases h2 : sameSet e'.1 k with
        | false => rfl
        | true =>
          have := sameSet_trans e.1 k e'.1 hm (sameSet_symm _ _ h2)
          rw [this] at h1; simp at h1
      have hd : objDel (e :: r) k = r := by
        have := objDel_none r k hnone
        unfold objDel at this ⊢
        simp only [List.filter_cons, hm, Bool.not_true, Bool.false_eq_true, if_false]
        exact this
      rw [hd]
      simp only [objGet, hm, if_true, Option.getD_some, polyEnergy]
      rw [termVal_sameSet x e.1 k (hs.1 e (by simp)) hk hm]
      grind
    · simp only [Bool.not_eq_true] at hm
      have hd : objDel (e :: r) k = e :: objDel r k := by
        unfold objDel
        simp only [List.filter_cons, hm, Bool.not_false, if_true]
      rw [hd]
      simp only [objGet, hm, Bool.false_eq_true, if_false, polyEnergy, ih hr]
      grind

/-- `poly[k] = b` replaces the old contribution of the term by `b · ∏k` -/
theorem objSet_energy (x : Label → Rat) (s : PolyState) (hs : TermsOK s) (k : LTerm) (hk : k.Nodup) (b : Rat) :
    polyEnergy x (objSet s k b) = polyEnergy x s - (objGet s k).getD 0 * termVal x k + b * termVal x k := by
  induction s with
  | nil => simp only [objSet, objGet, Option.getD_none, polyEnergy]; grind
  | cons e r ih =>
    have hr : TermsOK r := ⟨fun tb h => hs.1 tb (by simp [h]), (List.pairwise_cons.1 hs.2).2⟩
    by_cases hm : sameSet e.1 k = true
    · simp only [objSet, objGet, hm, if_true, Option.getD_some, polyEnergy]
      rw [termVal_sameSet x e.1 k (hs.1 e (by simp)) hk hm]
      grind
    · simp only [Bool.not_eq_true] at hm
      simp only [objSet, objGet, hm, Bool.false_eq_true, if_false, polyEnergy, ih hr]
      grind

theorem termVal_map (x : Label → Rat) (f : Label → Label) (t : LTerm) : termVal x (t.map f) = termVal (fun v => x (f v)) t := by
  induction t with
  | nil => rfl
  | cons v r ih => simp only [List.map_cons, termVal, ih]

/-- the relabelled term has the value of the old term at the assignment read through the mapping (mapping injective on the term) -/
theorem relabelTerm_value (x : Label → Rat) (m : List (Label × Label)) (t : LTerm) (hinj : (t.map (mapLabel m)).Nodup) :
    termVal x (relabelTerm m t) = termVal (fun v => x (mapLabel m v)) t := by
  unfold relabelTerm
  rw [dedup_of_nodup _ hinj, termVal_map]

end Red
