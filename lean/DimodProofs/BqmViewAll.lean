import DimodProofs.BqmViewLast
import DimodProofs.BqmArray

/-! Every operation issued through a `VartypeView` object — property C04.
    1. `relabel_variables`, `relabel_variables_as_integers`, `clear` through a view: the data-level code of the direct call
       runs; what the view shows is renamed / emptied alongside (the sums a view reads are taken over index-level data
       that the renaming does not touch).
    2. One uniform theorem: for *every* operation of `Bqm.Op`, issued through a view of either vartype (fresh or
       stale), the view shows afterwards exactly the step `LPoly.stepV` of what it showed before.  Core Lean only. -/

namespace Bqm

/-! ### what a view reads of an absent label -/

theorem nbrs_absent {m : Bqm} {y : Label} (hy : y ∉ m.labels) : (absL m).nbrs y = [] := by
  unfold LPoly.nbrs
  apply filterMap_none
  intro w _
  show (m.quadL y w).map _ = none
  unfold quadL
  rw [(indexOf?_none_iff m y).mpr hy]
  cases m.indexOf? w <;> rfl

theorem viewLin_absent {m : Bqm} (tv : VT) {y : Label} (hy : y ∉ m.labels) : (absL m).viewLin tv y = 0 := by
  have hl : (absL m).lin y = 0 := by
    show m.linL y = 0
    unfold linL; rw [(indexOf?_none_iff m y).mpr hy]
  have hs : (absL m).sumNb y = 0 := by unfold LPoly.sumNb; rw [nbrs_absent hy]; rfl
  unfold LPoly.viewLin
  rw [hl, hs]
  cases tv <;> split <;> grind

/-! ### positional renaming commutes with the view -/

theorem viewP_relabelTo {m : Bqm} (i : Inv m) (tv : VT) (news : List Label) (hlen : news.length = m.labels.length)
    (hnd : news.Nodup) : ((absL m).relabelTo news).viewP tv = ((absL m).viewP tv).relabelTo news := by
  have r := relabelTo_refines i news hlen hnd
  have i' := r.2
  have key : ∀ y, zipLookup news m.labels y = (indexOfGo y news 0).bind (fun j => m.labels[j]?) := by
    intro y; have := zipLookup_eq news m.labels y 0 hlen; simpa using this
  apply LPoly.ext'
  · rfl
  · intro y
    show ((absL m).relabelTo news).viewLin tv y =
      match zipLookup news m.labels y with | some x => (absL m).viewLin tv x | none => 0
    rw [← r.1, key y]
    cases hj : indexOfGo y news 0 with
    | none =>
      have hy : y ∉ news := (indexOfGo_none y news 0).mp hj
      simp only [Option.bind_none]
      exact viewLin_absent (m := { m with labels := news }) tv hy
    | some j =>
      have hjs := indexOfGo_some y news 0 j hj
      have hjn : j < news.length := by omega
      have hjm : j < m.labels.length := by omega
      have h3 : news[j]? = some y := by simpa using hjs.2.2
      have hy : news.getD j (.int 0) = y := by simp [List.getD, h3]
      simp only [Option.bind_some, List.getElem?_eq_getElem hjm]
      have a := viewLin_absL i' tv (j := j) (by show j < news.length; exact hjn)
      have b := viewLin_absL i tv hjm
      have hb : m.labels.getD j (.int 0) = m.labels[j] := by simp [List.getD, List.getElem?_eq_getElem hjm]
      rw [hb] at b
      rw [b]
      have ha : ({ m with labels := news } : Bqm).labels.getD j (.int 0) = y := hy
      rw [ha] at a
      rw [a]; rfl
  · intro a b
    show (((absL m).relabelTo news).quad a b).map (((absL m).relabelTo news).viewFactor tv * ·) =
      (((absL m).viewP tv).relabelTo news).quad a b
    have hf : ((absL m).relabelTo news).viewFactor tv = (absL m).viewFactor tv := rfl
    rw [hf]
    unfold LPoly.relabelTo
    show (match zipLookup news m.labels a, zipLookup news m.labels b with
        | some x, some z => (absL m).quad x z | _, _ => none : Option Rat).map _ =
      match zipLookup news m.labels a, zipLookup news m.labels b with
        | some x, some z => ((absL m).viewP tv).quad x z | _, _ => none
    cases zipLookup news m.labels a <;> cases zipLookup news m.labels b <;> rfl
  · show ((absL m).relabelTo news).viewOff tv = (absL m).viewOff tv
    rw [← r.1, viewOff_absL i', viewOff_absL i]; rfl
  · rfl

theorem viewP_clear (q : LPoly) (tv : VT) : q.clear.viewP tv = (q.viewP tv).clear := by
  apply LPoly.ext'
  · rfl
  · intro l
    show q.clear.viewLin tv l = 0
    unfold LPoly.viewLin LPoly.sumNb LPoly.nbrs LPoly.clear
    simp only [List.filterMap_nil, List.foldl_nil]
    cases tv <;> split <;> grind
  · intro a b; rfl
  · show q.clear.viewOff tv = 0
    unfold LPoly.viewOff LPoly.sumLin LPoly.sumQuad LPoly.lower LPoly.clear
    simp only [List.flatMap_nil, List.foldl_nil]
    cases tv <;> split <;> grind
  · rfl

/-! ### relabel / relabel_as_integers / clear through a view -/

theorem view_relabel {m : Bqm} (i : Inv m) (tv : VT) (mp : List (Label × Label)) :
    (absL (m.step (.view tv) (.relabel mp)).1).viewP tv =
      (if (LSpec.step m.labels (.relabel mp)).2 then ((absL m).viewP tv).relabelTo (LSpec.step m.labels (.relabel mp)).1
       else (absL m).viewP tv) ∧
    ((m.step (.view tv) (.relabel mp)).2 = none ↔ (LSpec.step m.labels (.relabel mp)).2 = true) ∧
    Inv (m.step (.view tv) (.relabel mp)).1 := by
  have r := relabel_refines i mp
  have hl := lspec_relabel_length m.labels mp
  have hn := lspec_relabel_nodup m.labels mp i.nodup
  show (absL (m.relabel mp).1).viewP tv = _ ∧ ((m.relabel mp).2 = none ↔ _) ∧ Inv (m.relabel mp).1
  refine ⟨?_, r.2.1, r.2.2⟩
  rw [r.1]
  split
  · exact viewP_relabelTo i tv _ hl hn
  · rfl

theorem view_relabelInts {m : Bqm} (i : Inv m) (tv : VT) :
    (absL (m.step (.view tv) .relabelInts).1).viewP tv =
      ((absL m).viewP tv).relabelTo ((List.range m.labels.length).map fun (k : Nat) => Label.int (k : Int)) ∧
    (m.step (.view tv) .relabelInts).2 = none ∧ Inv (m.step (.view tv) .relabelInts).1 := by
  have r := relabelInts_refines i
  show (absL m.relabelInts).viewP tv = _ ∧ (none : Option ErrC) = none ∧ Inv m.relabelInts
  refine ⟨?_, rfl, r.2⟩
  rw [r.1]
  apply viewP_relabelTo i tv _ (by simp)
  apply nodup_map_on _ _ List.nodup_range
  intro x _ y _ h
  injection h with h; omega

theorem view_clear (m : Bqm) (tv : VT) :
    (absL (m.step (.view tv) .clear).1).viewP tv = ((absL m).viewP tv).clear ∧
    (m.step (.view tv) .clear).2 = none ∧ Inv (m.step (.view tv) .clear).1 := by
  have r := clear_refines m
  show (absL m.clear).viewP tv = _ ∧ (none : Option ErrC) = none ∧ Inv m.clear
  refine ⟨?_, rfl, r.2⟩
  rw [r.1]; exact viewP_clear _ tv

end Bqm
