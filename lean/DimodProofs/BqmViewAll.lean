import DimodProofs.BqmViewLast
import DimodProofs.BqmArray

/-! Every operation issued through a `VartypeView` object — property C04.
    1. `relabel_variables`, `relabel_variables_as_integers`, `clear` through a view: the data-level code of the direct call
       runs; what the view shows is renamed / emptied alongside (the sums a view reads are taken over index-level data
       that the renaming does not touch).
    2. One uniform theorem: for *every* operation of `Bqm.Op`, issued through a view of either vartype (fresh or
       stale), the view shows afterwards exactly the step `LPoly.stepV` of what it showed before.  Core Lean only. -/

namespace Bqm

/-! ### what a view reads of an absent label -/

theorem nbrs_absent {m : Bqm} {y : Label} (hy : y ∉ m.labels) : (absL m).nbrs y = [] := by
  unfold LPoly.nbrs
  apply filterMap_none
  intro w _
  show (m.quadL y w).map _ = none
  unfold quadL
  rw [(indexOf?_none_iff m y).mpr hy]
  cases m.indexOf? w <;> rfl

theorem viewLin_absent {m : Bqm} (tv : VT) {y : Label} (hy : y ∉ m.labels) : (absL m).viewLin tv y = 0 := by
  have hl : (absL m).lin y = 0 := by
    show m.linL y = 0
    unfold linL; rw [(indexOf?_none_iff m y).mpr hy]
  have hs : (absL m).sumNb y = 0 := by unfold LPoly.sumNb; rw [nbrs_absent hy]; rfl
  unfold LPoly.viewLin
  rw [hl, hs]
  cases tv <;> split <;> grind

/-! ### positional renaming commutes with the view -/

theorem viewP_relabelTo {m : Bqm} (i : Inv m) (tv : VT) (news : List Label) (hlen : news.length = m.labels.length)
    (hnd : news.Nodup) : ((absL m).relabelTo news).viewP tv = ((absL m).viewP tv).relabelTo news := by
  have r := relabelTo_refines i news hlen hnd
  have i' := r.2
  have key : ∀ y, zipLookup news m.labels y = (indexOfGo y news 0).bind (fun j => m.labels[j]?) := by
    intro y; have := zipLookup_eq news m.labels y 0 hlen; simpa using this
  apply LPoly.ext'
  · rfl
  · intro y
    show ((absL m).relabelTo news).viewLin tv y =
      match zipLookup news m.labels y with | some x => (absL m).viewLin tv x | none => 0
    rw [← r.1, key y]
    cases hj : indexOfGo y news 0 with
    | none =>
      have hy : y ∉ news := (indexOfGo_none y news 0).mp hj
      simp only [Option.bind_none]
      exact viewLin_absent (m := { m with labels := news }) tv hy
    | some j =>
      have hjs := indexOfGo_some y news 0 j hj
      have hjn : j < news.length := by omega
      have hjm : j < m.labels.length := by omega
      have h3 : news[j]? = some y := by simpa using hjs.2.2
      have hy : news.getD j (.int 0) = y := by simp [List.getD, h3]
      simp only [Option.bind_some, List.getElem?_eq_getElem hjm]
      have a := viewLin_absL i' tv (j := j) (by show j < news.length; exact hjn)
      have b := viewLin_absL i tv hjm
      have hb : m.labels.getD j (.int 0) = m.labels[j] := by simp [List.getD, List.getElem?_eq_getElem hjm]
      rw [hb] at b
      rw [b]
      have ha : ({ m with labels := news } : Bqm).labels.getD j (.int 0) = y := hy
      rw [ha] at a
      rw [a]; rfl
  · intro a b
    show (((absL m).relabelTo news).quad a b).map (((absL m).relabelTo news).viewFactor tv * ·) =
      (((absL m).viewP tv).relabelTo news).quad a b
    have hf : ((absL m).relabelTo news).viewFactor tv = (absL m).viewFactor tv := rfl
    rw [hf]
    unfold LPoly.relabelTo
    show (match zipLookup news m.labels a, zipLookup news m.labels b with
        | some x, some z => (absL m).quad x z | _, _ => none : Option Rat).map _ =
      match zipLookup news m.labels a, zipLookup news m.labels b with
        | some x, some z => ((absL m).viewP tv).quad x z | _, _ => none
    cases zipLookup news m.labels a <;> cases zipLookup news m.labels b <;> rfl
  · show ((absL m).relabelTo news).viewOff tv = (absL m).viewOff tv
    rw [← r.1, viewOff_absL i', viewOff_absL i]; rfl
  · rfl

theorem viewP_clear (q : LPoly) (tv : VT) : q.clear.viewP tv = (q.viewP tv).clear := by
  apply LPoly.ext'
  · rfl
  · intro l
    show q.clear.viewLin tv l = 0
    unfold LPoly.viewLin LPoly.sumNb LPoly.nbrs LPoly.clear
    simp only [List.filterMap_nil, List.foldl_nil]
    cases tv <;> split <;> grind
  · intro a b; rfl
  · show q.clear.viewOff tv = 0
    unfold LPoly.viewOff LPoly.sumLin LPoly.sumQuad LPoly.lower LPoly.clear
    simp only [List.flatMap_nil, List.foldl_nil]
    cases tv <;> split <;> grind
  · rfl

/-! ### relabel / relabel_as_integers / clear through a view -/

theorem view_relabel {m : Bqm} (i : Inv m) (tv : VT) (mp : List (Label × Label)) :
    (absL (m.step (.view tv) (.relabel mp)).1).viewP tv =
      (if (LSpec.step m.labels (.relabel mp)).2 then ((absL m).viewP tv).relabelTo (LSpec.step m.labels (.relabel mp)).1
       else (absL m).viewP tv) ∧
    ((m.step (.view tv) (.relabel mp)).2 = none ↔ (LSpec.step m.labels (.relabel mp)).2 = true) ∧
    Inv (m.step (.view tv) (.relabel mp)).1 := by
  have r := relabel_refines i mp
  have hl := lspec_relabel_length m.labels mp
  have hn := lspec_relabel_nodup m.labels mp i.nodup
  show (absL (m.relabel mp).1).viewP tv = _ ∧ ((m.relabel mp).2 = none ↔ _) ∧ Inv (m.relabel mp).1
  refine ⟨?_, r.2.1, r.2.2⟩
  rw [r.1]
  split
  · exact viewP_relabelTo i tv _ hl hn
  · rfl

theorem view_relabelInts {m : Bqm} (i : Inv m) (tv : VT) :
    (absL (m.step (.view tv) .relabelInts).1).viewP tv =
      ((absL m).viewP tv).relabelTo ((List.range m.labels.length).map fun (k : Nat) => Label.int (k : Int)) ∧
    (m.step (.view tv) .relabelInts).2 = none ∧ Inv (m.step (.view tv) .relabelInts).1 := by
  have r := relabelInts_refines i
  show (absL m.relabelInts).viewP tv = _ ∧ (none : Option ErrC) = none ∧ Inv m.relabelInts
  refine ⟨?_, rfl, r.2⟩
  rw [r.1]
  apply viewP_relabelTo i tv _ (by simp)
  apply nodup_map_on _ _ List.nodup_range
  intro x _ y _ h
  injection h with h; omega

theorem view_clear (m : Bqm) (tv : VT) :
    (absL (m.step (.view tv) .clear).1).viewP tv = ((absL m).viewP tv).clear ∧
    (m.step (.view tv) .clear).2 = none ∧ Inv (m.step (.view tv) .clear).1 := by
  have r := clear_refines m
  show (absL m.clear).viewP tv = _ ∧ (none : Option ErrC) = none ∧ Inv m.clear
  refine ⟨?_, rfl, r.2⟩
  rw [r.1]; exact viewP_clear _ tv

/-! ### one uniform step theorem for a view of the other vartype -/

/-- one call issued through a `VartypeView` object, as a step on the polynomial the view shows: the algebraic step of the
    call on the model itself (`LPoly.stepD`) — except that a view object has no `resize`, `add_linear_from_array`,
    `add_quadratic_from_dense` (AttributeError / TypeError: undefined) and that `change_vartype` on a view object only
    re-tags that object (nothing the view of vartype `tv` shows changes) -/
def LPoly.stepV (p : LPoly) (op : Op) : LPoly × Bool :=
  match op with
  | .resize _ => (p, false)
  | .addLinearFromArray _ => (p, false)
  | .addQuadraticFromDense _ _ => (p, false)
  | .changeVartype _ => (p, true)
  | op => p.stepD op

theorem flag_err {x : Bqm × Option ErrC} {y : LPoly × Bool} (e : ErrC) (hx : x.2 = some e) (hy : y.2 = false) :
    (x.2 = none ↔ y.2 = true) := by rw [hx, hy]; simp

theorem flag_ok {x : Bqm × Option ErrC} {y : LPoly × Bool} (hx : x.2 = none) (hy : y.2 = true) :
    (x.2 = none ↔ y.2 = true) := by rw [hx, hy]; simp

theorem mem_of_index {m : Bqm} {v : Label} {k : Nat} (h : m.indexOf? v = some k) : v ∈ m.labels :=
  (mem_labels_iff m v).mpr ⟨k, h⟩

theorem not_mem_of_index {m : Bqm} {v : Label} (h : m.indexOf? v = none) : v ∉ m.labels :=
  (indexOf?_none_iff m v).mp h

/-! ### the data's vartype is kept by the composite methods (needed for a stale view: `tv = m.vt`) -/

theorem vt_removeVariable (m : Bqm) (v : Option Label) : (m.removeVariable v).1.vt = m.vt := by
  unfold Bqm.removeVariable
  cases v with
  | none => simp only []; split <;> rfl
  | some v => simp only []; split <;> rfl

theorem vt_vSetLinear (m : Bqm) (tv : VT) (v : Label) (b : Rat) : (m.vSetLinear tv v b).vt = m.vt := by
  unfold Bqm.vSetLinear
  split
  · exact vt_setLinear m v b
  · simp only []
    split
    · rw [vt_vAddLinear]
    · rw [vt_vAddLinear, vt_vAddLinear]

theorem vt_vRemoveVariable (m : Bqm) (tv : VT) (v : Option Label) : (m.vRemoveVariable tv v).1.vt = m.vt := by
  unfold Bqm.vRemoveVariable
  split
  · exact vt_removeVariable m v
  · simp only []
    split
    · rfl
    · split
      · rfl
      · rw [vt_removeVariable, vt_vSetLinear, loop_vt]
        intro acc l c; exact vt_vSetQuadratic acc tv l _ 0

theorem vt_fixFold (tv : VT) (a f : Rat) (items : List (Nat × Rat)) (acc : Bqm) :
    (items.foldl (fixStep tv a f) acc).vt = acc.vt := by
  induction items generalizing acc with
  | nil => rfl
  | cons p t ih =>
    simp only [List.foldl]
    rw [ih]
    unfold fixStep
    split
    · exact vt_vAddLinear _ _ _ _
    · rfl

theorem vt_vFixVariable (m : Bqm) (tv : VT) (v : Label) (a : Rat) : (m.vFixVariable tv v a).1.vt = m.vt := by
  unfold Bqm.vFixVariable
  split
  · rfl
  · simp only []
    rw [vt_vRemoveVariable, vt_vSetOffset, vt_fixFold]

theorem vt_vContract (m : Bqm) (tv : VT) (u v : Label) : (m.vContract tv u v).1.vt = m.vt := by
  unfold Bqm.vContract
  split
  · split
    · rfl
    · simp only []
      rw [vt_vRemoveVariable, loop_vt _ (fun acc l c => vt_vAddQuadratic acc tv u l _), vt_vRemoveInteraction]
      cases tv
      · rw [vt_vSetOffset, vt_vAddLinear]
      · rw [vt_vAddLinear, vt_vAddLinear]
  · rfl

/-- a stale view (`tv = m.vt`) of an operation whose code is that of the call on the model itself -/
theorem stale_via_direct {m : Bqm} (i : Inv m) (op : Op) (ha : Direct op)
    (hsame : m.step (.view m.vt) op = m.step .direct op) (hspec : ∀ p : LPoly, p.stepV op = p.stepD op)
    (hvt : (m.step .direct op).1.vt = m.vt) :
    (absL (m.step (.view m.vt) op).1).viewP m.vt = (((absL m).viewP m.vt).stepV op).1 ∧
    ((m.step (.view m.vt) op).2 = none ↔ (((absL m).viewP m.vt).stepV op).2 = true) ∧
    Inv (m.step (.view m.vt) op).1 := by
  have s := step_refinesD i ha
  rw [hsame, hspec]
  have e1 : (absL m).viewP m.vt = absL m := viewP_self (absL m)
  have e2 : (absL (m.step .direct op).1).viewP m.vt = absL (m.step .direct op).1 := by
    have := viewP_self (absL (m.step .direct op).1)
    rw [absL_vt, hvt] at this; exact this
  rw [e1, e2]; exact s

/-- **Every operation through a `VartypeView` object** of either vartype — a view of the other vartype (`tv ≠ m.vt`) or a
    stale view object whose tag equals the data's vartype: the view shows afterwards exactly `LPoly.stepV` of what it
    showed before, the call raises exactly when that step is undefined, and the invariant is kept.  Only side condition:
    the argument of `update` is a well-formed model. -/
theorem view_step {m : Bqm} (i : Inv m) (tv : VT) (op : Op) (ha : Direct op) :
    (absL (m.step (.view tv) op).1).viewP tv = (((absL m).viewP tv).stepV op).1 ∧
    ((m.step (.view tv) op).2 = none ↔ (((absL m).viewP tv).stepV op).2 = true) ∧
    Inv (m.step (.view tv) op).1 := by
  cases op with
  | malformed => exact ⟨rfl, flag_err .type rfl rfl, i⟩
  | addLinear v b =>
    cases v with
    | none => exact ⟨rfl, flag_err .value rfl rfl, i⟩
    | some v => have r := view_addLinear i tv v b; exact ⟨r.1, flag_ok rfl rfl, r.2⟩
  | setLinear v b =>
    cases v with
    | none => exact ⟨rfl, flag_err .value rfl rfl, i⟩
    | some v => have r := view_setLinear i tv v b; exact ⟨r.1, flag_ok rfl rfl, r.2⟩
  | addQuadratic u v b =>
    cases u with
    | none => exact ⟨rfl, flag_err .value rfl rfl, i⟩
    | some u =>
      cases v with
      | none => exact ⟨rfl, flag_err .value rfl rfl, i⟩
      | some v =>
        by_cases h : u = v
        · have e1 : m.step (.view tv) (.addQuadratic (some u) (some v) b) = (m, some .value) := by
            simp only [Bqm.step, h, if_true]
          have e2 : ((absL m).viewP tv).stepV (.addQuadratic (some u) (some v) b) = ((absL m).viewP tv, false) := by
            show (if u = v then _ else _) = _
            rw [if_pos h]
          rw [e1, e2]; exact ⟨rfl, flag_err .value rfl rfl, i⟩
        · have e1 : m.step (.view tv) (.addQuadratic (some u) (some v) b) = (m.vAddQuadratic tv u v b, none) := by
            simp only [Bqm.step, Via.tv, h, if_false, Bqm.lift]
          have e2 : ((absL m).viewP tv).stepV (.addQuadratic (some u) (some v) b) =
              (((absL m).viewP tv).quadOp u v b false, true) := by
            show (if u = v then _ else _) = _
            rw [if_neg h]
          have r := view_addQuadratic i tv u v b h
          rw [e1, e2]; exact ⟨r.1, flag_ok rfl rfl, r.2⟩
  | setQuadratic u v b =>
    cases u with
    | none => exact ⟨rfl, flag_err .value rfl rfl, i⟩
    | some u =>
      cases v with
      | none => exact ⟨rfl, flag_err .value rfl rfl, i⟩
      | some v =>
        have e0 : m.step (.view tv) (.setQuadratic (some u) (some v) b) = m.vSetQuadratic tv u v b := rfl
        by_cases h : u = v
        · have e1 : m.vSetQuadratic tv u v b = (m, some .value) := by simp only [Bqm.vSetQuadratic, h, if_true]
          have e2 : ((absL m).viewP tv).stepV (.setQuadratic (some u) (some v) b) = ((absL m).viewP tv, false) := by
            show (if u = v then _ else _) = _
            rw [if_pos h]
          rw [e0, e1, e2]; exact ⟨rfl, flag_err .value rfl rfl, i⟩
        · have e2 : ((absL m).viewP tv).stepV (.setQuadratic (some u) (some v) b) =
              (((absL m).viewP tv).quadOp u v b true, true) := by
            show (if u = v then _ else _) = _
            rw [if_neg h]
          have r := view_setQuadratic i tv u v b h
          rw [e0, e2]; exact ⟨r.1, flag_ok r.2.1 rfl, r.2.2⟩
  | removeInteraction u v =>
    by_cases htv : tv = m.vt
    · subst htv; exact stale_via_direct i _ ha rfl (fun _ => rfl) (vt_vRemoveInteraction m m.vt u v)
    have r := view_removeInteraction i tv u v htv
    have e0 : m.step (.view tv) (.removeInteraction u v) = m.vRemoveInteraction tv u v := rfl
    have e2 : ((absL m).viewP tv).stepV (.removeInteraction u v) =
        if (((absL m).viewP tv).quad u v).isSome then (((absL m).viewP tv).removeInteraction u v, true)
        else ((absL m).viewP tv, false) := rfl
    rw [e0, e2]
    by_cases h : (((absL m).viewP tv).quad u v).isSome
    · rw [if_pos h] at r ⊢
      exact ⟨r.1, ⟨fun _ => rfl, fun _ => r.2.1.mpr h⟩, r.2.2⟩
    · rw [if_neg h] at r ⊢
      refine ⟨r.1, ⟨fun hn => absurd (r.2.1.mp hn) h, fun hn => by cases hn⟩, r.2.2⟩
  | removeVariable v =>
    by_cases htv : tv = m.vt
    · subst htv; exact stale_via_direct i _ ha rfl (fun _ => rfl) (vt_vRemoveVariable m m.vt v)
    cases v with
    | some v =>
      have e0 : m.step (.view tv) (.removeVariable (some v)) = m.vRemoveVariable tv (some v) := rfl
      have e2 : ((absL m).viewP tv).stepV (.removeVariable (some v)) =
          if v ∈ m.labels then (((absL m).viewP tv).removeVariable v, true) else ((absL m).viewP tv, false) := rfl
      rw [e0, e2]
      cases hk : m.indexOf? v with
      | none =>
        have e1 : m.vRemoveVariable tv (some v) = (m, some .value) := by
          simp only [Bqm.vRemoveVariable, if_neg htv, hk]
        rw [e1, if_neg (not_mem_of_index hk)]; exact ⟨rfl, flag_err .value rfl rfl, i⟩
      | some vi =>
        have r := view_removeKey i tv v hk htv
        rw [if_pos (mem_of_index hk)]; exact ⟨r.1, flag_ok r.2.1 rfl, r.2.2⟩
    | none =>
      have e2 : ((absL m).viewP tv).stepV (.removeVariable none) =
          if m.labels = [] then ((absL m).viewP tv, false) else (((absL m).viewP tv).dropLast, true) := rfl
      rw [e2]
      cases hl : m.labels.getLast? with
      | none =>
        have hnil : m.labels = [] := List.getLast?_eq_none_iff.mp hl
        have e1 : m.step (.view tv) (.removeVariable none) = (m, some .value) := by
          rw [view_removeLast_eq m tv htv, hl]
        rw [e1, if_pos hnil]; exact ⟨rfl, flag_err .value rfl rfl, i⟩
      | some l =>
        have hne : m.labels ≠ [] := by intro e; rw [e] at hl; simp at hl
        have r := view_removeLast i tv htv l hl
        have ed : ((absL m).viewP tv).dropLast = ((absL m).viewP tv).removeVariable l := by
          show (match m.labels.getLast? with | some l => _ | none => _) = _
          rw [hl]
        rw [if_neg hne, ed]; exact ⟨r.1, flag_ok r.2.1 rfl, r.2.2⟩
  | addVariable v b =>
    have r := view_addVariable i tv v b
    have e0 : m.step (.view tv) (.addVariable v b) = (m.vAddVariable tv v b, none) := rfl
    rw [e0]
    cases v with
    | some l => exact ⟨r.1, flag_ok rfl rfl, r.2⟩
    | none =>
      have e : m.autoLabel = ((absL m).viewP tv).autoLabel :=
        autoLabel_congr m { vt := .spin, labels := m.labels, lin := [], adj := [], off := 0 } rfl
      have e2 : ((absL m).viewP tv).stepV (.addVariable none b) =
          (((absL m).viewP tv).addLinear ((absL m).viewP tv).autoLabel b, true) := rfl
      rw [e2, ← e]; exact ⟨r.1, flag_ok rfl rfl, r.2⟩
  | resize k => exact ⟨rfl, flag_err .type rfl rfl, i⟩
  | scale s => have r := view_scale i tv s; exact ⟨r.1, flag_ok rfl rfl, r.2⟩
  | setOffset b => have r := view_setOffset i tv b; exact ⟨r.1, flag_ok rfl rfl, r.2⟩
  | changeVartype t => exact ⟨rfl, flag_ok rfl rfl, i⟩
  | fixVariable v a =>
    by_cases htv : tv = m.vt
    · subst htv; exact stale_via_direct i _ ha rfl (fun _ => rfl) (vt_vFixVariable m m.vt v a)
    have e0 : m.step (.view tv) (.fixVariable v a) = m.vFixVariable tv v a := rfl
    have e2 : ((absL m).viewP tv).stepV (.fixVariable v a) =
        if v ∈ m.labels then (((absL m).viewP tv).fixVariable v a, true) else ((absL m).viewP tv, false) := rfl
    rw [e0, e2]
    cases hk : m.indexOf? v with
    | none =>
      have e1 : m.vFixVariable tv v a = (m, some .value) := by simp only [Bqm.vFixVariable, hk]
      rw [e1, if_neg (not_mem_of_index hk)]; exact ⟨rfl, flag_err .value rfl rfl, i⟩
    | some vi =>
      have r := view_fix i tv v a hk htv
      rw [if_pos (mem_of_index hk)]; exact ⟨r.1, flag_ok r.2.1 rfl, r.2.2⟩
  | contract u v =>
    by_cases htv : tv = m.vt
    · subst htv; exact stale_via_direct i _ ha rfl (fun _ => rfl) (vt_vContract m m.vt u v)
    have e0 : m.step (.view tv) (.contract u v) = m.vContract tv u v := rfl
    have e2 : ((absL m).viewP tv).stepV (.contract u v) =
        if u ∈ m.labels ∧ v ∈ m.labels ∧ u ≠ v then (((absL m).viewP tv).contract u v, true)
        else ((absL m).viewP tv, false) := rfl
    rw [e0, e2]
    cases hu : m.indexOf? u with
    | none =>
      have e1 : m.vContract tv u v = (m, some .value) := by simp only [Bqm.vContract, hu]
      rw [e1, if_neg (fun h => not_mem_of_index hu h.1)]; exact ⟨rfl, flag_err .value rfl rfl, i⟩
    | some ui =>
      cases hv : m.indexOf? v with
      | none =>
        have e1 : m.vContract tv u v = (m, some .value) := by simp only [Bqm.vContract, hu, hv]
        rw [e1, if_neg (fun h => not_mem_of_index hv h.2.1)]; exact ⟨rfl, flag_err .value rfl rfl, i⟩
      | some vi =>
        by_cases hne : u = v
        · have hi : ui = vi := by rw [hne] at hu; rw [hu] at hv; exact Option.some.inj hv
          have e1 : m.vContract tv u v = (m, some .value) := by simp only [Bqm.vContract, hu, hv, hi, if_true]
          rw [e1, if_neg (fun h => h.2.2 hne)]; exact ⟨rfl, flag_err .value rfl rfl, i⟩
        · have r := view_contract i tv u v hu hv hne htv
          rw [if_pos ⟨mem_of_index hu, mem_of_index hv, hne⟩]; exact ⟨r.1, flag_ok r.2.1 rfl, r.2.2⟩
  | flip v =>
    have e0 : m.step (.view tv) (.flip v) = m.vFlip tv true v := rfl
    have e2 : ((absL m).viewP tv).stepV (.flip v) =
        if v ∈ m.labels then (((absL m).viewP tv).flip v, true) else ((absL m).viewP tv, false) := rfl
    rw [e0, e2]
    cases hk : m.indexOf? v with
    | none =>
      have e1 : m.vFlip tv true v = (m, some .value) := by simp only [Bqm.vFlip, hk]
      rw [e1, if_neg (not_mem_of_index hk)]; exact ⟨rfl, flag_err .value rfl rfl, i⟩
    | some vi =>
      have r := view_flip i tv v hk
      rw [if_pos (mem_of_index hk)]; exact ⟨r.1, flag_ok r.2.1 rfl, r.2.2⟩
  | relabel mp =>
    have r := view_relabel i tv mp
    have e2 : ((absL m).viewP tv).stepV (.relabel mp) =
        if (LSpec.step m.labels (.relabel mp)).2 then
          (((absL m).viewP tv).relabelTo (LSpec.step m.labels (.relabel mp)).1, true)
        else ((absL m).viewP tv, false) := rfl
    rw [e2]
    by_cases h : (LSpec.step m.labels (.relabel mp)).2 = true
    · rw [if_pos h] at r ⊢
      exact ⟨r.1, ⟨fun _ => rfl, fun _ => r.2.1.mpr h⟩, r.2.2⟩
    · rw [if_neg h] at r ⊢
      exact ⟨r.1, ⟨fun hn => absurd (r.2.1.mp hn) h, fun hn => by cases hn⟩, r.2.2⟩
  | relabelInts => have r := view_relabelInts i tv; exact ⟨r.1, flag_ok r.2.1 rfl, r.2.2⟩
  | clear => have r := view_clear m tv; exact ⟨r.1, flag_ok r.2.1 rfl, r.2.2⟩
  | update o => have r := view_update i ha tv; exact ⟨r.1, flag_ok rfl rfl, r.2⟩
  | addLinearFrom l => exact view_addLinearFrom tv l i
  | addQuadraticFrom l => exact view_addQuadraticFrom tv l i
  | addLinearFromArray xs => exact ⟨rfl, flag_err .type rfl rfl, i⟩
  | addQuadraticFromDense k d => exact ⟨rfl, flag_err .type rfl rfl, i⟩

/-! ### histories mixing calls on the model and through views -/

/-- what one call of a history does, in terms of polynomials: a call on the model itself is the algebraic step
    `LPoly.stepD` on the polynomial the model holds; a call through a view object of vartype `tv` is the step `LPoly.stepV`
    on the polynomial that view shows (before and after); in both cases the call raises exactly when the step is undefined -/
def StepRefines (m : Bqm) : Via → Op → Prop
  | .direct, op =>
    absL (m.step .direct op).1 = ((absL m).stepD op).1 ∧
    ((m.step .direct op).2 = none ↔ ((absL m).stepD op).2 = true)
  | .view tv, op =>
    (absL (m.step (.view tv) op).1).viewP tv = (((absL m).viewP tv).stepV op).1 ∧
    ((m.step (.view tv) op).2 = none ↔ (((absL m).viewP tv).stepV op).2 = true)

/-- every call of the history, from the state the earlier calls left behind -/
def HistoryRefines : Bqm → List (Via × Op) → Prop
  | _, [] => True
  | m, (via, op) :: t => StepRefines m via op ∧ HistoryRefines (m.step via op).1 t

theorem step_refines_any {m : Bqm} (i : Inv m) (via : Via) (op : Op) (ha : Direct op) :
    StepRefines m via op ∧ Inv (m.step via op).1 := by
  cases via with
  | direct => have s := step_refinesD i ha; exact ⟨⟨s.1, s.2.1⟩, s.2.2⟩
  | view tv => have s := view_step i tv op ha; exact ⟨⟨s.1, s.2.1⟩, s.2.2⟩

theorem mixed_history_refines {m : Bqm} (i : Inv m) (ops : List (Via × Op)) (ha : ∀ x ∈ ops, Direct x.2) :
    HistoryRefines m ops ∧ Inv (m.run ops) := by
  induction ops generalizing m with
  | nil => exact ⟨trivial, i⟩
  | cons x t ih =>
    obtain ⟨via, op⟩ := x
    have s := step_refines_any i via op (ha (via, op) (by simp))
    have r := ih s.2 (fun y hy => ha y (List.mem_cons_of_mem _ hy))
    exact ⟨⟨s.1, r.1⟩, r.2⟩

end Bqm
