import DimodModel.FixFront
import DimodProofs.C03Mixin
import DimodProofs.C03Multi
import DimodProofs.C03Copy
import DimodProofs.CqmReindex

/-! # C03 — the Python front of `fix_variables`; the search of `variables_` is the lookup in `indices_` -/

namespace En

variable {R : Type}

/-- one pass over the pairs is the models' recursion over the list of pairs; a pass in which every call is accepted consumes
    everything -/
theorem loopFront_qm [Add R] [Mul R] [Zero R] (m : QmL R) (ps : List (Label × R)) :
    (loopFront (fun (m : QmL R) v a => m.fixVariable v a) m ps).1 = m.fixVariables ps ∧
    ((m.fixVariables ps).2 = true → (loopFront (fun (m : QmL R) v a => m.fixVariable v a) m ps).2 = []) := by
  induction ps generalizing m with
  | nil => simp [loopFront, QmL.fixVariables]
  | cons p t ih =>
    obtain ⟨v, a⟩ := p
    simp only [loopFront, QmL.fixVariables]
    cases h : m.fixVariable v a with
    | none => simp
    | some m' => simpa using ih m'

theorem loopFront_cqm [Add R] [Mul R] [Zero R] [One R] [DecidableEq R] (m : CqmL R) (ps : List (Label × R)) :
    (loopFront (fun (m : CqmL R) v a => m.fixVariable v a) m ps).1 = m.fixVariablesInplace ps ∧
    ((m.fixVariablesInplace ps).2 = true → (loopFront (fun (m : CqmL R) v a => m.fixVariable v a) m ps).2 = []) := by
  induction ps generalizing m with
  | nil => simp [loopFront, CqmL.fixVariablesInplace]
  | cons p t ih =>
    obtain ⟨v, a⟩ := p
    simp only [loopFront, CqmL.fixVariablesInplace]
    cases h : m.fixVariable v a with
    | none => simp
    | some m' => simpa using ih m'

/-- whatever object `fixed` is, the mixin front is the model on the pairs the object yields; an accepted call leaves a one-shot
    iterator exhausted and any other object as it was -/
theorem QmL.fixVariablesFront_eq [Add R] [Mul R] [Zero R] (m : QmL R) (arg : FixedArg R) :
    (m.fixVariablesFront arg).1 = m.fixVariables arg.pairs ∧
    ((m.fixVariables arg.pairs).2 = true → (m.fixVariablesFront arg).2 = arg.after []) := by
  unfold QmL.fixVariablesFront
  obtain ⟨h1, h2⟩ := loopFront_qm m arg.pairs
  refine ⟨h1, ?_⟩
  intro hok
  simp only [h2 hok]

theorem CqmL.fixVariablesInplaceFront_eq [Add R] [Mul R] [Zero R] [One R] [DecidableEq R] (m : CqmL R) (arg : FixedArg R) :
    (m.fixVariablesInplaceFront arg).1 = m.fixVariablesInplace arg.pairs ∧
    ((m.fixVariablesInplace arg.pairs).2 = true → (m.fixVariablesInplaceFront arg).2 = arg.after []) := by
  unfold CqmL.fixVariablesInplaceFront
  obtain ⟨h1, h2⟩ := loopFront_cqm m arg.pairs
  refine ⟨h1, ?_⟩
  intro hok
  simp only [h2 hok]

theorem loopFront_collect (L : List Label) (acc ps : List (Label × R)) :
    (∀ p ∈ ps, (indexOf? L p.1).isSome = true) →
    loopFront (fun (acc : List (Label × R)) v a => (indexOf? L v).map fun _ => acc ++ [(v, a)]) acc ps = ((acc ++ ps, true), []) := by
  induction ps generalizing acc with
  | nil => simp [loopFront]
  | cons p t ih =>
    intro h
    obtain ⟨v, a⟩ := p
    have hv := h (v, a) (by simp)
    obtain ⟨i, hi⟩ := Option.isSome_iff_exists.mp hv
    simp only [loopFront, hi, Option.map_some]
    rw [ih (acc ++ [(v, a)]) (fun p hp => h p (by simp [hp]))]
    simp

theorem loopFront_collect_fail (L : List Label) (acc ps : List (Label × R)) (h : ∃ p ∈ ps, indexOf? L p.1 = none) :
    (loopFront (fun (acc : List (Label × R)) v a => (indexOf? L v).map fun _ => acc ++ [(v, a)]) acc ps).1.2 = false := by
  induction ps generalizing acc with
  | nil => simp at h
  | cons p t ih =>
    obtain ⟨v, a⟩ := p
    simp only [loopFront]
    cases hi : indexOf? L v with
    | none => simp
    | some i =>
      simp only [Option.map_some]
      apply ih
      obtain ⟨q, hq, hn⟩ := h
      rcases List.mem_cons.mp hq with rfl | hq
      · simp [hi] at hn
      · exact ⟨q, hq, hn⟩

theorem mapM_index_none (L : List Label) (ps : List (Label × R)) (h : ∃ p ∈ ps, indexOf? L p.1 = none) :
    (ps.mapM fun p => (indexOf? L p.1).map fun i => (i, p.2)) = none := by
  induction ps with
  | nil => simp at h
  | cons p t ih =>
    simp only [List.mapM_cons]
    cases hi : indexOf? L p.1 with
    | none => simp
    | some i =>
      have : ∃ q ∈ t, indexOf? L q.1 = none := by
        obtain ⟨q, hq, hn⟩ := h
        rcases List.mem_cons.mp hq with rfl | hq
        · simp [hi] at hn
        · exact ⟨q, hq, hn⟩
      simp [ih this]

/-- the copying front: one pass, then the C++ copy — the model on the pairs the object yields -/
theorem CqmL.fixVariablesCopyFront_eq [Add R] [Mul R] [Zero R] [DecidableEq R] (m : CqmL R) (arg : FixedArg R) :
    (m.fixVariablesCopyFront arg).1 = m.fixVariablesCopy arg.pairs := by
  unfold CqmL.fixVariablesCopyFront
  by_cases hall : ∀ p ∈ arg.pairs, (indexOf? m.labels p.1).isSome = true
  · rw [loopFront_collect m.labels [] arg.pairs hall]
    simp
  · have hex : ∃ p ∈ arg.pairs, indexOf? m.labels p.1 = none := by
      by_contra hne
      apply hall
      intro p hp
      cases hi : indexOf? m.labels p.1 with
      | none => exact absurd ⟨p, hp, hi⟩ hne
      | some i => rfl
    have hf := loopFront_collect_fail m.labels [] arg.pairs hex
    simp only [hf]
    unfold CqmL.fixVariablesCopy
    rw [mapM_index_none m.labels arg.pairs hex]
    rfl

/-- **the search of `variables_` is the lookup in `indices_`**: on an expression whose `indices_` map is the inverse of its
    `variables_` (C05's invariant), the left-to-right search the C03 models use returns what `indices_.find` returns -/
theorem localOf?_eq_indices [CommRing R] (vars : List Nat) (idx : AMap Nat Nat) (hnd : vars.Nodup) (hinv : CqmP.IdxInv vars idx)
    (qb : QMB R) (g : Nat) :
    ({ vars := vars, qb := qb } : Expr R).localOf? g = idx.get? g := by
  cases hi : idx.get? g with
  | some i =>
    have : vars[i]? = some g := (hinv g i).mp hi
    exact Expr.localOf_of_getElem ({ vars := vars, qb := qb } : Expr R) hnd g i this
  | none =>
    cases hl : ({ vars := vars, qb := qb } : Expr R).localOf? g with
    | none => rfl
    | some j =>
      have hj := Expr.localOf_some ({ vars := vars, qb := qb } : Expr R) g j hl
      have := (hinv g j).mpr hj
      rw [hi] at this
      cases this

end En
