import DimodModel.PyBqm
import DimodProofs.BqmArray

/-! The dict back-end (`PyB`, model of `pyBQM`) holds a label-keyed polynomial (`absP`), and its data-level primitives
    refine the *same* algebraic steps on `LPoly` as the array back-end.  Core Lean only. -/

namespace PyB
open Bqm (LPoly)

/-! ### insertion-ordered dicts -/

theorem dget_dset {α} (d : List (Label × α)) (k : Label) (x : α) (k' : Label) :
    dget (dset d k x) k' = if k' = k then some x else dget d k' := by
  induction d with
  | nil =>
    simp only [dset, dget]
    by_cases h : k = k'
    · simp [h]
    · have : ¬ k' = k := fun e => h e.symm
      simp [h, this]
  | cons p t ih =>
    obtain ⟨a, y⟩ := p
    simp only [dset]
    by_cases hak : a = k
    · subst hak
      simp only [if_true, dget]
      by_cases h : a = k'
      · subst h; simp
      · have : ¬ k' = a := fun e => h e.symm
        simp [h, this]
    · simp only [hak, if_false, dget]
      by_cases h : a = k'
      · subst h; simp [hak]
      · simp only [h, if_false]; exact ih

theorem keys_dset {α} (d : List (Label × α)) (k : Label) (x : α) :
    keys (dset d k x) = if k ∈ keys d then keys d else keys d ++ [k] := by
  induction d with
  | nil => simp [dset, keys]
  | cons p t ih =>
    obtain ⟨a, y⟩ := p
    simp only [dset]
    by_cases hak : a = k
    · subst hak; simp [keys]
    · have hka : ¬ k = a := fun e => hak e.symm
      simp only [hak, if_false]
      unfold keys at ih ⊢
      simp only [List.map_cons, List.mem_cons, hka, false_or]
      rw [ih]
      split <;> rfl

theorem dget_ddel {α} (d : List (Label × α)) (k k' : Label) :
    dget (ddel d k) k' = if k' = k then none else dget d k' := by
  induction d with
  | nil => simp [ddel, dget]
  | cons p t ih =>
    obtain ⟨a, y⟩ := p
    unfold ddel at ih ⊢
    simp only [List.filter_cons]
    by_cases hak : a = k
    · subst hak
      simp only [ne_eq, not_true_eq_false, decide_false, Bool.false_eq_true, if_false]
      rw [ih]
      by_cases h : k' = a
      · simp [h]
      · have : ¬ a = k' := fun e => h e.symm
        simp [h, dget, this]
    · simp only [ne_eq, hak, not_false_eq_true, decide_true, if_true, dget]
      by_cases h : a = k'
      · subst h; simp [hak]
      · simp only [h, if_false]; exact ih

theorem keys_ddel {α} (d : List (Label × α)) (k : Label) : keys (ddel d k) = (keys d).filter (· ≠ k) := by
  unfold keys ddel
  rw [List.filter_map]
  rfl

theorem dget_isSome_iff {α} (d : List (Label × α)) (k : Label) : (dget d k).isSome ↔ k ∈ keys d := by
  induction d with
  | nil => simp [dget, keys]
  | cons p t ih =>
    obtain ⟨a, y⟩ := p
    unfold keys at ih ⊢
    simp only [dget, List.map_cons, List.mem_cons]
    by_cases h : a = k
    · simp [h]
    · have : ¬ k = a := fun e => h e.symm
      simp only [h, if_false, this, false_or]; exact ih

theorem dget_none_iff {α} (d : List (Label × α)) (k : Label) : dget d k = none ↔ k ∉ keys d := by
  rw [← dget_isSome_iff]
  cases dget d k <;> simp

theorem filter_ne_eq_erase (l : List Label) (k : Label) (h : l.Nodup) : l.filter (· ≠ k) = l.erase k := by
  induction l with
  | nil => rfl
  | cons a t ih =>
    have hat := List.nodup_cons.mp h
    simp only [List.filter_cons]
    by_cases hak : a = k
    · subst hak
      simp only [ne_eq, not_true_eq_false, decide_false, Bool.false_eq_true, if_false, List.erase_cons_head]
      rw [ih hat.2]
      exact List.erase_of_not_mem hat.1
    · have : (a == k) = false := by simpa using hak
      simp only [ne_eq, hak, not_false_eq_true, decide_true, if_true, List.erase_cons, this, Bool.false_eq_true, if_false]
      rw [ih hat.2]

/-! ### the polynomial held -/

def absP (p : PyB) : LPoly :=
  { vars := keys p.adj, lin := fun l => (p.get2 l l).getD 0, quad := fun a b => if a = b then none else p.get2 a b,
    off := p.off, vt := p.vt }

structure PInv (p : PyB) : Prop where
  nodup : (keys p.adj).Nodup
  closed : ∀ a b, (p.get2 a b).isSome → b ∈ keys p.adj
  symm : ∀ a b, p.get2 a b = p.get2 b a

theorem PInv.empty (vt : VT) : PInv (PyB.empty vt) := ⟨List.nodup_nil, fun a b h => (by cases h), fun _ _ => rfl⟩

theorem has_iff (p : PyB) (v : Label) : p.has v = true ↔ v ∈ keys p.adj := dget_isSome_iff p.adj v

theorem get2_left_mem {p : PyB} {a b : Label} (h : (p.get2 a b).isSome) : a ∈ keys p.adj := by
  unfold PyB.get2 at h
  cases hd : dget p.adj a with
  | none => rw [hd] at h; cases h
  | some r => exact (dget_isSome_iff p.adj a).mp (by rw [hd]; rfl)

theorem get2_of_not_mem {p : PyB} {a : Label} (h : a ∉ keys p.adj) (b : Label) : p.get2 a b = none := by
  unfold PyB.get2; rw [(dget_none_iff p.adj a).mpr h]; rfl

/-- `_adj[a][b] = x` -/
theorem get2_set2 (p : PyB) (a b : Label) (x : Rat) (c d : Label) :
    (p.set2 a b x).get2 c d = if c = a then (if d = b then some x else dget (p.row a) d) else p.get2 c d := by
  unfold PyB.set2 PyB.get2
  simp only []
  rw [dget_dset]
  by_cases hc : c = a
  · simp only [hc, if_true, Option.bind_some, dget_dset]
  · simp only [hc, if_false]

theorem row_get (p : PyB) (a d : Label) : dget (p.row a) d = p.get2 a d := by
  unfold PyB.row PyB.get2
  cases dget p.adj a <;> rfl

theorem keys_set2 (p : PyB) (a b : Label) (x : Rat) :
    keys (p.set2 a b x).adj = if a ∈ keys p.adj then keys p.adj else keys p.adj ++ [a] := keys_dset _ _ _

theorem get2_del2 (p : PyB) (a b : Label) (c d : Label) :
    (p.del2 a b).get2 c d = if c = a then (if d = b then none else p.get2 a d) else p.get2 c d := by
  unfold PyB.del2 PyB.get2
  simp only []
  rw [dget_dset]
  by_cases hc : c = a
  · simp only [hc, if_true, Option.bind_some, dget_ddel]
    by_cases hd : d = b
    · simp [hd]
    · simp only [hd, if_false]
      have := row_get p a d
      unfold PyB.get2 at this; exact this
  · simp only [hc, if_false]

theorem keys_del2 (p : PyB) (a b : Label) (ha : a ∈ keys p.adj) : keys (p.del2 a b).adj = keys p.adj := by
  unfold PyB.del2; simp only []; rw [keys_dset]; simp [ha]

/-! ### linear terms -/

theorem ensure_vars (q : LPoly) (v : Label) : (q.ensure v).vars = if v ∈ q.vars then q.vars else q.vars ++ [v] := by
  unfold LPoly.ensure; split <;> rfl

theorem set2_self_refines (p : PyB) (v : Label) (x : Rat) :
    absP (p.set2 v v x) = { (absP p).ensure v with lin := fun l => if l = v then x else (absP p).lin l } := by
  apply LPoly.ext'
  · show keys (p.set2 v v x).adj = ((absP p).ensure v).vars
    rw [keys_set2, ensure_vars]; rfl
  · intro l
    show ((p.set2 v v x).get2 l l).getD 0 = if l = v then x else (p.get2 l l).getD 0
    rw [get2_set2]
    by_cases hl : l = v
    · simp [hl]
    · simp [hl]
  · intro a b
    show (if a = b then none else (p.set2 v v x).get2 a b) = ((absP p).ensure v).quad a b
    rw [Bqm.ensure_quad]
    show _ = if a = b then none else p.get2 a b
    by_cases hab : a = b
    · simp [hab]
    · simp only [hab, if_false]
      rw [get2_set2]
      by_cases ha : a = v
      · have hb : ¬ b = v := fun e => hab (ha.trans e.symm)
        simp only [ha, if_true, hb, if_false]
        exact row_get p v b
      · simp [ha]
  · show p.off = ((absP p).ensure v).off
    rw [Bqm.ensure_off]; rfl
  · show p.vt = ((absP p).ensure v).vt
    rw [Bqm.ensure_vt]; rfl

theorem addLinear_refines (p : PyB) (v : Label) (b : Rat) : absP (p.addLinear v b) = (absP p).addLinear v b := by
  unfold PyB.addLinear
  rw [set2_self_refines]
  apply LPoly.ext' <;> try (first | rfl | (intro _ _; rfl))
  intro l
  show (if l = v then (p.get2 v v).getD 0 + b else (absP p).lin l) = if l = v then (absP p).lin l + b else (absP p).lin l
  by_cases hl : l = v
  · simp only [hl, if_true]; rfl
  · simp [hl]

theorem setLinear_refines (p : PyB) (v : Label) (b : Rat) : absP (p.setLinear v b) = (absP p).setLinear v b := by
  unfold PyB.setLinear
  rw [set2_self_refines]
  rfl

theorem PInv.set2_self {p : PyB} (i : PInv p) (v : Label) (x : Rat) : PInv (p.set2 v v x) := by
  have hk := keys_set2 p v v x
  refine ⟨?_, ?_, ?_⟩
  · rw [hk]
    split
    · exact i.nodup
    · rename_i hv
      rw [List.nodup_append]
      refine ⟨i.nodup, by simp, ?_⟩
      intro a ha b hb
      simp only [List.mem_singleton] at hb
      subst hb; intro e; subst e; exact hv ha
  · intro a b hs
    rw [get2_set2] at hs
    have sub : ∀ z, z ∈ keys p.adj → z ∈ keys (p.set2 v v x).adj := by
      intro z hz; rw [hk]; split
      · exact hz
      · exact List.mem_append_left _ hz
    have vin : v ∈ keys (p.set2 v v x).adj := by
      rw [hk]; split
      · assumption
      · simp
    by_cases ha : a = v
    · simp only [ha, if_true] at hs
      by_cases hb : b = v
      · rw [hb]; exact vin
      · simp only [hb, if_false] at hs
        rw [row_get] at hs
        exact sub b (i.closed v b hs)
    · simp only [ha, if_false] at hs
      exact sub b (i.closed a b hs)
  · intro a b
    rw [get2_set2, get2_set2]
    by_cases ha : a = v <;> by_cases hb : b = v
    · simp [ha, hb]
    · simp only [ha, hb, if_true, if_false]; rw [row_get]; exact i.symm v b
    · simp only [ha, hb, if_true, if_false]; rw [row_get]; exact i.symm a v
    · simp only [ha, hb, if_false]; exact i.symm a b

theorem PInv.addLinear {p : PyB} (i : PInv p) (v : Label) (b : Rat) : PInv (p.addLinear v b) := i.set2_self v _
theorem PInv.setLinear {p : PyB} (i : PInv p) (v : Label) (b : Rat) : PInv (p.setLinear v b) := i.set2_self v _

/-! ### interactions -/

/-- make sure `u` is a variable (what `add_quadratic` does through `set_linear(u, zero)`) -/
def ensureP (p : PyB) (u : Label) : PyB := if p.has u then p else p.setLinear u 0

theorem ensureP_refines (p : PyB) (u : Label) : absP (p.ensureP u) = (absP p).ensure u := by
  unfold ensureP
  by_cases h : p.has u = true
  · rw [if_pos h]
    have : u ∈ (absP p).vars := (has_iff p u).mp h
    unfold LPoly.ensure; rw [if_pos this]
  · rw [if_neg h, setLinear_refines]
    have hn : u ∉ keys p.adj := fun e => h ((has_iff p u).mpr e)
    apply LPoly.ext' <;> try (first | rfl | (intro _ _; rfl))
    intro l
    show (if l = u then 0 else (absP p).lin l) = ((absP p).ensure u).lin l
    rw [Bqm.ensure_lin]
    by_cases hl : l = u
    · rw [hl]; simp only [if_true]
      show (0 : Rat) = (p.get2 u u).getD 0
      rw [get2_of_not_mem hn]; rfl
    · simp [hl]

theorem PInv.ensureP {p : PyB} (i : PInv p) (u : Label) : PInv (p.ensureP u) := by
  unfold PyB.ensureP; split
  · exact i
  · exact i.setLinear u 0

theorem mem_ensureP (p : PyB) (u : Label) : u ∈ keys (p.ensureP u).adj := by
  have := congrArg LPoly.vars (ensureP_refines p u)
  show u ∈ (absP (p.ensureP u)).vars
  rw [this, ensure_vars]
  split
  · assumption
  · simp

theorem mem_ensureP_of_mem (p : PyB) (u w : Label) (h : w ∈ keys p.adj) : w ∈ keys (p.ensureP u).adj := by
  have := congrArg LPoly.vars (ensureP_refines p u)
  show w ∈ (absP (p.ensureP u)).vars
  rw [this, ensure_vars]
  split
  · exact h
  · exact List.mem_append_left _ h

/-- `_adj[u][v] = _adj[v][u] = x` for two different known variables -/
theorem get2_pair (p : PyB) (u v : Label) (x : Rat) (hne : u ≠ v) (c d : Label) :
    ((p.set2 u v x).set2 v u x).get2 c d = if (c = u ∧ d = v) ∨ (c = v ∧ d = u) then some x else p.get2 c d := by
  rw [get2_set2]
  have hvu : ¬ v = u := fun e => hne e.symm
  by_cases hc : c = v
  · simp only [hc, if_true, hvu, false_and, false_or, true_and]
    by_cases hd : d = u
    · simp [hd]
    · simp only [hd, if_false]
      rw [row_get, get2_set2]; simp [hvu]
  · simp only [hc, if_false, false_and, or_false]
    rw [get2_set2]
    by_cases hcu : c = u
    · simp only [hcu, if_true, true_and]
      by_cases hd : d = v
      · simp [hd]
      · simp only [hd, if_false]; exact row_get p u d
    · simp [hcu]

theorem keys_pair (p : PyB) (u v : Label) (x : Rat) (hu : u ∈ keys p.adj) (hv : v ∈ keys p.adj) :
    keys ((p.set2 u v x).set2 v u x).adj = keys p.adj := by
  have h1 : keys (p.set2 u v x).adj = keys p.adj := by rw [keys_set2]; simp [hu]
  rw [keys_set2, h1]; simp [hv]

theorem pair_refines {p : PyB} (u v : Label) (x : Rat) (hne : u ≠ v) (hu : u ∈ keys p.adj) (hv : v ∈ keys p.adj) :
    absP ((p.set2 u v x).set2 v u x) =
      { absP p with quad := fun a b => if (a = u ∧ b = v) ∨ (a = v ∧ b = u) then some x else (absP p).quad a b } := by
  apply LPoly.ext' <;> try rfl
  · exact keys_pair p u v x hu hv
  · intro l
    show (((p.set2 u v x).set2 v u x).get2 l l).getD 0 = (p.get2 l l).getD 0
    rw [get2_pair p u v x hne]
    have : ¬ ((l = u ∧ l = v) ∨ (l = v ∧ l = u)) := by
      intro h; rcases h with ⟨a, b⟩ | ⟨a, b⟩
      · exact hne (a.symm.trans b)
      · exact hne (b.symm.trans a)
    rw [if_neg this]
  · intro a b
    show (if a = b then none else ((p.set2 u v x).set2 v u x).get2 a b) = if (a = u ∧ b = v) ∨ (a = v ∧ b = u) then some x else if a = b then none else p.get2 a b
    rw [get2_pair p u v x hne]
    by_cases hab : a = b
    · have : ¬ ((a = u ∧ b = v) ∨ (a = v ∧ b = u)) := by
        intro h; rcases h with ⟨x1, x2⟩ | ⟨x1, x2⟩
        · exact hne (x1.symm.trans (hab.trans x2))
        · exact hne (x2.symm.trans (hab.symm.trans x1))
      rw [if_pos hab, if_neg this, if_pos hab]
    · simp [hab]

theorem PInv.pair {p : PyB} (i : PInv p) (u v : Label) (x : Rat) (hne : u ≠ v) (hu : u ∈ keys p.adj) (hv : v ∈ keys p.adj) :
    PInv ((p.set2 u v x).set2 v u x) := by
  refine ⟨by rw [keys_pair p u v x hu hv]; exact i.nodup, ?_, ?_⟩
  · intro a b hs
    rw [keys_pair p u v x hu hv]
    rw [get2_pair p u v x hne] at hs
    split at hs
    · rename_i hc
      rcases hc with ⟨_, hb⟩ | ⟨_, hb⟩
      · rw [hb]; exact hv
      · rw [hb]; exact hu
    · exact i.closed a b hs
  · intro a b
    rw [get2_pair p u v x hne, get2_pair p u v x hne]
    by_cases hc : (a = u ∧ b = v) ∨ (a = v ∧ b = u)
    · have hc' : (b = u ∧ a = v) ∨ (b = v ∧ a = u) := by
        rcases hc with ⟨x1, x2⟩ | ⟨x1, x2⟩
        · exact Or.inr ⟨x2, x1⟩
        · exact Or.inl ⟨x2, x1⟩
      simp [hc, hc']
    · have hc' : ¬ ((b = u ∧ a = v) ∨ (b = v ∧ a = u)) := by
        intro h; apply hc
        rcases h with ⟨x1, x2⟩ | ⟨x1, x2⟩
        · exact Or.inr ⟨x2, x1⟩
        · exact Or.inl ⟨x2, x1⟩
      simp only [hc, hc', if_false]; exact i.symm a b

theorem get2_ensureP_of_ne (p : PyB) (u a b : Label) (hab : a ≠ b) : (p.ensureP u).get2 a b = p.get2 a b := by
  have := congrArg (fun q => LPoly.quad q a b) (ensureP_refines p u)
  simp only [Bqm.ensure_quad] at this
  have e1 : (absP (p.ensureP u)).quad a b = (p.ensureP u).get2 a b := by show (if a = b then none else _) = _; simp [hab]
  have e2 : (absP p).quad a b = p.get2 a b := by show (if a = b then none else _) = _; simp [hab]
  rw [← e1, ← e2]; exact this

theorem addQuadratic_refines {p : PyB} (i : PInv p) (u v : Label) (b : Rat) (hne : u ≠ v) :
    absP (p.addQuadratic u v b).1 = (absP p).quadOp u v b false ∧ (p.addQuadratic u v b).2 = none ∧ PInv (p.addQuadratic u v b).1 := by
  unfold PyB.addQuadratic
  simp only [hne, if_false]
  show absP ((((p.ensureP u).ensureP v).set2 u v _).set2 v u _) = _ ∧ _
  have i2 := (i.ensureP u).ensureP v
  have hu : u ∈ keys ((p.ensureP u).ensureP v).adj := mem_ensureP_of_mem _ v u (mem_ensureP p u)
  have hv : v ∈ keys ((p.ensureP u).ensureP v).adj := mem_ensureP _ v
  refine ⟨?_, (by first | rfl | trivial), i2.pair u v _ hne hu hv⟩
  rw [pair_refines u v _ hne hu hv, ensureP_refines, ensureP_refines]
  apply LPoly.ext' <;> try (first | rfl | (intro _; rfl))
  intro x y
  show (if (x = u ∧ y = v) ∨ (x = v ∧ y = u) then some ((p.get2 v u).getD 0 + b) else (((absP p).ensure u).ensure v).quad x y) =
    if (x = u ∧ y = v) ∨ (x = v ∧ y = u) then some (if false = true then b else ((absP p).quad u v).getD 0 + b) else (absP p).quad x y
  rw [Bqm.ensure_quad, Bqm.ensure_quad]
  have : (absP p).quad u v = p.get2 v u := by
    show (if u = v then none else p.get2 u v) = _
    simp only [hne, if_false]; exact i.symm u v
  rw [this]; simp

theorem addLinear_zero_refines (p : PyB) (u : Label) : absP (p.addVariable (some u) 0) = (absP p).ensure u := by
  unfold PyB.addVariable
  rw [addLinear_refines]
  apply LPoly.ext' <;> try (first | rfl | (intro _ _; rfl))
  intro l
  show (if l = u then (absP p).lin l + 0 else (absP p).lin l) = ((absP p).ensure u).lin l
  rw [Bqm.ensure_lin]
  split
  · exact Rat.add_zero _
  · rfl

theorem setQuadratic_refines {p : PyB} (i : PInv p) (u v : Label) (b : Rat) (hne : u ≠ v) :
    absP (p.setQuadratic u v b).1 = (absP p).quadOp u v b true ∧ (p.setQuadratic u v b).2 = none ∧ PInv (p.setQuadratic u v b).1 := by
  unfold PyB.setQuadratic
  simp only [hne, if_false]
  have i2 : PInv ((p.addVariable (some u) 0).addVariable (some v) 0) := (i.addLinear u 0).addLinear v 0
  have r1 := addLinear_zero_refines p u
  have r2 := addLinear_zero_refines (p.addVariable (some u) 0) v
  have hv : v ∈ keys ((p.addVariable (some u) 0).addVariable (some v) 0).adj := by
    show v ∈ (absP ((p.addVariable (some u) 0).addVariable (some v) 0)).vars
    rw [r2, ensure_vars]; split
    · assumption
    · simp
  have hu : u ∈ keys ((p.addVariable (some u) 0).addVariable (some v) 0).adj := by
    show u ∈ (absP ((p.addVariable (some u) 0).addVariable (some v) 0)).vars
    have hu1 : u ∈ (absP (p.addVariable (some u) 0)).vars := by
      rw [r1, ensure_vars]; split
      · assumption
      · simp
    rw [r2, ensure_vars]; split
    · exact hu1
    · exact List.mem_append_left _ hu1
  refine ⟨?_, (by first | rfl | trivial), i2.pair u v b hne hu hv⟩
  rw [pair_refines u v b hne hu hv, r2, r1]
  apply LPoly.ext' <;> try (first | rfl | (intro _; rfl))
  intro x y
  show (if (x = u ∧ y = v) ∨ (x = v ∧ y = u) then some b else (((absP p).ensure u).ensure v).quad x y) =
    if (x = u ∧ y = v) ∨ (x = v ∧ y = u) then some (if true = true then b else ((absP p).quad u v).getD 0 + b) else (absP p).quad x y
  rw [Bqm.ensure_quad, Bqm.ensure_quad]; simp

/-- `_adj[u].pop(v); _adj[v].pop(u)` -/
theorem get2_unpair (p : PyB) (u v : Label) (hne : u ≠ v) (c d : Label) :
    ((p.del2 u v).del2 v u).get2 c d = if (c = u ∧ d = v) ∨ (c = v ∧ d = u) then none else p.get2 c d := by
  rw [get2_del2]
  have hvu : ¬ v = u := fun e => hne e.symm
  by_cases hc : c = v
  · simp only [hc, if_true, hvu, false_and, false_or, true_and]
    by_cases hd : d = u
    · simp [hd]
    · simp only [hd, if_false]
      rw [get2_del2]; simp [hvu]
  · simp only [hc, if_false, false_and, or_false]
    rw [get2_del2]
    by_cases hcu : c = u
    · simp only [hcu, if_true, true_and]
    · simp [hcu]

theorem removeInteraction_refines {p : PyB} (i : PInv p) (u v : Label) :
    absP (p.removeInteraction u v).1 = (if ((absP p).quad u v).isSome then (absP p).removeInteraction u v else absP p) ∧
    ((p.removeInteraction u v).2 = none ↔ ((absP p).quad u v).isSome = true) ∧ PInv (p.removeInteraction u v).1 := by
  unfold PyB.removeInteraction
  show _ = (if (if u = v then none else p.get2 u v).isSome then _ else _) ∧ (_ ↔ (if u = v then none else p.get2 u v).isSome = true) ∧ _
  by_cases hne : u = v
  · simp only [hne, if_true]; exact ⟨by simp, by simp, i⟩
  · simp only [hne, if_false]
    cases hq : p.get2 u v with
    | none => exact ⟨by simp, by simp, i⟩
    | some c =>
      simp only [Option.isSome_some, if_true]
      have hu : u ∈ keys p.adj := get2_left_mem (by rw [hq]; rfl)
      have hv : v ∈ keys p.adj := i.closed u v (by rw [hq]; rfl)
      have hk : keys ((p.del2 u v).del2 v u).adj = keys p.adj := by
        rw [keys_del2 _ v u (by rw [keys_del2 p u v hu]; exact hv), keys_del2 p u v hu]
      refine ⟨?_, by simp, ⟨by rw [hk]; exact i.nodup, ?_, ?_⟩⟩
      · apply LPoly.ext' <;> try rfl
        · exact hk
        · intro l
          show (((p.del2 u v).del2 v u).get2 l l).getD 0 = (p.get2 l l).getD 0
          rw [get2_unpair p u v hne]
          have : ¬ ((l = u ∧ l = v) ∨ (l = v ∧ l = u)) := by
            intro h; rcases h with ⟨a, b⟩ | ⟨a, b⟩
            · exact hne (a.symm.trans b)
            · exact hne (b.symm.trans a)
          rw [if_neg this]
        · intro a b
          show (if a = b then none else ((p.del2 u v).del2 v u).get2 a b) = if (a = u ∧ b = v) ∨ (a = v ∧ b = u) then none else if a = b then none else p.get2 a b
          rw [get2_unpair p u v hne]
          by_cases hab : a = b
          · simp [hab]
          · simp [hab]
      · intro a b hs
        rw [hk]
        rw [get2_unpair p u v hne] at hs
        split at hs
        · cases hs
        · exact i.closed a b hs
      · intro a b
        rw [get2_unpair p u v hne, get2_unpair p u v hne]
        by_cases hc : (a = u ∧ b = v) ∨ (a = v ∧ b = u)
        · have hc' : (b = u ∧ a = v) ∨ (b = v ∧ a = u) := by
            rcases hc with ⟨x1, x2⟩ | ⟨x1, x2⟩
            · exact Or.inr ⟨x2, x1⟩
            · exact Or.inl ⟨x2, x1⟩
          simp [hc, hc']
        · have hc' : ¬ ((b = u ∧ a = v) ∨ (b = v ∧ a = u)) := by
            intro h; apply hc
            rcases h with ⟨x1, x2⟩ | ⟨x1, x2⟩
            · exact Or.inr ⟨x2, x1⟩
            · exact Or.inl ⟨x2, x1⟩
          simp only [hc, hc', if_false]; exact i.symm a b

end PyB
