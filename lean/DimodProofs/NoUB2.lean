import DimodProofs.NoUB
import DimodProofs.CppMore

/-! No failing lookup in `remove_variable(s)`, `substitute_variable(s)`, dense / COO construction under the
    representation invariant and the documented preconditions.  (`resize` performs no `operator[]`: `vector::resize`
    and `erase(lower_bound(..), end())` on each neighbourhood.)  Core Lean only. -/

namespace CppM
open Bqm

theorem foldlM_eq_some {α β} (P : β → Prop) (f? : β → α → Option β) (f : β → α → β) (xs : List α)
    (h : ∀ acc x, x ∈ xs → P acc → f? acc x = some (f acc x) ∧ P (f acc x)) :
    ∀ acc, P acc → xs.foldlM f? acc = some (xs.foldl f acc) ∧ P (xs.foldl f acc) := by
  induction xs with
  | nil => intro acc hp; exact ⟨rfl, hp⟩
  | cons x t ih =>
    intro acc hp
    have s := h acc x (by simp) hp
    simp only [List.foldlM_cons, List.foldl, s.1]
    exact ih (fun a y hy => h a y (List.mem_cons_of_mem _ hy)) _ s.2

theorem erase?_eq {α} (l : List α) (i : Nat) (h : i < l.length) : erase? l i = some (eraseIdx l i) := by
  unfold erase?; rw [if_pos h]

/-- `remove_variable(v)`, `v < num_variables()` -/
theorem removeAt?_eq (m : CppM) (h : WF m) (v : Nat) (hv : v < m.q.lin.length) : m.removeAt? v = some (m.removeAt v) := by
  unfold CppM.removeAt? CppM.removeAt
  rw [erase?_eq _ _ hv, erase?_eq _ _ (by rw [h.adj.len]; exact hv)]
  cases hb : m.bvt with
  | some t => rfl
  | none =>
    have hi := h.info hb
    simp only [Option.bind_eq_bind, Option.bind_some, Option.pure_def]
    rw [erase?_eq _ _ (by rw [hi.1]; exact hv), erase?_eq _ _ (by rw [hi.2.1]; exact hv), erase?_eq _ _ (by rw [hi.2.2]; exact hv)]
    rfl

theorem mapM_isSome {α β} (xs : List α) (f : α → Option β) (h : ∀ x ∈ xs, (f x).isSome) : (xs.mapM f).isSome := by
  induction xs with
  | nil => rfl
  | cons x t ih =>
    have hx := h x (by simp)
    have ht := ih (fun y hy => h y (List.mem_cons_of_mem _ hy))
    rw [List.mapM_cons]
    cases hfx : f x with
    | none => rw [hfx] at hx; cases hx
    | some b =>
      cases hft : t.mapM f with
      | none => rw [hft] at ht; cases ht
      | some bs => rfl

/-- `remove_variables(vs)`: every `reindex[·]` lookup — for the indices given and for every neighbour index stored in
    the structure — is inside the vector -/
theorem reindexLookups_ok (m : CppM) (h : WF m) (vs : List Nat) (hb : ∀ v ∈ vs, v < m.q.lin.length) :
    (m.reindexLookups? vs).isSome := by
  unfold CppM.reindexLookups?
  have hlen : m.q.adj.length = m.q.lin.length := h.adj.len
  have look : ∀ j, j < m.q.lin.length → ((List.replicate m.q.adj.length (0 : Int))[j]?).isSome := by
    intro j hj
    rw [List.getElem?_replicate]; simp [hlen, hj]
  have h1 := mapM_isSome vs (fun v => (List.replicate m.q.adj.length (0 : Int))[v]?) (fun v hv => look v (hb v hv))
  have h2 := mapM_isSome m.q.adj (fun nb => nb.mapM fun p => (List.replicate m.q.adj.length (0 : Int))[p.1]?) (by
    intro nb hnb
    apply mapM_isSome
    intro p hp
    apply look
    obtain ⟨u, hu, hget⟩ := List.getElem_of_mem hnb
    apply h.adj.bound u p.1
    show (nbhCoef (m.q.adj.getD u []) p.1).isSome
    rw [nbhCoef_isSome_iff]
    refine ⟨p, ?_, rfl⟩
    simp only [List.getD, List.getElem?_eq_getElem hu, Option.getD_some, hget]; exact hp)
  cases e1 : vs.mapM (fun v => (List.replicate m.q.adj.length (0 : Int))[v]?) with
  | none => rw [e1] at h1; cases h1
  | some a =>
    cases e2 : m.q.adj.mapM (fun nb => nb.mapM fun p => (List.replicate m.q.adj.length (0 : Int))[p.1]?) with
    | none => rw [e2] at h2; cases h2
    | some b => simp [e1, e2]

/-- one iteration of `substitute_variable`'s loop -/
theorem substStep?_eq (v : Nat) (mult c : Rat) (acc : Qm) (p : Nat × Rat) (hv : v < acc.lin.length) (hp : p.1 < acc.lin.length)
    (hl : acc.adj.length = acc.lin.length) : substStep? v mult c acc p = some (Qm.substStep v mult c acc p) := by
  unfold CppM.substStep? Qm.substStep
  by_cases hpv : p.1 = v
  · simp only [hpv, if_true]
    rw [upd?_eq _ _ _ hv, upd?_eq _ _ _ (by rw [hl]; exact hv)]
    rfl
  · simp only [hpv, if_false]
    rw [upd?_eq _ _ _ hp, upd?_eq _ _ _ (by rw [hl]; exact hp)]
    simp only [Option.bind_eq_bind, Option.bind_some]
    rw [upd?_eq _ _ _ (by simp [hl]; exact hv)]
    rfl

/-- `substitute_variable(v, mult, c)`, `v < num_variables()` -/
theorem substituteVariable?_eq (m : CppM) (h : WF m) (v : Nat) (mult c : Rat) (hv : v < m.q.lin.length) :
    m.substituteVariable? v mult c = some (m.substituteVariable v mult c) := by
  have hlen : m.q.adj.length = m.q.lin.length := h.adj.len
  have hva : v < m.q.adj.length := by rw [hlen]; exact hv
  unfold CppM.substituteVariable? CppM.substituteVariable Qm.substituteVariable
  rw [getElem?_getD m.q.lin v 0 hv, getElem?_getD m.q.adj v [] hva, upd?_eq _ _ _ hv]
  simp only [Option.bind_eq_bind, Option.bind_some]
  have hb : ∀ p ∈ m.q.adj.getD v [], p.1 < m.q.lin.length := by
    intro p hp
    apply h.adj.bound v p.1
    show (nbhCoef (m.q.adj.getD v []) p.1).isSome
    rw [nbhCoef_isSome_iff]; exact ⟨p, hp, rfl⟩
  have f := foldlM_eq_some (fun acc : Qm => acc.lin.length = m.q.lin.length ∧ acc.adj.length = m.q.lin.length)
    (substStep? v mult c) (Qm.substStep v mult c) (m.q.adj.getD v []) (by
      intro acc p hp ha
      refine ⟨substStep?_eq v mult c acc p (by rw [ha.1]; exact hv) (by rw [ha.1]; exact hb p hp) (by rw [ha.2, ha.1]), ?_⟩
      have sl := Qm.substStep_len v mult c acc p
      exact ⟨sl.2.trans ha.1, sl.1.trans ha.2⟩)
    { m.q with off := m.q.off + m.q.lin.getD v 0 * c, lin := modifyAt m.q.lin v (· * mult) } ⟨by simp, hlen⟩
  rw [f.1]
  rfl

/-- `substitute_variables(mult, c)`: the loops over `v < num_variables()` index both vectors inside their range -/
theorem substituteAllLookups_ok (m : CppM) (h : WF m) : m.substituteAllLookups?.isSome := by
  unfold CppM.substituteAllLookups?
  have h1 := mapM_isSome (List.range m.q.lin.length) (fun v => do
      let _ ← m.q.lin[v]?
      let _ ← m.q.adj[v]?
      pure ()) (by
    intro v hv
    have hvl : v < m.q.lin.length := List.mem_range.mp hv
    rw [getElem?_getD m.q.lin v 0 hvl, getElem?_getD m.q.adj v [] (by rw [h.adj.len]; exact hvl)]
    rfl)
  cases e : (List.range m.q.lin.length).mapM (fun v => do
      let _ ← m.q.lin[v]?
      let _ ← m.q.adj[v]?
      pure ()) with
  | none => rw [e] at h1; cases h1
  | some a => simp [e]

/-- iterator `add_quadratic(rows, cols, biases)` (a BQM grows first; for a QM the indices are `< num_variables()`) -/
theorem addCoo?_eq (m : CppM) (h : WF m) (rows cols : List Nat) (vals : List Rat) (hlen : cols.length = rows.length)
    (hq : m.bvt = none → ∀ x ∈ rows ++ cols, x < m.q.lin.length) :
    m.addCoo? rows cols vals = some (m.addCoo rows cols vals) := by
  have hmax : ∀ (l : List Nat) (a : Nat), (∀ x ∈ l, x ≤ l.foldl max a) ∧ a ≤ l.foldl max a := by
    intro l
    induction l with
    | nil => intro a; exact ⟨fun _ h => (by cases h), Nat.le_refl _⟩
    | cons y t ih =>
      intro a
      simp only [List.foldl]
      have r := ih (max a y)
      refine ⟨?_, by have := Nat.le_max_left a y; omega⟩
      intro x hx
      rcases List.mem_cons.mp hx with e | e
      · rw [e]; have := Nat.le_max_right a y; omega
      · exact r.1 x e
  have hn : m.n = m.q.lin.length := rfl
  have base : WF (m.cooBase rows cols) ∧ (rows.length > 0 → ∀ x ∈ rows ++ cols, x < (m.cooBase rows cols).q.lin.length) := by
    unfold CppM.cooBase
    dsimp only
    cases hb : m.bvt with
    | none => exact ⟨h, fun _ => hq hb⟩
    | some t =>
      simp only []
      by_cases hc : rows.length > 0 ∧ (rows ++ cols).foldl max 0 ≥ m.n
      · rw [if_pos hc]
        refine ⟨h.baseResize_bqm _ t hb, ?_⟩
        intro _ x hx
        show x < (m.q.lin.take _ ++ List.replicate _ 0).length
        have := (hmax (rows ++ cols) 0).1 x hx
        simp only [List.length_append, List.length_take, List.length_replicate]; omega
      · rw [if_neg hc]
        refine ⟨h, ?_⟩
        intro hpos x hx
        have := (hmax (rows ++ cols) 0).1 x hx
        have hlt : ¬ (rows ++ cols).foldl max 0 ≥ m.n := fun e => hc ⟨hpos, e⟩
        omega
  unfold CppM.addCoo? CppM.addCoo
  generalize m.cooBase rows cols = m0 at base
  obtain ⟨w0, hb0⟩ := base
  refine (foldlM_eq_some (fun acc : CppM => WF acc ∧ acc.q.lin.length = m0.q.lin.length) _ _ (List.range rows.length) ?_ m0 ⟨w0, rfl⟩).1
  intro acc i hi ha
  have hil : i < rows.length := List.mem_range.mp hi
  have hpos : rows.length > 0 := by omega
  have hr : rows.getD i 0 ∈ rows ++ cols := by
    apply List.mem_append_left
    simp only [List.getD, List.getElem?_eq_getElem hil, Option.getD_some]; exact List.getElem_mem hil
  have hc : cols.getD i 0 ∈ rows ++ cols := by
    apply List.mem_append_right
    have hic : i < cols.length := by omega
    simp only [List.getD, List.getElem?_eq_getElem hic, Option.getD_some]; exact List.getElem_mem hic
  have hu : rows.getD i 0 < acc.q.lin.length := by rw [ha.2]; exact hb0 hpos _ hr
  have hv : cols.getD i 0 < acc.q.lin.length := by rw [ha.2]; exact hb0 hpos _ hc
  refine ⟨?_, ha.1.quad _ _ _ false hu hv, by rw [n_quad]; exact ha.2⟩
  rw [quad?_eq acc ha.1.adj _ _ _ _ hu hv]; rfl

/-- `add_quadratic_from_dense(dense, k)`, `k ≤ num_variables()` -/
theorem addDense?_eq (m : CppM) (h : WF m) (k : Nat) (d : List Rat) (hk : k ≤ m.q.lin.length) :
    m.addDense? k d = some (m.addDense k d) := by
  unfold CppM.addDense? CppM.addDense
  refine (foldlM_eq_some (fun acc : CppM => WF acc ∧ acc.q.lin.length = m.q.lin.length) _ _ (List.range k) ?_ m ⟨h, rfl⟩).1
  intro acc u hu ha
  have huk : u < k := List.mem_range.mp hu
  have hul : u < acc.q.lin.length := by rw [ha.2]; omega
  have w1 : WF (acc.quad u u (d.getD (u * (k + 1)) 0) false).1 := ha.1.quad u u _ false hul hul
  have n1 : (acc.quad u u (d.getD (u * (k + 1)) 0) false).1.q.lin.length = m.q.lin.length := by rw [n_quad]; exact ha.2
  have inner := foldlM_eq_some (fun a : CppM => WF a ∧ a.q.lin.length = m.q.lin.length)
    (fun a v => if d.getD (u * k + v) 0 + d.getD (v * k + u) 0 ≠ 0
      then (a.quad? u v (d.getD (u * k + v) 0 + d.getD (v * k + u) 0) false).map (·.1) else some a)
    (fun a v => if d.getD (u * k + v) 0 + d.getD (v * k + u) 0 ≠ 0
      then (a.quad u v (d.getD (u * k + v) 0 + d.getD (v * k + u) 0) false).1 else a)
    ((List.range k).filter (u < ·)) (by
      intro a v hv hav
      have hvk : v < k := List.mem_range.mp (List.mem_filter.mp hv).1
      have hua : u < a.q.lin.length := by rw [hav.2]; omega
      have hva : v < a.q.lin.length := by rw [hav.2]; omega
      by_cases hq : d.getD (u * k + v) 0 + d.getD (v * k + u) 0 ≠ 0
      · show (if _ ≠ 0 then _ else _) = some (if _ ≠ 0 then _ else _) ∧ (WF (if _ ≠ 0 then _ else _) ∧ _)
        rw [if_pos hq, if_pos hq, quad?_eq a hav.1.adj _ _ _ _ hua hva]
        exact ⟨rfl, hav.1.quad u v _ false hua hva, by rw [n_quad]; exact hav.2⟩
      · show (if _ ≠ 0 then _ else _) = some (if _ ≠ 0 then _ else _) ∧ (WF (if _ ≠ 0 then _ else _) ∧ _)
        rw [if_neg hq, if_neg hq]
        exact ⟨rfl, hav⟩)
    (acc.quad u u (d.getD (u * (k + 1)) 0) false).1 ⟨w1, n1⟩
  refine ⟨?_, inner.2⟩
  rw [quad?_eq acc ha.1.adj _ _ _ _ hul hul]
  exact inner.1

end CppM
