import DimodProofs.ZipTrunc
import DimodProofs.DqmClosed

/-! # The DQM loader with the section-length check inside the program  (C10, round 8)

`truncation_safe_dqm_length_checked_partial` modelled the round-7 repair of `_from_file_numpy` as an opener that compares
the blob's length with `npz.length` — the length recorded in THIS file's frame — instead of the number the loader read from
the frame of the prefix it was given.  Here the check is where the code has it (`dqmBodyLenChecked`: `blob = read(n);
if len(blob) != n: raise`), and the two loaders are shown to agree, up to the class of the exception, on every input on
which the length field — if it is read at all — reads as `N` (`dqmBody_sim`); the prefixes of a written file are such
inputs (`dqmLen_of_prefix`). -/

namespace FileFmt

/-- same outcome up to the class of the exception -/
def Res.sim : Res α → Res α → Prop
  | .ok x, .ok y => x = y
  | .err _, .err _ => True
  | .ub, .ub => True
  | _, _ => False

theorem Res.sim_refl (a : Res α) : Res.sim a a := by cases a <;> simp [Res.sim]

theorem Res.sim_err {a b : Res α} (h : Res.sim a b) (hb : ∃ e, b = .err e) : ∃ e, a = .err e := by
  obtain ⟨e, rfl⟩ := hb
  cases a <;> simp [Res.sim] at h ⊢

theorem Res.sim_ok {a b : Res α} {v : α} (h : Res.sim a b) (hb : b = .ok v) : a = .ok v := by
  subst hb
  cases a <;> simp [Res.sim] at h ⊢
  exact h

theorem dqmFinish_checked_eq (parseVars : Bytes → Option (List J)) (f : Bytes → Option D) (nvarsOf : D → Nat) (labelled : Bool) (h : H)
    (N : Nat) (blob : Bytes) (hb : blob.length = N) :
    dqmFinish parseVars (fun b => if b.length ≠ N then none else f b) nvarsOf labelled h blob = dqmFinish parseVars f nvarsOf labelled h blob := by
  unfold dqmFinish
  simp [hb]

/-- the two bodies agree up to the exception class wherever the length field, if read, reads as `N` -/
theorem dqmBody_sim (parseVars : Bytes → Option (List J)) (f : Bytes → Option D) (nvarsOf : D → Nat) (labelled : Bool) (h : H)
    (N : Nat) (s : Bytes)
    (hN : ∀ r n r', (Prog.expect magBIAS).run s = .ok ((), r) → (Prog.readLen 4).run r = .ok (n, r') → n = N) :
    Res.sim ((dqmBodyLenChecked parseVars f nvarsOf labelled h).run s)
      ((dqmBody parseVars (fun b => if b.length ≠ N then none else f b) nvarsOf labelled h).run s) := by
  unfold dqmBodyLenChecked dqmBody
  rw [run_bind, run_bind]
  cases hE : (Prog.expect magBIAS).run s with
  | err e => simp [Res.sim]
  | ub => simp [Res.sim]
  | ok p =>
    obtain ⟨u, r⟩ := p
    simp only
    rw [run_bind, run_bind]
    cases hL : (Prog.readLen 4).run r with
    | err e => simp [Res.sim]
    | ub => simp [Res.sim]
    | ok q =>
      obtain ⟨n, r'⟩ := q
      have hn : n = N := hN r n r' (by rw [hE]) hL
      subst hn
      simp only
      rw [run_bind, run_bind]
      cases hR : (Prog.readN n).run r' with
      | err e => simp [Res.sim]
      | ub => simp [Res.sim]
      | ok w =>
        obtain ⟨blob, r''⟩ := w
        simp only
        by_cases hb : blob.length = n
        · rw [if_neg (by simp [hb]), dqmFinish_checked_eq parseVars f nvarsOf labelled h n blob hb]
          exact Res.sim_refl _
        · rw [if_pos hb]
          have : dqmFinish parseVars (fun b => if b.length ≠ n then none else f b) nvarsOf labelled h blob = .fail .zip := by
            unfold dqmFinish; simp [hb]
          rw [this]
          simp [Prog.run, Res.sim]

/-- what `expect` / `readLen 4` return on a prefix of `magic ++ toLE 4 N ++ tail` -/
theorem dqmLen_of_prefix (magic tail : Bytes) (N j : Nat) (hm : magic.length = 4) (hNlt : N < 256 ^ 4) (r : Bytes) (n : Nat) (r' : Bytes)
    (hE : (Prog.expect magic).run ((magic ++ (toLE 4 N ++ tail)).take j) = .ok ((), r))
    (hL : (Prog.readLen 4).run r = .ok (n, r')) : n = N := by
  -- expect: r = (prefix).drop 4
  simp only [Prog.expect, Prog.run, hm] at hE
  split at hE
  · simp only [Prog.run, Res.ok.injEq, Prod.mk.injEq, true_and] at hE
    subst hE
    simp only [Prog.readLen, Prog.run] at hL
    split at hL
    · simp [Prog.run] at hL
    · split at hL
      · simp [Prog.run] at hL
      · rename_i h0 h4
        simp only [Prog.run, Res.ok.injEq, Prod.mk.injEq] at hL
        rw [← hL.1]
        have hlen : ((((magic ++ (toLE 4 N ++ tail)).take j).drop 4).take 4).length = 4 := by
          have := List.length_take_le 4 (((magic ++ (toLE 4 N ++ tail)).take j).drop 4)
          omega
        have hj : 8 ≤ j := by
          simp only [List.length_take, List.length_drop, List.length_append, hm, toLE_length] at hlen
          omega
        have : (((magic ++ (toLE 4 N ++ tail)).take j).drop 4).take 4 = toLE 4 N := by
          rw [List.drop_take, List.take_take, show min 4 (j - 4) = 4 by omega, List.drop_left' hm,
            List.take_left' (toLE_length 4 N)]
        rw [this, leNat_toLE 4 N hNlt]
  · simp [Prog.run] at hE

/-- the header reader on any prefix of `header ++ body`: an exception, or the header's value with a prefix of `body` left -/
theorem readHeader_on_prefix (pre text : Bytes) (maj min : UInt8) (parse : Bytes → Option H) (h : H) (hh : HeaderOK parse text h)
    (body : Bytes) (k : Nat) :
    (∃ e, (readHeader pre parse).run ((makeHeader pre maj min text ++ body).take k) = .err e) ∨
    ∃ j, (readHeader pre parse).run ((makeHeader pre maj min text ++ body).take k) = .ok (([maj.toNat, min.toNat], h), body.take j) := by
  have hcomp := Comp.header pre text maj min parse h hh.1 hh.2.1 hh.2.2
  by_cases hlt : k < (makeHeader pre maj min text).length
  · rw [take_append_lt (Nat.le_of_lt hlt)]
    rcases hcomp.cut k hlt with ⟨e, he⟩ | ⟨_, hok⟩
    · exact Or.inl ⟨e, he⟩
    · exact Or.inr ⟨0, by rw [hok]; simp⟩
  · rw [take_append_ge (Nat.le_of_not_lt hlt), hcomp.full]
    exact Or.inr ⟨_, rfl⟩

/-- **on every prefix of a written DQM file** the loader with the check inside the program and the loader whose opener
    compares with the recorded length agree, up to the class of the exception -/
theorem dqmDecode_sim_on_prefix (parse : Bytes → Option (Bool × H)) (parseVars : Bytes → Option (List J)) (f : Bytes → Option D)
    (nvarsOf : D → Nat) (hdrText npz varsText : Bytes) (labelled : Bool) (h : H) (hh : HeaderOK parse hdrText (labelled, h))
    (hsz : npz.length < 256 ^ 4) (k : Nat) :
    Res.sim ((dqmDecodeLenChecked parse parseVars f nvarsOf).run ((dqmEncode hdrText labelled npz varsText).take k))
      ((dqmDecode parse parseVars (fun b => if b.length ≠ npz.length then none else f b) nvarsOf).run
        ((dqmEncode hdrText labelled npz varsText).take k)) := by
  have henc : dqmEncode hdrText labelled npz varsText = makeHeader dqmPrefix 1 1 hdrText ++
      (magBIAS ++ (toLE 4 npz.length ++ (npz ++ (if labelled then sectionDumps magVARS nlb4 varsText else [])))) := by
    simp [dqmEncode, List.append_assoc]
  rw [henc]
  unfold dqmDecodeLenChecked dqmDecode
  rw [run_bind, run_bind]
  rcases readHeader_on_prefix dqmPrefix hdrText 1 1 parse (labelled, h) hh _ k with ⟨e, he⟩ | ⟨j, hj⟩
  · rw [he]; simp [Res.sim]
  · rw [hj]
    simp only
    by_cases hv : tupleLt [(1 : UInt8).toNat, (1 : UInt8).toNat] [2, 0] = true
    · simp only [hv, Bool.not_true, Bool.false_eq_true, if_false]
      exact dqmBody_sim parseVars f nvarsOf labelled h npz.length _
        (fun r n r' hE hL => dqmLen_of_prefix magBIAS _ npz.length j (by decide) hsz r n r' hE hL)
    · simp only [hv, Bool.not_false, if_true]
      exact Res.sim_refl _

end FileFmt
