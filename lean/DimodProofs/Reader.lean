/-! Feasibility prototype (scratch): a byte reader in which short reads are visible, and the
    "prefix lemma": a parse that never saw a short read gives the same result on any extension. -/

inductive Err | value | index | ub
  deriving Repr, DecidableEq

/-- state: remaining input, and whether any read so far came back short -/
structure RS where
  rest : List UInt8
  short : Bool

abbrev Rd (α : Type) := RS → Except Err (α × RS)

def Rd.pure (a : α) : Rd α := fun s => .ok (a, s)
def Rd.bind (p : Rd α) (f : α → Rd β) : Rd β := fun s =>
  match p s with
  | .error e => .error e
  | .ok (a, s') => f a s'
def Rd.fail (e : Err) : Rd α := fun _ => .error e

/-- `file.read(n)`: up to `n` bytes; remembers if fewer came back -/
def Rd.read (n : Nat) : Rd (List UInt8) := fun s =>
  .ok (s.rest.take n, { rest := s.rest.drop n, short := s.short || decide (s.rest.length < n) })

instance : Monad Rd where
  pure := Rd.pure
  bind := Rd.bind

/-- extension-stability: if `p` succeeds without a short read, then on input extended by `ys`
    it succeeds with the same value and the same remaining input plus `ys` -/
def Stable (p : Rd α) : Prop :=
  ∀ xs a r, p ⟨xs, false⟩ = .ok (a, ⟨r, false⟩) →
    ∀ ys, p ⟨xs ++ ys, false⟩ = .ok (a, ⟨r ++ ys, false⟩)

/-- the short flag is monotone: once set it stays set -/
def Mono (p : Rd α) : Prop :=
  ∀ xs a r b, p ⟨xs, true⟩ = .ok (a, ⟨r, b⟩) → b = true

theorem stable_pure (a : α) : Stable (Rd.pure a) := by
  intro xs a' r h ys
  simp only [Rd.pure, Except.ok.injEq, Prod.mk.injEq, RS.mk.injEq] at h ⊢
  obtain ⟨rfl, rfl, _⟩ := h
  simp

theorem stable_fail (e : Err) : Stable (Rd.fail e : Rd α) := by
  intro xs a r h; simp [Rd.fail] at h

theorem stable_read (n : Nat) : Stable (Rd.read n) := by
  intro xs a r h ys
  simp only [Rd.read, Bool.false_or, Except.ok.injEq, Prod.mk.injEq, RS.mk.injEq,
    decide_eq_false_iff_not, Nat.not_lt] at h ⊢
  obtain ⟨rfl, rfl, hlen⟩ := h
  refine ⟨?_, ?_, ?_⟩
  · rw [List.take_append_of_le_length hlen]
  · rw [List.drop_append_of_le_length hlen]
  · simp; omega

theorem mono_read (n : Nat) : Mono (Rd.read n) := by
  intro xs a r b h; simp [Rd.read] at h; exact h.2.2

/-- the key closure property -/
theorem stable_bind (p : Rd α) (f : α → Rd β) (hp : Stable p) (hpm : ∀ xs, ∀ a r, p ⟨xs, false⟩ = .ok (a, ⟨r, true⟩) → ∀ b r' , f a ⟨r, true⟩ = .ok (b, r') → r'.short = true)
    (hf : ∀ a, Stable (f a)) : Stable (Rd.bind p f) := by
  intro xs b r h ys
  simp only [Rd.bind] at h ⊢
  cases hpx : p ⟨xs, false⟩ with
  | error e => simp [hpx] at h
  | ok v =>
    obtain ⟨a, ⟨r1, s1⟩⟩ := v
    simp only [hpx] at h
    cases s1 with
    | true =>
      have := hpm xs a r1 hpx b ⟨r, false⟩ h
      simp at this
    | false =>
      rw [hp xs a r1 hpx ys]
      exact hf a r1 b r h ys

#print axioms stable_bind
#print axioms stable_read
