import DimodModel.FileReader

/-! # Generic facts about reader programs  (C09 / C10)

* `run_bind`: sequencing;
* `runS_erase`: the short-read flag is a ghost (it never influences the result);
* `runS_stable` / `reader_prefix`: a run that saw no short read is unchanged by appending bytes, and
  used only the bytes it consumed;
* `Comp p xs a pad`: "`p` decodes `xs` to `a`, and every proper prefix of `xs` makes `p` raise,
  except that losing (part of) the last `pad` bytes still gives `a`" -- with the composition lemmas
  that build the truncation theorems of whole file formats from their sections. -/

namespace FileFmt

open Prog

/-! ## integers -/

theorem toLE_length (k n : Nat) : (toLE k n).length = k := by
  induction k generalizing n with
  | zero => rfl
  | succ k ih => simp [toLE, ih]

theorem leNat_toLE (k n : Nat) (h : n < 256 ^ k) : leNat (toLE k n) = n := by
  induction k generalizing n with
  | zero => simp at h; subst h; rfl
  | succ k ih =>
    have h2 : n / 256 < 256 ^ k := by
      rw [Nat.div_lt_iff_lt_mul (by decide)]
      simpa [Nat.pow_succ] using h
    simp only [toLE, leNat, ih _ h2]
    have : (UInt8.ofNat (n % 256)).toNat = n % 256 := by
      simp [UInt8.toNat_ofNat']
    rw [this]; omega

theorem spaces_length (n : Nat) : (spaces n).length = n := by simp [spaces]

theorem padLen_mod (t : Nat) : (t + padLen t) % 64 = 0 := by unfold padLen; omega

theorem padLen_lt (t : Nat) : padLen t < 64 := by unfold padLen; omega

/-! ## sequencing -/

theorem run_bind (p : Prog α) (f : α → Prog β) (s : Bytes) :
    (p.bind f).run s = match p.run s with
      | .ok (a, r) => (f a).run r
      | .err e => .err e
      | .ub => .ub := by
  induction p generalizing s with
  | ret a => simp [Prog.bind, run]
  | fail e => simp [Prog.bind, run]
  | ub => simp [Prog.bind, run]
  | read n k ih => simp only [Prog.bind, run]; exact ih _ _

theorem run_bind_ok {p : Prog α} {f : α → Prog β} {s r : Bytes} {a : α} (h : p.run s = .ok (a, r)) :
    (p.bind f).run s = (f a).run r := by rw [run_bind, h]

theorem run_bind_err {p : Prog α} {f : α → Prog β} {s : Bytes} {e : FErr} (h : p.run s = .err e) :
    (p.bind f).run s = .err e := by rw [run_bind, h]

theorem run_ofRes (r : Res α) (s : Bytes) :
    (Prog.ofRes r).run s = match r with | .ok a => .ok (a, s) | .err e => .err e | .ub => .ub := by
  cases r <;> rfl

/-! ## the short-read flag is a ghost -/

def eraseFlag : Res (α × Bytes × Bool) → Res (α × Bytes)
  | .ok (a, r, _) => .ok (a, r)
  | .err e => .err e
  | .ub => .ub

theorem runS_erase (p : Prog α) (s : Bytes) (sh : Bool) : eraseFlag (p.runS s sh) = p.run s := by
  induction p generalizing s sh with
  | ret a => rfl
  | fail e => rfl
  | ub => rfl
  | read n k ih => simp only [runS, run]; exact ih _ _ _

/-- once a read was short the flag stays set -/
theorem runS_mono (p : Prog α) (s : Bytes) (a : α) (r : Bytes) (b : Bool)
    (h : p.runS s true = .ok (a, r, b)) : b = true := by
  induction p generalizing s with
  | ret x => simp [runS] at h; exact h.2.2
  | fail e => simp [runS] at h
  | ub => simp [runS] at h
  | read n k ih => simp only [runS, Bool.true_or] at h; exact ih _ _ h

/-- **extension stability**: a run without a short read gives the same value on any extension of
    the input, and leaves the appended bytes unread -/
theorem runS_stable (p : Prog α) (xs : Bytes) (a : α) (r : Bytes)
    (h : p.runS xs false = .ok (a, r, false)) (ys : Bytes) :
    p.runS (xs ++ ys) false = .ok (a, r ++ ys, false) := by
  induction p generalizing xs with
  | ret x =>
    simp only [runS, Res.ok.injEq, Prod.mk.injEq] at h ⊢
    obtain ⟨rfl, rfl, _⟩ := h
    simp
  | fail e => simp [runS] at h
  | ub => simp [runS] at h
  | read n k ih =>
    simp only [runS, Bool.false_or] at h ⊢
    by_cases hlen : xs.length < n
    · simp only [hlen, decide_true] at h
      exact absurd (runS_mono _ _ _ _ _ h) (by simp)
    · have hle : n ≤ xs.length := Nat.le_of_not_lt hlen
      simp only [hlen, decide_false] at h
      have h2 : ¬ (xs.length + ys.length < n) := by omega
      rw [List.take_append_of_le_length hle, List.drop_append_of_le_length hle]
      simp only [List.length_append, h2, decide_false]
      exact ih _ _ h

/-- a run that ended with the flag clear started with it clear, read only `xs` minus what is left,
    and is reproduced on exactly the consumed bytes -/
theorem runS_consumed (p : Prog α) (xs : Bytes) (a : α) (r : Bytes)
    (h : p.runS xs false = .ok (a, r, false)) :
    ∃ c, xs = c ++ r ∧ p.runS c false = .ok (a, [], false) := by
  induction p generalizing xs with
  | ret x =>
    simp only [runS, Res.ok.injEq, Prod.mk.injEq] at h
    obtain ⟨rfl, rfl, _⟩ := h
    exact ⟨[], by simp, by simp [runS]⟩
  | fail e => simp [runS] at h
  | ub => simp [runS] at h
  | read n k ih =>
    simp only [runS, Bool.false_or] at h
    by_cases hlen : xs.length < n
    · simp only [hlen, decide_true] at h
      exact absurd (runS_mono _ _ _ _ _ h) (by simp)
    · have hle : n ≤ xs.length := Nat.le_of_not_lt hlen
      simp only [hlen, decide_false] at h
      obtain ⟨c, hc, hrun⟩ := ih _ _ h
      refine ⟨xs.take n ++ c, ?_, ?_⟩
      · rw [List.append_assoc, ← hc, List.take_append_drop]
      · have hl : (xs.take n).length = n := by simp [List.length_take, Nat.min_eq_left hle]
        simp only [runS, Bool.false_or]
        have h1 : (xs.take n ++ c).take n = xs.take n := by
          rw [List.take_append_of_le_length (by omega)]; simp [List.take_take]
        have h2 : (xs.take n ++ c).drop n = c := by
          rw [List.drop_append_of_le_length (by omega)]
          simp [List.drop_eq_nil_of_le (Nat.le_of_eq hl)]
        have h3 : ¬ ((xs.take n ++ c).length < n) := by simp [hl]
        rw [h1, h2]; simp only [h3, decide_false]; exact hrun

/-- the flag-free form used below: if the run on `xs` leaves a non-empty rest, no read was short -/
theorem runS_rest_ne (p : Prog α) (xs : Bytes) (sh : Bool) (a : α) (r : Bytes) (b : Bool)
    (h : p.runS xs sh = .ok (a, r, b)) (hr : r ≠ []) : b = sh := by
  induction p generalizing xs sh with
  | ret x => simp [runS] at h; exact h.2.2.symm
  | fail e => simp [runS] at h
  | ub => simp [runS] at h
  | read n k ih =>
    simp only [runS] at h
    have := ih _ _ _ h
    by_cases hlen : xs.length < n
    · -- the rest after a short read is empty, and stays empty
      exfalso
      have hd : xs.drop n = [] := List.drop_eq_nil_of_le (Nat.le_of_lt hlen)
      rw [hd] at h
      clear this ih
      -- a program run on [] leaves []
      have key : ∀ (q : Prog α) (sh' : Bool) (a' : α) (r' : Bytes) (b' : Bool),
          q.runS [] sh' = .ok (a', r', b') → r' = [] := by
        intro q
        induction q with
        | ret x => intro sh' a' r' b' h'; simp [runS] at h'; exact h'.2.1
        | fail e => intro sh' a' r' b' h'; simp [runS] at h'
        | ub => intro sh' a' r' b' h'; simp [runS] at h'
        | read n k ih' => intro sh' a' r' b' h'; simp only [runS, List.take_nil, List.drop_nil] at h'; exact ih' _ _ _ _ _ h'
      exact hr (key _ _ _ _ _ h)
    · simp only [hlen, decide_false, Bool.or_false] at this; exact this

/-- `run` version of stability: a successful run that leaves bytes unread is unchanged by
    appending more -/
theorem run_stable (p : Prog α) (xs : Bytes) (a : α) (r : Bytes) (h : p.run xs = .ok (a, r)) (hr : r ≠ [])
    (ys : Bytes) : p.run (xs ++ ys) = .ok (a, r ++ ys) := by
  have he := runS_erase p xs false
  rw [h] at he
  cases hS : p.runS xs false with
  | err e => rw [hS] at he; simp [eraseFlag] at he
  | ub => rw [hS] at he; simp [eraseFlag] at he
  | ok v =>
    obtain ⟨a', r', b⟩ := v
    rw [hS] at he
    simp only [eraseFlag, Res.ok.injEq, Prod.mk.injEq] at he
    obtain ⟨rfl, rfl⟩ := he
    have hb : b = false := runS_rest_ne p xs false _ _ _ hS hr
    subst hb
    have := runS_stable p xs _ _ hS ys
    have he2 := runS_erase p (xs ++ ys) false
    rw [this] at he2
    simpa [eraseFlag] using he2.symm

/-- a run on the empty input leaves the empty input -/
theorem run_nil_rest (p : Prog α) (a : α) (r : Bytes) (h : p.run [] = .ok (a, r)) : r = [] := by
  induction p with
  | ret x => simp [run] at h; exact h.2
  | fail e => simp [run] at h
  | ub => simp [run] at h
  | read n k ih => simp only [run, List.take_nil, List.drop_nil] at h; exact ih _ h

/-- **the prefix lemma in the form the truncation theorems use**: if `p` decodes `xs ++ rest` leaving
    exactly `rest` (for every `rest`), then on a *proper* prefix of `xs` it cannot succeed with bytes
    left over: it raises, hits `ub`, or returns having read to the end of the prefix -/
theorem cut_rest_nil (p : Prog α) (xs : Bytes) (a : α)
    (full : ∀ rest, p.run (xs ++ rest) = .ok (a, rest))
    (k : Nat) (_hk : k < xs.length) (a' : α) (r : Bytes) (h : p.run (xs.take k) = .ok (a', r)) : r = [] := by
  by_cases hr : r = []
  · exact hr
  · exfalso
    have := run_stable p _ _ _ h hr (xs.drop k)
    rw [List.take_append_drop] at this
    have f := full []
    rw [List.append_nil] at f
    rw [f] at this
    simp only [Res.ok.injEq, Prod.mk.injEq] at this
    have h2 : r ++ xs.drop k = [] := this.2.symm
    simp at h2
    exact hr h2.1

/-! ## `Comp`: decoding with truncation behaviour -/

/-- `p` decodes `xs` to `a`; cutting `xs` short makes `p` raise, unless at most the last `pad`
    bytes were lost, in which case the result is still `a` -/
structure Comp (p : Prog α) (xs : Bytes) (a : α) (pad : Nat) : Prop where
  full : ∀ rest, p.run (xs ++ rest) = .ok (a, rest)
  cut : ∀ k, k < xs.length →
    (∃ e, p.run (xs.take k) = .err e) ∨ (xs.length ≤ k + pad ∧ p.run (xs.take k) = .ok (a, []))

/-- a program that never returns `ub` -/
def NoUB (p : Prog α) : Prop := ∀ s, p.run s ≠ .ub

/-- a program that raises when started at end of input -/
def EofFails (p : Prog α) : Prop := ∃ e, p.run [] = .err e

theorem Comp.ret (a : α) : Comp (.ret a) [] a 0 :=
  ⟨fun rest => by simp [run], fun k hk => by simp at hk⟩

theorem take_append_ge {xs ys : List α} {k : Nat} (h : xs.length ≤ k) :
    (xs ++ ys).take k = xs ++ ys.take (k - xs.length) := by
  rw [List.take_append]
  simp [List.take_of_length_le h]

theorem take_append_lt {xs ys : List α} {k : Nat} (h : k ≤ xs.length) :
    (xs ++ ys).take k = xs.take k := by
  rw [List.take_append]
  have : k - xs.length = 0 := by omega
  simp [this]

/-- a strict component (no proper prefix succeeds) followed by anything -/
theorem Comp.bind_strict {p : Prog α} {f : α → Prog β} {xs1 xs2 : Bytes} {a : α} {b : β} {pad : Nat}
    (h1 : Comp p xs1 a 0) (h2 : Comp (f a) xs2 b pad) : Comp (p.bind f) (xs1 ++ xs2) b pad := by
  constructor
  · intro rest
    rw [List.append_assoc, run_bind_ok (h1.full _)]
    exact h2.full rest
  · intro k hk
    by_cases hlt : k < xs1.length
    · rw [take_append_lt (Nat.le_of_lt hlt)]
      rcases h1.cut k hlt with ⟨e, he⟩ | ⟨hle, _⟩
      · exact .inl ⟨e, run_bind_err he⟩
      · omega
    · have hge : xs1.length ≤ k := Nat.le_of_not_lt hlt
      rw [take_append_ge hge]
      have hk2 : k - xs1.length < xs2.length := by simp at hk; omega
      have hf := h1.full (xs2.take (k - xs1.length))
      rcases h2.cut _ hk2 with ⟨e, he⟩ | ⟨hle, hok⟩
      · exact .inl ⟨e, by rw [run_bind_ok hf]; exact he⟩
      · refine .inr ⟨by simp; omega, ?_⟩
        rw [run_bind_ok hf]; exact hok

/-- a lenient component (a prefix may succeed with anything, having read to the end) followed by a
    continuation that raises at end of input whatever it is given -/
theorem Comp.bind_lenient {p : Prog α} {f : α → Prog β} {xs1 xs2 : Bytes} {a : α} {b : β} {pad : Nat}
    (full1 : ∀ rest, p.run (xs1 ++ rest) = .ok (a, rest)) (noub : NoUB p)
    (eof : ∀ a', EofFails (f a')) (h2 : Comp (f a) xs2 b pad) : Comp (p.bind f) (xs1 ++ xs2) b pad := by
  constructor
  · intro rest
    rw [List.append_assoc, run_bind_ok (full1 _)]
    exact h2.full rest
  · intro k hk
    by_cases hlt : k < xs1.length
    · rw [take_append_lt (Nat.le_of_lt hlt)]
      cases hp : p.run (xs1.take k) with
      | err e => exact .inl ⟨e, run_bind_err hp⟩
      | ub => exact absurd hp (noub _)
      | ok v =>
        obtain ⟨a', r⟩ := v
        have hr : r = [] := cut_rest_nil p xs1 a full1 k hlt a' r hp
        subst hr
        obtain ⟨e, he⟩ := eof a'
        exact .inl ⟨e, by rw [run_bind_ok hp]; exact he⟩
    · have hge : xs1.length ≤ k := Nat.le_of_not_lt hlt
      rw [take_append_ge hge]
      have hk2 : k - xs1.length < xs2.length := by simp at hk; omega
      have hf := full1 (xs2.take (k - xs1.length))
      rcases h2.cut _ hk2 with ⟨e, he⟩ | ⟨hle, hok⟩
      · exact .inl ⟨e, by rw [run_bind_ok hf]; exact he⟩
      · refine .inr ⟨by simp; omega, ?_⟩
        rw [run_bind_ok hf]; exact hok

/-- post-processing the result with a pure function -/
theorem Comp.map {p : Prog α} {xs : Bytes} {a : α} {pad : Nat} (h : Comp p xs a pad) (g : α → β) :
    Comp (p.bind fun x => .ret (g x)) xs (g a) pad := by
  constructor
  · intro rest; rw [run_bind_ok (h.full rest)]; rfl
  · intro k hk
    rcases h.cut k hk with ⟨e, he⟩ | ⟨hle, hok⟩
    · exact .inl ⟨e, run_bind_err he⟩
    · exact .inr ⟨hle, by rw [run_bind_ok hok]; rfl⟩

/-- what `Comp` says about a file: every proper prefix raises or gives the original with only
    padding lost; never `ub`, never another value -/
theorem Comp.truncation_safe {p : Prog α} {xs : Bytes} {a : α} {pad : Nat} (h : Comp p xs a pad)
    (k : Nat) (hk : k < xs.length) :
    (∃ e, p.run (xs.take k) = .err e) ∨
    (p.run (xs.take k) = .ok (a, []) ∧ xs.length - pad ≤ k) := by
  rcases h.cut k hk with he | ⟨hle, hok⟩
  · exact .inl he
  · exact .inr ⟨hok, by omega⟩

/-! ## primitive components -/

theorem run_read_append (n : Nat) (k : Bytes → Prog α) (xs rest : Bytes) (h : xs.length = n) :
    (Prog.read n k).run (xs ++ rest) = (k xs).run rest := by
  simp only [run]
  rw [List.take_append_of_le_length (by omega), List.drop_append_of_le_length (by omega)]
  simp [List.take_of_length_le (Nat.le_of_eq h), List.drop_eq_nil_of_le (Nat.le_of_eq h)]

theorem run_read_short (n : Nat) (k : Bytes → Prog α) (xs : Bytes) (h : xs.length ≤ n) :
    (Prog.read n k).run xs = (k xs).run [] := by
  simp only [run]
  rw [List.take_of_length_le h, List.drop_eq_nil_of_le h]

theorem Comp.readExact (xs : Bytes) (e : FErr) : Comp (Prog.readExact xs.length e) xs xs 0 := by
  constructor
  · intro rest
    rw [Prog.readExact, run_read_append _ _ _ _ rfl]
    simp [run]
  · intro k hk
    left
    refine ⟨e, ?_⟩
    have hl : (xs.take k).length = k := by simp [List.length_take]; omega
    rw [Prog.readExact, run_read_short _ _ _ (by omega)]
    simp [hl, hk, run]

theorem take_ne_of_lt {xs : List α} {k : Nat} (hk : k < xs.length) : xs.take k ≠ xs := by
  intro h
  have := congrArg List.length h
  simp [List.length_take] at this
  omega

theorem Comp.expect (m : Bytes) : Comp (Prog.expect m) m () 0 := by
  constructor
  · intro rest
    rw [Prog.expect, run_read_append _ _ _ _ rfl]
    simp [run]
  · intro k hk
    left
    refine ⟨.value, ?_⟩
    have hl : (m.take k).length ≤ m.length := by simp [List.length_take]; omega
    rw [Prog.expect, run_read_short _ _ _ hl]
    simp [take_ne_of_lt hk, run]

theorem EofFails.readExact (n : Nat) (e : FErr) (h : 0 < n) : EofFails (Prog.readExact n e) :=
  ⟨e, by simp [Prog.readExact, run, h]⟩

theorem EofFails.bind {p : Prog α} (f : α → Prog β) (h : EofFails p) : EofFails (p.bind f) := by
  obtain ⟨e, he⟩ := h
  exact ⟨e, run_bind_err he⟩

theorem NoUB.bind {p : Prog α} {f : α → Prog β} (hp : NoUB p) (hf : ∀ a, NoUB (f a)) : NoUB (p.bind f) := by
  intro s h
  rw [run_bind] at h
  cases hr : p.run s with
  | ok v => rw [hr] at h; exact hf _ _ h
  | err e => rw [hr] at h; simp at h
  | ub => exact hp _ hr

theorem NoUB.ofRes {r : Res α} (h : r ≠ .ub) : NoUB (Prog.ofRes r) := by
  intro s hs; rw [run_ofRes] at hs; cases r <;> simp_all

/-! ## the JSON contract and the driver's oracle -/

/-- what the theorems assume of `json.loads`: the text `json.dumps` produced, followed by blanks,
    parses to the value; no proper prefix of the text parses (the text of an object or array ends
    with its closing bracket) -/
structure JsonContract (parse : Bytes → Option H) (text : Bytes) (h : H) : Prop where
  full : ∀ ws : Bytes, (∀ b ∈ ws, b = 32 ∨ b = 10) → parse (text ++ ws) = some h
  cut : ∀ k, k < text.length → parse (text.take k) = none

theorem isPrefixOf_take_false {text : Bytes} {k : Nat} (hk : k < text.length) : text.isPrefixOf (text.take k) = false := by
  cases h : text.isPrefixOf (text.take k) with
  | false => rfl
  | true =>
    rw [List.isPrefixOf_iff_prefix] at h
    have := h.length_le
    simp [List.length_take] at this
    omega

/-- the oracle the compiled driver uses satisfies the contract -/
theorem oracle_contract (text : Bytes) (v : α) : JsonContract (oracleParse text v) text v := by
  constructor
  · intro ws hws
    unfold oracleParse
    have h1 : text.isPrefixOf (text ++ ws) = true := by
      rw [List.isPrefixOf_iff_prefix]; exact List.prefix_append _ _
    have h2 : ((text ++ ws).drop text.length).all isJsonWs = true := by
      rw [List.drop_left]
      rw [List.all_eq_true]
      intro b hb
      rcases hws b hb with rfl | rfl <;> decide
    simp only [h1, h2, Bool.and_self, if_true]
  · intro k hk
    unfold oracleParse
    simp [isPrefixOf_take_false hk]

end FileFmt
