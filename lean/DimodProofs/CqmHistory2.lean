import DimodProofs.CqmHistory
import DimodProofs.CqmRelabel

/-! Property C05 — the history fold extended to the builders and the remaining functional operations.

    `specStepAll` extends `specStep` (same value wherever that one is defined, except that `add_constraint` from an iterable
    is now covered for soft constraints too) to: `set_objective(model)`, `add_constraint(model | comparison)` hard and soft,
    copied or moved, the three `add_discrete` forms, `remove_variable`, `spin_to_binary`, `set_lower_bound` /
    `set_upper_bound`, `relabel_constraints`, `deepcopy`.  `add_variable` (given or generated label, stored bounds).  Outside: `flip_variable`, `change_vartype`, `relabel_variables` (per-field statements
    `relabel_refines`, `refines_flipVariable`, `refines_changeVartype`). -/

namespace CqmP
open Expr Cqm

theorem lcqm_ext' {a b : LCqm} (h1 : a.labels = b.labels) (h2 : a.info = b.info) (h3 : a.obj = b.obj) (h4 : a.cons = b.cons) : a = b := by
  cases a; cases b; simp only [LCqm.mk.injEq]; exact ⟨h1, h2, h3, h4⟩

/-- `add_variable` on the list of polynomials with the stored bounds given: an existing label is left alone (the call only
    succeeds when type and given bounds match), a new one — given, or generated from the labels present — is appended -/
def LCqm.addVariableCore (s : LCqm) (vt : VT4) (v : Option Label) (lbv ubv : Rat) : LCqm :=
  match v with
  | some l => if l ∈ s.labels then s
              else { s with labels := s.labels ++ [l], info := fun x => if x = l then some (vt, lbv, ubv) else s.info x }
  | none => { s with labels := s.labels ++ [LSpec.autoLabel s.labels],
                     info := fun x => if x = LSpec.autoLabel s.labels then some (vt, lbv, ubv) else s.info x }

/-- `add_variable(vartype, v, lower_bound, upper_bound)`: SPIN/BINARY bounds are fixed; otherwise the argument or the type's default -/
def LCqm.addVariable (s : LCqm) (vt : VT4) (v : Option Label) (lb ub : Option Rat) : LCqm :=
  s.addVariableCore vt v (if vt = .spin then -1 else if vt = .binary then 0 else lb.getD vt.defaultMin)
    (if vt = .spin then 1 else if vt = .binary then 1 else ub.getD vt.defaultMax)

theorem refines_addVariableCoreF {m m' : Cqm} (hwf : CqmWF m) (vt : VT4) (v : Option Label) (lbG ubG : Bool) (lbv ubv : Rat)
    (h' : m.addVariableCore vt v lbG ubG lbv ubv = (m', none)) : absCqm m' = (absCqm m).addVariableCore vt v lbv ubv := by
  unfold Cqm.addVariableCore at h'
  split_ifs at h'
  all_goals try (cases (Prod.mk.inj h').2)
  cases v with
  | none =>
    simp only [] at h'
    rw [← (Prod.mk.inj h').1]
    obtain ⟨a1, a2, a3, a4⟩ := absCqm_appendVar hwf vt lbv ubv (autoLabel_fresh m.labels)
    exact lcqm_ext' a1 (funext a2) a3 a4
  | some l0 =>
    simp only [] at h'
    cases hidx : m.idx? l0 with
    | some i =>
      rw [hidx] at h'
      simp only [] at h'
      split_ifs at h'
      all_goals try (cases (Prod.mk.inj h').2)
      rw [← (Prod.mk.inj h').1]
      have hmem : l0 ∈ m.labels := by
        by_contra hn
        have := (findIdx_none_iff (s := 0)).mpr hn
        unfold Cqm.idx? at hidx
        rw [this] at hidx; cases hidx
      show absCqm m = if l0 ∈ m.labels then absCqm m else _
      rw [if_pos hmem]
    | none =>
      rw [hidx] at h'
      simp only [] at h'
      rw [← (Prod.mk.inj h').1]
      have hn := idx?_none_not_mem hidx
      obtain ⟨a1, a2, a3, a4⟩ := absCqm_appendVar hwf vt lbv ubv hn
      show _ = if l0 ∈ m.labels then absCqm m else _
      rw [if_neg hn]
      exact lcqm_ext' a1 (funext a2) a3 a4

theorem refines_addVariableF {m m' : Cqm} (hwf : CqmWF m) (vt : VT4) (v : Option Label) (lb ub : Option Rat)
    (h : m.step (.addVariable vt v lb ub) = (m', none)) : absCqm m' = (absCqm m).addVariable vt v lb ub :=
  refines_addVariableCoreF hwf vt v _ _ _ _ h

/-! ### `change_vartype` and `flip_variable` as functions of the abstract state -/

/-- `change_vartype(vartype, v)` on the list of polynomials, as coded (C++ `change_vartype`): same type — nothing; SPIN→BINARY
    `s = 2x − 1`; BINARY→SPIN `x = (s + 1)/2`; SPIN→INTEGER `s = 2x − 1` with bounds [0, 1]; BINARY→INTEGER only the type
    (bounds kept); anything else raises (`none`) -/
def LCqm.changeVartype (s : LCqm) (vt : VT4) (v : Label) : Option LCqm :=
  match s.info v with
  | none => none
  | some (src, lb, ub) =>
    if src = vt then some s
    else if src = .spin && vt = .binary then some ((s.mapPolys (·.substitute v 2 (-1))).setInfo v (.binary, 0, 1))
    else if src = .binary && vt = .spin then some ((s.mapPolys (·.substitute v (1/2) (1/2))).setInfo v (.spin, -1, 1))
    else if src = .spin && vt = .integer then some ((s.mapPolys (·.substitute v 2 (-1))).setInfo v (.integer, 0, 1))
    else if src = .binary && vt = .integer then some (s.setInfo v (.integer, lb, ub))
    else none

theorem abs_subst_setInfo {m : Cqm} (h : RefInv m) {g : Nat} {v : Label} (hgl : m.labels[g]? = some v) (hglt : g < m.vt.length)
    (a c : Rat) (t : VT4) (lo hi : Rat) :
    absCqm { m.mapExprs (·.substitute g a c) with vt := setAt m.vt g t, lb := setAt m.lb g lo, ub := setAt m.ub g hi }
      = ((absCqm m).mapPolys (·.substitute v a c)).setInfo v (t, lo, hi) := by
  have hms := absCqm_mapSubstitute h.lab h.ks h.sorted hgl a c
  refine lcqm_ext' rfl ?_ ?_ ?_
  · exact absCqm_setInfo h.wf h.lab hgl _ _ _ t lo hi
      (fun k => getD_setAt _ _ _ _ _ hglt)
      (fun k => getD_setAt _ _ _ _ _ (by rw [h.wf.lb_len]; exact hglt))
      (fun k => getD_setAt _ _ _ _ _ (by rw [h.wf.ub_len]; exact hglt)) _ rfl
  · have := congrArg LCqm.obj hms; exact this
  · have := congrArg LCqm.cons hms; exact this

theorem abs_info_of_idx {m : Cqm} {g : Nat} {v : Label} (hg : m.idx? v = some g) :
    (absCqm m).info v = some (m.vt.getD g .binary, m.lb.getD g 0, m.ub.getD g 0) := by
  show (findIdx v m.labels 0).map _ = _
  have : findIdx v m.labels 0 = some g := hg
  rw [this]; rfl

theorem refines_changeVartypeF {m m' : Cqm} (h : RefInv m) (vt : VT4) (v : Label)
    (hstep : m.step (.changeVartype vt v) = (m', none)) : (absCqm m).changeVartype vt v = some (absCqm m') := by
  have h' : m.changeVartypeR vt v = (m', none) := hstep
  unfold Cqm.changeVartypeR at h'
  cases hg : m.idx? v with
  | none => rw [hg] at h'; cases (Prod.mk.inj h').2
  | some g =>
    rw [hg] at h'
    simp only [] at h'
    have hgl := idx?_get hg
    have hglt : g < m.vt.length := idx?_lt h.wf hg
    have hsrc : m.vt.getD g .integer = m.vt.getD g .binary := by
      simp [List.getD_eq_getElem?_getD, List.getElem?_eq_getElem hglt]
    cases hr : m.changeVartypeAt vt g with
    | mk m1 ok =>
      rw [hr] at h'
      cases ok with
      | false => simp only [] at h'; cases (Prod.mk.inj h').2
      | true =>
        simp only [] at h'
        have hm : m1 = m' := (Prod.mk.inj h').1
        subst hm
        unfold Cqm.changeVartypeAt at hr
        simp only [] at hr
        rw [hsrc] at hr
        unfold LCqm.changeVartype
        rw [abs_info_of_idx hg]
        simp only []
        split_ifs at hr ⊢
        · rw [← (Prod.mk.inj hr).1]
        · rw [← (Prod.mk.inj hr).1, abs_subst_setInfo h hgl hglt]
        · rw [← (Prod.mk.inj hr).1, abs_subst_setInfo h hgl hglt]
        · rw [← (Prod.mk.inj hr).1, abs_subst_setInfo h hgl hglt]
        · rw [← (Prod.mk.inj hr).1]
          congr 1
          refine lcqm_ext' rfl ?_ rfl rfl
          exact (absCqm_setInfo h.wf h.lab hgl (setAt m.vt g .integer) m.lb m.ub .integer (m.lb.getD g 0) (m.ub.getD g 0)
            (fun k => getD_setAt _ _ _ _ _ hglt)
            (fun k => by by_cases hk : k = g <;> simp [hk])
            (fun k => by by_cases hk : k = g <;> simp [hk]) m rfl).symm
        · cases (Prod.mk.inj hr).2

/-- `flip_variable(v)` of a SPIN variable on the list of polynomials: `s ↦ −s` in every expression (the BINARY branch also
    clears the mark of the discrete constraints containing `v`, decided by the index-level `is_discrete`: not a function of
    the label-keyed polynomials, `none` here) -/
def LCqm.flipSpin (s : LCqm) (v : Label) : Option LCqm :=
  if s.vtOf v = .spin then some (s.mapPolys (·.substitute v (-1) 0)) else none

theorem refines_flipSpin {m m' : Cqm} (h : RefInv m) (v : Label) (s' : LCqm) (hs : (absCqm m).flipSpin v = some s')
    (hstep : m.step (.flipVariable v) = (m', none)) : absCqm m' = s' := by
  unfold LCqm.flipSpin at hs
  split_ifs at hs with hsp
  injection hs with hs
  rw [← hs]
  obtain ⟨g, hg, hcase⟩ := refines_flipVariable h.lab h.ks h.sorted v hstep
  have hglt : g < m.vt.length := idx?_lt h.wf hg
  have hsrc : m.vt.getD g .integer = m.vt.getD g .binary := by
    simp [List.getD_eq_getElem?_getD, List.getElem?_eq_getElem hglt]
  have hvt : (absCqm m).vtOf v = m.vt.getD g .binary := by
    unfold LCqm.vtOf; rw [abs_info_of_idx hg]
  rcases hcase with ⟨_, habs⟩ | ⟨hb, _⟩
  · exact habs
  · rw [hsrc, ← hvt, hsp] at hb; cases hb

def specStepAll (s : LCqm) : Op → Option LCqm
  | .changeVartype vt v => s.changeVartype vt v
  | .flipVariable v => s.flipSpin v
  | .addVariable vt v lb ub => some (s.addVariable vt v lb ub)
  | .addConstraintTerms ts sense rhs label weight pen =>
    some { s with cons := s.cons ++
      [(label, { LCons.hard (ts.foldl (LPoly.addTerm s.vtOf) LPoly.empty) sense rhs with
                  weight := weight, quadPenalty := weight.isSome && decide (pen = 1) })] }
  | .setObjectiveModel mi => some { s.addMissing mi with obj := LPoly.ofModel mi }
  | .addConstraintModel mi sense rhs label _ weight pen =>
    some { s.addMissing mi with cons := (s.addMissing mi).cons ++
      [(label, { LCons.hard (LPoly.ofModel mi) sense rhs with weight := weight, quadPenalty := weight.isSome && decide (pen = 1) })] }
  | .addDiscreteModel mi label _ _ =>
    some { s.addMissing mi with cons := (s.addMissing mi).cons ++ [(label, { LCons.hard (LPoly.ofModel mi) .eq 1 with discrete := true })] }
  | .addDiscreteComparison mi _ _ label _ _ =>
    some { s.addMissing mi with cons := (s.addMissing mi).cons ++ [(label, { LCons.hard (LPoly.ofModel mi) .eq 1 with discrete := true })] }
  | .addDiscreteVars vs label _ =>
    some { s.addMissing (discreteModelOf vs) with cons := (s.addMissing (discreteModelOf vs)).cons ++
      [(label, { LCons.hard (LPoly.ofModel (discreteModelOf vs)) .eq 1 with discrete := true })] }
  | .removeVariable v => some (s.removeVariable v)
  | .spinToBinary => some (s.labels.foldl LCqm.spinToBinaryAt s)
  | .setLowerBound v x => (s.info v).map fun i => s.setInfo v (i.1, x, i.2.2)
  | .setUpperBound v x => (s.info v).map fun i => s.setInfo v (i.1, i.2.1, x)
  | .relabelConstraints mp => some { s with cons := s.cons.map (fun p => (renameOf mp p.1, p.2)) }
  | .deepcopy => some s
  | op => specStep s op

def specRunAll (s : LCqm) : List Op → Option LCqm
  | [] => some s
  | op :: t => (specStepAll s op).bind fun s' => specRunAll s' t

/-- what every real argument satisfies: a model handed over is well formed and has no self-loop on a BINARY / SPIN variable -/
def OpOK2 : Op → Prop
  | .setObjectiveModel mi => ModelInOK mi ∧ ModelNoSelf mi
  | .addConstraintModel mi _ _ _ _ _ _ => ModelInOK mi ∧ ModelNoSelf mi
  | .addDiscreteModel mi _ _ _ => ModelInOK mi
  | .addDiscreteComparison mi _ _ _ _ _ => ModelInOK mi
  | _ => True

theorem OpOK2.ok {op : Op} (h : OpOK2 op) : OpOK op := by
  cases op <;> first | exact h.1 | exact h | trivial

theorem lcqm_ext {a b : LCqm} (h1 : a.labels = b.labels) (h2 : a.info = b.info) (h3 : a.obj = b.obj) (h4 : a.cons = b.cons) : a = b := by
  cases a; cases b; simp only [LCqm.mk.injEq]; exact ⟨h1, h2, h3, h4⟩

theorem specStepAll_refines {m : Cqm} (h : RefInv m) (op : Op) (hop : OpOK2 op) (s' : LCqm)
    (hs : specStepAll (absCqm m) op = some s') (hok : (m.step op).2 = none) : absCqm (m.step op).1 = s' := by
  have hm : m.step op = ((m.step op).1, none) := Prod.ext rfl hok
  cases op with
  | addConstraintTerms ts sense rhs label weight pen =>
    injection hs with hs; rw [← hs]
    exact (refines_addConstraintTermsW h.wf h.lab ts sense rhs label weight pen hm).2.2
  | setObjectiveModel mi =>
    injection hs with hs; rw [← hs]
    exact (refines_setObjectiveModel h.wf h.lab hop.1 hop.2 hm).2
  | addConstraintModel mi sense rhs label copy weight pen =>
    injection hs with hs; rw [← hs]
    exact (refines_addConstraintModel h.wf h.lab hop.1 hop.2 sense rhs label copy weight pen hm).2.2.2
  | addDiscreteModel mi label copy chk =>
    injection hs with hs; rw [← hs]
    exact (refines_addDiscreteModel h.wf h.lab hop label copy chk hm).2.2.2.2
  | addDiscreteComparison mi sense rhs label copy chk =>
    injection hs with hs; rw [← hs]
    have h3 := (refines_addDiscreteComparison mi sense rhs label copy chk hm).2.2
    exact (refines_addDiscreteModel h.wf h.lab hop label copy chk h3).2.2.2.2
  | addDiscreteVars vs label chk =>
    injection hs with hs; rw [← hs]
    exact (refines_addDiscreteVars h.wf h.lab vs label chk hm).2.2.2
  | removeVariable v =>
    injection hs with hs; rw [← hs]
    exact refines_removeVariable h.wf h.lab.labels_nodup v hm
  | spinToBinary =>
    injection hs with hs; rw [← hs]
    exact refines_spinToBinary ⟨h.wf, h.lab, h.ks, h.sorted⟩ hm
  | setLowerBound v x =>
    obtain ⟨vt, lb, ub, hi, _, _, _, _, _, habs⟩ := refines_setLowerBound h.wf h.lab v x hm
    simp only [specStepAll, hi, Option.map_some, Option.some.injEq] at hs
    rw [← hs]; exact habs
  | setUpperBound v x =>
    obtain ⟨vt, lb, ub, hi, _, _, _, _, _, habs⟩ := refines_setUpperBound h.wf h.lab v x hm
    simp only [specStepAll, hi, Option.map_some, Option.some.injEq] at hs
    rw [← hs]; exact habs
  | relabelConstraints mp =>
    injection hs with hs; rw [← hs]
    obtain ⟨a1, a2, a3, a4⟩ := absCqm_relabelConstraints mp hm
    exact lcqm_ext a3 a4 a2 a1
  | deepcopy =>
    injection hs with hs
  | addVariable vt v lb ub =>
    injection hs with hs; rw [← hs]
    exact refines_addVariableF h.wf vt v lb ub hm
  | setObjectiveTerms ts => exact specStep_refines h _ s' hs hok
  | fixVariable v a => exact specStep_refines h _ s' hs hok
  | fixVariables fixed => exact specStep_refines h _ s' hs hok
  | flipVariable v => exact refines_flipSpin h v s' hs hm
  | changeVartype vt v =>
    have := refines_changeVartypeF h vt v hm
    have hs2 : (absCqm m).changeVartype vt v = some s' := hs
    rw [this] at hs2
    exact Option.some.inj hs2
  | removeConstraint label cascade => exact specStep_refines h _ s' hs hok
  | relabelVariables mp => exact specStep_refines h _ s' hs hok
  | viewAddLinear w v b => exact specStep_refines h _ s' hs hok
  | viewSetLinear w v b => exact specStep_refines h _ s' hs hok
  | viewAddQuadratic w u v b => exact specStep_refines h _ s' hs hok
  | viewRemoveInteraction w u v => exact specStep_refines h _ s' hs hok
  | viewRemoveVariable w v => exact specStep_refines h _ s' hs hok
  | viewSetOffset w b => exact specStep_refines h _ s' hs hok
  | viewMarkDiscrete l mark => exact specStep_refines h _ s' hs hok
  | viewSetWeight l weight pen => exact specStep_refines h _ s' hs hok

theorem specRunAll_refines (ops : List Op) : ∀ {m : Cqm}, RefInv m → (∀ op ∈ ops, OpOK2 op) → Succeeds m ops →
    ∀ s', specRunAll (absCqm m) ops = some s' → absCqm (m.run ops) = s' := by
  induction ops with
  | nil =>
    intro m _ _ _ s' hs
    injection hs
  | cons op t ih =>
    intro m h hops hsucc s' hs
    unfold Cqm.run
    rw [List.foldl_cons]
    simp only [specRunAll] at hs
    cases hstep : specStepAll (absCqm m) op with
    | none => rw [hstep] at hs; cases hs
    | some s1 =>
      rw [hstep] at hs
      have h1 := specStepAll_refines h op (hops op List.mem_cons_self) s1 hstep hsucc.1
      have hs' : specRunAll s1 t = some s' := hs
      rw [← h1] at hs'
      exact ih (refInv_step h op (hops op List.mem_cons_self).ok) (fun o ho => hops o (List.mem_cons_of_mem _ ho)) hsucc.2 s' hs'

/-- the operations the extended fold covers -/
def inFold : Op → Bool
  | .relabelVariables .. => false
  | _ => true

end CqmP
