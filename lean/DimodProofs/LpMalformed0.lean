import DimodProofs.LpReader

/-! C12: kernel evaluation of the refusals of `LpCpp.malformedTexts`, part 0 of 3 (parallel modules; used by
`C12.cpp_reader_refuses_malformed`). -/

namespace LpCpp

theorem malformed_part_0 : ∀ t ∈ malformedPart 0, loads t = .error .refused := by decide +kernel

end LpCpp
