import DimodModel.Enumerate
import Mathlib.Tactic.Ring
import Mathlib.Tactic.Linarith
import Mathlib.Data.Rat.Defs
import Mathlib.Algebra.Order.Field.Rat

/-! C07: `expand_initial_state` gives every introduced product variable the product of its factors and
    every auxiliary spin a value that minimises its penalty term, without touching the given values. -/

namespace Enum

theorem find_filter_ne (st : List (Label × Rat)) (l k : Label) (hk : k ≠ l) :
    (st.filter (fun q => q.1 ≠ l)).find? (fun q => q.1 = k) = st.find? (fun q => q.1 = k) := by
  induction st with
  | nil => rfl
  | cons a t ih =>
    by_cases ha : a.1 = l
    · have hak : ¬ a.1 = k := by rw [ha]; exact fun h => hk h.symm
      rw [List.filter_cons_of_neg (by simp [ha]), List.find?_cons_of_neg (by simp [hak]), ih]
    · rw [List.filter_cons_of_pos (by simp [ha])]
      by_cases hak : a.1 = k
      · rw [List.find?_cons_of_pos (by simp [hak]), List.find?_cons_of_pos (by simp [hak])]
      · rw [List.find?_cons_of_neg (by simp [hak]), List.find?_cons_of_neg (by simp [hak]), ih]

theorem find_filter_self (st : List (Label × Rat)) (k : Label) :
    (st.filter (fun q => q.1 ≠ k)).find? (fun q => q.1 = k) = none := by
  apply List.find?_eq_none.mpr
  intro q hq
  have := (List.mem_filter.mp hq).2
  simpa using this

theorem stVal_stSet (st : List (Label × Rat)) (l k : Label) (x : Rat) :
    stVal (stSet st l x) k = if k = l then x else stVal st k := by
  unfold stVal stSet
  rw [List.find?_append]
  by_cases hk : k = l
  · subst hk
    rw [find_filter_self, if_pos rfl, List.find?_cons_of_pos (by simp)]
    rfl
  · rw [find_filter_ne st l k hk, if_neg hk, List.find?_cons_of_neg (by simpa using Ne.symm hk)]
    simp

/-- the reductions are listed in the order they were made: the factors of each are already known, its
    product and auxiliary labels are new -/
def Fresh : List RedX → List Label → Prop
  | [], _ => True
  | d :: ds, known =>
    d.u ∈ known ∧ d.v ∈ known ∧ d.p ∉ known ∧
    match d.aux with
    | none => Fresh ds (d.p :: known)
    | some (a, _, _, _) => a ∉ known ∧ a ≠ d.p ∧ Fresh ds (a :: d.p :: known)

theorem expandStep_spec (st : List (Label × Rat)) (d : RedX) (known : List Label)
    (hu : d.u ∈ known) (hv : d.v ∈ known) (hp : d.p ∉ known)
    (ha : ∀ a cu cv cp, d.aux = some (a, cu, cv, cp) → a ∉ known ∧ a ≠ d.p) :
    (∀ l ∈ known, stVal (expandStep st d) l = stVal st l) ∧
    stVal (expandStep st d) d.p = stVal st d.u * stVal st d.v ∧
    (∀ a cu cv cp, d.aux = some (a, cu, cv, cp) →
      let s := expandStep st d
      let en := stVal s d.u * cu + stVal s d.v * cv + stVal s d.p * cp
      (stVal s a = 1 ∨ stVal s a = -1) ∧ en * stVal s a ≤ en * (- stVal s a)) := by
  have hup : d.u ≠ d.p := fun h => hp (h ▸ hu)
  have hvp : d.v ≠ d.p := fun h => hp (h ▸ hv)
  cases haux : d.aux with
  | none =>
    simp only [expandStep, haux]
    refine ⟨?_, by rw [stVal_stSet]; simp, by intro a cu cv cp h; simp at h⟩
    intro l hl
    rw [stVal_stSet, if_neg (show ¬ l = d.p from fun h => hp (h ▸ hl))]
  | some t =>
    obtain ⟨a, cu, cv, cp⟩ := t
    obtain ⟨hak, hap⟩ := ha a cu cv cp haux
    have hau : d.u ≠ a := fun h => hak (h ▸ hu)
    have hav : d.v ≠ a := fun h => hak (h ▸ hv)
    simp only [expandStep, haux]
    refine ⟨?_, ?_, ?_⟩
    · intro l hl
      rw [stVal_stSet, if_neg (show ¬ l = a from fun h => hak (h ▸ hl)), stVal_stSet, if_neg (show ¬ l = d.p from fun h => hp (h ▸ hl))]
    · rw [stVal_stSet, if_neg (Ne.symm hap), stVal_stSet]; simp
    · intro a' cu' cv' cp' h
      simp only [Option.some.injEq, Prod.mk.injEq] at h
      obtain ⟨rfl, rfl, rfl, rfl⟩ := h
      simp only [stVal_stSet, if_neg hau, if_neg hav, if_neg (Ne.symm hap), if_true, if_neg hup, if_neg hvp]
      split
      · rename_i hen
        exact ⟨Or.inr rfl, by linarith⟩
      · rename_i hen
        exact ⟨Or.inl rfl, by linarith⟩

/-- C07 `expand_initial_state`: the given values are kept, and for every reduction (processed in order)
    the product variable is the product of its factors in the final state -/
theorem expandInitialState_spec (reds : List RedX) (st : List (Label × Rat)) (known : List Label) (hf : Fresh reds known) :
    (∀ l ∈ known, stVal (expandInitialState reds st) l = stVal st l) ∧
    ∀ d ∈ reds, stVal (expandInitialState reds st) d.p =
      stVal (expandInitialState reds st) d.u * stVal (expandInitialState reds st) d.v := by
  induction reds generalizing st known with
  | nil => exact ⟨fun _ _ => rfl, by intro d hd; simp at hd⟩
  | cons d ds ih =>
    have hcons : expandInitialState (d :: ds) st = expandInitialState ds (expandStep st d) := rfl
    rw [hcons]
    obtain ⟨hu, hv, hp, hrest⟩ := hf
    cases haux : d.aux with
    | none =>
      rw [haux] at hrest
      obtain ⟨k1, k2, _⟩ := expandStep_spec st d known hu hv hp (by intro a cu cv cp h; rw [haux] at h; simp at h)
      obtain ⟨i1, i2⟩ := ih (expandStep st d) (d.p :: known) hrest
      refine ⟨fun l hl => by rw [i1 l (List.mem_cons_of_mem _ hl), k1 l hl], ?_⟩
      intro e he
      rcases List.mem_cons.mp he with rfl | he'
      · rw [i1 e.p (List.mem_cons_self), i1 e.u (List.mem_cons_of_mem _ hu), i1 e.v (List.mem_cons_of_mem _ hv), k2, k1 _ hu, k1 _ hv]
      · exact i2 e he'
    | some t =>
      obtain ⟨a, cu, cv, cp⟩ := t
      rw [haux] at hrest
      obtain ⟨hak, hap, hrest'⟩ := hrest
      obtain ⟨k1, k2, _⟩ := expandStep_spec st d known hu hv hp
        (by intro a' cu' cv' cp' h; rw [haux] at h; simp only [Option.some.injEq, Prod.mk.injEq] at h; obtain ⟨rfl, _⟩ := h; exact ⟨hak, hap⟩)
      obtain ⟨i1, i2⟩ := ih (expandStep st d) (a :: d.p :: known) hrest'
      have mk : ∀ l ∈ known, l ∈ a :: d.p :: known := fun l hl => List.mem_cons_of_mem _ (List.mem_cons_of_mem _ hl)
      refine ⟨fun l hl => by rw [i1 l (mk l hl), k1 l hl], ?_⟩
      intro e he
      rcases List.mem_cons.mp he with rfl | he'
      · rw [i1 e.p (List.mem_cons_of_mem _ List.mem_cons_self), i1 e.u (mk _ hu), i1 e.v (mk _ hv), k2, k1 _ hu, k1 _ hv]
      · exact i2 e he'

/-- the auxiliary spin written by a step minimises its penalty term `en·aux` over `{1, -1}` -/
theorem expandStep_aux_minimises (st : List (Label × Rat)) (d : RedX) (known : List Label)
    (hu : d.u ∈ known) (hv : d.v ∈ known) (hp : d.p ∉ known) (a : Label) (cu cv cp : Rat)
    (haux : d.aux = some (a, cu, cv, cp)) (hak : a ∉ known) (hap : a ≠ d.p) :
    let s := expandStep st d
    let en := stVal s d.u * cu + stVal s d.v * cv + stVal s d.p * cp
    (stVal s a = 1 ∨ stVal s a = -1) ∧ en * stVal s a ≤ en * (- stVal s a) :=
  (expandStep_spec st d known hu hv hp (by
    intro a' cu' cv' cp' h; rw [haux] at h
    simp only [Option.some.injEq, Prod.mk.injEq] at h; obtain ⟨rfl, _⟩ := h; exact ⟨hak, hap⟩)).2.2 a cu cv cp haux

end Enum
