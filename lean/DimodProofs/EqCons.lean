import Mathlib.Algebra.BigOperators.Fin
import Mathlib.Algebra.BigOperators.Ring.Finset
import Mathlib.Tactic.Ring
import Mathlib.Tactic.Linarith

/-! Feasibility prototype (scratch): `add_linear_equality_constraint` adds λ(Σ aᵢxᵢ + C)².
    Terms are indexed by *positions* `i : Fin k` with a label map `lab : Fin k → V`, so repeated
    labels are allowed (the case the Python fallback gets wrong, D22). -/

open Finset

variable {R : Type} [CommRing R]

/-- what the Cython implementation adds, expressed on the sample values `x : V → R`:
    offset λC², per position a linear term, per ordered pair i<j a product term
    (for i<j with the same label the C++ `add_quadratic(u,u)` folds x*x to x resp. 1). -/
def addedBinary {k : Nat} {V : Type} (lam C : R) (a : Fin k → R) (lab : Fin k → V) (x : V → R) : R :=
  lam * C * C
  + ∑ i, lam * a i * (2 * C + a i) * x (lab i)
  + ∑ i, ∑ j, if i < j then 2 * lam * a i * a j * (x (lab i) * x (lab j)) else 0

theorem sum_sq_expand {k : Nat} (f : Fin k → R) :
    (∑ i, f i) * (∑ i, f i) = ∑ i, f i * f i + 2 * ∑ i, ∑ j, if i < j then f i * f j else 0 := by
  rw [sum_mul_sum]
  have hsplit : ∀ i j : Fin k, f i * f j =
      (if i = j then f i * f j else 0) + (if i < j then f i * f j else 0) + (if j < i then f i * f j else 0) := by
    intro i j
    rcases lt_trichotomy i j with h | h | h
    · simp [h, ne_of_lt h, not_lt_of_gt h]
    · subst h; simp
    · simp [h, ne_of_gt h, not_lt_of_gt h]
  calc ∑ i, ∑ j, f i * f j
      = ∑ i, ∑ j, ((if i = j then f i * f j else 0) + (if i < j then f i * f j else 0)
            + (if j < i then f i * f j else 0)) := by
        apply sum_congr rfl; intro i _; apply sum_congr rfl; intro j _; exact hsplit i j
    _ = ∑ i, f i * f i + ∑ i, ∑ j, (if i < j then f i * f j else 0)
          + ∑ i, ∑ j, (if j < i then f i * f j else 0) := by
        simp only [sum_add_distrib]
        congr 2
        apply sum_congr rfl; intro i _; simp
    _ = ∑ i, f i * f i + 2 * ∑ i, ∑ j, if i < j then f i * f j else 0 := by
        have : ∑ i, ∑ j, (if j < i then f i * f j else 0) = ∑ i, ∑ j, (if i < j then f i * f j else 0) := by
          rw [Finset.sum_comm]
          apply sum_congr rfl; intro i _; apply sum_congr rfl; intro j _
          split <;> simp [mul_comm]
        rw [this]; ring

/-- C16 `eq_constraint_adds_square`, BINARY: for samples with x² = x on every variable. -/
theorem added_binary_eq_square {k : Nat} {V : Type} (lam C : R) (a : Fin k → R) (lab : Fin k → V)
    (x : V → R) (hx : ∀ v, x v * x v = x v) :
    addedBinary lam C a lab x = lam * ((∑ i, a i * x (lab i)) + C) * ((∑ i, a i * x (lab i)) + C) := by
  have hsq := sum_sq_expand (fun i => a i * x (lab i))
  have hdiag : ∑ i, (a i * x (lab i)) * (a i * x (lab i)) = ∑ i, a i * a i * x (lab i) := by
    apply sum_congr rfl; intro i _
    calc a i * x (lab i) * (a i * x (lab i)) = a i * a i * (x (lab i) * x (lab i)) := by ring
      _ = a i * a i * x (lab i) := by rw [hx]
  unfold addedBinary
  have e : lam * ((∑ i, a i * x (lab i)) + C) * ((∑ i, a i * x (lab i)) + C)
      = lam * ((∑ i, a i * x (lab i)) * (∑ i, a i * x (lab i))) + 2 * lam * C * (∑ i, a i * x (lab i)) + lam * C * C := by ring
  rw [e, hsq, hdiag]
  simp only [mul_sum, mul_add, sum_add_distrib]
  have h1 : ∀ i, lam * a i * (2 * C) * x (lab i) + lam * a i * a i * x (lab i)
      = lam * (a i * a i * x (lab i)) + 2 * lam * C * (a i * x (lab i)) := by intro i; ring
  have h2 : ∀ i j : Fin k, (if i < j then 2 * lam * a i * a j * (x (lab i) * x (lab j)) else 0)
      = lam * (2 * (if i < j then a i * x (lab i) * (a j * x (lab j)) else 0)) := by
    intro i j; split <;> ring
  simp only [add_mul, h2]
  rw [← sum_add_distrib]
  simp only [h1, sum_add_distrib, mul_sum]
  ring

#print axioms added_binary_eq_square
