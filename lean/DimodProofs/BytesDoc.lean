import DimodModel.BytesDoc
import DimodProofs.Pack

namespace Pack

theorem length_tobytesInt (t : IntType) (data : List Int) : (tobytesInt t data).length = data.length * t.size := by
  induction data with
  | nil => simp [tobytesInt]
  | cons z l ih =>
    simp only [tobytesInt, List.flatMap_cons, List.length_append, List.length_cons] at ih ⊢
    rw [ih, encodeInt, length_toBytesLE, Nat.add_mul, Nat.one_mul, Nat.add_comm]

/-- document level: the `use_bytes=True` dict read back by `deserialize_ndarray` is the array -/
theorem bytesdoc_roundtrip (a : IntArr) (hs : 0 < a.t.size) (hl : a.data.length = prod a.shape) (h : ∀ z ∈ a.data, a.t.holds z) :
    deserializeArrDoc (serializeArrDoc a true) = some a := by
  have hc : (tobytesInt a.t a.data).length / a.t.size = a.data.length := by
    rw [length_tobytesInt, Nat.mul_div_cancel _ hs]
  simp only [deserializeArrDoc, serializeArrDoc, if_true, hc, hl]
  rw [← hl, bytes_roundtrip_int a.t a.data h]

end Pack
