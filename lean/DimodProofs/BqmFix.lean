import DimodProofs.BqmAuto

/-! `fix_variable(v, a)` (the Python mixin's loop over the neighbourhood, then offset, then `remove_variable`)
    refines substitution of the value `a` for `v` in the plain polynomial.  Core Lean only. -/

namespace Bqm

/-- substitute `x_v := a` and drop `v` -/
def LPoly.fixVariable (p : LPoly) (v : Label) (a : Rat) : LPoly :=
  LPoly.removeVariable
    { p with lin := fun l => p.lin l + a * (1 * (p.quad v l).getD 0), off := p.off + a * p.lin v } v

theorem indexOf?_of_get {m : Bqm} (hn : m.labels.Nodup) {i : Nat} {l : Label} (h : m.labels[i]? = some l) :
    m.indexOf? l = some i := by
  have hmem : l ∈ m.labels := List.mem_of_getElem? h
  obtain ⟨k, hk⟩ := indexOf?_isSome_of_mem m l hmem
  have h1 := indexOf?_some hk
  have hi : i < m.labels.length := by
    rcases Nat.lt_or_ge i m.labels.length with hh | hh
    · exact hh
    · rw [List.getElem?_eq_none hh] at h; cases h
  have : k = i := nodup_getElem?_inj m.labels hn k i h1.1 hi (h1.2.trans h.symm)
  rw [hk, this]

/-- what the loop does: labels, adjacency, offset, vartype untouched; each neighbour's linear bias gets
    `a · bias` exactly once (the neighbourhood is strictly sorted) -/
theorem fixLoop_spec (m : Bqm) (a : Rat) (nb : List (Nat × Rat)) (hs : NbSorted nb) :
    ∀ (acc : Bqm), acc.labels = m.labels → acc.vt = m.vt → acc.adj = m.adj → acc.off = m.off →
      m.labels.Nodup → acc.lin.length = m.labels.length → (∀ p ∈ nb, p.1 < m.labels.length) →
      let r := nb.foldl (fixStep m.vt a 1) acc
      r.labels = m.labels ∧ r.vt = m.vt ∧ r.adj = m.adj ∧ r.off = m.off ∧ r.lin.length = m.labels.length ∧
      ∀ j, r.lin.getD j 0 = acc.lin.getD j 0 + a * (1 * (nbhCoef nb j).getD 0) := by
  induction nb with
  | nil =>
    intro acc hl hv ha ho _ hlen _
    simp only [List.foldl]
    refine ⟨hl, hv, ha, ho, hlen, ?_⟩
    intro j; simp [nbhCoef, Rat.mul_zero, Rat.add_zero]
  | cons p t ih =>
    intro acc hl hv ha ho hn hlen hb
    have ht : NbSorted t := (List.pairwise_cons.mp hs).2
    have hw : ∀ q ∈ t, p.1 < q.1 := (List.pairwise_cons.mp hs).1
    have hp : p.1 < m.labels.length := hb p (by simp)
    simp only [List.foldl]
    -- the step on `acc`
    have hget : acc.labels[p.1]? = some (m.labels[p.1]'hp) := by rw [hl]; exact List.getElem?_eq_getElem hp
    have hidx : acc.indexOf? (m.labels[p.1]'hp) = some p.1 := indexOf?_of_get (by rw [hl]; exact hn) hget
    have hstep : fixStep m.vt a 1 acc p = { acc with lin := modifyAt acc.lin p.1 (· + a * (1 * p.2)) } := by
      unfold fixStep
      rw [hget]
      simp only []
      unfold Bqm.vAddLinear
      rw [if_pos hv.symm]
      unfold Bqm.addLinear Bqm.indexP
      rw [hidx]
    rw [hstep]
    have r := ih ht { acc with lin := modifyAt acc.lin p.1 (· + a * (1 * p.2)) } hl hv ha ho hn (by simp [hlen])
      (fun q hq => hb q (List.mem_cons_of_mem _ hq))
    simp only [] at r
    refine ⟨r.1, r.2.1, r.2.2.1, r.2.2.2.1, r.2.2.2.2.1, ?_⟩
    intro j
    rw [r.2.2.2.2.2 j]
    obtain ⟨w, c⟩ := p
    simp only [nbhCoef]
    by_cases hj : w = j
    · subst hj
      have hnone : nbhCoef t w = none := nbhCoef_none_of_lt t w (fun q hq => by have := hw q hq; simpa using this)
      rw [getD_modifyAt_self _ _ _ _ (by rw [hlen]; exact hp), hnone]
      simp [Rat.mul_zero, Rat.add_zero]
    · rw [getD_modifyAt_ne _ _ _ _ _ hj]
      simp [hj]

theorem fixVariable_refines {m : Bqm} (i : Inv m) (v : Label) (a : Rat) {vi : Nat} (hv : m.indexOf? v = some vi) :
    absL (m.vFixVariable m.vt v a).1 = (absL m).fixVariable v a ∧ (m.vFixVariable m.vt v a).2 = none ∧
    Inv (m.vFixVariable m.vt v a).1 := by
  have hvi : vi < m.labels.length := (indexOf?_some hv).1
  have hf : m.vQuadFactor m.vt = 1 := by unfold Bqm.vQuadFactor; simp
  have hb : ∀ p ∈ m.nbhAt vi, p.1 < m.labels.length := by
    intro p hp
    rw [i.wf.labels_len]
    apply i.wf.adj.bound vi p.1
    show (nbhCoef (m.adj.getD vi []) p.1).isSome
    rw [nbhCoef_isSome_iff]; exact ⟨p, hp, rfl⟩
  have L := fixLoop_spec m a (m.nbhAt vi) (i.wf.adj.sorted vi) m rfl rfl rfl rfl i.nodup i.wf.labels_len.symm hb
  simp only [] at L
  -- the call, unfolded
  have hcall : m.vFixVariable m.vt v a =
      (let r := (m.nbhAt vi).foldl (fixStep m.vt a 1) m
       ({ r with off := r.off + a * r.linAt vi } : Bqm).removeVariable (some v)) := by
    unfold Bqm.vFixVariable
    rw [hv]
    simp only [hf]
    have e1 : ∀ (r : Bqm), r.vt = m.vt → r.vSetOffset m.vt (r.vOffset m.vt + a * r.vGetLinear m.vt vi) = { r with off := r.off + a * r.linAt vi } := by
      intro r hr
      unfold Bqm.vSetOffset Bqm.vOffset Bqm.vGetLinear
      simp [hr]
    have e2 : ∀ (r : Bqm), r.vt = m.vt → r.vRemoveVariable m.vt (some v) = r.removeVariable (some v) := by
      intro r hr; unfold Bqm.vRemoveVariable; simp [hr]
    show (Bqm.vRemoveVariable (Bqm.vSetOffset ((m.nbhAt vi).foldl (fixStep m.vt a 1) m) m.vt _) m.vt (some v)) = _
    rw [e1 _ L.2.1, e2 _ (by show ((m.nbhAt vi).foldl (fixStep m.vt a 1) m).vt = m.vt; exact L.2.1)]
  rw [hcall]
  simp only []
  generalize hr : (m.nbhAt vi).foldl (fixStep m.vt a 1) m = r at L
  obtain ⟨hl, hvt, hadj, hoff, hlen, hlin⟩ := L
  let M2 : Bqm := { r with off := r.off + a * r.linAt vi }
  have hidx2 : M2.indexOf? v = some vi := by
    show indexOfGo v r.labels 0 = some vi; rw [hl]; exact hv
  have wf2 : WF M2 := by
    refine ⟨by show r.labels.length = r.lin.length; rw [hl, hlen], ?_⟩
    show AdjWF r.lin.length r.adj _
    rw [hlen, hadj, i.wf.labels_len]; exact i.wf.adj
  have nd2 : M2.labels.Nodup := by show r.labels.Nodup; rw [hl]; exact i.nodup
  have hrem : M2.removeVariable (some v) = (M2.removeAt vi, none) := by
    unfold Bqm.removeVariable; simp only [hidx2]
  show absL (M2.removeVariable (some v)).1 = _ ∧ (M2.removeVariable (some v)).2 = none ∧ Inv (M2.removeVariable (some v)).1
  rw [hrem]
  refine ⟨?_, rfl, ⟨wf2.removeAt vi (by show vi < r.lin.length; rw [hlen]; exact hvi), nodup_eraseIdx _ _ nd2⟩⟩
  rw [removeAt_refines wf2 nd2 hidx2]
  unfold LPoly.fixVariable
  congr 1
  apply LPoly.ext'
  · exact hl
  · intro l
    show linL M2 l = m.linL l + a * (1 * (m.quadL v l).getD 0)
    unfold linL quadL
    show (match indexOfGo l r.labels 0 with | some j => r.lin.getD j 0 | none => 0) = _
    rw [hl, hv]
    show (match m.indexOf? l with | some j => r.lin.getD j 0 | none => 0) = _
    cases hj : m.indexOf? l with
    | none => simp [Rat.mul_zero, Rat.add_zero]
    | some j => simp only []; rw [hlin j]; rfl
  · intro x y
    show quadL M2 x y = m.quadL x y
    unfold quadL
    show (match indexOfGo x r.labels 0, indexOfGo y r.labels 0 with
          | some p, some q => coefAt r.adj p q | _, _ => none) = _
    rw [hl, hadj]; rfl
  · show r.off + a * r.linAt vi = m.off + a * m.linL v
    rw [hoff]
    have : r.linAt vi = m.linL v := by
      unfold Bqm.linAt linL; rw [hv, hlin vi]
      have : nbhCoef (m.nbhAt vi) vi = none := i.wf.adj.noself vi rfl
      rw [this]; simp [Rat.mul_zero, Rat.add_zero]
    rw [this]
  · exact hvt

/-! ### the fragment with `fix_variable` -/

inductive EditF : Op → Prop
  | edit {op : Op} (h : Edit op) : EditF op
  | fixVariable (v : Label) (a : Rat) : EditF (.fixVariable v a)

def LPoly.stepF (p : LPoly) (op : Op) : LPoly × Bool :=
  match op with
  | .fixVariable v a => if v ∈ p.vars then (p.fixVariable v a, true) else (p, false)
  | op => p.stepE op

def LPoly.runF (p : LPoly) : List Op → LPoly
  | [] => p
  | op :: t => LPoly.runF (p.stepF op).1 t

theorem step_refinesF {m : Bqm} (i : Inv m) {op : Op} (he : EditF op) :
    absL (m.step .direct op).1 = ((absL m).stepF op).1 ∧
    ((m.step .direct op).2 = none ↔ ((absL m).stepF op).2 = true) ∧
    Inv (m.step .direct op).1 := by
  cases he with
  | edit h =>
    have s := step_refinesE i h
    have e : (absL m).stepF op = (absL m).stepE op := by
      cases h with
      | basic hb => cases hb <;> rfl
      | addVariableAuto b => rfl
      | resize k => rfl
      | removeLast => rfl
    rw [e]; exact s
  | fixVariable v a =>
    simp only [Bqm.step, Via.tv, LPoly.stepF]
    by_cases hv : v ∈ (absL m).vars
    · obtain ⟨vi, hvi⟩ := (mem_labels_iff m v).mp hv
      have s := fixVariable_refines i v a hvi
      simp only [hv, if_true]
      exact ⟨s.1, by simp [s.2.1], s.2.2⟩
    · have hnone : m.indexOf? v = none := by
        cases hk : m.indexOf? v with
        | none => rfl
        | some k => exact absurd ((mem_labels_iff m v).mpr ⟨k, hk⟩) hv
      have key : m.vFixVariable m.vt v a = (m, some ErrC.value) := by
        unfold Bqm.vFixVariable; rw [hnone]
      rw [key]
      simp only [hv, if_false]
      exact ⟨trivial, by simp, i⟩

theorem history_refinesF {m : Bqm} (i : Inv m) (ops : List Op) (he : ∀ op ∈ ops, EditF op) :
    absL (m.run (ops.map fun op => (Via.direct, op))) = (absL m).runF ops ∧
    Inv (m.run (ops.map fun op => (Via.direct, op))) := by
  induction ops generalizing m with
  | nil => exact ⟨rfl, i⟩
  | cons op t ih =>
    have s := step_refinesF i (he op (by simp))
    simp only [List.map_cons, Bqm.run, LPoly.runF]
    rw [← s.1]
    exact ih s.2.2 (fun o ho => he o (List.mem_cons_of_mem _ ho))

end Bqm
