import DimodProofs.C02Poly
import DimodModel.PolyH

/-! # C02 — `to_hubo` / `to_hising`: dicts + offset carry the polynomial's energy -/

namespace En

variable {R : Type} [CommRing R]

theorem polySpec_split_empty (x : Nat → R) (p : Poly R) :
    polySpec x p = polySpec x (p.filter fun tb => !tb.1.isEmpty) + ((p.filter fun tb => tb.1.isEmpty).map (·.2)).sum := by
  induction p with
  | nil => simp [polySpec]
  | cons e t ih =>
    obtain ⟨term, b⟩ := e
    cases term with
    | nil => simp [polySpec, termProd, ih]; ring
    | cons v r => simp [polySpec, ih]; ring

/-- **`to_hubo()` of a BINARY polynomial**: `Σ H + offset` is the polynomial -/
theorem polyToHubo_energy (x : Nat → R) (p : Poly R) : polySpec x (polyToHubo p).1 + (polyToHubo p).2 = polySpec x p := by
  unfold polyToHubo; exact (polySpec_split_empty x p).symm

/-- `Σ h_v·s_v` -/
def hSum (s : Nat → R) (h : ODict Nat R) : R := (h.map fun e => e.2 * s e.1).sum

/-- **`to_hising()` of a SPIN polynomial**: `Σ h·s + Σ J·Πs + offset` is the polynomial -/
theorem polyToHising_energy (s : Nat → R) (p : Poly R) :
    hSum s (polyToHising p).1 + polySpec s (polyToHising p).2.1 + (polyToHising p).2.2 = polySpec s p := by
  unfold polyToHising hSum
  induction p with
  | nil => simp [polySpec]
  | cons e t ih =>
    obtain ⟨term, b⟩ := e
    simp only [] at ih ⊢
    match term with
    | [] => simp [polySpec, termProd] at ih ⊢; rw [← ih]; ring
    | [v] => simp [polySpec, termProd] at ih ⊢; rw [← ih]; ring
    | v :: w :: r => simp [polySpec, termProd] at ih ⊢; rw [← ih]; ring

end En
