import DimodModel.VarsKeys
import DimodProofs.VarsSteps

/-! Python key equality is equality of canonical labels, and every primitive of `cyvariables.pyx` written
    over Python objects (`KState`) factors through `canon` to the label-level model (`VState`). -/

namespace PyKey

theorem numVal_canon (a : PyKey) (z : Int) (h : numVal a = some z) : canon a = .int z := by
  cases a <;> simp_all [numVal, canon]

theorem canon_int_iff (a : PyKey) (z : Int) : canon a = .int z ↔ numVal a = some z := by
  cases a <;> simp [numVal, canon]

theorem atomEq_iff (a b : PyKey) (ha : ∀ l, a ≠ .tup l) (hb : ∀ l, b ≠ .tup l) :
    atomEq a b = true ↔ canon a = canon b := by
  cases a <;> cases b <;> first
    | exact absurd rfl (ha _)
    | exact absurd rfl (hb _)
    | (simp [atomEq, numVal, canon])

mutual
/-- **Python `==` on keys is equality of canonical labels** -/
theorem pyEq_iff : ∀ (a b : PyKey), pyEq a b = true ↔ canon a = canon b
  | .tup x, b => by
    cases b with
    | tup y => simp only [pyEq, canon, Label.tup.injEq]; exact pyEqList_iff x y
    | _ => simp [pyEq, canon]
  | .int z, b => by
    cases b with
    | tup y => simp [pyEq, canon]
    | _ => simp only [pyEq]; exact atomEq_iff _ _ (by intro l h; cases h) (by intro l h; cases h)
  | .bool z, b => by
    cases b with
    | tup y => simp [pyEq, canon]
    | _ => simp only [pyEq]; exact atomEq_iff _ _ (by intro l h; cases h) (by intro l h; cases h)
  | .float z, b => by
    cases b with
    | tup y => simp [pyEq, canon]
    | _ => simp only [pyEq]; exact atomEq_iff _ _ (by intro l h; cases h) (by intro l h; cases h)
  | .npInt z, b => by
    cases b with
    | tup y => simp [pyEq, canon]
    | _ => simp only [pyEq]; exact atomEq_iff _ _ (by intro l h; cases h) (by intro l h; cases h)
  | .npFloat z, b => by
    cases b with
    | tup y => simp [pyEq, canon]
    | _ => simp only [pyEq]; exact atomEq_iff _ _ (by intro l h; cases h) (by intro l h; cases h)
  | .str z, b => by
    cases b with
    | tup y => simp [pyEq, canon]
    | _ => simp only [pyEq]; exact atomEq_iff _ _ (by intro l h; cases h) (by intro l h; cases h)
theorem pyEqList_iff : ∀ (x y : List PyKey), pyEqList x y = true ↔ canonList x = canonList y
  | [], [] => by simp [pyEqList, canonList]
  | a :: x, b :: y => by
    simp only [pyEqList, canonList, Bool.and_eq_true, List.cons.injEq]
    rw [pyEq_iff a b, pyEqList_iff x y]
  | [], _ :: _ => by simp [pyEqList, canonList]
  | _ :: _, [] => by simp [pyEqList, canonList]
end

/-- `==` on keys is an equivalence relation (so a dict keyed by these objects is well defined) -/
theorem pyEq_refl (a : PyKey) : pyEq a a = true := (pyEq_iff a a).2 rfl
theorem pyEq_symm (a b : PyKey) : pyEq a b = pyEq b a := by
  rw [Bool.eq_iff_iff, pyEq_iff, pyEq_iff]; exact eq_comm
theorem pyEq_trans (a b c : PyKey) (h1 : pyEq a b = true) (h2 : pyEq b c = true) : pyEq a c = true :=
  (pyEq_iff a c).2 (((pyEq_iff a b).1 h1).trans ((pyEq_iff b c).1 h2))

theorem pyEq_eq_decide (a b : PyKey) : pyEq a b = decide (canon a = canon b) := by
  rw [Bool.eq_iff_iff, pyEq_iff]; simp

/-- a non-numeric canonical label is not an integer label -/
theorem canon_of_not_number (a : PyKey) (h : isNumber a = false) : ∀ z, canon a ≠ .int z := by
  cases a <;> simp_all [isNumber, canon]

theorem numVal_of_number (a : PyKey) (h : isNumber a = true) : ∃ z, numVal a = some z := by
  cases a <;> simp_all [isNumber, numVal]

theorem isNumber_of_isPyLong (a : PyKey) (h : isPyLong a = true) : isNumber a = true := by
  cases a <;> simp_all [isPyLong, isNumber]

end PyKey

namespace KState
open PyKey

theorem l2iGet?_toV (m : List (PyKey × Nat)) (v : PyKey) :
    l2iGet? m v = AMap.get? (m.map fun p => (canon p.1, p.2)) (canon v) := by
  induction m with
  | nil => rfl
  | cons p m ih =>
    obtain ⟨k, i⟩ := p
    simp only [l2iGet?, List.map_cons, AMap.get?, pyEq_eq_decide, ih, decide_eq_true_eq]

theorem l2iErase_toV (m : List (PyKey × Nat)) (v : PyKey) :
    (l2iErase m v).map (fun p => (canon p.1, p.2)) = AMap.erase (m.map fun p => (canon p.1, p.2)) (canon v) := by
  induction m with
  | nil => rfl
  | cons p m ih =>
    obtain ⟨k, i⟩ := p
    simp only [l2iErase, List.map_cons, AMap.erase, pyEq_eq_decide, decide_eq_true_eq]
    split <;> simp [ih]

theorem i2lErase_toV (m : List (Nat × PyKey)) (j : Nat) :
    (i2lErase m j).map (fun p => (p.1, canon p.2)) = AMap.erase (m.map fun p => (p.1, canon p.2)) j := by
  induction m with
  | nil => rfl
  | cons p m ih =>
    obtain ⟨i, l⟩ := p
    simp only [i2lErase, List.map_cons, AMap.erase]
    split <;> simp [ih]

/-- looking an object up in `_index_to_label` finds the entry of its integral value -/
theorem i2lGet?_toV (m : List (Nat × PyKey)) (v : PyKey) (z : Int) (hv : canon v = .int z) (hz : 0 ≤ z) :
    (i2lGet? m v).map canon = AMap.get? (m.map fun p => (p.1, canon p.2)) z.toNat := by
  induction m with
  | nil => rfl
  | cons p m ih =>
    obtain ⟨i, l⟩ := p
    simp only [i2lGet?, List.map_cons, AMap.get?, pyEq_eq_decide, decide_eq_true_eq, hv, canon, Label.int.injEq]
    have : ((i : Int) = z) ↔ (i = z.toNat) := by omega
    simp only [this]
    split <;> simp [ih]

theorem isEmpty_toV (k : KState) : k.toV.l2i.isEmpty = k.l2i.isEmpty := by
  simp [toV]

/-- `_count_int` over objects = the label-level count of the canonical integer (under the invariant, which
    makes the `_is_range()` fast path agree with the general branch) -/
theorem countInt_factors (k : KState) (h : k.toV.Inv) (v : PyKey) (z : Int) (hv : canon v = .int z) :
    k.countInt v z = k.toV.count (.int z) := by
  unfold countInt VState.count
  have hl := l2iGet?_toV k.l2i v
  rw [hv] at hl
  by_cases he : k.l2i.isEmpty = true
  · have hnil : k.l2i = [] := List.isEmpty_iff.mp he
    have hrange : k.toV.isRange = true := by simp [VState.isRange, toV, hnil]
    have hnone := (VState.isRange_iff k.toV).1 hrange
    simp only [he, if_true, hnone, Option.isSome_none, Bool.or_false]
    by_cases hz : 0 ≤ z
    · by_cases hlt : z.toNat < k.stop
      · have hlt' : z < k.stop := by omega
        cases hg : k.toV.i2l.get? z.toNat with
        | none => simp only [hz, hlt, hlt', decide_true, Bool.and_self, Option.isNone_none]; simp [toV, hlt]
        | some l => have := (h.i2l_ok _ _ hg).2.2; rw [hnone] at this; cases this
      · have hlt' : ¬ z < k.stop := by omega
        simp [hz, hlt, hlt', toV]
    · simp [hz]
  · simp only [he, Bool.false_eq_true, if_false]
    show _ = (decide (0 ≤ z) && decide (z.toNat < k.stop) && (AMap.get? (k.i2l.map fun p => (p.1, canon p.2)) z.toNat).isNone ||
        (AMap.get? (k.l2i.map fun p => (canon p.1, p.2)) (Label.int z)).isSome)
    rw [← hl]
    by_cases hz : 0 ≤ z
    · rw [← i2lGet?_toV k.i2l v z hv hz]
      have : (z < (k.stop : Int)) ↔ (z.toNat < k.stop) := by omega
      simp only [decide_eq_decide.mpr this, Option.isNone_map]
    · simp [hz]

/-- **`count` factors through `canon`** (so `1`, `True`, `1.0`, `np.int64(1)`, `np.float32(1)` are one label
    for `count`, `in`, and everything built on them) -/
theorem count_factors (k : KState) (h : k.toV.Inv) (v : PyKey) : k.count v = k.toV.count (canon v) := by
  unfold count
  by_cases h1 : isPyLong v = true
  · obtain ⟨z, hz⟩ := numVal_of_number v (isNumber_of_isPyLong v h1)
    simp only [h1, if_true, hz, Option.getD_some]
    rw [countInt_factors k h v z (numVal_canon v z hz), numVal_canon v z hz]
  · by_cases h2 : isNumber v = true
    · obtain ⟨z, hz⟩ := numVal_of_number v h2
      simp only [h1, Bool.false_eq_true, if_false, h2, if_true, hz, Option.getD_some]
      rw [countInt_factors k h (.int z) z rfl, numVal_canon v z hz]
    · simp only [h1, Bool.false_eq_true, if_false, h2]
      have hn := canon_of_not_number v (by simpa using h2)
      rw [l2iGet?_toV]
      unfold VState.count
      cases hc : canon v with
      | int z => exact absurd hc (hn z)
      | str s => simp [toV]
      | tup l => simp [toV]

theorem popIdx_factors (k : KState) (v : PyKey) : k.popIdx v = k.toV.idxOf (canon v) := by
  have hnum : ((numVal v).getD 0).toNat = (match canon v with | .int z => z.toNat | _ => 0) := by
    cases v <;> simp [numVal, canon]
  unfold popIdx VState.idxOf
  rw [l2iGet?_toV]
  show _ = match AMap.get? (k.l2i.map fun p => (canon p.1, p.2)) (canon v) with
    | some i => i
    | none => (match canon v with | .int z => z.toNat | _ => 0)
  cases AMap.get? (k.l2i.map fun p => (canon p.1, p.2)) (canon v) with
  | some i => rfl
  | none => exact hnum

/-- `index(v)` factors through `canon` -/
theorem idxOf_factors (k : KState) (v : PyKey) : k.idxOf v = k.toV.idxOf (canon v) := by
  unfold idxOf
  by_cases he : k.l2i.isEmpty = true
  · have hnil : k.l2i = [] := List.isEmpty_iff.mp he
    rw [if_pos he, ← popIdx_factors]
    simp [popIdx, hnil, l2iGet?]
  · rw [if_neg he, popIdx_factors]

/-- `_append(v)` of a new object factors through `canon` -/
theorem append_factors (k : KState) (v : PyKey) : (k.append v).toV = k.toV.append (canon v) := by
  unfold append VState.append
  have : (pyEq (.int k.stop) v = true) ↔ (canon v = .int k.stop) := by
    rw [pyEq_iff]; simp only [canon]; exact eq_comm
  by_cases hc : canon v = .int k.stop
  · simp [this.2 hc, toV, hc]
  · have hf : pyEq (.int k.stop) v = false := by
      cases hp : pyEq (.int k.stop) v with
      | false => rfl
      | true => exact absurd (this.1 hp) hc
    simp only [hf, Bool.false_eq_true, if_false, toV, hc, List.map_cons, AMap.set, i2lErase_toV, l2iErase_toV]

/-- `_pop()` factors through `canon` (state and returned label) -/
theorem pop_factors (k : KState) (h0 : k.stop ≠ 0) :
    k.toV.pop = some (k.pop.1.toV, canon k.pop.2) := by
  have hg : (i2lGet? k.i2l (.int ((k.stop - 1 : Nat) : Int))).map canon = AMap.get? (k.i2l.map fun p => (p.1, canon p.2)) (k.stop - 1) := by
    have := i2lGet?_toV k.i2l (.int ((k.stop - 1 : Nat) : Int)) ((k.stop - 1 : Nat) : Int) rfl (by omega)
    simpa using this
  unfold VState.pop pop
  simp only [toV, h0, if_false, Option.some.injEq, Prod.mk.injEq]
  have hlbl : canon ((i2lGet? k.i2l (.int ((k.stop - 1 : Nat) : Int))).getD (.int ((k.stop - 1 : Nat) : Int))) =
      (AMap.get? (k.i2l.map fun p => (p.1, canon p.2)) (k.stop - 1)).getD (.int ((k.stop - 1 : Nat) : Int)) := by
    rw [← hg]
    cases i2lGet? k.i2l (.int ((k.stop - 1 : Nat) : Int)) <;> simp [canon]
  refine ⟨?_, hlbl.symm⟩
  simp only [VState.mk.injEq, i2lErase_toV, l2iErase_toV, hlbl, and_self, and_true, true_and]

/-- the body of the `_relabel` loop factors through `canon` -/
theorem relabelOne_factors (k : KState) (old new : PyKey) :
    (k.relabelOne old new).toV = k.toV.relabelOne (canon old) (canon new) := by
  have hidx := popIdx_factors k old
  unfold relabelOne VState.relabelOne
  simp only [hidx]
  have : (pyEq new (.int (k.toV.idxOf (canon old))) = true) ↔ (canon new = .int (k.toV.idxOf (canon old))) := by
    rw [pyEq_iff]; simp only [canon]
  by_cases hc : canon new = .int (k.toV.idxOf (canon old))
  · simp only [this.2 hc, if_true, hc]
    simp only [toV, VState.mk.injEq, i2lErase_toV, l2iErase_toV, and_self]
  · have hf : pyEq new (.int (k.toV.idxOf (canon old))) = false := by
      cases hp : pyEq new (.int (k.toV.idxOf (canon old))) with
      | false => rfl
      | true => exact absurd (this.1 hp) hc
    simp only [hf, Bool.false_eq_true, if_false, hc]
    simp only [toV, VState.mk.injEq, List.map_cons, AMap.set, i2lErase_toV, l2iErase_toV, and_self]

end KState

/-! ### composite operations over objects commute with the abstraction -/

namespace KState
open PyKey

theorem isRange_toV (k : KState) : k.toV.isRange = k.l2i.isEmpty := by simp [VState.isRange, toV]

theorem autoLabel_least_factors (k : KState) (h : k.toV.Inv) (fuel i : Nat) :
    autoLabel.least k fuel i = VState.autoLabel.least k.toV fuel i := by
  induction fuel generalizing i with
  | zero => rfl
  | succ f ih =>
    simp only [autoLabel.least, VState.autoLabel.least, count_factors k h, canon, ih]

theorem autoLabel_factors (k : KState) (h : k.toV.Inv) : canon k.autoLabel = k.toV.autoLabel := by
  unfold autoLabel VState.autoLabel
  rw [isRange_toV, count_factors k h]
  simp only [canon, autoLabel_least_factors k h]
  have : k.toV.stop = k.stop := rfl
  rw [this]
  split <;> simp [canon]

theorem appendP_factors (k : KState) (h : k.toV.Inv) (v : Option PyKey) (p : Bool) :
    (k.appendP v p).map toV = k.toV.appendP (v.map canon) p := by
  cases v with
  | none => simp only [appendP, VState.appendP, Option.map_none, Option.map_some, append_factors, autoLabel_factors k h]
  | some v =>
    simp only [appendP, VState.appendP, Option.map_some, ← count_factors k h v]
    cases k.count v <;> cases p <;> simp [append_factors]

theorem index?_factors (k : KState) (h : k.toV.Inv) (v : PyKey) : k.index? v = k.toV.index? (canon v) := by
  simp only [index?, VState.index?, count_factors k h v, idxOf_factors]

theorem labelAt_factors (k : KState) (i : Nat) : canon (k.labelAt i) = k.toV.labelAt i := by
  have := i2lGet?_toV k.i2l (.int (i : Int)) (i : Int) rfl (by omega)
  simp only [Int.toNat_natCast] at this
  unfold labelAt VState.labelAt
  show _ = (AMap.get? (k.i2l.map fun p => (p.1, canon p.2)) i).getD (.int i)
  rw [← this]
  cases i2lGet? k.i2l (.int (i : Int)) <;> simp [canon]

/-- iteration over the object-level state yields objects whose canonical labels are the label-level list -/
theorem abs_factors (k : KState) : (List.range k.stop).map (fun i => canon (k.labelAt i)) = k.toV.abs := by
  unfold VState.abs
  apply List.map_congr_left
  intro i _
  exact labelAt_factors k i

/-- every object-level step abstracts to the label-level step of the canonicalised operation -/
theorem step_factors (k : KState) (h : k.toV.Inv) (op : KOp) :
    ((k.step op).1.toV, (k.step op).2) = k.toV.step op.toOp := by
  cases op with
  | append v p =>
    have := appendP_factors k h v p
    simp only [step, VState.step, KOp.toOp]
    rw [← this]
    cases k.appendP v p <;> rfl
  | pop =>
    simp only [step, VState.step, KOp.toOp]
    by_cases h0 : k.stop = 0
    · have : k.toV.pop = none := by simp [VState.pop, toV, h0]
      simp [h0, this]
    · simp [h0, pop_factors k h0]
  | clear => rfl
  | relabelInts => rfl

/-- histories of append / auto-append / pop / clear / relabel-as-integers over *objects* (aliases included)
    abstract, step by step, to the label-level history of the canonicalised operations; with `history_refines`
    this gives the list behaviour for the objects -/
theorem history_factors (ops : List KOp) : ∀ (k : KState), k.toV.Inv →
    (ops.foldl (fun k op => (k.step op).1) k).toV = (ops.map KOp.toOp).foldl (fun s op => (s.step op).1) k.toV ∧
    (ops.foldl (fun k op => (k.step op).1) k).toV.Inv := by
  induction ops with
  | nil => intro k h; exact ⟨rfl, h⟩
  | cons op ops ih =>
    intro k h
    have hs := step_factors k h op
    have h1 : (k.step op).1.toV = (k.toV.step op.toOp).1 := congrArg Prod.fst hs
    have hI : (k.step op).1.toV.Inv := by
      rw [h1]
      exact (VState.step_refines k.toV h op.toOp (by cases op <;> trivial)).1
    obtain ⟨e, hI'⟩ := ih (k.step op).1 hI
    simp only [List.foldl_cons, List.map_cons]
    refine ⟨?_, hI'⟩
    rw [e, h1]

end KState
