import DimodProofs.LpLexer
import Mathlib.Tactic.IntervalCases

/-! C12, lexical layer: integer literals are read back exactly (no oracle needed for them). -/

namespace Lp

theorem digitChar_isDigit (n : Nat) : (digitChar n).isDigit = true := by
  unfold digitChar
  have h : n % 10 < 10 := Nat.mod_lt _ (by decide)
  interval_cases (n % 10) <;> decide

theorem digitChar_val (n : Nat) : (digitChar n).toNat - 48 = n % 10 := by
  unfold digitChar
  have h : n % 10 < 10 := Nat.mod_lt _ (by decide)
  interval_cases (n % 10) <;> decide

theorem natDigits_unfold (n : Nat) : natDigits n = if n < 10 then [digitChar n] else natDigits (n / 10) ++ [digitChar n] := by
  rw [natDigits]

theorem natDigits_spec (n : Nat) :
    natDigits n ≠ [] ∧ (natDigits n).all Char.isDigit = true ∧
    (natDigits n).foldl (fun a c => 10 * a + (c.toNat - 48)) 0 = n := by
  induction n using Nat.strong_induction_on with
  | _ n ih =>
    rw [natDigits_unfold]
    by_cases h : n < 10
    · simp only [h, if_true]
      refine ⟨by simp, by simp [digitChar_isDigit], ?_⟩
      simp only [List.foldl_cons, List.foldl_nil, digitChar_val]
      omega
    · simp only [h, if_false]
      obtain ⟨h1, h2, h3⟩ := ih (n / 10) (by omega)
      refine ⟨by simp, by simp [h2, digitChar_isDigit], ?_⟩
      rw [List.foldl_append, h3]
      simp only [List.foldl_cons, List.foldl_nil, digitChar_val]
      omega

theorem parseDigits_natDigits (n : Nat) : parseDigits (natDigits n) = some n := by
  obtain ⟨h1, h2, h3⟩ := natDigits_spec n
  unfold parseDigits
  have : (natDigits n).isEmpty = false := by cases h : natDigits n <;> simp_all
  simp [this, h2, h3]

end Lp

namespace Lp

theorem digits_no_special (ds : List Char) (h : ds.all Char.isDigit = true) (c : Char) (hc : c.isDigit = false) : c ∉ ds := by
  intro hm
  have := List.all_eq_true.mp h c hm
  rw [hc] at this; cases this

theorem takeWhile_all {α} (p : α → Bool) (l : List α) (h : ∀ x ∈ l, p x = true) : l.takeWhile p = l := by
  induction l with
  | nil => rfl
  | cons a t ih => simp [List.takeWhile, h a List.mem_cons_self, ih (fun x hx => h x (List.mem_cons_of_mem _ hx))]

/-- a natural number printed in decimal is read back as itself -/
theorem parseDec_showNat (n : Nat) : parseDec (showNat n) = some (n : Rat) := by
  obtain ⟨h1, h2, _⟩ := natDigits_spec n
  have hl : (showNat n).toList = natDigits n := by simp [showNat]
  have hne : ∀ c, c.isDigit = false → c ∉ natDigits n := fun c hc => digits_no_special _ h2 c hc
  have hn1 : showNat n ≠ "1e+30" := by
    intro h
    have : (showNat n).toList = ("1e+30" : String).toList := by rw [h]
    rw [hl] at this
    exact hne 'e' (by decide) (by rw [this]; decide)
  have hn2 : showNat n ≠ "-1e+30" := by
    intro h
    have : (showNat n).toList = ("-1e+30" : String).toList := by rw [h]
    rw [hl] at this
    exact hne 'e' (by decide) (by rw [this]; decide)
  unfold parseDec
  rw [if_neg hn1, if_neg hn2, hl]
  have hminus : ∀ r, natDigits n ≠ '-' :: r := by
    intro r h
    exact hne '-' (by decide) (by rw [h]; exact List.mem_cons_self)
  have hdot : (natDigits n).contains '.' = false := by
    simpa using hne '.' (by decide)
  have htw : (natDigits n).takeWhile (fun c => c ≠ '.') = natDigits n := by
    apply takeWhile_all
    intro x hx
    simp only [ne_eq, decide_not, Bool.not_eq_eq_eq_not, Bool.not_true, decide_eq_false_iff_not]
    rintro rfl
    exact hne '.' (by decide) hx
  have hhead : ((natDigits n).head? = some '-') = False := by
    apply eq_false
    intro hh
    cases hd : natDigits n with
    | nil => rw [hd] at hh; simp at hh
    | cons c t =>
      rw [hd] at hh
      simp only [List.head?_cons, Option.some.injEq] at hh
      exact hminus t (by rw [hd, hh])
  have hpd := parseDigits_natDigits n
  simp only [hhead, decide_false, Bool.false_eq_true, if_false, hdot, htw, hpd]
  simp

end Lp

namespace Lp

theorem word_showNat (n : Nat) : Word (showNat n) := by
  obtain ⟨h1, h2, _⟩ := natDigits_spec n
  have hl : (showNat n).toList = natDigits n := by simp [showNat]
  refine ⟨by rw [hl]; exact h1, ?_⟩
  intro c hc
  rw [hl] at hc
  have hd := List.all_eq_true.mp h2 c hc
  by_contra hws
  have : isWs c = true := by simpa using hws
  simp only [isWs, Bool.or_eq_true, decide_eq_true_eq] at this
  rcases this with rfl | rfl <;> revert hd <;> decide

/-- **integer coefficients need no oracle**: the magnitude the writer prints for an integral bias is a word and
    parses back to that magnitude -/
theorem numText_int (b : Rat) (h : b.den = 1) : Word (showAbs b) ∧ parseDec (showAbs b) = some (absQ b) := by
  have habs : ∀ a : Rat, a.den = 1 → 0 ≤ a → ((a.num.toNat : Nat) : Rat) = a := by
    intro a ha h0
    have hn : 0 ≤ a.num := Rat.num_nonneg.mpr h0
    have : ((a.num.toNat : Nat) : Int) = a.num := Int.toNat_of_nonneg hn
    have h2 : (a.num : Rat) = a := Rat.coe_int_num_of_den_eq_one ha
    calc ((a.num.toNat : Nat) : Rat) = (((a.num.toNat : Nat) : Int) : Rat) := by norm_cast
      _ = (a.num : Rat) := by rw [this]
      _ = a := h2
  unfold showAbs absQ
  by_cases hb : b < 0
  · simp only [hb, if_true]
    have hd : (-b).den = 1 := by rw [Rat.neg_den]; exact h
    simp only [hd, if_true]
    exact ⟨word_showNat _, by rw [parseDec_showNat, habs (-b) hd (by linarith)]⟩
  · simp only [hb, if_false]
    simp only [h, if_true]
    exact ⟨word_showNat _, by rw [parseDec_showNat, habs b h (by linarith)]⟩

end Lp
