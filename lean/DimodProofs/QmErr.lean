import DimodProofs.QmWF

/-! A raising call of the `QuadraticModel` interface leaves the model unchanged (everything but the three bulk
    folds).  Core Lean only. -/

namespace Qm

theorem addVariable_err (m : Qm) (t : QVT) (v : Option Label) (lb ub : Option Rat) (e : ErrC)
    (he : (m.addVariable t v lb ub).2 = some e) : (m.addVariable t v lb ub).1 = m := by
  unfold Qm.addVariable at he ⊢
  simp only [] at he ⊢
  split
  · split
    · rfl
    · split
      · rfl
      · split
        · rfl
        · split <;> rfl
  · rename_i hp
    simp only [hp] at he
    split
    · rfl
    · rename_i l u hb
      simp only [hb] at he
      cases he

def SingleTerm : Qm.Op → Prop
  | .addLinearFrom _ _ => False
  | .addQuadraticFrom _ => False
  | .addVariablesFrom _ _ _ => False
  | _ => True

theorem error_leaves_unchanged (m : Qm) (op : Qm.Op) (hs : SingleTerm op) (e : ErrC)
    (he : (m.step op).2 = some e) : (m.step op).1 = m := by
  cases op <;> simp only [Qm.step] at he ⊢
  case addVariable t v lb ub => exact addVariable_err m t v lb ub e he
  case addLinear v b d =>
    cases v with
    | none => rfl
    | some v =>
      simp only [] at he ⊢
      unfold Qm.addLinear at he ⊢
      cases hi : m.indexOf? v with
      | some i => rw [hi] at he; simp at he
      | none =>
        rw [hi] at he
        cases d with
        | none => rfl
        | some tlu =>
          obtain ⟨t, lb, ub⟩ := tlu
          simp only [] at he ⊢
          cases hr : m.addVariable t (some v) lb ub with
          | mk m' e' =>
            rw [hr] at he
            cases e' with
            | none => simp at he
            | some e'' =>
              simp only []
              have := addVariable_err m t (some v) lb ub e'' (by rw [hr])
              rw [hr] at this; exact this
  case setLinear v b =>
    cases v with
    | none => rfl
    | some v =>
      simp only [] at he ⊢
      unfold Qm.setLinear at he ⊢
      cases hi : m.indexOf? v with
      | some i => rw [hi] at he; simp at he
      | none => rfl
  case addQuadratic u v b =>
    cases u <;> cases v <;> simp only [] at he ⊢ <;> try rfl
    unfold Qm.quadOp at he ⊢
    rename_i u v
    cases hu : m.indexOf? u <;> cases hv : m.indexOf? v <;> simp only [hu, hv] at he ⊢ <;> try rfl
    split at he
    · simp at he
    · rename_i hq; simp only [hq]; rfl
  case setQuadratic u v b =>
    cases u <;> cases v <;> simp only [] at he ⊢ <;> try rfl
    unfold Qm.quadOp at he ⊢
    rename_i u v
    cases hu : m.indexOf? u <;> cases hv : m.indexOf? v <;> simp only [hu, hv] at he ⊢ <;> try rfl
    split at he
    · simp at he
    · rename_i hq; simp only [hq]; rfl
  case removeInteraction u v =>
    unfold Qm.removeInteraction at he ⊢
    cases hu : m.indexOf? u <;> cases hv : m.indexOf? v <;> simp only [hu, hv] at he ⊢ <;> try rfl
    rename_i ui vi
    cases hq : m.quadAt ui vi with
    | none => rfl
    | some c =>
      rw [hq] at he
      simp only [] at he
      split at he <;> simp at he
  case removeVariable v =>
    unfold Qm.removeVariable at he ⊢
    cases v with
    | none =>
      simp only [] at he ⊢
      split
      · rfl
      · rename_i hn; simp [hn] at he
    | some v =>
      simp only [] at he ⊢
      cases hi : m.indexOf? v with
      | none => rfl
      | some i => rw [hi] at he; simp at he
  case scale s => simp at he
  case setOffset b => simp at he
  case changeVartype t v =>
    unfold Qm.changeVartype at he ⊢
    cases hi : m.indexOf? v with
    | none => rfl
    | some vi =>
      rw [hi] at he
      simp only [] at he ⊢
      unfold Qm.changeVartypeAt at he ⊢
      cases hs' : m.vtAt vi <;> cases t <;> simp only [hs'] at he ⊢ <;> first | rfl | (simp at he)
  case fixVariable v a =>
    unfold Qm.fixVariable at he ⊢
    cases hi : m.indexOf? v with
    | none => rfl
    | some vi => rw [hi] at he; simp at he
  case flip v =>
    unfold Qm.flip at he ⊢
    cases hi : m.indexOf? v with
    | none => rfl
    | some vi =>
      rw [hi] at he
      simp only [] at he ⊢
      cases hs' : m.vtAt vi <;> simp only [hs'] at he ⊢ <;> first | rfl | (simp at he)
  case relabel mp =>
    unfold Qm.relabel at he ⊢
    cases hsx : LSpec.step m.labels (.relabel mp) with
    | mk l ok =>
      rw [hsx] at he
      cases ok with
      | true => simp at he
      | false => rfl
  case relabelInts => simp at he
  case clear => simp at he
  case setLowerBound v x =>
    unfold Qm.setBound at he ⊢
    cases hi : m.indexOf? v with
    | none => rfl
    | some vi =>
      rw [hi] at he
      simp only [] at he ⊢
      repeat' (split at he)
      all_goals first | (simp at he; done) | simp_all
  case setUpperBound v x =>
    unfold Qm.setBound at he ⊢
    cases hi : m.indexOf? v with
    | none => rfl
    | some vi =>
      rw [hi] at he
      simp only [] at he ⊢
      repeat' (split at he)
      all_goals first | (simp at he; done) | simp_all
  case spinToBinary => simp at he
  case update o =>
    unfold Qm.update at he ⊢
    simp only [] at he ⊢
    split
    · rfl
    · rename_i hc; rw [if_neg hc] at he; simp at he
  case addLinearFrom d l => exact absurd hs id
  case addQuadraticFrom l => exact absurd hs id
  case addVariablesFrom t l f => exact absurd hs id

end Qm
