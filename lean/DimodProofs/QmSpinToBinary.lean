import DimodProofs.QmFix
import DimodProofs.QmMore
import DimodProofs.BqmVartype

/-! `QuadraticModel.spin_to_binary(inplace=True)`: the loop `for v in variables: if vartype(v) is SPIN: change_vartype(BINARY, v)`
    refines the same loop on the label-keyed polynomial — property C04.  Core Lean only. -/

namespace Qm

theorem changeVartype_vars (p : QPoly) (t : QVT) (v : Label) : (p.changeVartype t v).vars = p.vars := by
  unfold QPoly.changeVartype
  cases p.info v with
  | none => rfl
  | some i =>
    obtain ⟨a, b⟩ := i
    cases a <;> cases t <;> rfl

/-- one iteration of the loop on the polynomial -/
def QPoly.stbStep (q : QPoly) (l : Label) : QPoly :=
  if (q.info l).map (·.1) = some .spin then q.changeVartype .binary l else q

/-- `spin_to_binary` on the polynomial: every variable that is SPIN when its turn comes is substituted `s = 2x − 1` -/
def QPoly.spinToBinary (p : QPoly) : QPoly := p.vars.foldl QPoly.stbStep p

theorem stbFold (m0 : Qm) : ∀ (is : List Nat), (∀ j ∈ is, j < m0.labels.length) → ∀ (acc : Qm), Inv acc → acc.labels = m0.labels →
    absQ (is.foldl (fun a i => if a.vtAt i = .spin then (a.changeVartypeAt .binary i).1 else a) acc) =
      (is.map fun j => m0.labels.getD j (.int 0)).foldl QPoly.stbStep (absQ acc) ∧
    Inv (is.foldl (fun a i => if a.vtAt i = .spin then (a.changeVartypeAt .binary i).1 else a) acc) := by
  intro is
  induction is with
  | nil => intro _ acc ia _; exact ⟨rfl, ia⟩
  | cons j t ih =>
    intro hb acc ia hl
    have hj : j < m0.labels.length := hb j (by simp)
    have hget : acc.labels[j]? = some (m0.labels.getD j (.int 0)) := by
      rw [hl]; simp [List.getD, List.getElem?_eq_getElem hj]
    have hidx : acc.indexOf? (m0.labels.getD j (.int 0)) = some j := idx_of_get ia.nodup hget
    simp only [List.foldl, List.map_cons]
    have hinfo : ((absQ acc).info (m0.labels.getD j (.int 0))).map (·.1) = some (acc.vtAt j) := by
      show (acc.infoL _).map (·.1) = _
      unfold infoL; rw [hidx]; rfl
    have hcv : (acc.changeVartypeAt .binary j).1 = (acc.changeVartype .binary (m0.labels.getD j (.int 0))).1 := by
      unfold Qm.changeVartype; rw [hidx]
    by_cases hs : acc.vtAt j = .spin
    · have r := changeVartype_refines ia .binary (m0.labels.getD j (.int 0))
      have hstep : QPoly.stbStep (absQ acc) (m0.labels.getD j (.int 0)) = (absQ acc).changeVartype .binary (m0.labels.getD j (.int 0)) := by
        unfold QPoly.stbStep; rw [hinfo, hs]; simp
      have hl' : (acc.changeVartype .binary (m0.labels.getD j (.int 0))).1.labels = m0.labels := by
        have := congrArg QPoly.vars r.1
        rw [changeVartype_vars] at this
        exact this.trans hl
      rw [if_pos hs, hcv, hstep, ← r.1]
      exact ih (fun x hx => hb x (List.mem_cons_of_mem _ hx)) _ r.2 hl'
    · have hstep : QPoly.stbStep (absQ acc) (m0.labels.getD j (.int 0)) = absQ acc := by
        unfold QPoly.stbStep; rw [hinfo]
        have : ¬ (some (acc.vtAt j) = some QVT.spin) := fun e => hs (Option.some.inj e)
        rw [if_neg this]
      rw [if_neg hs, hstep]
      exact ih (fun x hx => hb x (List.mem_cons_of_mem _ hx)) acc ia hl

theorem spinToBinary_refines {m : Qm} (i : Inv m) : absQ m.spinToBinary = (absQ m).spinToBinary ∧ Inv m.spinToBinary := by
  have hn : m.n = m.labels.length := i.wf.labels_len.symm
  have r := stbFold m (List.range m.n) (fun j hj => by rw [← hn]; exact List.mem_range.mp hj) m i rfl
  have hlabs : (List.range m.n).map (fun j => m.labels.getD j (.int 0)) = m.labels := by
    rw [hn]; exact (Bqm.list_eq_map_range m.labels (.int 0)).symm
  rw [hlabs] at r
  exact r

end Qm
