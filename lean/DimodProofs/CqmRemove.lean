import DimodProofs.CqmReindex

/-! CQM level: `remove_variable` only shifts indices (property C05). -/

namespace CqmP

/-- what "expression `e'` is expression `e` with variable `v` gone and the indices above it shifted" means:
    the remaining variables in the same private order under their new indices, the same offset, and
    exactly the same linear and quadratic bias for every remaining variable / pair -/
structure ExprShifted (v : Nat) (e e' : Expr) : Prop where
  vars : e'.vars = (e.vars.filter (· ≠ v)).map (shift v)
  off : e'.qb.off = e.qb.off
  has : ∀ g, g ≠ v → e'.hasVar (shift v g) = e.hasVar g
  lin : ∀ g, g ≠ v → e'.linear (shift v g) = e.linear g
  quad : ∀ g h, g ≠ v → h ≠ v → e'.quadratic (shift v g) (shift v h) = e.quadratic g h

theorem exprShifted_reindex {e : Expr} (hwf : ExprWF e) (v : Nat) : ExprShifted v e (e.reindex v) :=
  ⟨reindex_vars hwf v, reindex_off e v, fun g hg => reindex_hasVar hwf v g hg,
   fun g hg => reindex_linear hwf v g hg, fun g h hg hh => reindex_quadratic hwf v g h hg hh⟩

structure CqmWF (m : Cqm) : Prop where
  obj : ExprWF m.obj
  cons : ∀ c ∈ m.cons, ExprWF c.e
  lb_len : m.lb.length = m.vt.length
  ub_len : m.ub.length = m.vt.length
  labels_len : m.labels.length = m.vt.length
  clabels_len : m.clabels.length = m.cons.length
  obj_lt : ∀ g ∈ m.obj.vars, g < m.vt.length
  cons_lt : ∀ c ∈ m.cons, ∀ g ∈ c.e.vars, g < m.vt.length

/-- the two Python label lists are duplicate free (what C13 proves of `Variables`) -/
structure CqmLabelsOK (m : Cqm) : Prop where
  labels_nodup : m.labels.Nodup
  clabels_nodup : m.clabels.Nodup

theorem removeVarAt_obj (m : Cqm) (v : Nat) : (m.removeVarAt v).obj = m.obj.reindex v := rfl

theorem removeVarAt_cons (m : Cqm) (v : Nat) :
    (m.removeVarAt v).cons = m.cons.map (fun c => { c with e := c.e.reindex v }) := rfl

theorem getD_map_cons (l : List Cons) (f : Cons → Cons) (k : Nat) (hk : k < l.length) :
    (l.map f).getD k {} = f (l.getD k {}) := by
  simp only [List.getD_eq_getElem?_getD, List.getElem?_map, List.getElem?_eq_getElem hk]
  rfl

theorem getD_mem {α} (l : List α) (k : Nat) (d : α) (hk : k < l.length) : l.getD k d ∈ l := by
  rw [List.getD_eq_getElem?_getD, List.getElem?_eq_getElem hk]
  exact List.getElem_mem hk

theorem shift_lt {v u n : Nat} (hu : u < n) (hv : v < n) (huv : u ≠ v) : shift v u < n - 1 := by
  unfold shift; split <;> omega

theorem removeVarAt_wf {m : Cqm} (hwf : CqmWF m) (v : Nat) (hv : v < m.vt.length) : CqmWF (m.removeVarAt v) := by
  have hshift : ∀ {e : Expr}, ExprWF e → (∀ g ∈ e.vars, g < m.vt.length) →
      ∀ g ∈ (e.reindex v).vars, g < (Bqm.eraseIdx m.vt v).length := by
    intro e he hlt g hg
    rw [reindex_vars he v, List.mem_map] at hg
    obtain ⟨g0, hg0, rfl⟩ := hg
    rw [List.mem_filter] at hg0
    rw [length_eraseIdx _ _ hv]
    exact shift_lt (hlt g0 hg0.1) hv (by simpa using hg0.2)
  refine ⟨reindex_wf hwf.obj v, ?_, ?_, ?_, ?_, ?_, hshift hwf.obj hwf.obj_lt, ?_⟩
  · intro c hc
    rw [removeVarAt_cons] at hc
    obtain ⟨c0, hc0, rfl⟩ := List.mem_map.mp hc
    exact reindex_wf (hwf.cons c0 hc0) v
  · show (Bqm.eraseIdx m.lb v).length = (Bqm.eraseIdx m.vt v).length
    rw [length_eraseIdx _ _ (by rw [hwf.lb_len]; exact hv), length_eraseIdx _ _ hv, hwf.lb_len]
  · show (Bqm.eraseIdx m.ub v).length = (Bqm.eraseIdx m.vt v).length
    rw [length_eraseIdx _ _ (by rw [hwf.ub_len]; exact hv), length_eraseIdx _ _ hv, hwf.ub_len]
  · show (Bqm.eraseIdx m.labels v).length = (Bqm.eraseIdx m.vt v).length
    rw [length_eraseIdx _ _ (by rw [hwf.labels_len]; exact hv), length_eraseIdx _ _ hv, hwf.labels_len]
  · show m.clabels.length = (m.cons.map _).length
    rw [List.length_map]; exact hwf.clabels_len
  · intro c hc
    rw [removeVarAt_cons] at hc
    obtain ⟨c0, hc0, rfl⟩ := List.mem_map.mp hc
    exact hshift (hwf.cons c0 hc0) (hwf.cons_lt c0 hc0)

theorem removeVarAt_labelsOK {m : Cqm} (h : CqmLabelsOK m) (v : Nat) : CqmLabelsOK (m.removeVarAt v) := by
  refine ⟨?_, h.clabels_nodup⟩
  show (Bqm.eraseIdx m.labels v).Nodup
  rw [eraseIdx_eq]
  exact List.Nodup.sublist (List.eraseIdx_sublist _ _) h.labels_nodup

end CqmP
