import DimodModel.CheckedExpr
import DimodProofs.CqmInv

/-! No failing vector access in the `Expression` layer under the representation invariant `ExprWF`
    (checked-indexing model `DimodModel/CheckedExpr.lean`) — property C20. -/

namespace CqmP
open Expr

theorem upd?_eq {α} (l : List α) (i : Nat) (f : α → α) (h : i < l.length) :
    QB.upd? l i f = some (Bqm.modifyAt l i f) := by
  unfold QB.upd?
  rw [List.getElem?_eq_getElem h]

theorem adj_length_of_keys {a b : List (List (Nat × Rat))} (h : keysOf a = keysOf b) : a.length = b.length := by
  have := congrArg List.length h
  simpa [keysOf] using this

/-! ### base model -/

theorem QB.addLinear?_eq (q : QB) (u : Nat) (b : Rat) (h : u < q.lin.length) :
    q.addLinear? u b = some (q.addLinear u b) := by
  unfold QB.addLinear? QB.addLinear; rw [upd?_eq _ _ _ h]; rfl

theorem QB.setLinear?_eq (q : QB) (u : Nat) (b : Rat) (h : u < q.lin.length) :
    q.setLinear? u b = some (q.setLinear u b) := by
  unfold QB.setLinear? QB.setLinear; rw [upd?_eq _ _ _ h]; rfl

theorem QB.asym?_eq (q : QB) (u v : Nat) (b : Rat) (set : Bool) (h : u < q.adj.length) :
    q.asym? u v b set = some (q.asym u v b set) := by
  unfold QB.asym? QB.asym; rw [upd?_eq _ _ _ h]; rfl

theorem QB.addQuadratic?_eq (q : QB) (vtu : VT4) (u v : Nat) (b : Rat) (hul : u < q.lin.length)
    (hu : u < q.adj.length) (hv : v < q.adj.length) :
    q.addQuadratic? vtu u v b = some (q.addQuadratic vtu u v b) := by
  unfold QB.addQuadratic? QB.addQuadratic
  split
  · cases vtu
    · exact QB.addLinear?_eq q u b hul
    · rfl
    · exact QB.asym?_eq q u u b false hu
    · exact QB.asym?_eq q u u b false hu
  · rw [QB.asym?_eq q u v b false hu]
    simp only [Option.bind_some]
    apply QB.asym?_eq
    show v < (Bqm.modifyAt q.adj u _).length
    rw [length_modifyAt]; exact hv

theorem QB.removeInteraction?_eq (q : QB) (u v : Nat) (hu : u < q.adj.length)
    (hv : QB.nbhHas (q.adj.getD u []) v = true → v < q.adj.length) :
    q.removeInteraction? u v = some (q.removeInteraction u v) := by
  unfold QB.removeInteraction? QB.removeInteraction
  have hget : q.adj.getD u [] = q.adj[u] := by simp [List.getD, List.getElem?_eq_getElem hu]
  rw [List.getElem?_eq_getElem hu, hget]
  simp only []
  split
  · rename_i hh
    rw [upd?_eq _ _ _ hu]
    simp only [Option.bind_some]
    rw [upd?_eq _ _ _ (by rw [length_modifyAt]; exact hv (by rw [hget]; exact hh))]
    rfl
  · rfl

theorem QB.removeVar?_eq (q : QB) (vi : Nat) (hl : vi < q.lin.length) (ha : vi < q.adj.length) :
    q.removeVar? vi = some (q.removeVar vi) := by
  unfold QB.removeVar?
  rw [List.getElem?_eq_getElem hl, List.getElem?_eq_getElem ha]

theorem QB.substStep?_eq (patched : Bool) (v : Nat) (m c : Rat) (q : QB) (p : Nat × Rat) (n : Nat)
    (hl : q.lin.length = n) (ha : q.adj.length = n) (hv : v < n) (hp : p.1 < n) :
    QB.substStep? patched v m c (some q) p = some (QB.substStep patched v m c q p) := by
  unfold QB.substStep? QB.substStep
  simp only [Option.bind_some]
  split
  · rw [upd?_eq _ _ _ (hl ▸ hv), upd?_eq _ _ _ (ha ▸ hv)]; rfl
  · rw [upd?_eq _ _ _ (hl ▸ hp), upd?_eq _ _ _ (ha ▸ hp)]
    simp only [Option.bind_some]
    rw [upd?_eq _ _ _ (by rw [length_modifyAt, ha]; exact hv)]; rfl

theorem QB.substFold?_eq (patched : Bool) (v : Nat) (m c : Rat) (n : Nat) (hv : v < n) :
    ∀ (l : List (Nat × Rat)) (q0 : QB), (∀ p ∈ l, p.1 < n) → q0.lin.length = n → q0.adj.length = n →
      l.foldl (QB.substStep? patched v m c) (some q0) = some (l.foldl (QB.substStep patched v m c) q0) := by
  intro l
  induction l with
  | nil => intro q0 _ _ _; rfl
  | cons p t ih =>
    intro q0 hlt hl ha
    rw [List.foldl_cons, List.foldl_cons, QB.substStep?_eq patched v m c q0 p n hl ha hv (hlt p List.mem_cons_self)]
    have hs := substStep_shape patched v m c q0 p
    exact ih _ (fun p' hp' => hlt p' (List.mem_cons_of_mem _ hp')) (hs.1.trans hl)
      ((adj_length_of_keys hs.2).trans ha)

theorem QB.substitute?_eq (q : QB) (v : Nat) (m c : Rat) (n : Nat) (hl : q.lin.length = n) (ha : q.adj.length = n)
    (hlt : ∀ nb ∈ q.adj, ∀ p ∈ nb, p.1 < n) (hv : v < n) :
    q.substitute? v m c = some (q.substitute v m c) := by
  unfold QB.substitute? QB.substitute QB.substituteWith
  have hvl : v < q.lin.length := hl ▸ hv
  have hva : v < q.adj.length := ha ▸ hv
  have h1 : q.lin.getD v 0 = q.lin[v] := by simp [List.getD, List.getElem?_eq_getElem hvl]
  have h2 : q.adj.getD v [] = q.adj[v] := by simp [List.getD, List.getElem?_eq_getElem hva]
  rw [List.getElem?_eq_getElem hvl, List.getElem?_eq_getElem hva, h1, h2]
  simp only []
  apply QB.substFold?_eq _ v m c n hv
  · exact hlt _ (List.getElem_mem hva)
  · show (Bqm.modifyAt q.lin v _).length = n
    rw [length_modifyAt]; exact hl
  · exact ha

/-! ### expressions -/

theorem idx_lt {e : Expr} (hwf : ExprWF e) {g i : Nat} (h : e.idx.get? g = some i) : i < e.vars.length :=
  lt_of_getElem? ((hwf.idx g i).mp h)

theorem Expr.addLinear?_eq {e : Expr} (hwf : ExprWF e) (g : Nat) (b : Rat) :
    e.addLinear? g b = some (e.addLinear g b) := by
  unfold Expr.addLinear? Expr.addLinear
  rw [QB.addLinear?_eq _ _ _ (by rw [(enforce_wf hwf g).lin_len]; exact enforce_lt hwf g)]; rfl

theorem Expr.setLinear?_eq {e : Expr} (hwf : ExprWF e) (g : Nat) (b : Rat) :
    e.setLinear? g b = some (e.setLinear g b) := by
  unfold Expr.setLinear? Expr.setLinear
  rw [QB.setLinear?_eq _ _ _ (by rw [(enforce_wf hwf g).lin_len]; exact enforce_lt hwf g)]; rfl

theorem enforce_vars_le (e : Expr) (g : Nat) : e.vars.length ≤ (e.enforce g).1.vars.length := by
  cases h : e.idx.get? g with
  | some i => rw [enforce_of_some h]; exact Nat.le_refl _
  | none => rw [enforce_of_none h]; show _ ≤ (e.vars ++ [g]).length; simp

theorem Expr.addQuadratic?_eq {e : Expr} (hwf : ExprWF e) (vt : List VT4) (gu gv : Nat) (b : Rat) :
    e.addQuadratic? vt gu gv b = some (e.addQuadratic vt gu gv b) := by
  unfold Expr.addQuadratic? Expr.addQuadratic
  have w1 := enforce_wf hwf gv
  have w2 := enforce_wf w1 gu
  have hu := enforce_lt w1 gu
  have hv : (e.enforce gv).2 < ((e.enforce gv).1.enforce gu).1.vars.length :=
    Nat.lt_of_lt_of_le (enforce_lt hwf gv) (enforce_vars_le _ gu)
  rw [QB.addQuadratic?_eq _ _ _ _ _ (by rw [w2.lin_len]; exact hu) (by rw [w2.adj_len]; exact hu)
    (by rw [w2.adj_len]; exact hv)]; rfl

theorem nbhHas_mem {nb : List (Nat × Rat)} {v : Nat} (h : QB.nbhHas nb v = true) : ∃ p ∈ nb, p.1 = v := by
  unfold QB.nbhHas at h
  obtain ⟨p, hp, hpv⟩ := List.any_eq_true.mp h
  exact ⟨p, hp, by simpa using hpv⟩

theorem Expr.removeInteraction?_eq {e : Expr} (hwf : ExprWF e) (gu gv : Nat) :
    e.removeInteraction? gu gv = some (e.removeInteraction gu gv) := by
  unfold Expr.removeInteraction? Expr.removeInteraction
  cases hu : e.idx.get? gu with
  | none => rfl
  | some i =>
    cases hv : e.idx.get? gv with
    | none => rfl
    | some j =>
      simp only []
      rw [QB.removeInteraction?_eq _ _ _ (by rw [hwf.adj_len]; exact idx_lt hwf hu)
        (fun _ => by rw [hwf.adj_len]; exact idx_lt hwf hv)]; rfl

theorem Expr.removeVar?_eq {e : Expr} (hwf : ExprWF e) (g : Nat) : e.removeVar? g = some (e.removeVar g) := by
  unfold Expr.removeVar? Expr.removeVar
  cases h : e.idx.get? g with
  | none => rfl
  | some i =>
    have hi := idx_lt hwf h
    simp only []
    rw [List.getElem?_eq_getElem hi]
    simp only []
    rw [QB.removeVar?_eq _ _ (by rw [hwf.lin_len]; exact hi) (by rw [hwf.adj_len]; exact hi)]; rfl

theorem Expr.substitute?_eq {e : Expr} (hwf : ExprWF e) (g : Nat) (m c : Rat) :
    e.substitute? g m c = some (e.substitute g m c) := by
  unfold Expr.substitute? Expr.substitute
  cases h : e.idx.get? g with
  | none => rfl
  | some i =>
    simp only []
    rw [QB.substitute?_eq _ _ _ _ _ hwf.lin_len hwf.adj_len hwf.adj_lt (idx_lt hwf h)]; rfl

theorem Expr.linear?_eq {e : Expr} (hwf : ExprWF e) (g : Nat) : e.linear? g = some (e.linear g) := by
  unfold Expr.linear? Expr.linear
  cases h : e.idx.get? g with
  | none => rfl
  | some i =>
    have hi : i < e.qb.lin.length := by rw [hwf.lin_len]; exact idx_lt hwf h
    simp [List.getD, List.getElem?_eq_getElem hi]

theorem Expr.quadratic?_eq {e : Expr} (hwf : ExprWF e) (g h : Nat) : e.quadratic? g h = some (e.quadratic g h) := by
  unfold Expr.quadratic? Expr.quadratic
  cases hg : e.idx.get? g with
  | none => rfl
  | some i =>
    cases hh : e.idx.get? h with
    | none => rfl
    | some j =>
      have hi : i < e.qb.adj.length := by rw [hwf.adj_len]; exact idx_lt hwf hg
      simp [List.getD, List.getElem?_eq_getElem hi]

end CqmP

namespace CqmP

theorem stepE_wf {e : Expr} (hwf : ExprWF e) (vt : List VT4) (op : EOp) : ExprWF (e.stepE vt op) := by
  cases op with
  | addLinear g b => exact addLinear_wf hwf g b
  | setLinear g b => exact setLinear_wf hwf g b
  | addQuadratic gu gv b => exact addQuadratic_wf hwf vt gu gv b
  | removeInteraction gu gv => exact removeInteraction_wf hwf gu gv
  | removeVar g => exact removeVar_wf hwf g
  | substitute g m c => exact substitute_wf hwf g m c

theorem stepE?_eq {e : Expr} (hwf : ExprWF e) (vt : List VT4) (op : EOp) : e.stepE? vt op = some (e.stepE vt op) := by
  cases op with
  | addLinear g b => exact Expr.addLinear?_eq hwf g b
  | setLinear g b => exact Expr.setLinear?_eq hwf g b
  | addQuadratic gu gv b => exact Expr.addQuadratic?_eq hwf vt gu gv b
  | removeInteraction gu gv => exact Expr.removeInteraction?_eq hwf gu gv
  | removeVar g => exact Expr.removeVar?_eq hwf g
  | substitute g m c => exact Expr.substitute?_eq hwf g m c

theorem runE_wf (vt : List VT4) : ∀ (ops : List EOp) {e : Expr}, ExprWF e → ExprWF (e.runE vt ops) := by
  intro ops
  induction ops with
  | nil => intro e h; exact h
  | cons op t ih => intro e h; exact ih (stepE_wf h vt op)

theorem runE?_eq (vt : List VT4) : ∀ (ops : List EOp) {e : Expr}, ExprWF e →
    Expr.runE? vt (some e) ops = some (e.runE vt ops) := by
  intro ops
  induction ops with
  | nil => intro e _; rfl
  | cons op t ih =>
    intro e h
    show Expr.runE? vt (e.stepE? vt op) t = _
    rw [stepE?_eq h vt op]
    exact ih (stepE_wf h vt op)

end CqmP
