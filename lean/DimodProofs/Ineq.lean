import DimodProofs.Penalty
import DimodProofs.Slack

/-! # `add_linear_inequality_constraint` end to end (core Lean only)

Integer-valued 0/1 samples `z : Label → Int`; the penalty is the bag of the Cython equality
constraint on `terms ++ slack_terms` with constant `-ub_c`, evaluated at `z` cast to `Rat`. -/

namespace Pen

def Bin01 {α : Type} (z : α → Int) : Prop := ∀ v, z v = 0 ∨ z v = 1

def toRat {α : Type} (z : α → Int) : α → Rat := fun v => ((z v : Int) : Rat)

/-- `Σ aᵢ·z(vᵢ)` with integer coefficients -/
def isum {α : Type} (z : α → Int) : List (α × Int) → Int
  | [] => 0
  | t :: r => t.2 * z t.1 + isum z r

def castTerms {α : Type} (l : List (α × Int)) : List (α × Rat) := l.map (fun t => (t.1, ((t.2 : Int) : Rat)))

theorem lsum_cast {α : Type} (z : α → Int) (l : List (α × Int)) : lsum (toRat z) (castTerms l) = ((isum z l : Int) : Rat) := by
  induction l with
  | nil => rfl
  | cons t r ih =>
    simp only [castTerms, List.map_cons, lsum, isum, toRat] at ih ⊢
    rw [ih]; simp [Rat.intCast_add, Rat.intCast_mul]

theorem isum_append {α : Type} (z : α → Int) (a b : List (α × Int)) : isum z (a ++ b) = isum z a + isum z b := by
  induction a with
  | nil => simp [isum]
  | cons t r ih => simp only [List.cons_append, isum, ih]; omega

theorem dom_toRat {α : Type} (z : α → Int) (hz : Bin01 z) : Dom VT.binary (toRat z) := by
  intro v
  rcases hz v with h | h <;> simp [toRat, h]

/-- at a 0/1 sample the linear form is within the term bounds used by the planning step -/
theorem isum_bounds {α : Type} (z : α → Int) (hz : Bin01 z) (l : List (α × Int)) :
    sumNeg (l.map (·.2)) ≤ isum z l ∧ isum z l ≤ sumPos (l.map (·.2)) := by
  induction l with
  | nil => simp [isum, sumNeg, sumPos]
  | cons t r ih =>
    simp only [List.map_cons, isum, sumNeg, sumPos]
    rcases hz t.1 with h | h <;> rw [h] <;> constructor <;> split <;> omega

/-- the penalty the Cython equality constraint adds for integer data at a 0/1 sample:
    `λ·k²` with `k = Σ aᵢzᵢ + C` an integer -/
theorem penalty_int (z : Label → Int) (hz : Bin01 z) (terms : List (Label × Int)) (lam : Rat) (C : Int) :
    evalBag (toRat z) (eqTermsCy .binary (castTerms terms) lam ((C : Int) : Rat))
      = lam * (((isum z terms + C) * (isum z terms + C) : Int) : Rat) := by
  rw [eqTermsCy_eval .binary _ (dom_toRat z hz), lsum_cast]
  simp [Rat.intCast_add, Rat.intCast_mul]

/-- gap: the penalty is `0` when `k = 0` and at least `λ` otherwise (`λ ≥ 0`) -/
theorem penalty_gap (lam : Rat) (hlam : 0 ≤ lam) (k : Int) :
    (k = 0 → lam * (((k * k : Int)) : Rat) = 0) ∧ (k ≠ 0 → lam ≤ lam * (((k * k : Int)) : Rat)) := by
  constructor
  · intro h; subst h; simp
  · intro h
    have h1 : (1 : Int) ≤ k * k := one_le_sq k h
    have h2 : ((1 : Int) : Rat) ≤ ((k * k : Int) : Rat) := Rat.intCast_le_intCast.2 h1
    have := Rat.mul_le_mul_of_nonneg_left h2 hlam
    simpa using this

theorem penalty_nonneg (lam : Rat) (hlam : 0 ≤ lam) (k : Int) : 0 ≤ lam * (((k * k : Int)) : Rat) := by
  apply Rat.mul_nonneg hlam
  have : (0 : Int) ≤ k * k := by
    rcases Int.le_total 0 k with h | h
    · exact Int.mul_nonneg h h
    · have := Int.mul_nonneg_of_nonpos_of_nonpos h h; exact this
  exact Rat.intCast_nonneg.2 this

/-! ## slack bits as part of the sample -/

/-- overwrite the values of the listed labels by the given bits -/
def override {α : Type} [DecidableEq α] (z : α → Int) : List α → List Bool → α → Int
  | l :: ls, b :: bs => fun v => if v = l then (if b then 1 else 0) else override z ls bs v
  | _, _ => z

theorem override_bin {α : Type} [DecidableEq α] (z : α → Int) (hz : Bin01 z) (ls : List α) (bs : List Bool) : Bin01 (override z ls bs) := by
  induction ls generalizing bs with
  | nil => cases bs <;> exact hz
  | cons l ls ih =>
    cases bs with
    | nil => exact hz
    | cons b bs =>
      intro v
      simp only [override]
      split
      · cases b <;> simp
      · exact ih bs v

theorem override_off {α : Type} [DecidableEq α] (z : α → Int) (ls : List α) (bs : List Bool) (v : α) (hv : v ∉ ls) : override z ls bs v = z v := by
  induction ls generalizing bs with
  | nil => cases bs <;> rfl
  | cons l ls ih =>
    cases bs with
    | nil => rfl
    | cons b bs =>
      simp only [List.mem_cons, not_or] at hv
      simp only [override, if_neg hv.1]
      exact ih bs hv.2

theorem isum_congr {α : Type} (z z' : α → Int) (l : List (α × Int)) (h : ∀ t ∈ l, z' t.1 = z t.1) : isum z' l = isum z l := by
  induction l with
  | nil => rfl
  | cons t r ih =>
    simp only [isum]
    rw [h t (by simp), ih (fun t ht => h t (by simp [ht]))]

/-- with pairwise distinct slack labels, the slack part of the linear form is the subset sum of the chosen bits -/
theorem isum_override {α : Type} [DecidableEq α] (z : α → Int) (ls : List α) (bs : List Bool) (cs : List Nat)
    (hnd : ls.Nodup) (h1 : bs.length = cs.length) (h2 : ls.length = cs.length) :
    isum (override z ls bs) (ls.zip (cs.map Int.ofNat)) = (dot bs cs : Nat) := by
  induction ls generalizing bs cs with
  | nil => cases cs <;> cases bs <;> simp_all [isum, dot]
  | cons l ls ih =>
    cases cs with
    | nil => simp at h2
    | cons c cs =>
      cases bs with
      | nil => simp at h1
      | cons b bs =>
        simp only [List.nodup_cons] at hnd
        simp only [List.map_cons, List.zip_cons_cons, isum, dot]
        have hcongr : isum (override z (l :: ls) (b :: bs)) (ls.zip (cs.map Int.ofNat))
            = isum (override z ls bs) (ls.zip (cs.map Int.ofNat)) := by
          apply isum_congr
          intro t ht
          have hmem : t.1 ∈ ls := (List.of_mem_zip ht).1
          have hne : t.1 ≠ l := fun h => hnd.1 (h ▸ hmem)
          simp only [override, if_neg hne]
        rw [hcongr, ih bs cs hnd.2 (by simpa using h1) (by simpa using h2)]
        simp only [override, if_true]
        cases b <;> simp <;> omega

/-- any 0/1 sample reads the slack labels as some bit vector -/
theorem isum_slack_as_dot {α : Type} (z : α → Int) (hz : Bin01 z) (ls : List α) (cs : List Nat) (h2 : ls.length = cs.length) :
    ∃ bs : List Bool, bs.length = cs.length ∧ isum z (ls.zip (cs.map Int.ofNat)) = (dot bs cs : Nat) := by
  induction ls generalizing cs with
  | nil => cases cs with
    | nil => exact ⟨[], rfl, by simp [isum, dot]⟩
    | cons c cs => simp at h2
  | cons l ls ih =>
    cases cs with
    | nil => simp at h2
    | cons c cs =>
      obtain ⟨bs, hl, hd⟩ := ih cs (by simpa using h2)
      rcases hz l with h | h
      · refine ⟨false :: bs, by simp [hl], ?_⟩
        simp only [List.map_cons, List.zip_cons_cons, isum, dot, hd, h]; simp
      · refine ⟨true :: bs, by simp [hl], ?_⟩
        simp only [List.map_cons, List.zip_cons_cons, isum, dot, hd, h]; simp

/-! ## BQM inequality constraint, slack method -/

/-- `lb ≤ Σ aᵢzᵢ + c ≤ ub` -/
def Feasible (z : Label → Int) (terms : List (Label × Int)) (c lb ub : Int) : Prop :=
  lb ≤ isum z terms + c ∧ isum z terms + c ≤ ub

/-- the slack terms `(label, coefficient)` for labels `sl` -/
def slackTerms (sl : List Label) (S : Nat) : List (Label × Int) := sl.zip ((slackLog2 S).map Int.ofNat)

/-- the penalty added in the slack case: Cython equality constraint on `terms + slack_terms` with constant `-ub_c` -/
def slackPenalty (terms : List (Label × Int)) (sl : List Label) (S : Nat) (ubc : Int) (lam : Rat) (z : Label → Int) : Rat :=
  evalBag (toRat z) (eqTermsCy .binary (castTerms (terms ++ slackTerms sl S)) lam (((-ubc : Int)) : Rat))

theorem slackPenalty_eq (terms : List (Label × Int)) (sl : List Label) (S : Nat) (ubc : Int) (lam : Rat) (z : Label → Int) (hz : Bin01 z) :
    slackPenalty terms sl S ubc lam z
      = lam * ((((isum z terms + isum z (slackTerms sl S) - ubc) * (isum z terms + isum z (slackTerms sl S) - ubc) : Int)) : Rat) := by
  unfold slackPenalty
  rw [penalty_int z hz, isum_append]
  congr 2

/-- **BQM slack method.**  When the planning step chooses slack variables for `0..S`:
    at every 0/1 sample (slack bits included) the penalty is ≥ 0, it is ≥ λ when the constraint is
    violated, and when it holds some assignment of the slack bits (other variables unchanged) makes it 0. -/
theorem ineq_bqm_slack (terms : List (Label × Int)) (c lb ub : Int) (lam : Rat) (hlam : 0 ≤ lam)
    (ubc lbc : Int) (S : Nat) (hplan : ineqPlan (terms.map (·.2)) c lb ub = .slack ubc lbc S)
    (sl : List Label) (hlen : sl.length = (slackLog2 S).length) (hnd : sl.Nodup) (hfresh : ∀ t ∈ terms, t.1 ∉ sl)
    (z : Label → Int) (hz : Bin01 z) :
    0 ≤ slackPenalty terms sl S ubc lam z
    ∧ (¬ Feasible z terms c lb ub → lam ≤ slackPenalty terms sl S ubc lam z)
    ∧ (Feasible z terms c lb ub →
        ∃ z', Bin01 z' ∧ (∀ v, v ∉ sl → z' v = z v) ∧ slackPenalty terms sl S ubc lam z' = 0) := by
  have hb := isum_bounds z hz terms
  have hsound := ineqPlan_sound (terms.map (·.2)) c lb ub (isum z terms) hb.1 hb.2
  rw [hplan] at hsound
  simp only at hsound
  obtain ⟨hS, hiff⟩ := hsound
  refine ⟨?_, ?_, ?_⟩
  · rw [slackPenalty_eq _ _ _ _ _ _ hz]; exact penalty_nonneg lam hlam _
  · intro hnf
    rw [slackPenalty_eq _ _ _ _ _ _ hz]
    apply (penalty_gap lam hlam _).2
    intro hk
    obtain ⟨bs, hbl, hbd⟩ := isum_slack_as_dot z hz sl (slackLog2 S) hlen
    apply hnf
    apply hiff.2
    refine ⟨dot bs (slackLog2 S), (slack_covers S hS _).1 ⟨bs, hbl, rfl⟩, ?_⟩
    unfold slackTerms at hk
    rw [hbd] at hk
    exact hk
  · intro hf
    obtain ⟨t, ht, heq⟩ := hiff.1 hf
    obtain ⟨bs, hbl, hbd⟩ := (slack_covers S hS t).2 ht
    refine ⟨override z sl bs, override_bin z hz sl bs, fun v hv => override_off z sl bs v hv, ?_⟩
    rw [slackPenalty_eq _ _ _ _ _ _ (override_bin z hz sl bs)]
    apply (penalty_gap lam hlam _).1
    have h1 : isum (override z sl bs) terms = isum z terms :=
      isum_congr z _ terms (fun t ht => override_off z sl bs t.1 (hfresh t ht))
    have h2 : isum (override z sl bs) (slackTerms sl S) = (dot bs (slackLog2 S) : Nat) :=
      isum_override z sl bs (slackLog2 S) hnd hbl hlen
    rw [h1, h2, hbd]
    exact heq

/-- **equality case** (`slack_upper_bound == 0`): no slack variable; penalty 0 exactly on the feasible samples, ≥ λ elsewhere -/
theorem ineq_bqm_equality (terms : List (Label × Int)) (c lb ub : Int) (lam : Rat) (hlam : 0 ≤ lam)
    (ubc : Int) (hplan : ineqPlan (terms.map (·.2)) c lb ub = .equality ubc) (z : Label → Int) (hz : Bin01 z) :
    let pen := evalBag (toRat z) (eqTermsCy .binary (castTerms terms) lam (((-ubc : Int)) : Rat))
    (Feasible z terms c lb ub → pen = 0) ∧ (¬ Feasible z terms c lb ub → lam ≤ pen) := by
  have hb := isum_bounds z hz terms
  have hsound := ineqPlan_sound (terms.map (·.2)) c lb ub (isum z terms) hb.1 hb.2
  rw [hplan] at hsound
  simp only at hsound
  intro pen
  have hpen : pen = lam * ((((isum z terms + -ubc) * (isum z terms + -ubc) : Int)) : Rat) := penalty_int z hz terms lam (-ubc)
  constructor
  · intro hf
    rw [hpen]; apply (penalty_gap lam hlam _).1
    have := hsound.1 hf; omega
  · intro hnf
    rw [hpen]; apply (penalty_gap lam hlam _).2
    intro hk; apply hnf; apply hsound.2; omega

/-- **refusal** (`ValueError`) only when no 0/1 sample satisfies the constraint; **nothing added**
    (`[]` with a warning) only when every 0/1 sample satisfies it -/
theorem ineq_plan_refusal (terms : List (Label × Int)) (c lb ub : Int) (z : Label → Int) (hz : Bin01 z) :
    (ineqPlan (terms.map (·.2)) c lb ub = .infeasible → ¬ Feasible z terms c lb ub)
    ∧ (ineqPlan (terms.map (·.2)) c lb ub = .skip → Feasible z terms c lb ub) := by
  have hb := isum_bounds z hz terms
  have hsound := ineqPlan_sound (terms.map (·.2)) c lb ub (isum z terms) hb.1 hb.2
  constructor <;> intro h <;> rw [h] at hsound <;> exact hsound

end Pen
