import DimodModel.SampleSet

/-! Helper lemmas for C14 (sample-set model). Core Lean only. -/

namespace SSM

/-! ### indexing forms -/

@[simp] theorem gather_nil (l : List α) : gather l [] = [] := rfl

theorem gather_cons (l : List α) (i : Nat) (idx : List Nat) :
    gather l (i :: idx) = (match l[i]? with | some a => a :: gather l idx | none => gather l idx) := by
  simp only [gather, List.filterMap_cons]
  cases l[i]? <;> rfl

theorem gather_append (l : List α) (a b : List Nat) : gather l (a ++ b) = gather l a ++ gather l b := by
  simp [gather, List.filterMap_append]

/-- gathering with in-range indices is a `map` -/
theorem gather_eq_map (l : List α) (idx : List Nat) (h : ∀ i ∈ idx, i < l.length) (d : α) :
    gather l idx = idx.map (fun i => l.getD i d) := by
  induction idx with
  | nil => rfl
  | cons i idx ih =>
    have hi : i < l.length := h i (by simp)
    rw [gather_cons, List.getElem?_eq_getElem hi]
    simp only [List.map_cons]
    rw [ih (fun j hj => h j (by simp [hj]))]
    simp [List.getD, List.getElem?_eq_getElem hi]

theorem length_gather (l : List α) (idx : List Nat) (h : ∀ i ∈ idx, i < l.length) :
    (gather l idx).length = idx.length := by
  induction idx with
  | nil => rfl
  | cons i idx ih =>
    have hi : i < l.length := h i (by simp)
    rw [gather_cons, List.getElem?_eq_getElem hi]
    simp [ih (fun j hj => h j (by simp [hj]))]

theorem mem_gather {l : List α} {idx : List Nat} {a : α} (h : a ∈ gather l idx) : a ∈ l := by
  simp only [gather, List.mem_filterMap] at h
  obtain ⟨i, _, hi⟩ := h
  exact List.mem_of_getElem? hi

theorem getElem?_gather (l : List α) (idx : List Nat) (h : ∀ i ∈ idx, i < l.length) (k : Nat) :
    (gather l idx)[k]? = (idx[k]?).bind (l[·]?) := by
  induction idx generalizing k with
  | nil => simp
  | cons i idx ih =>
    have hi : i < l.length := h i (by simp)
    rw [gather_cons, List.getElem?_eq_getElem hi]
    cases k with
    | zero => simp [List.getElem?_eq_getElem hi]
    | succ k => simpa using ih (fun j hj => h j (by simp [hj])) k

/-- composition of two integer-array selections -/
theorem gather_gather (l : List α) (idx sel : List Nat) (h : ∀ i ∈ idx, i < l.length) :
    gather l (gather idx sel) = gather (gather l idx) sel := by
  induction sel with
  | nil => rfl
  | cons s sel ih =>
    rw [gather_cons idx, gather_cons (gather l idx), getElem?_gather l idx h]
    cases hs : idx[s]? with
    | none => simpa using ih
    | some i =>
      have hi : i < l.length := h i (List.mem_of_getElem? hs)
      simp [gather_cons, List.getElem?_eq_getElem hi, ih]

theorem gather_range (l : List α) : gather l (List.range l.length) = l := by
  apply List.ext_getElem?
  intro k
  rw [getElem?_gather l _ (by simp)]
  by_cases hk : k < l.length
  · simp [List.getElem?_range hk]
  · simp [hk]

/-- boolean-mask selection by a mask computed from the rows is `List.filter` -/
theorem maskSelect_map (l : List α) (p : α → Bool) : maskSelect l (l.map p) = l.filter p := by
  induction l with
  | nil => rfl
  | cons a l ih =>
    simp only [List.map_cons, maskSelect, List.filter_cons]
    cases p a <;> simp [ih]

end SSM
