import DimodModel.BqmDense
import DimodProofs.BqmLists

/-! The fast path of `add_quadratic_from_dense` (append when `is_linear()`) computes what the sorted insert computes:
    the pairs of the upper triangle come in strictly increasing lexicographic order, so every interaction already stored
    is smaller than the next pair and both of its ends sort before the new entry.  Core Lean only. -/

namespace Bqm

/-- lexicographic order on pairs -/
def denseLt (a b : Nat × Nat) : Prop := a.1 < b.1 ∨ (a.1 = b.1 ∧ a.2 < b.2)

/-- every stored (directed) entry, as an unordered pair `(min, max)`, is lexicographically below `p` -/
def DenseBelow (adj : List (List (Nat × Rat))) (p : Nat × Nat) : Prop :=
  ∀ w e, e ∈ adj.getD w [] → denseLt (min w e.1, max w e.1) p

theorem nbhAdd_append (nb : List (Nat × Rat)) (v : Nat) (b : Rat) (h : ∀ e ∈ nb, e.1 < v) :
    nbhAdd nb v b false = nb ++ [(v, b)] := by
  induction nb with
  | nil => simp [nbhAdd]
  | cons a t ih =>
    obtain ⟨w, c⟩ := a
    have hw : w < v := h (w, c) (by simp)
    simp only [nbhAdd, hw, if_true, List.cons_append]
    rw [ih (fun e he => h e (by simp [he]))]

theorem dense_modifyAt_congr {α} (l : List α) (i : Nat) (f g : α → α) (d : α) (h : i < l.length → f (l.getD i d) = g (l.getD i d)) :
    modifyAt l i f = modifyAt l i g := by
  induction l generalizing i with
  | nil => simp [modifyAt]
  | cons a t ih =>
    cases i with
    | zero => simp only [modifyAt]; have := h (by simp); simp at this; rw [this]
    | succ i =>
      simp only [modifyAt]
      rw [ih i (fun hi => by have := h (by simpa using hi); simpa using this)]

theorem denseBelow_row_u {adj : List (List (Nat × Rat))} {u v : Nat} (huv : u < v) (h : DenseBelow adj (u, v)) :
    ∀ e ∈ adj.getD u [], e.1 < v := by
  intro e he
  have := h u e he
  simp only [denseLt] at this
  omega

theorem denseBelow_row_v {adj : List (List (Nat × Rat))} {u v : Nat} (huv : u < v) (h : DenseBelow adj (u, v)) :
    ∀ e ∈ adj.getD v [], e.1 < u := by
  intro e he
  have := h v e he
  simp only [denseLt] at this
  omega

/-- under `DenseBelow`, the sorted insert of the pair is the append -/
theorem addQ_eq_addQBack (m : Bqm) (u v : Nat) (b : Rat) (huv : u < v) (h : DenseBelow m.adj (u, v)) :
    m.addQ u v b = m.addQBack u v b := by
  unfold addQ addQBack asym
  simp only
  have h1 : modifyAt m.adj u (fun nb => nbhAdd nb v b false) = modifyAt m.adj u (· ++ [(v, b)]) :=
    dense_modifyAt_congr _ _ _ _ [] (fun _ => nbhAdd_append _ _ _ (denseBelow_row_u huv h))
  rw [h1]
  have h2 : modifyAt (modifyAt m.adj u (· ++ [(v, b)])) v (fun nb => nbhAdd nb u b false)
      = modifyAt (modifyAt m.adj u (· ++ [(v, b)])) v (· ++ [(u, b)]) := by
    apply dense_modifyAt_congr _ _ _ _ []
    intro _
    apply nbhAdd_append
    rw [getD_modifyAt_ne _ _ _ _ _ (by omega)]
    exact denseBelow_row_v huv h
  rw [h2]

/-- after the append every stored entry is below any later pair -/
theorem denseBelow_addQBack (m : Bqm) (u v : Nat) (b : Rat) (huv : u < v) (p : Nat × Nat) (hp : denseLt (u, v) p)
    (h : DenseBelow m.adj p) : DenseBelow (m.addQBack u v b).adj p := by
  intro w e he
  unfold addQBack at he
  simp only at he
  rw [getD_modifyAt] at he
  split at he
  · rename_i hc
    obtain ⟨rfl, _⟩ := hc
    rw [List.mem_append] at he
    rcases he with he | he
    · rw [getD_modifyAt_ne _ _ _ _ _ (by omega)] at he
      exact h _ e he
    · simp only [List.mem_singleton] at he
      subst he
      simp only [denseLt] at hp ⊢
      omega
  · rw [getD_modifyAt] at he
    split at he
    · rename_i hc
      obtain ⟨rfl, _⟩ := hc
      rw [List.mem_append] at he
      rcases he with he | he
      · exact h _ e he
      · simp only [List.mem_singleton] at he
        subst he
        simp only [denseLt] at hp ⊢
        omega
    · exact h _ e he

theorem denseLt_trans {a b c : Nat × Nat} (h1 : denseLt a b) (h2 : denseLt b c) : denseLt a c := by
  simp only [denseLt] at *; omega

/-- the two loops agree along any strictly increasing list of pairs `u < v` above everything stored -/
theorem dense_fold_back_eq_insert (k : Nat) (dense : List Rat) (ps : List (Nat × Nat)) (m : Bqm)
    (hs : ps.Pairwise denseLt) (huv : ∀ p ∈ ps, p.1 < p.2) (hb : ∀ p ∈ ps, DenseBelow m.adj p) :
    ps.foldl (fun acc p => if denseTerm k dense p ≠ 0 then acc.addQBack p.1 p.2 (denseTerm k dense p) else acc) m
      = ps.foldl (fun acc p => if denseTerm k dense p ≠ 0 then acc.addQ p.1 p.2 (denseTerm k dense p) else acc) m := by
  induction ps generalizing m with
  | nil => rfl
  | cons p t ih =>
    simp only [List.foldl_cons]
    rw [List.pairwise_cons] at hs
    have hp := huv p (by simp)
    have hbp := hb p (by simp)
    by_cases hq : denseTerm k dense p ≠ 0
    · have e0 : ∀ (x y : Bqm), (if denseTerm k dense p ≠ 0 then x else y) = x := fun x y => if_pos hq
      rw [e0, e0]
      rw [addQ_eq_addQBack m p.1 p.2 _ hp hbp]
      apply ih _ hs.2 (fun q hq' => huv q (by simp [hq']))
      intro q hq'
      exact denseBelow_addQBack m p.1 p.2 _ hp q (hs.1 q hq') (hb q (by simp [hq']))
    · have e1 : ∀ (x y : Bqm), (if denseTerm k dense p ≠ 0 then x else y) = y := fun x y => if_neg hq
      rw [e1, e1]
      exact ih m hs.2 (fun q hq' => huv q (by simp [hq'])) (fun q hq' => hb q (by simp [hq']))

theorem upperPairs_lt (k : Nat) : ∀ p ∈ upperPairs k, p.1 < p.2 := by
  intro p hp
  simp only [upperPairs, List.mem_flatMap, List.mem_map, List.mem_filter, List.mem_range, decide_eq_true_eq] at hp
  obtain ⟨u, _, v, ⟨_, huv⟩, rfl⟩ := hp
  exact huv

theorem upperPairs_sorted (k : Nat) : (upperPairs k).Pairwise denseLt := by
  unfold upperPairs
  rw [List.pairwise_flatMap]
  constructor
  · intro u _
    rw [List.pairwise_map]
    apply List.Pairwise.filter
    apply List.Pairwise.imp _ (List.pairwise_lt_range (n := k))
    intro a b hab
    right; exact ⟨rfl, hab⟩
  · apply List.Pairwise.imp _ (List.pairwise_lt_range (n := k))
    intro a b hab x hx y hy
    simp only [List.mem_map, List.mem_filter, List.mem_range, decide_eq_true_eq] at hx hy
    obtain ⟨_, _, rfl⟩ := hx
    obtain ⟨_, _, rfl⟩ := hy
    left; exact hab

theorem dense_getD_of_all_empty {α} (l : List (List α)) (h : l.all (·.isEmpty) = true) (w : Nat) : l.getD w [] = [] := by
  induction l generalizing w with
  | nil => simp
  | cons a t ih =>
    simp only [List.all_cons, Bool.and_eq_true] at h
    cases w with
    | zero => simpa [List.isEmpty_iff] using h.1
    | succ w => simpa using ih h.2 w

theorem denseBelow_of_isLinear (m : Bqm) (h : m.isLinear = true) (p : Nat × Nat) : DenseBelow m.adj p := by
  intro w e he
  unfold isLinear at h
  rw [dense_getD_of_all_empty _ h] at he
  simp at he

/-- on a model without interactions the append loop is the insert loop -/
theorem denseBack_eq_denseInsert (m : Bqm) (h : m.isLinear = true) (k : Nat) (dense : List Rat) :
    m.denseBack k dense = m.denseInsert k dense :=
  dense_fold_back_eq_insert k dense (upperPairs k) m (upperPairs_sorted k) (upperPairs_lt k) (fun p _ => denseBelow_of_isLinear m h p)

theorem dense_coded_branch (m : Bqm) (k : Nat) (dense : List Rat) :
    (if m.isLinear then m.denseBack k dense else m.denseInsert k dense) = m.denseInsert k dense := by
  split
  · rename_i hl; exact denseBack_eq_denseInsert _ hl _ _
  · rfl

/-- **the call as coded is the call with the sorted insert everywhere**, on every model, size and matrix -/
theorem addQuadraticFromDenseCoded_eq (m : Bqm) (k : Nat) (dense : List Rat) :
    m.addQuadraticFromDenseCoded k dense = m.addQuadraticFromDense k dense := by
  unfold addQuadraticFromDenseCoded addQuadraticFromDense
  split
  · rfl
  · split
    · rfl
    · simp only [dense_coded_branch]
      rfl

end Bqm
