import DimodProofs.BqmViewLoop

/-! `remove_variable` through a `VartypeView` of the other vartype: every interaction of the variable is set to zero
    through the view, its linear bias too, then the data drops the variable — which changes nothing a view reads
    about the other variables.  Core Lean only. -/

namespace Bqm

/-! ### sums over a list with one element erased -/

theorem foldl_erase_zero (l : List Label) (hn : l.Nodup) (f : Label → Rat) (v : Label) (hv : f v = 0) (z : Rat) :
    (l.erase v).foldl (fun a x => a + f x) z = l.foldl (fun a x => a + f x) z := by
  induction l generalizing z with
  | nil => rfl
  | cons x t ih =>
    have hnt := (List.nodup_cons.mp hn).2
    by_cases hx : x = v
    · have : (x == v) = true := by simpa using hx
      rw [List.erase_cons, if_pos this]
      simp only [List.foldl]
      rw [hx, hv, Rat.add_zero]
    · have : (x == v) = false := by simpa using hx
      rw [List.erase_cons]
      simp only [this, Bool.false_eq_true, if_false, List.foldl]
      exact ih hnt _

theorem mem_erase_ne {l : List Label} (hn : l.Nodup) {v x : Label} (h : x ∈ l.erase v) : x ≠ v ∧ x ∈ l := by
  have := (List.Nodup.mem_erase_iff hn).mp h
  exact ⟨this.1, this.2⟩

/-- erasing a variable keeps the relative order of the others -/
theorem pos_erase_lt {q : LPoly} (hn : q.vars.Nodup) {l a w : Label} (hl : l ∈ q.vars) (ha : a ∈ q.vars) (hw : w ∈ q.vars)
    (hal : a ≠ l) (hwl : w ≠ l) :
    ((indexOfGo w (q.vars.erase l) 0).getD 0 < (indexOfGo a (q.vars.erase l) 0).getD 0) ↔ (q.pos w < q.pos a) := by
  unfold LPoly.pos
  cases hil : indexOfGo l q.vars 0 with
  | none => exact absurd hl ((indexOfGo_none l q.vars 0).mp hil)
  | some vi =>
    have he : eraseIdx q.vars vi = q.vars.erase l := by
      have := eraseIdx_eq_erase l q.vars 0 vi hil; simpa using this
    have hget : q.vars[vi]? = some l := by
      have := (indexOfGo_some l q.vars 0 vi hil).2.2; simpa using this
    rw [← he, indexOfGo_eraseIdx w q.vars 0 vi hn, indexOfGo_eraseIdx a q.vars 0 vi hn, hget]
    have n1 : ¬ some l = some w := fun e => hwl (Option.some.inj e).symm
    have n2 : ¬ some l = some a := fun e => hal (Option.some.inj e).symm
    simp only [n1, n2, if_false, Nat.zero_add]
    cases hiw : indexOfGo w q.vars 0 with
    | none => exact absurd hw ((indexOfGo_none w q.vars 0).mp hiw)
    | some i =>
      cases hia : indexOfGo a q.vars 0 with
      | none => exact absurd ha ((indexOfGo_none a q.vars 0).mp hia)
      | some j =>
        simp only [Option.map_some, Option.getD_some]
        have hi : i ≠ vi := by
          intro e
          have h1 := (indexOfGo_some w q.vars 0 i hiw).2.2
          simp only [Nat.sub_zero] at h1
          rw [e, hget] at h1; exact hwl (Option.some.inj h1).symm
        have hj : j ≠ vi := by
          intro e
          have h1 := (indexOfGo_some a q.vars 0 j hia).2.2
          simp only [Nat.sub_zero] at h1
          rw [e, hget] at h1; exact hal (Option.some.inj h1).symm
        split <;> split <;> omega

/-! ### dropping a variable whose biases are all zero -/

theorem viewP_removeVariable_zero {q : LPoly} (w : LWF q) (tv : VT) (l : Label) (hl : l ∈ q.vars)
    (hz : ∀ x, q.g l x = 0) (hlin : q.lin l = 0) :
    (q.removeVariable l).viewP tv = (q.viewP tv).removeVariable l := by
  have hzs : ∀ x, q.g x l = 0 := by intro x; unfold LPoly.g; rw [w.symm x l]; exact hz x
  have hg' : ∀ a b, (q.removeVariable l).g a b = if a = l ∨ b = l then 0 else q.g a b := by
    intro a b; unfold LPoly.g LPoly.removeVariable
    simp only []
    split <;> rfl
  -- the neighbourhood sums
  have hnb : ∀ x, (q.removeVariable l).sumNb x = if x = l then 0 else q.sumNb x := by
    intro x
    rw [sumNb_eq, sumNb_eq]
    show (q.vars.erase l).foldl (fun a y => a + (q.removeVariable l).g x y) 0 = _
    by_cases hx : x = l
    · rw [if_pos hx]
      have e : (q.vars.erase l).foldl (fun a y => a + (q.removeVariable l).g x y) 0 = (q.vars.erase l).foldl (fun a (_ : Label) => a + (0 : Rat)) 0 := by
        apply foldl_congr_mem
        intro acc y _
        rw [hg']; simp [hx]
      rw [e]; exact foldl_zero _ 0
    · rw [if_neg hx]
      have e : (q.vars.erase l).foldl (fun a y => a + (q.removeVariable l).g x y) 0 = (q.vars.erase l).foldl (fun a y => a + q.g x y) 0 := by
        apply foldl_congr_mem
        intro acc y hy
        have := (mem_erase_ne w.nodup hy).1
        rw [hg']; simp [hx, this]
      rw [e]
      exact foldl_erase_zero q.vars w.nodup (fun y => q.g x y) l (hzs x) 0
  have hsl : (q.removeVariable l).sumLin = q.sumLin := by
    unfold LPoly.sumLin
    show (q.vars.erase l).foldl (fun a x => a + (if x = l then 0 else q.lin x)) 0 = _
    have e : (q.vars.erase l).foldl (fun a x => a + (if x = l then 0 else q.lin x)) 0 = (q.vars.erase l).foldl (fun a x => a + q.lin x) 0 := by
      apply foldl_congr_mem
      intro acc y hy
      have := (mem_erase_ne w.nodup hy).1
      simp [this]
    rw [e]
    exact foldl_erase_zero q.vars w.nodup q.lin l hlin 0
  have hsq : (q.removeVariable l).sumQuad = q.sumQuad := by
    rw [sumQuad_eq, sumQuad_eq]
    show (q.vars.erase l).foldl (fun acc a => acc + (q.vars.erase l).foldl (fun a2 x => a2 + (q.removeVariable l).low a x) 0) 0 = _
    -- inner sums, for a ≠ l
    have inner : ∀ a, a ∈ q.vars.erase l →
        (q.vars.erase l).foldl (fun a2 x => a2 + (q.removeVariable l).low a x) 0 = q.vars.foldl (fun a2 x => a2 + q.low a x) 0 := by
      intro a ha
      have hal := mem_erase_ne w.nodup ha
      have e : (q.vars.erase l).foldl (fun a2 x => a2 + (q.removeVariable l).low a x) 0 = (q.vars.erase l).foldl (fun a2 x => a2 + q.low a x) 0 := by
        apply foldl_congr_mem
        intro acc x hx
        have hxl := mem_erase_ne w.nodup hx
        unfold LPoly.low
        rw [hg']
        simp only [hal.1, hxl.1, or_self, if_false]
        have := pos_erase_lt w.nodup hl hal.2 hxl.2 hal.1 hxl.1
        show acc + (if (indexOfGo x (q.vars.erase l) 0).getD 0 < (indexOfGo a (q.vars.erase l) 0).getD 0 then q.g a x else 0) = _
        by_cases hp : q.pos x < q.pos a
        · rw [if_pos (this.mpr hp), if_pos hp]
        · rw [if_neg (fun h => hp (this.mp h)), if_neg hp]
      rw [e]
      apply foldl_erase_zero q.vars w.nodup (fun x => q.low a x) l
      show (if q.pos l < q.pos a then q.g a l else 0) = 0
      rw [hzs a]; split <;> rfl
    have e : (q.vars.erase l).foldl (fun acc a => acc + (q.vars.erase l).foldl (fun a2 x => a2 + (q.removeVariable l).low a x) 0) 0 =
        (q.vars.erase l).foldl (fun acc a => acc + q.vars.foldl (fun a2 x => a2 + q.low a x) 0) 0 := by
      apply foldl_congr_mem
      intro acc a ha
      rw [inner a ha]
    rw [e]
    apply foldl_erase_zero q.vars w.nodup (fun a => q.vars.foldl (fun a2 x => a2 + q.low a x) 0) l
    show q.vars.foldl (fun a2 x => a2 + q.low l x) 0 = 0
    have e2 : q.vars.foldl (fun a2 x => a2 + q.low l x) 0 = q.vars.foldl (fun a2 (_ : Label) => a2 + (0 : Rat)) 0 := by
      apply foldl_congr_mem
      intro acc x _
      unfold LPoly.low; rw [hz x]; split <;> rfl
    rw [e2]; exact foldl_zero _ 0
  apply LPoly.ext'
  · rfl
  · intro x
    show (q.removeVariable l).viewLin tv x = if x = l then 0 else q.viewLin tv x
    have hlinx : (q.removeVariable l).lin x = if x = l then 0 else q.lin x := rfl
    have hvt : (q.removeVariable l).vt = q.vt := rfl
    unfold LPoly.viewLin
    rw [hvt, hlinx, hnb x]
    by_cases hx : x = l
    · simp only [hx, if_true]
      split
      · rfl
      · cases tv <;> simp only [] <;> grind
    · simp only [hx, if_false]
  · intro a b
    show ((q.removeVariable l).quad a b).map ((q.removeVariable l).viewFactor tv * ·) =
      if a = l ∨ b = l then none else (q.quad a b).map (q.viewFactor tv * ·)
    show (if a = l ∨ b = l then none else q.quad a b).map (q.viewFactor tv * ·) = _
    split <;> rfl
  · show (q.removeVariable l).viewOff tv = q.viewOff tv
    unfold LPoly.viewOff
    rw [hsl, hsq]; rfl
  · rfl

/-! ### the loop that sets every interaction of `l` to zero -/

theorem zeroFold (l : Label) (xs : List (Label × Rat)) : ∀ (P : LPoly), l ∈ P.vars → (∀ e ∈ xs, e.1 ∈ P.vars ∧ e.1 ≠ l) →
    (xs.foldl (fun q lc => q.quadOp lc.1 l 0 true) P).vars = P.vars ∧
    (xs.foldl (fun q lc => q.quadOp lc.1 l 0 true) P).lin = P.lin ∧
    (xs.foldl (fun q lc => q.quadOp lc.1 l 0 true) P).off = P.off ∧
    (xs.foldl (fun q lc => q.quadOp lc.1 l 0 true) P).vt = P.vt ∧
    (∀ a b, a ≠ l → b ≠ l → (xs.foldl (fun q lc => q.quadOp lc.1 l 0 true) P).quad a b = P.quad a b) ∧
    (∀ x, (xs.foldl (fun q lc => q.quadOp lc.1 l 0 true) P).quad l x = if x ∈ xs.map (·.1) then some 0 else P.quad l x) := by
  induction xs with
  | nil => intro P _ _; exact ⟨rfl, rfl, rfl, rfl, fun _ _ _ _ => rfl, fun x => by simp⟩
  | cons e t ih =>
    intro P hl hx
    have he := hx e (by simp)
    simp only [List.foldl]
    have hv' : (P.quadOp e.1 l 0 true).vars = P.vars := by rw [vars_quadOp]; exact ensure2_idem P e.1 l he.1 hl
    have r := ih (P.quadOp e.1 l 0 true) (by rw [hv']; exact hl) (fun y hy => by rw [hv']; exact hx y (List.mem_cons_of_mem _ hy))
    refine ⟨r.1.trans hv', r.2.1.trans (lin_quadOp P e.1 l 0 true), r.2.2.1.trans (off_quadOp P e.1 l 0 true),
      r.2.2.2.1.trans (vt_quadOp' P e.1 l 0 true), ?_, ?_⟩
    · intro a b ha hb
      rw [r.2.2.2.2.1 a b ha hb, quad_quadOp]
      have : ¬ ((a = e.1 ∧ b = l) ∨ (a = l ∧ b = e.1)) := by
        intro h; rcases h with ⟨_, h2⟩ | ⟨h1, _⟩
        · exact hb h2
        · exact ha h1
      rw [if_neg this]
    · intro x
      rw [r.2.2.2.2.2 x, quad_quadOp]
      have hle : ¬ l = e.1 := fun h => he.2 h.symm
      simp only [List.map_cons, List.mem_cons]
      by_cases hxt : x ∈ t.map (·.1)
      · simp [hxt]
      · by_cases hxe : x = e.1
        · simp [hxt, hxe]
        · simp [hxt, hxe, hle]

/-- a view factor is never zero -/
theorem viewFactor_ne_zero (q : LPoly) (tv : VT) : q.viewFactor tv ≠ 0 := by
  unfold LPoly.viewFactor
  split
  · intro h; exact absurd h (by decide +kernel)
  · cases tv
    · show (1 / 4 : Rat) ≠ 0
      intro h; exact absurd h (by decide +kernel)
    · show (4 : Rat) ≠ 0
      intro h; exact absurd h (by decide +kernel)

/-- **`remove_variable(l)` through a view of the other vartype** (`l` a variable) -/
theorem view_removeKey {m : Bqm} (i : Inv m) (tv : VT) (l : Label) {vi : Nat} (hv : m.indexOf? l = some vi) (htv : tv ≠ m.vt) :
    (absL (m.vRemoveVariable tv (some l)).1).viewP tv = ((absL m).viewP tv).removeVariable l ∧
    (m.vRemoveVariable tv (some l)).2 = none ∧ Inv (m.vRemoveVariable tv (some l)).1 := by
  have facts := nbh_label_facts i hv
  have hb : ∀ p ∈ m.nbhAt vi, p.1 < m.labels.length := fun p hp => (facts p hp).1
  have hgood : ∀ p ∈ m.nbhAt vi, (m.labels.getD p.1 (.int 0)) ≠ l := by
    intro p hp e
    have := (facts p hp).2
    rw [e, quad_self_none i l] at this; cases this
  unfold Bqm.vRemoveVariable
  rw [if_neg htv]
  simp only [hv]
  -- the loop
  have L := loop_view tv m (m.nbhAt vi) hb (fun acc ul _ => (acc.vSetQuadratic tv ul l 0).1)
    (fun q x _ => q.quadOp x l 0 true) (fun x => x ≠ l) hgood
    (by
      intro acc ia x c hx
      have r := view_setQuadratic ia tv x l 0 hx
      exact ⟨r.1, r.2.2, ext_vSetQuadratic acc tv x l 0⟩)
    m i (LabelsExt.refl m)
  rw [← nbrs_absL i hv] at L
  obtain ⟨hL, iL, eL⟩ := L
  generalize (m.nbhAt vi).foldl (loopBody fun acc ul _ => (acc.vSetQuadratic tv ul l 0).1) m = m1 at hL iL eL
  have r2 := view_setLinear iL tv l 0
  generalize hm2 : m1.vSetLinear tv l 0 = m2 at r2
  have hv2 : m2.indexOf? l = some vi := by
    rw [← hm2]; exact (ext_vSetLinear m1 tv l 0).indexOf? (eL.indexOf? hv)
  -- what the view shows before the data removal
  have hmemP : l ∈ ((absL m).viewP tv).vars := (mem_labels_iff m l).mpr ⟨vi, hv⟩
  have hxs : ∀ e ∈ (absL m).nbrs l, e.1 ∈ ((absL m).viewP tv).vars ∧ e.1 ≠ l := by
    intro e he
    have hq := mem_nbrs (show (e.1, e.2) ∈ (absL m).nbrs l from he)
    refine ⟨((LWF.absL i).closed l e.1 (by rw [hq]; rfl)).2, ?_⟩
    intro e1; rw [e1, quad_self_none i l] at hq; cases hq
  have z := zeroFold l ((absL m).nbrs l) ((absL m).viewP tv) hmemP hxs
  have hP2 : (absL m2).viewP tv = (((absL m).nbrs l).foldl (fun q lc => q.quadOp lc.1 l 0 true) ((absL m).viewP tv)).setLinear l 0 := by
    rw [r2.1, hL]
  -- the data of `m2`: every bias of `l` is zero
  have wq := LWF.absL r2.2
  have hF := viewFactor_ne_zero (absL m2) tv
  have hrow : ∀ x, ((absL m2).viewP tv).g l x = 0 := by
    intro x
    unfold LPoly.g
    rw [hP2]
    show (((((absL m).nbrs l).foldl (fun q lc => q.quadOp lc.1 l 0 true) ((absL m).viewP tv)).ensure l).quad l x).getD 0 = 0
    rw [ensure_quad, z.2.2.2.2.2 x]
    by_cases hx : x ∈ ((absL m).nbrs l).map (·.1)
    · simp [hx]
    · rw [if_neg hx]
      cases hq : ((absL m).viewP tv).quad l x with
      | none => rfl
      | some c =>
        exfalso; apply hx
        have hq' : ((absL m).quad l x).map ((absL m).viewFactor tv * ·) = some c := hq
        cases hd : (absL m).quad l x with
        | none => rw [hd] at hq'; cases hq'
        | some d =>
          have hxm := ((LWF.absL i).closed l x (by rw [hd]; rfl)).2
          refine List.mem_map.mpr ⟨(x, d), ?_, rfl⟩
          unfold LPoly.nbrs
          exact List.mem_filterMap.mpr ⟨x, hxm, by rw [hd]; rfl⟩
  have hz : ∀ x, (absL m2).g l x = 0 := by
    intro x
    have := hrow x
    have e : ((absL m2).viewP tv).g l x = (absL m2).viewFactor tv * (absL m2).g l x := viewQuad_getD (absL m2) _ l x
    rw [e] at this
    rcases Rat.mul_eq_zero.mp this with h | h
    · exact absurd h hF
    · exact h
  have hsum0 : (absL m2).sumNb l = 0 := by
    rw [sumNb_eq]
    have e : (absL m2).vars.foldl (fun a x => a + (absL m2).g l x) 0 = (absL m2).vars.foldl (fun a (_ : Label) => a + (0 : Rat)) 0 := by
      apply foldl_congr_mem
      intro acc x _; rw [hz x]
    rw [e]; exact foldl_zero _ 0
  -- the linear bias of `l` in the data is zero as well
  have hview0 : ((absL m2).viewP tv).lin l = 0 := by
    rw [hP2]
    show (if l = l then (0 : Rat) else _) = 0
    rw [if_pos rfl]
  have hlin : (absL m2).lin l = 0 := by
    have h0 : (absL m2).viewLin tv l = 0 := hview0
    unfold LPoly.viewLin at h0
    rw [hsum0] at h0
    split at h0
    · exact h0
    · cases tv <;> simp only [] at h0 <;> grind
  -- the data removal
  have hrm : m2.removeVariable (some l) = (m2.removeAt vi, none) := by
    unfold Bqm.removeVariable; simp only [hv2]
  rw [hrm]
  have hvil : vi < m2.lin.length := by rw [← r2.2.wf.labels_len]; exact (indexOf?_some hv2).1
  refine ⟨?_, rfl, r2.2.removeAt vi hvil⟩
  have hmem2 : l ∈ (absL m2).vars := (mem_labels_iff m2 l).mpr ⟨vi, hv2⟩
  rw [removeAt_refines r2.2.wf r2.2.nodup hv2, viewP_removeVariable_zero wq tv l hmem2 hz hlin, hP2]
  -- zeroing the biases of `l` first and dropping `l` = dropping `l`
  generalize hP1 : ((absL m).nbrs l).foldl (fun q lc => q.quadOp lc.1 l 0 true) ((absL m).viewP tv) = P1 at z
  have hl1 : l ∈ P1.vars := by rw [z.1]; exact hmemP
  apply LPoly.ext'
  · show (P1.ensure l).vars.erase l = ((absL m).viewP tv).vars.erase l
    rw [ensure_vars']; simp only [hl1, if_true]; rw [z.1]
  · intro x
    show (if x = l then 0 else (if x = l then (0 : Rat) else P1.lin x)) = if x = l then 0 else ((absL m).viewP tv).lin x
    by_cases hx : x = l
    · simp [hx]
    · simp only [hx, if_false]; rw [z.2.1]
  · intro a b
    show (if a = l ∨ b = l then none else (P1.ensure l).quad a b) = if a = l ∨ b = l then none else ((absL m).viewP tv).quad a b
    by_cases hc : a = l ∨ b = l
    · rw [if_pos hc, if_pos hc]
    · rw [if_neg hc, if_neg hc, ensure_quad]
      exact z.2.2.2.2.1 a b (fun e => hc (Or.inl e)) (fun e => hc (Or.inr e))
  · show (P1.ensure l).off = ((absL m).viewP tv).off
    rw [ensure_off]; exact z.2.2.1
  · show (P1.ensure l).vt = ((absL m).viewP tv).vt
    rw [ensure_vt]; exact z.2.2.2.1

end Bqm
