import DimodProofs.IneqCoded
import DimodProofs.Encoding

/-! # C16: `DiscreteQuadraticModel.add_linear_inequality_constraint` at the level of DQM samples (core Lean only) -/

namespace Pen

/-- `Σ a·[sample(v) = case]` over the `(variable, case, bias)` triples (repeated pairs count each time) -/
def tsumI : List (Nat × Nat × Int) → List Nat → Int
  | [], _ => 0
  | t :: r, s => t.2.2 * (if s.getD t.1 0 = t.2.1 then 1 else 0) + tsumI r s

theorem tsumI_append (a b : List (Nat × Nat × Int)) (s : List Nat) : tsumI (a ++ b) s = tsumI a s + tsumI b s := by
  induction a with
  | nil => simp [tsumI]
  | cons t r ih => simp only [List.cons_append, tsumI, ih]; omega

/-- the value lies between the sums of the negative and of the positive biases: every indicator is 0 or 1 -/
theorem tsumI_bounds (terms : List (Nat × Nat × Int)) (s : List Nat) :
    sumNeg (terms.map (·.2.2)) ≤ tsumI terms s ∧ tsumI terms s ≤ sumPos (terms.map (·.2.2)) := by
  induction terms with
  | nil => simp [tsumI, sumNeg, sumPos]
  | cons t r ih =>
    simp only [List.map_cons, tsumI, sumNeg, sumPos]
    split <;> split <;> split <;> omega

theorem indic_case (nc s : List Nat) (hv : ValidSample nc s) (v c : Nat) (hvl : v < nc.length) (hc : c < nc.getD v 0) :
    indic nc s ((caseStarts nc).getD v 0 + c) = if s.getD v 0 = c then 1 else 0 := by
  unfold indic
  by_cases h : s.getD v 0 = c
  · rw [if_pos h, if_pos]
    rw [mem_selected]
    exact ⟨v, hvl, by unfold gcase; rw [h]⟩
  · rw [if_neg h, if_neg]
    rw [mem_selected]
    rintro ⟨u, hu, hg⟩
    have h1 := varOfCase_gcase nc s hv u hu
    have h2 := varOfCase_start nc v c hvl hc
    rw [hg, h2] at h1
    subst h1
    unfold gcase at hg
    omega

theorem lsum_resolve (nc : List Nat) (terms : List (Nat × Nat × Int)) (r : List (Nat × Rat))
    (h : dqmResolve nc (ratTerms3 terms) = some r) (s : List Nat) (hv : ValidSample nc s) :
    lsum (indic nc s) r = ((tsumI terms s : Int) : Rat) := by
  induction terms generalizing r with
  | nil => simp only [ratTerms3, List.map_nil, dqmResolve, Option.some.injEq] at h; subst h; rfl
  | cons t ts ih =>
    obtain ⟨v, c, a⟩ := t
    simp only [ratTerms3, List.map_cons, dqmResolve] at h
    split at h
    · rename_i hvl
      split at h
      · rename_i hc
        cases hr : dqmResolve nc (ratTerms3 ts) with
        | none =>
          have : dqmResolve nc (List.map (fun t => (t.1, t.2.1, ((t.2.2 : Int) : Rat))) ts) = none := hr
          rw [this] at h; simp at h
        | some r' =>
          have : dqmResolve nc (List.map (fun t => (t.1, t.2.1, ((t.2.2 : Int) : Rat))) ts) = some r' := hr
          rw [this] at h
          simp only [Option.map_some, Option.some.injEq] at h
          subst h
          have hc' : c < nc.getD v 0 := by
            rw [List.getD_eq_getElem?_getD, List.getElem?_eq_getElem hvl]; exact hc
          simp only [lsum, tsumI]
          rw [ih r' hr, indic_case nc s hv v c hvl hc']
          split <;> simp [Rat.intCast_add] <;> grind
      · simp at h
    · simp at h

/-! ## the slack variables: which totals their cases can contribute -/

/-- value of the chosen case `k` of a slack variable: case 0 contributes nothing -/
def caseVal (cases : List (Nat × Int)) (k : Nat) : Int :=
  match cases with
  | [] => 0
  | cv :: r => cv.2 * (if k = cv.1 then 1 else 0) + caseVal r k

/-- total contributed by the slack variables at the chosen cases `sc` -/
def slackValI : List SlackVar → List Nat → Int
  | [], _ => 0
  | v :: r, sc => caseVal v.cases (sc.headD 0) + slackValI r sc.tail

theorem tsumI_caseMap (base : Nat) (cases : List (Nat × Int)) (s : List Nat) :
    tsumI (cases.map (fun cv => (base, cv.1, cv.2))) s = caseVal cases (s.getD base 0) := by
  induction cases with
  | nil => rfl
  | cons cv r ih => simp only [List.map_cons, tsumI, caseVal, ih]

theorem tsumI_slackExtra (pre : List Nat) (sv : List SlackVar) (sc : List Nat) (hl : sc.length = sv.length) :
    tsumI (slackExtra pre.length sv) (pre ++ sc) = slackValI sv sc := by
  induction sv generalizing pre sc with
  | nil => rfl
  | cons v r ih =>
    cases sc with
    | nil => simp at hl
    | cons k t =>
      simp only [slackExtra, tsumI_append, tsumI_caseMap, slackValI, List.headD_cons, List.tail_cons]
      have h1 : (pre ++ k :: t).getD pre.length 0 = k := by simp
      rw [h1]
      have h2 := ih (pre ++ [k]) t (by simpa using hl)
      simp only [List.length_append, List.length_singleton, List.append_assoc, List.singleton_append] at h2
      rw [h2]

theorem tsumI_prefix (terms : List (Nat × Nat × Int)) (s sc : List Nat) (h : ∀ t ∈ terms, t.1 < s.length) :
    tsumI terms (s ++ sc) = tsumI terms s := by
  induction terms with
  | nil => rfl
  | cons t r ih =>
    simp only [tsumI]
    rw [ih (fun t' ht' => h t' (by simp [ht']))]
    have : (s ++ sc).getD t.1 0 = s.getD t.1 0 := by
      have := h t (by simp)
      simp [List.getD_eq_getElem?_getD, List.getElem?_append_left this]
    rw [this]

theorem validSample_cons (n k : Nat) (nc s : List Nat) : ValidSample (n :: nc) (k :: s) ↔ (k < n ∧ ValidSample nc s) := by
  unfold ValidSample
  simp only [List.length_cons, Nat.add_right_cancel_iff]
  constructor
  · rintro ⟨hl, h⟩
    refine ⟨by simpa using h 0 (by omega), hl, fun u hu => ?_⟩
    simpa using h (u + 1) (by omega)
  · rintro ⟨hk, hl, h⟩
    refine ⟨hl, fun u hu => ?_⟩
    cases u with
    | zero => simpa using hk
    | succ u => simpa using h u (by omega)

theorem validSample_nil_left (s : List Nat) : ValidSample [] s ↔ s = [] := by
  unfold ValidSample
  constructor
  · rintro ⟨hl, _⟩; exact List.length_eq_zero_iff.1 (by simpa using hl)
  · rintro rfl; exact ⟨rfl, fun u hu => by simp at hu⟩

theorem reps_cons (c : Nat) (cs : List Nat) (t : Nat) :
    Reps (c :: cs) t ↔ ∃ b : Bool, ∃ t', Reps cs t' ∧ t = (if b then c else 0) + t' := by
  unfold Reps
  constructor
  · rintro ⟨bs, hl, hd⟩
    cases bs with
    | nil => simp at hl
    | cons b bs' =>
      simp only [dot] at hd
      exact ⟨b, dot bs' cs, ⟨bs', by simpa using hl, rfl⟩, hd.symm⟩
  · rintro ⟨b, t', ⟨bs', hl, hd⟩, ht⟩
    exact ⟨b :: bs', by simp [hl], by simp only [dot]; omega⟩

/-- log2 method: one two-case variable per coefficient, case 1 carrying the coefficient — the totals are
    exactly the subset sums of the coefficients -/
theorem slackVals_log2 (cs : List Nat) (sv : List SlackVar)
    (hsv : sv.map (fun v => (v.ncases, v.cases)) = cs.map (fun c => (2, [(1, ((c : Nat) : Int))]))) (t : Nat) :
    (∃ sc, ValidSample (sv.map (·.ncases)) sc ∧ slackValI sv sc = (t : Int)) ↔ Reps cs t := by
  induction cs generalizing sv t with
  | nil =>
    have : sv = [] := by simpa using hsv
    subst this
    simp only [List.map_nil, validSample_nil_left, slackValI]
    constructor
    · rintro ⟨sc, _, h⟩; exact ⟨[], rfl, by simp only [dot]; omega⟩
    · rintro ⟨bs, hl, hd⟩
      have : bs = [] := List.length_eq_zero_iff.1 (by simpa using hl)
      subst this
      simp only [dot] at hd
      exact ⟨[], rfl, by omega⟩
  | cons c cs ih =>
    cases sv with
    | nil => simp at hsv
    | cons v r =>
      simp only [List.map_cons, List.cons.injEq, Prod.mk.injEq] at hsv
      obtain ⟨⟨hn, hc⟩, hr⟩ := hsv
      rw [reps_cons]
      constructor
      · rintro ⟨sc, hval, hs⟩
        cases sc with
        | nil => exact absurd hval.1 (by simp)
        | cons k sc' =>
          simp only [List.map_cons, validSample_cons] at hval
          simp only [slackValI, List.headD_cons, List.tail_cons, hc, caseVal] at hs
          have hk : k < 2 := by rw [hn] at hval; exact hval.1
          have hnn : 0 ≤ slackValI r sc' := by
            -- a sum of naturals
            have : ∀ (r : List SlackVar) (cs : List Nat) (sc : List Nat),
                r.map (fun v => (v.ncases, v.cases)) = cs.map (fun c => (2, [(1, ((c : Nat) : Int))])) → 0 ≤ slackValI r sc := by
              intro r
              induction r with
              | nil => intro _ _ _; simp [slackValI]
              | cons v' r' ihr =>
                intro cs sc h
                cases cs with
                | nil => simp at h
                | cons c' cs' =>
                  simp only [List.map_cons, List.cons.injEq, Prod.mk.injEq] at h
                  have := ihr cs' sc.tail h.2
                  simp only [slackValI, h.1.2, caseVal]
                  split <;> omega
            exact this r cs sc' hr
          refine ⟨decide (k = 1), (slackValI r sc').toNat, (ih r hr _).1 ⟨sc', hval.2, by omega⟩, ?_⟩
          by_cases hk1 : k = 1
          · simp only [hk1, decide_true, if_true] at hs ⊢; omega
          · simp only [hk1, decide_false] at hs ⊢
            simp only [if_false] at hs
            simp; omega
      · rintro ⟨b, t', hreps, ht⟩
        obtain ⟨sc', hval', hs'⟩ := (ih r hr t').2 hreps
        refine ⟨(if b then 1 else 0) :: sc', ?_, ?_⟩
        · simp only [List.map_cons, validSample_cons, hn]
          exact ⟨by split <;> omega, hval'⟩
        · simp only [slackValI, List.headD_cons, List.tail_cons, hc, caseVal, hs']
          cases b <;> simp [ht]

theorem caseVal_append (a b : List (Nat × Int)) (k : Nat) : caseVal (a ++ b) k = caseVal a k + caseVal b k := by
  induction a with
  | nil => simp [caseVal]
  | cons cv r ih => simp only [List.cons_append, caseVal, ih]; omega

theorem caseVal_range (S k : Nat) :
    caseVal ((List.range S).map (fun i => (i + 1, ((i + 1 : Nat) : Int)))) k = if 1 ≤ k ∧ k ≤ S then (k : Int) else 0 := by
  induction S with
  | zero => simp [caseVal]; omega
  | succ S ih =>
    rw [List.range_succ, List.map_append, caseVal_append, ih]
    simp only [List.map_cons, List.map_nil, caseVal]
    by_cases h1 : 1 ≤ k ∧ k ≤ S
    · have : ¬ k = S + 1 := by omega
      have h2 : 1 ≤ k ∧ k ≤ S + 1 := by omega
      simp [h1, this, h2]
    · by_cases h3 : k = S + 1
      · have h2 : 1 ≤ k ∧ k ≤ S + 1 := by omega
        simp only [h1, h3, if_false, if_true]
        simp; omega
      · have h2 : ¬ (1 ≤ k ∧ k ≤ S + 1) := by omega
        simp [h1, h3, h2]

theorem enum1_linear (S : Nat) : enum1 (slackLinear S) = (List.range S).map (fun i => (i + 1, ((i + 1 : Nat) : Int))) := by
  unfold enum1 slackLinear
  simp only [List.length_map, List.length_range]
  apply List.map_congr_left
  intro i hi
  simp only [List.mem_range] at hi
  simp [List.getD_eq_getElem?_getD, List.getElem?_eq_getElem, hi]

/-- linear method: one variable with the cases `0 … S`, case `k` carrying `k` -/
theorem slackVals_linear (S : Nat) (sv : List SlackVar)
    (hsv : sv.map (fun v => (v.ncases, v.cases)) = [(S + 1, enum1 (slackLinear S))]) (t : Nat) :
    (∃ sc, ValidSample (sv.map (·.ncases)) sc ∧ slackValI sv sc = (t : Int)) ↔ t ≤ S := by
  cases sv with
  | nil => simp at hsv
  | cons v r =>
    simp only [List.map_cons, List.cons.injEq, Prod.mk.injEq, List.map_eq_nil_iff] at hsv
    obtain ⟨⟨hn, hc⟩, hr⟩ := hsv
    subst hr
    simp only [List.map_cons, List.map_nil, hn]
    constructor
    · rintro ⟨sc, hval, hs⟩
      cases sc with
      | nil => exact absurd hval.1 (by simp)
      | cons k sc' =>
        rw [validSample_cons] at hval
        change caseVal v.cases k + slackValI [] sc' = (t : Int) at hs
        rw [hc, enum1_linear, caseVal_range] at hs
        simp only [slackValI] at hs
        by_cases h1 : 1 ≤ k ∧ k ≤ S
        · rw [if_pos h1] at hs; omega
        · rw [if_neg h1] at hs; omega
    · intro ht
      refine ⟨[t], (validSample_cons _ _ _ _).2 ⟨by omega, (validSample_nil_left _).2 rfl⟩, ?_⟩
      change caseVal v.cases t + slackValI [] [] = (t : Int)
      rw [hc, enum1_linear, caseVal_range]
      simp only [slackValI]
      by_cases h1 : 1 ≤ t ∧ t ≤ S
      · rw [if_pos h1]; omega
      · rw [if_neg h1]; omega

/-! ## the slack variables `dqmSlack` creates (`cross_zero=False`) -/

theorem dqmSlack_log2_shape (label : String) (ubc lbc : Int) (S : Nat) :
    (dqmSlack label "log2" ubc lbc S false).map (fun v => (v.ncases, v.cases))
      = (slackLog2 S).map (fun c => (2, [(1, ((c : Nat) : Int))])) := by
  unfold dqmSlack
  simp only [Bool.false_and, Bool.false_eq_true, if_false, if_true]
  apply List.ext_getElem
  · simp
  · intro i h1 h2
    simp only [List.length_map, List.length_range] at h1
    simp [List.getD_eq_getElem?_getD, List.getElem?_eq_getElem h1]

theorem dqmSlack_linear_shape (label : String) (ubc lbc : Int) (S : Nat) :
    (dqmSlack label "linear" ubc lbc S false).map (fun v => (v.ncases, v.cases)) = [(S + 1, enum1 (slackLinear S))] := by
  unfold dqmSlack
  have h1 : ¬ ("linear" = "log2") := by decide
  have h2 : ¬ ("linear" = "log10") := by decide
  simp only [h1, h2, Bool.false_and, Bool.false_eq_true, if_false, List.map_cons, List.map_nil]
  simp [slackLinear]

theorem caseVal_nonneg (cases : List (Nat × Int)) (h : ∀ cv ∈ cases, 0 ≤ cv.2) (k : Nat) : 0 ≤ caseVal cases k := by
  induction cases with
  | nil => simp [caseVal]
  | cons cv r ih =>
    have h1 := h cv (by simp)
    have h2 := ih (fun cv' h' => h cv' (by simp [h']))
    simp only [caseVal]
    split <;> omega

theorem slackValI_nonneg (sv : List SlackVar) (h : ∀ v ∈ sv, ∀ cv ∈ v.cases, 0 ≤ cv.2) (sc : List Nat) : 0 ≤ slackValI sv sc := by
  induction sv generalizing sc with
  | nil => simp [slackValI]
  | cons v r ih =>
    have h1 := caseVal_nonneg v.cases (h v (by simp)) (sc.headD 0)
    have h2 := ih (fun v' h' => h v' (by simp [h'])) sc.tail
    simp only [slackValI]; omega

theorem enum1_nonneg (l : List Nat) : ∀ cv ∈ enum1 l, 0 ≤ cv.2 := by
  intro cv h
  unfold enum1 at h
  simp only [List.mem_map, List.mem_range] at h
  obtain ⟨i, _, rfl⟩ := h
  simp

/-- **the slack variables cover exactly `0 … S`** (log2 and linear methods, `S ≥ 1`): every valid choice of
    their cases contributes a total in `0 … S`, and every total in `0 … S` is contributed by some choice -/
theorem dqmSlack_covers (label method : String) (hm : method = "log2" ∨ method = "linear") (ubc lbc : Int) (S : Nat) (hS : 1 ≤ S) :
    let sv := dqmSlack label method ubc lbc S false
    (∀ sc, ValidSample (sv.map (·.ncases)) sc → ∃ t : Nat, t ≤ S ∧ slackValI sv sc = (t : Int))
    ∧ (∀ t : Nat, t ≤ S → ∃ sc, ValidSample (sv.map (·.ncases)) sc ∧ slackValI sv sc = (t : Int)) := by
  intro sv
  have hiff : ∀ t : Nat, (∃ sc, ValidSample (sv.map (·.ncases)) sc ∧ slackValI sv sc = (t : Int)) ↔ t ≤ S := by
    intro t
    rcases hm with rfl | rfl
    · rw [slackVals_log2 (slackLog2 S) sv (dqmSlack_log2_shape label ubc lbc S) t]
      exact slack_covers S hS t
    · exact slackVals_linear S sv (dqmSlack_linear_shape label ubc lbc S) t
  have hnn : ∀ v ∈ sv, ∀ cv ∈ v.cases, 0 ≤ cv.2 := by
    intro v hv cv hcv
    have hmem : (v.ncases, v.cases) ∈ sv.map (fun v => (v.ncases, v.cases)) := List.mem_map.2 ⟨v, hv, rfl⟩
    rcases hm with rfl | rfl
    · rw [dqmSlack_log2_shape] at hmem
      simp only [List.mem_map] at hmem
      obtain ⟨c', _, h2⟩ := hmem
      simp only [Prod.mk.injEq] at h2
      rw [← h2.2] at hcv
      simp only [List.mem_singleton] at hcv
      subst hcv; simp
    · rw [dqmSlack_linear_shape] at hmem
      simp only [List.mem_singleton, Prod.mk.injEq] at hmem
      rw [hmem.2] at hcv
      exact enum1_nonneg _ cv hcv
  refine ⟨fun sc hval => ?_, fun t ht => (hiff t).2 ht⟩
  have h0 := slackValI_nonneg sv hnn sc
  refine ⟨(slackValI sv sc).toNat, ?_, by omega⟩
  exact (hiff _).1 ⟨sc, hval, by omega⟩

theorem validSample_append (nc nc2 s sc : List Nat) (h1 : ValidSample nc s) (h2 : ValidSample nc2 sc) :
    ValidSample (nc ++ nc2) (s ++ sc) := by
  induction nc generalizing s with
  | nil =>
    have : s = [] := (validSample_nil_left s).1 h1
    subst this; simpa using h2
  | cons n t ih =>
    cases s with
    | nil => exact absurd h1.1 (by simp)
    | cons k s' =>
      rw [validSample_cons] at h1
      simp only [List.cons_append, validSample_cons]
      exact ⟨h1.1, ih s' h1.2⟩

/-! ## the DQM method end to end, on DQM samples -/

/-- `lb ≤ Σ a·[sample(v) = case] + c ≤ ub` -/
def DFeas (terms : List (Nat × Nat × Int)) (c lb ub : Int) (s : List Nat) : Prop :=
  lb ≤ tsumI terms s + c ∧ tsumI terms s + c ≤ ub

/-- the energy the constraint added at the one-hot indicator of a sample of the extended DQM -/
def dqmPen (d d' : Dqm) (s : List Nat) : Rat := d'.bq.energy (indic d'.ncases s) - d.bq.energy (indic d'.ncases s)

theorem dqmAddEq_pen (d : Dqm) (hvt : d.bq.vt = .binary) (terms : List (Nat × Nat × Int)) (lam : Rat) (ubc : Int) (d' : Dqm)
    (h : dqmAddEq d (ratTerms3 terms) lam (((-ubc : Int)) : Rat) = some d') (s : List Nat) (hv : ValidSample d.ncases s) :
    d'.ncases = d.ncases
    ∧ dqmPen d d' s = lam * ((((tsumI terms s - ubc) * (tsumI terms s - ubc) : Int)) : Rat) := by
  unfold dqmAddEq at h
  cases hr : dqmResolve d.ncases (ratTerms3 terms) with
  | none => rw [hr] at h; simp at h
  | some r =>
    rw [hr] at h
    simp only [Option.map_some, Option.some.injEq] at h
    subst h
    refine ⟨rfl, ?_⟩
    unfold dqmPen
    simp only
    have hx := oneHot_indic d.ncases s hv
    rw [apply_energy d.bq _ (by rw [hvt]; exact hx.1), dqmEqTerms_eval d.ncases _ hx, lsum_resolve d.ncases terms r hr s hv]
    simp only [Rat.intCast_mul, Rat.intCast_sub, Rat.intCast_neg]
    grind

theorem dqmAddEq_ncases (d : Dqm) (terms : List (Nat × Nat × Rat)) (lam C : Rat) (d' : Dqm) (h : dqmAddEq d terms lam C = some d') :
    d'.ncases = d.ncases := by
  unfold dqmAddEq at h
  cases hr : dqmResolve d.ncases terms with
  | none => rw [hr] at h; simp at h
  | some r => rw [hr] at h; simp only [Option.map_some, Option.some.injEq] at h; subst h; rfl

theorem pen_int (lam : Rat) (hlam : 0 ≤ lam) (k : Int) : 0 ≤ lam * (((k * k : Int)) : Rat) := by
  by_cases hk : k = 0
  · rw [(penalty_gap lam hlam k).1 hk]; exact Rat.le_refl
  · exact Rat.le_trans hlam ((penalty_gap lam hlam k).2 hk)

/-- **`DQM.add_linear_inequality_constraint` on DQM samples (log2 / linear, `cross_zero=False`, integer data,
    `λ ≥ 0`), every outcome as coded.**  `terms` are `(variable, case, bias)` triples over the existing
    variables, repeated `(variable, case)` pairs allowed; the bounds are tightened with the sums of the
    positive / negative biases over all triples (`ineqPlan` on the bias list, as coded).  For a sample `s`
    of the existing variables, `DFeas s` is `lb ≤ Σ bias·[s(v) = case] + c ≤ ub`.
    * warning, nothing added: every sample is feasible;  * `ValueError`: none is;
    * otherwise the new variables have the returned numbers of cases, and for the energy `dqmPen` added at
      the extended sample `s ++ sc` (`sc` = the cases chosen for the slack variables): it is ≥ 0 for every
      choice, ≥ λ for every choice when `s` is infeasible, and 0 for some choice when `s` is feasible
      (equality short-cut: no slack variable, 0 exactly on the feasible samples). -/
theorem dqmIneq_spec (d : Dqm) (hvt : d.bq.vt = .binary) (method : String) (hm : method = "log2" ∨ method = "linear")
    (label : String) (terms : List (Nat × Nat × Int)) (hterms : ∀ t ∈ terms, t.1 < d.ncases.length)
    (lam : Rat) (hlam : 0 ≤ lam) (c lb ub : Int) :
    match dqmIneq d method label terms lam c lb ub false with
    | .skipped => ∀ s, ValidSample d.ncases s → DFeas terms c lb ub s
    | .raises => ∀ s, ValidSample d.ncases s → ¬ DFeas terms c lb ub s
    | .err => True
    | .ok d' sv =>
      d'.ncases = d.ncases ++ sv.map (·.ncases)
      ∧ ∀ s, ValidSample d.ncases s →
        (∀ sc, ValidSample (sv.map (·.ncases)) sc →
            0 ≤ dqmPen d d' (s ++ sc) ∧ (¬ DFeas terms c lb ub s → lam ≤ dqmPen d d' (s ++ sc)))
        ∧ (DFeas terms c lb ub s → ∃ sc, ValidSample (sv.map (·.ncases)) sc ∧ dqmPen d d' (s ++ sc) = 0) := by
  unfold dqmIneq
  have hsound := fun s => ineqPlan_sound (terms.map (·.2.2)) c lb ub (tsumI terms s) (tsumI_bounds terms s).1 (tsumI_bounds terms s).2
  cases hp : ineqPlan (terms.map (·.2.2)) c lb ub with
  | skip => intro s _; have := hsound s; rw [hp] at this; exact this
  | infeasible => intro s _; have := hsound s; rw [hp] at this; exact this
  | equality ubc =>
    simp only
    cases hd : dqmAddEq d (ratTerms3 terms) lam (((-ubc : Int)) : Rat) with
    | none => trivial
    | some d' =>
      simp only [List.map_nil, List.append_nil]
      refine ⟨dqmAddEq_ncases d _ lam _ d' hd, ?_⟩
      intro s hv
      have hs := hsound s
      rw [hp] at hs
      simp only at hs
      have hpen : ∀ sc, ValidSample [] sc → dqmPen d d' (s ++ sc)
          = lam * ((((tsumI terms s - ubc) * (tsumI terms s - ubc) : Int)) : Rat) := by
        intro sc hsc
        rw [(validSample_nil_left sc).1 hsc, List.append_nil]
        exact (dqmAddEq_pen d hvt terms lam ubc d' hd s hv).2
      refine ⟨fun sc hsc => ?_, fun hf => ?_⟩
      · rw [hpen sc hsc]
        refine ⟨pen_int lam hlam _, fun hnf => (penalty_gap lam hlam _).2 (fun h0 => hnf (hs.2 h0))⟩
      · exact ⟨[], (validSample_nil_left _).2 rfl, by rw [hpen [] ((validSample_nil_left _).2 rfl)]; exact (penalty_gap lam hlam _).1 (hs.1 hf)⟩
  | slack ubc lbc S =>
    simp only
    generalize hsv : dqmSlack label method ubc lbc S false = sv
    cases hd : dqmAddEq { d with ncases := d.ncases ++ sv.map (·.ncases), adj := d.adj ++ sv.map (fun _ => []) }
        (ratTerms3 (terms ++ slackExtra d.ncases.length sv)) lam (((-ubc : Int)) : Rat) with
    | none => trivial
    | some d' =>
      simp only
      have hnc := dqmAddEq_ncases _ _ lam _ d' hd
      simp only at hnc
      refine ⟨hnc, ?_⟩
      intro s hv
      have hs := hsound s
      rw [hp] at hs
      simp only at hs
      obtain ⟨hS, hiff⟩ := hs
      have hcov := dqmSlack_covers label method hm ubc lbc S hS
      simp only [hsv] at hcov
      obtain ⟨hcov1, hcov2⟩ := hcov
      -- the penalty at an extended sample
      have hpen : ∀ sc, ValidSample (sv.map (·.ncases)) sc → dqmPen d d' (s ++ sc)
          = lam * ((((tsumI terms s + slackValI sv sc - ubc) * (tsumI terms s + slackValI sv sc - ubc) : Int)) : Rat) := by
        intro sc hsc
        have hv' : ValidSample (d.ncases ++ sv.map (·.ncases)) (s ++ sc) := validSample_append _ _ _ _ hv hsc
        have h1 := (dqmAddEq_pen { d with ncases := d.ncases ++ sv.map (·.ncases), adj := d.adj ++ sv.map (fun _ => []) } hvt
          (terms ++ slackExtra d.ncases.length sv) lam ubc d' hd (s ++ sc) hv').2
        have hsl : s.length = d.ncases.length := hv.1
        have e1 : tsumI (terms ++ slackExtra d.ncases.length sv) (s ++ sc) = tsumI terms s + slackValI sv sc := by
          rw [tsumI_append, tsumI_prefix terms s sc (fun t ht => by rw [hsl]; exact hterms t ht), ← hsl,
            tsumI_slackExtra s sv sc (by have := hsc.1; simpa using this)]
        rw [e1] at h1
        unfold dqmPen at h1 ⊢
        exact h1
      refine ⟨fun sc hsc => ?_, fun hf => ?_⟩
      · rw [hpen sc hsc]
        refine ⟨pen_int lam hlam _, fun hnf => (penalty_gap lam hlam _).2 (fun h0 => hnf ?_)⟩
        obtain ⟨t, ht, htv⟩ := hcov1 sc hsc
        rw [htv] at h0
        exact hiff.2 ⟨t, ht, h0⟩
      · obtain ⟨t, ht, h0⟩ := hiff.1 hf
        obtain ⟨sc, hsc, hval⟩ := hcov2 t ht
        refine ⟨sc, hsc, ?_⟩
        rw [hpen sc hsc, hval]
        exact (penalty_gap lam hlam _).1 h0

end Pen
