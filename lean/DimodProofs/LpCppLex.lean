import DimodProofs.LpReader
import Mathlib.Tactic.IntervalCases
import Mathlib.Tactic.Ring
import Mathlib.Tactic.FieldSimp

/-! C12: the character-level tokenizer of the C++ reader model (`LpCpp.lexLine` = `Reader::readnexttoken`) on what the
writer prints, for every label and every natural number (the lexical step of the general round trip through the reader
model):

* a label `_validate_label` accepts, followed by a blank / colon / newline / the end of the line, is one identifier token
  with exactly that text: `strtod` converts nothing at its start (no digit, no `.`, no `inf` / `nan` prefix — this is what
  `LABEL_INVALID_FIRST_CHARS` and `LABEL_INVALID_PREFIXES` are for) and none of its characters ends an identifier;
* the decimal digits of a natural number `n`, followed by such a character, are one constant token whose value is the
  binary64 nearest to `n` (so `n` itself when `n` is a binary64 value). -/

set_option linter.unusedSimpArgs false

namespace LpCpp
open Lp Generated.LpKeywords Generated.LpLabels

/-- the text after a word: nothing, or a character that ends an identifier (blank, colon, newline, …) -/
def Stops (rest : List Char) : Prop := rest = [] ∨ ∃ d t, rest = d :: t ∧ identTerminators.contains d = true

/-- facts about every valid label character, from the two generated tables -/
theorem validChar_facts : ∀ c ∈ validChars,
    identTerminators.contains c = false ∧ ¬ (c.toNat < 32 ∨ c.toNat = 127) ∧ c ≠ '\\' ∧ c ≠ '\n' ∧ c ≠ ' ' ∧ c ≠ '\t' ∧
    c ≠ Char.ofNat 0 ∧ singleTok c = none := by decide +kernel

/-- facts about a valid first character -/
theorem validFirst_facts : ∀ c ∈ validChars, invalidFirstChars.contains c = false →
    c ≠ ';' ∧ c.isDigit = false ∧ c ≠ '.' ∧ c.toLower ≠ '0' := by decide +kernel

/-- no identifier terminator lower-cases to a letter of `inf` / `nan` / `infinity` -/
theorem terminator_not_letter : ∀ d ∈ identTerminators, d.toLower ∉ "infinity".toList ∧ d.toLower ∉ "nan".toList := by
  decide +kernel

theorem startsCI_prefix (cs : List Char) (w : String) (h : startsCI cs w = true) : w.toList <+: cs.map Char.toLower := by
  simp only [startsCI, Bool.and_eq_true, decide_eq_true_eq] at h
  rw [← h.2]
  exact List.IsPrefix.map _ (List.take_prefix _ _)

/-- a word all of whose letters are no lower-cased terminator, found at the start of `a ++ rest`, starts `a` -/
theorem prefix_in_word (w a rest : List Char) (hr : Stops rest) (hw : ∀ x ∈ w, ∀ d ∈ identTerminators, d.toLower ≠ x)
    (h : w <+: (a ++ rest).map Char.toLower) : w <+: a.map Char.toLower := by
  rw [List.map_append] at h
  by_cases hl : w.length ≤ (a.map Char.toLower).length
  · exact List.prefix_of_prefix_length_le h (List.prefix_append _ _) hl
  · have ha : a.map Char.toLower <+: w := List.prefix_of_prefix_length_le (List.prefix_append _ _) h (by omega)
    obtain ⟨t, ht⟩ := ha
    subst ht
    rw [List.prefix_append_right_inj] at h
    rcases hr with rfl | ⟨d, r, rfl, hd⟩
    · simp only [List.map_nil, List.prefix_nil] at h
      subst h; simp at hl
    · cases t with
      | nil => simp at hl
      | cons x t' =>
        simp only [List.map_cons] at h
        obtain ⟨e, he⟩ := h
        simp only [List.cons_append, List.cons.injEq] at he
        exact absurd he.1.symm (hw x (by simp) d (List.contains_iff_mem.mp hd))

theorem not_reserved_prefix (s : String) (h : validLabel (.str s) = true) (p : String) (hp : p ∈ invalidPrefixes) :
    ¬ p.toList <+: s.toList.map Char.toLower := by
  obtain ⟨_, hr⟩ := valid_parts s h
  intro hpre
  simp only [reservedLc, Bool.or_eq_false_iff, List.any_eq_false] at hr
  have := hr.2 p hp
  simp only [lowerStr, String.toList_ofList] at this
  exact this (List.isPrefixOf_iff_prefix.mpr hpre)

/-- `startsCI` is false for `inf`, `infinity`, `nan` at the start of a valid label followed by a stop -/
theorem word_not_infnan (s : String) (hpre : ∀ p ∈ invalidPrefixes, ¬ p.toList <+: s.toList.map Char.toLower)
    (rest : List Char) (hr : Stops rest) :
    startsCI (s.toList ++ rest) "infinity" = false ∧ startsCI (s.toList ++ rest) "inf" = false ∧
    startsCI (s.toList ++ rest) "nan" = false := by
  have hinf : ∀ x ∈ "infinity".toList, ∀ d ∈ identTerminators, d.toLower ≠ x := by
    intro x hx d hd e; exact (terminator_not_letter d hd).1 (e ▸ hx)
  have hnan : ∀ x ∈ "nan".toList, ∀ d ∈ identTerminators, d.toLower ≠ x := by
    intro x hx d hd e; exact (terminator_not_letter d hd).2 (e ▸ hx)
  have hinf3 : ∀ x ∈ "inf".toList, ∀ d ∈ identTerminators, d.toLower ≠ x := by
    intro x hx d hd
    exact hinf x (by revert hx; revert x; decide) d hd
  refine ⟨?_, ?_, ?_⟩
  · cases hc : startsCI (s.toList ++ rest) "infinity" with
    | false => rfl
    | true =>
      have h1 := prefix_in_word _ _ _ hr hinf (startsCI_prefix _ _ hc)
      have h2 : "inf".toList <+: "infinity".toList := by decide
      exact absurd (h2.trans h1) (hpre "inf" (by decide))
  · cases hc : startsCI (s.toList ++ rest) "inf" with
    | false => rfl
    | true =>
      exact absurd (prefix_in_word _ _ _ hr hinf3 (startsCI_prefix _ _ hc)) (hpre "inf" (by decide))
  · cases hc : startsCI (s.toList ++ rest) "nan" with
    | false => rfl
    | true =>
      exact absurd (prefix_in_word _ _ _ hr hnan (startsCI_prefix _ _ hc)) (hpre "nan" (by decide))

theorem label_not_infnan (s : String) (h : validLabel (.str s) = true) (rest : List Char) (hr : Stops rest) :
    startsCI (s.toList ++ rest) "infinity" = false ∧ startsCI (s.toList ++ rest) "inf" = false ∧
    startsCI (s.toList ++ rest) "nan" = false :=
  word_not_infnan s (fun p hp => not_reserved_prefix s h p hp) rest hr

theorem startsCI_0x_false (c : Char) (t : List Char) (h : c.toLower ≠ '0') : startsCI (c :: t) "0x" = false := by
  cases hc : startsCI (c :: t) "0x" with
  | false => rfl
  | true =>
    have := startsCI_prefix _ _ hc
    obtain ⟨e, he⟩ := this
    have h0 : "0x".toList = ['0', 'x'] := by decide
    rw [h0] at he
    simp only [List.map_cons, List.cons_append, List.cons.injEq] at he
    exact absurd he.1.symm h

/-- `strtod` converts nothing at a character that is no digit, no `.`, and starts none of `inf`, `nan`, `0x` -/
theorem strtod_none_of_head (c : Char) (t : List Char)
    (h1 : ¬ (c.toNat < 32 ∨ c.toNat = 127)) (h2 : startsCI (c :: t) "infinity" = false)
    (h3 : startsCI (c :: t) "inf" = false) (h4 : startsCI (c :: t) "nan" = false) (h5 : c.toLower ≠ '0')
    (h6 : c.isDigit = false) (h7 : c ≠ '.') : strtod (c :: t) = .ok none := by
  have h8 := startsCI_0x_false c t h5
  simp [strtod, h1, h2, h3, h4, h6, h7, h8]

/-- a word of valid label characters whose first character starts no number, comment or `inf`/`nan` is one identifier
    token (labels, and the writer's own keywords `Minimize`, `Subject`, `To`, `Bounds`, `Binary`, `General`, `End`, `obj`) -/
structure LexWord (s : String) : Prop where
  chars : ∀ c ∈ s.toList, c ∈ validChars
  first : ∃ c t, s.toList = c :: t ∧ c ≠ ';' ∧ c.isDigit = false ∧ c ≠ '.' ∧ c.toLower ≠ '0'
  pre : ∀ p ∈ invalidPrefixes, ¬ p.toList <+: s.toList.map Char.toLower

theorem lexLine_word (s : String) (h : LexWord s) (rest : List Char) (hr : Stops rest) (fuel : Nat) :
    lexLine (fuel + 1) (s.toList ++ rest) = (lexLine fuel rest).map (Raw.str s :: ·) := by
  have hvc := h.chars
  obtain ⟨c, t, hct, hsemi, hdig, hdot, h0⟩ := h.first
  have hc := hvc c (by rw [hct]; exact List.mem_cons_self)
  obtain ⟨hterm, hctl, hb, hn, hsp, htab, hz, hsing⟩ := validChar_facts c hc
  obtain ⟨i1, i2, i3⟩ := word_not_infnan s h.pre rest hr
  rw [hct] at i1 i2 i3
  have hst := strtod_none_of_head c (t ++ rest) hctl i1 i2 i3 h0 hdig hdot
  have hnt : ∀ x ∈ s.toList, (fun d => !identTerminators.contains d) x = true := fun x hx => by
    have := (validChar_facts x (hvc x hx)).1
    show (!identTerminators.contains x) = true
    rw [this]; rfl
  have htw : (s.toList ++ rest).takeWhile (fun d => !identTerminators.contains d) = s.toList := by
    rcases hr with rfl | ⟨d, r, rfl, hd⟩
    · rw [List.append_nil]
      exact takeWhile_all _ _ hnt
    · exact takeWhile_append_stop _ _ _ _ hnt (by show (!identTerminators.contains d) = false; rw [hd]; rfl)
  rw [hct] at htw ⊢
  simp only [List.cons_append] at htw hst ⊢
  rw [lexLine]
  simp only [hb, hsemi, hn, hsp, htab, hz, hsing, hst, htw, or_self, if_false, List.isEmpty_cons, Bool.false_eq_true,
    List.length_cons]
  have hd : (c :: (t ++ rest)).drop (t.length + 1) = rest := by simp
  rw [hd, ← hct, String.ofList_toList]

theorem lexWord_of_label (s : String) (h : validLabel (.str s) = true) : LexWord s := by
  obtain ⟨hv, _⟩ := valid_parts s h
  have hvc : ∀ c ∈ s.toList, c ∈ validChars := fun c hc => by
    have := hv c hc; simpa [validChar] using this
  refine ⟨hvc, ?_, fun p hp => not_reserved_prefix s h p hp⟩
  simp only [validLabel] at h
  split at h
  · cases h
  · rename_i c t hct
    simp only [Bool.and_eq_true, Bool.not_eq_eq_eq_not, Bool.not_true, invalidFirst] at h
    have hc := hvc c (by rw [hct]; exact List.mem_cons_self)
    obtain ⟨hsemi, hdig, hdot, h0⟩ := validFirst_facts c hc h.1.2
    exact ⟨c, t, hct, hsemi, hdig, hdot, h0⟩

/-- **a valid label is one identifier token of the C++ tokenizer**, whatever follows the stop character -/
theorem lexLine_label (s : String) (h : validLabel (.str s) = true) (rest : List Char) (hr : Stops rest) (fuel : Nat) :
    lexLine (fuel + 1) (s.toList ++ rest) = (lexLine fuel rest).map (Raw.str s :: ·) :=
  lexLine_word s (lexWord_of_label s h) rest hr fuel

/-! ### natural numbers -/

theorem startsCI_head_false (c : Char) (t : List Char) (w : String) (x : Char) (r : List Char) (hw : w.toList = x :: r)
    (h : c.toLower ≠ x) : startsCI (c :: t) w = false := by
  cases hc : startsCI (c :: t) w with
  | false => rfl
  | true =>
    obtain ⟨e, he⟩ := startsCI_prefix _ _ hc
    rw [hw] at he
    simp only [List.map_cons, List.cons_append, List.cons.injEq] at he
    exact absurd he.1.symm h

theorem digitChar_facts (m : Nat) :
    ¬ ((digitChar m).toNat < 32 ∨ (digitChar m).toNat = 127) ∧ (digitChar m).toLower ≠ 'i' ∧ (digitChar m).toLower ≠ 'n' ∧
    (digitChar m).toLower ≠ 'x' ∧ (digitChar m).isDigit = true := by
  unfold digitChar
  have h : m % 10 < 10 := Nat.mod_lt _ (by decide)
  interval_cases (m % 10) <;> decide

theorem natDigits_mem (n : Nat) : ∀ c ∈ natDigits n, ∃ k, c = digitChar k := by
  induction n using Nat.strong_induction_on with
  | _ n ih =>
    rw [natDigits_unfold]
    by_cases h : n < 10
    · simp only [h, if_true, List.mem_singleton]
      intro c hc; exact ⟨n, hc⟩
    · simp only [h, if_false, List.mem_append, List.mem_singleton]
      intro c hc
      rcases hc with hc | hc
      · exact ih (n / 10) (by omega) c hc
      · exact ⟨n, hc⟩

theorem terminator_not_numeric : ∀ d ∈ identTerminators,
    d.isDigit = false ∧ d ≠ '.' ∧ d ≠ 'e' ∧ d ≠ 'E' ∧ d.toLower ≠ '0' ∧ d.toLower ≠ 'x' := by decide +kernel

theorem digitsVal_natDigits (n : Nat) : digitsVal (natDigits n) = n := (natDigits_spec n).2.2

/-- **`strtod` on the decimal digits of a natural number**: all digits are consumed and the value is the binary64 nearest
    to the number -/
theorem strtod_natDigits (n : Nat) (rest : List Char) (hr : Stops rest) :
    strtod (natDigits n ++ rest) = .ok (some (roundDouble (n : Rat), (natDigits n).length)) := by
  obtain ⟨hne, hall, _⟩ := natDigits_spec n
  have hdig : ∀ x ∈ natDigits n, Char.isDigit x = true := fun x hx => List.all_eq_true.mp hall x hx
  obtain ⟨c, t, hct⟩ : ∃ c t, natDigits n = c :: t := by
    cases hd : natDigits n with
    | nil => exact absurd hd hne
    | cons c t => exact ⟨c, t, rfl⟩
  obtain ⟨k, hk⟩ := natDigits_mem n c (by rw [hct]; exact List.mem_cons_self)
  obtain ⟨f1, f2, f3, _, f5⟩ := digitChar_facts k
  rw [← hk] at f1 f2 f3 f5
  -- no `0x`: the second character is a digit or a stop
  have hx : ∀ x ∈ "0x".toList, ∀ d ∈ identTerminators, d.toLower ≠ x := by
    intro x hx d hd
    have := terminator_not_numeric d hd
    have h0 : "0x".toList = ['0', 'x'] := by decide
    rw [h0] at hx
    simp only [List.mem_cons, List.not_mem_nil, or_false] at hx
    rcases hx with rfl | rfl
    · exact this.2.2.2.2.1
    · exact this.2.2.2.2.2
  have h0x : startsCI (natDigits n ++ rest) "0x" = false := by
    cases hc : startsCI (natDigits n ++ rest) "0x" with
    | false => rfl
    | true =>
      have hp := prefix_in_word _ _ _ hr hx (startsCI_prefix _ _ hc)
      have hmem : 'x' ∈ (natDigits n).map Char.toLower := hp.subset (by decide)
      obtain ⟨y, hy, hyx⟩ := List.mem_map.mp hmem
      obtain ⟨j, hj⟩ := natDigits_mem n y hy
      exact absurd hyx (hj ▸ (digitChar_facts j).2.2.2.1)
  have htw : (natDigits n ++ rest).takeWhile Char.isDigit = natDigits n := by
    rcases hr with rfl | ⟨d, r, rfl, hd⟩
    · rw [List.append_nil]; exact takeWhile_all _ _ hdig
    · exact takeWhile_append_stop _ _ _ _ hdig (terminator_not_numeric d (List.contains_iff_mem.mp hd)).1
  have hdrop : (natDigits n ++ rest).drop (natDigits n).length = rest := by simp
  have hinf := startsCI_head_false c (t ++ rest) "infinity" 'i' "nfinity".toList (by decide) f2
  have hin := startsCI_head_false c (t ++ rest) "inf" 'i' "nf".toList (by decide) f2
  have hnan := startsCI_head_false c (t ++ rest) "nan" 'n' "an".toList (by decide) f3
  have hval : digitsVal (natDigits n) = n := digitsVal_natDigits n
  have hdrop' : List.drop (t.length + 1) (c :: (t ++ rest)) = rest := by
    simp
  rw [hct] at h0x htw hval
  rw [hct]
  simp only [List.cons_append] at h0x htw ⊢
  have hr0 : roundDouble 0 = .fin 0 := by simp [roundDouble]
  unfold strtod
  simp only [f1, hinf, hin, hnan, h0x, htw, if_false, Bool.false_and, Bool.false_eq_true, hdrop', List.isEmpty_cons,
    false_and, List.length_cons]
  rcases hr with rfl | ⟨d, r, rfl, hd⟩
  · by_cases hn0 : n = 0
    · subst hn0; simp [hval, hr0]
    · simp [hval, hn0]
      intro h; exfalso; omega
  · have := terminator_not_numeric d (List.contains_iff_mem.mp hd)
    by_cases hn0 : n = 0
    · subst hn0; simp [hval, hr0, this.2.1, this.2.2.1, this.2.2.2.1]
    · simp [hval, hn0, this.2.1, this.2.2.1, this.2.2.2.1]
      intro h; exfalso; omega


theorem digitChar_lex_facts (m : Nat) :
    digitChar m ≠ '\\' ∧ digitChar m ≠ ';' ∧ digitChar m ≠ '\n' ∧ digitChar m ≠ ' ' ∧ digitChar m ≠ '\t' ∧
    digitChar m ≠ Char.ofNat 0 ∧ singleTok (digitChar m) = none := by
  unfold digitChar
  have h : m % 10 < 10 := Nat.mod_lt _ (by decide)
  interval_cases (m % 10) <;> decide

/-- **the decimal digits of a natural number are one constant token of the C++ tokenizer** -/
theorem lexLine_natDigits (n : Nat) (rest : List Char) (hr : Stops rest) (fuel : Nat) :
    lexLine (fuel + 1) (natDigits n ++ rest) = (lexLine fuel rest).map (Raw.cons (roundDouble (n : Rat)) :: ·) := by
  have hst := strtod_natDigits n rest hr
  obtain ⟨hne, _, _⟩ := natDigits_spec n
  obtain ⟨c, t, hct⟩ : ∃ c t, natDigits n = c :: t := by
    cases hd : natDigits n with
    | nil => exact absurd hd hne
    | cons c t => exact ⟨c, t, rfl⟩
  obtain ⟨k, hk⟩ := natDigits_mem n c (by rw [hct]; exact List.mem_cons_self)
  obtain ⟨g1, g2, g3, g4, g5, g6, g7⟩ := digitChar_lex_facts k
  rw [← hk] at g1 g2 g3 g4 g5 g6 g7
  rw [hct] at hst ⊢
  simp only [List.cons_append] at hst ⊢
  rw [lexLine]
  simp only [g1, g2, g3, g4, g5, g6, g7, hst, or_self, if_false, List.length_cons]
  have hd : (c :: (t ++ rest)).drop (t.length + 1) = rest := by simp
  rw [hd]


/-! ### positional decimals `ddd.ddd` -/

theorem digitsVal_acc (b : List Char) : ∀ acc : Nat,
    b.foldl (fun n c => 10 * n + (c.toNat - 48)) acc = acc * 10 ^ b.length + digitsVal b := by
  induction b with
  | nil => intro acc; simp [digitsVal]
  | cons x t ih =>
    intro acc
    simp only [List.foldl_cons, List.length_cons, digitsVal]
    rw [ih, ih (10 * 0 + (x.toNat - 48))]
    ring

theorem digitsVal_append (a b : List Char) : digitsVal (a ++ b) = digitsVal a * 10 ^ b.length + digitsVal b := by
  unfold digitsVal
  rw [List.foldl_append, digitsVal_acc]
  rfl

theorem value_pick (mant L nd : Nat) (hnd : L < nd) :
    (if mant = 0 then Num.fin 0
      else if (0 : Int) - (L : Int) > 400 then Num.inf false
      else if (0 : Int) - (L : Int) + (nd : Int) < -400 then Num.fin 0
      else if (0 : Int) - (L : Int) ≥ 0 then roundDouble ((mant : Rat) * ((10 ^ ((0 : Int) - (L : Int)).toNat : Nat) : Rat))
      else roundDouble ((mant : Rat) / ((10 ^ (-((0 : Int) - (L : Int))).toNat : Nat) : Rat))) =
    roundDouble ((mant : Rat) / (10 : Rat) ^ L) := by
  by_cases h0 : mant = 0
  · subst h0; simp [roundDouble]
  · have h1 : ¬ ((0 : Int) - (L : Int) > 400) := by omega
    have h2 : ¬ ((0 : Int) - (L : Int) + (nd : Int) < -400) := by omega
    simp only [h0, h1, h2, if_false]
    by_cases hL : L = 0
    · subst hL; simp
    · have h3 : ¬ ((0 : Int) - (L : Int) ≥ 0) := by omega
      have h4 : (-((0 : Int) - (L : Int))).toNat = L := by omega
      simp only [h3, if_false, h4]
      push_cast
      rfl

/-- **`strtod` on `ddd.ddd`** (the integer part printed by `natDigits`, any digits after the point): everything is
    consumed, the value is the binary64 nearest to the decimal number -/
theorem strtod_decimal (ip : Nat) (fd : List Char) (hfd : fd.all Char.isDigit = true) (rest : List Char) (hr : Stops rest) :
    strtod (natDigits ip ++ '.' :: (fd ++ rest)) =
      .ok (some (roundDouble ((ip : Rat) + (digitsVal fd : Rat) / (10 : Rat) ^ fd.length), (natDigits ip).length + 1 + fd.length)) := by
  obtain ⟨hne, hall, _⟩ := natDigits_spec ip
  have hdig : ∀ x ∈ natDigits ip, Char.isDigit x = true := fun x hx => List.all_eq_true.mp hall x hx
  have hfdig : ∀ x ∈ fd, Char.isDigit x = true := fun x hx => List.all_eq_true.mp hfd x hx
  obtain ⟨c, t, hct⟩ : ∃ c t, natDigits ip = c :: t := by
    cases hd : natDigits ip with
    | nil => exact absurd hd hne
    | cons c t => exact ⟨c, t, rfl⟩
  obtain ⟨k, hk⟩ := natDigits_mem ip c (by rw [hct]; exact List.mem_cons_self)
  obtain ⟨f1, f2, f3, _, f5⟩ := digitChar_facts k
  rw [← hk] at f1 f2 f3 f5
  -- no `0x`: the second character is a digit or the point
  have h0x : startsCI (natDigits ip ++ '.' :: (fd ++ rest)) "0x" = false := by
    cases hc : startsCI (natDigits ip ++ '.' :: (fd ++ rest)) "0x" with
    | false => rfl
    | true =>
      have hx : ∀ x ∈ "0x".toList, ∀ d ∈ identTerminators, d.toLower ≠ x := by
        intro x hx d hd
        have := terminator_not_numeric d hd
        have h0 : "0x".toList = ['0', 'x'] := by decide
        rw [h0] at hx
        simp only [List.mem_cons, List.not_mem_nil, or_false] at hx
        rcases hx with rfl | rfl
        · exact this.2.2.2.2.1
        · exact this.2.2.2.2.2
      have hp := startsCI_prefix _ _ hc
      have h0 : "0x".toList = ['0', 'x'] := by decide
      rw [h0, hct] at hp
      obtain ⟨e, he⟩ := hp
      cases t with
      | nil =>
        simp only [List.cons_append, List.nil_append, List.map_cons, List.cons.injEq] at he
        exact absurd he.2.1 (by decide)
      | cons y t' =>
        simp only [List.cons_append, List.map_cons, List.cons.injEq] at he
        obtain ⟨j, hj⟩ := natDigits_mem ip y (by rw [hct]; simp)
        exact absurd he.2.1.symm (hj ▸ (digitChar_facts j).2.2.2.1)
  have htw : (natDigits ip ++ '.' :: (fd ++ rest)).takeWhile Char.isDigit = natDigits ip :=
    takeWhile_append_stop _ _ _ _ hdig (by decide)
  have hdrop : List.drop (t.length + 1) (c :: (t ++ '.' :: (fd ++ rest))) = '.' :: (fd ++ rest) := by simp
  have htw2 : (fd ++ rest).takeWhile Char.isDigit = fd := by
    rcases hr with rfl | ⟨d, r, rfl, hd⟩
    · rw [List.append_nil]; exact takeWhile_all _ _ hfdig
    · exact takeWhile_append_stop _ _ _ _ hfdig (terminator_not_numeric d (List.contains_iff_mem.mp hd)).1
  have hdrop2 : List.drop (t.length + 1 + (1 + fd.length)) (c :: (t ++ '.' :: (fd ++ rest))) = rest := by
    have : c :: (t ++ '.' :: (fd ++ rest)) = (c :: t ++ '.' :: fd) ++ rest := by simp
    rw [this]
    have hl : t.length + 1 + (1 + fd.length) = (c :: t ++ '.' :: fd).length := by simp; omega
    rw [hl, List.drop_left]
  have hinf := startsCI_head_false c (t ++ '.' :: (fd ++ rest)) "infinity" 'i' "nfinity".toList (by decide) f2
  have hin := startsCI_head_false c (t ++ '.' :: (fd ++ rest)) "inf" 'i' "nf".toList (by decide) f2
  have hnan := startsCI_head_false c (t ++ '.' :: (fd ++ rest)) "nan" 'n' "an".toList (by decide) f3
  have hval : digitsVal (natDigits ip) = ip := digitsVal_natDigits ip
  have hr0 : roundDouble 0 = .fin 0 := by simp [roundDouble]
  have hmant : ((digitsVal (c :: t ++ fd) : Nat) : Rat) / (10 : Rat) ^ fd.length =
      (ip : Rat) + (digitsVal fd : Rat) / (10 : Rat) ^ fd.length := by
    rw [← hct, digitsVal_append, hval]
    have : ((10 : Rat) ^ fd.length) ≠ 0 := by positivity
    push_cast
    field_simp
  rw [hct] at h0x htw
  rw [hct]
  simp only [List.cons_append] at h0x htw hmant ⊢
  unfold strtod
  simp only [f1, hinf, hin, hnan, h0x, htw, if_false, Bool.false_and, Bool.false_eq_true, hdrop, List.isEmpty_cons,
    false_and, List.length_cons, List.head?_cons, if_true, List.drop_succ_cons, List.drop_zero, htw2, hdrop2]
  have hlen : fd.length < (c :: t ++ fd).length := by simp; omega
  have hfin : ∀ (e : Int × Nat), e = ((0 : Int), 0) →
      (Except.ok (some
        (if digitsVal (c :: t ++ fd) = 0 then Num.fin 0
          else if e.1 - (fd.length : Int) > 400 then Num.inf false
          else if e.1 - (fd.length : Int) + ((c :: t ++ fd).length : Int) < -400 then Num.fin 0
          else if e.1 - (fd.length : Int) ≥ 0 then
            roundDouble ((digitsVal (c :: t ++ fd) : Rat) * ((10 ^ (e.1 - (fd.length : Int)).toNat : Nat) : Rat))
          else roundDouble ((digitsVal (c :: t ++ fd) : Rat) / ((10 ^ (-(e.1 - (fd.length : Int))).toNat : Nat) : Rat)),
          t.length + 1 + (1 + fd.length) + e.2)) : Except Err (Option (Num × Nat))) =
      Except.ok (some (roundDouble ((ip : Rat) + (digitsVal fd : Rat) / (10 : Rat) ^ fd.length), t.length + 1 + 1 + fd.length)) := by
    intro e he
    subst he
    have hm' : ((digitsVal (c :: t ++ fd) : Nat) : Rat) / (10 : Rat) ^ fd.length =
        (ip : Rat) + (digitsVal fd : Rat) / (10 : Rat) ^ fd.length := hmant
    rw [value_pick _ _ _ hlen, hm']
    have : t.length + 1 + (1 + fd.length) + ((0 : Int), 0).2 = t.length + 1 + 1 + fd.length := by simp; omega
    rw [this]
  rcases hr with rfl | ⟨d, r, rfl, hd⟩
  · exact hfin _ rfl
  · have := terminator_not_numeric d (List.contains_iff_mem.mp hd)
    simp only [this.2.2.1, this.2.2.2.1, or_self, if_false]
    exact hfin _ rfl


theorem digitsVal_of_parseDigits (fd : List Char) (fp : Nat) (h : parseDigits fd = some fp) : digitsVal fd = fp := by
  unfold parseDigits at h
  split at h
  · cases h
  · exact Option.some.inj h

/-- a number text starting with a digit of `natDigits`, converted by `strtod` as a whole, is one constant token -/
theorem lexLine_of_strtod (ip : Nat) (tail rest : List Char) (v : Num)
    (hst : strtod (natDigits ip ++ (tail ++ rest)) = .ok (some (v, (natDigits ip).length + tail.length))) (fuel : Nat) :
    lexLine (fuel + 1) (natDigits ip ++ (tail ++ rest)) = (lexLine fuel rest).map (Raw.cons v :: ·) := by
  obtain ⟨hne, _, _⟩ := natDigits_spec ip
  obtain ⟨c, t, hct⟩ : ∃ c t, natDigits ip = c :: t := by
    cases hd : natDigits ip with
    | nil => exact absurd hd hne
    | cons c t => exact ⟨c, t, rfl⟩
  obtain ⟨k, hk⟩ := natDigits_mem ip c (by rw [hct]; exact List.mem_cons_self)
  obtain ⟨g1, g2, g3, g4, g5, g6, g7⟩ := digitChar_lex_facts k
  rw [← hk] at g1 g2 g3 g4 g5 g6 g7
  rw [hct] at hst ⊢
  simp only [List.cons_append] at hst ⊢
  rw [lexLine]
  simp only [g1, g2, g3, g4, g5, g6, g7, hst, or_self, if_false, List.length_cons]
  have hd : (c :: (t ++ (tail ++ rest))).drop (t.length + 1 + tail.length) = rest := by
    have : c :: (t ++ (tail ++ rest)) = (c :: t ++ tail) ++ rest := by simp
    rw [this]
    have hl : t.length + 1 + tail.length = (c :: t ++ tail).length := by simp; omega
    rw [hl, List.drop_left]
  rw [hd]

/-- **the positional decimal text of a non-negative terminating decimal is one constant token**: its value is the
    binary64 nearest to the number -/
theorem lexLine_showPosDecimal (q : Rat) (h0 : 0 ≤ q) (hd : Dec60 q) (rest : List Char) (hr : Stops rest) (fuel : Nat) :
    lexLine (fuel + 1) ((showPosDecimal q).toList ++ rest) = (lexLine fuel rest).map (Raw.cons (roundDouble q) :: ·) := by
  obtain ⟨ip, fp, fd, hw, hfd, hfp, hval⟩ := showPosDecimal_form q h0 hd
  have hst := strtod_decimal ip fd hfd rest hr
  rw [digitsVal_of_parseDigits fd fp hfp, hval] at hst
  rw [hw]
  have e1 : natDigits ip ++ '.' :: fd ++ rest = natDigits ip ++ (('.' :: fd) ++ rest) := by simp
  rw [e1]
  apply lexLine_of_strtod
  simp only [List.cons_append, List.length_cons]
  rw [hst]
  have : (natDigits ip).length + 1 + fd.length = (natDigits ip).length + (fd.length + 1) := by omega
  rw [this]


/-! ### `processtokens` on a label -/

/-- a valid label followed by any word is no two-word keyword (only the first word matters) -/
theorem join_no_keyword_any (s : String) (hs : validLabel (.str s) = true) (w : String) (c : Char) (hc : c = ' ' ∨ c = '-') :
    parseKw (lowerStr s ++ String.ofList [c] ++ w) = none := by
  obtain ⟨hsv, hsr⟩ := valid_parts s hs
  apply parseKw_none
  intro p hp he
  have hl : p.1.toList = (lowerStr s).toList ++ c :: w.toList := by
    rw [he]; simp [String.toList_append]
  have hmem : c ∈ p.1.toList := by rw [hl]; simp
  have hres := keyword_table_split c hc p hp hmem
  rw [hl, takeWhile_split _ _ _ (lower_no_sep s hsv c hc)] at hres
  have : String.ofList (lowerStr s).toList = lowerStr s := String.ofList_toList
  rw [this, hsr] at hres
  cases hres

theorem label_single_facts (s : String) (hs : validLabel (.str s) = true) :
    parseKw (lowerAscii s) = none ∧ freeWords.contains (lowerAscii s) = false ∧ infWords.contains (lowerAscii s) = false := by
  obtain ⟨hsv, hsr⟩ := valid_parts s hs
  refine ⟨?_, ?_, ?_⟩
  · apply parseKw_none
    intro p hp he
    rcases keyword_table_single p hp with h | h | h
    · rw [he, lowerAscii_eq_lowerStr, hsr] at h; cases h
    · rw [he] at h; exact lower_no_sep s hsv ' ' (Or.inl rfl) h
    · rw [he] at h; exact lower_no_sep s hsv '-' (Or.inr rfl) h
  · cases hc : freeWords.contains (lowerAscii s) with
    | false => rfl
    | true =>
      have := free_inf_table (lowerAscii s) (List.mem_append_left _ (List.contains_iff_mem.mp hc))
      rw [lowerAscii_eq_lowerStr, hsr] at this; cases this
  · cases hc : infWords.contains (lowerAscii s) with
    | false => rfl
    | true =>
      have := free_inf_table (lowerAscii s) (List.mem_append_right _ (List.contains_iff_mem.mp hc))
      rw [lowerAscii_eq_lowerStr, hsr] at this; cases this

/-- **`processtokens` on a valid label, whatever follows**: never a section keyword (alone, or joined with the next word
    or with `-` and the word after it), never `free` / infinity: a constraint identifier when a single colon follows, a
    variable otherwise -/
theorem procToks_label (s : String) (hs : validLabel (.str s) = true) (rest : List Raw) (fuel : Nat)
    (hcc : ∀ r, rest ≠ .colon :: .colon :: r) :
    procToks (fuel + 1) (.str s :: rest) =
      match rest with
      | .colon :: r => (procToks fuel r).map (PTok.conid s :: ·)
      | _ => (procToks fuel rest).map (PTok.varid s :: ·) := by
  obtain ⟨k1, k2, k3⟩ := label_single_facts s hs
  have j2 : ∀ w, parseKw (lowerAscii s ++ " " ++ w) = none := fun w => join_no_keyword_any s hs w ' ' (Or.inl rfl)
  have j3 : ∀ w, parseKw (lowerAscii s ++ "-" ++ w) = none := fun w => join_no_keyword_any s hs w '-' (Or.inr rfl)
  have k2' : lowerAscii s ∉ freeWords := by simpa using k2
  have k3' : lowerAscii s ∉ infWords := by simpa using k3
  cases rest with
  | nil => simp [procToks, k1, k2', k3']
  | cons a r =>
    cases a with
    | colon =>
      cases r with
      | nil => simp [procToks, k1, k2', k3']
      | cons b r' =>
        cases b with
        | colon => exact absurd rfl (hcc r')
        | _ => simp [procToks, k1, k2', k3']
    | str s1 => simp [procToks, k1, k2', k3', j2]
    | minus =>
      cases r with
      | nil => simp [procToks, k1, k2', k3']
      | cons b r' => cases b <;> simp [procToks, k1, k2', k3', j3]
    | _ => simp [procToks, k1, k2', k3']


/-! ### every data-carrying write of `dump` is lexed, in any context, to its raw tokens -/

theorem lexLine_blank (fuel : Nat) (cs : List Char) : lexLine (fuel + 1) (' ' :: cs) = lexLine fuel cs := by
  rw [lexLine]; simp

theorem lexLine_nl (fuel : Nat) (cs : List Char) : lexLine (fuel + 1) ('\n' :: cs) = .ok [] := by
  rw [lexLine]; simp

theorem lexLine_single (c : Char) (tok : Raw) (h : singleTok c = some tok)
    (hc : c ≠ '\\' ∧ c ≠ ';' ∧ c ≠ '\n' ∧ c ≠ ' ' ∧ c ≠ '\t' ∧ c ≠ Char.ofNat 0) (fuel : Nat) (cs : List Char) :
    lexLine (fuel + 1) (c :: cs) = (lexLine fuel cs).map (tok :: ·) := by
  rw [lexLine]
  simp only [hc.1, hc.2.1, hc.2.2.1, hc.2.2.2.1, hc.2.2.2.2.1, hc.2.2.2.2.2, or_self, if_false, h]

theorem map_map_cons {ε α} (x : Except ε (List α)) (f g : List α → List α) :
    Except.map f (Except.map g x) = Except.map (fun t => f (g t)) x := by cases x <;> rfl

theorem stops_blank (cs : List Char) : Stops (' ' :: cs) := Or.inr ⟨' ', cs, rfl, by decide +kernel⟩
theorem stops_nl (cs : List Char) : Stops ('\n' :: cs) := Or.inr ⟨'\n', cs, rfl, by decide +kernel⟩
theorem stops_colon (cs : List Char) : Stops (':' :: cs) := Or.inr ⟨':', cs, rfl, by decide +kernel⟩

/-- `_abs(bias)` is one constant token (integral or positional decimal) -/
theorem lexLine_showAbs (b : Rat) (hd : Dec60 b) (hdb : isDouble (absQ b) = true) (rest : List Char)
    (hr : Stops rest) (fuel : Nat) :
    lexLine (fuel + 1) ((showAbs b).toList ++ rest) = (lexLine fuel rest).map (Raw.cons (.fin (absQ b)) :: ·) := by
  simp only [isDouble, decide_eq_true_eq] at hdb
  have h0 : 0 ≤ absQ b := by unfold absQ; split <;> grind
  have hsh : showAbs b = if (absQ b).den = 1 then showNat (absQ b).num.toNat else showPosDecimal (absQ b) := rfl
  by_cases hi : (absQ b).den = 1
  · have hn : (((absQ b).num.toNat : Nat) : Rat) = absQ b := natCast_of_den_one _ hi h0
    rw [hsh, if_pos hi]
    simp only [showNat, String.toList_ofList]
    rw [lexLine_natDigits _ rest hr fuel, hn, hdb]
  · have hda : Dec60 (absQ b) := by unfold absQ; split; exact dec60_neg b hd; exact hd
    rw [hsh, if_neg hi, lexLine_showPosDecimal _ h0 hda rest hr fuel, hdb]

def sgnChar (b : Rat) : Char := if b < 0 then '-' else '+'
def sgnRaw (b : Rat) : Raw := if b < 0 then .minus else .plus

theorem signText_toList (b : Rat) : (signText b).toList = [sgnChar b] := by
  unfold signText sgnChar; split <;> rfl

theorem lexLine_sgn (b : Rat) (fuel : Nat) (cs : List Char) :
    lexLine (fuel + 1) (sgnChar b :: cs) = (lexLine fuel cs).map (sgnRaw b :: ·) := by
  unfold sgnChar sgnRaw
  split
  · exact lexLine_single '-' .minus (by decide) (by decide) fuel cs
  · exact lexLine_single '+' .plus (by decide) (by decide) fuel cs

/-- `f"{_sign(b)} {_abs(b)} {v} "` -/
theorem lex_write_lin (b : Rat) (s : String) (hd : Dec60 b) (hdb : isDouble (absQ b) = true)
    (hs : validLabel (.str s) = true) (rest : List Char) (fuel : Nat) :
    lexLine (fuel + 6) ((Tok.lin b (.str s)).render.toList ++ rest) =
      (lexLine fuel rest).map ([sgnRaw b, .cons (.fin (absQ b)), .str s] ++ ·) := by
  have hf : (Tok.lin b (.str s)).render.toList ++ rest =
      sgnChar b :: ' ' :: ((showAbs b).toList ++ ' ' :: (s.toList ++ ' ' :: rest)) := by
    simp [Tok.render, String.toList_append, signText_toList, labelText]
  rw [hf, lexLine_sgn, lexLine_blank, lexLine_showAbs b hd hdb _ (stops_blank _), lexLine_blank,
    lexLine_label s hs _ (stops_blank _), lexLine_blank, map_map_cons, map_map_cons]
  rfl

/-- `f"{_sign(b)} {_abs(b)} "` -/
theorem lex_write_const (b : Rat) (hd : Dec60 b) (hdb : isDouble (absQ b) = true) (rest : List Char) (fuel : Nat) :
    lexLine (fuel + 4) ((Tok.const b).render.toList ++ rest) =
      (lexLine fuel rest).map ([sgnRaw b, .cons (.fin (absQ b))] ++ ·) := by
  have hf : (Tok.const b).render.toList ++ rest = sgnChar b :: ' ' :: ((showAbs b).toList ++ ' ' :: rest) := by
    simp [Tok.render, String.toList_append, signText_toList]
  rw [hf, lexLine_sgn, lexLine_blank, lexLine_showAbs b hd hdb _ (stops_blank _), lexLine_blank, map_map_cons]
  rfl

/-- `f"{_sign(b)} {_abs(b)} {u} * {v} "` -/
theorem lex_write_qterm (b : Rat) (u v : String) (hd : Dec60 b) (hdb : isDouble (absQ b) = true)
    (hu : validLabel (.str u) = true) (hv : validLabel (.str v) = true) (rest : List Char) (fuel : Nat) :
    lexLine (fuel + 10) ((Tok.qterm b (.str u) (.str v)).render.toList ++ rest) =
      (lexLine fuel rest).map ([sgnRaw b, .cons (.fin (absQ b)), .str u, .asterisk, .str v] ++ ·) := by
  have hf : (Tok.qterm b (.str u) (.str v)).render.toList ++ rest =
      sgnChar b :: ' ' :: ((showAbs b).toList ++ ' ' :: (u.toList ++ ' ' :: '*' :: ' ' :: (v.toList ++ ' ' :: rest))) := by
    simp [Tok.render, String.toList_append, signText_toList, labelText]
  rw [hf, lexLine_sgn, lexLine_blank, lexLine_showAbs b hd hdb _ (stops_blank _), lexLine_blank,
    lexLine_label u hu _ (stops_blank _), lexLine_blank, lexLine_single '*' .asterisk (by decide) (by decide),
    lexLine_blank, lexLine_label v hv _ (stops_blank _), lexLine_blank, map_map_cons, map_map_cons, map_map_cons,
    map_map_cons]
  rfl

/-- `f" {l}: "` -/
theorem lex_write_clabel (s : String) (hs : validLabel (.str s) = true) (rest : List Char) (fuel : Nat) :
    lexLine (fuel + 4) ((Tok.clabel (.str s)).render.toList ++ rest) = (lexLine fuel rest).map ([.str s, .colon] ++ ·) := by
  have hf : (Tok.clabel (.str s)).render.toList ++ rest = ' ' :: (s.toList ++ ':' :: ' ' :: rest) := by
    simp [Tok.render, String.toList_append, labelText]
  rw [hf, lexLine_blank, lexLine_label s hs _ (stops_colon _), lexLine_single ':' .colon (by decide) (by decide),
    lexLine_blank, map_map_cons]
  rfl

/-- `f" {v}"` (Binary / General sections): the next write starts with a blank or a newline -/
theorem lex_write_name (s : String) (hs : validLabel (.str s) = true) (rest : List Char) (hr : Stops rest) (fuel : Nat) :
    lexLine (fuel + 2) ((Tok.name (.str s)).render.toList ++ rest) = (lexLine fuel rest).map ([.str s] ++ ·) := by
  have hf : (Tok.name (.str s)).render.toList ++ rest = ' ' :: (s.toList ++ rest) := by
    simp [Tok.render, String.toList_append, labelText]
  rw [hf, lexLine_blank, lexLine_label s hs _ hr]
  rfl


/-! ### right-hand sides and bounds (`repr(float(x))`, other than `±1e+30`) -/

def numRaw (q : Rat) : List Raw := if q < 0 then [.minus, .cons (.fin (-q))] else [.cons (.fin q)]

theorem lexLine_nl' (n : Nat) (h : 0 < n) (cs : List Char) : lexLine n ('\n' :: cs) = .ok [] := by
  cases n with
  | zero => omega
  | succ k => exact lexLine_nl k cs

theorem lexLine_showFloat_neg (q : Rat) (hd : Dec60 q) (hdb : isDouble (absQ q) = true) (hne : q ≠ -realMax) (h3 : q < 0)
    (rest : List Char) (hr : Stops rest) (fuel : Nat) :
    lexLine (fuel + 2) ((showFloat q).toList ++ rest) = (lexLine fuel rest).map (numRaw q ++ ·) := by
  simp only [isDouble, decide_eq_true_eq] at hdb
  have hne1 : q ≠ realMax := by
    intro h; rw [h] at h3; revert h3; decide +kernel
  have ha : absQ q = -q := by simp [absQ, h3]
  rw [ha] at hdb
  unfold showFloat numRaw
  rw [if_neg hne1, if_neg hne]
  simp only [h3, if_true]
  have hl : ("-" ++ showPosDecimal (-q)).toList ++ rest = '-' :: ((showPosDecimal (-q)).toList ++ rest) := by
    rw [String.toList_append]; rfl
  rw [hl, lexLine_single '-' .minus (by decide) (by decide),
    lexLine_showPosDecimal _ (by grind) (dec60_neg q hd) rest hr fuel, hdb, map_map_cons]
  rfl

theorem lexLine_showFloat_pos (q : Rat) (hd : Dec60 q) (hdb : isDouble (absQ q) = true) (hne : q ≠ realMax) (h3 : ¬ q < 0)
    (rest : List Char) (hr : Stops rest) (fuel : Nat) :
    lexLine (fuel + 1) ((showFloat q).toList ++ rest) = (lexLine fuel rest).map (numRaw q ++ ·) := by
  simp only [isDouble, decide_eq_true_eq] at hdb
  have hne2 : q ≠ -realMax := by
    intro h; rw [h] at h3; revert h3; decide +kernel
  have ha : absQ q = q := by simp [absQ, h3]
  rw [ha] at hdb
  unfold showFloat numRaw
  rw [if_neg hne, if_neg hne2]
  simp only [h3, if_false]
  rw [lexLine_showPosDecimal _ (by grind) hd rest hr fuel, hdb]
  rfl

/-- a printed float followed by the newline that ends its write: the line ends there -/
theorem lexLine_showFloat_nl (q : Rat) (hd : Dec60 q) (hdb : isDouble (absQ q) = true)
    (hne : q ≠ realMax ∧ q ≠ -realMax) (rest : List Char) (fuel : Nat) :
    lexLine (fuel + 3) ((showFloat q).toList ++ '\n' :: rest) = .ok (numRaw q) := by
  by_cases h3 : q < 0
  · rw [lexLine_showFloat_neg q hd hdb hne.2 h3 _ (stops_nl _), lexLine_nl]
    simp [Except.map]
  · rw [lexLine_showFloat_pos q hd hdb hne.1 h3 _ (stops_nl _), lexLine_nl]
    simp [Except.map]

def senseRaw : Sense → List Raw
  | .le => [.less, .equal] | .ge => [.greater, .equal] | .eq => [.equal]

/-- `f" {_sense(s)} {rhs}\n"`: the tokens of the comparison and of the right-hand side; the line ends -/
theorem lex_write_cmp (sn : Sense) (q : Rat) (hd : Dec60 q) (hdb : isDouble (absQ q) = true)
    (hne : q ≠ realMax ∧ q ≠ -realMax) (rest : List Char) (fuel : Nat) :
    lexLine (fuel + 7) ((Tok.cmp sn q).render.toList ++ rest) = .ok (senseRaw sn ++ numRaw q) := by
  cases sn with
  | le =>
    have hf : (Tok.cmp .le q).render.toList ++ rest = ' ' :: '<' :: '=' :: ' ' :: ((showFloat q).toList ++ '\n' :: rest) := by
      simp [Tok.render, String.toList_append, senseText]
    rw [hf, lexLine_blank, lexLine_single '<' .less (by decide) (by decide),
      lexLine_single '=' .equal (by decide) (by decide), lexLine_blank, lexLine_showFloat_nl q hd hdb hne]
    rfl
  | ge =>
    have hf : (Tok.cmp .ge q).render.toList ++ rest = ' ' :: '>' :: '=' :: ' ' :: ((showFloat q).toList ++ '\n' :: rest) := by
      simp [Tok.render, String.toList_append, senseText]
    rw [hf, lexLine_blank, lexLine_single '>' .greater (by decide) (by decide),
      lexLine_single '=' .equal (by decide) (by decide), lexLine_blank, lexLine_showFloat_nl q hd hdb hne]
    rfl
  | eq =>
    have hf : (Tok.cmp .eq q).render.toList ++ rest = ' ' :: '=' :: ' ' :: ((showFloat q).toList ++ '\n' :: rest) := by
      simp [Tok.render, String.toList_append, senseText]
    rw [hf, lexLine_blank, lexLine_single '=' .equal (by decide) (by decide), lexLine_blank,
      lexLine_showFloat_nl q hd hdb hne]
    rfl


/-- `f" {lb} <= {v} <= {ub}\n"` -/
theorem lex_write_bound (lb ub : Rat) (s : String) (hs : validLabel (.str s) = true)
    (hdl : Dec60 lb) (hbl : isDouble (absQ lb) = true) (hnl : lb ≠ realMax ∧ lb ≠ -realMax)
    (hdu : Dec60 ub) (hbu : isDouble (absQ ub) = true) (hnu : ub ≠ realMax ∧ ub ≠ -realMax) (rest : List Char) (fuel : Nat) :
    lexLine (fuel + 15) ((Tok.bound lb (.str s) ub).render.toList ++ rest) =
      .ok (numRaw lb ++ [.less, .equal, .str s, .less, .equal] ++ numRaw ub) := by
  have hf : (Tok.bound lb (.str s) ub).render.toList ++ rest =
      ' ' :: ((showFloat lb).toList ++ ' ' :: '<' :: '=' :: ' ' :: (s.toList ++ ' ' :: '<' :: '=' :: ' ' ::
        ((showFloat ub).toList ++ '\n' :: rest))) := by
    simp [Tok.render, String.toList_append, labelText]
  rw [hf, lexLine_blank]
  by_cases h3 : lb < 0
  · rw [lexLine_showFloat_neg lb hdl hbl hnl.2 h3 _ (stops_blank _), lexLine_blank,
      lexLine_single '<' .less (by decide) (by decide), lexLine_single '=' .equal (by decide) (by decide), lexLine_blank,
      lexLine_label s hs _ (stops_blank _), lexLine_blank,
      lexLine_single '<' .less (by decide) (by decide), lexLine_single '=' .equal (by decide) (by decide), lexLine_blank,
      lexLine_showFloat_nl ub hdu hbu hnu]
    simp [Except.map]
  · rw [lexLine_showFloat_pos lb hdl hbl hnl.1 h3 _ (stops_blank _), lexLine_blank,
      lexLine_single '<' .less (by decide) (by decide), lexLine_single '=' .equal (by decide) (by decide), lexLine_blank,
      lexLine_label s hs _ (stops_blank _), lexLine_blank,
      lexLine_single '<' .less (by decide) (by decide), lexLine_single '=' .equal (by decide) (by decide), lexLine_blank,
      lexLine_showFloat_nl ub hdu hbu hnu]
    simp [Except.map]

/-! ### the writer's own words -/

theorem lexWord_of_head (s : String) (c : Char) (t : List Char) (h : s.toList = c :: t)
    (h1 : ∀ x ∈ s.toList, x ∈ validChars) (h2 : c ≠ ';' ∧ c.isDigit = false ∧ c ≠ '.' ∧ c.toLower ≠ '0')
    (h3 : ∀ p ∈ invalidPrefixes, ¬ p.toList <+: s.toList.map Char.toLower) : LexWord s :=
  ⟨h1, ⟨c, t, h, h2⟩, h3⟩

theorem lexWord_keywords : LexWord "Minimize" ∧ LexWord "obj" ∧ LexWord "Subject" ∧ LexWord "To" ∧ LexWord "Bounds" ∧
    LexWord "Binary" ∧ LexWord "General" ∧ LexWord "End" := by
  refine ⟨lexWord_of_head _ 'M' _ rfl ?_ ?_ ?_, lexWord_of_head _ 'o' _ rfl ?_ ?_ ?_, lexWord_of_head _ 'S' _ rfl ?_ ?_ ?_,
    lexWord_of_head _ 'T' _ rfl ?_ ?_ ?_, lexWord_of_head _ 'B' _ rfl ?_ ?_ ?_, lexWord_of_head _ 'B' _ rfl ?_ ?_ ?_,
    lexWord_of_head _ 'G' _ rfl ?_ ?_ ?_, lexWord_of_head _ 'E' _ rfl ?_ ?_ ?_⟩ <;> decide +kernel


theorem lex_write_minimize (rest : List Char) (fuel : Nat) :
    lexLine (fuel + 2) (Tok.minimize.render.toList ++ rest) = .ok [.str "Minimize"] := by
  have hf : Tok.minimize.render.toList ++ rest = "Minimize".toList ++ '\n' :: rest := by
    simp [Tok.render, String.toList_append]
  rw [hf, lexLine_word _ lexWord_keywords.1 _ (stops_nl _), lexLine_nl]; rfl

theorem lex_write_objLabel (rest : List Char) (fuel : Nat) :
    lexLine (fuel + 4) (Tok.objLabel.render.toList ++ rest) = (lexLine fuel rest).map ([.str "obj", .colon] ++ ·) := by
  have hf : Tok.objLabel.render.toList ++ rest = ' ' :: ("obj".toList ++ ':' :: ' ' :: rest) := by
    simp [Tok.render, String.toList_append]
  rw [hf, lexLine_blank, lexLine_word _ lexWord_keywords.2.1 _ (stops_colon _),
    lexLine_single ':' .colon (by decide) (by decide), lexLine_blank, map_map_cons]; rfl

theorem lex_write_qopen (rest : List Char) (fuel : Nat) :
    lexLine (fuel + 4) (Tok.qopen.render.toList ++ rest) = (lexLine fuel rest).map ([.plus, .brkop] ++ ·) := by
  have hf : Tok.qopen.render.toList ++ rest = '+' :: ' ' :: '[' :: ' ' :: rest := by simp [Tok.render]
  rw [hf, lexLine_single '+' .plus (by decide) (by decide), lexLine_blank,
    lexLine_single '[' .brkop (by decide) (by decide), lexLine_blank, map_map_cons]; rfl

theorem lex_write_qclose (rest : List Char) (fuel : Nat) :
    lexLine (fuel + 2) (Tok.qclose.render.toList ++ rest) = (lexLine fuel rest).map ([.brkcl] ++ ·) := by
  have hf : Tok.qclose.render.toList ++ rest = ']' :: ' ' :: rest := by simp [Tok.render]
  rw [hf, lexLine_single ']' .brkcl (by decide) (by decide), lexLine_blank]; rfl

theorem lex_write_qcloseHalf (rest : List Char) (fuel : Nat) :
    lexLine (fuel + 4) (Tok.qcloseHalf.render.toList ++ rest) = (lexLine fuel rest).map ([.brkcl, .slash, .cons (.fin 2)] ++ ·) := by
  have hf : Tok.qcloseHalf.render.toList ++ rest = ']' :: '/' :: (natDigits 2 ++ ' ' :: rest) := by
    simp [Tok.render, natDigits, digitChar]
  have h2 : roundDouble ((2 : Nat) : Rat) = .fin 2 := by decide +kernel
  rw [hf, lexLine_single ']' .brkcl (by decide) (by decide), lexLine_single '/' .slash (by decide) (by decide),
    lexLine_natDigits 2 _ (stops_blank _), lexLine_blank, h2, map_map_cons, map_map_cons]; rfl

theorem lex_write_blank2 (rest : List Char) (fuel : Nat) :
    lexLine (fuel + 1) (Tok.blank2.render.toList ++ rest) = .ok [] := by
  have hf : Tok.blank2.render.toList ++ rest = '\n' :: '\n' :: rest := by simp [Tok.render]
  rw [hf, lexLine_nl]

theorem lex_write_nl (rest : List Char) (fuel : Nat) : lexLine (fuel + 1) (Tok.nl.render.toList ++ rest) = .ok [] := by
  have hf : Tok.nl.render.toList ++ rest = '\n' :: rest := by simp [Tok.render]
  rw [hf, lexLine_nl]

theorem lex_write_subjectTo (rest : List Char) (fuel : Nat) :
    lexLine (fuel + 5) (Tok.subjectTo.render.toList ++ rest) = .ok [.str "Subject", .str "To"] := by
  have hf : Tok.subjectTo.render.toList ++ rest = "Subject".toList ++ ' ' :: ("To".toList ++ ' ' :: '\n' :: rest) := by
    simp [Tok.render, String.toList_append]
  rw [hf, lexLine_word _ lexWord_keywords.2.2.1 _ (stops_blank _), lexLine_blank,
    lexLine_word _ lexWord_keywords.2.2.2.1 _ (stops_blank _), lexLine_blank, lexLine_nl]; rfl

theorem lex_write_bounds (rest : List Char) (fuel : Nat) :
    lexLine (fuel + 2) (Tok.bounds.render.toList ++ rest) = .ok [.str "Bounds"] := by
  have hf : Tok.bounds.render.toList ++ rest = "Bounds".toList ++ '\n' :: rest := by
    simp [Tok.render, String.toList_append]
  rw [hf, lexLine_word _ lexWord_keywords.2.2.2.2.1 _ (stops_nl _), lexLine_nl]; rfl

theorem lex_write_section (g : Bool) (rest : List Char) (fuel : Nat) :
    lexLine (fuel + 2) ((Tok.section g).render.toList ++ rest) = .ok [.str (if g then "General" else "Binary")] := by
  cases g with
  | true =>
    have hf : (Tok.section true).render.toList ++ rest = "General".toList ++ '\n' :: rest := by
      simp [Tok.render, String.toList_append]
    rw [hf, lexLine_word _ lexWord_keywords.2.2.2.2.2.2.1 _ (stops_nl _), lexLine_nl]; rfl
  | false =>
    have hf : (Tok.section false).render.toList ++ rest = "Binary".toList ++ '\n' :: rest := by
      simp [Tok.render, String.toList_append]
    rw [hf, lexLine_word _ lexWord_keywords.2.2.2.2.2.1 _ (stops_nl _), lexLine_nl]; rfl

theorem lex_write_end (rest : List Char) (hr : Stops rest) (fuel : Nat) :
    lexLine (fuel + 1) (Tok.end_.render.toList ++ rest) = (lexLine fuel rest).map ([.str "End"] ++ ·) := by
  have hf : Tok.end_.render.toList ++ rest = "End".toList ++ rest := by simp [Tok.render]
  rw [hf, lexLine_word _ lexWord_keywords.2.2.2.2.2.2.2 _ hr]; rfl


/-! ### `1e+30`, and the pieces of the written text -/

theorem strtod_1e30 (rest : List Char) (hr : Stops rest) :
    strtod ('1' :: 'e' :: '+' :: '3' :: '0' :: rest) = .ok (some (.fin realMax, 5)) := by
  have hv : roundDouble 1000000000000000000000000000000 = .fin realMax := by decide +kernel
  have htw : List.takeWhile Char.isDigit ('3' :: '0' :: rest) = ['3', '0'] := by
    rcases hr with rfl | ⟨d, r, rfl, hd⟩
    · decide
    · have := (terminator_not_numeric d (List.contains_iff_mem.mp hd)).1
      simp [List.takeWhile, this]
  have h1 := startsCI_head_false '1' ('e' :: '+' :: '3' :: '0' :: rest) "infinity" 'i' "nfinity".toList (by decide) (by decide)
  have h2 := startsCI_head_false '1' ('e' :: '+' :: '3' :: '0' :: rest) "inf" 'i' "nf".toList (by decide) (by decide)
  have h3 := startsCI_head_false '1' ('e' :: '+' :: '3' :: '0' :: rest) "nan" 'n' "an".toList (by decide) (by decide)
  have h4 := startsCI_0x_false '1' ('e' :: '+' :: '3' :: '0' :: rest) (by decide)
  unfold strtod
  simp [h1, h2, h3, h4, htw, digitsVal, hv]

theorem lexLine_1e30 (rest : List Char) (hr : Stops rest) (fuel : Nat) :
    lexLine (fuel + 1) ("1e+30".toList ++ rest) = (lexLine fuel rest).map (Raw.cons (.fin realMax) :: ·) := by
  have hf : "1e+30".toList ++ rest = '1' :: 'e' :: '+' :: '3' :: '0' :: rest := rfl
  rw [hf, lexLine]
  simp [strtod_1e30 rest hr, singleTok]

def numK (q : Rat) : Nat := if q < 0 then 2 else 1

/-- **`repr(float(x))` of any bound / right-hand side, `±1e+30` included** -/
theorem lexLine_showFloat (q : Rat) (hd : Dec60 q) (hdb : isDouble (absQ q) = true) (rest : List Char) (hr : Stops rest)
    (fuel : Nat) : lexLine (fuel + numK q) ((showFloat q).toList ++ rest) = (lexLine fuel rest).map (numRaw q ++ ·) := by
  by_cases h1 : q = realMax
  · subst h1
    have : numK realMax = 1 := by decide +kernel
    rw [this]
    have hs : showFloat realMax = "1e+30" := by decide +kernel
    have hn : numRaw realMax = [.cons (.fin realMax)] := by decide +kernel
    rw [hs, hn, lexLine_1e30 rest hr]; rfl
  · by_cases h2 : q = -realMax
    · subst h2
      have : numK (-realMax) = 2 := by decide +kernel
      rw [this]
      have hs : (showFloat (-realMax)).toList ++ rest = '-' :: ("1e+30".toList ++ rest) := by
        have : showFloat (-realMax) = "-1e+30" := by decide +kernel
        rw [this]; rfl
      have hn : numRaw (-realMax) = [.minus, .cons (.fin realMax)] := by decide +kernel
      rw [hs, hn, lexLine_single '-' .minus (by decide) (by decide), lexLine_1e30 rest hr, map_map_cons]; rfl
    · by_cases h3 : q < 0
      · have : numK q = 2 := by simp [numK, h3]
        rw [this]; exact lexLine_showFloat_neg q hd hdb h2 h3 rest hr fuel
      · have : numK q = 1 := by simp [numK, h3]
        rw [this]; exact lexLine_showFloat_pos q hd hdb h1 h3 rest hr fuel

theorem numK_le (q : Rat) (hd : Dec60 q) : numK q ≤ (showFloat q).toList.length := by
  unfold numK showFloat
  by_cases h1 : q = realMax
  · subst h1; decide +kernel
  · by_cases h2 : q = -realMax
    · subst h2; decide +kernel
    · rw [if_neg h1, if_neg h2]
      by_cases h3 : q < 0
      · simp only [h3, if_true]
        obtain ⟨ip, fp, fd, hw, _⟩ := showPosDecimal_form (-q) (by grind) (dec60_neg q hd)
        rw [String.toList_append, List.length_append, hw]
        simp; omega
      · simp only [h3, if_false]
        obtain ⟨ip, fp, fd, hw, _⟩ := showPosDecimal_form q (by grind) hd
        rw [hw]; simp; omega

/-- no newline, no carriage return -/
def NoNl (w : List Char) : Prop := ∀ c ∈ w, c ≠ '\n' ∧ c ≠ '\r'

instance (w : List Char) : Decidable (NoNl w) := by unfold NoNl; infer_instance

theorem noNl_append {a b : List Char} (ha : NoNl a) (hb : NoNl b) : NoNl (a ++ b) := by
  intro c hc; rcases List.mem_append.mp hc with h | h
  · exact ha c h
  · exact hb c h

theorem noNl_cons {c : Char} {b : List Char} (hc : c ≠ '\n' ∧ c ≠ '\r') (hb : NoNl b) : NoNl (c :: b) := by
  intro d hd; rcases List.mem_cons.mp hd with h | h
  · rw [h]; exact hc
  · exact hb d h

theorem noNl_nil : NoNl [] := fun _ h => absurd h List.not_mem_nil

theorem validChar_noNl : ∀ c ∈ validChars, c ≠ '\n' ∧ c ≠ '\r' := by decide +kernel

theorem noNl_label (s : String) (hs : validLabel (.str s) = true) : NoNl s.toList :=
  fun c hc => validChar_noNl c ((lexWord_of_label s hs).chars c hc)

theorem digit_noNl (c : Char) (h : c.isDigit = true) : c ≠ '\n' ∧ c ≠ '\r' := by
  constructor <;> (intro e; subst e; revert h; decide)

theorem noNl_natDigits (n : Nat) : NoNl (natDigits n) :=
  fun c hc => digit_noNl c (List.all_eq_true.mp (natDigits_spec n).2.1 c hc)

theorem noNl_showPosDecimal (q : Rat) (h0 : 0 ≤ q) (hd : Dec60 q) : NoNl (showPosDecimal q).toList := by
  obtain ⟨ip, fp, fd, hw, hfd, _⟩ := showPosDecimal_form q h0 hd
  rw [hw]
  exact noNl_append (noNl_natDigits ip) (noNl_cons (by decide) (fun c hc => digit_noNl c (List.all_eq_true.mp hfd c hc)))

theorem noNl_showAbs (b : Rat) (hd : Dec60 b) : NoNl (showAbs b).toList := by
  have h0 : 0 ≤ absQ b := by unfold absQ; split <;> grind
  have hsh : showAbs b = if (absQ b).den = 1 then showNat (absQ b).num.toNat else showPosDecimal (absQ b) := rfl
  have hda : Dec60 (absQ b) := by unfold absQ; split; exact dec60_neg b hd; exact hd
  rw [hsh]; split
  · simp only [showNat, String.toList_ofList]; exact noNl_natDigits _
  · exact noNl_showPosDecimal _ h0 hda

theorem noNl_showFloat (q : Rat) (hd : Dec60 q) : NoNl (showFloat q).toList := by
  unfold showFloat
  by_cases h1 : q = realMax
  · rw [if_pos h1]; decide
  · rw [if_neg h1]
    by_cases h2 : q = -realMax
    · rw [if_pos h2]; decide
    · rw [if_neg h2]
      by_cases h3 : q < 0
      · simp only [h3, if_true]
        rw [String.toList_append]
        exact noNl_append (by decide) (noNl_showPosDecimal _ (by grind) (dec60_neg q hd))
      · simp only [h3, if_false]
        exact noNl_showPosDecimal _ (by grind) hd

end LpCpp
