import DimodProofs.LpReader
import Mathlib.Tactic.IntervalCases

/-! C12: the character-level tokenizer of the C++ reader model (`LpCpp.lexLine` = `Reader::readnexttoken`) on what the
writer prints, for every label and every natural number (the lexical step of the general round trip through the reader
model):

* a label `_validate_label` accepts, followed by a blank / colon / newline / the end of the line, is one identifier token
  with exactly that text: `strtod` converts nothing at its start (no digit, no `.`, no `inf` / `nan` prefix — this is what
  `LABEL_INVALID_FIRST_CHARS` and `LABEL_INVALID_PREFIXES` are for) and none of its characters ends an identifier;
* the decimal digits of a natural number `n`, followed by such a character, are one constant token whose value is the
  binary64 nearest to `n` (so `n` itself when `n` is a binary64 value). -/

namespace LpCpp
open Lp Generated.LpKeywords Generated.LpLabels

/-- the text after a word: nothing, or a character that ends an identifier (blank, colon, newline, …) -/
def Stops (rest : List Char) : Prop := rest = [] ∨ ∃ d t, rest = d :: t ∧ identTerminators.contains d = true

/-- facts about every valid label character, from the two generated tables -/
theorem validChar_facts : ∀ c ∈ validChars,
    identTerminators.contains c = false ∧ ¬ (c.toNat < 32 ∨ c.toNat = 127) ∧ c ≠ '\\' ∧ c ≠ '\n' ∧ c ≠ ' ' ∧ c ≠ '\t' ∧
    c ≠ Char.ofNat 0 ∧ singleTok c = none := by decide +kernel

/-- facts about a valid first character -/
theorem validFirst_facts : ∀ c ∈ validChars, invalidFirstChars.contains c = false →
    c ≠ ';' ∧ c.isDigit = false ∧ c ≠ '.' ∧ c.toLower ≠ '0' := by decide +kernel

/-- no identifier terminator lower-cases to a letter of `inf` / `nan` / `infinity` -/
theorem terminator_not_letter : ∀ d ∈ identTerminators, d.toLower ∉ "infinity".toList ∧ d.toLower ∉ "nan".toList := by
  decide +kernel

theorem startsCI_prefix (cs : List Char) (w : String) (h : startsCI cs w = true) : w.toList <+: cs.map Char.toLower := by
  simp only [startsCI, Bool.and_eq_true, decide_eq_true_eq] at h
  rw [← h.2]
  exact List.IsPrefix.map _ (List.take_prefix _ _)

/-- a word all of whose letters are no lower-cased terminator, found at the start of `a ++ rest`, starts `a` -/
theorem prefix_in_word (w a rest : List Char) (hr : Stops rest) (hw : ∀ x ∈ w, ∀ d ∈ identTerminators, d.toLower ≠ x)
    (h : w <+: (a ++ rest).map Char.toLower) : w <+: a.map Char.toLower := by
  rw [List.map_append] at h
  by_cases hl : w.length ≤ (a.map Char.toLower).length
  · exact List.prefix_of_prefix_length_le h (List.prefix_append _ _) hl
  · have ha : a.map Char.toLower <+: w := List.prefix_of_prefix_length_le (List.prefix_append _ _) h (by omega)
    obtain ⟨t, ht⟩ := ha
    subst ht
    rw [List.prefix_append_right_inj] at h
    rcases hr with rfl | ⟨d, r, rfl, hd⟩
    · simp only [List.map_nil, List.prefix_nil] at h
      subst h; simp at hl
    · cases t with
      | nil => simp at hl
      | cons x t' =>
        simp only [List.map_cons] at h
        obtain ⟨e, he⟩ := h
        simp only [List.cons_append, List.cons.injEq] at he
        exact absurd he.1.symm (hw x (by simp) d (List.contains_iff_mem.mp hd))

theorem not_reserved_prefix (s : String) (h : validLabel (.str s) = true) (p : String) (hp : p ∈ invalidPrefixes) :
    ¬ p.toList <+: s.toList.map Char.toLower := by
  obtain ⟨_, hr⟩ := valid_parts s h
  intro hpre
  simp only [reservedLc, Bool.or_eq_false_iff, List.any_eq_false] at hr
  have := hr.2 p hp
  simp only [lowerStr, String.toList_ofList] at this
  exact this (List.isPrefixOf_iff_prefix.mpr hpre)

/-- `startsCI` is false for `inf`, `infinity`, `nan` at the start of a valid label followed by a stop -/
theorem label_not_infnan (s : String) (h : validLabel (.str s) = true) (rest : List Char) (hr : Stops rest) :
    startsCI (s.toList ++ rest) "infinity" = false ∧ startsCI (s.toList ++ rest) "inf" = false ∧
    startsCI (s.toList ++ rest) "nan" = false := by
  have hinf : ∀ x ∈ "infinity".toList, ∀ d ∈ identTerminators, d.toLower ≠ x := by
    intro x hx d hd e; exact (terminator_not_letter d hd).1 (e ▸ hx)
  have hnan : ∀ x ∈ "nan".toList, ∀ d ∈ identTerminators, d.toLower ≠ x := by
    intro x hx d hd e; exact (terminator_not_letter d hd).2 (e ▸ hx)
  have hinf3 : ∀ x ∈ "inf".toList, ∀ d ∈ identTerminators, d.toLower ≠ x := by
    intro x hx d hd
    exact hinf x (by revert hx; revert x; decide) d hd
  refine ⟨?_, ?_, ?_⟩
  · cases hc : startsCI (s.toList ++ rest) "infinity" with
    | false => rfl
    | true =>
      have h1 := prefix_in_word _ _ _ hr hinf (startsCI_prefix _ _ hc)
      have h2 : "inf".toList <+: "infinity".toList := by decide
      exact absurd (h2.trans h1) (not_reserved_prefix s h "inf" (by decide))
  · cases hc : startsCI (s.toList ++ rest) "inf" with
    | false => rfl
    | true =>
      exact absurd (prefix_in_word _ _ _ hr hinf3 (startsCI_prefix _ _ hc)) (not_reserved_prefix s h "inf" (by decide))
  · cases hc : startsCI (s.toList ++ rest) "nan" with
    | false => rfl
    | true =>
      exact absurd (prefix_in_word _ _ _ hr hnan (startsCI_prefix _ _ hc)) (not_reserved_prefix s h "nan" (by decide))

theorem startsCI_0x_false (c : Char) (t : List Char) (h : c.toLower ≠ '0') : startsCI (c :: t) "0x" = false := by
  cases hc : startsCI (c :: t) "0x" with
  | false => rfl
  | true =>
    have := startsCI_prefix _ _ hc
    obtain ⟨e, he⟩ := this
    have h0 : "0x".toList = ['0', 'x'] := by decide
    rw [h0] at he
    simp only [List.map_cons, List.cons_append, List.cons.injEq] at he
    exact absurd he.1.symm h

/-- `strtod` converts nothing at a character that is no digit, no `.`, and starts none of `inf`, `nan`, `0x` -/
theorem strtod_none_of_head (c : Char) (t : List Char)
    (h1 : ¬ (c.toNat < 32 ∨ c.toNat = 127)) (h2 : startsCI (c :: t) "infinity" = false)
    (h3 : startsCI (c :: t) "inf" = false) (h4 : startsCI (c :: t) "nan" = false) (h5 : c.toLower ≠ '0')
    (h6 : c.isDigit = false) (h7 : c ≠ '.') : strtod (c :: t) = .ok none := by
  have h8 := startsCI_0x_false c t h5
  simp [strtod, h1, h2, h3, h4, h6, h7, h8]

/-- **a valid label is one identifier token of the C++ tokenizer**, whatever follows the stop character -/
theorem lexLine_label (s : String) (h : validLabel (.str s) = true) (rest : List Char) (hr : Stops rest) (fuel : Nat) :
    lexLine (fuel + 1) (s.toList ++ rest) = (lexLine fuel rest).map (Raw.str s :: ·) := by
  obtain ⟨hv, _⟩ := valid_parts s h
  have hvc : ∀ c ∈ s.toList, c ∈ validChars := fun c hc => by
    have := hv c hc; simpa [validChar] using this
  have hfirst : ∃ c t, s.toList = c :: t ∧ invalidFirstChars.contains c = false := by
    simp only [validLabel] at h
    split at h
    · cases h
    · rename_i c t hct
      simp only [Bool.and_eq_true, Bool.not_eq_eq_eq_not, Bool.not_true, invalidFirst] at h
      exact ⟨c, t, hct, h.1.2⟩
  obtain ⟨c, t, hct, hif⟩ := hfirst
  have hc := hvc c (by rw [hct]; exact List.mem_cons_self)
  obtain ⟨hterm, hctl, hb, hn, hsp, htab, hz, hsing⟩ := validChar_facts c hc
  obtain ⟨hsemi, hdig, hdot, h0⟩ := validFirst_facts c hc hif
  obtain ⟨i1, i2, i3⟩ := label_not_infnan s h rest hr
  rw [hct] at i1 i2 i3
  have hst := strtod_none_of_head c (t ++ rest) hctl i1 i2 i3 h0 hdig hdot
  -- the identifier is the label
  have hnt : ∀ x ∈ s.toList, (fun d => !identTerminators.contains d) x = true := fun x hx => by
    have := (validChar_facts x (hvc x hx)).1
    show (!identTerminators.contains x) = true
    rw [this]; rfl
  have htw : (s.toList ++ rest).takeWhile (fun d => !identTerminators.contains d) = s.toList := by
    rcases hr with rfl | ⟨d, r, rfl, hd⟩
    · rw [List.append_nil]
      exact takeWhile_all _ _ hnt
    · exact takeWhile_append_stop _ _ _ _ hnt (by show (!identTerminators.contains d) = false; rw [hd]; rfl)
  rw [hct] at htw ⊢
  simp only [List.cons_append] at htw hst ⊢
  rw [lexLine]
  simp only [hb, hsemi, hn, hsp, htab, hz, hsing, hst, htw, or_self, if_false, List.isEmpty_cons, Bool.false_eq_true,
    List.length_cons]
  have hd : (c :: (t ++ rest)).drop (t.length + 1) = rest := by simp
  rw [hd, ← hct, String.ofList_toList]


/-! ### natural numbers -/

theorem startsCI_head_false (c : Char) (t : List Char) (w : String) (x : Char) (r : List Char) (hw : w.toList = x :: r)
    (h : c.toLower ≠ x) : startsCI (c :: t) w = false := by
  cases hc : startsCI (c :: t) w with
  | false => rfl
  | true =>
    obtain ⟨e, he⟩ := startsCI_prefix _ _ hc
    rw [hw] at he
    simp only [List.map_cons, List.cons_append, List.cons.injEq] at he
    exact absurd he.1.symm h

theorem digitChar_facts (m : Nat) :
    ¬ ((digitChar m).toNat < 32 ∨ (digitChar m).toNat = 127) ∧ (digitChar m).toLower ≠ 'i' ∧ (digitChar m).toLower ≠ 'n' ∧
    (digitChar m).toLower ≠ 'x' ∧ (digitChar m).isDigit = true := by
  unfold digitChar
  have h : m % 10 < 10 := Nat.mod_lt _ (by decide)
  interval_cases (m % 10) <;> decide

theorem natDigits_mem (n : Nat) : ∀ c ∈ natDigits n, ∃ k, c = digitChar k := by
  induction n using Nat.strong_induction_on with
  | _ n ih =>
    rw [natDigits_unfold]
    by_cases h : n < 10
    · simp only [h, if_true, List.mem_singleton]
      intro c hc; exact ⟨n, hc⟩
    · simp only [h, if_false, List.mem_append, List.mem_singleton]
      intro c hc
      rcases hc with hc | hc
      · exact ih (n / 10) (by omega) c hc
      · exact ⟨n, hc⟩

theorem terminator_not_numeric : ∀ d ∈ identTerminators,
    d.isDigit = false ∧ d ≠ '.' ∧ d ≠ 'e' ∧ d ≠ 'E' ∧ d.toLower ≠ '0' ∧ d.toLower ≠ 'x' := by decide +kernel

theorem digitsVal_natDigits (n : Nat) : digitsVal (natDigits n) = n := (natDigits_spec n).2.2

/-- **`strtod` on the decimal digits of a natural number**: all digits are consumed and the value is the binary64 nearest
    to the number -/
theorem strtod_natDigits (n : Nat) (rest : List Char) (hr : Stops rest) :
    strtod (natDigits n ++ rest) = .ok (some (roundDouble (n : Rat), (natDigits n).length)) := by
  obtain ⟨hne, hall, _⟩ := natDigits_spec n
  have hdig : ∀ x ∈ natDigits n, Char.isDigit x = true := fun x hx => List.all_eq_true.mp hall x hx
  obtain ⟨c, t, hct⟩ : ∃ c t, natDigits n = c :: t := by
    cases hd : natDigits n with
    | nil => exact absurd hd hne
    | cons c t => exact ⟨c, t, rfl⟩
  obtain ⟨k, hk⟩ := natDigits_mem n c (by rw [hct]; exact List.mem_cons_self)
  obtain ⟨f1, f2, f3, _, f5⟩ := digitChar_facts k
  rw [← hk] at f1 f2 f3 f5
  -- no `0x`: the second character is a digit or a stop
  have hx : ∀ x ∈ "0x".toList, ∀ d ∈ identTerminators, d.toLower ≠ x := by
    intro x hx d hd
    have := terminator_not_numeric d hd
    have h0 : "0x".toList = ['0', 'x'] := by decide
    rw [h0] at hx
    simp only [List.mem_cons, List.not_mem_nil, or_false] at hx
    rcases hx with rfl | rfl
    · exact this.2.2.2.2.1
    · exact this.2.2.2.2.2
  have h0x : startsCI (natDigits n ++ rest) "0x" = false := by
    cases hc : startsCI (natDigits n ++ rest) "0x" with
    | false => rfl
    | true =>
      have hp := prefix_in_word _ _ _ hr hx (startsCI_prefix _ _ hc)
      have hmem : 'x' ∈ (natDigits n).map Char.toLower := hp.subset (by decide)
      obtain ⟨y, hy, hyx⟩ := List.mem_map.mp hmem
      obtain ⟨j, hj⟩ := natDigits_mem n y hy
      exact absurd hyx (hj ▸ (digitChar_facts j).2.2.2.1)
  have htw : (natDigits n ++ rest).takeWhile Char.isDigit = natDigits n := by
    rcases hr with rfl | ⟨d, r, rfl, hd⟩
    · rw [List.append_nil]; exact takeWhile_all _ _ hdig
    · exact takeWhile_append_stop _ _ _ _ hdig (terminator_not_numeric d (List.contains_iff_mem.mp hd)).1
  have hdrop : (natDigits n ++ rest).drop (natDigits n).length = rest := by simp
  have hinf := startsCI_head_false c (t ++ rest) "infinity" 'i' "nfinity".toList (by decide) f2
  have hin := startsCI_head_false c (t ++ rest) "inf" 'i' "nf".toList (by decide) f2
  have hnan := startsCI_head_false c (t ++ rest) "nan" 'n' "an".toList (by decide) f3
  have hval : digitsVal (natDigits n) = n := digitsVal_natDigits n
  have hdrop' : List.drop (t.length + 1) (c :: (t ++ rest)) = rest := by
    simp
  rw [hct] at h0x htw hval
  rw [hct]
  simp only [List.cons_append] at h0x htw ⊢
  have hr0 : roundDouble 0 = .fin 0 := by simp [roundDouble]
  unfold strtod
  simp only [f1, hinf, hin, hnan, h0x, htw, if_false, Bool.false_and, Bool.false_eq_true, hdrop', List.isEmpty_cons,
    false_and, List.length_cons]
  rcases hr with rfl | ⟨d, r, rfl, hd⟩
  · by_cases hn0 : n = 0
    · subst hn0; simp [hval, hr0]
    · simp [hval, hn0]
      intro h; exfalso; omega
  · have := terminator_not_numeric d (List.contains_iff_mem.mp hd)
    by_cases hn0 : n = 0
    · subst hn0; simp [hval, hr0, this.2.1, this.2.2.1, this.2.2.2.1]
    · simp [hval, hn0, this.2.1, this.2.2.1, this.2.2.2.1]
      intro h; exfalso; omega


theorem digitChar_lex_facts (m : Nat) :
    digitChar m ≠ '\\' ∧ digitChar m ≠ ';' ∧ digitChar m ≠ '\n' ∧ digitChar m ≠ ' ' ∧ digitChar m ≠ '\t' ∧
    digitChar m ≠ Char.ofNat 0 ∧ singleTok (digitChar m) = none := by
  unfold digitChar
  have h : m % 10 < 10 := Nat.mod_lt _ (by decide)
  interval_cases (m % 10) <;> decide

/-- **the decimal digits of a natural number are one constant token of the C++ tokenizer** -/
theorem lexLine_natDigits (n : Nat) (rest : List Char) (hr : Stops rest) (fuel : Nat) :
    lexLine (fuel + 1) (natDigits n ++ rest) = (lexLine fuel rest).map (Raw.cons (roundDouble (n : Rat)) :: ·) := by
  have hst := strtod_natDigits n rest hr
  obtain ⟨hne, _, _⟩ := natDigits_spec n
  obtain ⟨c, t, hct⟩ : ∃ c t, natDigits n = c :: t := by
    cases hd : natDigits n with
    | nil => exact absurd hd hne
    | cons c t => exact ⟨c, t, rfl⟩
  obtain ⟨k, hk⟩ := natDigits_mem n c (by rw [hct]; exact List.mem_cons_self)
  obtain ⟨g1, g2, g3, g4, g5, g6, g7⟩ := digitChar_lex_facts k
  rw [← hk] at g1 g2 g3 g4 g5 g6 g7
  rw [hct] at hst ⊢
  simp only [List.cons_append] at hst ⊢
  rw [lexLine]
  simp only [g1, g2, g3, g4, g5, g6, g7, hst, or_self, if_false, List.length_cons]
  have hd : (c :: (t ++ rest)).drop (t.length + 1) = rest := by simp
  rw [hd]

end LpCpp
