import DimodProofs.LpReader
import Mathlib.Tactic.IntervalCases
import Mathlib.Tactic.Ring
import Mathlib.Tactic.FieldSimp

/-! C12: the character-level tokenizer of the C++ reader model (`LpCpp.lexLine` = `Reader::readnexttoken`) on what the
writer prints, for every label and every natural number (the lexical step of the general round trip through the reader
model):

* a label `_validate_label` accepts, followed by a blank / colon / newline / the end of the line, is one identifier token
  with exactly that text: `strtod` converts nothing at its start (no digit, no `.`, no `inf` / `nan` prefix — this is what
  `LABEL_INVALID_FIRST_CHARS` and `LABEL_INVALID_PREFIXES` are for) and none of its characters ends an identifier;
* the decimal digits of a natural number `n`, followed by such a character, are one constant token whose value is the
  binary64 nearest to `n` (so `n` itself when `n` is a binary64 value). -/

namespace LpCpp
open Lp Generated.LpKeywords Generated.LpLabels

/-- the text after a word: nothing, or a character that ends an identifier (blank, colon, newline, …) -/
def Stops (rest : List Char) : Prop := rest = [] ∨ ∃ d t, rest = d :: t ∧ identTerminators.contains d = true

/-- facts about every valid label character, from the two generated tables -/
theorem validChar_facts : ∀ c ∈ validChars,
    identTerminators.contains c = false ∧ ¬ (c.toNat < 32 ∨ c.toNat = 127) ∧ c ≠ '\\' ∧ c ≠ '\n' ∧ c ≠ ' ' ∧ c ≠ '\t' ∧
    c ≠ Char.ofNat 0 ∧ singleTok c = none := by decide +kernel

/-- facts about a valid first character -/
theorem validFirst_facts : ∀ c ∈ validChars, invalidFirstChars.contains c = false →
    c ≠ ';' ∧ c.isDigit = false ∧ c ≠ '.' ∧ c.toLower ≠ '0' := by decide +kernel

/-- no identifier terminator lower-cases to a letter of `inf` / `nan` / `infinity` -/
theorem terminator_not_letter : ∀ d ∈ identTerminators, d.toLower ∉ "infinity".toList ∧ d.toLower ∉ "nan".toList := by
  decide +kernel

theorem startsCI_prefix (cs : List Char) (w : String) (h : startsCI cs w = true) : w.toList <+: cs.map Char.toLower := by
  simp only [startsCI, Bool.and_eq_true, decide_eq_true_eq] at h
  rw [← h.2]
  exact List.IsPrefix.map _ (List.take_prefix _ _)

/-- a word all of whose letters are no lower-cased terminator, found at the start of `a ++ rest`, starts `a` -/
theorem prefix_in_word (w a rest : List Char) (hr : Stops rest) (hw : ∀ x ∈ w, ∀ d ∈ identTerminators, d.toLower ≠ x)
    (h : w <+: (a ++ rest).map Char.toLower) : w <+: a.map Char.toLower := by
  rw [List.map_append] at h
  by_cases hl : w.length ≤ (a.map Char.toLower).length
  · exact List.prefix_of_prefix_length_le h (List.prefix_append _ _) hl
  · have ha : a.map Char.toLower <+: w := List.prefix_of_prefix_length_le (List.prefix_append _ _) h (by omega)
    obtain ⟨t, ht⟩ := ha
    subst ht
    rw [List.prefix_append_right_inj] at h
    rcases hr with rfl | ⟨d, r, rfl, hd⟩
    · simp only [List.map_nil, List.prefix_nil] at h
      subst h; simp at hl
    · cases t with
      | nil => simp at hl
      | cons x t' =>
        simp only [List.map_cons] at h
        obtain ⟨e, he⟩ := h
        simp only [List.cons_append, List.cons.injEq] at he
        exact absurd he.1.symm (hw x (by simp) d (List.contains_iff_mem.mp hd))

theorem not_reserved_prefix (s : String) (h : validLabel (.str s) = true) (p : String) (hp : p ∈ invalidPrefixes) :
    ¬ p.toList <+: s.toList.map Char.toLower := by
  obtain ⟨_, hr⟩ := valid_parts s h
  intro hpre
  simp only [reservedLc, Bool.or_eq_false_iff, List.any_eq_false] at hr
  have := hr.2 p hp
  simp only [lowerStr, String.toList_ofList] at this
  exact this (List.isPrefixOf_iff_prefix.mpr hpre)

/-- `startsCI` is false for `inf`, `infinity`, `nan` at the start of a valid label followed by a stop -/
theorem label_not_infnan (s : String) (h : validLabel (.str s) = true) (rest : List Char) (hr : Stops rest) :
    startsCI (s.toList ++ rest) "infinity" = false ∧ startsCI (s.toList ++ rest) "inf" = false ∧
    startsCI (s.toList ++ rest) "nan" = false := by
  have hinf : ∀ x ∈ "infinity".toList, ∀ d ∈ identTerminators, d.toLower ≠ x := by
    intro x hx d hd e; exact (terminator_not_letter d hd).1 (e ▸ hx)
  have hnan : ∀ x ∈ "nan".toList, ∀ d ∈ identTerminators, d.toLower ≠ x := by
    intro x hx d hd e; exact (terminator_not_letter d hd).2 (e ▸ hx)
  have hinf3 : ∀ x ∈ "inf".toList, ∀ d ∈ identTerminators, d.toLower ≠ x := by
    intro x hx d hd
    exact hinf x (by revert hx; revert x; decide) d hd
  refine ⟨?_, ?_, ?_⟩
  · cases hc : startsCI (s.toList ++ rest) "infinity" with
    | false => rfl
    | true =>
      have h1 := prefix_in_word _ _ _ hr hinf (startsCI_prefix _ _ hc)
      have h2 : "inf".toList <+: "infinity".toList := by decide
      exact absurd (h2.trans h1) (not_reserved_prefix s h "inf" (by decide))
  · cases hc : startsCI (s.toList ++ rest) "inf" with
    | false => rfl
    | true =>
      exact absurd (prefix_in_word _ _ _ hr hinf3 (startsCI_prefix _ _ hc)) (not_reserved_prefix s h "inf" (by decide))
  · cases hc : startsCI (s.toList ++ rest) "nan" with
    | false => rfl
    | true =>
      exact absurd (prefix_in_word _ _ _ hr hnan (startsCI_prefix _ _ hc)) (not_reserved_prefix s h "nan" (by decide))

theorem startsCI_0x_false (c : Char) (t : List Char) (h : c.toLower ≠ '0') : startsCI (c :: t) "0x" = false := by
  cases hc : startsCI (c :: t) "0x" with
  | false => rfl
  | true =>
    have := startsCI_prefix _ _ hc
    obtain ⟨e, he⟩ := this
    have h0 : "0x".toList = ['0', 'x'] := by decide
    rw [h0] at he
    simp only [List.map_cons, List.cons_append, List.cons.injEq] at he
    exact absurd he.1.symm h

/-- `strtod` converts nothing at a character that is no digit, no `.`, and starts none of `inf`, `nan`, `0x` -/
theorem strtod_none_of_head (c : Char) (t : List Char)
    (h1 : ¬ (c.toNat < 32 ∨ c.toNat = 127)) (h2 : startsCI (c :: t) "infinity" = false)
    (h3 : startsCI (c :: t) "inf" = false) (h4 : startsCI (c :: t) "nan" = false) (h5 : c.toLower ≠ '0')
    (h6 : c.isDigit = false) (h7 : c ≠ '.') : strtod (c :: t) = .ok none := by
  have h8 := startsCI_0x_false c t h5
  simp [strtod, h1, h2, h3, h4, h6, h7, h8]

/-- **a valid label is one identifier token of the C++ tokenizer**, whatever follows the stop character -/
theorem lexLine_label (s : String) (h : validLabel (.str s) = true) (rest : List Char) (hr : Stops rest) (fuel : Nat) :
    lexLine (fuel + 1) (s.toList ++ rest) = (lexLine fuel rest).map (Raw.str s :: ·) := by
  obtain ⟨hv, _⟩ := valid_parts s h
  have hvc : ∀ c ∈ s.toList, c ∈ validChars := fun c hc => by
    have := hv c hc; simpa [validChar] using this
  have hfirst : ∃ c t, s.toList = c :: t ∧ invalidFirstChars.contains c = false := by
    simp only [validLabel] at h
    split at h
    · cases h
    · rename_i c t hct
      simp only [Bool.and_eq_true, Bool.not_eq_eq_eq_not, Bool.not_true, invalidFirst] at h
      exact ⟨c, t, hct, h.1.2⟩
  obtain ⟨c, t, hct, hif⟩ := hfirst
  have hc := hvc c (by rw [hct]; exact List.mem_cons_self)
  obtain ⟨hterm, hctl, hb, hn, hsp, htab, hz, hsing⟩ := validChar_facts c hc
  obtain ⟨hsemi, hdig, hdot, h0⟩ := validFirst_facts c hc hif
  obtain ⟨i1, i2, i3⟩ := label_not_infnan s h rest hr
  rw [hct] at i1 i2 i3
  have hst := strtod_none_of_head c (t ++ rest) hctl i1 i2 i3 h0 hdig hdot
  -- the identifier is the label
  have hnt : ∀ x ∈ s.toList, (fun d => !identTerminators.contains d) x = true := fun x hx => by
    have := (validChar_facts x (hvc x hx)).1
    show (!identTerminators.contains x) = true
    rw [this]; rfl
  have htw : (s.toList ++ rest).takeWhile (fun d => !identTerminators.contains d) = s.toList := by
    rcases hr with rfl | ⟨d, r, rfl, hd⟩
    · rw [List.append_nil]
      exact takeWhile_all _ _ hnt
    · exact takeWhile_append_stop _ _ _ _ hnt (by show (!identTerminators.contains d) = false; rw [hd]; rfl)
  rw [hct] at htw ⊢
  simp only [List.cons_append] at htw hst ⊢
  rw [lexLine]
  simp only [hb, hsemi, hn, hsp, htab, hz, hsing, hst, htw, or_self, if_false, List.isEmpty_cons, Bool.false_eq_true,
    List.length_cons]
  have hd : (c :: (t ++ rest)).drop (t.length + 1) = rest := by simp
  rw [hd, ← hct, String.ofList_toList]


/-! ### natural numbers -/

theorem startsCI_head_false (c : Char) (t : List Char) (w : String) (x : Char) (r : List Char) (hw : w.toList = x :: r)
    (h : c.toLower ≠ x) : startsCI (c :: t) w = false := by
  cases hc : startsCI (c :: t) w with
  | false => rfl
  | true =>
    obtain ⟨e, he⟩ := startsCI_prefix _ _ hc
    rw [hw] at he
    simp only [List.map_cons, List.cons_append, List.cons.injEq] at he
    exact absurd he.1.symm h

theorem digitChar_facts (m : Nat) :
    ¬ ((digitChar m).toNat < 32 ∨ (digitChar m).toNat = 127) ∧ (digitChar m).toLower ≠ 'i' ∧ (digitChar m).toLower ≠ 'n' ∧
    (digitChar m).toLower ≠ 'x' ∧ (digitChar m).isDigit = true := by
  unfold digitChar
  have h : m % 10 < 10 := Nat.mod_lt _ (by decide)
  interval_cases (m % 10) <;> decide

theorem natDigits_mem (n : Nat) : ∀ c ∈ natDigits n, ∃ k, c = digitChar k := by
  induction n using Nat.strong_induction_on with
  | _ n ih =>
    rw [natDigits_unfold]
    by_cases h : n < 10
    · simp only [h, if_true, List.mem_singleton]
      intro c hc; exact ⟨n, hc⟩
    · simp only [h, if_false, List.mem_append, List.mem_singleton]
      intro c hc
      rcases hc with hc | hc
      · exact ih (n / 10) (by omega) c hc
      · exact ⟨n, hc⟩

theorem terminator_not_numeric : ∀ d ∈ identTerminators,
    d.isDigit = false ∧ d ≠ '.' ∧ d ≠ 'e' ∧ d ≠ 'E' ∧ d.toLower ≠ '0' ∧ d.toLower ≠ 'x' := by decide +kernel

theorem digitsVal_natDigits (n : Nat) : digitsVal (natDigits n) = n := (natDigits_spec n).2.2

/-- **`strtod` on the decimal digits of a natural number**: all digits are consumed and the value is the binary64 nearest
    to the number -/
theorem strtod_natDigits (n : Nat) (rest : List Char) (hr : Stops rest) :
    strtod (natDigits n ++ rest) = .ok (some (roundDouble (n : Rat), (natDigits n).length)) := by
  obtain ⟨hne, hall, _⟩ := natDigits_spec n
  have hdig : ∀ x ∈ natDigits n, Char.isDigit x = true := fun x hx => List.all_eq_true.mp hall x hx
  obtain ⟨c, t, hct⟩ : ∃ c t, natDigits n = c :: t := by
    cases hd : natDigits n with
    | nil => exact absurd hd hne
    | cons c t => exact ⟨c, t, rfl⟩
  obtain ⟨k, hk⟩ := natDigits_mem n c (by rw [hct]; exact List.mem_cons_self)
  obtain ⟨f1, f2, f3, _, f5⟩ := digitChar_facts k
  rw [← hk] at f1 f2 f3 f5
  -- no `0x`: the second character is a digit or a stop
  have hx : ∀ x ∈ "0x".toList, ∀ d ∈ identTerminators, d.toLower ≠ x := by
    intro x hx d hd
    have := terminator_not_numeric d hd
    have h0 : "0x".toList = ['0', 'x'] := by decide
    rw [h0] at hx
    simp only [List.mem_cons, List.not_mem_nil, or_false] at hx
    rcases hx with rfl | rfl
    · exact this.2.2.2.2.1
    · exact this.2.2.2.2.2
  have h0x : startsCI (natDigits n ++ rest) "0x" = false := by
    cases hc : startsCI (natDigits n ++ rest) "0x" with
    | false => rfl
    | true =>
      have hp := prefix_in_word _ _ _ hr hx (startsCI_prefix _ _ hc)
      have hmem : 'x' ∈ (natDigits n).map Char.toLower := hp.subset (by decide)
      obtain ⟨y, hy, hyx⟩ := List.mem_map.mp hmem
      obtain ⟨j, hj⟩ := natDigits_mem n y hy
      exact absurd hyx (hj ▸ (digitChar_facts j).2.2.2.1)
  have htw : (natDigits n ++ rest).takeWhile Char.isDigit = natDigits n := by
    rcases hr with rfl | ⟨d, r, rfl, hd⟩
    · rw [List.append_nil]; exact takeWhile_all _ _ hdig
    · exact takeWhile_append_stop _ _ _ _ hdig (terminator_not_numeric d (List.contains_iff_mem.mp hd)).1
  have hdrop : (natDigits n ++ rest).drop (natDigits n).length = rest := by simp
  have hinf := startsCI_head_false c (t ++ rest) "infinity" 'i' "nfinity".toList (by decide) f2
  have hin := startsCI_head_false c (t ++ rest) "inf" 'i' "nf".toList (by decide) f2
  have hnan := startsCI_head_false c (t ++ rest) "nan" 'n' "an".toList (by decide) f3
  have hval : digitsVal (natDigits n) = n := digitsVal_natDigits n
  have hdrop' : List.drop (t.length + 1) (c :: (t ++ rest)) = rest := by
    simp
  rw [hct] at h0x htw hval
  rw [hct]
  simp only [List.cons_append] at h0x htw ⊢
  have hr0 : roundDouble 0 = .fin 0 := by simp [roundDouble]
  unfold strtod
  simp only [f1, hinf, hin, hnan, h0x, htw, if_false, Bool.false_and, Bool.false_eq_true, hdrop', List.isEmpty_cons,
    false_and, List.length_cons]
  rcases hr with rfl | ⟨d, r, rfl, hd⟩
  · by_cases hn0 : n = 0
    · subst hn0; simp [hval, hr0]
    · simp [hval, hn0]
      intro h; exfalso; omega
  · have := terminator_not_numeric d (List.contains_iff_mem.mp hd)
    by_cases hn0 : n = 0
    · subst hn0; simp [hval, hr0, this.2.1, this.2.2.1, this.2.2.2.1]
    · simp [hval, hn0, this.2.1, this.2.2.1, this.2.2.2.1]
      intro h; exfalso; omega


theorem digitChar_lex_facts (m : Nat) :
    digitChar m ≠ '\\' ∧ digitChar m ≠ ';' ∧ digitChar m ≠ '\n' ∧ digitChar m ≠ ' ' ∧ digitChar m ≠ '\t' ∧
    digitChar m ≠ Char.ofNat 0 ∧ singleTok (digitChar m) = none := by
  unfold digitChar
  have h : m % 10 < 10 := Nat.mod_lt _ (by decide)
  interval_cases (m % 10) <;> decide

/-- **the decimal digits of a natural number are one constant token of the C++ tokenizer** -/
theorem lexLine_natDigits (n : Nat) (rest : List Char) (hr : Stops rest) (fuel : Nat) :
    lexLine (fuel + 1) (natDigits n ++ rest) = (lexLine fuel rest).map (Raw.cons (roundDouble (n : Rat)) :: ·) := by
  have hst := strtod_natDigits n rest hr
  obtain ⟨hne, _, _⟩ := natDigits_spec n
  obtain ⟨c, t, hct⟩ : ∃ c t, natDigits n = c :: t := by
    cases hd : natDigits n with
    | nil => exact absurd hd hne
    | cons c t => exact ⟨c, t, rfl⟩
  obtain ⟨k, hk⟩ := natDigits_mem n c (by rw [hct]; exact List.mem_cons_self)
  obtain ⟨g1, g2, g3, g4, g5, g6, g7⟩ := digitChar_lex_facts k
  rw [← hk] at g1 g2 g3 g4 g5 g6 g7
  rw [hct] at hst ⊢
  simp only [List.cons_append] at hst ⊢
  rw [lexLine]
  simp only [g1, g2, g3, g4, g5, g6, g7, hst, or_self, if_false, List.length_cons]
  have hd : (c :: (t ++ rest)).drop (t.length + 1) = rest := by simp
  rw [hd]


/-! ### positional decimals `ddd.ddd` -/

theorem digitsVal_acc (b : List Char) : ∀ acc : Nat,
    b.foldl (fun n c => 10 * n + (c.toNat - 48)) acc = acc * 10 ^ b.length + digitsVal b := by
  induction b with
  | nil => intro acc; simp [digitsVal]
  | cons x t ih =>
    intro acc
    simp only [List.foldl_cons, List.length_cons, digitsVal]
    rw [ih, ih (10 * 0 + (x.toNat - 48))]
    ring

theorem digitsVal_append (a b : List Char) : digitsVal (a ++ b) = digitsVal a * 10 ^ b.length + digitsVal b := by
  unfold digitsVal
  rw [List.foldl_append, digitsVal_acc]
  rfl

theorem value_pick (mant L nd : Nat) (hnd : L < nd) :
    (if mant = 0 then Num.fin 0
      else if (0 : Int) - (L : Int) > 400 then Num.inf false
      else if (0 : Int) - (L : Int) + (nd : Int) < -400 then Num.fin 0
      else if (0 : Int) - (L : Int) ≥ 0 then roundDouble ((mant : Rat) * ((10 ^ ((0 : Int) - (L : Int)).toNat : Nat) : Rat))
      else roundDouble ((mant : Rat) / ((10 ^ (-((0 : Int) - (L : Int))).toNat : Nat) : Rat))) =
    roundDouble ((mant : Rat) / (10 : Rat) ^ L) := by
  by_cases h0 : mant = 0
  · subst h0; simp [roundDouble]
  · have h1 : ¬ ((0 : Int) - (L : Int) > 400) := by omega
    have h2 : ¬ ((0 : Int) - (L : Int) + (nd : Int) < -400) := by omega
    simp only [h0, h1, h2, if_false]
    by_cases hL : L = 0
    · subst hL; simp
    · have h3 : ¬ ((0 : Int) - (L : Int) ≥ 0) := by omega
      have h4 : (-((0 : Int) - (L : Int))).toNat = L := by omega
      simp only [h3, if_false, h4]
      push_cast
      rfl

/-- **`strtod` on `ddd.ddd`** (the integer part printed by `natDigits`, any digits after the point): everything is
    consumed, the value is the binary64 nearest to the decimal number -/
theorem strtod_decimal (ip : Nat) (fd : List Char) (hfd : fd.all Char.isDigit = true) (rest : List Char) (hr : Stops rest) :
    strtod (natDigits ip ++ '.' :: (fd ++ rest)) =
      .ok (some (roundDouble ((ip : Rat) + (digitsVal fd : Rat) / (10 : Rat) ^ fd.length), (natDigits ip).length + 1 + fd.length)) := by
  obtain ⟨hne, hall, _⟩ := natDigits_spec ip
  have hdig : ∀ x ∈ natDigits ip, Char.isDigit x = true := fun x hx => List.all_eq_true.mp hall x hx
  have hfdig : ∀ x ∈ fd, Char.isDigit x = true := fun x hx => List.all_eq_true.mp hfd x hx
  obtain ⟨c, t, hct⟩ : ∃ c t, natDigits ip = c :: t := by
    cases hd : natDigits ip with
    | nil => exact absurd hd hne
    | cons c t => exact ⟨c, t, rfl⟩
  obtain ⟨k, hk⟩ := natDigits_mem ip c (by rw [hct]; exact List.mem_cons_self)
  obtain ⟨f1, f2, f3, _, f5⟩ := digitChar_facts k
  rw [← hk] at f1 f2 f3 f5
  -- no `0x`: the second character is a digit or the point
  have h0x : startsCI (natDigits ip ++ '.' :: (fd ++ rest)) "0x" = false := by
    cases hc : startsCI (natDigits ip ++ '.' :: (fd ++ rest)) "0x" with
    | false => rfl
    | true =>
      have hx : ∀ x ∈ "0x".toList, ∀ d ∈ identTerminators, d.toLower ≠ x := by
        intro x hx d hd
        have := terminator_not_numeric d hd
        have h0 : "0x".toList = ['0', 'x'] := by decide
        rw [h0] at hx
        simp only [List.mem_cons, List.not_mem_nil, or_false] at hx
        rcases hx with rfl | rfl
        · exact this.2.2.2.2.1
        · exact this.2.2.2.2.2
      have hp := startsCI_prefix _ _ hc
      have h0 : "0x".toList = ['0', 'x'] := by decide
      rw [h0, hct] at hp
      obtain ⟨e, he⟩ := hp
      cases t with
      | nil =>
        simp only [List.cons_append, List.nil_append, List.map_cons, List.cons.injEq] at he
        exact absurd he.2.1 (by decide)
      | cons y t' =>
        simp only [List.cons_append, List.map_cons, List.cons.injEq] at he
        obtain ⟨j, hj⟩ := natDigits_mem ip y (by rw [hct]; simp)
        exact absurd he.2.1.symm (hj ▸ (digitChar_facts j).2.2.2.1)
  have htw : (natDigits ip ++ '.' :: (fd ++ rest)).takeWhile Char.isDigit = natDigits ip :=
    takeWhile_append_stop _ _ _ _ hdig (by decide)
  have hdrop : List.drop (t.length + 1) (c :: (t ++ '.' :: (fd ++ rest))) = '.' :: (fd ++ rest) := by simp
  have htw2 : (fd ++ rest).takeWhile Char.isDigit = fd := by
    rcases hr with rfl | ⟨d, r, rfl, hd⟩
    · rw [List.append_nil]; exact takeWhile_all _ _ hfdig
    · exact takeWhile_append_stop _ _ _ _ hfdig (terminator_not_numeric d (List.contains_iff_mem.mp hd)).1
  have hdrop2 : List.drop (t.length + 1 + (1 + fd.length)) (c :: (t ++ '.' :: (fd ++ rest))) = rest := by
    have : c :: (t ++ '.' :: (fd ++ rest)) = (c :: t ++ '.' :: fd) ++ rest := by simp
    rw [this]
    have hl : t.length + 1 + (1 + fd.length) = (c :: t ++ '.' :: fd).length := by simp; omega
    rw [hl, List.drop_left]
  have hinf := startsCI_head_false c (t ++ '.' :: (fd ++ rest)) "infinity" 'i' "nfinity".toList (by decide) f2
  have hin := startsCI_head_false c (t ++ '.' :: (fd ++ rest)) "inf" 'i' "nf".toList (by decide) f2
  have hnan := startsCI_head_false c (t ++ '.' :: (fd ++ rest)) "nan" 'n' "an".toList (by decide) f3
  have hval : digitsVal (natDigits ip) = ip := digitsVal_natDigits ip
  have hr0 : roundDouble 0 = .fin 0 := by simp [roundDouble]
  have hmant : ((digitsVal (c :: t ++ fd) : Nat) : Rat) / (10 : Rat) ^ fd.length =
      (ip : Rat) + (digitsVal fd : Rat) / (10 : Rat) ^ fd.length := by
    rw [← hct, digitsVal_append, hval]
    have : ((10 : Rat) ^ fd.length) ≠ 0 := by positivity
    push_cast
    field_simp
  rw [hct] at h0x htw
  rw [hct]
  simp only [List.cons_append] at h0x htw hmant ⊢
  unfold strtod
  simp only [f1, hinf, hin, hnan, h0x, htw, if_false, Bool.false_and, Bool.false_eq_true, hdrop, List.isEmpty_cons,
    false_and, List.length_cons, List.head?_cons, if_true, List.drop_succ_cons, List.drop_zero, htw2, hdrop2]
  have hlen : fd.length < (c :: t ++ fd).length := by simp; omega
  have hfin : ∀ (e : Int × Nat), e = ((0 : Int), 0) →
      (Except.ok (some
        (if digitsVal (c :: t ++ fd) = 0 then Num.fin 0
          else if e.1 - (fd.length : Int) > 400 then Num.inf false
          else if e.1 - (fd.length : Int) + ((c :: t ++ fd).length : Int) < -400 then Num.fin 0
          else if e.1 - (fd.length : Int) ≥ 0 then
            roundDouble ((digitsVal (c :: t ++ fd) : Rat) * ((10 ^ (e.1 - (fd.length : Int)).toNat : Nat) : Rat))
          else roundDouble ((digitsVal (c :: t ++ fd) : Rat) / ((10 ^ (-(e.1 - (fd.length : Int))).toNat : Nat) : Rat)),
          t.length + 1 + (1 + fd.length) + e.2)) : Except Err (Option (Num × Nat))) =
      Except.ok (some (roundDouble ((ip : Rat) + (digitsVal fd : Rat) / (10 : Rat) ^ fd.length), t.length + 1 + 1 + fd.length)) := by
    intro e he
    subst he
    have hm' : ((digitsVal (c :: t ++ fd) : Nat) : Rat) / (10 : Rat) ^ fd.length =
        (ip : Rat) + (digitsVal fd : Rat) / (10 : Rat) ^ fd.length := hmant
    rw [value_pick _ _ _ hlen, hm']
    have : t.length + 1 + (1 + fd.length) + ((0 : Int), 0).2 = t.length + 1 + 1 + fd.length := by simp; omega
    rw [this]
  rcases hr with rfl | ⟨d, r, rfl, hd⟩
  · exact hfin _ rfl
  · have := terminator_not_numeric d (List.contains_iff_mem.mp hd)
    simp only [this.2.2.1, this.2.2.2.1, or_self, if_false]
    exact hfin _ rfl


theorem digitsVal_of_parseDigits (fd : List Char) (fp : Nat) (h : parseDigits fd = some fp) : digitsVal fd = fp := by
  unfold parseDigits at h
  split at h
  · cases h
  · exact Option.some.inj h

/-- a number text starting with a digit of `natDigits`, converted by `strtod` as a whole, is one constant token -/
theorem lexLine_of_strtod (ip : Nat) (tail rest : List Char) (v : Num)
    (hst : strtod (natDigits ip ++ (tail ++ rest)) = .ok (some (v, (natDigits ip).length + tail.length))) (fuel : Nat) :
    lexLine (fuel + 1) (natDigits ip ++ (tail ++ rest)) = (lexLine fuel rest).map (Raw.cons v :: ·) := by
  obtain ⟨hne, _, _⟩ := natDigits_spec ip
  obtain ⟨c, t, hct⟩ : ∃ c t, natDigits ip = c :: t := by
    cases hd : natDigits ip with
    | nil => exact absurd hd hne
    | cons c t => exact ⟨c, t, rfl⟩
  obtain ⟨k, hk⟩ := natDigits_mem ip c (by rw [hct]; exact List.mem_cons_self)
  obtain ⟨g1, g2, g3, g4, g5, g6, g7⟩ := digitChar_lex_facts k
  rw [← hk] at g1 g2 g3 g4 g5 g6 g7
  rw [hct] at hst ⊢
  simp only [List.cons_append] at hst ⊢
  rw [lexLine]
  simp only [g1, g2, g3, g4, g5, g6, g7, hst, or_self, if_false, List.length_cons]
  have hd : (c :: (t ++ (tail ++ rest))).drop (t.length + 1 + tail.length) = rest := by
    have : c :: (t ++ (tail ++ rest)) = (c :: t ++ tail) ++ rest := by simp
    rw [this]
    have hl : t.length + 1 + tail.length = (c :: t ++ tail).length := by simp; omega
    rw [hl, List.drop_left]
  rw [hd]

/-- **the positional decimal text of a non-negative terminating decimal is one constant token**: its value is the
    binary64 nearest to the number -/
theorem lexLine_showPosDecimal (q : Rat) (h0 : 0 ≤ q) (hd : Dec60 q) (rest : List Char) (hr : Stops rest) (fuel : Nat) :
    lexLine (fuel + 1) ((showPosDecimal q).toList ++ rest) = (lexLine fuel rest).map (Raw.cons (roundDouble q) :: ·) := by
  obtain ⟨ip, fp, fd, hw, hfd, hfp, hval⟩ := showPosDecimal_form q h0 hd
  have hst := strtod_decimal ip fd hfd rest hr
  rw [digitsVal_of_parseDigits fd fp hfp, hval] at hst
  rw [hw]
  have e1 : natDigits ip ++ '.' :: fd ++ rest = natDigits ip ++ (('.' :: fd) ++ rest) := by simp
  rw [e1]
  apply lexLine_of_strtod
  simp only [List.cons_append, List.length_cons]
  rw [hst]
  have : (natDigits ip).length + 1 + fd.length = (natDigits ip).length + (fd.length + 1) := by omega
  rw [this]

end LpCpp
