import DimodProofs.BqmHistory

/-! The automatically generated label is fresh (pigeonhole), hence `add_variable()` and `resize(n)` keep the
    labels duplicate-free and refine the corresponding steps on the plain polynomial; `remove_variable()`
    (no argument) removes the last variable.  Core Lean only. -/

namespace Bqm

/-- pigeonhole: a list containing the labels `0, …, n-1` has at least `n` entries -/
theorem length_ge_of_ints (l : List Label) (n : Nat) (h : ∀ i, i < n → Label.int (i : Nat) ∈ l) : n ≤ l.length := by
  induction n generalizing l with
  | zero => omega
  | succ k ih =>
    have hk : Label.int (k : Nat) ∈ l := h k (by omega)
    have hl := List.length_erase_of_mem hk
    have : k ≤ (l.erase (Label.int (k : Nat))).length := by
      apply ih
      intro i hi
      have hne : Label.int (i : Nat) ≠ Label.int (k : Nat) := by
        intro e; injection e with e; omega
      exact (List.mem_erase_of_ne hne).mpr (h i (by omega))
    have hpos : 0 < l.length := List.length_pos_of_mem hk
    omega

theorem least_spec (m : Bqm) (fuel i : Nat)
    (h : ∃ j, i ≤ j ∧ j < i + fuel ∧ Label.int (j : Nat) ∉ m.labels) :
    Label.int ((autoLabel.least m fuel i : Nat)) ∉ m.labels := by
  induction fuel generalizing i with
  | zero => obtain ⟨j, h1, h2, _⟩ := h; omega
  | succ f ih =>
    simp only [autoLabel.least]
    split
    · rename_i hin
      apply ih
      obtain ⟨j, h1, h2, h3⟩ := h
      refine ⟨j, ?_, by omega, h3⟩
      rcases Nat.lt_or_ge i j with hlt | hge
      · omega
      · have : j = i := by omega
        subst this; exact absurd hin h3
    · rename_i hnot; exact hnot

theorem least_congr (m m' : Bqm) (h : m.labels = m'.labels) (fuel i : Nat) :
    autoLabel.least m fuel i = autoLabel.least m' fuel i := by
  induction fuel generalizing i with
  | zero => rfl
  | succ f ih => simp only [autoLabel.least, h, ih]

theorem autoLabel_congr (m m' : Bqm) (h : m.labels = m'.labels) : m.autoLabel = m'.autoLabel := by
  unfold Bqm.autoLabel
  simp only [h, least_congr m m' h]

/-- **the generated label is not a label yet** -/
theorem autoLabel_fresh (m : Bqm) : m.autoLabel ∉ m.labels := by
  unfold Bqm.autoLabel
  simp only []
  split
  · apply least_spec m (m.labels.length + 1) 0
    -- among 0 … length one label is free
    have : ¬ ∀ i, i < m.labels.length + 1 → Label.int (i : Nat) ∈ m.labels := by
      intro hall
      have := length_ge_of_ints m.labels (m.labels.length + 1) hall
      omega
    have hex : ∃ j, j < m.labels.length + 1 ∧ Label.int (j : Nat) ∉ m.labels := by
      cases hd : decide (∃ j, j < m.labels.length + 1 ∧ Label.int (j : Nat) ∉ m.labels) with
      | true => simpa using hd
      | false =>
        exfalso; apply this
        intro i hi
        have hn : ¬ ∃ j, j < m.labels.length + 1 ∧ Label.int (j : Nat) ∉ m.labels := by simpa using hd
        cases hm : decide (Label.int (i : Nat) ∈ m.labels) with
        | true => simpa using hm
        | false => exact absurd ⟨i, hi, by simpa using hm⟩ hn
    obtain ⟨j, hj, hfree⟩ := hex
    exact ⟨j, by omega, by omega, hfree⟩
  · rename_i hnot; exact hnot

theorem autoLabel_indexOf (m : Bqm) : m.indexOf? m.autoLabel = none := (indexOf?_none_iff m _).mpr (autoLabel_fresh m)

/-! ### invariant and refinement for `pushVar`, the auto-labelled `add_variable`, `resize` -/

theorem Inv.pushAuto {m : Bqm} (i : Inv m) : Inv (m.pushVar m.autoLabel) := by
  refine ⟨i.wf.pushVar _, ?_⟩
  show (m.labels ++ [m.autoLabel]).Nodup
  rw [List.nodup_append]
  refine ⟨i.nodup, by simp, ?_⟩
  intro a ha b hb
  simp at hb; subst hb
  intro e; subst e; exact autoLabel_fresh m ha

theorem absL_pushVar {m : Bqm} (h : WF m) (v : Label) (hv : m.indexOf? v = none) : absL (m.pushVar v) = (absL m).ensure v := by
  have s := indexP_spec h v
  have e : (m.indexP v).1 = m.pushVar v := by unfold Bqm.indexP; rw [hv]
  rw [← e]; exact absL_indexP h s

theorem Inv.removeAt {m : Bqm} (i : Inv m) (vi : Nat) (hvi : vi < m.lin.length) : Inv (m.removeAt vi) :=
  ⟨i.wf.removeAt vi hvi, nodup_eraseIdx _ _ i.nodup⟩

theorem nodup_getElem?_inj {α} (l : List α) (hn : l.Nodup) (i j : Nat) (hi : i < l.length) (hj : j < l.length)
    (h : l[i]? = l[j]?) : i = j := by
  induction l generalizing i j with
  | nil => simp at hi
  | cons a t ih =>
    have hat := (List.nodup_cons.mp hn).1
    have hnt := (List.nodup_cons.mp hn).2
    cases i with
    | zero =>
      cases j with
      | zero => rfl
      | succ j' =>
        simp only [List.getElem?_cons_zero, List.getElem?_cons_succ] at h
        exact absurd (List.mem_of_getElem? h.symm) hat
    | succ i' =>
      cases j with
      | zero =>
        simp only [List.getElem?_cons_zero, List.getElem?_cons_succ] at h
        exact absurd (List.mem_of_getElem? h) hat
      | succ j' =>
        simp only [List.getElem?_cons_succ] at h
        have := ih hnt i' j' (by simpa using hi) (by simpa using hj) h
        omega

/-- position of the last label -/
theorem indexOf?_getLast {m : Bqm} (i : Inv m) (l : Label) (hl : m.labels.getLast? = some l) :
    m.indexOf? l = some (m.labels.length - 1) := by
  have hmem : l ∈ m.labels := List.mem_of_getLast? hl
  obtain ⟨k, hk⟩ := indexOf?_isSome_of_mem m l hmem
  have h1 := indexOf?_some hk
  rw [List.getLast?_eq_getElem?] at hl
  -- labels are duplicate-free: two positions holding `l` coincide
  have : k = m.labels.length - 1 := by
    have hlt : m.labels.length - 1 < m.labels.length := by have := h1.1; omega
    exact nodup_getElem?_inj m.labels i.nodup k _ h1.1 hlt (h1.2.trans hl.symm)
  rw [hk, this]

/-- the specification of `resize` on the plain polynomial -/
def LPoly.autoLabel (p : LPoly) : Label := ({ vt := .spin, labels := p.vars, lin := [], adj := [], off := 0 } : Bqm).autoLabel

def LPoly.growTo (k : Nat) : Nat → LPoly → LPoly
  | 0, p => p
  | f + 1, p => if p.vars.length < k then LPoly.growTo k f (p.ensure p.autoLabel) else p

def LPoly.dropLast (p : LPoly) : LPoly := match p.vars.getLast? with | some l => p.removeVariable l | none => p

def LPoly.shrinkTo (k : Nat) : Nat → LPoly → LPoly
  | 0, p => p
  | f + 1, p => if p.vars.length > k then LPoly.shrinkTo k f p.dropLast else p

theorem growTo_refines (k fuel : Nat) {m : Bqm} (i : Inv m) :
    absL (Bqm.growTo k fuel m) = LPoly.growTo k fuel (absL m) ∧ Inv (Bqm.growTo k fuel m) := by
  induction fuel generalizing m with
  | zero => exact ⟨rfl, i⟩
  | succ f ih =>
    simp only [Bqm.growTo, LPoly.growTo]
    have hn : m.n = (absL m).vars.length := by show m.lin.length = m.labels.length; rw [i.wf.labels_len]
    rw [hn]
    split
    · have := ih (i.pushAuto)
      rw [absL_pushVar i.wf _ (autoLabel_indexOf m)] at this
      have e : (absL m).autoLabel = m.autoLabel :=
        (autoLabel_congr m { vt := .spin, labels := m.labels, lin := [], adj := [], off := 0 } rfl).symm
      rw [e]
      exact this
    · exact ⟨rfl, i⟩

theorem removeLast_refines {m : Bqm} (i : Inv m) (hpos : 0 < m.n) :
    absL (m.removeAt (m.n - 1)) = (absL m).dropLast := by
  have hlen : m.labels.length = m.n := i.wf.labels_len
  unfold LPoly.dropLast
  show _ = match m.labels.getLast? with | some l => (absL m).removeVariable l | none => absL m
  cases hl : m.labels.getLast? with
  | none =>
    rw [List.getLast?_eq_getElem?] at hl
    have : m.labels.length - 1 < m.labels.length := by omega
    rw [List.getElem?_eq_getElem this] at hl; cases hl
  | some l =>
    have hk := indexOf?_getLast i l hl
    rw [hlen] at hk
    exact removeAt_refines i.wf i.nodup hk

theorem shrinkTo_refines (k fuel : Nat) {m : Bqm} (i : Inv m) :
    absL (Bqm.shrinkTo k fuel m) = LPoly.shrinkTo k fuel (absL m) ∧ Inv (Bqm.shrinkTo k fuel m) := by
  induction fuel generalizing m with
  | zero => exact ⟨rfl, i⟩
  | succ f ih =>
    simp only [Bqm.shrinkTo, LPoly.shrinkTo]
    have hn : m.n = (absL m).vars.length := by show m.lin.length = m.labels.length; rw [i.wf.labels_len]
    rw [← hn]
    split
    · rename_i hgt
      have hpos : 0 < m.n := by omega
      have := ih (i.removeAt (m.n - 1) (by show m.n - 1 < m.n; omega))
      rw [removeLast_refines i hpos] at this
      exact this
    · exact ⟨rfl, i⟩

/-- `resize(k)`, `k ≥ 0`: grow with generated labels, then drop from the end -/
def LPoly.resize (p : LPoly) (k : Nat) : LPoly := LPoly.shrinkTo k p.vars.length (LPoly.growTo k k p)

theorem resize_refines {m : Bqm} (i : Inv m) (k : Nat) :
    absL (m.resize k).1 = (absL m).resize k ∧ (m.resize k).2 = none ∧ Inv (m.resize k).1 := by
  unfold Bqm.resize LPoly.resize
  have hk : ¬ ((k : Int) < 0) := by omega
  simp only [hk, if_false, Int.toNat_natCast]
  have g := growTo_refines k k i
  have hn : m.n = (absL m).vars.length := by show m.lin.length = m.labels.length; rw [i.wf.labels_len]
  have s := shrinkTo_refines k m.n g.2
  rw [g.1] at s
  rw [← hn]
  exact ⟨s.1, trivial, s.2⟩

/-- `add_variable(None, b)` -/
theorem addVariable_none_refines {m : Bqm} (i : Inv m) (b : Rat) :
    absL (m.addVariable none b) = (absL m).addLinear (absL m).autoLabel b ∧ Inv (m.addVariable none b) := by
  have e : m.autoLabel = (absL m).autoLabel :=
    autoLabel_congr m { vt := .spin, labels := m.labels, lin := [], adj := [], off := 0 } rfl
  show absL (m.addLinear m.autoLabel b) = _ ∧ Inv (m.addLinear m.autoLabel b)
  rw [← e]
  exact ⟨addLinear_refines i.wf _ b, i.addLinear _ b⟩

/-- `remove_variable()` without an argument removes the last variable -/
theorem removeVariable_none_refines {m : Bqm} (i : Inv m) :
    absL (m.removeVariable none).1 = (if (absL m).vars = [] then absL m else (absL m).dropLast) ∧
    ((m.removeVariable none).2 = none ↔ (absL m).vars ≠ []) ∧ Inv (m.removeVariable none).1 := by
  have hlen : m.labels.length = m.n := i.wf.labels_len
  unfold Bqm.removeVariable
  simp only []
  by_cases hn : m.n = 0
  · have hnil : m.labels = [] := List.eq_nil_of_length_eq_zero (by omega)
    simp [hn, absL, hnil, i]
  · have hne : m.labels ≠ [] := by intro e; rw [e] at hlen; simp at hlen; omega
    simp only [hn, if_false]
    refine ⟨?_, by simp [absL, hne], i.removeAt _ (by show m.n - 1 < m.n; omega)⟩
    rw [removeLast_refines i (by omega)]
    simp [absL, hne]

/-! ### the larger fragment: single-term edits + generated labels + resize + pop -/

inductive Edit : Op → Prop
  | basic {op : Op} (h : Basic op) : Edit op
  | addVariableAuto (b : Rat) : Edit (.addVariable none b)
  | resize (k : Int) : Edit (.resize k)
  | removeLast : Edit (.removeVariable none)

def LPoly.stepE (p : LPoly) (op : Op) : LPoly × Bool :=
  match op with
  | .addVariable none b => (p.addLinear p.autoLabel b, true)
  | .resize k => if k < 0 then (p, false) else (p.resize k.toNat, true)
  | .removeVariable none => if p.vars = [] then (p, false) else (p.dropLast, true)
  | op => p.step op

def LPoly.runE (p : LPoly) : List Op → LPoly
  | [] => p
  | op :: t => LPoly.runE (p.stepE op).1 t

theorem step_refinesE {m : Bqm} (i : Inv m) {op : Op} (he : Edit op) :
    absL (m.step .direct op).1 = ((absL m).stepE op).1 ∧
    ((m.step .direct op).2 = none ↔ ((absL m).stepE op).2 = true) ∧
    Inv (m.step .direct op).1 := by
  cases he with
  | basic hb =>
    have s := step_refines i hb
    have e : (absL m).stepE op = (absL m).step op := by cases hb <;> rfl
    rw [e]; exact s
  | addVariableAuto b =>
    have s := addVariable_none_refines i b
    simp only [Bqm.step, Bqm.lift, LPoly.stepE]
    exact ⟨s.1, by simp, s.2⟩
  | resize k =>
    simp only [Bqm.step, LPoly.stepE]
    by_cases hk : k < 0
    · simp [Bqm.resize, hk, i]
    · simp only [hk, if_false]
      have hk' : k = ((k.toNat : Nat) : Int) := by omega
      have s := resize_refines i k.toNat
      rw [← hk'] at s
      exact ⟨s.1, by simp [s.2.1], s.2.2⟩
  | removeLast =>
    have s := removeVariable_none_refines i
    simp only [Bqm.step, Via.tv, Bqm.vRemoveVariable, if_true, LPoly.stepE]
    refine ⟨?_, ?_, s.2.2⟩
    · rw [s.1]; split <;> rfl
    · rw [s.2.1]; split <;> simp [*]

/-- **histories** over the larger fragment -/
theorem history_refinesE {m : Bqm} (i : Inv m) (ops : List Op) (he : ∀ op ∈ ops, Edit op) :
    absL (m.run (ops.map fun op => (Via.direct, op))) = (absL m).runE ops ∧
    Inv (m.run (ops.map fun op => (Via.direct, op))) := by
  induction ops generalizing m with
  | nil => exact ⟨rfl, i⟩
  | cons op t ih =>
    have s := step_refinesE i (he op (by simp))
    simp only [List.map_cons, Bqm.run, LPoly.runE]
    rw [← s.1]
    exact ih s.2.2 (fun o ho => he o (List.mem_cons_of_mem _ ho))

end Bqm
