import DimodModel.RandomGen
import DimodProofs.GenProofs

/-! # C17: the random generators as functions of an explicit draw stream (core Lean only) -/

namespace Rnd
open Pen Gen

def coef {α : Type} : PTerm α → Rat
  | .const c => c
  | .lin _ c => c
  | .quad _ _ c => c

theorem mem_takeS (σ : Stream) (start k : Nat) (c : Rat) : c ∈ takeS σ start k ↔ ∃ i, i < k ∧ c = σ (start + i) := by
  unfold takeS
  simp only [List.mem_map, List.mem_range]
  constructor
  · rintro ⟨i, hi, rfl⟩; exact ⟨i, hi, rfl⟩
  · rintro ⟨i, hi, rfl⟩; exact ⟨i, hi, rfl⟩

theorem takeS_length (σ : Stream) (start k : Nat) : (takeS σ start k).length = k := by simp [takeS]

theorem takeS_congr (σ τ : Stream) (start k : Nat) (h : ∀ i, i < k → σ (start + i) = τ (start + i)) : takeS σ start k = takeS τ start k := by
  unfold takeS
  apply List.map_congr_left
  intro i hi
  exact h i (List.mem_range.1 hi)

/-! ## `uniform`, `randint` -/

/-- a call is on the declared graph -/
def OnGraph (vars : List Label) (edges : List (Label × Label)) : PTerm Label → Prop
  | .const _ => True
  | .lin v _ => v ∈ vars
  | .quad u v _ => (u, v) ∈ edges

theorem fromVectors_onGraph (vars : List Label) (ldata : List Rat) (edges : List (Label × Label)) (qdata : List Rat) (off : Rat) :
    ∀ t ∈ fromVectors vars ldata edges qdata off, OnGraph vars edges t := by
  intro t ht
  unfold fromVectors at ht
  simp only [List.mem_append, List.mem_map, List.mem_singleton] at ht
  rcases ht with (⟨p, hp, rfl⟩ | ⟨p, hp, rfl⟩) | rfl
  · exact (List.of_mem_zip hp).1
  · exact (List.of_mem_zip hp).1
  · trivial

theorem fromVectors_coefs (vars : List Label) (ldata : List Rat) (edges : List (Label × Label)) (qdata : List Rat) (off : Rat) :
    ∀ t ∈ fromVectors vars ldata edges qdata off, coef t ∈ ldata ∨ coef t ∈ qdata ∨ coef t = off := by
  intro t ht
  unfold fromVectors at ht
  simp only [List.mem_append, List.mem_map, List.mem_singleton] at ht
  rcases ht with (⟨p, hp, rfl⟩ | ⟨p, hp, rfl⟩) | rfl
  · exact Or.inl (List.of_mem_zip hp).2
  · exact Or.inr (Or.inl (List.of_mem_zip hp).2)
  · exact Or.inr (Or.inr rfl)

/-- **`uniform` / `randint`: biases only on the declared graph** — every variable of the node list gets one
    linear call, every edge one quadratic call, nothing else is touched -/
theorem graphGen_on_graph (vars : List Label) (edges : List (Label × Label)) (σ : Stream) :
    (∀ t ∈ (graphGen vars edges σ).1, OnGraph vars edges t)
    ∧ ((graphGen vars edges σ).1.filterMap (fun t => match t with | .lin v _ => some v | _ => none)) = vars
    ∧ ((graphGen vars edges σ).1.filterMap (fun t => match t with | .quad u v _ => some (u, v) | _ => none)) = edges := by
  refine ⟨fromVectors_onGraph _ _ _ _ _, ?_, ?_⟩
  · unfold graphGen fromVectors
    simp only [List.filterMap_append, List.filterMap_map]
    have h1 : ∀ (l : List (Label × Rat)), l.filterMap ((fun t => match t with | PTerm.lin v _ => some v | _ => none) ∘ fun p => PTerm.lin p.1 p.2) = l.map (·.1) := by
      intro l; induction l with
      | nil => rfl
      | cons a r ih => simp [List.filterMap_cons, ih]
    have h2 : ∀ (l : List ((Label × Label) × Rat)), l.filterMap ((fun t => match t with | PTerm.lin v _ => some v | _ => none) ∘ fun p => PTerm.quad p.1.1 p.1.2 p.2) = [] := by
      intro l; induction l with
      | nil => rfl
      | cons a r ih => simp [List.filterMap_cons, ih]
    rw [h1, h2]
    simp [List.map_fst_zip, takeS_length]
  · unfold graphGen fromVectors
    simp only [List.filterMap_append, List.filterMap_map]
    have h1 : ∀ (l : List (Label × Rat)), l.filterMap ((fun t => match t with | PTerm.quad u v _ => some (u, v) | _ => none) ∘ fun p => PTerm.lin p.1 p.2) = [] := by
      intro l; induction l with
      | nil => rfl
      | cons a r ih => simp [List.filterMap_cons, ih]
    have h2 : ∀ (l : List ((Label × Label) × Rat)), l.filterMap ((fun t => match t with | PTerm.quad u v _ => some (u, v) | _ => none) ∘ fun p => PTerm.quad p.1.1 p.1.2 p.2) = l.map (·.1) := by
      intro l; induction l with
      | nil => rfl
      | cons a r ih => simp [List.filterMap_cons, ih]
    rw [h1, h2]
    simp [List.map_fst_zip, takeS_length]

/-- **every bias is one of the consumed draws**, hence lies in the declared range whenever the draws do -/
theorem graphGen_coefs_are_draws (vars : List Label) (edges : List (Label × Label)) (σ : Stream) :
    ∀ t ∈ (graphGen vars edges σ).1, ∃ i, i < (graphGen vars edges σ).2 ∧ coef t = σ i := by
  intro t ht
  rcases fromVectors_coefs _ _ _ _ _ t ht with h | h | h
  · obtain ⟨i, hi, h⟩ := (mem_takeS _ _ _ _).1 h
    exact ⟨0 + i, by simp [graphGen]; omega, h⟩
  · obtain ⟨i, hi, h⟩ := (mem_takeS _ _ _ _).1 h
    exact ⟨vars.length + i, by simp [graphGen]; omega, h⟩
  · exact ⟨vars.length + edges.length, by simp [graphGen], h⟩

theorem graphGen_in_range (vars : List Label) (edges : List (Label × Label)) (σ : Stream) (lo hi : Rat)
    (hσ : ∀ i, i < (graphGen vars edges σ).2 → lo ≤ σ i ∧ σ i ≤ hi) :
    ∀ t ∈ (graphGen vars edges σ).1, lo ≤ coef t ∧ coef t ≤ hi := by
  intro t ht
  obtain ⟨i, hi', h⟩ := graphGen_coefs_are_draws vars edges σ t ht
  rw [h]; exact hσ i hi'

/-- **same stream ⇒ same model**: the model depends only on the `len(variables) + len(edges) + 1` scalars consumed -/
theorem graphGen_same_stream (vars : List Label) (edges : List (Label × Label)) (σ τ : Stream)
    (h : ∀ i, i < vars.length + edges.length + 1 → σ i = τ i) : graphGen vars edges σ = graphGen vars edges τ := by
  unfold graphGen
  rw [takeS_congr σ τ 0 vars.length (fun i hi => h _ (by omega)),
    takeS_congr σ τ vars.length edges.length (fun i hi => h _ (by omega)), h _ (by omega)]

/-! ## `ran_r`, `power_r` -/

/-- `rvals[i]` is an integer with `1 ≤ |rvals[i]| ≤ r` for every index `i < 2r` -/
theorem rval_range (r i : Nat) (hi : i < 2 * r) :
    ∃ z : Int, rval r i = (z : Rat) ∧ 1 ≤ z.natAbs ∧ z.natAbs ≤ r := by
  unfold rval
  split
  · exact ⟨(i : Int) - (r : Int), rfl, by omega, by omega⟩
  · exact ⟨(i : Int) - (r : Int) + 1, rfl, by omega, by omega⟩

/-- **`ran_r` / `power_r`**: on the declared graph, linear biases and offset 0, every interaction an integer
    of `{-r, …, -1, 1, …, r}` provided the index draws are `< 2r` (the `choice` contract) -/
theorem ranR_spec (r : Nat) (vars : List Label) (edges : List (Label × Label)) (σ : Stream)
    (bag : List (PTerm Label)) (k : Nat) (h : ranR r vars edges σ = some (bag, k))
    (hσ : ∀ i, i < edges.length → idxOf (σ i) < 2 * r) :
    k = edges.length ∧ 1 ≤ r
    ∧ (∀ t ∈ bag, OnGraph vars edges t)
    ∧ (∀ t ∈ bag, match t with
        | .const c => c = 0
        | .lin _ c => c = 0
        | .quad _ _ c => ∃ z : Int, c = (z : Rat) ∧ 1 ≤ z.natAbs ∧ z.natAbs ≤ r) := by
  unfold ranR at h
  split at h
  · simp at h
  · rename_i hr
    simp only [Option.some.injEq, Prod.mk.injEq] at h
    obtain ⟨rfl, rfl⟩ := h
    refine ⟨rfl, by omega, fromVectors_onGraph _ _ _ _ _, ?_⟩
    intro t ht
    unfold fromVectors at ht
    simp only [List.mem_append, List.mem_map, List.mem_singleton] at ht
    rcases ht with (⟨p, hp, rfl⟩ | ⟨p, hp, rfl⟩) | rfl
    · have := (List.of_mem_zip hp).2
      simp only [List.mem_map] at this
      obtain ⟨_, _, h0⟩ := this
      exact h0.symm
    · have := (List.of_mem_zip hp).2
      simp only [List.mem_map] at this
      obtain ⟨d, hd, h0⟩ := this
      obtain ⟨i, hi, rfl⟩ := (mem_takeS _ _ _ _).1 hd
      simp only
      rw [← h0]
      have := hσ i hi
      simp only [Nat.zero_add]
      exact rval_range r _ this
    · rfl

theorem ranR_same_stream (r : Nat) (vars : List Label) (edges : List (Label × Label)) (σ τ : Stream)
    (h : ∀ i, i < edges.length → σ i = τ i) : ranR r vars edges σ = ranR r vars edges τ := by
  unfold ranR
  rw [takeS_congr σ τ 0 edges.length (fun i hi => by simpa using h i hi)]

/-! ## `doped` -/

/-- **`doped`**: the variables are the ends of the edges (linear bias 0), every interaction is `+1` or `−1`
    (index 0 ↦ `+1`), one draw per edge -/
theorem doped_spec (edges : List (Label × Label)) (σ : Stream) :
    (doped edges σ).2 = edges.length
    ∧ ∀ t ∈ (doped edges σ).1, match t with
        | .const _ => False
        | .lin v c => c = 0 ∧ ∃ e ∈ edges, v = e.1 ∨ v = e.2
        | .quad u v c => (u, v) ∈ edges ∧ (c = 1 ∨ c = -1) := by
  refine ⟨rfl, ?_⟩
  intro t ht
  unfold doped at ht
  simp only [List.mem_flatMap] at ht
  obtain ⟨p, hp, ht⟩ := ht
  have he := (List.of_mem_zip hp).2
  simp only [List.mem_cons, List.not_mem_nil, or_false] at ht
  rcases ht with rfl | rfl | rfl
  · exact ⟨rfl, p.2, he, Or.inl rfl⟩
  · exact ⟨rfl, p.2, he, Or.inr rfl⟩
  · refine ⟨he, ?_⟩
    split
    · exact Or.inl rfl
    · exact Or.inr rfl

theorem doped_same_stream (edges : List (Label × Label)) (σ τ : Stream) (h : ∀ i, i < edges.length → σ i = τ i) :
    doped edges σ = doped edges τ := by
  unfold doped
  congr 1
  have : ∀ (l : List (Nat × (Label × Label))), (∀ p ∈ l, p.1 < edges.length) →
      l.flatMap (fun p => [PTerm.lin p.2.1 0, PTerm.lin p.2.2 0, PTerm.quad p.2.1 p.2.2 (if idxOf (σ p.1) = 0 then 1 else -1)])
      = l.flatMap (fun p => [PTerm.lin p.2.1 0, PTerm.lin p.2.2 0, PTerm.quad p.2.1 p.2.2 (if idxOf (τ p.1) = 0 then 1 else -1)]) := by
    intro l
    induction l with
    | nil => intro _; rfl
    | cons a r ih =>
      intro hl
      simp only [List.flatMap_cons]
      rw [ih (fun p hp => hl p (by simp [hp])), h a.1 (hl a (by simp))]
  exact this _ (fun p hp => List.mem_range.1 (List.of_mem_zip hp).1)

/-! ## the random knapsacks -/

/-- **`random_knapsack`**: item `i` has value `σ i` and weight `σ (n + i)` — in the declared ranges whenever the
    draws are — and the capacity is `⌊Σ weights · ratio⌋` -/
theorem randomKnapsack_spec (n : Nat) (ratio : Rat) (σ : Stream) :
    (randomKnapsack n ratio σ).2 = 2 * n
    ∧ (randomKnapsack n ratio σ).1
        = knapsack (takeS σ 0 n) (takeS σ n n) ((((takeS σ n n).foldl (· + ·) 0 * ratio).floor : Int) : Rat) := ⟨rfl, rfl⟩

theorem randomKnapsack_same_stream (n : Nat) (ratio : Rat) (σ τ : Stream) (h : ∀ i, i < 2 * n → σ i = τ i) :
    randomKnapsack n ratio σ = randomKnapsack n ratio τ := by
  unfold randomKnapsack
  rw [takeS_congr σ τ 0 n (fun i hi => h _ (by omega)), takeS_congr σ τ n n (fun i hi => h _ (by omega))]

theorem randomMultiKnapsack_same_stream (n bins : Nat) (σ τ : Stream) (h : ∀ i, i < 2 * n + bins → σ i = τ i) :
    randomMultiKnapsack n bins σ = randomMultiKnapsack n bins τ := by
  unfold randomMultiKnapsack
  rw [takeS_congr σ τ 0 n (fun i hi => h _ (by omega)), takeS_congr σ τ n n (fun i hi => h _ (by omega)),
    takeS_congr σ τ (2 * n) bins (fun i hi => h _ (by omega))]

theorem randomBinPacking_same_stream (n : Nat) (cap : Rat) (σ τ : Stream) (h : ∀ i, i < n → σ i = τ i) :
    randomBinPacking n cap σ = randomBinPacking n cap τ := by
  unfold randomBinPacking
  rw [takeS_congr σ τ 0 n (fun i hi => h _ (by omega))]

/-- the data of the random knapsacks are draws: in range whenever the draws are -/
theorem takeS_in_range (σ : Stream) (start k : Nat) (lo hi : Rat) (h : ∀ i, i < k → lo ≤ σ (start + i) ∧ σ (start + i) < hi) :
    ∀ c ∈ takeS σ start k, lo ≤ c ∧ c < hi := by
  intro c hc
  obtain ⟨i, hi', rfl⟩ := (mem_takeS _ _ _ _).1 hc
  exact h i hi'

/-! ## `gnm_random_bqm`: the pair selection -/

/-- **selection sampling takes exactly the missing number of pairs**: when `randint(remaining)` keeps its
    contract (`< remaining`) and at most `remaining` pairs are still needed, the loop ends with exactly
    `m − k` further pairs, a sub-list of the remaining pairs in their order -/
theorem gnmLoop_count (m : Nat) (σ : Stream) (pairs : List (Nat × Nat)) (k pos : Nat) (hk : k < m)
    (hneed : m - k ≤ pairs.length)
    (hσ : ∀ j, j < pairs.length → σ (pos + j) < (((pairs.length - j : Nat)) : Rat)) :
    (gnmLoop m σ pairs k pos).1.length = m - k
    ∧ (gnmLoop m σ pairs k pos).1.Sublist pairs
    ∧ pos ≤ (gnmLoop m σ pairs k pos).2 ∧ (gnmLoop m σ pairs k pos).2 ≤ pos + pairs.length := by
  induction pairs generalizing k pos with
  | nil => simp at hneed; omega
  | cons p rest ih =>
    simp only [gnmLoop]
    have hshift : ∀ j, j < rest.length → σ (pos + 1 + j) < (((rest.length - j : Nat)) : Rat) := by
      intro j hj
      have := hσ (j + 1) (by simp; omega)
      have e : pos + (j + 1) = pos + 1 + j := by omega
      have e2 : (p :: rest).length - (j + 1) = rest.length - j := by simp
      rw [e, e2] at this; exact this
    by_cases hsel : σ pos < (((m - k : Nat)) : Rat)
    · rw [if_pos hsel]
      by_cases hlast : k + 1 = m
      · rw [if_pos hlast]
        refine ⟨by simp; omega, ?_, by omega, by simp⟩
        exact List.Sublist.cons_cons p (List.nil_sublist rest)
      · rw [if_neg hlast]
        obtain ⟨h1, h2, h3, h4⟩ := ih (k + 1) (pos + 1) (by omega) (by simp at hneed; omega) hshift
        refine ⟨by simp [h1]; omega, List.Sublist.cons_cons p h2, by omega, by simp; omega⟩
    · rw [if_neg hsel]
      have h0 := hσ 0 (by simp)
      simp only [Nat.add_zero, Nat.sub_zero] at h0
      have hle : (((m - k : Nat)) : Rat) ≤ σ pos := Rat.not_lt.1 hsel
      have hlt : (((m - k : Nat)) : Rat) < (((p :: rest).length : Nat) : Rat) := by grind
      have hnat : m - k < (p :: rest).length := Rat.natCast_lt_natCast.1 hlt
      obtain ⟨h1, h2, h3, h4⟩ := ih k (pos + 1) hk (by simp at hnat; omega) hshift
      exact ⟨h1, List.Sublist.cons p h2, by omega, by simp; omega⟩

theorem sum_range_rev (n : Nat) : 2 * ((List.range n).map (fun i => n - 1 - i)).sum = n * (n - 1) := by
  induction n with
  | zero => rfl
  | succ n ih =>
    rw [List.range_succ, List.map_append, List.sum_append]
    simp only [List.map_cons, List.map_nil, List.sum_cons, List.sum_nil, Nat.add_sub_cancel, Nat.sub_self, Nat.add_zero]
    have e : ((List.range n).map (fun i => n - i)).sum = ((List.range n).map (fun i => n - 1 - i)).sum + n := by
      have : ∀ (l : List Nat), (∀ i ∈ l, i < n) → (l.map (fun i => n - i)).sum = (l.map (fun i => n - 1 - i)).sum + l.length := by
        intro l
        induction l with
        | nil => intro _; rfl
        | cons a r ihr =>
          intro hl
          have ha := hl a (by simp)
          simp only [List.map_cons, List.sum_cons, List.length_cons]
          rw [ihr (fun i hi => hl i (by simp [hi]))]
          omega
      have := this (List.range n) (fun i hi => List.mem_range.1 hi)
      simpa using this
    rw [e]
    cases n with
    | zero => rfl
    | succ n' =>
      simp only [Nat.add_sub_cancel] at ih ⊢
      rw [Nat.mul_add, ih]
      -- (n'+1)*n' + 2*(n'+1) = (n'+2)*(n'+1)
      have : (n' + 1 + 1) * (n' + 1) = (n' + 1) * n' + 2 * (n' + 1) := by
        rw [Nat.mul_comm (n' + 1 + 1) (n' + 1), Nat.mul_add, Nat.mul_add]
        omega
      omega

theorem pairsRow_length (n : Nat) : (pairsRow n).length = n * (n - 1) / 2 := by
  have h : (pairsRow n).length = ((List.range n).map (fun i => n - 1 - i)).sum := by
    unfold pairsRow
    rw [List.length_flatMap]
    congr 1
    apply List.map_congr_left
    intro i hi
    have hi' := List.mem_range.1 hi
    simp only [List.length_map]
    -- #{j < n | i < j} = n - 1 - i
    have : ∀ n, i < n → ((List.range n).filter (fun j => decide (i < j))).length = n - 1 - i := by
      intro n
      induction n with
      | zero => intro h; omega
      | succ n ihn =>
        intro h
        rw [List.range_succ, List.filter_append, List.length_append]
        by_cases hin : i < n
        · rw [ihn hin]; simp [hin]; omega
        · have : i = n := by omega
          subst this
          have : (List.range i).filter (fun j => decide (i < j)) = [] := by
            rw [List.filter_eq_nil_iff]; intro j hj; have := List.mem_range.1 hj; simp; omega
          rw [this]; simp
    exact this n hi'
  have := sum_range_rev n
  rw [h]; omega

theorem pairsRow_spec (n : Nat) (p : Nat × Nat) : p ∈ pairsRow n ↔ (p.1 < p.2 ∧ p.2 < n) := by
  unfold pairsRow
  simp only [List.mem_flatMap, List.mem_range, List.mem_map, List.mem_filter, decide_eq_true_eq]
  constructor
  · rintro ⟨i, hi, j, ⟨hj, hij⟩, rfl⟩; exact ⟨hij, hj⟩
  · rintro ⟨h1, h2⟩; exact ⟨p.1, by omega, p.2, ⟨h2, h1⟩, rfl⟩

/-- **`gnm_random_bqm` has exactly `min(num_interactions, n(n−1)/2)` interactions**, each between two different
    positions `ui < vi < n`, all different, for every stream keeping the `randint` contract -/
theorem gnm_selects_exactly (n numInter : Nat) (σ : Stream)
    (hσ : ∀ j, j < n * (n - 1) / 2 → σ (n + min (n * (n - 1) / 2) numInter + j) < (((n * (n - 1) / 2 - j : Nat)) : Rat)) :
    let m := min (n * (n - 1) / 2) numInter
    let sel := if m = 0 then (([] : List (Nat × Nat)), n + m) else gnmLoop m σ (pairsRow n) 0 (n + m)
    sel.1.length = m ∧ sel.1.Sublist (pairsRow n) ∧ (∀ p ∈ sel.1, p.1 < p.2 ∧ p.2 < n) := by
  intro m sel
  by_cases hm : m = 0
  · simp only [sel, hm, if_true]
    exact ⟨rfl, List.nil_sublist _, by simp⟩
  · simp only [sel, hm, if_false]
    have hlen := pairsRow_length n
    obtain ⟨h1, h2, _, _⟩ := gnmLoop_count m σ (pairsRow n) 0 (n + m) (by omega) (by rw [hlen]; simp only [Nat.sub_zero]; exact Nat.min_le_left _ _)
      (by rw [hlen]; exact hσ)
    refine ⟨by rw [h1]; rfl, h2, fun p hp => (pairsRow_spec n p).1 (h2.subset hp)⟩

theorem gnmLoop_pos (m : Nat) (σ : Stream) (pairs : List (Nat × Nat)) (k pos : Nat) :
    pos ≤ (gnmLoop m σ pairs k pos).2 ∧ (pairs ≠ [] → pos + 1 ≤ (gnmLoop m σ pairs k pos).2) := by
  induction pairs generalizing k pos with
  | nil => simp [gnmLoop]
  | cons p rest ih =>
    simp only [gnmLoop]
    split
    · split
      · simp
      · have := (ih (k + 1) (pos + 1)).1
        simp only; constructor <;> intros <;> omega
    · have := (ih k (pos + 1)).1
      constructor <;> intros <;> omega

theorem gnmLoop_congr (m : Nat) (σ τ : Stream) (pairs : List (Nat × Nat)) (k pos : Nat)
    (h : ∀ i, pos ≤ i → i < (gnmLoop m σ pairs k pos).2 → σ i = τ i) :
    gnmLoop m σ pairs k pos = gnmLoop m τ pairs k pos := by
  induction pairs generalizing k pos with
  | nil => rfl
  | cons p rest ih =>
    have h0 : σ pos = τ pos := h pos (Nat.le_refl _) ((gnmLoop_pos m σ (p :: rest) k pos).2 (by simp))
    simp only [gnmLoop] at h ⊢
    rw [← h0]
    by_cases hsel : σ pos < (((m - k : Nat)) : Rat)
    · simp only [hsel, if_true] at h ⊢
      by_cases hlast : k + 1 = m
      · simp [hlast]
      · simp only [hlast, if_false] at h ⊢
        rw [ih (k + 1) (pos + 1) (fun i hi1 hi2 => h i (by omega) hi2)]
    · simp only [hsel, if_false] at h ⊢
      exact ih k (pos + 1) (fun i hi1 hi2 => h i (by omega) hi2)

/-- **`gnm_random_bqm`: same stream ⇒ same model** — the model depends only on the scalars consumed -/
theorem gnm_same_stream (labels : List Label) (numInter : Nat) (σ τ : Stream)
    (h : ∀ i, i < (gnm labels numInter σ).2 → σ i = τ i) : gnm labels numInter σ = gnm labels numInter τ := by
  unfold gnm at h ⊢
  simp only at h ⊢
  generalize hn : labels.length = n at h ⊢
  generalize hm : min (n * (n - 1) / 2) numInter = m at h ⊢
  have hsel : (if m = 0 then (([] : List (Nat × Nat)), n + m) else gnmLoop m σ (pairsRow n) 0 (n + m))
      = (if m = 0 then (([] : List (Nat × Nat)), n + m) else gnmLoop m τ (pairsRow n) 0 (n + m)) := by
    by_cases hm0 : m = 0
    · simp [hm0]
    · simp only [hm0, if_false] at h ⊢
      exact gnmLoop_congr m σ τ _ 0 (n + m) (fun i _ hi2 => h i (by omega))
  have hge : n + m ≤ (if m = 0 then (([] : List (Nat × Nat)), n + m) else gnmLoop m σ (pairsRow n) 0 (n + m)).2 := by
    by_cases hm0 : m = 0
    · simp [hm0]
    · simp only [hm0, if_false]; exact (gnmLoop_pos m σ _ 0 (n + m)).1
  rw [← hsel]
  rw [takeS_congr σ τ 0 n (fun i hi => h _ (by omega)), takeS_congr σ τ n m (fun i hi => h _ (by omega)),
    h _ (by omega)]

/-- **every set of `m − k` of the remaining pairs is reachable**: for each sub-list `T` of the pairs with the
    right length there are draws within the `randint` contract (`d j < remaining at step j`) for which the loop
    selects exactly `T` — the pair selection really depends on the stream (D39: with the loop bounded by
    `num_interactions` instead of the number of pairs the first `m` pairs were always taken) -/
theorem gnmLoop_reachable (m : Nat) (pairs T : List (Nat × Nat)) (hT : T.Sublist pairs) (k : Nat) (hk : k < m)
    (hlen : T.length = m - k) :
    ∃ d : List Nat, d.length = pairs.length ∧ (∀ j, j < pairs.length → d.getD j 0 < pairs.length - j)
      ∧ ∀ (σ : Stream) (pos : Nat), (∀ j, j < pairs.length → σ (pos + j) = ((d.getD j 0 : Nat) : Rat)) →
          (gnmLoop m σ pairs k pos).1 = T := by
  induction hT generalizing k with
  | slnil => simp at hlen; omega
  | @cons T rest a hsub ih =>
    obtain ⟨d, hd1, hd2, hd3⟩ := ih k hk hlen
    refine ⟨rest.length :: d, by simp [hd1], ?_, ?_⟩
    · intro j hj
      cases j with
      | zero => simp
      | succ j => simp only [List.getD_cons_succ, List.length_cons]; have := hd2 j (by simpa using hj); omega
    · intro σ pos hσ
      have h0 := hσ 0 (by simp)
      simp only [Nat.add_zero, List.getD_cons_zero] at h0
      have hle : T.length ≤ rest.length := hsub.length_le
      have hns : ¬ (σ pos < (((m - k : Nat)) : Rat)) := by
        rw [h0]; intro hlt
        have := Rat.natCast_lt_natCast.1 hlt
        omega
      simp only [gnmLoop, hns, if_false]
      apply hd3 σ (pos + 1)
      intro j hj
      have := hσ (j + 1) (by simpa using hj)
      simp only [List.getD_cons_succ] at this
      rw [← this]; congr 1; omega
  | @cons_cons T rest a hsub ih =>
    simp only [List.length_cons] at hlen
    by_cases hlast : k + 1 = m
    · have hT0 : T = [] := List.length_eq_zero_iff.1 (by omega)
      subst hT0
      refine ⟨List.replicate (rest.length + 1) 0, by simp, ?_, ?_⟩
      · intro j hj
        simp only [List.length_cons] at hj ⊢
        rw [List.getD_eq_getElem?_getD, List.getElem?_replicate]
        simp [hj]; omega
      · intro σ pos hσ
        have h0 := hσ 0 (by simp)
        simp only [Nat.add_zero] at h0
        have hz : (List.replicate (rest.length + 1) 0).getD 0 0 = 0 := by simp
        rw [hz] at h0
        have hs : σ pos < (((m - k : Nat)) : Rat) := by
          rw [h0]
          have : ((0 : Nat) : Rat) < (((m - k : Nat)) : Rat) := Rat.natCast_lt_natCast.2 (by omega)
          exact this
        simp only [gnmLoop, hs, if_true, hlast]
    · obtain ⟨d, hd1, hd2, hd3⟩ := ih (k + 1) (by omega) (by omega)
      refine ⟨0 :: d, by simp [hd1], ?_, ?_⟩
      · intro j hj
        cases j with
        | zero => simp
        | succ j => simp only [List.getD_cons_succ, List.length_cons]; have := hd2 j (by simpa using hj); omega
      · intro σ pos hσ
        have h0 := hσ 0 (by simp)
        simp only [Nat.add_zero, List.getD_cons_zero] at h0
        have hs : σ pos < (((m - k : Nat)) : Rat) := by
          rw [h0]
          have : ((0 : Nat) : Rat) < (((m - k : Nat)) : Rat) := Rat.natCast_lt_natCast.2 (by omega)
          exact this
        simp only [gnmLoop, hs, if_true, hlast, if_false]
        congr 1
        apply hd3 σ (pos + 1)
        intro j hj
        have := hσ (j + 1) (by simpa using hj)
        simp only [List.getD_cons_succ] at this
        rw [← this]; congr 1; omega

/-! ## `gnp_random_bqm`: which pairs exist -/

theorem gnpRows_mem (n : Nat) (p : Rat) (σ : Stream) (rows pos : Nat) (hr : rows ≤ n) (e : Nat × Nat)
    (h : e ∈ gnpRows n p σ rows pos) : n - rows ≤ e.1 ∧ e.1 < e.2 ∧ e.2 < n := by
  induction rows generalizing pos with
  | zero => simp [gnpRows] at h
  | succ rows ih =>
    simp only [gnpRows, List.mem_append, List.mem_map, List.mem_filter, List.mem_range, decide_eq_true_eq] at h
    rcases h with ⟨i, ⟨hi, _⟩, rfl⟩ | h
    · simp only; omega
    · have := ih (pos + (n - (n - (rows + 1)) - 1)) (by omega) h
      omega

/-- no pair exists when no draw is below `p` (`p = 0` with draws in `[0, 1)`) -/
theorem gnpRows_none (n : Nat) (p : Rat) (σ : Stream) (h : ∀ i, ¬ σ i < p) (rows pos : Nat) : gnpRows n p σ rows pos = [] := by
  induction rows generalizing pos with
  | zero => rfl
  | succ rows ih =>
    simp only [gnpRows, ih, List.append_nil]
    rw [List.map_eq_nil_iff, List.filter_eq_nil_iff]
    intro i _; simp [h]

/-- every pair exists when every draw is below `p` (`p = 1` with draws in `[0, 1)`) -/
theorem gnpRows_all (n : Nat) (p : Rat) (σ : Stream) (h : ∀ i, σ i < p) (rows pos : Nat) (hr : rows ≤ n) (e : Nat × Nat) :
    e ∈ gnpRows n p σ rows pos ↔ (n - rows ≤ e.1 ∧ e.1 < e.2 ∧ e.2 < n) := by
  constructor
  · exact gnpRows_mem n p σ rows pos hr e
  · induction rows generalizing pos with
    | zero => intro h'; omega
    | succ rows ih =>
      intro h'
      simp only [gnpRows, List.mem_append, List.mem_map, List.mem_filter, List.mem_range, decide_eq_true_eq]
      by_cases hv : e.1 = n - (rows + 1)
      · left
        refine ⟨e.2 - e.1 - 1, ⟨by omega, h _⟩, ?_⟩
        apply Prod.ext
        · simp only; omega
        · simp only; omega
      · right
        exact ih _ (by omega) (by omega)

theorem gnpRows_congr (n : Nat) (p : Rat) (σ τ : Stream) (rows pos : Nat) (hr : rows ≤ n)
    (h : ∀ i, pos ≤ i → i < pos + rows * n → σ i = τ i) : gnpRows n p σ rows pos = gnpRows n p τ rows pos := by
  induction rows generalizing pos with
  | zero => rfl
  | succ rows ih =>
    simp only [gnpRows]
    have hcnt : n - (n - (rows + 1)) - 1 = rows := by omega
    rw [hcnt]
    have e1 : (List.range rows).filter (fun i => decide (σ (pos + i) < p)) = (List.range rows).filter (fun i => decide (τ (pos + i) < p)) := by
      apply List.filter_congr
      intro i hi
      have hi' := List.mem_range.1 hi
      have hb : pos + i < pos + (rows + 1) * n := by
        have : rows + 1 ≤ (rows + 1) * n := Nat.le_mul_of_pos_right _ (by omega)
        omega
      rw [h (pos + i) (by omega) hb]
    rw [e1, ih (pos + rows) (by omega) (fun i hi1 hi2 => h i (by omega) (by
      have : (rows + 1) * n = rows * n + n := by rw [Nat.add_mul]; omega
      omega))]

end Rnd
