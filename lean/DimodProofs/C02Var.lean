import DimodProofs.C02Convert

/-! # C02 — per-variable vartype changes of QM and CQM (`substitute_variable` on one variable of every expression) -/

open Finset

namespace En

variable {R : Type} [CommRing R]

/-- energies only look at the sample positions of the model's variables -/
theorem QMB.energy_congr (m : QMB R) (hm : m.WF) (x x' : Nat → R) (h : ∀ u, u < m.n → x u = x' u) :
    m.energy x = m.energy x' := by
  rw [QMB.energy_eq_evalR m hm, QMB.energy_eq_evalR m hm]
  exact evalR_congr _ _ _ _ _ _ _ _ _ rfl (fun _ _ => rfl) (fun _ _ _ _ => rfl) h

namespace Expr

theorem localOf_go_some (g : Nat) (l : List Nat) (k i : Nat) (h : localOf?.go g l k = some i) :
    k ≤ i ∧ l[i - k]? = some g := by
  induction l generalizing k with
  | nil => simp [localOf?.go] at h
  | cons x xs ih =>
    simp only [localOf?.go] at h
    by_cases hx : x = g
    · simp only [hx, if_true, Option.some.injEq] at h
      subst h; simp [hx]
    · simp only [hx, if_false] at h
      obtain ⟨h1, h2⟩ := ih (k+1) h
      refine ⟨by omega, ?_⟩
      have : i - k = (i - (k+1)) + 1 := by omega
      rw [this]; simpa using h2

theorem localOf_go_none (g : Nat) (l : List Nat) (k : Nat) (h : localOf?.go g l k = none) : g ∉ l := by
  induction l generalizing k with
  | nil => simp
  | cons x xs ih =>
    simp only [localOf?.go] at h
    by_cases hx : x = g
    · simp [hx] at h
    · simp only [hx, if_false] at h
      simp only [List.mem_cons, not_or]
      exact ⟨fun e => hx e.symm, ih (k+1) h⟩

theorem localOf_some (e : Expr R) (g i : Nat) (h : e.localOf? g = some i) : e.vars[i]? = some g := by
  have := (localOf_go_some g e.vars 0 i h).2
  simpa using this

theorem localOf_none (e : Expr R) (g : Nat) (h : e.localOf? g = none) : g ∉ e.vars :=
  localOf_go_none g e.vars 0 h

/-- invariant of an expression: well-formed base model, one global index per local variable, no repetition -/
structure WF (e : Expr R) : Prop where
  qb : e.qb.WF
  len : e.vars.length = e.qb.n
  nodup : e.vars.Nodup

theorem getD_ne_of_nodup (e : Expr R) (he : e.WF) (i j : Nat) (hi : i < e.vars.length) (hj : j < e.vars.length)
    (hij : j ≠ i) : e.vars.getD j 0 ≠ e.vars.getD i 0 := by
  intro h
  simp only [List.getD_eq_getElem?_getD, List.getElem?_eq_getElem hi, List.getElem?_eq_getElem hj, Option.getD_some] at h
  exact hij ((List.Nodup.getElem_inj_iff he.nodup).mp h)

/-- **`substVar_eval` for an expression of a CQM**: substituting for the global variable `g` changes the
    expression exactly as `x g = mult · y g + c` does; an expression that does not mention `g` is untouched -/
theorem substituteVariable_energy (e : Expr R) (he : e.WF) (g : Nat) (mult c : R) (y : Nat → R) :
    (e.substituteVariable g mult c).energyCpp y
      = e.energyCpp (fun u => if u = g then mult * y g + c else y u) := by
  unfold substituteVariable energyCpp
  cases h : e.localOf? g with
  | none =>
    have hg := localOf_none e g h
    simp only []
    apply QMB.energy_congr e.qb he.qb
    intro u hu
    have hu' : u < e.vars.length := by rw [he.len]; exact hu
    have : e.vars.getD u 0 ≠ g := by
      intro heq
      apply hg
      rw [← heq, List.getD_eq_getElem?_getD, List.getElem?_eq_getElem hu']
      exact List.getElem_mem hu'
    show y (e.vars.getD u 0) = if e.vars.getD u 0 = g then mult * y g + c else y (e.vars.getD u 0)
    rw [if_neg this]
  | some i =>
    have hi := localOf_some e g i h
    have hil : i < e.vars.length := by
      rcases Nat.lt_or_ge i e.vars.length with h' | h'
      · exact h'
      · rw [List.getElem?_eq_none h'] at hi; cases hi
    have hig : e.vars.getD i 0 = g := by
      rw [List.getD_eq_getElem?_getD, hi]; rfl
    simp only []
    rw [QMB.substituteVariable_energy e.qb he.qb i (by rw [← he.len]; exact hil)]
    apply QMB.energy_congr e.qb he.qb
    intro u hu
    have hu' : u < e.vars.length := by rw [he.len]; exact hu
    show (if u = i then mult * y (e.vars.getD i 0) + c else y (e.vars.getD u 0))
        = if e.vars.getD u 0 = g then mult * y g + c else y (e.vars.getD u 0)
    by_cases hui : u = i
    · subst hui; rw [if_pos rfl, if_pos hig, hig]
    · have := getD_ne_of_nodup e he i u hil hu' hui
      rw [hig] at this
      rw [if_neg hui, if_neg this]

end Expr

/-! ## QM -/

namespace Qm

/-- **QM `change_vartype(vartype, v)`**, generated constants: SPIN → BINARY (and SPIN → INTEGER, which goes through
    BINARY) is `s_v = 2·x_v − 1`; BINARY → SPIN is `x_v = (s_v + 1)/2`; BINARY → INTEGER and no-ops keep the polynomial -/
theorem changeVartype_energy (m : Qm Rat) (hm : m.qb.WF) (v : Nat) (hv : v < m.qb.n) (vt : VT4) (m' : Qm Rat)
    (h : m.changeVartype vt v = some m') (y : Nat → Rat) :
    let src := (m.info[v]?.map (·.vt)).getD .binary
    (src = .spin → vt = .binary ∨ vt = .integer →
        m'.qb.energy y = m.qb.energy (fun u => if u = v then 2 * y v - 1 else y u)) ∧
    (src = .binary → vt = .spin →
        m'.qb.energy y = m.qb.energy (fun u => if u = v then (y v + 1) / 2 else y u)) ∧
    ((src = vt ∨ (src = .binary ∧ vt = .integer)) → m'.qb = m.qb) := by
  intro src
  unfold changeVartype changeVartypeWith at h
  simp only [qmTable] at h
  refine ⟨?_, ?_, ?_⟩
  · intro hs hvt
    have hs' : (m.info[v]?.map (·.vt)).getD .binary = .spin := hs
    rcases hvt with rfl | rfl
    · simp only [hs', reduceCtorEq, if_false, and_self, if_true, Option.some.injEq] at h
      subst h
      simp only []
      rw [QMB.substituteVariable_energy m.qb hm v hv]
      congr 1; funext u
      by_cases hu : u = v
      · simp only [hu, if_true, Generated.Vartype.qmToBinary]; ring
      · simp [hu]
    · simp only [hs', reduceCtorEq, if_false, and_false, and_self, if_true, Option.some.injEq] at h
      subst h
      simp only []
      rw [QMB.substituteVariable_energy m.qb hm v hv]
      congr 1; funext u
      by_cases hu : u = v
      · simp only [hu, if_true, Generated.Vartype.qmToBinary]; ring
      · simp [hu]
  · intro hs hvt
    have hs' : (m.info[v]?.map (·.vt)).getD .binary = .binary := hs
    subst hvt
    simp only [hs', reduceCtorEq, if_false, and_false, false_and, and_self, if_true, Option.some.injEq] at h
    subst h
    simp only []
    rw [QMB.substituteVariable_energy m.qb hm v hv]
    congr 1; funext u
    by_cases hu : u = v
    · simp only [hu, if_true, Generated.Vartype.qmToSpin]; ring
    · simp [hu]
  · intro hcase
    rcases hcase with hs | ⟨hs, hvt⟩
    · have hs' : (m.info[v]?.map (·.vt)).getD .binary = vt := hs
      simp only [hs', if_true, Option.some.injEq] at h
      rw [← h]
    · have hs' : (m.info[v]?.map (·.vt)).getD .binary = .binary := hs
      subst hvt
      simp only [hs', reduceCtorEq, if_false, and_false, false_and, and_self, if_true, Option.some.injEq] at h
      rw [← h]

end Qm

/-! ## CQM -/

namespace CqmC

/-- every expression of the model is well-formed -/
def WF (m : CqmC R) : Prop := m.obj.WF ∧ ∀ k ∈ m.cons, k.e.WF

/-- `ConstrainedQuadraticModel::substitute_variable`: objective and every constraint left-hand side change as
    `x v = mult · y v + c` does (expressions that do not mention `v` are untouched); sense, rhs, weight, penalty
    and the number and order of constraints are untouched -/
theorem substituteVariable_spec (m : CqmC R) (hm : m.WF) (v : Nat) (mult c : R) (y : Nat → R) :
    let m' := m.substituteVariable v mult c
    m'.obj.energyCpp y = m.obj.energyCpp (fun u => if u = v then mult * y v + c else y u) ∧
    m'.cons.length = m.cons.length ∧
    ∀ i (hi : i < m.cons.length) (hi' : i < m'.cons.length),
      m'.cons[i].e.energyCpp y = m.cons[i].e.energyCpp (fun u => if u = v then mult * y v + c else y u) ∧
      m'.cons[i].sense = m.cons[i].sense ∧ m'.cons[i].rhs = m.cons[i].rhs ∧
      m'.cons[i].weight = m.cons[i].weight ∧ m'.cons[i].quadPenalty = m.cons[i].quadPenalty := by
  intro m'
  refine ⟨Expr.substituteVariable_energy m.obj hm.1 v mult c y, by simp [m', substituteVariable, mapExprs], ?_⟩
  intro i hi hi'
  have : m'.cons[i] = { m.cons[i] with e := m.cons[i].e.substituteVariable v mult c } := by
    simp [m', substituteVariable, mapExprs]
  rw [this]
  exact ⟨Expr.substituteVariable_energy _ (hm.2 _ (List.getElem_mem hi)) v mult c y, rfl, rfl, rfl, rfl⟩

end CqmC

end En

/-! ## iterating: the invariant is preserved, several variables can be converted one after the other -/

namespace En

variable {R : Type} [CommRing R]

theorem Expr.WF_substituteVariable (e : Expr R) (he : e.WF) (g : Nat) (mult c : R) :
    (e.substituteVariable g mult c).WF := by
  unfold Expr.substituteVariable
  cases h : e.localOf? g with
  | none => exact he
  | some i =>
    have hi := Expr.localOf_some e g i h
    have hil : i < e.vars.length := by
      rcases Nat.lt_or_ge i e.vars.length with h' | h'
      · exact h'
      · rw [List.getElem?_eq_none h'] at hi; cases hi
    have hin : i < e.qb.n := by rw [← he.len]; exact hil
    exact ⟨QMB.WF_substituteVariable e.qb he.qb i hin mult c,
           by simp only []; rw [QMB.n_substituteVariable e.qb he.qb]; exact he.len, he.nodup⟩

theorem CqmC.WF_substituteVariable (m : CqmC R) (hm : m.WF) (v : Nat) (mult c : R) :
    (m.substituteVariable v mult c).WF := by
  refine ⟨Expr.WF_substituteVariable m.obj hm.1 v mult c, ?_⟩
  intro k hk
  simp only [CqmC.substituteVariable, CqmC.mapExprs, List.mem_map] at hk
  obtain ⟨k0, hk0, rfl⟩ := hk
  exact Expr.WF_substituteVariable k0.e (hm.2 k0 hk0) v mult c

/-- substituting for several distinct variables one after the other (what `spin_to_binary` does: every SPIN variable
    in turn): each of them is replaced by `mult · y + c`, every other variable is untouched -/
theorem Expr.substituteMany_energy (e : Expr R) (he : e.WF) (vs : List Nat) (hnd : vs.Nodup) (mult c : R) (y : Nat → R) :
    (vs.foldl (fun e v => e.substituteVariable v mult c) e).energyCpp y
      = e.energyCpp (fun u => if u ∈ vs then mult * y u + c else y u) := by
  induction vs generalizing e with
  | nil => simp
  | cons v rest ih =>
    have hnd' := (List.nodup_cons.mp hnd).2
    have hv := (List.nodup_cons.mp hnd).1
    simp only [List.foldl_cons]
    rw [ih _ (Expr.WF_substituteVariable e he v mult c) hnd', Expr.substituteVariable_energy e he v mult c]
    congr 1
    funext u
    by_cases huv : u = v
    · subst huv; simp [hv]
    · by_cases hur : u ∈ rest <;> simp [huv, hur]

end En
