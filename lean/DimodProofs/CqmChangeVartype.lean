import DimodModel.CqmChangeVartype
import DimodProofs.NoUBCqm

/-! `ConstrainedQuadraticModel::change_vartype` makes no failing vector access on a well-formed model with `v` in range and
    keeps the model well-formed, for every source / target vartype (also the unsupported ones, which throw). -/

namespace CqmP
open Cqm

theorem vt_len_setVartype (m : Cqm) (v : Nat) (t : VT4) : (m.cstep (.setVartype v t)).vt.length = m.vt.length := by
  show (Bqm.modifyAt m.vt v _).length = _
  exact Bqm.length_modifyAt _ _ _

theorem preAll_changeVartype {m : Cqm} (src tgt : VT4) (v : Nat) (hv : v < m.vt.length) (ops : List COp)
    (h : changeVartypeOps src tgt v = some ops) : PreAll m ops := by
  unfold changeVartypeOps at h
  split at h
  · cases h; exact trivial
  · split at h
    · cases h
      exact ⟨trivial, hv, hv, hv, trivial⟩
    · cases h
      exact ⟨trivial, hv, hv, hv, trivial⟩
    · cases h
      refine ⟨trivial, hv, hv, hv, ?_, trivial⟩
      show v < (Cqm.cstep _ (.setVartype v .binary)).vt.length
      rw [vt_len_setVartype]; exact hv
    · cases h
      exact ⟨hv, trivial⟩
    · cases h

theorem changeVartypeC?_eq {m : Cqm} (w : CqmCWF m) (t : VT4) (v : Nat) (hv : v < m.vt.length) :
    m.changeVartypeC? t v = some (m.changeVartypeC t v) ∧ CqmCWF (m.changeVartypeC t v).1 := by
  unfold changeVartypeC? changeVartypeC
  rw [List.getElem?_eq_getElem hv]
  have e : m.vt.getD v .binary = m.vt[v] := by simp [List.getD_eq_getElem?_getD, List.getElem?_eq_getElem hv]
  rw [e]
  simp only []
  cases h : changeVartypeOps m.vt[v] t v with
  | none => exact ⟨rfl, w⟩
  | some ops =>
    have r := crun?_eq ops w (preAll_changeVartype _ t v hv ops h)
    simp only [r.1, Option.map_some]
    exact ⟨trivial, r.2⟩

end CqmP
