import DimodProofs.Equality

/-! Property C18: `==` / `!=` on the mapping views (`linear`, `adj`, `adj[v]`, `quadratic`) as mapping equality, and the
    operators with a number on either side. -/

namespace Eqm
open QModel

/-- `Quadratic.__eq__` (same size, every interaction of the other found here with an equal bias) is equality of the
    interaction sets with their biases -/
theorem quadraticEq_iff {a b : QModel} (ha : WF a) (hb : WF b) :
    quadraticEq a b = true ↔ ∀ u v, quadLookup a.quad u v = quadLookup b.quad u v := by
  unfold quadraticEq
  rw [Bool.and_eq_true, decide_eq_true_eq, List.all_eq_true]
  constructor
  · intro ⟨hlen, hall⟩
    have hall' : ∀ q ∈ b.quad, quadLookup a.quad q.1 q.2.1 = some q.2.2 := by
      intro q hq; have := hall q hq; simpa using this
    have hsub : b.quad.map pairOf ⊆ a.quad.map pairOf := by
      intro z hz
      obtain ⟨q, hq', rfl⟩ := List.mem_map.mp hz
      exact (quadLookup_isSome_iff a.quad q.1 q.2.1).mp ⟨_, hall' q hq'⟩
    have hperm : List.Perm (b.quad.map pairOf) (a.quad.map pairOf) :=
      (List.subperm_of_subset hb.pairs hsub).perm_of_length_le (by simp [hlen])
    intro u v
    cases hbq : quadLookup b.quad u v with
    | some y =>
      rcases quadLookup_some_mem hbq with hm | hm
      · exact hall' _ hm
      · have := hall' _ hm
        simp only [] at this
        rw [quadLookup_symm]; exact this
    | none =>
      cases haq : quadLookup a.quad u v with
      | none => rfl
      | some x =>
        exfalso
        have h1 : s(u, v) ∈ a.quad.map pairOf := (quadLookup_isSome_iff a.quad u v).mp ⟨x, haq⟩
        have h2 : s(u, v) ∈ b.quad.map pairOf := hperm.mem_iff.mpr h1
        obtain ⟨y, hy⟩ := (quadLookup_isSome_iff b.quad u v).mpr h2
        rw [hbq] at hy; cases hy
  · intro h
    refine ⟨quad_length_of_canon ha hb h, ?_⟩
    intro q hq
    obtain ⟨u, v, x⟩ := q
    have := quadLookup_of_mem hb.pairs hq
    simp only [decide_eq_true_eq]
    rw [h u v]; exact this

/-- `m.adj[v] == m'.adj[v]`: the same neighbours with the same biases -/
theorem nbhEq_iff {a b : QModel} (ha : WF a) (hb : WF b) (v : Label) :
    dictEq (a.nbh v) (b.nbh v) = true ↔ ∀ w, quadLookup a.quad v w = quadLookup b.quad v w := by
  rw [dictEq_iff (nbh_keys_nodup a ha.pairs v) (nbh_keys_nodup b hb.pairs v)]
  apply forall_congr'; intro w
  rw [lookup_nbh, lookup_nbh]

/-- `a.adj == b.adj`: the same variables and the same interactions with the same biases -/
theorem adjEq_iff_sym {a b : QModel} (ha : WF a) (hb : WF b) :
    adjEq a b = true ↔ (∀ v, v ∈ a.vars ↔ v ∈ b.vars) ∧ ∀ u v, quadLookup a.quad u v = quadLookup b.quad u v := by
  rw [adjEq_iff ha hb]
  constructor
  · intro ⟨hlen, h⟩
    have hsub : a.vars ⊆ b.vars := fun v hv => (h v hv).1
    have hperm : List.Perm a.vars b.vars := (List.subperm_of_subset ha.nodup hsub).perm_of_length_le (by rw [hlen])
    refine ⟨fun v => hperm.mem_iff, ?_⟩
    intro u v
    by_cases hu : u ∈ a.vars
    · exact (h u hu).2 v
    · rw [quad_none_of_not_mem ha hu, quad_none_of_not_mem hb (fun hb' => hu (hperm.mem_iff.mpr hb'))]
  · intro ⟨hl, hq⟩
    exact ⟨length_of_labels ha hb hl, fun v hv => ⟨(hl v).mp hv, fun w => hq v w⟩⟩

/-- what each mapping equality compares, in canonical terms -/
def ViewCanon (k : VKind) (a b : QModel) : Prop :=
  match k with
  | .linear => ∀ v, lookup a.linAssoc v = lookup b.linAssoc v
  | .adj => (∀ v, v ∈ a.vars ↔ v ∈ b.vars) ∧ ∀ u v, quadLookup a.quad u v = quadLookup b.quad u v
  | .quadratic => ∀ u v, quadLookup a.quad u v = quadLookup b.quad u v
  | .nbh x => ∀ w, quadLookup a.quad x w = quadLookup b.quad x w

theorem viewEq_iff (k : VKind) {a b : QModel} (ha : WF a) (hb : WF b) : viewEq k a b = true ↔ ViewCanon k a b := by
  cases k with
  | linear => exact linearEq_iff ha hb
  | adj => exact adjEq_iff_sym ha hb
  | quadratic => exact quadraticEq_iff ha hb
  | nbh v => exact nbhEq_iff ha hb v

theorem viewCanon_symm (k : VKind) {a b : QModel} (h : ViewCanon k a b) : ViewCanon k b a := by
  cases k with
  | linear => exact fun v => (h v).symm
  | adj => exact ⟨fun v => (h.1 v).symm, fun u v => (h.2 u v).symm⟩
  | quadratic => exact fun u v => (h u v).symm
  | nbh x => exact fun w => (h w).symm

theorem viewEq_symm (k : VKind) {a b : QModel} (ha : WF a) (hb : WF b) : viewEq k a b = viewEq k b a := by
  rw [Bool.eq_iff_iff, viewEq_iff k ha hb, viewEq_iff k hb ha]
  exact ⟨viewCanon_symm k, viewCanon_symm k⟩

/-- `is_equal` between two models is: the types agree, the offsets agree, `linear ==` and `adj ==` -/
theorem isEqual_iff_views (a b : QModel) (ha : WF a) (hb : WF b) :
    isEqual (.model a) (.model b) = .ok true
      ↔ (∀ v ∈ a.vars, a.vartypeOf v = b.vartypeOf v) ∧ a.off = b.off ∧ viewEq .linear a b = true ∧ viewEq .adj a b = true := by
  rw [show isEqual (.model a) (.model b) = modelIsEqualWith true a (.model b) from rfl,
    modelIsEqual_iff_canon a b ha hb, viewEq_iff .linear ha hb, viewEq_iff .adj ha hb]
  constructor
  · intro h
    exact ⟨h.types, h.off, h.lin, labels_of_lin ha hb h.lin, h.quad⟩
  · intro ⟨h1, h2, h3, _, h5⟩
    exact ⟨h1, h2, h3, h5⟩

/-! ### numbers as operands of `==` / `!=` -/

theorem isEqual_num (a : QModel) (x : Rat) :
    isEqual (.model a) (.num x) = .ok (a.vars.isEmpty && decide (a.off = x)) := by
  show modelIsEqualWith true a (.num x) = _
  unfold modelIsEqualWith
  cases a.kind <;> rfl

/-- `bqm == x`, `x == bqm`, `qm == x`, `x == qm` (truth value of the comparison built): no variables and offset `x`;
    `!=` is its negation; the operand order does not matter -/
theorem opEq_num (same : Bool) (a : QModel) (x : Rat) (hk : a.kind ≠ .view) :
    opEq same (.model a) (.num x) = .ok (a.vars.isEmpty && decide (a.off = x))
    ∧ opEq same (.num x) (.model a) = .ok (a.vars.isEmpty && decide (a.off = x))
    ∧ opNe same (.model a) (.num x) = .ok (!(a.vars.isEmpty && decide (a.off = x)))
    ∧ opNe same (.num x) (.model a) = .ok (!(a.vars.isEmpty && decide (a.off = x))) := by
  have hn := isEqual_num a x
  unfold opEq opNe isBqm isQm isNum
  cases hkind : a.kind with
  | bqm vt => simp [hkind, hn, Except.map]
  | qm => simp [hkind, hn, Except.map]
  | view => exact absurd hkind hk

/-- an expression view or a CQM against a number: neither side defines the operator — identity (`False` / `True`) -/
theorem opEq_num_identity (same : Bool) (a : QModel) (c : CqmVal) (x : Rat) (hk : a.kind = .view) :
    opEq same (.model a) (.num x) = .ok same ∧ opEq same (.num x) (.model a) = .ok same
    ∧ opEq same (.cqm c) (.num x) = .ok same ∧ opEq same (.num x) (.cqm c) = .ok same
    ∧ opNe same (.model a) (.num x) = .ok (!same) ∧ opNe same (.num x) (.cqm c) = .ok (!same) := by
  unfold opEq opNe isBqm isQm isNum
  simp only [hk]
  exact ⟨rfl, rfl, rfl, rfl, rfl, rfl⟩

end Eqm
