import DimodProofs.ZipBytes

/-! # The round-8 tiling walk (`tilesFromStrict`): the directory cannot lie about the members it lists  (C10, round 8)

* `tilesFrom_single`: the round-7 walk accepts ANY `compress_size` the directory states for a member (the mechanism of the
  cover-member counterexample);
* `tilesFromStrict_step`: one step of the round-8 walk on a file that holds a written local entry at the walk's position:
  it continues iff the directory entry has the entry's name and the size its local header records;
* `tilesFromStrict_locals`: the walk accepts the entries the writer wrote (no valid file is refused);
* `tilesFromStrict_sound`: WHATEVER directory was found, if the walk passes over written local entries, the listed members
  are those entries, with their names and sizes, in file order, and the walk stands at a member boundary. -/

namespace FileFmt

/-- the size field of the local header, as the round-8 walk reads it, is what the writer recorded for the stored bytes -/
def ZEntry.LocalOK (z : ZEntry) : Prop :=
  localSize (localFixed z) z.lextra = z.stored.length ∧ z.name.length < 256 ^ 2 ∧ z.lextra.length < 256 ^ 2

instance (z : ZEntry) : Decidable z.LocalOK := by unfold ZEntry.LocalOK; infer_instance

theorem localFixed_size (z : ZEntry) : ((localFixed z).drop 18).take 4 = toLE 4 z.lcsize := by
  simp [localFixed, sigLocal, toLE]

/-- an ordinary member: the local header carries the size itself -/
theorem ZEntry.localOK_of_plain (z : ZEntry) (h : z.lcsize = z.stored.length) (hs : z.stored.length < 256 ^ 4 - 1)
    (hn : z.name.length < 256 ^ 2) (he : z.lextra.length < 256 ^ 2) : z.LocalOK := by
  refine ⟨?_, hn, he⟩
  unfold localSize
  rw [localFixed_size]
  have hl : leNat (toLE 4 z.lcsize) = z.lcsize := leNat_toLE 4 _ (by omega)
  have hne : toLE 4 z.lcsize ≠ [255, 255, 255, 255] := by
    intro hc
    rw [hc] at hl
    have : leNat [255, 255, 255, 255] = 256 ^ 4 - 1 := by decide
    omega
  rw [if_neg hne, hl, h]

/-- a member written with `force_zip64=True`: `0xFFFFFFFF` in the header, the sizes at the end of the extra field -/
theorem ZEntry.localOK_of_zip64 (z : ZEntry) (x : Bytes) (h : z.lcsize = 256 ^ 4 - 1) (hx : z.lextra = x ++ toLE 8 z.stored.length)
    (hs : z.stored.length < 256 ^ 8) (hn : z.name.length < 256 ^ 2) (he : z.lextra.length < 256 ^ 2) : z.LocalOK := by
  refine ⟨?_, hn, he⟩
  unfold localSize
  rw [localFixed_size, h]
  have : toLE 4 (256 ^ 4 - 1) = [255, 255, 255, 255] := by decide
  rw [this, if_pos rfl, hx]
  have hd : (x ++ toLE 8 z.stored.length).drop ((x ++ toLE 8 z.stored.length).length - 8) = toLE 8 z.stored.length := by
    rw [List.length_append, toLE_length, Nat.add_sub_cancel, List.drop_left' rfl]
  rw [hd, leNat_toLE 8 _ hs]

/-- **the round-7 walk trusts the directory's size**: for one listed member at the walk's position the walk ends at
    `pos + 30 + name length + extra length + c` for EVERY `compress_size = c` the directory states -/
theorem tilesFrom_single (file : Bytes) (sd ocd pos : Nat) (i : CDInfo) (c : Nat) (h1 : ocd ≤ i.offset + sd)
    (h2 : i.offset + sd - ocd = pos) (h3 : ((file.drop (pos + 26)).take 4).length = 4) :
    tilesFrom file sd ocd pos [{ i with csize := c }] =
      some (pos + 30 + leNat (((file.drop (pos + 26)).take 4).take 2) + leNat (((file.drop (pos + 26)).take 4).drop 2) + c) := by
  simp only [tilesFrom]
  rw [if_neg (by omega), h2]
  simp [h3]

theorem localEntry_split (z : ZEntry) (rest : Bytes) :
    localEntry z ++ rest = localFixed z ++ (z.name ++ (z.lextra ++ (z.stored ++ rest))) := by
  simp [localEntry, List.append_assoc]

/-- one step of the round-8 walk over a written local entry -/
theorem tilesFromStrict_step (sd ocd : Nat) (z : ZEntry) (pre rest : Bytes) (i : CDInfo) (t : List CDInfo)
    (hn : z.name.length < 256 ^ 2) (he : z.lextra.length < 256 ^ 2) :
    tilesFromStrict (pre ++ (localEntry z ++ rest)) sd ocd pre.length (i :: t) =
      if ocd ≤ i.offset + sd ∧ i.offset + sd - ocd = pre.length ∧ localSize (localFixed z) z.lextra = i.csize ∧ z.name = i.name
      then tilesFromStrict (pre ++ (localEntry z ++ rest)) sd ocd (pre.length + 30 + z.name.length + z.lextra.length + i.csize) t
      else none := by
  by_cases h1 : ocd ≤ i.offset + sd
  · by_cases h2 : i.offset + sd - ocd = pre.length
    · have hloc : (pre ++ (localEntry z ++ rest)).drop pre.length = localEntry z ++ rest := List.drop_left' rfl
      have h30 : (localEntry z ++ rest).take 30 = localFixed z := by
        rw [localEntry_split, List.take_left' (localFixed_length z)]
      have hd30 : (localEntry z ++ rest).drop 30 = z.name ++ (z.lextra ++ (z.stored ++ rest)) := by
        rw [localEntry_split, List.drop_left' (localFixed_length z)]
      have hnl : leNat (((localFixed z).drop 26).take 2) = z.name.length := by
        rw [localFixed_lengths, List.take_left' (toLE_length 2 _), leNat_toLE 2 _ hn]
      have hel : leNat (((localFixed z).drop 28).take 2) = z.lextra.length := by
        have : (localFixed z).drop 28 = ((localFixed z).drop 26).drop 2 := by rw [List.drop_drop]
        rw [this, localFixed_lengths, List.drop_left' (toLE_length 2 _), List.take_of_length_le (by rw [toLE_length]; omega),
          leNat_toLE 2 _ he]
      have hname : ((localEntry z ++ rest).drop 30).take z.name.length = z.name := by
        rw [hd30, List.take_left' rfl]
      have hextra : ((localEntry z ++ rest).drop (30 + z.name.length)).take z.lextra.length = z.lextra := by
        rw [← List.drop_drop, hd30, List.drop_left' rfl, List.take_left' rfl]
      have hsig : (localFixed z).take 4 = sigLocal := by simp [localFixed, sigLocal]
      simp only [tilesFromStrict]
      rw [if_neg (by omega), h2, hloc]
      simp only [h30, hnl, hel, hname, hextra, localFixed_length, hsig]
      by_cases h3 : localSize (localFixed z) z.lextra = i.csize
      · by_cases h4 : z.name = i.name
        · rw [if_neg (by simp only [h3, h4, ne_eq, not_true_eq_false, or_self, not_false_eq_true]), if_pos ⟨h1, trivial, h3, h4⟩]
        · rw [if_pos (by simp [h4]), if_neg (by simp [h4])]
      · rw [if_pos (by simp [h3]), if_neg (by simp [h3])]
    · simp only [tilesFromStrict]
      rw [if_neg (by omega), if_pos (Or.inl h2), if_neg (by simp [h2])]
  · simp only [tilesFromStrict]
    rw [if_pos (by omega), if_neg (by simp [h1])]

/-- **no valid file is refused**: the round-8 walk accepts the entries the writer wrote -/
theorem tilesFromStrict_locals (sd ocd : Nat) :
    ∀ (zs : List ZEntry) (pre post : Bytes) (off : Nat), off + sd = pre.length + ocd → (∀ z ∈ zs, z.LocalOK) →
    tilesFromStrict (pre ++ (zipLocals zs ++ post)) sd ocd pre.length (infosOf off zs) = some (pre.length + (zipLocals zs).length)
  | [], _, _, _, _, _ => by simp [tilesFromStrict, infosOf, zipLocals]
  | z :: zs, pre, post, off, hoc, hz => by
    obtain ⟨hsz, hn, he⟩ := hz z (by simp)
    have h2 : pre ++ (zipLocals (z :: zs) ++ post) = pre ++ (localEntry z ++ (zipLocals zs ++ post)) := by simp [zipLocals]
    have h3 : pre ++ (localEntry z ++ (zipLocals zs ++ post)) = (pre ++ localEntry z) ++ (zipLocals zs ++ post) := by simp
    have hrest := tilesFromStrict_locals sd ocd zs (pre ++ localEntry z) post (off + (localEntry z).length)
      (by rw [List.length_append]; omega) (fun y hy => hz y (by simp [hy]))
    have hl : (pre ++ localEntry z).length = pre.length + 30 + z.name.length + z.lextra.length + z.stored.length := by
      rw [List.length_append, localEntry_length]; omega
    rw [h2]
    simp only [infosOf]
    rw [tilesFromStrict_step sd ocd z pre _ _ _ hn he, if_pos ⟨by simp [infoOf]; omega, by simp [infoOf]; omega, by simp [infoOf, hsz], by simp [infoOf]⟩]
    simp only [infoOf]
    rw [h3, ← hl, hrest]
    simp only [zipLocals, List.length_append]
    congr 1; omega

/-- **the directory cannot lie**: whatever entries `infos` the directory lists, if the round-8 walk passes over the written
    local entries `zs` (as many as `infos` has), then the listed names and sizes ARE those of the first `infos.length`
    entries, in file order, and the walk ends at the boundary after them -/
theorem tilesFromStrict_sound (sd ocd : Nat) :
    ∀ (zs : List ZEntry) (pre post : Bytes) (infos : List CDInfo) (p : Nat), (∀ z ∈ zs, z.LocalOK) → infos.length ≤ zs.length →
    tilesFromStrict (pre ++ (zipLocals zs ++ post)) sd ocd pre.length infos = some p →
    infos.map (fun i => (i.name, i.csize)) = (zs.take infos.length).map (fun z => (z.name, z.stored.length)) ∧
    p = pre.length + (zipLocals (zs.take infos.length)).length
  | _, _, _, [], p, _, _, h => by
    simp only [tilesFromStrict, Option.some.injEq] at h
    simp [zipLocals, h.symm]
  | [], _, _, _ :: _, _, _, hlen, _ => by simp at hlen
  | z :: zs, pre, post, i :: t, p, hz, hlen, h => by
    obtain ⟨hsz, hn, he⟩ := hz z (by simp)
    have h2 : pre ++ (zipLocals (z :: zs) ++ post) = pre ++ (localEntry z ++ (zipLocals zs ++ post)) := by simp [zipLocals]
    have h3 : pre ++ (localEntry z ++ (zipLocals zs ++ post)) = (pre ++ localEntry z) ++ (zipLocals zs ++ post) := by simp
    rw [h2, tilesFromStrict_step sd ocd z pre _ i t hn he] at h
    split at h
    · rename_i hc
      obtain ⟨_, _, hcs, hnm⟩ := hc
      have hl : (pre ++ localEntry z).length = pre.length + 30 + z.name.length + z.lextra.length + i.csize := by
        rw [List.length_append, localEntry_length, ← hcs, hsz]; omega
      rw [h3, ← hl] at h
      obtain ⟨ih1, ih2⟩ := tilesFromStrict_sound sd ocd zs (pre ++ localEntry z) post t p (fun y hy => hz y (by simp [hy]))
        (by simp at hlen; omega) h
      refine ⟨?_, ?_⟩
      · simp only [List.map_cons, List.length_cons, List.take_succ_cons, ih1, ← hnm, ← hcs, hsz]
      · rw [ih2]
        simp only [List.length_cons, List.take_succ_cons, zipLocals, List.length_append]
        omega
    · exact absurd h (by simp)

/-- **a cover member is refused**: a directory whose first listed member (at the position of the first written entry)
    states another size than that entry's local header — e.g. a size spanning several real members — fails the walk -/
theorem tilesFromStrict_cover_none (sd ocd : Nat) (z : ZEntry) (pre rest : Bytes) (i : CDInfo) (t : List CDInfo) (hz : z.LocalOK)
    (hc : i.csize ≠ z.stored.length) : tilesFromStrict (pre ++ (localEntry z ++ rest)) sd ocd pre.length (i :: t) = none := by
  obtain ⟨hsz, hn, he⟩ := hz
  rw [tilesFromStrict_step sd ocd z pre rest i t hn he, if_neg]
  intro h
  exact hc (by rw [← h.2.2.1, hsz])

/-- **the round-8 walk refines the round-7 walk**: whenever it passes, the round-7 walk passes with the same end position
    (so everything the round-7 opener refuses, the round-8 opener refuses) -/
theorem tilesFrom_of_strict (file : Bytes) (sd ocd : Nat) :
    ∀ (infos : List CDInfo) (pos p : Nat), tilesFromStrict file sd ocd pos infos = some p → tilesFrom file sd ocd pos infos = some p
  | [], pos, p, h => by simpa [tilesFromStrict, tilesFrom] using h
  | i :: t, pos, p, h => by
    simp only [tilesFromStrict] at h
    split at h
    · exact absurd h (by simp)
    · rename_i hoff
      split at h
      · exact absurd h (by simp)
      · rename_i hc
        simp only [not_or, ne_eq, Decidable.not_not] at hc
        obtain ⟨hpos, h30, _, _, _, _⟩ := hc
        have hlen30 : 30 ≤ (file.drop (i.offset + sd - ocd)).length := by
          rw [List.length_take] at h30; omega
        have hd26 : ((file.drop (i.offset + sd - ocd)).take 30).drop 26 = (file.drop (i.offset + sd - ocd + 26)).take 4 := by
          rw [List.drop_take, List.drop_drop]
        have hl4 : ((file.drop (i.offset + sd - ocd + 26)).take 4).length = 4 := by
          rw [List.length_take, List.length_drop]; rw [List.length_drop] at hlen30; omega
        have hd28 : (((file.drop (i.offset + sd - ocd)).take 30).drop 28).take 2 = ((file.drop (i.offset + sd - ocd + 26)).take 4).drop 2 := by
          have : ((file.drop (i.offset + sd - ocd)).take 30).drop 28 = (((file.drop (i.offset + sd - ocd)).take 30).drop 26).drop 2 := by
            rw [List.drop_drop]
          rw [this, hd26, List.take_of_length_le (by rw [List.length_drop, hl4]; omega)]
        simp only [tilesFrom]
        rw [if_neg hoff, if_neg (by rw [hl4]; simp [hpos])]
        rw [hd26] at h
        rw [hd28] at h
        exact tilesFrom_of_strict file sd ocd t _ p h

theorem openTiled_of_strict (crc32 : Bytes → Nat) (inflate : Bytes → Option Bytes) (start : Nat) (file : Bytes) (ms : List (Bytes × Bytes))
    (h : openTiledStrict crc32 inflate start file = some ms) : openTiled crc32 inflate start file = some ms := by
  unfold openTiledStrict at h
  unfold openTiled
  split at h
  · exact absurd h (by simp)
  · rename_i r hr
    split at h
    · exact absurd h (by simp)
    · rename_i sd hsd
      split at h
      · exact absurd h (by simp)
      · rename_i infos hinf
        split at h
        · rename_i ht
          rw [if_pos (tilesFrom_of_strict file sd r.offsetCd _ _ _ ht)]
          exact h
        · exact absurd h (by simp)

/-- **the round-8 opener accepts every archive the writer appended** (no valid file is refused) -/
theorem openTiledStrict_zipBytes (crc32 : Bytes → Nat) (inflate : Bytes → Option Bytes) (pre : Bytes) (zs : List ZEntry)
    (hz : ∀ z ∈ zs, z.OK crc32 inflate) (hl : ∀ z ∈ zs, z.LocalOK) (hcount : zs.length < 256 ^ 2)
    (hsize : pre.length + (zipLocals zs).length + (zipCD pre.length zs).length < 4294967295) :
    openTiledStrict crc32 inflate pre.length (pre ++ zipBytes pre.length zs) = some (zs.map fun z => (z.name, z.content)) := by
  have h256 : (256 : Nat) ^ 4 = 4294967296 := by decide
  obtain ⟨a, b, c⟩ := eocdRecord_shape zs.length (zipCD pre.length zs).length (pre.length + (zipLocals zs).length)
  obtain ⟨hs, ho, _⟩ := eocdRecord_fields zs.length (zipCD pre.length zs).length (pre.length + (zipLocals zs).length)
    (pre ++ (zipLocals zs ++ zipCD pre.length zs)).length (by omega) (by omega) hcount
  have hfile : pre ++ zipBytes pre.length zs = (pre ++ (zipLocals zs ++ zipCD pre.length zs)) ++
      eocdRecord zs.length (zipCD pre.length zs).length (pre.length + (zipLocals zs).length) := by
    simp [zipBytes, List.append_assoc]
  unfold openTiledStrict
  rw [hfile, endRecData_full _ _ a b c]
  have hxl : (pre ++ (zipLocals zs ++ zipCD pre.length zs)).length = pre.length + (zipLocals zs).length + (zipCD pre.length zs).length := by
    simp; omega
  have hsd : (EndRec.mk (pre ++ (zipLocals zs ++ zipCD pre.length zs)).length
      (eocdRecord zs.length (zipCD pre.length zs).length (pre.length + (zipLocals zs).length))).startDir =
      some (pre.length + (zipLocals zs).length) := by
    unfold EndRec.startDir
    simp only [hs]
    rw [if_neg (by omega)]
    congr 1; omega
  simp only [hsd]
  simp only [hs, ho]
  have hfile1 : (pre ++ (zipLocals zs ++ zipCD pre.length zs)) ++
      eocdRecord zs.length (zipCD pre.length zs).length (pre.length + (zipLocals zs).length) =
      (pre ++ zipLocals zs) ++ (zipCD pre.length zs ++ eocdRecord zs.length (zipCD pre.length zs).length (pre.length + (zipLocals zs).length)) := by
    simp [List.append_assoc]
  have hcd : (((pre ++ (zipLocals zs ++ zipCD pre.length zs)) ++
      eocdRecord zs.length (zipCD pre.length zs).length (pre.length + (zipLocals zs).length)).drop (pre.length + (zipLocals zs).length)).take
        (zipCD pre.length zs).length = zipCD pre.length zs := by
    rw [hfile1, List.drop_left' (by simp), List.take_left' rfl]
  rw [hcd, parseCD_zipCD crc32 inflate zs pre.length _ hz (by omega) (by omega)]
  simp only [sortByOffset_infosOf]
  have hfile2 : (pre ++ (zipLocals zs ++ zipCD pre.length zs)) ++
      eocdRecord zs.length (zipCD pre.length zs).length (pre.length + (zipLocals zs).length) =
      pre ++ (zipLocals zs ++ (zipCD pre.length zs ++ eocdRecord zs.length (zipCD pre.length zs).length (pre.length + (zipLocals zs).length))) := by
    simp [List.append_assoc]
  rw [hfile2, tilesFromStrict_locals _ _ zs pre _ pre.length (by omega) hl, if_pos rfl]
  exact readMembers_locals_shift crc32 inflate _ _ zs pre _ pre.length (by omega) hz

end FileFmt
